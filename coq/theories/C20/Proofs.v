(* C20/Proofs.v : lemmas about the library-circuit models of C20/Model.v *)
From Coq Require Import List Bool Arith Lia.
From QV Require Import C20.Model.
Import ListNotations.

(* ------------------------------------------------------------------ comp_basis_encoder *)
Lemma flip_at pre b rest : flip (length pre) (pre ++ b :: rest) = pre ++ negb b :: rest.
Proof. induction pre as [|x pre IH]; simpl; [reflexivity | now rewrite IH]. Qed.

Lemma run_x_app a b s : run_x (a ++ b) s = run_x b (run_x a s).
Proof. unfold run_x. apply fold_left_app. Qed.

Lemma comp_basis_gen : forall b pre,
  run_x (ones_from (length pre) b) (pre ++ repeat false (length b)) = pre ++ b.
Proof.
  induction b as [|x b IH]; intros pre; simpl; [reflexivity|].
  rewrite run_x_app.
  assert (E : run_x (if x then [length pre] else []) (pre ++ false :: repeat false (length b))
              = (pre ++ [x]) ++ repeat false (length b)).
  { destruct x; simpl.
    - rewrite flip_at. simpl. now rewrite <- app_assoc.
    - now rewrite <- app_assoc. }
  rewrite E.
  replace (S (length pre)) with (length (pre ++ [x])) by (rewrite app_length; simpl; lia).
  rewrite IH. now rewrite <- app_assoc.
Qed.

Lemma comp_basis_correct b : run_x (comp_basis b) (repeat false (length b)) = b.
Proof. exact (comp_basis_gen b []). Qed.

(* the X gates are exactly on the positions holding a 1, ascending *)
Lemma ones_from_spec : forall b i q, In q (ones_from i b) <-> (i <= q /\ nth (q - i) b false = true).
Proof.
  induction b as [|x b IH]; intros i q; simpl.
  - split; [intros [] | intros [_ H]; destruct (q - i); discriminate].
  - rewrite in_app_iff, IH. split.
    + intros [H|[H1 H2]].
      * destruct x; [|destruct H]. destruct H as [<-|[]]. rewrite Nat.sub_diag. split; [lia | reflexivity].
      * split; [lia|]. replace (q - i) with (S (q - S i)) by lia. exact H2.
    + intros [H1 H2]. destruct (q - i) as [|d] eqn:E.
      * left. destruct x; [|discriminate]. left. lia.
      * right. split; [lia|]. replace (q - S i) with d by lia. exact H2.
Qed.

(* ------------------------------------------------------------------ ghz_state *)
Lemma nth_repeat_false i n : nth i (repeat false n) false = false.
Proof. revert i. induction n; intros [|i]; simpl; auto. Qed.

Lemma run_cnots_zeros gs n : run_cnots gs (repeat false n) = repeat false n.
Proof.
  unfold run_cnots. induction gs as [|[c t] gs IH]; simpl; [reflexivity|].
  unfold cnot at 2. simpl. now rewrite nth_repeat_false.
Qed.

Lemma nth_true_prefix q l : nth q (repeat true (S q) ++ l) false = true.
Proof.
  rewrite app_nth1 by (rewrite repeat_length; lia).
  generalize (S q) (Nat.lt_succ_diag_r q). intros m. revert q. induction m; intros q H; [lia|].
  destruct q; simpl; [reflexivity | apply IHm; lia].
Qed.

Lemma repeat_snoc {A} (x : A) n : repeat x n ++ [x] = repeat x (S n).
Proof. induction n; simpl; [reflexivity | now rewrite IHn]. Qed.

Lemma cnot_step q m :
  cnot q (S q) (repeat true (S q) ++ false :: repeat false m) = repeat true (S (S q)) ++ repeat false m.
Proof.
  unfold cnot. rewrite nth_true_prefix.
  pose proof (flip_at (repeat true (S q)) false (repeat false m)) as F. rewrite repeat_length in F.
  rewrite F. simpl negb. rewrite <- (repeat_snoc true (S q)), <- app_assoc. reflexivity.
Qed.

Lemma ghz_chain : forall m q,
  run_cnots (map (fun q => (q, S q)) (seq q m)) (repeat true (S q) ++ repeat false m) = repeat true (S q + m).
Proof.
  induction m as [|m IH]; intros q.
  - simpl. now rewrite app_nil_r, Nat.add_0_r.
  - change (repeat false (S m)) with (false :: repeat false m).
    cbn [seq map]. unfold run_cnots. cbn [fold_left fst snd].
    rewrite cnot_step. fold (run_cnots (map (fun q => (q, S q)) (seq (S q) m))).
    rewrite IH. f_equal. lia.
Qed.

Lemma ghz_correct n : 1 <= n -> ghz_branches n = [repeat false n; repeat true n].
Proof.
  intros H. unfold ghz_branches, h0_branches. cbn [map]. rewrite run_cnots_zeros. f_equal. f_equal.
  destruct n as [|n]; [lia|]. cbn [repeat flip negb]. unfold ghz_cnots.
  replace (S n - 1) with n by lia.
  change (true :: repeat false n) with (repeat true 1 ++ repeat false n).
  rewrite (ghz_chain n 0). reflexivity.
Qed.

(* ------------------------------------------------------------------ QFT: structure for all n *)
Lemma qft_H_iff n sw q : In (QH q) (qft n sw) <-> q < n.
Proof.
  unfold qft. rewrite in_app_iff, in_flat_map. split.
  - intros [[i [Hi H]]|H].
    + apply in_seq in Hi. unfold qft_block in H. destruct H as [H|H].
      * injection H as <-. lia.
      * apply in_map_iff in H as [x [E _]]. discriminate.
    + destruct sw; [|destruct H]. apply in_map_iff in H as [x [E _]]. discriminate.
  - intros H. left. exists q. split; [apply in_seq; lia | now left].
Qed.

Lemma qft_CU1_iff n sw c t k : In (QCU1 c t k) (qft n sw) <-> (t < c < n /\ k = c - t).
Proof.
  unfold qft. rewrite in_app_iff, in_flat_map. split.
  - intros [[i [Hi H]]|H].
    + apply in_seq in Hi. unfold qft_block in H. destruct H as [H|H]; [discriminate|].
      apply in_map_iff in H as [x [E Hx]]. apply in_seq in Hx. injection E as <- <- <-. lia.
    + destruct sw; [|destruct H]. apply in_map_iff in H as [x [E _]]. discriminate.
  - intros [H ->]. left. exists t. split; [apply in_seq; lia|].
    right. apply in_map_iff. exists c. split; [reflexivity | apply in_seq; lia].
Qed.

Lemma qft_SWAP_iff n sw a b : In (QSWAP a b) (qft n sw) <-> (sw = true /\ a < n / 2 /\ b = n - a - 1).
Proof.
  unfold qft. rewrite in_app_iff, in_flat_map. split.
  - intros [[i [Hi H]]|H].
    + unfold qft_block in H. destruct H as [H|H]; [discriminate|].
      apply in_map_iff in H as [x [E _]]. discriminate.
    + destruct sw; [|destruct H]. apply in_map_iff in H as [x [E Hx]]. apply in_seq in Hx.
      injection E as <- <-. repeat split; lia.
  - intros [-> [H ->]]. right. apply in_map_iff. exists a. split; [reflexivity | apply in_seq; lia].
Qed.

Lemma length_flat_map_seq (f : nat -> list qgate) (g : nat -> nat) :
  (forall i, length (f i) = g i) ->
  forall m k, length (flat_map f (seq k m)) = list_sum (map g (seq k m)).
Proof.
  intros H. induction m as [|m IH]; intros k; simpl; [reflexivity|].
  now rewrite app_length, H, IH.
Qed.

Lemma sum_down n : forall m k, k + m = n -> 2 * list_sum (map (fun i => S (n - S i)) (seq k m)) = m * (m + 1).
Proof.
  induction m as [|m IH]; intros k H; simpl; [reflexivity|].
  specialize (IH (S k) ltac:(lia)). nia.
Qed.

Lemma qft_length n sw :
  2 * length (qft n sw) = n * (n + 1) + (if sw then 2 * (n / 2) else 0).
Proof.
  unfold qft. rewrite app_length.
  rewrite (length_flat_map_seq (qft_block n) (fun i => S (n - S i))).
  - pose proof (sum_down n n 0 eq_refl) as SD.
    destruct sw; [rewrite map_length, seq_length | cbn [length]]; lia.
  - intros i. unfold qft_block. simpl. now rewrite map_length, seq_length.
Qed.

(* ------------------------------------------------------------------ Ehrlich walk: checkers *)
Fixpoint bits_eqb (a b : bits) : bool :=
  match a, b with
  | [], [] => true
  | x :: a', y :: b' => Bool.eqb x y && bits_eqb a' b'
  | _, _ => false
  end.

Lemma bits_eqb_eq a : forall b, bits_eqb a b = true <-> a = b.
Proof.
  induction a as [|x a IH]; intros [|y b]; simpl; split; intros H; try discriminate; try reflexivity.
  - apply andb_true_iff in H as [H1 H2]. apply eqb_prop in H1. apply IH in H2. now subst.
  - injection H as -> ->. rewrite eqb_reflx. simpl. now apply IH.
Qed.

Definition memb (s : bits) (l : list bits) : bool := existsb (bits_eqb s) l.

Lemma memb_In s l : memb s l = true <-> In s l.
Proof.
  unfold memb. rewrite existsb_exists. split.
  - intros [x [Hx E]]. apply bits_eqb_eq in E. now subst.
  - intros H. exists s. split; [assumption | now apply bits_eqb_eq].
Qed.

Fixpoint nodupb (l : list bits) : bool :=
  match l with [] => true | x :: l' => negb (memb x l') && nodupb l' end.

Lemma nodupb_NoDup l : nodupb l = true -> NoDup l.
Proof.
  induction l as [|x l IH]; simpl; intros H; [constructor|].
  apply andb_true_iff in H as [H1 H2]. constructor; [|now apply IH].
  intros C. apply memb_In in C. rewrite C in H1. discriminate.
Qed.

Fixpoint hamming (a b : bits) : nat :=
  match a, b with
  | x :: a', y :: b' => (if Bool.eqb x y then 0 else 1) + hamming a' b'
  | _, _ => 0
  end.

Fixpoint adjacent_ok (l : list bits) : bool :=
  match l with
  | a :: ((b :: _) as l') => Nat.eqb (hamming a b) 2 && adjacent_ok l'
  | _ => true
  end.

Fixpoint all_strings (n : nat) : list bits :=
  match n with O => [[]] | S n' => map (cons false) (all_strings n') ++ map (cons true) (all_strings n') end.

Lemma all_strings_complete : forall n s, length s = n -> In s (all_strings n).
Proof.
  induction n as [|n IH]; intros [|b s] H; try discriminate; simpl.
  - now left.
  - injection H as H. apply in_or_app. destruct b; [right | left]; apply in_map; now apply IH.
Qed.

(* moves are consistent with the strings: out position 1 -> 0, in position 0 -> 1, controls = common ones *)
Fixpoint moves_ok (strs : list bits) (moves : list (nat * nat * list nat)) : bool :=
  match strs, moves with
  | a :: ((b :: _) as strs'), (o, i, cs) :: moves' =>
      bits_eqb b (set_nth i true (set_nth o false a)) && nth o a false && negb (nth i a true)
      && forallb (fun c => nth c a false && nth c b false) cs
      && Nat.eqb (length cs + 1) (weight a)
      && moves_ok strs' moves'
  | [_], [] => true
  | _, _ => false
  end.

Definition walk_ok (n k : nat) : bool :=
  match ehrlich (initial_string n k) with
  | None => false
  | Some (strs, moves) =>
      Nat.eqb (length strs) (binom n k)
      && forallb (fun s => Nat.eqb (length s) n && Nat.eqb (weight s) k) strs
      && nodupb strs
      && forallb (fun s => negb (Nat.eqb (weight s) k) || memb s strs) (all_strings n)
      && adjacent_ok strs
      && moves_ok strs moves
  end.

Definition all_walks_ok (nmax : nat) : bool :=
  forallb (fun n => forallb (fun k => walk_ok n k) (seq 1 (n - 1))) (seq 2 (nmax - 1)).

Lemma all_walks_ok_10 : all_walks_ok 10 = true.
Proof. vm_compute. reflexivity. Qed.

Lemma walk_ok_bounded n k : n <= 10 -> 1 <= k < n -> walk_ok n k = true.
Proof.
  intros Hn Hk. pose proof all_walks_ok_10 as H. unfold all_walks_ok in H.
  rewrite forallb_forall in H. specialize (H n ltac:(apply in_seq; lia)).
  rewrite forallb_forall in H. apply H. apply in_seq. lia.
Qed.

(* Prop-level reading of the checker *)
Lemma walk_ok_spec n k :
  walk_ok n k = true ->
  exists strs moves,
    ehrlich (initial_string n k) = Some (strs, moves) /\
    length strs = binom n k /\
    NoDup strs /\
    (forall s, In s strs <-> (length s = n /\ weight s = k)) /\
    adjacent_ok strs = true /\ moves_ok strs moves = true.
Proof.
  unfold walk_ok. destruct (ehrlich (initial_string n k)) as [[strs moves]|]; [|discriminate].
  intros H.
  apply andb_true_iff in H as [H HF]. apply andb_true_iff in H as [H HE].
  apply andb_true_iff in H as [H HD]. apply andb_true_iff in H as [H HC].
  apply andb_true_iff in H as [HA HB].
  exists strs, moves. repeat split; try assumption.
  - now apply Nat.eqb_eq.
  - now apply nodupb_NoDup.
  - rewrite forallb_forall in HB. apply HB in H. apply andb_true_iff in H as [A _]. now apply Nat.eqb_eq.
  - rewrite forallb_forall in HB. apply HB in H. apply andb_true_iff in H as [_ A]. now apply Nat.eqb_eq.
  - intros [L W]. rewrite forallb_forall in HD. specialize (HD s (all_strings_complete n s L)).
    rewrite W, Nat.eqb_refl in HD. simpl in HD. now apply memb_In.
Qed.

(* ------------------------------------------------------------------ RBS chains on unary amplitudes *)
Section RBS.
  Variables (R : Type) (r0 r1 : R) (radd rmul rsub : R -> R -> R) (ropp : R -> R).
  Hypothesis Rring : ring_theory r0 r1 radd rmul rsub ropp (@eq R).
  Add Ring RR : Rring.

  (* RBS(q0, q1, theta) restricted to the unary (Hamming-weight-1) subspace: with a.(q) the amplitude
     of the basis state whose single 1 sits on qubit q, c = cos theta, s = sin theta:
        a'(q0) = c a(q0) - s a(q1)      a'(q1) = s a(q0) + c a(q1)       (gates.RBS matrix) *)
  Definition rbs (q0 q1 : nat) (c s : R) (a : nat -> R) : nat -> R :=
    fun q => if Nat.eqb q q0 then rsub (rmul c (a q0)) (rmul s (a q1))
             else if Nat.eqb q q1 then radd (rmul s (a q0)) (rmul c (a q1))
             else a q.

  (* diagonal loader in data coordinates p = n-1-q: gate number k is RBS(p = k, p = k+1) *)
  Fixpoint run_diag (k : nat) (cs : list (R * R)) (a : nat -> R) : nat -> R :=
    match cs with
    | [] => a
    | (c, s) :: cs' => run_diag (S k) cs' (rbs k (S k) c s a)
    end.

  (* closed form: amplitude r sitting at position k is spread as c0 r, s0 c1 r, s0 s1 c2 r, ... *)
  Fixpoint spread (cs : list (R * R)) (r : R) : list R :=
    match cs with
    | [] => [r]
    | (c, s) :: cs' => rmul c r :: spread cs' (rmul s r)
    end.

  Lemma run_diag_spec : forall cs k a,
    (forall p, k < p -> a p = r0) ->
    forall p, run_diag k cs a p =
      if p <? k then a p else nth (p - k) (spread cs (a k)) r0.
  Proof.
    induction cs as [|[c s] cs IH]; intros k a Z p; simpl.
    - destruct (p <? k) eqn:E; [reflexivity|]. apply Nat.ltb_ge in E.
      destruct (p - k) as [|d] eqn:D.
      + f_equal. lia.
      + rewrite Z by lia. now destruct d.
    - assert (E1 : rbs k (S k) c s a (S k) = rmul s (a k)).
      { unfold rbs. replace (S k =? k) with false by (symmetry; apply Nat.eqb_neq; lia).
        rewrite Nat.eqb_refl, (Z (S k)) by lia. ring. }
      assert (E3 : rbs k (S k) c s a k = rmul c (a k)).
      { unfold rbs. rewrite Nat.eqb_refl, (Z (S k)) by lia. ring. }
      assert (E2 : forall q, q <> k -> q <> S k -> rbs k (S k) c s a q = a q).
      { intros q H1 H2. unfold rbs.
        replace (q =? k) with false by (symmetry; now apply Nat.eqb_neq).
        replace (q =? S k) with false by (symmetry; now apply Nat.eqb_neq). reflexivity. }
      rewrite IH.
      + rewrite E1. destruct (p <? S k) eqn:A1.
        * apply Nat.ltb_lt in A1. destruct (p <? k) eqn:A2.
          -- apply Nat.ltb_lt in A2. apply E2; lia.
          -- apply Nat.ltb_ge in A2. assert (p = k) by lia. subst p.
             rewrite Nat.sub_diag. simpl. exact E3.
        * apply Nat.ltb_ge in A1.
          replace (p <? k) with false by (symmetry; apply Nat.ltb_ge; lia).
          replace (p - k) with (S (p - S k)) by lia. reflexivity.
      + intros q Hq. rewrite E2 by lia. apply Z. lia.
  Qed.

  (* data relation: c_k N_k = x_k, s_k N_k = N_{k+1}; the last "norm" is the last datum itself.
     Then every amplitude times N_0 is the datum: no division, so zero partial norms are covered
     whenever (c_k, s_k) satisfying the two equations exist (arctan2(0,0) = 0 gives c=1, s=0). *)
  Fixpoint loads (cs : list (R * R)) (xs : list R) (N : R) : Prop :=
    match cs, xs with
    | [], [x] => N = x
    | (c, s) :: cs', x :: xs' => rmul c N = x /\ loads cs' xs' (rmul s N)
    | _, _ => False
    end.

  Lemma spread_scale s N : forall cs r,
    map (fun a => rmul a N) (spread cs (rmul s r)) = map (fun a => rmul a (rmul s N)) (spread cs r).
  Proof.
    induction cs as [|[c' s'] cs IHc]; intros r; simpl.
    - f_equal. ring.
    - f_equal; [ring|]. rewrite <- IHc. f_equal. f_equal. ring.
  Qed.

  Lemma spread_loads : forall cs xs N r,
    loads cs xs N -> map (fun a => rmul a N) (spread cs r) = map (fun x => rmul x r) xs.
  Proof.
    induction cs as [|[c s] cs IH]; intros xs N r H; simpl in *.
    - destruct xs as [|x [|y xs]]; try destruct H. simpl. f_equal. ring.
    - destruct xs as [|x xs]; [destruct H|]. destruct H as [H1 H2]. simpl. f_equal.
      + rewrite <- H1. ring.
      + rewrite spread_scale. exact (IH xs (rmul s N) r H2).
  Qed.
  (* ---- tree loader (recursive form): a node with (c, s) sends c r to its left and s r to its right subtree.
     Data relation: c N = N_left, s N = N_right, a leaf's "norm" is the (signed) datum itself.  Then
     amplitude * N_root = datum * r for every leaf -- no division, so all-zero blocks are covered as
     soon as some (c, s) satisfies the two equations there (the repaired code takes theta = 0: c = 1,
     s = 0, and 1 * 0 = 0, 0 * 0 = 0). *)
  Inductive ltree := Leaf (x : R) | Node (c s : R) (l r : ltree).

  Fixpoint tree_data (t : ltree) : list R :=
    match t with Leaf x => [x] | Node _ _ l r => tree_data l ++ tree_data r end.
  Fixpoint spread_tree (t : ltree) (a : R) : list R :=
    match t with Leaf _ => [a] | Node c s l r => spread_tree l (rmul c a) ++ spread_tree r (rmul s a) end.
  Fixpoint loads_tree (t : ltree) (N : R) : Prop :=
    match t with
    | Leaf x => N = x
    | Node c s l r => loads_tree l (rmul c N) /\ loads_tree r (rmul s N)
    end.

  Lemma spread_tree_scale k N : forall t a,
    map (fun u => rmul u N) (spread_tree t (rmul k a)) = map (fun u => rmul u (rmul k N)) (spread_tree t a).
  Proof.
    induction t as [x|c s l IHl r IHr]; intros a; simpl.
    - f_equal. ring.
    - rewrite !map_app. f_equal.
      + replace (rmul c (rmul k a)) with (rmul k (rmul c a)) by ring. apply IHl.
      + replace (rmul s (rmul k a)) with (rmul k (rmul s a)) by ring. apply IHr.
  Qed.

  Lemma spread_tree_loads : forall t N a,
    loads_tree t N -> map (fun u => rmul u N) (spread_tree t a) = map (fun x => rmul x a) (tree_data t).
  Proof.
    induction t as [x|c s l IHl r IHr]; intros N a H; simpl in *.
    - subst. f_equal. ring.
    - destruct H as [Hl Hr]. rewrite !map_app. f_equal.
      + rewrite spread_tree_scale. now apply IHl.
      + rewrite spread_tree_scale. now apply IHr.
  Qed.
End RBS.
