(* C20, round 5: the distributed layout of the QFT (QFT(n, accelerators=...)).
   BOUNDED statements (the bound is part of each statement), proved by computation over the finite domain:
   for 1 <= n <= 9 and EVERY computational basis state x, the gate list qft_dist n sends |x> to the same product
   state as the plain ladder with swaps, qft n true -- whose operator is the DFT for ALL n (Props.qft_ok,
   Props.qft_ok_complex_matrix; the product-state rules are sound for the matrices of Base/Mat.v,
   Props.pstep_rules_agree_with_matrices).  An all-n proof of the distributed layout is NOT given. *)
From Coq Require Import List Bool Arith Lia.
From QV Require Import C20.Model C20.ModelDist C20.ProofsDist.
Import ListNotations.

Theorem qft_distributed_agrees_bounded : forall n, 1 <= n <= 9 -> dist_agrees n = true.
Proof. exact dist_agrees_9. Qed.
Print Assumptions qft_distributed_agrees_bounded.

(* the same numbers of H, SWAP and CU1(pi/2^k) gates (every k) as the plain ladder with swaps *)
Theorem qft_distributed_census_bounded : forall n, 1 <= n <= 40 -> same_census n = true.
Proof. exact same_census_40. Qed.
Print Assumptions qft_distributed_census_bounded.

(* non-vacuity / sanity: the comparison is able to fail -- using the WIRE distance i2 - i1eff for the angle
   (instead of the logical distance) is rejected at n = 4 *)
Definition qft_dist_wrong_block (n i1 : nat) : list qgate :=
  let i1eff := if i1 <? icrit n then i1 else n - i1 - 1 in
  (if i1 <? icrit n then [] else [QSWAP i1 i1eff]) ++
  QH i1eff :: map (fun i2 => QCU1 i2 i1eff (i2 - i1eff)) (seq (S i1) (n - S i1)).
Example wire_distance_angles_rejected :
  forallb (same_product_state 4 (flat_map (qft_dist_wrong_block 4) (seq 0 4)) (qft 4 true)) (all_bits 4) = false.
Proof. vm_compute. reflexivity. Qed.
Example qft_dist_4 :
  map qcode (qft_dist 4) =
  [(0, [0], 0); (1, [1; 0], 1); (1, [2; 0], 2); (1, [3; 0], 3); (0, [1], 0); (1, [2; 1], 1); (1, [3; 1], 2);
   (2, [2; 1], 0); (0, [1], 0); (1, [3; 1], 1); (2, [3; 0], 0); (0, [0], 0)].
Proof. vm_compute. reflexivity. Qed.
