(* Base/Trace.v : the partially commutative monoid of gate lists (Mazurkiewicz traces).

   [teq indep c1 c2]  ("c1 ~ c2") is the least congruence on lists that swaps ADJACENT letters
   which are independent ([indep a b = true]; for circuits: disjoint qubit supports).
   Contents (all self-contained, stdlib only, no axioms):
     * teq : equivalence, congruence for ++, contained in Permutation; block-moving lemmas;
     * sem_respects / run_respects : every interpretation of the letters into a monoid (or
       as state transformers) in which independent letters commute gives equal products /
       equal final states on equivalent lists  -- so measurements, callbacks and channels can
       stay opaque letters;
     * teq_filter_dep : a set of pairwise DEPENDENT letters keeps its subsequence (relative
       order) under ~ ;
     * trace_equiv_b : executable checker, proved SOUND ([trace_equiv_b c1 c2 = true -> c1 ~ c2])
       and, for a reflexive letter equality, COMPLETE (trace_equiv_b_iff: it decides ~);
     * a concrete gate alphabet  (id, qubits, kind)  with  independence = disjoint supports.   *)
From Coq Require Import List Bool Arith Lia Permutation Morphisms Setoid.
Import ListNotations.

Section Trace.
  Context {A : Type}.
  Variable indep : A -> A -> bool.

  Inductive teq : list A -> list A -> Prop :=
  | teq_nil : teq [] []
  | teq_skip x l l' : teq l l' -> teq (x :: l) (x :: l')
  | teq_swap x y l : indep x y = true -> teq (x :: y :: l) (y :: x :: l)
  | teq_trans l l' l'' : teq l l' -> teq l' l'' -> teq l l''.

  Hypothesis indep_sym : forall a b, indep a b = indep b a.

  Lemma teq_refl l : teq l l.
  Proof. induction l; constructor; auto. Qed.

  Lemma teq_sym l l' : teq l l' -> teq l' l.
  Proof.
    induction 1.
    - constructor.
    - constructor; auto.
    - apply teq_swap. rewrite indep_sym; auto.
    - eapply teq_trans; eauto.
  Qed.

  Lemma teq_perm l l' : teq l l' -> Permutation l l'.
  Proof.
    induction 1; auto.
    - apply perm_swap.
    - eapply perm_trans; eauto.
  Qed.

  Lemma teq_length l l' : teq l l' -> length l = length l'.
  Proof. intros H. apply Permutation_length, teq_perm, H. Qed.

  Lemma teq_in l l' x : teq l l' -> In x l -> In x l'.
  Proof. intros H. apply Permutation_in, teq_perm, H. Qed.

  Lemma teq_nil_inv l : teq [] l -> l = [].
  Proof. intros H. apply Permutation_nil, teq_perm, H. Qed.

  Lemma teq_app_head l m m' : teq m m' -> teq (l ++ m) (l ++ m').
  Proof. intros H. induction l; simpl; auto. constructor; auto. Qed.

  Lemma teq_app_tail l l' m : teq l l' -> teq (l ++ m) (l' ++ m).
  Proof.
    induction 1; simpl.
    - apply teq_refl.
    - constructor; auto.
    - apply teq_swap; auto.
    - eapply teq_trans; eauto.
  Qed.

  Lemma teq_app l l' m m' : teq l l' -> teq m m' -> teq (l ++ m) (l' ++ m').
  Proof.
    intros H1 H2. eapply teq_trans.
    - apply teq_app_tail; eauto.
    - apply teq_app_head; auto.
  Qed.

  (* [a] is independent of every letter of [l] *)
  Definition indep_all (a : A) (l : list A) : Prop := forall x, In x l -> indep a x = true.
  (* every letter of [l1] is independent of every letter of [l2] *)
  Definition indep_blocks (l1 l2 : list A) : Prop :=
    forall x y, In x l1 -> In y l2 -> indep x y = true.

  Lemma teq_cons_snoc a l : indep_all a l -> teq (a :: l) (l ++ [a]).
  Proof.
    induction l as [|x l IH]; intros H; simpl.
    - apply teq_refl.
    - eapply teq_trans.
      + apply teq_swap. apply H; left; auto.
      + constructor. apply IH. intros y Hy. apply H; right; auto.
  Qed.

  (* a letter that is independent of everything before it can be pulled to the front *)
  Lemma teq_pull_front a l1 l2 : indep_all a l1 -> teq (l1 ++ a :: l2) (a :: l1 ++ l2).
  Proof.
    intros H. change (a :: l1 ++ l2) with ((a :: l1) ++ l2).
    replace (l1 ++ a :: l2) with ((l1 ++ [a]) ++ l2) by (rewrite <- app_assoc; auto).
    apply teq_app_tail. apply teq_sym. apply teq_cons_snoc; auto.
  Qed.

  Lemma teq_blocks_swap l1 l2 : indep_blocks l1 l2 -> teq (l1 ++ l2) (l2 ++ l1).
  Proof.
    revert l2. induction l1 as [|a l1 IH]; intros l2 H; simpl.
    - rewrite app_nil_r. apply teq_refl.
    - eapply teq_trans.
      + constructor. apply IH. intros x y Hx Hy. apply H; simpl; auto.
      + apply teq_sym. apply teq_pull_front. intros x Hx. apply H; simpl; auto.
  Qed.

  (* move a block over an independent block in the middle of a word *)
  Lemma teq_blocks_swap_mid p l1 l2 s :
    indep_blocks l1 l2 -> teq (p ++ l1 ++ l2 ++ s) (p ++ l2 ++ l1 ++ s).
  Proof.
    intros H. apply teq_app_head. rewrite !app_assoc. apply teq_app_tail.
    apply teq_blocks_swap; auto.
  Qed.

  Lemma indep_blocks_sym l1 l2 : indep_blocks l1 l2 -> indep_blocks l2 l1.
  Proof. intros H x y Hx Hy. rewrite indep_sym. apply H; auto. Qed.

  (* ---- interpretations --------------------------------------------------------------- *)
  Section Sem.
    Context {M : Type}.
    Variable op : M -> M -> M.
    Variable e : M.
    Hypothesis op_assoc : forall x y z, op x (op y z) = op (op x y) z.
    Variable f : A -> M.
    Hypothesis f_comm : forall a b, indep a b = true -> op (f a) (f b) = op (f b) (f a).

    Definition tprod (l : list A) : M := fold_right (fun a m => op (f a) m) e l.

    Lemma sem_respects l1 l2 : teq l1 l2 -> tprod l1 = tprod l2.
    Proof.
      induction 1; simpl.
      - reflexivity.
      - now rewrite IHteq.
      - rewrite !op_assoc. now rewrite (f_comm x y).
      - congruence.
    Qed.
  End Sem.

  Section Run.
    Context {S : Type}.
    Variable act : A -> S -> S.
    Hypothesis act_comm : forall a b s, indep a b = true -> act a (act b s) = act b (act a s).

    Definition trun (l : list A) (s : S) : S := fold_left (fun s a => act a s) l s.

    Lemma run_respects l1 l2 : teq l1 l2 -> forall s, trun l1 s = trun l2 s.
    Proof.
      induction 1; intros s; simpl.
      - reflexivity.
      - apply IHteq.
      - now rewrite (act_comm y x s) by (now rewrite indep_sym).
      - now rewrite IHteq1.
    Qed.

    Lemma trun_app l1 l2 s : trun (l1 ++ l2) s = trun l2 (trun l1 s).
    Proof. unfold trun. apply fold_left_app. Qed.
  End Run.

  (* the same for partial structures: only [valid] letters, only states satisfying an invariant
     [P] (e.g. well-shaped matrices, where matrix multiplication is associative) *)
  Section RunOn.
    Context {S : Type}.
    Variable act : A -> S -> S.
    Variable valid : A -> Prop.
    Variable P : S -> Prop.
    Hypothesis P_act : forall a s, valid a -> P s -> P (act a s).
    Hypothesis act_comm_on : forall a b s, valid a -> valid b -> P s -> indep a b = true ->
      act a (act b s) = act b (act a s).

    Lemma trun_P l s : Forall valid l -> P s -> P (trun act l s).
    Proof.
      revert s. induction l as [|a l IH]; intros s Hv Hs; simpl; auto.
      inversion Hv; subst. apply IH; auto.
    Qed.

    Lemma run_respects_on l1 l2 : teq l1 l2 -> Forall valid l1 ->
      forall s, P s -> trun act l1 s = trun act l2 s.
    Proof.
      induction 1 as [|x l l' H IH|x y l Hxy|l l' l'' H1 IH1 H2 IH2]; intros Hv s Hs; simpl.
      - reflexivity.
      - inversion Hv; subst. apply IH; auto.
      - inversion Hv as [|? ? Hx Hv']; subst. inversion Hv' as [|? ? Hy Hv'']; subst.
        rewrite (act_comm_on y x s) by (auto; now rewrite indep_sym). reflexivity.
      - rewrite IH1 by auto. apply IH2; auto.
        eapply Permutation_Forall; [apply teq_perm; exact H1|exact Hv].
    Qed.
  End RunOn.

  (* ---- dependent letters keep their relative order ------------------------------------ *)
  Lemma teq_filter_dep (p : A -> bool) :
    (forall x y, p x = true -> p y = true -> indep x y = true -> x = y) ->
    forall l1 l2, teq l1 l2 -> filter p l1 = filter p l2.
  Proof.
    intros Hp. induction 1; simpl.
    - reflexivity.
    - now rewrite IHteq.
    - destruct (p x) eqn:Px, (p y) eqn:Py; auto.
      rewrite (Hp x y Px Py H). reflexivity.
    - congruence.
  Qed.

  (* ---- the checker ---------------------------------------------------------------------- *)
  Variable eqb : A -> A -> bool.
  Hypothesis eqb_eq : forall a b, eqb a b = true -> a = b.

  (* remove the first occurrence of [a] from [l], provided every letter before it is
     independent of [a] *)
  Fixpoint extract (a : A) (l : list A) : option (list A) :=
    match l with
    | [] => None
    | x :: l' =>
        if eqb a x then Some l'
        else if indep a x then
               match extract a l' with Some r => Some (x :: r) | None => None end
             else None
    end.

  Fixpoint trace_equiv_b (c1 c2 : list A) : bool :=
    match c1 with
    | [] => match c2 with [] => true | _ :: _ => false end
    | a :: c1' =>
        match extract a c2 with
        | Some c2' => trace_equiv_b c1' c2'
        | None => false
        end
    end.

  Lemma extract_sound a l r : extract a l = Some r -> teq l (a :: r).
  Proof.
    revert r. induction l as [|x l IH]; intros r H; simpl in H.
    - discriminate.
    - destruct (eqb a x) eqn:E.
      + apply eqb_eq in E. subst x. inversion H; subst. apply teq_refl.
      + destruct (indep a x) eqn:I; [|discriminate].
        destruct (extract a l) as [r'|] eqn:Er; [|discriminate].
        inversion H; subst. eapply teq_trans.
        * constructor. apply IH. reflexivity.
        * apply teq_swap. now rewrite indep_sym.
  Qed.

  Theorem trace_equiv_b_sound c1 c2 : trace_equiv_b c1 c2 = true -> teq c1 c2.
  Proof.
    revert c2. induction c1 as [|a c1 IH]; intros c2 H; simpl in H.
    - destruct c2; [constructor | discriminate].
    - destruct (extract a c2) as [c2'|] eqn:E; [|discriminate].
      apply teq_sym. eapply teq_trans.
      + apply extract_sound; eauto.
      + constructor. apply teq_sym. apply IH; auto.
  Qed.

  (* completeness: with a reflexive [eqb] the checker decides ~ (so [false] refutes equivalence) *)
  Hypothesis eqb_refl : forall a, eqb a a = true.

  Lemma extract_teq a m1 m2 : teq m1 m2 -> forall r1, extract a m1 = Some r1 ->
    exists r2, extract a m2 = Some r2 /\ teq r1 r2.
  Proof.
    induction 1 as [|x l l' H IH|x y l Hxy|l l' l'' H1 IH1 H2 IH2]; intros r1 E.
    - discriminate.
    - simpl in *. destruct (eqb a x).
      + inversion E; subst. eauto.
      + destruct (indep a x); [|discriminate].
        destruct (extract a l) as [r|] eqn:Er; [|discriminate]. inversion E; subst.
        destruct (IH r eq_refl) as [r2 [E2 T2]]. rewrite E2. eexists; split; eauto.
        constructor; auto.
    - simpl in *. destruct (eqb a x) eqn:Eax.
      + inversion E; subst. apply eqb_eq in Eax. subst x.
        destruct (eqb a y) eqn:Eay.
        * apply eqb_eq in Eay. subst y. eexists; split; eauto. apply teq_refl.
        * rewrite ?Hxy. cbn [extract]. rewrite ?eqb_refl. eexists; split; eauto. apply teq_refl.
      + destruct (indep a x) eqn:Iax; [|discriminate].
        destruct (eqb a y) eqn:Eay.
        * inversion E; subst. eexists; split; eauto. apply teq_refl.
        * destruct (indep a y) eqn:Iay; [|discriminate].
          destruct (extract a l) as [r|] eqn:Er; [|discriminate]. inversion E; subst.
          eexists; split; eauto. apply teq_swap; auto.
    - destruct (IH1 r1 E) as [r2 [E2 T2]]. destruct (IH2 r2 E2) as [r3 [E3 T3]].
      exists r3. split; auto. eapply teq_trans; eauto.
  Qed.

  Theorem trace_equiv_b_complete c1 c2 : teq c1 c2 -> trace_equiv_b c1 c2 = true.
  Proof.
    revert c2. induction c1 as [|a c1 IH]; intros c2 H.
    - apply teq_nil_inv in H. subst. reflexivity.
    - simpl. assert (extract a (a :: c1) = Some c1) as E by (simpl; now rewrite eqb_refl).
      destruct (extract_teq a _ _ H c1 E) as [r2 [E2 T2]]. rewrite E2. apply IH; auto.
  Qed.

  Theorem trace_equiv_b_iff c1 c2 : trace_equiv_b c1 c2 = true <-> teq c1 c2.
  Proof. split; [apply trace_equiv_b_sound | apply trace_equiv_b_complete]. Qed.
End Trace.

Arguments teq {A} indep _ _.
Arguments indep_all {A} indep _ _.
Arguments indep_blocks {A} indep _ _.
Arguments trace_equiv_b {A} indep eqb _ _.
Arguments extract {A} indep eqb _ _.
Arguments tprod {A M} op e f _.
Arguments trun {A S} act _ _.

(* teq as a setoid, with ++ and :: as morphisms, for rewriting *)
Section TraceSetoid.
  Context {A : Type} (indep : A -> A -> bool).
  Hypothesis indep_sym : forall a b, indep a b = indep b a.

  Lemma teq_equivalence : Equivalence (teq indep).
  Proof.
    split.
    - intros l; apply teq_refl.
    - intros l l'; apply teq_sym; auto.
    - intros l l' l''; apply teq_trans.
  Qed.
End TraceSetoid.

(* a weaker independence relation gives a finer equivalence *)
Lemma teq_mono {A} (i1 i2 : A -> A -> bool) :
  (forall a b, i1 a b = true -> i2 a b = true) ->
  forall l l', teq i1 l l' -> teq i2 l l'.
Proof.
  intros H l l' E. induction E.
  - constructor.
  - constructor; auto.
  - apply teq_swap; auto.
  - eapply teq_trans; eauto.
Qed.

(* ------------------------------------------------------------------------------------------ *)
(* Finite sets of qubits as lists of nat; independence from supports                          *)
Definition memb (x : nat) (l : list nat) : bool := existsb (Nat.eqb x) l.
Definition disjointb (l1 l2 : list nat) : bool := forallb (fun x => negb (memb x l2)) l1.
Definition subsetb (l1 l2 : list nat) : bool := forallb (fun x => memb x l2) l1.

Lemma memb_In x l : memb x l = true <-> In x l.
Proof.
  unfold memb. rewrite existsb_exists. split.
  - intros [y [Hy E]]. apply Nat.eqb_eq in E. now subst.
  - intros H. exists x. split; auto. apply Nat.eqb_refl.
Qed.

Lemma memb_false x l : memb x l = false <-> ~ In x l.
Proof.
  rewrite <- memb_In. destruct (memb x l); split; intros H; congruence.
Qed.

Lemma disjointb_spec l1 l2 : disjointb l1 l2 = true <-> (forall x, In x l1 -> ~ In x l2).
Proof.
  unfold disjointb. rewrite forallb_forall. split; intros H x Hx.
  - apply H in Hx. apply negb_true_iff in Hx. now apply memb_false.
  - apply negb_true_iff. apply memb_false. auto.
Qed.

Lemma disjointb_false l1 l2 : disjointb l1 l2 = false <-> exists x, In x l1 /\ In x l2.
Proof.
  split.
  - intros H. induction l1 as [|a l1 IH]; simpl in H; [discriminate|].
    apply andb_false_iff in H. destruct H as [H|H].
    + apply negb_false_iff in H. apply memb_In in H. exists a; simpl; auto.
    + destruct (IH H) as [x [H1 H2]]. exists x; simpl; auto.
  - intros [x [H1 H2]]. destruct (disjointb l1 l2) eqn:E; auto.
    rewrite disjointb_spec in E. exfalso. eapply E; eauto.
Qed.

Lemma disjointb_sym l1 l2 : disjointb l1 l2 = disjointb l2 l1.
Proof.
  destruct (disjointb l1 l2) eqn:E1, (disjointb l2 l1) eqn:E2; auto.
  - rewrite disjointb_spec in E1. apply disjointb_false in E2.
    destruct E2 as [x [H1 H2]]. exfalso. eapply E1; eauto.
  - rewrite disjointb_spec in E2. apply disjointb_false in E1.
    destruct E1 as [x [H1 H2]]. exfalso. eapply E2; eauto.
Qed.

Lemma subsetb_spec l1 l2 : subsetb l1 l2 = true <-> incl l1 l2.
Proof.
  unfold subsetb, incl. rewrite forallb_forall. split; intros H x Hx.
  - apply memb_In. auto.
  - apply memb_In. auto.
Qed.

Lemma disjointb_incl l1 l2 m1 m2 :
  incl m1 l1 -> incl m2 l2 -> disjointb l1 l2 = true -> disjointb m1 m2 = true.
Proof.
  rewrite !disjointb_spec. intros H1 H2 H x Hx Hx2. eapply H; eauto.
Qed.

Section Support.
  Context {A : Type}.
  Variable supp : A -> list nat.
  Definition sindep (a b : A) : bool := disjointb (supp a) (supp b).
  Lemma sindep_sym a b : sindep a b = sindep b a.
  Proof. apply disjointb_sym. Qed.
End Support.

(* ------------------------------------------------------------------------------------------ *)
(* The concrete alphabet used for circuits: a gate is (identity, qubits, kind).               *)
Inductive gkind := KOrd | KMeas | KSpec.
Record gate := mkGate { gid : nat; gqs : list nat; gk : gkind }.

Definition gkind_eqb (a b : gkind) : bool :=
  match a, b with KOrd, KOrd | KMeas, KMeas | KSpec, KSpec => true | _, _ => false end.
Fixpoint natlist_eqb (l1 l2 : list nat) : bool :=
  match l1, l2 with
  | [], [] => true
  | x :: l1', y :: l2' => Nat.eqb x y && natlist_eqb l1' l2'
  | _, _ => false
  end.
Definition gate_eqb (a b : gate) : bool :=
  Nat.eqb (gid a) (gid b) && natlist_eqb (gqs a) (gqs b) && gkind_eqb (gk a) (gk b).

Lemma natlist_eqb_eq l1 l2 : natlist_eqb l1 l2 = true <-> l1 = l2.
Proof.
  revert l2. induction l1 as [|x l1 IH]; destruct l2 as [|y l2]; simpl; split; intros H;
    try discriminate; auto.
  - apply andb_true_iff in H. destruct H as [H1 H2]. apply Nat.eqb_eq in H1.
    apply IH in H2. congruence.
  - inversion H; subst. rewrite Nat.eqb_refl. simpl. now apply IH.
Qed.

Lemma gkind_eqb_eq a b : gkind_eqb a b = true <-> a = b.
Proof. destruct a, b; simpl; split; intros; congruence. Qed.

Lemma gate_eqb_eq a b : gate_eqb a b = true <-> a = b.
Proof.
  unfold gate_eqb. destruct a as [i q k], b as [i' q' k']; simpl. split.
  - intros H. apply andb_true_iff in H. destruct H as [H H3].
    apply andb_true_iff in H. destruct H as [H1 H2].
    apply Nat.eqb_eq in H1. apply natlist_eqb_eq in H2. apply gkind_eqb_eq in H3. congruence.
  - intros H. inversion H; subst. rewrite Nat.eqb_refl.
    assert (natlist_eqb q' q' = true) as -> by now apply natlist_eqb_eq.
    assert (gkind_eqb k' k' = true) as -> by now apply gkind_eqb_eq. reflexivity.
Qed.

Lemma gate_eqb_refl a : gate_eqb a a = true.
Proof. now apply gate_eqb_eq. Qed.

(* support of a gate inside an n-qubit circuit: a special gate (callback, fused group given as
   input, ...) is treated as touching every qubit, so nothing may move across it *)
Definition gsupp (n : nat) (g : gate) : list nat :=
  match gk g with KSpec => seq 0 n | _ => gqs g end.

(* independence with the plain qubit lists / with special gates blocking everything *)
Definition gindep : gate -> gate -> bool := sindep gqs.
Definition gindepn (n : nat) : gate -> gate -> bool := sindep (gsupp n).

Definition gteq : list gate -> list gate -> Prop := teq gindep.
Definition gteqn (n : nat) : list gate -> list gate -> Prop := teq (gindepn n).

Definition gtrace_equiv_b : list gate -> list gate -> bool := trace_equiv_b gindep gate_eqb.
Definition gtrace_equivn_b (n : nat) : list gate -> list gate -> bool :=
  trace_equiv_b (gindepn n) gate_eqb.

Theorem gtrace_equiv_b_sound c1 c2 : gtrace_equiv_b c1 c2 = true -> gteq c1 c2.
Proof.
  apply trace_equiv_b_sound.
  - apply sindep_sym.
  - intros a b H. now apply gate_eqb_eq.
Qed.

Theorem gtrace_equivn_b_sound n c1 c2 : gtrace_equivn_b n c1 c2 = true -> gteqn n c1 c2.
Proof.
  apply trace_equiv_b_sound.
  - apply sindep_sym.
  - intros a b H. now apply gate_eqb_eq.
Qed.

(* the checkers decide the equivalence: [false] means the two words are NOT equivalent *)
Theorem gtrace_equiv_b_iff c1 c2 : gtrace_equiv_b c1 c2 = true <-> gteq c1 c2.
Proof.
  apply trace_equiv_b_iff.
  - apply sindep_sym.
  - intros a b H. now apply gate_eqb_eq.
  - apply gate_eqb_refl.
Qed.

Theorem gtrace_equivn_b_iff n c1 c2 : gtrace_equivn_b n c1 c2 = true <-> gteqn n c1 c2.
Proof.
  apply trace_equiv_b_iff.
  - apply sindep_sym.
  - intros a b H. now apply gate_eqb_eq.
  - apply gate_eqb_refl.
Qed.

(* non-vacuity: two equivalent and two inequivalent words *)
Example gtrace_example_true :
  gtrace_equiv_b [mkGate 0 [0;1] KOrd; mkGate 1 [2] KOrd; mkGate 2 [1] KMeas]
                 [mkGate 1 [2] KOrd; mkGate 0 [0;1] KOrd; mkGate 2 [1] KMeas] = true.
Proof. reflexivity. Qed.
Example gtrace_example_false :
  gtrace_equiv_b [mkGate 0 [0;1] KOrd; mkGate 2 [1] KMeas] [mkGate 2 [1] KMeas; mkGate 0 [0;1] KOrd] = false.
Proof. reflexivity. Qed.
