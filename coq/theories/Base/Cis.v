(* Base/Cis.v : cis x = e^{ix} over Coquelicot's C, the facts TrigNF needs. *)
From Coq Require Import Reals ZArith QArith Qreals Lra Lia.
From Coquelicot Require Import Complex.
Local Open Scope R_scope.

Definition cis (x : R) : C := (cos x, sin x).

Lemma cis_add x y : cis (x + y) = Cmult (cis x) (cis y).
Proof. unfold cis, Cmult; simpl. rewrite cos_plus, sin_plus. f_equal; ring. Qed.

Lemma cis_0 : cis 0 = RtoC 1.
Proof. unfold cis, RtoC. now rewrite cos_0, sin_0. Qed.

Lemma cis_conj x : Cconj (cis x) = cis (- x).
Proof. unfold cis, Cconj; simpl. now rewrite cos_neg, sin_neg. Qed.

Lemma cis_PI : cis PI = RtoC (-1).
Proof. unfold cis, RtoC. now rewrite cos_PI, sin_PI. Qed.

Lemma cis_PI2 : cis (PI / 2) = Ci.
Proof. unfold cis, Ci. now rewrite cos_PI2, sin_PI2. Qed.

Lemma cis_neg_mult x : Cmult (cis x) (cis (- x)) = RtoC 1.
Proof. rewrite <- cis_add. replace (x + - x) with 0 by ring. apply cis_0. Qed.

Definition sgnZ (z : Z) : R := if Z.even z then 1 else -1.

Lemma cis_nat_PI (n : nat) : cis (INR n * PI) = RtoC (sgnZ (Z.of_nat n)).
Proof.
  induction n as [|n IH].
  - simpl. rewrite Rmult_0_l. apply cis_0.
  - rewrite S_INR. replace ((INR n + 1) * PI) with (INR n * PI + PI) by ring.
    rewrite cis_add, IH, cis_PI. rewrite Nat2Z.inj_succ. unfold sgnZ.
    rewrite Z.even_succ, <- Z.negb_even.
    destruct (Z.even (Z.of_nat n)); simpl; unfold RtoC, Cmult; simpl; f_equal; ring.
Qed.

Lemma cis_Z_PI (z : Z) : cis (IZR z * PI) = RtoC (sgnZ z).
Proof.
  destruct (Z_le_gt_dec 0 z) as [H|H].
  - rewrite <- (Z2Nat.id z H) at 1. rewrite <- INR_IZR_INZ. rewrite cis_nat_PI.
    now rewrite Z2Nat.id.
  - assert (Hn : (0 <= - z)%Z) by lia.
    replace (IZR z * PI) with (- (IZR (- z) * PI)) by (rewrite opp_IZR; ring).
    rewrite <- cis_conj. rewrite <- (Z2Nat.id (-z) Hn) at 1.
    rewrite <- INR_IZR_INZ, cis_nat_PI, Z2Nat.id by exact Hn.
    unfold sgnZ. rewrite Z.even_opp. unfold Cconj, RtoC; simpl. f_equal. ring.
Qed.

Lemma sqrt2_cos : sqrt 2 = 2 * cos (PI / 4).
Proof.
  rewrite cos_PI4.
  assert (Hs : sqrt 2 * sqrt 2 = 2) by (apply sqrt_sqrt; lra).
  assert (Hn : sqrt 2 <> 0) by (apply Rgt_not_eq, Rlt_gt, Rlt_sqrt2_0).
  rewrite <- Hs at 2. field. exact Hn.
Qed.

Lemma sin_as_cos x : sin x = cos (x - PI / 2).
Proof. replace (x - PI/2) with (- (PI/2 - x)) by ring. now rewrite cos_neg, cos_shift. Qed.

Lemma cos_as_cis x : RtoC (cos x) = Cplus (Cmult (RtoC (/2)) (cis x)) (Cmult (RtoC (/2)) (cis (- x))).
Proof.
  unfold cis, RtoC, Cplus, Cmult; simpl. rewrite cos_neg, sin_neg. f_equal; field.
Qed.
