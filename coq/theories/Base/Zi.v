(* Base/Zi.v : Gaussian integers Z[i] as pairs, executable and exact; the carrier used by
   the correspondence runs (the real backend is run on integer-valued complex data). *)
From Coq Require Import ZArith List.
From QV Require Import Base.Mat.
Import ListNotations.
Local Open Scope Z_scope.

Definition Zi := (Z * Z)%type.
Definition zi (a b : Z) : Zi := (a, b).
Definition zi0 : Zi := (0, 0).
Definition zi1 : Zi := (1, 0).
Definition zii : Zi := (0, 1).
Definition zi_add (x y : Zi) : Zi := (fst x + fst y, snd x + snd y).
Definition zi_opp (x : Zi) : Zi := (- fst x, - snd x).
Definition zi_sub (x y : Zi) : Zi := zi_add x (zi_opp y).
Definition zi_mul (x y : Zi) : Zi := (fst x * fst y - snd x * snd y, fst x * snd y + snd x * fst y).
Definition zi_conj (x : Zi) : Zi := (fst x, - snd x).
Definition zi_norm2 (x : Zi) : Z := fst x * fst x + snd x * snd x.
Definition zi_eqb (x y : Zi) : bool := (fst x =? fst y) && (snd x =? snd y).

Definition Ziops : ops Zi := mkops Zi zi0 zi1 zi_add zi_mul.

Lemma zi_add_comm x y : zi_add x y = zi_add y x.
Proof. unfold zi_add. f_equal; ring. Qed.
Lemma zi_add_assoc x y z : zi_add x (zi_add y z) = zi_add (zi_add x y) z.
Proof. unfold zi_add; simpl. f_equal; ring. Qed.
Lemma zi_mul_comm x y : zi_mul x y = zi_mul y x.
Proof. unfold zi_mul. f_equal; ring. Qed.
Lemma zi_mul_assoc x y z : zi_mul x (zi_mul y z) = zi_mul (zi_mul x y) z.
Proof. unfold zi_mul; simpl. f_equal; ring. Qed.
Lemma zi_mul_add_l x y z : zi_mul x (zi_add y z) = zi_add (zi_mul x y) (zi_mul x z).
Proof. unfold zi_mul, zi_add; simpl. f_equal; ring. Qed.
Lemma zi_add_0_l x : zi_add zi0 x = x.
Proof. destruct x; unfold zi_add; simpl. reflexivity. Qed.
Lemma zi_mul_1_l x : zi_mul zi1 x = x.
Proof. destruct x as [a b]; unfold zi_mul, zi1; cbn [fst snd]. f_equal; ring. Qed.
Lemma zi_mul_0_l x : zi_mul zi0 x = zi0.
Proof. destruct x; unfold zi_mul, zi0; simpl. reflexivity. Qed.
Lemma zi_conj_mul x y : zi_conj (zi_mul x y) = zi_mul (zi_conj x) (zi_conj y).
Proof. unfold zi_conj, zi_mul; simpl. f_equal; ring. Qed.
Lemma zi_conj_add x y : zi_conj (zi_add x y) = zi_add (zi_conj x) (zi_conj y).
Proof. unfold zi_conj, zi_add; simpl. f_equal; ring. Qed.
