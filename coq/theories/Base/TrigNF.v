(* Base/TrigNF.v : reflexive normaliser for trigonometric-polynomial identities.

   An angle form ("aff") is a list of rationals [c0; c1; ...; cm] meaning
       c0 * PI + c1 * th_0 + ... + cm * th_(m-1)
   under an assignment th : nat -> R.  A monomial is e^{i * aff}; a polynomial a
   finite Q-linear combination of monomials (the group ring of the additive group
   of angle forms modulo 2*PI).  [norm] maps expressions built from rational
   constants, i, sqrt 2, cos/sin/exp(i.) of angle forms, +, *, -, conj into such
   polynomials, and [pzero] decides whether all coefficients vanish.  Only
   soundness is needed (and proved):   pzero (norm e) = true -> denote e th = 0
   for every assignment th.  No proofs by computation on reals are involved: the
   boolean is computed on Q, the lemma transfers it to R/C. *)
From Coq Require Import Reals ZArith QArith Qreals Qround List Lra Lia Bool.
From Coquelicot Require Import Complex.
From QV Require Import Base.Cis.
Import ListNotations.

Arguments Qred : simpl never.
Arguments Qplus : simpl never.
Arguments Qmult : simpl never.
Arguments Qopp : simpl never.
Arguments Qminus : simpl never.
Arguments Qfloor : simpl never.

(* ------------------------------------------------------------------ *)
(* Angle forms *)

Definition aff := list Q.

Definition env (th : nat -> R) (i : nat) : R :=
  match i with O => PI | S j => th j end.

Fixpoint aang_from (th : nat -> R) (i : nat) (a : aff) : R :=
  match a with
  | [] => 0%R
  | c :: a' => (Q2R c * env th i + aang_from th (S i) a')%R
  end.

Definition aang (th : nat -> R) (a : aff) : R := aang_from th 0 a.

Fixpoint aadd (a b : aff) : aff :=
  match a, b with
  | [], _ => b
  | _, [] => a
  | x :: a', y :: b' => Qred (x + y) :: aadd a' b'
  end.

Definition ascale (q : Q) (a : aff) : aff := map (fun x => Qred (q * x)) a.
Definition aneg (a : aff) : aff := ascale (-1 # 1) a.
Definition api (q : Q) : aff := [q].
Fixpoint avar (j : nat) : aff :=       (* th_j *)
  match j with O => [0; 1]%Q | S j' =>
    match avar j' with [] => [] | c :: r => c :: 0%Q :: r end end.

Definition azero (a : aff) : bool := forallb (fun x => Qeq_bool x 0) a.

Fixpoint aeqb (a b : aff) : bool :=
  match a, b with
  | [], _ => azero b
  | _ :: _, [] => azero a
  | x :: a', y :: b' => Qeq_bool x y && aeqb a' b'
  end.

Definition acomb (cpi : Q) (l : list (Q * aff)) : aff :=
  fold_right (fun ca acc => aadd (ascale (fst ca) (snd ca)) acc) (api cpi) l.

Lemma Q2R_Qred q : Q2R (Qred q) = Q2R q.
Proof. apply Qeq_eqR, Qred_correct. Qed.

Lemma aang_from_aadd th a : forall b i,
  aang_from th i (aadd a b) = (aang_from th i a + aang_from th i b)%R.
Proof.
  induction a as [|x a IH]; intros [|y b] i; simpl; try lra.
  rewrite IH, Q2R_Qred, Q2R_plus. lra.
Qed.

Lemma aang_aadd th a b : aang th (aadd a b) = (aang th a + aang th b)%R.
Proof. apply aang_from_aadd. Qed.

Lemma aang_from_ascale th q a : forall i,
  aang_from th i (ascale q a) = (Q2R q * aang_from th i a)%R.
Proof.
  induction a as [|x a IH]; intros i; simpl; [lra|].
  rewrite IH, Q2R_Qred, Q2R_mult. lra.
Qed.

Lemma aang_ascale th q a : aang th (ascale q a) = (Q2R q * aang th a)%R.
Proof. apply aang_from_ascale. Qed.

Lemma aang_aneg th a : aang th (aneg a) = (- aang th a)%R.
Proof.
  unfold aneg. rewrite aang_ascale. replace (Q2R (-1 # 1)) with (-1)%R; [lra|].
  unfold Q2R; simpl. lra.
Qed.

Lemma aang_api th q : aang th (api q) = (Q2R q * PI)%R.
Proof. unfold aang, api; simpl. lra. Qed.

Lemma azero_sound th a : forall i, azero a = true -> aang_from th i a = 0%R.
Proof.
  induction a as [|x a IH]; intros i H; simpl in *; [reflexivity|].
  apply andb_true_iff in H as [Hx Ha]. apply Qeq_bool_eq, Qeq_eqR in Hx.
  rewrite Hx, IH by exact Ha. unfold Q2R; simpl. lra.
Qed.

Lemma aeqb_sound th a : forall b i, aeqb a b = true -> aang_from th i a = aang_from th i b.
Proof.
  induction a as [|x a IH]; intros [|y b] i H.
  - reflexivity.
  - symmetry. now apply azero_sound.
  - now apply azero_sound.
  - simpl in H. apply andb_true_iff in H as [Hx Ha]. simpl.
    apply Qeq_bool_eq, Qeq_eqR in Hx. rewrite Hx. f_equal. now apply IH.
Qed.

(* ------------------------------------------------------------------ *)
(* Polynomials: list of (monomial angle form, rational coefficient) *)

Definition term := (aff * Q)%type.
Definition poly := list term.

Definition teval (th : nat -> R) (t : term) : C :=
  Cmult (RtoC (Q2R (snd t))) (cis (aang th (fst t))).

Fixpoint peval (th : nat -> R) (p : poly) : C :=
  match p with
  | [] => RtoC 0
  | t :: p' => Cplus (teval th t) (peval th p')
  end.

(* bring the PI-coefficient of a monomial into [0,1), moving the sign to the coefficient *)
Definition reduce (t : term) : term :=
  match fst t with
  | [] => t
  | c0 :: a' =>
      let f := Qfloor c0 in
      (Qred (c0 - inject_Z f) :: a', if Z.even f then snd t else Qred (- snd t))
  end.

Lemma Q2R_inject_Z z : Q2R (inject_Z z) = IZR z.
Proof. unfold Q2R, inject_Z; simpl. field. Qed.

Lemma cis_shift_Z (f : Z) (x r : R) :
  cis (x * PI + r) = Cmult (cis ((x - IZR f) * PI + r)) (RtoC (sgnZ f)).
Proof.
  rewrite <- cis_Z_PI, <- cis_add. f_equal. ring.
Qed.

Lemma reduce_sound th t : teval th (reduce t) = teval th t.
Proof.
  destruct t as [[|c0 a] c]; [reflexivity|].
  unfold reduce, teval; simpl fst; simpl snd. unfold aang; simpl aang_from.
  change (env th 0) with PI.
  set (f := Qfloor c0). set (rest := aang_from th 1 a).
  rewrite Q2R_Qred, Q2R_minus, Q2R_inject_Z.
  rewrite (cis_shift_Z f (Q2R c0) rest).
  generalize (cis ((Q2R c0 - IZR f) * PI + rest)); intros z.
  unfold sgnZ. destruct (Z.even f).
  - ring.
  - rewrite Q2R_Qred, Q2R_opp. unfold Cmult, RtoC; simpl. f_equal; ring.
Qed.

Fixpoint pinsert (t : term) (p : poly) : poly :=
  match p with
  | [] => if Qeq_bool (snd t) 0 then [] else [t]
  | u :: p' =>
      if aeqb (fst t) (fst u)
      then let c := Qred (snd t + snd u) in
           if Qeq_bool c 0 then p' else (fst u, c) :: p'
      else u :: pinsert t p'
  end.

Lemma teval_zero th a c : Qeq_bool c 0 = true -> teval th (a, c) = RtoC 0.
Proof.
  intros H. apply Qeq_bool_eq, Qeq_eqR in H. unfold teval; simpl. rewrite H.
  replace (Q2R 0) with 0%R by (unfold Q2R; simpl; lra). apply Cmult_0_l.
Qed.

Lemma pinsert_sound th t p : peval th (pinsert t p) = Cplus (teval th t) (peval th p).
Proof.
  induction p as [|u p IH]; simpl.
  - destruct (Qeq_bool (snd t) 0) eqn:E; simpl.
    + destruct t as [a c]. rewrite teval_zero by exact E. ring.
    + reflexivity.
  - destruct (aeqb (fst t) (fst u)) eqn:E.
    + assert (Hsum : Cplus (teval th t) (teval th u)
                     = teval th (fst u, Qred (snd t + snd u))).
      { unfold teval; simpl. unfold aang. rewrite (aeqb_sound th _ _ 0%nat E).
        rewrite Q2R_Qred, Q2R_plus, RtoC_plus. ring. }
      destruct (Qeq_bool (Qred (snd t + snd u)) 0) eqn:Z; simpl.
      * rewrite Cplus_assoc, Hsum, teval_zero by exact Z. ring.
      * rewrite Cplus_assoc, Hsum. reflexivity.
    + simpl. rewrite IH. ring.
Qed.

Definition padd (p q : poly) : poly := fold_right pinsert q p.

Lemma padd_sound th p q : peval th (padd p q) = Cplus (peval th p) (peval th q).
Proof.
  induction p as [|t p IH]; simpl.
  - ring.
  - rewrite pinsert_sound, IH. ring.
Qed.

Definition tmul (t u : term) : term :=
  reduce (aadd (fst t) (fst u), Qred (snd t * snd u)).

Lemma tmul_sound th t u : teval th (tmul t u) = Cmult (teval th t) (teval th u).
Proof.
  unfold tmul. rewrite reduce_sound. unfold teval; simpl.
  rewrite aang_aadd, cis_add, Q2R_Qred, Q2R_mult, RtoC_mult. ring.
Qed.

Definition pscale (t : term) (q : poly) : poly :=
  fold_right (fun u acc => pinsert (tmul t u) acc) [] q.

Lemma pscale_sound th t q : peval th (pscale t q) = Cmult (teval th t) (peval th q).
Proof.
  induction q as [|u q IH]; simpl.
  - ring.
  - rewrite pinsert_sound, tmul_sound, IH. ring.
Qed.

Definition pmul (p q : poly) : poly :=
  fold_right (fun t acc => padd (pscale t q) acc) [] p.

Lemma pmul_sound th p q : peval th (pmul p q) = Cmult (peval th p) (peval th q).
Proof.
  induction p as [|t p IH]; simpl.
  - ring.
  - rewrite padd_sound, pscale_sound, IH. ring.
Qed.

Definition pconst (q : Q) : poly := pinsert ([], q) [].
Definition pneg (p : poly) : poly := pscale ([], (-1 # 1)%Q) p.
Definition psub (p q : poly) : poly := padd p (pneg q).
Definition pcis (a : aff) : poly := pinsert (reduce (a, 1%Q)) [].
Definition tconj (t : term) : term := reduce (aneg (fst t), snd t).
Definition pconj (p : poly) : poly :=
  fold_right (fun t acc => pinsert (tconj t) acc) [] p.

Lemma teval_const th q : teval th ([], q) = RtoC (Q2R q).
Proof. unfold teval; simpl. unfold aang; simpl. rewrite cis_0. ring. Qed.

Lemma pconst_sound th q : peval th (pconst q) = RtoC (Q2R q).
Proof. unfold pconst. rewrite pinsert_sound, teval_const. simpl. ring. Qed.

Lemma pneg_sound th p : peval th (pneg p) = Copp (peval th p).
Proof.
  unfold pneg. rewrite pscale_sound, teval_const.
  replace (Q2R (-1 # 1)) with (-1)%R by (unfold Q2R; simpl; lra).
  unfold RtoC, Cmult, Copp; simpl. f_equal; ring.
Qed.

Lemma psub_sound th p q : peval th (psub p q) = Cminus (peval th p) (peval th q).
Proof. unfold psub. rewrite padd_sound, pneg_sound. reflexivity. Qed.

Lemma pcis_sound th a : peval th (pcis a) = cis (aang th a).
Proof.
  unfold pcis. rewrite pinsert_sound, reduce_sound. unfold teval; simpl.
  replace (Q2R 1) with 1%R by (unfold Q2R; simpl; lra). ring.
Qed.

Lemma Cconj_plus x y : Cconj (Cplus x y) = Cplus (Cconj x) (Cconj y).
Proof. unfold Cconj, Cplus; simpl. f_equal. ring. Qed.
Lemma Cconj_mult x y : Cconj (Cmult x y) = Cmult (Cconj x) (Cconj y).
Proof. unfold Cconj, Cmult; simpl. f_equal; ring. Qed.
Lemma Cconj_R r : Cconj (RtoC r) = RtoC r.
Proof. unfold Cconj, RtoC; simpl. f_equal. ring. Qed.

Lemma tconj_sound th t : teval th (tconj t) = Cconj (teval th t).
Proof.
  unfold tconj. rewrite reduce_sound. unfold teval; simpl.
  rewrite Cconj_mult, Cconj_R, cis_conj, aang_aneg. reflexivity.
Qed.

Lemma pconj_sound th p : peval th (pconj p) = Cconj (peval th p).
Proof.
  induction p as [|t p IH]; simpl.
  - now rewrite Cconj_R.
  - rewrite pinsert_sound, tconj_sound, IH, Cconj_plus. reflexivity.
Qed.

Definition pzero (p : poly) : bool := forallb (fun t => Qeq_bool (snd t) 0) p.

Lemma pzero_sound th p : pzero p = true -> peval th p = RtoC 0.
Proof.
  induction p as [|[a c] p IH]; simpl; intros H; [reflexivity|].
  apply andb_true_iff in H as [Hc Hp]. rewrite teval_zero by exact Hc.
  rewrite IH by exact Hp. ring.
Qed.

Definition peqb (p q : poly) : bool := pzero (psub p q).

Lemma peqb_sound th p q : peqb p q = true -> peval th p = peval th q.
Proof.
  unfold peqb. intros H. apply (pzero_sound th) in H. rewrite psub_sound in H.
  rewrite <- (Cplus_0_l (peval th q)), <- H. ring.
Qed.

(* ------------------------------------------------------------------ *)
(* Expressions *)

Inductive expr : Type :=
| EQ (q : Q)
| EI
| ESqrt2
| ECis (a : aff)
| ECos (a : aff)
| ESin (a : aff)
| EAdd (e1 e2 : expr)
| EMul (e1 e2 : expr)
| ENeg (e : expr)
| EConj (e : expr).

Fixpoint denote (th : nat -> R) (e : expr) : C :=
  match e with
  | EQ q => RtoC (Q2R q)
  | EI => Ci
  | ESqrt2 => RtoC (sqrt 2)
  | ECis a => cis (aang th a)
  | ECos a => RtoC (cos (aang th a))
  | ESin a => RtoC (sin (aang th a))
  | EAdd e1 e2 => Cplus (denote th e1) (denote th e2)
  | EMul e1 e2 => Cmult (denote th e1) (denote th e2)
  | ENeg e => Copp (denote th e)
  | EConj e => Cconj (denote th e)
  end.

Definition pcos (a : aff) : poly :=
  padd (pscale ([], (1 # 2)%Q) (pcis a)) (pscale ([], (1 # 2)%Q) (pcis (aneg a))).

Fixpoint norm (e : expr) : poly :=
  match e with
  | EQ q => pconst q
  | EI => pcis (api (1 # 2))
  | ESqrt2 => pscale ([], 2%Q) (pcos (api (1 # 4)))
  | ECis a => pcis a
  | ECos a => pcos a
  | ESin a => pcos (aadd a (api (-1 # 2)))
  | EAdd e1 e2 => padd (norm e1) (norm e2)
  | EMul e1 e2 => pmul (norm e1) (norm e2)
  | ENeg e => pneg (norm e)
  | EConj e => pconj (norm e)
  end.

Lemma pcos_sound th a : peval th (pcos a) = RtoC (cos (aang th a)).
Proof.
  unfold pcos. rewrite padd_sound, !pscale_sound, !pcis_sound, teval_const, aang_aneg.
  replace (Q2R (1 # 2)) with (/2)%R by (unfold Q2R; simpl; lra).
  symmetry. apply cos_as_cis.
Qed.

Theorem norm_sound th e : peval th (norm e) = denote th e.
Proof.
  induction e; cbn [norm denote].
  - apply pconst_sound.
  - rewrite pcis_sound, aang_api. replace (Q2R (1 # 2) * PI)%R with (PI / 2)%R
      by (unfold Q2R; simpl; lra). apply cis_PI2.
  - rewrite pscale_sound, pcos_sound, teval_const, aang_api.
    replace (Q2R (1 # 4) * PI)%R with (PI / 4)%R by (unfold Q2R; simpl; lra).
    replace (Q2R 2) with 2%R by (unfold Q2R; simpl; lra).
    rewrite sqrt2_cos, RtoC_mult. reflexivity.
  - apply pcis_sound.
  - apply pcos_sound.
  - rewrite pcos_sound, aang_aadd, aang_api, sin_as_cos.
    replace (Q2R (-1 # 2) * PI)%R with (- (PI / 2))%R by (unfold Q2R; simpl; lra).
    reflexivity.
  - rewrite padd_sound, IHe1, IHe2. reflexivity.
  - rewrite pmul_sound, IHe1, IHe2. reflexivity.
  - rewrite pneg_sound, IHe. reflexivity.
  - rewrite pconj_sound, IHe. reflexivity.
Qed.

Definition eeqb (e1 e2 : expr) : bool := peqb (norm e1) (norm e2).

Theorem eeqb_sound e1 e2 : eeqb e1 e2 = true -> forall th, denote th e1 = denote th e2.
Proof.
  intros H th. rewrite <- !norm_sound. now apply peqb_sound.
Qed.

Definition ESub (a b : expr) : expr := EAdd a (ENeg b).
