(* Base/Sem.v : matrix-level facts about Base/Mat.embed / cembed that other properties use as
   premises, PROVED over any commutative semiring from the index lemmas of C01 (gate_sum etc.):
     - operators on disjoint qubit supports commute (embed, cembed, gate operators);
     - cembed / embed are multiplicative, map the identity to the identity, commute with dagger.
   Method: a 2^n x 2^n matrix X acts on bit-indexed tensors by [mact]; two well-shaped matrices
   are equal iff they act equally on every tensor (mat_ext, test tensors = basis vectors); embed and
   cembed act by the textbook formulas gate_action / ctrl_action (C01/ProofsSV, ProofsCtrl).
   All matrix equalities below are LIST equalities; shape hypotheses (wf_mat) are stated where needed.
   Permutations: Base/SemPerm.v, partial trace: Base/SemPtrace.v, statements: Base/SemProps.v. *)
From Coq Require Import List Bool Arith Lia.
From QV Require Import Base.Mat C01.Model C01.Spec C01.Lib C01.ProofsSV C01.ProofsCtrl C01.ProofsMat
  C01.ProofsRun C01.ProofsFused C01.ProofsQueue.
Import ListNotations.

Section Sem.
  Context {T : Type} (K : ops T).
  Hypothesis HK : semiring K.
  Local Notation add_0_l := (sr_add_0_l K HK).
  Local Notation mul_comm := (sr_mul_comm K HK).
  Local Notation mul_assoc := (sr_mul_assoc K HK).
  Local Notation mul_1_l := (sr_mul_1_l K HK).
  Local Notation mul_0_l := (sr_mul_0_l K HK).
  Local Notation tsum := (tsum K).
  Local Notation zero := (zero K).
  Local Notation one := (one K).

  (* ---------------------------------------------------------------- matrices acting on tensors *)
  Definition mact (n : nat) (X : mat T) (t : tensor (T:=T)) : tensor :=
    fun r => tsum (map (fun c => mul K (mentry K X r c) (t c)) (allbits n)).

  Lemma mact_tab2 n f t r : length r = n ->
    mact n (tab2 n f) t r = tsum (map (fun c => mul K (f r c) (t c)) (allbits n)).
  Proof.
    intros Hr. unfold mact. apply tsum_map_ext. intros c Hc. apply allbits_In in Hc.
    now rewrite (mentry_tab2 K).
  Qed.

  Lemma mact_ext n X t t' r : (forall c, length c = n -> t c = t' c) -> mact n X t r = mact n X t' r.
  Proof. intros H. unfold mact. apply tsum_map_ext. intros c Hc. apply allbits_In in Hc. now rewrite H. Qed.

  Lemma mact_mmul n X Y t r : wf_mat n X -> wf_mat n Y -> length r = n ->
    mact n (mmul K X Y) t r = mact n X (mact n Y t) r.
  Proof.
    intros HX HY Hr. rewrite (wf_tab2 K n X HX), (wf_tab2 K n Y HY).
    generalize (mentry K X) (mentry K Y). intros f g. rewrite (mmul_tab2 K HK), !mact_tab2 by assumption.
    rewrite (tsum_map_ext K _ (fun c => tsum (map (fun k => mul K (mul K (f r k) (g k c)) (t c)) (allbits n))))
      by (intros c _; symmetry; apply (tsum_scale_r K HK)).
    rewrite (tsum_swap K HK). apply tsum_map_ext. intros k Hk. apply allbits_In in Hk.
    rewrite mact_tab2 by assumption. rewrite <- (tsum_scale_l K HK).
    apply tsum_map_ext. intros c _. symmetry. apply mul_assoc.
  Qed.

  (* two well-shaped matrices that act equally are equal *)
  Lemma mat_ext n X Y : wf_mat n X -> wf_mat n Y ->
    (forall t r, length r = n -> mact n X t r = mact n Y t r) -> X = Y.
  Proof.
    intros HX HY H. rewrite (wf_tab2 K n X HX), (wf_tab2 K n Y HY) in *.
    revert H. generalize (mentry K X) (mentry K Y). intros f g H.
    apply tab2_ext. intros r c Hr Hc.
    specialize (H (fun b => if beqb c b then one else zero) r Hr). rewrite !mact_tab2 in H by assumption.
    assert (D : forall h : list bool -> list bool -> T,
              tsum (map (fun k => mul K (h r k) (if beqb c k then one else zero)) (allbits n)) = h r c).
    { intros h. rewrite (tsum_map_ext K _ (fun k => if beqb c k then h r k else zero)).
      - exact (tsum_delta K HK n (fun k => h r k) c Hc).
      - intros k _. destruct (beqb c k); [apply (mul_1_r K HK)|apply (mul_0_r K HK)]. }
    now rewrite !D in H.
  Qed.

  Lemma mact_embed n qs M t r : NoDup qs -> (forall q, In q qs -> q < n) -> length r = n ->
    mact n (embed K n qs M) t r = gate_action K qs M t r.
  Proof.
    intros Hn Hq Hr. rewrite embed_tab2, mact_tab2 by assumption. unfold gate_action.
    exact (embed_row_sum K HK n qs (fun s => mget K M (idx (sel qs r)) (idx s)) t r Hn Hq Hr).
  Qed.

  Lemma mact_cembed n cs ts M t r : NoDup ts -> (forall q, In q ts -> q < n) -> length r = n ->
    mact n (cembed K n cs ts M) t r = ctrl_action K cs ts M t r.
  Proof.
    intros Hn Hq Hr. rewrite cembed_tab2, mact_tab2 by assumption. unfold ctrl_action, gate_action.
    exact (cembed_row_sum K HK n cs ts (fun s => mget K M (idx (sel ts r)) (idx s)) t r Hn Hq Hr).
  Qed.

  Lemma embed_wf n qs M : wf_mat n (embed K n qs M).
  Proof. rewrite embed_tab2. apply tab2_wf. Qed.
  Lemma cembed_wf n cs ts M : wf_mat n (cembed K n cs ts M).
  Proof. rewrite cembed_tab2. apply tab2_wf. Qed.
  Lemma embed_as_cembed n qs M : embed K n qs M = cembed K n [] qs M.
  Proof. reflexivity. Qed.

  (* gate_action only reads the tensor at the updated indices *)
  Lemma gate_action_ext_pts qs M (t t' : tensor (T:=T)) r :
    (forall s, length s = length qs -> t (upd qs s r) = t' (upd qs s r)) ->
    gate_action K qs M t r = gate_action K qs M t' r.
  Proof.
    intros H. unfold gate_action. apply tsum_map_ext. intros s Hs. apply allbits_In in Hs. now rewrite H.
  Qed.

  (* ---------------------------------------------------------------- (1) disjoint supports commute *)
  Lemma upd_comm qs1 qs2 s u b : (forall q, In q qs1 -> ~ In q qs2) ->
    upd qs2 u (upd qs1 s b) = upd qs1 s (upd qs2 u b).
  Proof.
    intros Hd. apply bool_list_ext; [now rewrite !upd_length|]. intros i Hi. rewrite !upd_length in Hi.
    rewrite !nth_upd by (rewrite ?upd_length; assumption).
    destruct (memb i qs1) eqn:M1, (memb i qs2) eqn:M2; try reflexivity.
    apply memb_In in M1. apply memb_In in M2. exfalso. exact (Hd i M1 M2).
  Qed.

  Lemma gate_action_comm n qs1 qs2 A B t r :
    (forall q, In q qs2 -> q < n) -> (forall q, In q qs1 -> q < n) ->
    (forall q, In q qs1 -> ~ In q qs2) -> length r = n ->
    gate_action K qs1 A (gate_action K qs2 B t) r = gate_action K qs2 B (gate_action K qs1 A t) r.
  Proof.
    intros H2 H1 Hd Hr. unfold gate_action.
    assert (Hd' : forall q, In q qs2 -> ~ In q qs1) by (intros q Hq Hq'; exact (Hd q Hq' Hq)).
    rewrite (tsum_map_ext K _ (fun s => tsum (map (fun u =>
        mul K (mget K A (idx (sel qs1 r)) (idx s))
              (mul K (mget K B (idx (sel qs2 r)) (idx u)) (t (upd qs2 u (upd qs1 s r))))) (allbits (length qs2))))).
    2:{ intros s _. rewrite <- (tsum_scale_l K HK). apply tsum_map_ext. intros u _.
        rewrite sel_upd_other; auto. intros q Hq. rewrite Hr. auto. }
    rewrite (tsum_swap K HK). apply tsum_map_ext. intros u _.
    rewrite <- (tsum_scale_l K HK). apply tsum_map_ext. intros s _.
    rewrite sel_upd_other by (auto; intros q Hq; rewrite Hr; auto).
    rewrite (upd_comm qs1 qs2 s u r Hd). rewrite !mul_assoc. f_equal. apply mul_comm.
  Qed.

  Lemma all1_sel_upd cs ts s r : (forall q, In q cs -> q < length r) -> (forall q, In q cs -> ~ In q ts) ->
    all1 (sel cs (upd ts s r)) = all1 (sel cs r).
  Proof. intros H1 H2. now rewrite sel_upd_other. Qed.

  Definition disjoint (a b : list nat) : Prop := forall q, In q a -> ~ In q b.

  Lemma ctrl_action_comm n cs1 ts1 cs2 ts2 A B t r :
    (forall q, In q (cs1 ++ ts1) -> q < n) -> (forall q, In q (cs2 ++ ts2) -> q < n) ->
    disjoint (cs1 ++ ts1) (cs2 ++ ts2) -> length r = n ->
    ctrl_action K cs1 ts1 A (ctrl_action K cs2 ts2 B t) r
    = ctrl_action K cs2 ts2 B (ctrl_action K cs1 ts1 A t) r.
  Proof.
    intros H1 H2 Hd Hr.
    assert (R1c : forall q, In q cs1 -> q < length r) by (intros; rewrite Hr; apply H1, in_app_iff; now left).
    assert (R2c : forall q, In q cs2 -> q < length r) by (intros; rewrite Hr; apply H2, in_app_iff; now left).
    assert (R1t : forall q, In q ts1 -> q < n) by (intros; apply H1, in_app_iff; now right).
    assert (R2t : forall q, In q ts2 -> q < n) by (intros; apply H2, in_app_iff; now right).
    assert (D12 : forall q, In q cs1 -> ~ In q ts2).
    { intros q Hq Hq'. apply (Hd q); apply in_app_iff; [now left|now right]. }
    assert (D21 : forall q, In q cs2 -> ~ In q ts1).
    { intros q Hq Hq'. apply (Hd q); apply in_app_iff; [now right|now left]. }
    assert (Dtt : forall q, In q ts1 -> ~ In q ts2).
    { intros q Hq Hq'. apply (Hd q); apply in_app_iff; now right. }
    unfold ctrl_action at 1 3.
    destruct (all1 (sel cs1 r)) eqn:A1, (all1 (sel cs2 r)) eqn:A2.
    - rewrite (gate_action_ext_pts ts1 A _ (gate_action K ts2 B t)).
      2:{ intros s _. unfold ctrl_action. now rewrite all1_sel_upd, A2 by auto. }
      rewrite (gate_action_ext_pts ts2 B _ (gate_action K ts1 A t)).
      2:{ intros s _. unfold ctrl_action. now rewrite all1_sel_upd, A1 by auto. }
      now apply (gate_action_comm n).
    - unfold ctrl_action at 2. rewrite A1.
      apply gate_action_ext_pts. intros s _. unfold ctrl_action. now rewrite all1_sel_upd, A2 by auto.
    - unfold ctrl_action at 1. rewrite A2. symmetry.
      apply gate_action_ext_pts. intros s _. unfold ctrl_action. now rewrite all1_sel_upd, A1 by auto.
    - unfold ctrl_action. now rewrite A1, A2.
  Qed.

  Theorem cembed_disjoint_commute_eq n cs1 ts1 cs2 ts2 A B :
    NoDup ts1 -> NoDup ts2 ->
    (forall q, In q (cs1 ++ ts1) -> q < n) -> (forall q, In q (cs2 ++ ts2) -> q < n) ->
    disjoint (cs1 ++ ts1) (cs2 ++ ts2) ->
    mmul K (cembed K n cs1 ts1 A) (cembed K n cs2 ts2 B) = mmul K (cembed K n cs2 ts2 B) (cembed K n cs1 ts1 A).
  Proof.
    intros N1 N2 H1 H2 Hd.
    assert (R1t : forall q, In q ts1 -> q < n) by (intros; apply H1, in_app_iff; now right).
    assert (R2t : forall q, In q ts2 -> q < n) by (intros; apply H2, in_app_iff; now right).
    apply (mat_ext n); try (apply (mmul_wf K HK); apply cembed_wf).
    intros t r Hr. rewrite !mact_mmul by (auto using cembed_wf).
    rewrite (mact_ext n _ _ (ctrl_action K cs2 ts2 B t)) by (intros; now apply mact_cembed).
    rewrite (mact_ext n (cembed K n cs2 ts2 B) _ (ctrl_action K cs1 ts1 A t)) by (intros; now apply mact_cembed).
    rewrite !mact_cembed by assumption. now apply (ctrl_action_comm n).
  Qed.

  Theorem embed_disjoint_commute_eq n qs1 qs2 A B :
    NoDup qs1 -> NoDup qs2 -> (forall q, In q qs1 -> q < n) -> (forall q, In q qs2 -> q < n) ->
    disjoint qs1 qs2 ->
    mmul K (embed K n qs1 A) (embed K n qs2 B) = mmul K (embed K n qs2 B) (embed K n qs1 A).
  Proof. intros. rewrite !embed_as_cembed. now apply cembed_disjoint_commute_eq. Qed.

  (* gates as qibo stores them (C01/Model.gate, C01/Spec.gate_op) *)
  Lemma gate_op_as_cembed n g :
    exists cs ts M, gate_op K n g = cembed K n cs ts M /\
      (forall q, In q (cs ++ ts) <-> In q (gate_qubits g)) /\ (gate_wf n g -> NoDup ts).
  Proof.
    destruct g as [[[ctrl cs] ts] M]. simpl. destruct ctrl.
    - exists cs, ts, M. repeat split; auto. intros [_ [H _]]. exact H.
    - exists [], (isort cs ++ ts), M. repeat split.
      + simpl. rewrite !in_app_iff, isort_In. tauto.
      + simpl. rewrite !in_app_iff, isort_In. tauto.
      + intros [Hc [Ht [_ Hd]]]. apply NoDup_app_intro; [apply (incr_from_NoDup 0), isort_incr; assumption|assumption|].
        intros x Hx Hx'. apply (proj1 (isort_In _ _)) in Hx. exact (Hd x Hx' Hx).
  Qed.

  Theorem gate_op_disjoint_commute_eq n g h : gate_wf n g -> gate_wf n h ->
    disjoint (gate_qubits g) (gate_qubits h) ->
    mmul K (gate_op K n g) (gate_op K n h) = mmul K (gate_op K n h) (gate_op K n g).
  Proof.
    intros Wg Wh Hd.
    destruct (gate_op_as_cembed n g) as [cs1 [ts1 [A [E1 [Q1 N1]]]]].
    destruct (gate_op_as_cembed n h) as [cs2 [ts2 [B [E2 [Q2 N2]]]]].
    rewrite E1, E2. apply cembed_disjoint_commute_eq; auto.
    - intros q Hq. apply Q1 in Hq. destruct g as [[[c1 c2] c3] c4]. destruct Wg as [_ [_ [Hlt _]]]. auto.
    - intros q Hq. apply Q2 in Hq. destruct h as [[[c1 c2] c3] c4]. destruct Wh as [_ [_ [Hlt _]]]. auto.
    - intros q Hq Hq'. apply Q1 in Hq. apply Q2 in Hq'. exact (Hd q Hq Hq').
  Qed.

  (* ---------------------------------------------------------------- (3) multiplicativity, identity *)
  Lemma cembed_mmul_eq n cs ts A B : NoDup ts -> (forall q, In q (cs ++ ts) -> q < n) ->
    (forall q, In q cs -> ~ In q ts) -> wf_mat (length ts) A -> wf_mat (length ts) B ->
    cembed K n cs ts (mmul K A B) = mmul K (cembed K n cs ts A) (cembed K n cs ts B).
  Proof.
    intros Hn Hq Hd HA HB.
    assert (Rt : forall q, In q ts -> q < n) by (intros; apply Hq, in_app_iff; now right).
    rewrite !cembed_tab2, (mmul_tab2 K HK). apply tab2_ext. intros r c Hr Hc.
    assert (Rc : forall q, In q cs -> q < length r) by (intros; rewrite Hr; apply Hq, in_app_iff; now left).
    rewrite (cembed_row_sum K HK n cs ts (fun s => mget K A (idx (sel ts r)) (idx s))
               (fun k => if forallb (fun q => nth q k false) cs
                         then if agree_off ts k c then mget K B (idx (sel ts k)) (idx (sel ts c)) else zero
                         else if beqb k c then one else zero) r Hn Rt Hr).
    rewrite !all1_sel. destruct (all1 (sel cs r)) eqn:A1; [|reflexivity].
    destruct (agree_off ts r c) eqn:Ag.
    - rewrite (mget_mmul_bits K HK (length ts)) by (auto using sel_length).
      apply tsum_map_ext. intros s Hs. apply allbits_In in Hs.
      rewrite all1_sel, all1_sel_upd, A1, agree_off_upd, Ag by auto.
      rewrite sel_upd_same; auto. intros q Hq'. rewrite Hr. auto.
    - rewrite (tsum_map_ext K _ (fun _ => zero)); [now rewrite (tsum_zero K HK)|].
      intros s _. rewrite all1_sel, all1_sel_upd, A1, agree_off_upd, Ag by auto. apply (mul_0_r K HK).
  Qed.

  Lemma cembed_eye_eq n cs ts : (forall q, In q ts -> q < n) ->
    cembed K n cs ts (eye K (2 ^ length ts)) = midentity K n.
  Proof.
    intros Hq. rewrite cembed_tab2, midentity_tab2. apply tab2_ext. intros r c Hr Hc.
    destruct (forallb (fun q => nth q r false) cs); [|reflexivity].
    pose proof (idx_lt (sel ts r)) as L1. pose proof (idx_lt (sel ts c)) as L2. rewrite sel_length in L1, L2.
    rewrite (mget_eye K) by assumption. rewrite idx_eqb by (now rewrite !sel_length).
    assert (Hb : forall q, In q ts -> q < length r) by (intros; rewrite Hr; auto).
    pose proof (agree_sel_eq ts r c ltac:(congruence) Hb) as E.
    destruct (beqb r c) eqn:B.
    - apply beqb_eq in B. apply E in B. destruct B as [B1 B2]. now rewrite B1, B2, beqb_refl.
    - destruct (agree_off ts r c) eqn:Ag; [|reflexivity].
      destruct (beqb (sel ts r) (sel ts c)) eqn:Bs; [|reflexivity].
      apply beqb_eq in Bs. assert (r = c) by (apply E; auto). subst. rewrite beqb_refl in B. discriminate.
  Qed.

  Lemma beqb_sym' (r c : list bool) : beqb r c = beqb c r.
  Proof. apply eq_true_iff_eq. rewrite !beqb_eq. split; congruence. Qed.

  Lemma agree_off_sym qs r c : agree_off qs r c = agree_off qs c r.
  Proof.
    apply eq_true_iff_eq. rewrite !agree_off_spec. split; intros [Hl H]; (split; [congruence|]); intros j Hj;
      (destruct (H j ltac:(congruence)) as [Hm|He]; [now left|right; congruence]).
  Qed.

  (* ---------------------------------------------------------------- (3) dagger *)
  Section Dagger.
    Variable cj : T -> T.
    Hypothesis cj_zero : cj zero = zero.
    Hypothesis cj_one : cj one = one.

    Lemma mget_madj k M a b : length a = k -> length b = k ->
      mget K (madj K cj k M) (idx a) (idx b) = cj (mget K M (idx b) (idx a)).
    Proof.
      intros Ha Hb. change (madj K cj k M) with (tab2 k (fun r c => cj (mget K M (idx c) (idx r)))).
      now apply (mentry_tab2 K k).
    Qed.

    Lemma cembed_dagger_eq n cs ts M : (forall q, In q (cs ++ ts) -> q < n) -> (forall q, In q cs -> ~ In q ts) ->
      cembed K n cs ts (madj K cj (length ts) M) = madj K cj n (cembed K n cs ts M).
    Proof.
      intros Hq Hd. rewrite !cembed_tab2.
      change (madj K cj n (tab2 n ?f)) with (tab2 n (fun r c => cj (mget K (tab2 n f) (idx c) (idx r)))).
      apply tab2_ext. intros r c Hr Hc.
      fold (mentry K (tab2 n (fun r0 c0 : list bool =>
          if forallb (fun q => nth q r0 false) cs
          then if agree_off ts r0 c0 then mget K M (idx (sel ts r0)) (idx (sel ts c0)) else zero
          else if beqb r0 c0 then one else zero)) c r).
      rewrite (mentry_tab2 K) by assumption.
      rewrite mget_madj by apply sel_length. rewrite !all1_sel, (agree_off_sym ts c r).
      assert (Rc : forall q, In q cs -> q < length r) by (intros; rewrite Hr; apply Hq, in_app_iff; now left).
      destruct (agree_off ts r c) eqn:Ag.
      - assert (Es : sel cs r = sel cs c).
        { assert (X : agree_off ts r c = true) by assumption.
          apply (agree_off_app cs ts r c ltac:(congruence) Rc Hd) in X. tauto. }
        rewrite Es. destruct (all1 (sel cs c)); [reflexivity|].
        rewrite (beqb_sym' c r). destruct (beqb r c); auto.
      - assert (Nrc : beqb r c = false).
        { destruct (beqb r c) eqn:B; [|reflexivity]. apply beqb_eq in B. subst.
          assert (agree_off ts c c = true) by (apply agree_off_spec; split; [reflexivity|intros; now right]).
          congruence. }
        rewrite (beqb_sym' c r), Nrc.
        destruct (all1 (sel cs r)), (all1 (sel cs c)); auto.
    Qed.

    Lemma embed_dagger_eq n qs M : (forall q, In q qs -> q < n) ->
      embed K n qs (madj K cj (length qs) M) = madj K cj n (embed K n qs M).
    Proof.
      intros Hq. rewrite !embed_as_cembed. apply cembed_dagger_eq; [exact Hq|intros q []].
    Qed.

    (* the per-gate premise of Circuit.invert: a controlled unitary times its controlled dagger *)
    Lemma cembed_dagger_left_inverse n cs ts M : NoDup ts -> (forall q, In q (cs ++ ts) -> q < n) ->
      (forall q, In q cs -> ~ In q ts) -> wf_mat (length ts) M ->
      mmul K (madj K cj (length ts) M) M = eye K (2 ^ length ts) ->
      mmul K (cembed K n cs ts (madj K cj (length ts) M)) (cembed K n cs ts M) = midentity K n.
    Proof.
      intros Hn Hq Hd HM Hu. rewrite <- cembed_mmul_eq; auto.
      - rewrite Hu. apply cembed_eye_eq. intros; apply Hq, in_app_iff; now right.
      - apply tab2_wf.
    Qed.
  End Dagger.
End Sem.
