(* Base/SemPtrace.v : the reduced matrix on a set of kept qubits is not changed by an isometry
   acting on other qubits:  reduced_keep (E rho E^dagger) = reduced_keep rho  for E = embed n qs U,
   U^dagger U = 1, qs disjoint from keep.
   Reduced matrix (partial trace over the qubits NOT in keep), entry (a, a') for |keep|-bit strings:
       sum over all n-bit x with x|keep = a of rho[x, x[keep := a']]
   (the column index agrees with the row index outside keep: that is the trace over the rest). *)
From Coq Require Import List Bool Arith Lia.
From QV Require Import Base.Mat C01.Model C01.Spec C01.Lib C01.ProofsSV C01.ProofsCtrl C01.ProofsMat
  C01.ProofsRun C01.ProofsFused C01.ProofsQueue C01.ProofsDM C01.ProofsRunDM Base.Sem.
Import ListNotations.

Section Ptrace.
  Context {T : Type} (K : ops T) (cj : T -> T).
  Hypothesis HK : semiring K.
  Hypothesis HC : conj_ok K cj.
  Local Notation mul_comm := (sr_mul_comm K HK).
  Local Notation mul_assoc := (sr_mul_assoc K HK).
  Local Notation mul_1_l := (sr_mul_1_l K HK).
  Local Notation mul_0_l := (sr_mul_0_l K HK).
  Local Notation tsum := (tsum K).
  Local Notation zero := (zero K).
  Local Notation one := (one K).

  Definition reduced (n : nat) (keep : list nat) (rho : mat T) : mat T :=
    tab2 (length keep) (fun a a' =>
      tsum (map (fun x => if beqb (sel keep x) a then mentry K rho x (upd keep a' x) else zero) (allbits n))).

  (* ---------------------------------------------------------------- index lemmas *)
  Lemma upd_upd_sel qs s x : upd qs (sel qs x) (upd qs s x) = x.
  Proof.
    apply bool_list_ext; [now rewrite !upd_length|]. intros i Hi. rewrite !upd_length in Hi.
    rewrite !nth_upd by (rewrite ?upd_length; assumption).
    destruct (memb i qs) eqn:M; [|reflexivity]. apply memb_In in M.
    rewrite nth_sel by (now apply index_of_lt). now rewrite nth_index_of.
  Qed.

  Lemma upd_sel_same qs y : upd qs (sel qs y) y = y.
  Proof.
    apply bool_list_ext; [now rewrite upd_length|]. intros i Hi. rewrite upd_length in Hi.
    rewrite nth_upd by assumption. destruct (memb i qs) eqn:M; [|reflexivity]. apply memb_In in M.
    rewrite nth_sel by (now apply index_of_lt). now rewrite nth_index_of.
  Qed.

  Lemma upd_absorb qs keep s s' a x :
    upd qs s' (upd keep a (upd qs s x)) = upd qs s' (upd keep a x).
  Proof.
    apply bool_list_ext; [now rewrite !upd_length|]. intros i Hi. rewrite !upd_length in Hi.
    rewrite !nth_upd by (rewrite ?upd_length; assumption).
    destruct (memb i qs) eqn:M; [reflexivity|]. destruct (memb i keep); reflexivity.
  Qed.

  Lemma tsum_if {A} (b : bool) (F : A -> T) l :
    (if b then tsum (map F l) else zero) = tsum (map (fun s => if b then F s else zero) l).
  Proof. destruct b; [reflexivity|]. symmetry. apply (tsum_zero K HK). Qed.

  (* exchange the bits at qs between a summed n-bit string and a summed k-bit string *)
  Lemma bits_swap_sum n qs (Phi : list bool -> list bool -> T) :
    NoDup qs -> (forall q, In q qs -> q < n) ->
    tsum (map (fun x => tsum (map (fun s => Phi x s) (allbits (length qs)))) (allbits n))
    = tsum (map (fun x => tsum (map (fun s => Phi (upd qs s x) (sel qs x)) (allbits (length qs)))) (allbits n)).
  Proof.
    intros Hn Hq. symmetry.
    rewrite (tsum_map_ext K _ (fun x => tsum (map (fun c => if agree_off qs x c then Phi c (sel qs x) else zero) (allbits n)))).
    2:{ intros x Hx. apply allbits_In in Hx. symmetry.
        exact (gate_sum K HK (fun c => Phi c (sel qs x)) n qs x Hn Hq Hx). }
    rewrite (tsum_swap K HK). apply tsum_map_ext. intros c Hc. apply allbits_In in Hc.
    rewrite (tsum_map_ext K _ (fun x => if agree_off qs c x then Phi c (sel qs x) else zero))
      by (intros x _; now rewrite (agree_off_sym qs x c)).
    rewrite (gate_sum K HK (fun x => Phi c (sel qs x)) n qs c Hn Hq Hc).
    apply tsum_map_ext. intros s Hs. apply allbits_In in Hs. rewrite sel_upd_same; auto.
    intros q Hq'. rewrite Hc. auto.
  Qed.

  (* U^dagger U = 1, entry by entry *)
  Lemma isometry_entries k U s' w : wf_mat k U -> mmul K (madj K cj k U) U = eye K (2 ^ k) ->
    length s' = k -> length w = k ->
    tsum (map (fun s => mul K (cj (mget K U (idx s) (idx s'))) (mget K U (idx s) (idx w))) (allbits k))
    = if beqb s' w then one else zero.
  Proof.
    intros HU Hun Hs Hw.
    assert (E : mget K (mmul K (madj K cj k U) U) (idx s') (idx w) = mget K (eye K (2 ^ k)) (idx s') (idx w)) by now rewrite Hun.
    rewrite (mget_mmul_bits K HK k) in E by (auto; apply tab2_wf).
    pose proof (idx_lt s') as L1. pose proof (idx_lt w) as L2. rewrite Hs in L1. rewrite Hw in L2.
    rewrite (mget_eye K) in E by assumption. rewrite idx_eqb in E by congruence. rewrite <- E.
    apply tsum_map_ext. intros s Hs'. apply allbits_In in Hs'. now rewrite (mget_madj K cj).
  Qed.

  Theorem reduced_ignores_outside_eq n keep qs U rho :
    NoDup qs -> (forall q, In q qs -> q < n) -> (forall q, In q keep -> q < n) ->
    (forall q, In q qs -> ~ In q keep) ->
    wf_mat (length qs) U -> mmul K (madj K cj (length qs) U) U = eye K (2 ^ length qs) -> wf_mat n rho ->
    reduced n keep (sandwich K cj n (embed K n qs U) rho) = reduced n keep rho.
  Proof.
    intros Hn Hq Hk Hd HU Hun Hr.
    assert (Hd' : forall q, In q keep -> ~ In q qs) by (intros q H1 H2; exact (Hd q H2 H1)).
    rewrite (wf_tab2 K n rho Hr). generalize (mentry K rho). intros g.
    change (embed K n qs U) with (cembed K n [] qs U).
    rewrite (sandwich_cembed K cj HK HC) by assumption.
    unfold reduced. apply tab2_ext. intros a a' Ha Ha'.
    (* entries of tab2 *)
    rewrite (tsum_map_ext K _ (fun x => tsum (map (fun s =>
        (fun x s => if beqb (sel keep x) a
                    then mul K (mget K U (idx (sel qs x)) (idx s))
                          (tsum (map (fun s' => mul K (cj (mget K U (idx (sel qs x)) (idx s')))
                                                   (g (upd qs s x) (upd qs s' (upd keep a' x)))) (allbits (length qs))))
                    else zero) x s) (allbits (length qs))))).
    2:{ intros x Hx. apply allbits_In in Hx. rewrite (mentry_tab2 K) by (now rewrite ?upd_length).
        unfold dm_action, dm_inner. cbn [sel map all1 forallb]. cbv beta. rewrite <- tsum_if.
        destruct (beqb (sel keep x) a); [|reflexivity].
        apply tsum_map_ext. intros s _. f_equal.
        apply tsum_map_ext. intros s' _.
        rewrite (sel_upd_other qs keep a' x) by (auto; intros q Hq'; rewrite Hx; auto). reflexivity. }
    rewrite (bits_swap_sum n qs _ Hn Hq). cbv beta.
    apply tsum_map_ext. intros x Hx. apply allbits_In in Hx.
    rewrite (mentry_tab2 K) by (now rewrite ?upd_length).
    (* simplify the exchanged summand *)
    rewrite (tsum_map_ext K _ (fun s => if beqb (sel keep x) a
        then tsum (map (fun s' => mul K (mul K (cj (mget K U (idx s) (idx s'))) (mget K U (idx s) (idx (sel qs x))))
                                       (g x (upd qs s' (upd keep a' x)))) (allbits (length qs)))
        else zero)).
    2:{ intros s Hs. apply allbits_In in Hs.
        rewrite sel_upd_other by (auto; intros q Hq'; rewrite Hx; auto).
        destruct (beqb (sel keep x) a); [|reflexivity].
        rewrite sel_upd_same by (auto; intros q Hq'; rewrite Hx; auto).
        rewrite <- (tsum_scale_l K HK). apply tsum_map_ext. intros s' _.
        rewrite upd_upd_sel, upd_absorb. rewrite !mul_assoc. f_equal. apply mul_comm. }
    rewrite <- tsum_if. destruct (beqb (sel keep x) a); [|reflexivity].
    rewrite (tsum_swap K HK).
    rewrite (tsum_map_ext K _ (fun s' => if beqb (sel qs x) s' then g x (upd qs s' (upd keep a' x)) else zero)).
    - rewrite (tsum_delta K HK (length qs) (fun s' => g x (upd qs s' (upd keep a' x))) (sel qs x) (sel_length qs x)).
      f_equal. rewrite <- (sel_upd_other qs keep a' x) at 1.
      + apply upd_sel_same.
      + intros q Hq'. rewrite Hx. auto.
      + assumption.
    - intros s' Hs'. apply allbits_In in Hs'.
      rewrite (tsum_scale_r K HK).
      rewrite (isometry_entries (length qs) U s' (sel qs x) HU Hun Hs' (sel_length qs x)).
      rewrite (beqb_sym' s' (sel qs x)).
      destruct (beqb (sel qs x) s'); [apply mul_1_l|apply mul_0_l].
  Qed.
End Ptrace.
