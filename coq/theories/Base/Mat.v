(* Base/Mat.v : list-of-rows matrices over an arbitrary carrier with zero, one, plus, times,
   the qubit embedding of a k-qubit matrix into n qubits (qubit 0 = most
   significant bit), controlled embedding, and the fact that an entrywise
   homomorphism commutes with all of these.  Everything is executable. *)
From Coq Require Import List Bool Arith Lia.
Import ListNotations.

Record ops (T : Type) := mkops { zero : T; one : T; add : T -> T -> T; mul : T -> T -> T }.
Arguments zero {T}. Arguments one {T}. Arguments add {T}. Arguments mul {T}.

Section Mat.
  Context {T : Type} (K : ops T).
  Definition vec := list T.
  Definition mat := list (list T).

  (* vectors; [] behaves as the zero vector of any length *)
  Fixpoint vadd (u v : vec) : vec :=
    match u, v with
    | [], _ => v
    | _, [] => u
    | x :: u', y :: v' => add K x y :: vadd u' v'
    end.
  Definition vscale (c : T) (v : vec) : vec := map (mul K c) v.

  (* row vector times matrix:  sum_k r_k * B[k] *)
  Fixpoint rowmul (r : vec) (B : mat) : vec :=
    match r, B with
    | x :: r', b :: B' => vadd (vscale x b) (rowmul r' B')
    | _, _ => []
    end.
  Definition mmul (A B : mat) : mat := map (fun r => rowmul r B) A.

  Definition mscale (c : T) (A : mat) : mat := map (vscale c) A.

  Definition mget (M : mat) (i j : nat) : T := nth j (nth i M []) (zero K).

  Fixpoint zipcons (r : vec) (M : mat) : mat :=
    match r, M with
    | [], _ => []
    | x :: r', [] => [x] :: zipcons r' []
    | x :: r', m :: M' => (x :: m) :: zipcons r' M'
    end.
  Fixpoint transpose (A : mat) : mat :=
    match A with [] => [] | r :: A' => zipcons r (transpose A') end.

  (* bit strings, big-endian: head = qubit 0 *)
  Fixpoint allbits (n : nat) : list (list bool) :=
    match n with
    | O => [[]]
    | S n' => map (cons false) (allbits n') ++ map (cons true) (allbits n')
    end.
  Fixpoint idx_acc (acc : nat) (b : list bool) : nat :=
    match b with [] => acc | x :: b' => idx_acc (2 * acc + (if x then 1 else 0)) b' end.
  Definition idx (b : list bool) : nat := idx_acc 0 b.
  Definition sel (qs : list nat) (b : list bool) : list bool := map (fun q => nth q b false) qs.
  Fixpoint agree_off_from (i : nat) (qs : list nat) (r c : list bool) : bool :=
    match r, c with
    | [], [] => true
    | x :: r', y :: c' =>
        (if existsb (Nat.eqb i) qs then true else Bool.eqb x y) && agree_off_from (S i) qs r' c'
    | _, _ => false
    end.
  Definition agree_off := agree_off_from 0.
  Fixpoint beqb (r c : list bool) : bool :=
    match r, c with
    | [], [] => true
    | x :: r', y :: c' => Bool.eqb x y && beqb r' c'
    | _, _ => false
    end.

  Definition midentity (n : nat) : mat :=
    map (fun r => map (fun c => if beqb r c then one K else zero K) (allbits n)) (allbits n).

  (* the k-qubit matrix M acting on the qubits qs (in that order) of n qubits *)
  Definition embed (n : nat) (qs : list nat) (M : mat) : mat :=
    map (fun r => map (fun c =>
           if agree_off qs r c then mget M (idx (sel qs r)) (idx (sel qs c)) else zero K)
         (allbits n)) (allbits n).

  (* M on targets ts where every control in cs is 1, identity elsewhere *)
  Definition cembed (n : nat) (cs ts : list nat) (M : mat) : mat :=
    map (fun r => map (fun c =>
           if forallb (fun q => nth q r false) cs
           then (if agree_off ts r c then mget M (idx (sel ts r)) (idx (sel ts c)) else zero K)
           else (if beqb r c then one K else zero K))
         (allbits n)) (allbits n).

  Fixpoint krow (a : vec) (b : vec) : vec :=
    match a with [] => [] | x :: a' => vscale x b ++ krow a' b end.
  Definition kron (A B : mat) : mat :=
    flat_map (fun ra => map (fun rb => krow ra rb) B) A.

  (* circuit = list of (controls, targets, matrix), first element applied first *)
  Definition gapp := (list nat * list nat * mat)%type.
  Definition gmat (n : nat) (g : gapp) : mat :=
    match g with (cs, ts, M) => cembed n cs ts M end.
  Definition circ_mat (n : nat) (gs : list gapp) : mat :=
    fold_left (fun U g => mmul (gmat n g) U) gs (midentity n).
End Mat.

Arguments mat : clear implicits.
Arguments vec : clear implicits.
Arguments gapp : clear implicits.

Section Hom.
  Context {S T : Type} (OS : ops S) (OT : ops T) (f : S -> T).
  Hypothesis f0 : f (zero OS) = zero OT.
  Hypothesis f1 : f (one OS) = one OT.
  Hypothesis fadd : forall a b, f (add OS a b) = add OT (f a) (f b).
  Hypothesis fmul : forall a b, f (mul OS a b) = mul OT (f a) (f b).

  Definition mmap (A : mat S) : mat T := map (map f) A.

  Lemma vadd_hom u : forall v, map f (vadd OS u v) = vadd OT (map f u) (map f v).
  Proof.
    induction u as [|x u IH]; intros [|y v]; simpl; try reflexivity.
    now rewrite fadd, IH.
  Qed.

  Lemma vscale_hom c v : map f (vscale OS c v) = vscale OT (f c) (map f v).
  Proof. unfold vscale. rewrite !map_map. apply map_ext. intros a. apply fmul. Qed.

  Lemma rowmul_hom r : forall B, map f (rowmul OS r B) = rowmul OT (map f r) (mmap B).
  Proof.
    induction r as [|x r IH]; intros [|b B]; simpl; try reflexivity.
    now rewrite vadd_hom, vscale_hom, IH.
  Qed.

  Lemma mmul_hom A B : mmap (mmul OS A B) = mmul OT (mmap A) (mmap B).
  Proof.
    unfold mmul, mmap. rewrite !map_map. apply map_ext. intros r. apply rowmul_hom.
  Qed.

  Lemma mscale_hom c A : mmap (mscale OS c A) = mscale OT (f c) (mmap A).
  Proof.
    unfold mscale, mmap. rewrite !map_map. apply map_ext. intros r. apply vscale_hom.
  Qed.

  Lemma mget_hom M i j : mget OT (mmap M) i j = f (mget OS M i j).
  Proof.
    unfold mget, mmap. rewrite <- f0.
    change (@nil T) with (map f []). rewrite !map_nth. reflexivity.
  Qed.

  Lemma midentity_hom n : mmap (midentity OS n) = midentity OT n.
  Proof.
    unfold midentity, mmap. rewrite map_map. apply map_ext. intros r.
    rewrite map_map. apply map_ext. intros c. destruct (beqb r c); auto.
  Qed.

  Lemma embed_hom n qs M : mmap (embed OS n qs M) = embed OT n qs (mmap M).
  Proof.
    unfold embed, mmap at 1. rewrite map_map. apply map_ext. intros r.
    rewrite map_map. apply map_ext. intros c.
    destruct (agree_off qs r c); [now rewrite mget_hom | exact f0].
  Qed.

  Lemma cembed_hom n cs ts M : mmap (cembed OS n cs ts M) = cembed OT n cs ts (mmap M).
  Proof.
    unfold cembed, mmap at 1. rewrite map_map. apply map_ext. intros r.
    rewrite map_map. apply map_ext. intros c.
    destruct (forallb _ cs).
    - destruct (agree_off ts r c); [now rewrite mget_hom | exact f0].
    - destruct (beqb r c); auto.
  Qed.

  Lemma krow_hom a b : map f (krow OS a b) = krow OT (map f a) (map f b).
  Proof.
    induction a as [|x a IH]; simpl; [reflexivity|].
    now rewrite map_app, vscale_hom, IH.
  Qed.

  Lemma kron_hom A B : mmap (kron OS A B) = kron OT (mmap A) (mmap B).
  Proof.
    unfold kron, mmap. induction A as [|ra A IH]; simpl; [reflexivity|].
    rewrite map_app. f_equal; [|exact IH].
    rewrite !map_map. apply map_ext. intros rb. apply krow_hom.
  Qed.

  Lemma zipcons_hom r : forall M, mmap (zipcons r M) = zipcons (map f r) (mmap M).
  Proof.
    unfold mmap. induction r as [|x r IH]; intros [|m M]; simpl; try reflexivity.
    - f_equal. apply (IH []).
    - f_equal. apply IH.
  Qed.

  Lemma transpose_hom A : mmap (transpose A) = transpose (mmap A).
  Proof.
    induction A as [|r A IH]; simpl; [reflexivity|].
    rewrite zipcons_hom. unfold mmap in *. now rewrite IH.
  Qed.

  Definition gapp_map (g : gapp S) : gapp T :=
    match g with (cs, ts, M) => (cs, ts, mmap M) end.

  Lemma gmat_hom n g : mmap (gmat OS n g) = gmat OT n (gapp_map g).
  Proof. destruct g as [[cs ts] M]. apply cembed_hom. Qed.

  Lemma circ_mat_hom n gs : mmap (circ_mat OS n gs) = circ_mat OT n (map gapp_map gs).
  Proof.
    unfold circ_mat. rewrite <- midentity_hom.
    generalize (midentity OS n). induction gs as [|g gs IH]; intros U; simpl; [reflexivity|].
    rewrite IH, mmul_hom, gmat_hom. reflexivity.
  Qed.
End Hom.
