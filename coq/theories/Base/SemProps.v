(* Base/SemProps.v : matrix-level facts about Base/Mat.embed / cembed that other properties use as
   premises (C05 invert, C07 sem_respects / light cone, C09 routing_ok), as theorems.
   Statements only; proofs in Base/Sem.v, SemPerm.v, SemPtrace.v (built on the index lemmas of C01).
   Carrier: any commutative semiring [semiring K] (C01/Lib.v); conjugation: [conj_ok K cj] (C01/ProofsDM.v).
   All equalities are LIST equalities of matrices; [wf_mat k A] = A is 2^k x 2^k (C01/ProofsMat.v);
   [madj K cj k A] = conjugate transpose of a 2^k x 2^k matrix (C01/Spec.v); eye / midentity = identity.
   Qubit lists: duplicate-free where stated, in range, ANY order.  Non-vacuity: Base/SemExamples.v. *)
From Coq Require Import List Bool Arith Lia.
From QV Require Import Base.Mat C01.Model C01.Spec C01.Lib C01.ProofsSV C01.ProofsCtrl C01.ProofsMat
  C01.ProofsRun C01.ProofsFused C01.ProofsQueue C01.ProofsDM C01.ProofsRunDM Base.Sem Base.SemPerm Base.SemPtrace.
Import ListNotations.

(* ---------------------------------------------------------------- (1) disjoint supports commute *)
Theorem embed_disjoint_commute : forall (T : Type) (K : ops T), semiring K ->
  forall n qs1 qs2 (A B : mat T),
  NoDup qs1 -> NoDup qs2 -> (forall q, In q qs1 -> q < n) -> (forall q, In q qs2 -> q < n) ->
  disjoint qs1 qs2 ->
  mmul K (embed K n qs1 A) (embed K n qs2 B) = mmul K (embed K n qs2 B) (embed K n qs1 A).
Proof. exact @embed_disjoint_commute_eq. Qed.
Print Assumptions embed_disjoint_commute.

(* controls count as support *)
Theorem cembed_disjoint_commute : forall (T : Type) (K : ops T), semiring K ->
  forall n cs1 ts1 cs2 ts2 (A B : mat T),
  NoDup ts1 -> NoDup ts2 ->
  (forall q, In q (cs1 ++ ts1) -> q < n) -> (forall q, In q (cs2 ++ ts2) -> q < n) ->
  disjoint (cs1 ++ ts1) (cs2 ++ ts2) ->
  mmul K (cembed K n cs1 ts1 A) (cembed K n cs2 ts2 B) = mmul K (cembed K n cs2 ts2 B) (cembed K n cs1 ts1 A).
Proof. exact @cembed_disjoint_commute_eq. Qed.
Print Assumptions cembed_disjoint_commute.

(* gates as qibo stores them (C01/Model.gate), operator C01/Spec.gate_op *)
Theorem gate_op_disjoint_commute : forall (T : Type) (K : ops T), semiring K ->
  forall n (g h : gate (T:=T)), gate_wf n g -> gate_wf n h ->
  disjoint (gate_qubits g) (gate_qubits h) ->
  mmul K (gate_op K n g) (gate_op K n h) = mmul K (gate_op K n h) (gate_op K n g).
Proof. exact @gate_op_disjoint_commute_eq. Qed.
Print Assumptions gate_op_disjoint_commute.

(* ---------------------------------------------------------------- (3) products, identity, dagger *)
Theorem embed_mmul : forall (T : Type) (K : ops T), semiring K ->
  forall n qs (A B : mat T), NoDup qs -> (forall q, In q qs -> q < n) ->
  wf_mat (length qs) A -> wf_mat (length qs) B ->
  embed K n qs (mmul K A B) = mmul K (embed K n qs A) (embed K n qs B).
Proof. exact @ProofsQueue.embed_mmul. Qed.
Print Assumptions embed_mmul.

Theorem cembed_mmul : forall (T : Type) (K : ops T), semiring K ->
  forall n cs ts (A B : mat T), NoDup ts -> (forall q, In q (cs ++ ts) -> q < n) ->
  (forall q, In q cs -> ~ In q ts) -> wf_mat (length ts) A -> wf_mat (length ts) B ->
  cembed K n cs ts (mmul K A B) = mmul K (cembed K n cs ts A) (cembed K n cs ts B).
Proof. exact @cembed_mmul_eq. Qed.
Print Assumptions cembed_mmul.

Theorem embed_identity : forall (T : Type) (K : ops T),
  forall n qs, NoDup qs -> (forall q, In q qs -> q < n) ->
  embed K n qs (eye K (2 ^ length qs)) = midentity K n.
Proof. exact @embed_eye. Qed.
Print Assumptions embed_identity.

Theorem cembed_identity : forall (T : Type) (K : ops T),
  forall n cs ts, (forall q, In q ts -> q < n) ->
  cembed K n cs ts (eye K (2 ^ length ts)) = midentity K n.
Proof. exact @cembed_eye_eq. Qed.
Print Assumptions cembed_identity.

Theorem embed_dagger : forall (T : Type) (K : ops T) (cj : T -> T),
  cj (zero K) = zero K -> cj (one K) = one K ->
  forall n qs (M : mat T), (forall q, In q qs -> q < n) ->
  embed K n qs (madj K cj (length qs) M) = madj K cj n (embed K n qs M).
Proof. intros T K cj H0 H1. exact (embed_dagger_eq K cj H0 H1). Qed.
Print Assumptions embed_dagger.

Theorem cembed_dagger : forall (T : Type) (K : ops T) (cj : T -> T),
  cj (zero K) = zero K -> cj (one K) = one K ->
  forall n cs ts (M : mat T), (forall q, In q (cs ++ ts) -> q < n) -> (forall q, In q cs -> ~ In q ts) ->
  cembed K n cs ts (madj K cj (length ts) M) = madj K cj n (cembed K n cs ts M).
Proof. intros T K cj H0 H1. exact (cembed_dagger_eq K cj H0 H1). Qed.
Print Assumptions cembed_dagger.

(* the per-gate premise of Circuit.invert (C05 dagger_left_inverse) for controlled gates *)
Theorem cembed_dagger_left_inverse_ok : forall (T : Type) (K : ops T) (cj : T -> T), semiring K ->
  forall n cs ts (M : mat T), NoDup ts -> (forall q, In q (cs ++ ts) -> q < n) ->
  (forall q, In q cs -> ~ In q ts) -> wf_mat (length ts) M ->
  mmul K (madj K cj (length ts) M) M = eye K (2 ^ length ts) ->
  mmul K (cembed K n cs ts (madj K cj (length ts) M)) (cembed K n cs ts M) = midentity K n.
Proof. intros T K cj HK. exact (cembed_dagger_left_inverse K HK cj). Qed.
Print Assumptions cembed_dagger_left_inverse_ok.

(* ---------------------------------------------------------------- (2) qubit permutations *)
(* pmat K n f = matrix of "move qubit position i to position f i";  perm_fn n f = f is a permutation of 0..n-1 *)
Theorem perm_embed_equivariant : forall (T : Type) (K : ops T), semiring K ->
  forall n f qs (M : mat T), perm_fn n f -> NoDup qs -> (forall q, In q qs -> q < n) ->
  mmul K (pmat K n f) (embed K n qs M) = mmul K (embed K n (map f qs) M) (pmat K n f).
Proof. exact @perm_embed_intertwine. Qed.
Print Assumptions perm_embed_equivariant.

Theorem perm_cembed_equivariant : forall (T : Type) (K : ops T), semiring K ->
  forall n f cs ts (M : mat T), perm_fn n f -> NoDup ts -> (forall q, In q (cs ++ ts) -> q < n) ->
  mmul K (pmat K n f) (cembed K n cs ts M) = mmul K (cembed K n (map f cs) (map f ts) M) (pmat K n f).
Proof. exact @perm_cembed_intertwine. Qed.
Print Assumptions perm_cembed_equivariant.

Theorem pmat_compose : forall (T : Type) (K : ops T), semiring K ->
  forall n f g, perm_fn n f -> perm_fn n g ->
  mmul K (pmat K n f) (pmat K n g) = pmat K n (fun i => f (g i)).
Proof. exact @pmat_comp. Qed.
Print Assumptions pmat_compose.

(* sigma = f with inverse g:  embed n (sigma qs) M = P_sigma . embed n qs M . P_sigma^-1 *)
Theorem cembed_relabel : forall (T : Type) (K : ops T), semiring K ->
  forall n f g cs ts (M : mat T), perm_fn n f -> perm_fn n g -> (forall i, i < n -> f (g i) = i) ->
  NoDup ts -> (forall q, In q (cs ++ ts) -> q < n) ->
  cembed K n (map f cs) (map f ts) M = mmul K (pmat K n f) (mmul K (cembed K n cs ts M) (pmat K n g)).
Proof. exact @cembed_relabel_eq. Qed.
Print Assumptions cembed_relabel.

Theorem embed_relabel : forall (T : Type) (K : ops T), semiring K ->
  forall n f g qs (M : mat T), perm_fn n f -> perm_fn n g -> (forall i, i < n -> f (g i) = i) ->
  NoDup qs -> (forall q, In q qs -> q < n) ->
  embed K n (map f qs) M = mmul K (pmat K n f) (mmul K (embed K n qs M) (pmat K n g)).
Proof. intros T K HK n f g qs M Hf Hg Hi Hn Hq. exact (cembed_relabel_eq K HK n f g [] qs M Hf Hg Hi Hn Hq). Qed.
Print Assumptions embed_relabel.

Theorem swap_is_transposition_ok : forall (T : Type) (K : ops T), semiring K ->
  forall n p q, p < n -> q < n -> p <> q ->
  embed K n [p; q] (SWAP K) = pmat K n (transp p q).
Proof. exact @swap_is_transposition. Qed.
Print Assumptions swap_is_transposition_ok.

(* ---------------------------------------------------------------- (4) reduced states *)
(* reduced K n keep rho = partial trace over the qubits not in keep (definition: Base/SemPtrace.v) *)
Theorem ptrace_ignores_outside : forall (T : Type) (K : ops T) (cj : T -> T), semiring K -> conj_ok K cj ->
  forall n keep qs (U rho : mat T),
  NoDup qs -> (forall q, In q qs -> q < n) -> (forall q, In q keep -> q < n) ->
  (forall q, In q qs -> ~ In q keep) ->
  wf_mat (length qs) U -> mmul K (madj K cj (length qs) U) U = eye K (2 ^ length qs) -> wf_mat n rho ->
  reduced K n keep (sandwich K cj n (embed K n qs U) rho) = reduced K n keep rho.
Proof. exact @reduced_ignores_outside_eq. Qed.
Print Assumptions ptrace_ignores_outside.
