(* Base/TrigMat.v : matrix expressions over TrigNF expressions, their meaning as
   complex matrices, their normal form as polynomial matrices, and the reflexive
   checkers  [mcheck_eq] (equality for all angles) and [mcheck_phase] (equality
   up to a global phase e^{i phi}, phi an angle form found by search). *)
From Coq Require Import Reals ZArith QArith Qreals List Bool Lra.
From Coquelicot Require Import Complex.
From QV Require Import Base.Cis Base.TrigNF Base.Mat.
Import ListNotations.

Definition Cops : ops C := mkops C (RtoC 0) (RtoC 1) Cplus Cmult.
Definition Pops : ops poly := mkops poly [] (pconst 1) padd pmul.

Definition Cmat := mat C.
Definition Cdagger (A : Cmat) : Cmat := map (map Cconj) (transpose A).
Definition pdagger (A : mat poly) : mat poly := map (map pconj) (transpose A).

Inductive mexpr : Type :=
| MLit (A : mat expr)
| MId (n : nat)
| MMul (A B : mexpr)
| MKron (A B : mexpr)
| MDag (A : mexpr)
| MScale (e : expr) (A : mexpr)
| MEmbed (n : nat) (qs : list nat) (A : mexpr)
| MCEmbed (n : nat) (cs ts : list nat) (A : mexpr).

Fixpoint mden (th : nat -> R) (m : mexpr) : Cmat :=
  match m with
  | MLit A => map (map (denote th)) A
  | MId n => midentity Cops n
  | MMul A B => mmul Cops (mden th A) (mden th B)
  | MKron A B => kron Cops (mden th A) (mden th B)
  | MDag A => Cdagger (mden th A)
  | MScale e A => mscale Cops (denote th e) (mden th A)
  | MEmbed n qs A => embed Cops n qs (mden th A)
  | MCEmbed n cs ts A => cembed Cops n cs ts (mden th A)
  end.

Fixpoint mnorm (m : mexpr) : mat poly :=
  match m with
  | MLit A => map (map norm) A
  | MId n => midentity Pops n
  | MMul A B => mmul Pops (mnorm A) (mnorm B)
  | MKron A B => kron Pops (mnorm A) (mnorm B)
  | MDag A => pdagger (mnorm A)
  | MScale e A => mscale Pops (norm e) (mnorm A)
  | MEmbed n qs A => embed Pops n qs (mnorm A)
  | MCEmbed n cs ts A => cembed Pops n cs ts (mnorm A)
  end.

Definition pev (th : nat -> R) : mat poly -> Cmat := mmap (peval th).

Lemma pev_one th : peval th (one Pops) = one Cops.
Proof.
  change (one Pops) with (pconst 1). change (one Cops) with (RtoC 1).
  rewrite pconst_sound. f_equal. unfold Q2R; simpl. lra.
Qed.

Theorem mnorm_sound th m : pev th (mnorm m) = mden th m.
Proof.
  unfold pev. induction m; cbn [mnorm mden].
  - unfold mmap. rewrite map_map. apply map_ext. intros r. rewrite map_map.
    apply map_ext. intros e. apply norm_sound.
  - apply (midentity_hom Pops Cops); [reflexivity | apply pev_one].
  - rewrite <- IHm1, <- IHm2.
    apply (mmul_hom Pops Cops); intros; [apply padd_sound | apply pmul_sound].
  - rewrite <- IHm1, <- IHm2. apply (kron_hom Pops Cops). intros; apply pmul_sound.
  - rewrite <- IHm. unfold pdagger, Cdagger.
    rewrite <- (transpose_hom (peval th)). unfold mmap. rewrite !map_map.
    apply map_ext. intros r. rewrite !map_map. apply map_ext. intros p. apply pconj_sound.
  - rewrite <- IHm, <- norm_sound. apply (mscale_hom Pops Cops). intros; apply pmul_sound.
  - rewrite <- IHm. apply (embed_hom Pops Cops). reflexivity.
  - rewrite <- IHm. apply (cembed_hom Pops Cops); [reflexivity | apply pev_one].
Qed.

(* ---- equality of polynomial matrices ---- *)
Fixpoint pveqb (u v : list poly) : bool :=
  match u, v with
  | [], [] => true
  | p :: u', q :: v' => peqb p q && pveqb u' v'
  | _, _ => false
  end.
Fixpoint pmeqb (A B : mat poly) : bool :=
  match A, B with
  | [], [] => true
  | u :: A', v :: B' => pveqb u v && pmeqb A' B'
  | _, _ => false
  end.

Lemma pveqb_sound th u : forall v, pveqb u v = true -> map (peval th) u = map (peval th) v.
Proof.
  induction u as [|p u IH]; intros [|q v] H; simpl in *; try discriminate; [reflexivity|].
  apply andb_true_iff in H as [H1 H2]. f_equal; [now apply peqb_sound | now apply IH].
Qed.

Lemma pmeqb_sound th A : forall B, pmeqb A B = true -> pev th A = pev th B.
Proof.
  unfold pev, mmap. induction A as [|u A IH]; intros [|v B] H; simpl in *;
    try discriminate; [reflexivity|].
  apply andb_true_iff in H as [H1 H2]. f_equal; [now apply pveqb_sound | now apply IH].
Qed.

Definition mcheck_eq (a b : mexpr) : bool := pmeqb (mnorm a) (mnorm b).

Theorem mcheck_eq_sound a b : mcheck_eq a b = true -> forall th, mden th a = mden th b.
Proof.
  intros H th. rewrite <- !mnorm_sound. now apply pmeqb_sound.
Qed.

(* ---- equality up to a global phase ---- *)
(* candidates for the phase: differences of monomials of the first non-zero
   entry of B and the corresponding entry of A *)
Fixpoint first_nz_row (j : nat) (r : list poly) : option (nat * poly) :=
  match r with
  | [] => None
  | p :: r' => if pzero p then first_nz_row (S j) r' else Some (j, p)
  end.
Fixpoint first_nz (i : nat) (B : mat poly) : option (nat * nat * poly) :=
  match B with
  | [] => None
  | r :: B' => match first_nz_row 0 r with
               | Some (j, p) => Some (i, j, p)
               | None => first_nz (S i) B'
               end
  end.

Definition phase_candidates (A B : mat poly) : list aff :=
  match first_nz 0 B with
  | None => [[]]
  | Some (i, j, q) =>
      let p := mget Pops A i j in
      flat_map (fun t => flat_map (fun u =>
          let d := aadd (fst t) (aneg (fst u)) in [d; aadd d (api 1)]) q) p
  end.

Definition phase_ok (A B : mat poly) (m : aff) : bool :=
  pmeqb A (mscale Pops (pcis m) B).

Definition find_phase (A B : mat poly) : option aff :=
  find (phase_ok A B) (phase_candidates A B).

Definition mcheck_phase (a b : mexpr) : bool :=
  match find_phase (mnorm a) (mnorm b) with Some _ => true | None => false end.

Theorem mcheck_phase_sound a b :
  mcheck_phase a b = true ->
  forall th, exists phi : R, mden th a = mscale Cops (cis phi) (mden th b).
Proof.
  unfold mcheck_phase. destruct (find_phase (mnorm a) (mnorm b)) as [m|] eqn:F; [|discriminate].
  intros _ th. exists (aang th m).
  apply find_some in F as [_ F]. unfold phase_ok in F.
  apply (pmeqb_sound th) in F. rewrite <- !mnorm_sound, F. unfold pev.
  rewrite (mscale_hom Pops Cops (peval th)) by (intros; apply pmul_sound).
  now rewrite pcis_sound.
Qed.

(* the phase the checker found, for reporting *)
Definition mphase (a b : mexpr) : option aff := find_phase (mnorm a) (mnorm b).

(* ---- circuits as matrix expressions ---- *)
Definition egate := (list nat * list nat * mexpr)%type.
Definition mcirc (n : nat) (gs : list egate) : mexpr :=
  fold_left (fun U g => match g with (cs, ts, M) => MMul (MCEmbed n cs ts M) U end) gs (MId n).

Lemma mden_mcirc th n gs :
  mden th (mcirc n gs) =
  circ_mat Cops n (map (fun g : egate => match g with (cs, ts, M) => (cs, ts, mden th M) end) gs).
Proof.
  unfold mcirc, circ_mat. change (midentity Cops n) with (mden th (MId n)).
  generalize (MId n). induction gs as [|[[cs ts] M] gs IH]; intros U; simpl; [reflexivity|].
  rewrite IH. reflexivity.
Qed.

Definition mis_unitary (a : mexpr) (n : nat) : bool := mcheck_eq (MMul (MDag a) a) (MId n).
