(* Base/SemExamples.v : the hypotheses of the theorems of Base/SemProps.v are satisfiable, on
   Gaussian-integer instances with non-adjacent, non-ascending qubit lists; each example also
   re-checks the conclusion by computation and shows it is not trivial. *)
From Coq Require Import List Bool Arith Lia ZArith.
From QV Require Import Base.Mat Base.Zi C01.Model C01.Spec C01.Lib C01.ProofsCtrl C01.ProofsMat C01.ProofsRun
  C01.ProofsQueue C01.ProofsDM C01.Examples Base.Sem Base.SemPerm Base.SemPtrace.
Import ListNotations.

Definition sA : mat Zi := [[(1, 2); (0, -1)]; [(3, 0); (-2, 1)]]%Z.
Definition sB : mat Zi :=
  [[(1, 0); (0, 1); (2, 0); (0, 0)]; [(0, -1); (1, 1); (0, 0); (3, 0)];
   [(2, 2); (0, 0); (1, 0); (0, 1)]; [(0, 0); (1, -1); (0, 2); (1, 0)]]%Z.
(* a unitary with Gaussian-integer entries: i * (Pauli Y) composed with a swap of basis states *)
Definition sU : mat Zi := [[(0, 0); (0, 1)]; [(0, 1); (0, 0)]]%Z.
Definition sRho : mat Zi := tab2 3 (fun r c => (Z.of_nat (idx r) * 2 + 1, Z.of_nat (idx c) - Z.of_nat (idx r) * 3)%Z).

Ltac fin := simpl; repeat (match goal with
  | |- _ /\ _ => split
  | |- forall _, _ => intro
  | H : _ \/ _ |- _ => destruct H
  | H : False |- _ => destruct H
  | H : In _ _ |- _ => simpl in H
  | |- NoDup _ => constructor
  | |- Forall _ _ => constructor
  | |- ~ _ => intro
  end; subst; simpl in * ); try lia; try tauto.

(* (1) controlled gate on controls {3}, target 1 and a two-qubit gate on (2,0), n = 4 *)
Example ex_commute_hyps :
  NoDup [1] /\ NoDup [2; 0] /\ (forall q, In q ([3] ++ [1]) -> q < 4) /\ (forall q, In q ([] ++ [2; 0]) -> q < 4)
  /\ disjoint ([3] ++ [1]) ([] ++ [2; 0]).
Proof. unfold disjoint. fin. Qed.
Example ex_commute_value :
  mmul Ziops (cembed Ziops 4 [3] [1] sA) (cembed Ziops 4 [] [2; 0] sB)
  = mmul Ziops (cembed Ziops 4 [] [2; 0] sB) (cembed Ziops 4 [3] [1] sA)
  /\ mmul Ziops (cembed Ziops 4 [3] [1] sA) (cembed Ziops 4 [] [1; 0] sB)
     <> mmul Ziops (cembed Ziops 4 [] [1; 0] sB) (cembed Ziops 4 [3] [1] sA).
Proof. split; [vm_compute; reflexivity|vm_compute; discriminate]. Qed.

(* (3) products and daggers *)
Example ex_mmul_hyps :
  NoDup [0] /\ (forall q, In q ([2] ++ [0]) -> q < 3) /\ (forall q, In q [2] -> ~ In q [0])
  /\ wf_mat (length [0]) sA /\ wf_mat (length [0]) sU.
Proof. unfold wf_mat. fin. Qed.
Example ex_mmul_value :
  cembed Ziops 3 [2] [0] (mmul Ziops sA sU) = mmul Ziops (cembed Ziops 3 [2] [0] sA) (cembed Ziops 3 [2] [0] sU)
  /\ cembed Ziops 3 [2] [0] (madj Ziops zi_conj 1 sA) = madj Ziops zi_conj 3 (cembed Ziops 3 [2] [0] sA)
  /\ madj Ziops zi_conj 1 sA <> sA.
Proof. repeat split; try (vm_compute; reflexivity). vm_compute. discriminate. Qed.
Example ex_unitary_hyp : wf_mat 1 sU /\ mmul Ziops (madj Ziops zi_conj 1 sU) sU = eye Ziops (2 ^ 1).
Proof. split; [unfold wf_mat; fin|vm_compute; reflexivity]. Qed.

(* (2) the cyclic permutation i -> i+1 mod 3 with its inverse *)
Definition sF (i : nat) : nat := match i with 0 => 1 | 1 => 2 | 2 => 0 | _ => i end.
Definition sG (i : nat) : nat := match i with 0 => 2 | 1 => 0 | 2 => 1 | _ => i end.
Example ex_perm_hyps : perm_fn 3 sF /\ perm_fn 3 sG /\ (forall i, i < 3 -> sF (sG i) = i).
Proof.
  unfold perm_fn. repeat split; intros;
    repeat (match goal with i : nat |- _ => destruct i as [|i]; simpl in *; try lia end).
Qed.
Example ex_relabel_value :
  embed Ziops 3 (map sF [2; 0]) sB
  = mmul Ziops (pmat Ziops 3 sF) (mmul Ziops (embed Ziops 3 [2; 0] sB) (pmat Ziops 3 sG))
  /\ embed Ziops 3 (map sF [2; 0]) sB <> embed Ziops 3 [2; 0] sB
  /\ embed Ziops 3 [2; 0] (SWAP Ziops) = pmat Ziops 3 (transp 2 0).
Proof. repeat split; try (vm_compute; reflexivity). vm_compute. discriminate. Qed.

(* (4) kept qubits (2,0), isometry on qubit 1 *)
Example ex_ptrace_hyps :
  NoDup [1] /\ (forall q, In q [1] -> q < 3) /\ (forall q, In q [2; 0] -> q < 3) /\ (forall q, In q [1] -> ~ In q [2; 0])
  /\ wf_mat 3 sRho.
Proof. repeat split; try apply tab2_wf; fin. Qed.
Example ex_ptrace_value :
  reduced Ziops 3 [2; 0] (sandwich Ziops zi_conj 3 (embed Ziops 3 [1] sU) sRho) = reduced Ziops 3 [2; 0] sRho
  /\ sandwich Ziops zi_conj 3 (embed Ziops 3 [1] sU) sRho <> sRho
  /\ reduced Ziops 3 [2; 1] (sandwich Ziops zi_conj 3 (embed Ziops 3 [1] sU) sRho) <> reduced Ziops 3 [2; 1] sRho.
Proof. repeat split; try (vm_compute; reflexivity); vm_compute; discriminate. Qed.
