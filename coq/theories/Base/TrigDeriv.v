(* Base/TrigDeriv.v : formal derivative of a TrigNF polynomial with respect to one angle
   variable, proved to be the true derivative (Coquelicot's is_derive) of its real and
   imaginary parts.  Used for the parameter-shift rule (C06). *)
From Coq Require Import Reals ZArith QArith Qreals List Lra Bool Arith.
From Coquelicot Require Import Coquelicot.
From QV Require Import Base.Cis Base.TrigNF.
Import ListNotations.

Definition upd (th : nat -> R) (j : nat) (t : R) : nat -> R :=
  fun k => if Nat.eqb k j then t else th k.

Definition coef (a : aff) (i : nat) : Q := nth i a 0%Q.

Lemma Q2R_0 : Q2R 0 = 0%R.
Proof. unfold Q2R; simpl. lra. Qed.

Lemma aang_from_above th j t a : forall k, (S j < k)%nat ->
  aang_from (upd th j t) k a = aang_from (upd th j 0) k a.
Proof.
  induction a as [|d a IH]; intros k Hk; simpl; [reflexivity|].
  rewrite IH by auto with arith. f_equal. f_equal.
  destruct k as [|k']; [inversion Hk|]. unfold env, upd.
  destruct (Nat.eqb_spec k' j) as [E|E]; [|reflexivity].
  subst. exfalso. exact (Nat.lt_irrefl _ Hk).
Qed.

Lemma env_upd_other th j t i : i <> S j -> env (upd th j t) i = env (upd th j 0) i.
Proof.
  intros Hne. destruct i as [|i']; [reflexivity|]. unfold env, upd.
  destruct (Nat.eqb_spec i' j) as [E|E]; [subst; exfalso; apply Hne; reflexivity | reflexivity].
Qed.

Lemma aang_from_upd th j t a : forall i, (i <= S j)%nat ->
  aang_from (upd th j t) i a
  = (aang_from (upd th j 0) i a + Q2R (nth (S j - i) a 0%Q) * t)%R.
Proof.
  induction a as [|c a IH]; intros i Hi.
  - cbn [aang_from]. destruct (S j - i)%nat; cbn [nth]; rewrite Q2R_0; lra.
  - destruct (Nat.eq_dec i (S j)) as [E|Hne].
    + subst i. rewrite Nat.sub_diag. cbn [nth aang_from].
      rewrite (aang_from_above th j t a (S (S j))) by auto with arith.
      change (env (upd th j t) (S j)) with (upd th j t j).
      change (env (upd th j 0) (S j)) with (upd th j 0 j).
      unfold upd. rewrite Nat.eqb_refl. lra.
    + assert (Hlt : (S i <= S j)%nat).
      { destruct (Nat.lt_ge_cases i (S j)) as [H|H]; [exact H|].
        exfalso; apply Hne; apply Nat.le_antisymm; assumption. }
      cbn [aang_from]. rewrite IH by exact Hlt.
      replace (S j - i)%nat with (S (S j - S i)).
      2:{ clear -Hlt. apply Nat.succ_le_mono in Hlt.
          rewrite Nat.sub_succ. symmetry. apply Nat.sub_succ_l. exact Hlt. }
      cbn [nth]. rewrite (env_upd_other th j t i Hne). lra.
Qed.

Lemma aang_upd th j t a :
  aang (upd th j t) a = (aang (upd th j 0) a + Q2R (coef a (S j)) * t)%R.
Proof.
  unfold aang, coef. rewrite (aang_from_upd th j t a 0) by auto with arith.
  rewrite Nat.sub_0_r. reflexivity.
Qed.

Lemma cos_plus_PI2 y : cos (y + PI / 2) = (- sin y)%R.
Proof. rewrite cos_plus, cos_PI2, sin_PI2. ring. Qed.
Lemma sin_plus_PI2 y : sin (y + PI / 2) = cos y.
Proof. rewrite sin_plus, cos_PI2, sin_PI2. ring. Qed.

Definition tderiv (j : nat) (t : term) : term :=
  reduce (aadd (fst t) (api (1 # 2)), Qred (snd t * coef (fst t) (S j))).

Definition pderiv (j : nat) (p : poly) : poly :=
  fold_right (fun t acc => pinsert (tderiv j t) acc) [] p.

Lemma teval_deriv_re th j (t : term) x :
  is_derive (fun s => fst (teval (upd th j s) t)) x (fst (teval (upd th j x) (tderiv j t))).
Proof.
  destruct t as [a c]. unfold tderiv. rewrite reduce_sound. unfold teval; cbn [fst snd].
  rewrite aang_aadd, aang_api, Q2R_Qred, Q2R_mult.
  replace (Q2R (1 # 2) * PI)%R with (PI / 2)%R by (unfold Q2R; simpl; lra).
  unfold cis, Cmult, RtoC; cbn [fst snd].
  eapply is_derive_ext; [intros s; rewrite (aang_upd th j s a); reflexivity|].
  rewrite (aang_upd th j x a).
  set (K := aang (upd th j 0) a). set (A := Q2R (coef a (S j))). set (cc := Q2R c).
  rewrite cos_plus_PI2, sin_plus_PI2.
  auto_derive; [trivial | ring].
Qed.

Lemma teval_deriv_im th j (t : term) x :
  is_derive (fun s => snd (teval (upd th j s) t)) x (snd (teval (upd th j x) (tderiv j t))).
Proof.
  destruct t as [a c]. unfold tderiv. rewrite reduce_sound. unfold teval; cbn [fst snd].
  rewrite aang_aadd, aang_api, Q2R_Qred, Q2R_mult.
  replace (Q2R (1 # 2) * PI)%R with (PI / 2)%R by (unfold Q2R; simpl; lra).
  unfold cis, Cmult, RtoC; cbn [fst snd].
  eapply is_derive_ext; [intros s; rewrite (aang_upd th j s a); reflexivity|].
  rewrite (aang_upd th j x a).
  set (K := aang (upd th j 0) a). set (A := Q2R (coef a (S j))). set (cc := Q2R c).
  rewrite cos_plus_PI2, sin_plus_PI2.
  auto_derive; [trivial | ring].
Qed.

Theorem pderiv_re th j p x :
  is_derive (fun s => fst (peval (upd th j s) p)) x (fst (peval (upd th j x) (pderiv j p))).
Proof.
  induction p as [|t p IH]; simpl.
  - apply (is_derive_ext (fun _ => 0%R)); [reflexivity|]. apply (is_derive_const 0%R).
  - rewrite pinsert_sound. cbn [fst Cplus].
    apply (is_derive_plus (fun s => fst (teval (upd th j s) t)) (fun s => fst (peval (upd th j s) p))).
    + apply teval_deriv_re.
    + exact IH.
Qed.

Theorem pderiv_im th j p x :
  is_derive (fun s => snd (peval (upd th j s) p)) x (snd (peval (upd th j x) (pderiv j p))).
Proof.
  induction p as [|t p IH]; simpl.
  - apply (is_derive_ext (fun _ => 0%R)); [simpl; intros; ring|]. apply (is_derive_const 0%R).
  - rewrite pinsert_sound. cbn [snd Cplus].
    apply (is_derive_plus (fun s => snd (teval (upd th j s) t)) (fun s => snd (peval (upd th j s) p))).
    + apply teval_deriv_im.
    + exact IH.
Qed.

(* reflexive statement used by the generated obligations:
   if  pderiv j (norm e) = norm e'  as polynomials, then e' denotes the derivative of e *)
Definition deriv_check (j : nat) (e e' : expr) : bool := peqb (pderiv j (norm e)) (norm e').

Theorem deriv_check_sound j e e' :
  deriv_check j e e' = true ->
  forall th x,
    is_derive (fun s => fst (denote (upd th j s) e)) x (fst (denote (upd th j x) e')) /\
    is_derive (fun s => snd (denote (upd th j s) e)) x (snd (denote (upd th j x) e')).
Proof.
  unfold deriv_check. intros H th x.
  apply (peqb_sound (upd th j x)) in H. rewrite norm_sound in H. rewrite <- H.
  split.
  - eapply is_derive_ext; [intros s; rewrite <- norm_sound; reflexivity|]. apply pderiv_re.
  - eapply is_derive_ext; [intros s; rewrite <- norm_sound; reflexivity|]. apply pderiv_im.
Qed.
