(* Base/SemCtrl.v : the controlled operator as an embedding.
     ctrl_mat k M  =  diag(1, ..., 1, M)  (scipy block_diag(eye((2^k - 1) * dim M), M)): the identity
                      except on the last block, i.e. where all k leading (control) bits are 1;
     cembed n cs ts M = embed n (cs ++ ts) (ctrl_mat (length cs) M)          (cembed_is_embed_ctrl)
   for every n, duplicate-free in-range cs ++ ts (NoDup ts is not even needed) and 2^|ts| x 2^|ts| M,
   as a LIST equality of matrices (the form all lemmas of Base/Sem*.v use), over ANY carrier with
   zero/one/plus/times (no ring law is used for the equality itself; products need a commutative semiring).  The index computation is C01/ProofsFused.embed_block_diag (there a step of the
   matrix_fused proof); here it is turned around into the statement about Base/Mat.cembed, and
   ctrl_mat is shown to be a unital multiplicative map commuting with the conjugate transpose:
     ctrl_mat k (A B) = ctrl_mat k A . ctrl_mat k B,  ctrl_mat k 1 = 1,  ctrl_mat k (M^+) = (ctrl_mat k M)^+
   hence (co)isometries / unitaries stay so.  Consequences:
     - every statement of Base/SemProps.v / SemPtrace.v about `embed n qs U` with U^+ U = 1 applies to
       `cembed n cs ts M` with qs := cs ++ ts, U := ctrl_mat |cs| M; the one that had no cembed form,
       the partial-trace invariance, is stated here (reduced_ignores_outside_cembed);
       (dagger, disjoint commutation and relabelling for cembed are Sem.v/SemPerm.v: cembed_dagger_eq,
        cembed_disjoint_commute_eq, cembed_relabel_eq; they are re-obtained below THROUGH the embedding
        as a cross-check of the route: cembed_dagger_via_embed, cembed_commute_via_embed.)
     - the textbook characterisation on basis states (cembed_on_basis): column c of cembed n cs ts M is
       the basis vector e_c when some control bit of c is 0 and column c of embed n ts M when all are 1. *)
From Coq Require Import List Bool Arith Lia.
From QV Require Import Base.Mat C01.Model C01.Spec C01.Lib C01.ProofsSV C01.ProofsCtrl C01.ProofsMat
  C01.ProofsRun C01.ProofsFused C01.ProofsQueue C01.ProofsDM C01.ProofsRunDM C01.ProofsGram
  Base.Sem Base.SemPerm Base.SemPtrace.
Import ListNotations.

Lemma pow2_split k t : (2 ^ k - 1) * 2 ^ t + 2 ^ t = 2 ^ (k + t).
Proof.
  rewrite Nat.pow_add_r. assert (0 < 2 ^ k) by (apply Nat.neq_0_lt_0, Nat.pow_nonzero; lia). nia.
Qed.

Lemma agree_off_full n r c : length r = n -> length c = n -> agree_off (seq 0 n) r c = true.
Proof.
  intros Hr Hc. apply agree_off_spec. split; [congruence|]. intros j Hj. left. apply memb_In, in_seq. lia.
Qed.

Lemma sel_full n r : length r = n -> sel (seq 0 n) r = r.
Proof. intros <-. unfold sel. apply map_nth_seq. Qed.

Section Ctrl.
  Context {T : Type} (K : ops T).
  Hypothesis HK : semiring K.
  Local Notation zero := (zero K).
  Local Notation one := (one K).

  (* diag(1, ..., 1, M): M of any square size d, 2^k blocks of size d *)
  Definition ctrl_mat (k : nat) (M : mat T) : mat T :=
    block_diag K (eye K ((2 ^ k - 1) * length M)) M.

  Lemma block_diag_shape d e (A B : mat T) : shape d A -> shape e B -> shape (d + e) (block_diag K A B).
  Proof.
    intros [HAl HAr] [HBl HBr].
    assert (H1 : length (hd [] B) = e).
    { destruct B as [|r0 B']; [simpl in *; lia|]. simpl. now inversion HBr. }
    assert (H2 : length (hd [] A) = d).
    { destruct A as [|r0 A']; [simpl in *; lia|]. simpl. now inversion HAr. }
    unfold block_diag. rewrite H1, H2. split.
    - rewrite app_length, !map_length. lia.
    - apply Forall_forall. intros row Hrow. apply in_app_iff in Hrow. rewrite Forall_forall in HAr, HBr.
      destruct Hrow as [Hrow|Hrow]; apply in_map_iff in Hrow; destruct Hrow as [x [<- Hx]];
        rewrite app_length, repeat_length.
      + rewrite (HAr x Hx). lia.
      + rewrite (HBr x Hx). lia.
  Qed.

  Lemma ctrl_mat_wf k t M : wf_mat t M -> wf_mat (k + t) (ctrl_mat k M).
  Proof.
    intros HM. change (shape (2 ^ (k + t)) (ctrl_mat k M)). rewrite <- pow2_split.
    unfold ctrl_mat. destruct HM as [Hl Hr]. rewrite Hl.
    apply block_diag_shape; [apply (eye_shape K)|split; assumption].
  Qed.

  (* ---------------------------------------------------------------- (1) cembed = embed of ctrl_mat *)
  Theorem cembed_embed_ctrl n cs ts M :
    NoDup cs -> (forall q, In q (cs ++ ts) -> q < n) -> (forall q, In q cs -> ~ In q ts) ->
    wf_mat (length ts) M ->
    cembed K n cs ts M = embed K n (cs ++ ts) (ctrl_mat (length cs) M).
  Proof.
    intros Hn Hq Hd HM. rewrite <- (embed_block_diag K n cs ts M Hn Hq Hd HM).
    f_equal. unfold ctrl_mat. f_equal. f_equal. destruct HM as [Hl _].
    rewrite Hl, app_length, <- pow2_split. now rewrite Nat.add_sub.
  Qed.

  (* a full-width embedding on the qubits in their own order is the matrix itself *)
  Lemma embed_full n G : wf_mat n G -> embed K n (seq 0 n) G = G.
  Proof.
    intros HG. transitivity (tab2 n (mentry K G)); [|symmetry; now apply wf_tab2].
    rewrite embed_tab2. apply tab2_ext. intros r c Hr Hc.
    rewrite agree_off_full, !sel_full by assumption. reflexivity.
  Qed.

  Lemma seq_parts_ok k t :
    NoDup (seq 0 k) /\ NoDup (seq k t) /\ (forall q, In q (seq 0 k ++ seq k t) -> q < k + t)
    /\ (forall q, In q (seq k t) -> q < k + t) /\ (forall q, In q (seq 0 k) -> ~ In q (seq k t)).
  Proof.
    repeat split; try apply seq_NoDup.
    - intros q Hq. apply in_app_iff in Hq. rewrite !in_seq in Hq. lia.
    - intros q Hq. apply in_seq in Hq. lia.
    - intros q Hq Hq'. apply in_seq in Hq. apply in_seq in Hq'. lia.
  Qed.

  (* ctrl_mat k M is itself the controlled operator of M on k + t qubits: controls 0..k-1, targets k..k+t-1 *)
  Lemma ctrl_mat_as_cembed k t M : wf_mat t M ->
    ctrl_mat k M = cembed K (k + t) (seq 0 k) (seq k t) M.
  Proof.
    intros HM. destruct (seq_parts_ok k t) as [N1 [N2 [R [_ D]]]].
    transitivity (embed K (k + t) (seq 0 k ++ seq k t) (ctrl_mat (length (seq 0 k)) M)).
    - rewrite seq_length. change (seq k t) with (seq (0 + k) t). rewrite <- seq_app.
      symmetry. apply embed_full. now apply ctrl_mat_wf.
    - symmetry. apply cembed_embed_ctrl; auto. now rewrite seq_length.
  Qed.

  (* ---------------------------------------------------------------- ctrl_mat is a unital homomorphism *)
  Lemma ctrl_mat_mmul k t A B : wf_mat t A -> wf_mat t B ->
    ctrl_mat k (mmul K A B) = mmul K (ctrl_mat k A) (ctrl_mat k B).
  Proof.
    intros HA HB. destruct (seq_parts_ok k t) as [N1 [N2 [R [_ D]]]].
    rewrite !(ctrl_mat_as_cembed k t) by (auto using (mmul_wf K HK)).
    apply (cembed_mmul_eq K HK); auto; now rewrite seq_length.
  Qed.

  Lemma ctrl_mat_eye k t : ctrl_mat k (eye K (2 ^ t)) = eye K (2 ^ (k + t)).
  Proof.
    destruct (seq_parts_ok k t) as [_ [_ [_ [R _]]]].
    rewrite (ctrl_mat_as_cembed k t) by (apply (eye_shape K)).
    pose proof (cembed_eye_eq K (k + t) (seq 0 k) (seq k t) R) as H. rewrite seq_length in H.
    rewrite H. symmetry. apply (eye_midentity K).
  Qed.

  Section Dagger.
    Variable cj : T -> T.
    Hypothesis cj_zero : cj zero = zero.
    Hypothesis cj_one : cj one = one.

    (* control commutes with the conjugate transpose, at the level of the small matrices *)
    Lemma ctrl_mat_dagger k t M : wf_mat t M ->
      ctrl_mat k (madj K cj t M) = madj K cj (k + t) (ctrl_mat k M).
    Proof.
      intros HM. destruct (seq_parts_ok k t) as [_ [_ [R [_ D]]]].
      rewrite (ctrl_mat_as_cembed k t M HM). rewrite (ctrl_mat_as_cembed k t) by apply tab2_wf.
      pose proof (cembed_dagger_eq K cj cj_zero cj_one (k + t) (seq 0 k) (seq k t) M R D) as H.
      rewrite seq_length in H. exact H.
    Qed.

    (* (2a) isometries, co-isometries, hence unitaries are preserved *)
    Lemma ctrl_mat_isometry k t M : wf_mat t M -> mmul K (madj K cj t M) M = eye K (2 ^ t) ->
      mmul K (madj K cj (k + t) (ctrl_mat k M)) (ctrl_mat k M) = eye K (2 ^ (k + t)).
    Proof.
      intros HM HU. rewrite <- ctrl_mat_dagger by assumption.
      rewrite <- (ctrl_mat_mmul k t) by (auto; apply tab2_wf). rewrite HU. apply ctrl_mat_eye.
    Qed.

    Lemma ctrl_mat_coisometry k t M : wf_mat t M -> mmul K M (madj K cj t M) = eye K (2 ^ t) ->
      mmul K (ctrl_mat k M) (madj K cj (k + t) (ctrl_mat k M)) = eye K (2 ^ (k + t)).
    Proof.
      intros HM HU. rewrite <- ctrl_mat_dagger by assumption.
      rewrite <- (ctrl_mat_mmul k t) by (auto; apply tab2_wf). rewrite HU. apply ctrl_mat_eye.
    Qed.

    (* the operator of a controlled isometry is an embedded isometry: the package the lemmas about
       `embed n qs U` with U^+ U = 1 ask for *)
    Lemma cembed_is_embedded_isometry n cs ts M :
      NoDup (cs ++ ts) -> (forall q, In q (cs ++ ts) -> q < n) ->
      wf_mat (length ts) M -> mmul K (madj K cj (length ts) M) M = eye K (2 ^ length ts) ->
      let U := ctrl_mat (length cs) M in
      cembed K n cs ts M = embed K n (cs ++ ts) U /\ wf_mat (length (cs ++ ts)) U
      /\ mmul K (madj K cj (length (cs ++ ts)) U) U = eye K (2 ^ length (cs ++ ts)).
    Proof.
      intros Hn Hq HM HU U. unfold U. rewrite app_length. split; [|split].
      - apply cembed_embed_ctrl; auto; [exact (NoDup_app_l _ _ Hn)|].
        intros q H1 H2. exact (NoDup_app_disj _ _ q Hn H1 H2).
      - now apply ctrl_mat_wf.
      - now apply ctrl_mat_isometry.
    Qed.

    (* the dagger lemma for controlled operators, obtained through the embedding (cross-check of
       Sem.cembed_dagger_eq by another route: embed_dagger_eq + ctrl_mat_dagger) *)
    Lemma cembed_dagger_via_embed n cs ts M :
      NoDup cs -> (forall q, In q (cs ++ ts) -> q < n) -> (forall q, In q cs -> ~ In q ts) ->
      wf_mat (length ts) M ->
      cembed K n cs ts (madj K cj (length ts) M) = madj K cj n (cembed K n cs ts M).
    Proof.
      intros Hn Hq Hd HM. rewrite !cembed_embed_ctrl by (auto; apply tab2_wf).
      rewrite (ctrl_mat_dagger (length cs) (length ts) M HM). rewrite <- app_length.
      now apply (embed_dagger_eq K cj cj_zero cj_one).
    Qed.
  End Dagger.

  (* disjoint commutation of controlled operators through the embedding (cross-check of
     Sem.cembed_disjoint_commute_eq: there NoDup of the controls is not needed) *)
  Lemma cembed_commute_via_embed n cs1 ts1 cs2 ts2 A B :
    NoDup (cs1 ++ ts1) -> NoDup (cs2 ++ ts2) ->
    (forall q, In q (cs1 ++ ts1) -> q < n) -> (forall q, In q (cs2 ++ ts2) -> q < n) ->
    disjoint (cs1 ++ ts1) (cs2 ++ ts2) -> wf_mat (length ts1) A -> wf_mat (length ts2) B ->
    mmul K (cembed K n cs1 ts1 A) (cembed K n cs2 ts2 B) = mmul K (cembed K n cs2 ts2 B) (cembed K n cs1 ts1 A).
  Proof.
    intros N1 N2 R1 R2 Hd HA HB.
    rewrite (cembed_embed_ctrl n cs1 ts1 A), (cembed_embed_ctrl n cs2 ts2 B); auto;
      try (exact (NoDup_app_l _ _ N1)); try (exact (NoDup_app_l _ _ N2));
      try (intros q H1 H2; exact (NoDup_app_disj _ _ q N1 H1 H2));
      try (intros q H1 H2; exact (NoDup_app_disj _ _ q N2 H1 H2)).
    now apply (embed_disjoint_commute_eq K HK).
  Qed.

  (* ---------------------------------------------------------------- (2a) partial trace: the transferred lemma *)
  Theorem reduced_ignores_outside_cembed (cj : T -> T) : conj_ok K cj ->
    forall n keep cs ts U rho,
    NoDup (cs ++ ts) -> (forall q, In q (cs ++ ts) -> q < n) -> (forall q, In q keep -> q < n) ->
    (forall q, In q (cs ++ ts) -> ~ In q keep) ->
    wf_mat (length ts) U -> mmul K (madj K cj (length ts) U) U = eye K (2 ^ length ts) -> wf_mat n rho ->
    reduced K n keep (sandwich K cj n (cembed K n cs ts U) rho) = reduced K n keep rho.
  Proof.
    intros HC n keep cs ts U rho Hn Hq Hk Hd HU Hun Hr.
    destruct (cembed_is_embedded_isometry cj (cj_zero K cj HC) (cj_one K cj HC) n cs ts U Hn Hq HU Hun)
      as [E [W I]].
    rewrite E. now apply (reduced_ignores_outside_eq K cj HK HC).
  Qed.

  (* ---------------------------------------------------------------- (2b) basis states / columns *)
  (* some control bit of the column index is 0: the column is that of the identity *)
  Lemma cembed_column_inactive n cs ts M r c : length r = n -> length c = n ->
    (forall q, In q cs -> q < n) -> (forall q, In q cs -> ~ In q ts) ->
    all1 (sel cs c) = false ->
    mentry K (cembed K n cs ts M) r c = if beqb r c then one else zero.
  Proof.
    intros Hr Hc Hq Hd Ac. rewrite cembed_tab2, (mentry_tab2 K) by assumption. rewrite all1_sel.
    destruct (all1 (sel cs r)) eqn:Ar; [|reflexivity].
    assert (Ne : sel cs r <> sel cs c) by congruence.
    assert (Rc : forall q, In q cs -> q < length r) by (intros; rewrite Hr; auto).
    destruct (agree_off ts r c) eqn:Ag.
    - apply (agree_off_app cs ts r c ltac:(congruence) Rc Hd) in Ag. destruct Ag as [_ Es]. contradiction.
    - destruct (beqb r c) eqn:Bq; [|reflexivity]. apply beqb_eq in Bq. subst c. congruence.
  Qed.

  (* all control bits of the column index are 1: the column is that of the uncontrolled operator *)
  Lemma cembed_column_active n cs ts M r c : length r = n -> length c = n ->
    (forall q, In q cs -> q < n) -> (forall q, In q cs -> ~ In q ts) ->
    all1 (sel cs c) = true ->
    mentry K (cembed K n cs ts M) r c = mentry K (embed K n ts M) r c.
  Proof.
    intros Hr Hc Hq Hd Ac. rewrite cembed_tab2, embed_tab2, !(mentry_tab2 K) by assumption. rewrite all1_sel.
    destruct (all1 (sel cs r)) eqn:Ar; [reflexivity|].
    assert (Ne : sel cs r <> sel cs c) by congruence.
    assert (Rc : forall q, In q cs -> q < length r) by (intros; rewrite Hr; auto).
    destruct (agree_off ts r c) eqn:Ag.
    - apply (agree_off_app cs ts r c ltac:(congruence) Rc Hd) in Ag. destruct Ag as [_ Es]. contradiction.
    - destruct (beqb r c) eqn:Bq; [|reflexivity]. apply beqb_eq in Bq. subst c. congruence.
  Qed.

  (* A e_c = column c of A *)
  Lemma mvmul_basis n A c : wf_mat n A -> length c = n ->
    mvmul K A (basis K n c) = tvec n (fun r => mentry K A r c).
  Proof.
    intros HA Hc. rewrite (wf_tab2 K n A HA) at 1. rewrite (mvmul_tab2 K) by apply basis_length.
    unfold tvec. apply map_ext_in. intros r Hr. apply allbits_In in Hr.
    rewrite (tsum_map_ext K _ (fun k => if beqb c k then mentry K A r k else zero)).
    - apply (tsum_delta K HK n (fun k => mentry K A r k) c Hc).
    - intros k Hk. apply allbits_In in Hk. unfold basis. rewrite (vtens_tvec K) by assumption.
      destruct (beqb c k); [apply (mul_1_r K HK)|apply (mul_0_r K HK)].
  Qed.

  (* the textbook characterisation of controlled_by on computational basis states *)
  Theorem cembed_on_basis n cs ts M c : length c = n ->
    (forall q, In q cs -> q < n) -> (forall q, In q cs -> ~ In q ts) ->
    mvmul K (cembed K n cs ts M) (basis K n c)
    = if all1 (sel cs c) then mvmul K (embed K n ts M) (basis K n c) else basis K n c.
  Proof.
    intros Hc Hq Hd. rewrite mvmul_basis by (auto; apply (cembed_wf K)).
    destruct (all1 (sel cs c)) eqn:Ac.
    - rewrite mvmul_basis by (auto; apply (embed_wf K)). unfold tvec. apply map_ext_in. intros r Hr.
      apply allbits_In in Hr. now apply cembed_column_active.
    - unfold basis, tvec. apply map_ext_in. intros r Hr. apply allbits_In in Hr.
      rewrite (cembed_column_inactive n cs ts M r c) by assumption. now rewrite (beqb_sym' r c).
  Qed.
End Ctrl.

(* ------------------------------------------------------------------ statements *)
(* (1) THE equality: a controlled operator is the plain embedding, on controls ++ targets, of the
   block matrix diag(1, ..., 1, M) *)
Theorem cembed_is_embed_ctrl : forall (T : Type) (K : ops T),
  forall n cs ts (M : mat T),
  NoDup (cs ++ ts) -> (forall q, In q (cs ++ ts) -> q < n) -> wf_mat (length ts) M ->
  cembed K n cs ts M = embed K n (cs ++ ts) (ctrl_mat K (length cs) M).
Proof.
  intros T K n cs ts M Hn Hq HM. apply cembed_embed_ctrl; auto; [exact (NoDup_app_l _ _ Hn)|].
  intros q H1 H2. exact (NoDup_app_disj _ _ q Hn H1 H2).
Qed.
Print Assumptions cembed_is_embed_ctrl.

Theorem ctrl_mat_is_controlled_operator : forall (T : Type) (K : ops T),
  forall k t (M : mat T), wf_mat t M ->
  wf_mat (k + t) (ctrl_mat K k M) /\ ctrl_mat K k M = cembed K (k + t) (seq 0 k) (seq k t) M.
Proof. intros T K k t M HM. split; [now apply ctrl_mat_wf|now apply ctrl_mat_as_cembed]. Qed.
Print Assumptions ctrl_mat_is_controlled_operator.

Theorem ctrl_mat_multiplicative : forall (T : Type) (K : ops T), semiring K ->
  forall k t (A B : mat T), wf_mat t A -> wf_mat t B ->
  ctrl_mat K k (mmul K A B) = mmul K (ctrl_mat K k A) (ctrl_mat K k B)
  /\ ctrl_mat K k (eye K (2 ^ t)) = eye K (2 ^ (k + t)).
Proof. intros T K HK k t A B HA HB. split; [apply ctrl_mat_mmul with (t := t); assumption|apply ctrl_mat_eye]. Qed.
Print Assumptions ctrl_mat_multiplicative.

(* (2a) dagger commutes with control; unitaries stay unitary *)
Theorem ctrl_mat_adjoint : forall (T : Type) (K : ops T) (cj : T -> T),
  cj (zero K) = zero K -> cj (one K) = one K ->
  forall k t (M : mat T), wf_mat t M ->
  ctrl_mat K k (madj K cj t M) = madj K cj (k + t) (ctrl_mat K k M).
Proof. intros T K cj H0 H1 k t M HM. now apply ctrl_mat_dagger. Qed.
Print Assumptions ctrl_mat_adjoint.

Theorem ctrl_mat_unitary : forall (T : Type) (K : ops T) (cj : T -> T), semiring K ->
  cj (zero K) = zero K -> cj (one K) = one K ->
  forall k t (M : mat T), wf_mat t M ->
  (mmul K (madj K cj t M) M = eye K (2 ^ t) ->
   mmul K (madj K cj (k + t) (ctrl_mat K k M)) (ctrl_mat K k M) = eye K (2 ^ (k + t)))
  /\ (mmul K M (madj K cj t M) = eye K (2 ^ t) ->
      mmul K (ctrl_mat K k M) (madj K cj (k + t) (ctrl_mat K k M)) = eye K (2 ^ (k + t))).
Proof.
  intros T K cj HK H0 H1 k t M HM. split; intros HU.
  - now apply ctrl_mat_isometry.
  - now apply ctrl_mat_coisometry.
Qed.
Print Assumptions ctrl_mat_unitary.

(* the form in which the lemmas about embedded isometries are applied to controlled gates *)
Theorem controlled_isometry_is_embedded_isometry : forall (T : Type) (K : ops T) (cj : T -> T), semiring K ->
  cj (zero K) = zero K -> cj (one K) = one K ->
  forall n cs ts (M : mat T),
  NoDup (cs ++ ts) -> (forall q, In q (cs ++ ts) -> q < n) ->
  wf_mat (length ts) M -> mmul K (madj K cj (length ts) M) M = eye K (2 ^ length ts) ->
  let U := ctrl_mat K (length cs) M in
  cembed K n cs ts M = embed K n (cs ++ ts) U /\ wf_mat (length (cs ++ ts)) U
  /\ mmul K (madj K cj (length (cs ++ ts)) U) U = eye K (2 ^ length (cs ++ ts)).
Proof. intros T K cj HK H0 H1 n cs ts M Hn Hq HM HU. now apply cembed_is_embedded_isometry. Qed.
Print Assumptions controlled_isometry_is_embedded_isometry.

(* partial trace: a controlled isometry whose controls AND targets lie outside `keep` does not change
   the reduced matrix on `keep` (transfer of SemProps.ptrace_ignores_outside) *)
Theorem ptrace_ignores_controlled_outside : forall (T : Type) (K : ops T) (cj : T -> T), semiring K -> conj_ok K cj ->
  forall n keep cs ts (U rho : mat T),
  NoDup (cs ++ ts) -> (forall q, In q (cs ++ ts) -> q < n) -> (forall q, In q keep -> q < n) ->
  (forall q, In q (cs ++ ts) -> ~ In q keep) ->
  wf_mat (length ts) U -> mmul K (madj K cj (length ts) U) U = eye K (2 ^ length ts) -> wf_mat n rho ->
  reduced K n keep (sandwich K cj n (cembed K n cs ts U) rho) = reduced K n keep rho.
Proof. intros T K cj HK HC n keep cs ts U rho. now apply reduced_ignores_outside_cembed. Qed.
Print Assumptions ptrace_ignores_controlled_outside.

(* (2b) controlled_by on computational basis states: identity unless all controls are 1, then the
   uncontrolled operator on the targets *)
Theorem controlled_operator_on_basis_states : forall (T : Type) (K : ops T), semiring K ->
  forall n cs ts (M : mat T) c, length c = n ->
  (forall q, In q cs -> q < n) -> (forall q, In q cs -> ~ In q ts) ->
  mvmul K (cembed K n cs ts M) (basis K n c)
  = if all1 (sel cs c) then mvmul K (embed K n ts M) (basis K n c) else basis K n c.
Proof. intros T K HK n cs ts M c. now apply cembed_on_basis. Qed.
Print Assumptions controlled_operator_on_basis_states.

Theorem controlled_operator_columns : forall (T : Type) (K : ops T),
  forall n cs ts (M : mat T) r c, length r = n -> length c = n ->
  (forall q, In q cs -> q < n) -> (forall q, In q cs -> ~ In q ts) ->
  mentry K (cembed K n cs ts M) r c
  = if all1 (sel cs c) then mentry K (embed K n ts M) r c else (if beqb r c then one K else zero K).
Proof.
  intros T K n cs ts M r c Hr Hc Hq Hd. destruct (all1 (sel cs c)) eqn:Ac.
  - now apply cembed_column_active.
  - now apply cembed_column_inactive.
Qed.
Print Assumptions controlled_operator_columns.

(* ------------------------------------------------------------------ non-vacuity (Gaussian integers, 3 qubits) *)
From Coq Require Import ZArith.
From QV Require Import Base.Zi C01.Examples Base.SemExamples.

(* ctrl_mat 1 of a 2x2 matrix is the usual 4x4 controlled matrix; two controls give 8x8 *)
Example ex_ctrl_mat_value :
  ctrl_mat Ziops 1 sA
  = [[(1, 0); (0, 0); (0, 0); (0, 0)]; [(0, 0); (1, 0); (0, 0); (0, 0)];
     [(0, 0); (0, 0); (1, 2); (0, -1)]; [(0, 0); (0, 0); (3, 0); (-2, 1)]]%Z
  /\ length (ctrl_mat Ziops 2 sA) = 8 /\ wf_mat 3 (ctrl_mat Ziops 2 sA) /\ wf_mat 3 (ctrl_mat Ziops 1 sB).
Proof. split; [vm_compute; reflexivity|]. split; [reflexivity|]. split; vm_compute; repeat constructor. Qed.

(* controls (2), target 0 (non-ascending, control AFTER the target); controls (2,0) target 1;
   control 1, two-qubit target (2,0) *)
Example ex_cembed_embed_hyps :
  NoDup ([2] ++ [0]) /\ (forall q, In q ([2] ++ [0]) -> q < 3) /\ wf_mat (length [0]) sA
  /\ NoDup ([2; 0] ++ [1]) /\ (forall q, In q ([2; 0] ++ [1]) -> q < 3)
  /\ NoDup ([1] ++ [2; 0]) /\ (forall q, In q ([1] ++ [2; 0]) -> q < 3) /\ wf_mat (length [2; 0]) sB.
Proof. unfold wf_mat. fin. Qed.
Example ex_cembed_embed_value :
  cembed Ziops 3 [2] [0] sA = embed Ziops 3 ([2] ++ [0]) (ctrl_mat Ziops (length [2]) sA)
  /\ cembed Ziops 3 [2; 0] [1] sA = embed Ziops 3 ([2; 0] ++ [1]) (ctrl_mat Ziops (length [2; 0]) sA)
  /\ cembed Ziops 3 [1] [2; 0] sB = embed Ziops 3 ([1] ++ [2; 0]) (ctrl_mat Ziops (length [1]) sB)
  /\ cembed Ziops 3 [2] [0] sA <> embed Ziops 3 [0] sA
  /\ cembed Ziops 3 [2] [0] sA <> midentity Ziops 3
  (* the order of the list matters: targets first is a different operator *)
  /\ cembed Ziops 3 [2] [0] sA <> embed Ziops 3 ([0] ++ [2]) (ctrl_mat Ziops 1 sA).
Proof. repeat split; try (vm_compute; reflexivity); vm_compute; discriminate. Qed.

(* unitarity and dagger: sU is unitary (SemExamples.ex_unitary_hyp), sA is not *)
Example ex_ctrl_unitary_value :
  mmul Ziops (madj Ziops zi_conj (2 + 1) (ctrl_mat Ziops 2 sU)) (ctrl_mat Ziops 2 sU) = eye Ziops (2 ^ (2 + 1))
  /\ mmul Ziops (ctrl_mat Ziops 2 sU) (madj Ziops zi_conj (2 + 1) (ctrl_mat Ziops 2 sU)) = eye Ziops (2 ^ (2 + 1))
  /\ ctrl_mat Ziops 2 (madj Ziops zi_conj 1 sA) = madj Ziops zi_conj (2 + 1) (ctrl_mat Ziops 2 sA)
  /\ ctrl_mat Ziops 1 (mmul Ziops sA sU) = mmul Ziops (ctrl_mat Ziops 1 sA) (ctrl_mat Ziops 1 sU)
  /\ ctrl_mat Ziops 2 sU <> eye Ziops 8
  /\ mmul Ziops (madj Ziops zi_conj (2 + 1) (ctrl_mat Ziops 2 sA)) (ctrl_mat Ziops 2 sA) <> eye Ziops 8.
Proof. repeat split; try (vm_compute; reflexivity); vm_compute; discriminate. Qed.

(* partial trace: controlled-sU with control 2, target 1, kept qubit 0 of 3; keeping the control
   or the target instead changes the reduced matrix *)
Example ex_ptrace_ctrl_hyps :
  NoDup ([2] ++ [1]) /\ (forall q, In q ([2] ++ [1]) -> q < 3) /\ (forall q, In q [0] -> q < 3)
  /\ (forall q, In q ([2] ++ [1]) -> ~ In q [0]) /\ wf_mat (length [1]) sU
  /\ mmul Ziops (madj Ziops zi_conj (length [1]) sU) sU = eye Ziops (2 ^ length [1]) /\ wf_mat 3 sRho.
Proof.
  repeat split; try apply tab2_wf; try (vm_compute; reflexivity); try (unfold wf_mat; fin; fail); fin.
Qed.
Example ex_ptrace_ctrl_value :
  reduced Ziops 3 [0] (sandwich Ziops zi_conj 3 (cembed Ziops 3 [2] [1] sU) sRho) = reduced Ziops 3 [0] sRho
  /\ sandwich Ziops zi_conj 3 (cembed Ziops 3 [2] [1] sU) sRho <> sRho
  /\ reduced Ziops 3 [2] (sandwich Ziops zi_conj 3 (cembed Ziops 3 [2] [1] sU) sRho) <> reduced Ziops 3 [2] sRho
  /\ reduced Ziops 3 [1] (sandwich Ziops zi_conj 3 (cembed Ziops 3 [2] [1] sU) sRho) <> reduced Ziops 3 [1] sRho.
Proof. repeat split; try (vm_compute; reflexivity); vm_compute; discriminate. Qed.

(* basis states: controls (2,0), target 1: |101> and |111> are moved, |100>, |011> are fixed *)
Example ex_basis_value :
  mvmul Ziops (cembed Ziops 3 [2; 0] [1] sA) (basis Ziops 3 [true; false; true])
    = mvmul Ziops (embed Ziops 3 [1] sA) (basis Ziops 3 [true; false; true])
  /\ mvmul Ziops (cembed Ziops 3 [2; 0] [1] sA) (basis Ziops 3 [true; false; true]) <> basis Ziops 3 [true; false; true]
  /\ mvmul Ziops (cembed Ziops 3 [2; 0] [1] sA) (basis Ziops 3 [true; false; false]) = basis Ziops 3 [true; false; false]
  /\ mvmul Ziops (cembed Ziops 3 [2; 0] [1] sA) (basis Ziops 3 [false; true; true]) = basis Ziops 3 [false; true; true]
  /\ mvmul Ziops (embed Ziops 3 [1] sA) (basis Ziops 3 [false; true; true]) <> basis Ziops 3 [false; true; true]
  /\ all1 (sel [2; 0] [true; false; true]) = true /\ all1 (sel [2; 0] [true; false; false]) = false.
Proof. repeat split; try (vm_compute; reflexivity); vm_compute; discriminate. Qed.
