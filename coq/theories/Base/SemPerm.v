(* Base/SemPerm.v : qubit permutations.  [pact n f] moves the content of qubit position i to
   position f i; [pmat n f] is its 2^n x 2^n permutation matrix.  Every (controlled) gate operator is
   equivariant:  P_f . embed n qs M = embed n (map f qs) M . P_f,  hence
   embed n (map f qs) M = P_f . embed n qs M . P_f^{-1};  the SWAP gate on (p, q) IS P_(p q). *)
From Coq Require Import List Bool Arith Lia.
From QV Require Import Base.Mat C01.Model C01.Spec C01.Lib C01.ProofsSV C01.ProofsCtrl C01.ProofsMat
  C01.ProofsRun C01.ProofsFused C01.ProofsQueue C01.ProofsDM C01.ProofsRunDM Base.Sem.
Import ListNotations.

Definition perm_fn (n : nat) (f : nat -> nat) : Prop :=
  (forall i, i < n -> f i < n) /\ (forall i j, i < n -> j < n -> f i = f j -> i = j).
Definition transp (p q i : nat) : nat := if i =? p then q else if i =? q then p else i.
Definition flist (n : nat) (f : nat -> nat) : list nat := map f (seq 0 n).

Lemma flist_length n f : length (flist n f) = n.
Proof. unfold flist. now rewrite map_length, seq_length. Qed.
Lemma nth_flist n f i : i < n -> nth i (flist n f) 0 = f i.
Proof. intros. unfold flist. now rewrite nth_map_seq. Qed.
Lemma flist_NoDup n f : perm_fn n f -> NoDup (flist n f).
Proof.
  intros [_ Hi]. unfold flist. apply NoDup_map_inj; [|apply seq_NoDup].
  intros x y Hx Hy. apply in_seq in Hx. apply in_seq in Hy. apply Hi; lia.
Qed.
Lemma flist_lt n f x : perm_fn n f -> In x (flist n f) -> x < n.
Proof.
  intros [Hr _] H. unfold flist in H. apply in_map_iff in H. destruct H as [i [<- Hi]].
  apply in_seq in Hi. apply Hr. lia.
Qed.
Lemma map_nth_flist n f qs : (forall q, In q qs -> q < n) -> map (fun j => nth j (flist n f) 0) qs = map f qs.
Proof. intros H. apply map_ext_in. intros q Hq. apply nth_flist. auto. Qed.

Lemma perm_fn_transp n p q : p < n -> q < n -> perm_fn n (transp p q).
Proof.
  intros Hp Hq. split.
  - intros i Hi. unfold transp. destruct (i =? p); [exact Hq|]. destruct (i =? q); [exact Hp|exact Hi].
  - intros i j _ _. unfold transp.
    destruct (i =? p) eqn:E1; destruct (j =? p) eqn:E2; destruct (i =? q) eqn:E3; destruct (j =? q) eqn:E4;
      rewrite ?Nat.eqb_eq, ?Nat.eqb_neq in *; intros; subst; try congruence.
Qed.

Section Perm.
  Context {T : Type} (K : ops T).
  Hypothesis HK : semiring K.
  Local Notation mul_1_l := (sr_mul_1_l K HK).
  Local Notation mul_0_l := (sr_mul_0_l K HK).
  Local Notation tsum := (tsum K).
  Local Notation zero := (zero K).
  Local Notation one := (one K).

  Definition pact (n : nat) (f : nat -> nat) (t : tensor (T:=T)) : tensor :=
    fun b => t (sel (flist n f) b).
  Definition pmat (n : nat) (f : nat -> nat) : mat T :=
    tab2 n (fun r c => if beqb (sel (flist n f) r) c then one else zero).

  Lemma pmat_wf n f : wf_mat n (pmat n f).
  Proof. apply tab2_wf. Qed.

  Lemma mact_pmat n f t r : length r = n -> mact K n (pmat n f) t r = pact n f t r.
  Proof.
    intros Hr. unfold pmat. rewrite (mact_tab2 K) by assumption.
    rewrite (tsum_map_ext K _ (fun c => if beqb (sel (flist n f) r) c then t c else zero)).
    - apply (tsum_delta K HK n t). now rewrite sel_length, flist_length.
    - intros c _. destruct (beqb (sel (flist n f) r) c); [apply mul_1_l|apply mul_0_l].
  Qed.

  Lemma pact_ext n f g t b : (forall i, i < n -> f i = g i) -> pact n f t b = pact n g t b.
  Proof.
    intros H. unfold pact, flist. f_equal. f_equal. apply map_ext_in. intros i Hi. apply in_seq in Hi. apply H. lia.
  Qed.

  Lemma pact_id n t b : length b = n -> pact n (fun i => i) t b = t b.
  Proof.
    intros Hb. unfold pact, flist, sel. rewrite map_map. f_equal. rewrite <- Hb. apply map_nth_seq.
  Qed.

  Lemma pact_comp n f g t b : (forall i, i < n -> g i < n) ->
    pact n f (pact n g t) b = pact n (fun i => f (g i)) t b.
  Proof.
    intros Hg. unfold pact. f_equal. rewrite sel_sel.
    - unfold flist. rewrite !map_map. f_equal. apply map_ext_in. intros i Hi. apply in_seq in Hi.
      apply nth_flist. apply Hg. lia.
    - intros j Hj. rewrite flist_length. unfold flist in Hj. apply in_map_iff in Hj. destruct Hj as [i [<- Hi]].
      apply in_seq in Hi. apply Hg. lia.
  Qed.

  (* equivariance of the textbook actions *)
  Lemma sel_flist_map n f qs b : (forall q, In q qs -> q < n) -> sel qs (sel (flist n f) b) = sel (map f qs) b.
  Proof.
    intros Hq. rewrite sel_sel by (intros; rewrite flist_length; auto). now rewrite map_nth_flist.
  Qed.

  Lemma gate_action_equivariant n f qs M t b : perm_fn n f -> (forall q, In q qs -> q < n) -> length b = n ->
    gate_action K (map f qs) M (pact n f t) b = pact n f (gate_action K qs M t) b.
  Proof.
    intros Hp Hq Hb. unfold pact, gate_action. rewrite map_length.
    apply tsum_map_ext. intros s _. rewrite sel_flist_map by assumption. f_equal. f_equal.
    rewrite <- (map_nth_flist n f qs Hq). apply sel_upd_perm.
    - now apply flist_NoDup.
    - intros j Hj. rewrite flist_length. auto.
    - intros p Hp'. rewrite Hb. now apply (flist_lt n f).
  Qed.

  Lemma ctrl_action_equivariant n f cs ts M t b : perm_fn n f -> (forall q, In q (cs ++ ts) -> q < n) ->
    length b = n ->
    ctrl_action K (map f cs) (map f ts) M (pact n f t) b = pact n f (ctrl_action K cs ts M t) b.
  Proof.
    intros Hp Hq Hb.
    assert (Hc : forall q, In q cs -> q < n) by (intros; apply Hq, in_app_iff; now left).
    assert (Ht : forall q, In q ts -> q < n) by (intros; apply Hq, in_app_iff; now right).
    unfold ctrl_action. unfold pact at 2 3. cbv beta. rewrite sel_flist_map by assumption.
    destruct (all1 (sel (map f cs) b)); [|reflexivity].
    rewrite gate_action_equivariant by assumption. reflexivity.
  Qed.

  Lemma ctrl_action_ext_len cs ts M (t t' : tensor (T:=T)) r :
    (forall y, length y = length r -> t y = t' y) -> ctrl_action K cs ts M t r = ctrl_action K cs ts M t' r.
  Proof.
    intros H. unfold ctrl_action. destruct (all1 (sel cs r)); [|now apply H].
    apply (gate_action_ext_pts K). intros s _. apply H. apply upd_length.
  Qed.

  (* SWAP *)
  Definition SWAP : mat T :=
    [[one; zero; zero; zero]; [zero; zero; one; zero]; [zero; one; zero; zero]; [zero; zero; zero; one]].

  Lemma swap_action n p q t b : p < n -> q < n -> p <> q -> length b = n ->
    gate_action K [p; q] SWAP t b = pact n (transp p q) t b.
  Proof.
    intros Hp Hq Hpq Hb. unfold gate_action, pact.
    assert (E : forall x y, upd [p; q] [x; y] b = upd [p; q] [x; y] b) by reflexivity.
    assert (TG : upd [p; q] [nth q b false; nth p b false] b = sel (flist n (transp p q)) b).
    { apply bool_list_ext; [now rewrite upd_length, sel_length, flist_length|].
      intros i Hi. rewrite upd_length in Hi. rewrite nth_upd by assumption.
      rewrite nth_sel by (rewrite flist_length; lia). rewrite nth_flist by lia.
      unfold transp, memb. simpl. destruct (Nat.eqb_spec i p) as [->|N1].
      - rewrite Nat.eqb_refl. reflexivity.
      - destruct (Nat.eqb_spec i q) as [->|N2]; simpl.
        + destruct (Nat.eqb_spec p q); [congruence|]. rewrite Nat.eqb_refl. reflexivity.
        + reflexivity. }
    rewrite <- TG. simpl length. cbn [allbits map app].
    unfold sel. cbn [map]. unfold tsum, Model.tsum. cbn [map fold_right].
    destruct (nth p b false), (nth q b false); vm_compute mget;
      rewrite ?mul_1_l, ?mul_0_l, ?(add_0_r K HK), ?(sr_add_0_l K HK); reflexivity.
  Qed.

  (* ---------------------------------------------------------------- matrix statements *)
  Theorem perm_cembed_intertwine n f cs ts M : perm_fn n f -> NoDup ts -> (forall q, In q (cs ++ ts) -> q < n) ->
    mmul K (pmat n f) (cembed K n cs ts M) = mmul K (cembed K n (map f cs) (map f ts) M) (pmat n f).
  Proof.
    intros Hp Hn Hq.
    assert (Ht : forall q, In q ts -> q < n) by (intros; apply Hq, in_app_iff; now right).
    assert (Hn' : NoDup (map f ts)).
    { apply NoDup_map_inj; [|assumption]. intros x y Hx Hy. apply Hp; auto. }
    assert (Ht' : forall q, In q (map f ts) -> q < n).
    { intros q Hq'. apply in_map_iff in Hq'. destruct Hq' as [x [<- Hx]]. apply Hp. auto. }
    apply (mat_ext K HK n); try (apply (mmul_wf K HK); auto using (cembed_wf K), pmat_wf).
    intros t r Hr. rewrite !(mact_mmul K HK) by (auto using (cembed_wf K), pmat_wf).
    rewrite mact_pmat by assumption. unfold pact at 1.
    rewrite (mact_cembed K HK n cs ts) by (auto; now rewrite sel_length, flist_length).
    rewrite (mact_cembed K HK n (map f cs) (map f ts)) by assumption.
    rewrite (ctrl_action_ext_len (map f cs) (map f ts) M (mact K n (pmat n f) t) (pact n f t) r)
      by (intros y Hy; apply mact_pmat; congruence).
    rewrite ctrl_action_equivariant by assumption. reflexivity.
  Qed.

  Theorem perm_embed_intertwine n f qs M : perm_fn n f -> NoDup qs -> (forall q, In q qs -> q < n) ->
    mmul K (pmat n f) (embed K n qs M) = mmul K (embed K n (map f qs) M) (pmat n f).
  Proof. intros Hp Hn Hq. rewrite !embed_as_cembed. now apply (perm_cembed_intertwine n f [] qs M). Qed.

  Lemma pmat_comp n f g : perm_fn n f -> perm_fn n g ->
    mmul K (pmat n f) (pmat n g) = pmat n (fun i => f (g i)).
  Proof.
    intros Hf Hg. apply (mat_ext K HK n); auto using pmat_wf; [apply (mmul_wf K HK); apply pmat_wf|].
    intros t r Hr. rewrite (mact_mmul K HK) by (auto using pmat_wf).
    rewrite !mact_pmat by assumption. unfold pact at 1.
    rewrite mact_pmat by (now rewrite sel_length, flist_length).
    apply (pact_comp n f g t r). apply Hg.
  Qed.

  Lemma pmat_id n f : (forall i, i < n -> f i = i) -> pmat n f = midentity K n.
  Proof.
    intros H. rewrite midentity_tab2. unfold pmat. apply tab2_ext. intros r c Hr Hc.
    replace (sel (flist n f) r) with r; [reflexivity|].
    unfold sel, flist. rewrite map_map. rewrite <- Hr at 1. rewrite <- (map_nth_seq r false) at 1.
    apply map_ext_in. intros i Hi. apply in_seq in Hi. now rewrite H by lia.
  Qed.

  (* relabelling by a permutation with inverse g:  embed (sigma qs) = P . embed qs . P^-1 *)
  Theorem cembed_relabel_eq n f g cs ts M : perm_fn n f -> perm_fn n g -> (forall i, i < n -> f (g i) = i) ->
    NoDup ts -> (forall q, In q (cs ++ ts) -> q < n) ->
    cembed K n (map f cs) (map f ts) M = mmul K (pmat n f) (mmul K (cembed K n cs ts M) (pmat n g)).
  Proof.
    intros Hf Hg Hinv Hn Hq.
    rewrite <- (mmul_assoc K HK n) by (auto using (cembed_wf K), pmat_wf).
    rewrite perm_cembed_intertwine by assumption.
    rewrite (mmul_assoc K HK n) by (auto using (cembed_wf K), pmat_wf).
    rewrite pmat_comp by assumption. rewrite (pmat_id n (fun i => f (g i))) by exact Hinv.
    symmetry. apply (mmul_id_r K HK). apply (cembed_wf K).
  Qed.

  Theorem swap_is_transposition n p q : p < n -> q < n -> p <> q ->
    embed K n [p; q] SWAP = pmat n (transp p q).
  Proof.
    intros Hp Hq Hpq. apply (mat_ext K HK n); auto using (embed_wf K), pmat_wf.
    intros t r Hr. rewrite mact_pmat by assumption. rewrite (mact_embed K HK).
    - now apply swap_action.
    - repeat constructor; simpl; intuition.
    - intros x [<-|[<-|[]]]; assumption.
    - assumption.
  Qed.
End Perm.
