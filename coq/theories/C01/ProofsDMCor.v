(* C01/ProofsDMCor.v : consequences of the U rho U^dagger form (property C02, "consequently ..."):
   a pure input gives the projector onto the state-vector result; Hermiticity is preserved;
   the trace is preserved when U^dagger U = 1.  (Positivity needs an order on the carrier and is
   not stated here: x^dagger U rho U^dagger x = (U^dagger x)^dagger rho (U^dagger x).) *)
From Coq Require Import List Bool Arith Lia.
From QV Require Import Base.Mat C01.Model C01.Spec C01.Lib C01.ProofsSV C01.ProofsCtrl C01.ProofsMat
  C01.ProofsRun C01.ProofsDM C01.ProofsRunDM.
Import ListNotations.

Section Cor.
  Context {T : Type} (K : ops T) (cj : T -> T).
  Hypothesis HK : semiring K.
  Hypothesis HC : conj_ok K cj.
  Local Notation mul_comm := (sr_mul_comm K HK).
  Local Notation mul_assoc := (sr_mul_assoc K HK).
  Local Notation tsum := (tsum K).

  (* |v><w| *)
  Definition outer (n : nat) (v w : vec T) : mat T :=
    tab2 n (fun r c => mul K (vtens K v r) (cj (vtens K w c))).
  Definition mtrace (n : nat) (A : mat T) : T := tsum (map (fun r => mentry K A r r) (allbits n)).
  Definition hermitian (n : nat) (A : mat T) : Prop := madj K cj n A = A.

  Lemma sandwich_outer n U v : wf_mat n U -> length v = 2 ^ n ->
    sandwich K cj n U (outer n v v) = outer n (mvmul K U v) (mvmul K U v).
  Proof.
    intros HU Hv. rewrite (wf_tab2 K n U HU). generalize (mentry K U). intros f.
    unfold outer at 1. rewrite (sandwich_tab2 K cj HK). rewrite (mvmul_tab2 K n f v Hv).
    unfold outer. apply tab2_ext. intros r c Hr Hc. rewrite !(vtens_tvec K) by assumption.
    rewrite (cj_tsum K cj HC).
    set (S := tsum (map (fun x => cj (mul K (f c x) (vtens K v x))) (allbits n))).
    rewrite <- (tsum_scale_r K HK). apply tsum_map_ext. intros k _.
    rewrite <- mul_assoc. f_equal.
    rewrite (tsum_map_ext K _ (fun k' => mul K (vtens K v k) (cj (mul K (f c k') (vtens K v k'))))).
    - apply (tsum_scale_l K HK).
    - intros k' _. rewrite <- mul_assoc. f_equal. rewrite (cj_mul K cj HC). apply mul_comm.
  Qed.

  Theorem dm_pure_eq n gs psi : Forall (gate_wf n) gs -> length psi = 2 ^ n ->
    execute_dm K cj n gs (outer n psi psi) = outer n (execute K n gs psi) (execute K n gs psi).
  Proof.
    intros Hw Hv. rewrite (execute_dm_eq K cj HK HC) by (auto; apply tab2_wf).
    rewrite sandwich_outer by (auto; apply (circ_op_wf K HK)).
    now rewrite (execute_eq K HK).
  Qed.

  (* ---------------------------------------------------------------- Hermiticity *)
  Hypothesis cj_invol : forall a, cj (cj a) = a.

  Lemma madj_madj n A : wf_mat n A -> madj K cj n (madj K cj n A) = A.
  Proof.
    intros HA. rewrite (wf_tab2 K n A HA). generalize (mentry K A). intros f.
    rewrite !(madj_tab2 K cj). apply tab2_ext. intros; apply cj_invol.
  Qed.

  Lemma sandwich_hermitian n U rho : wf_mat n U -> wf_mat n rho -> hermitian n rho ->
    hermitian n (sandwich K cj n U rho).
  Proof.
    intros HU Hr Hh. unfold hermitian, sandwich in *.
    pose proof (madj_wf K cj n U) as HU'.
    rewrite (madj_mmul K cj HK HC) by (auto; apply (mmul_wf K HK); auto).
    rewrite (madj_mmul K cj HK HC) by auto. rewrite madj_madj, Hh by assumption.
    apply (mmul_assoc K HK n); auto.
  Qed.

  Theorem dm_hermitian_eq n gs rho : Forall (gate_wf n) gs -> wf_mat n rho -> hermitian n rho ->
    hermitian n (execute_dm K cj n gs rho).
  Proof.
    intros Hw Hr Hh. rewrite (execute_dm_eq K cj HK HC) by auto.
    apply sandwich_hermitian; auto. apply (circ_op_wf K HK).
  Qed.

  (* ---------------------------------------------------------------- trace *)
  Lemma mtrace_comm n A B : wf_mat n A -> wf_mat n B -> mtrace n (mmul K A B) = mtrace n (mmul K B A).
  Proof.
    intros HA HB. rewrite (wf_tab2 K n A HA), (wf_tab2 K n B HB).
    generalize (mentry K A) (mentry K B). intros f g. rewrite !(mmul_tab2 K HK). unfold mtrace.
    rewrite (tsum_map_ext K _ (fun r => tsum (map (fun k => mul K (f r k) (g k r)) (allbits n))))
      by (intros r Hr; apply allbits_In in Hr; now apply (mentry_tab2 K)).
    rewrite (tsum_swap K HK).
    apply tsum_map_ext. intros k Hk. apply allbits_In in Hk. rewrite (mentry_tab2 K) by assumption.
    apply tsum_map_ext. intros r _. apply mul_comm.
  Qed.

  Lemma sandwich_trace n U rho : wf_mat n U -> wf_mat n rho ->
    mmul K (madj K cj n U) U = midentity K n ->
    mtrace n (sandwich K cj n U rho) = mtrace n rho.
  Proof.
    intros HU Hr Hun. unfold sandwich. pose proof (madj_wf K cj n U) as HU'.
    rewrite mtrace_comm by (auto; apply (mmul_wf K HK); auto).
    rewrite (mmul_assoc K HK n) by auto. rewrite Hun. now rewrite (mmul_id_r K HK).
  Qed.

  Theorem dm_trace_eq n gs rho : Forall (gate_wf n) gs -> wf_mat n rho ->
    mmul K (madj K cj n (circ_op K n gs)) (circ_op K n gs) = midentity K n ->
    mtrace n (execute_dm K cj n gs rho) = mtrace n rho.
  Proof.
    intros Hw Hr Hun. rewrite (execute_dm_eq K cj HK HC) by auto.
    apply sandwich_trace; auto. apply (circ_op_wf K HK).
  Qed.
End Cor.
