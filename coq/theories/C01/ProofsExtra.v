(* C01/ProofsExtra.v : default initial states, initial circuits, and density-matrix execution of
   queues with FusedGates. *)
From Coq Require Import List Bool Arith Lia.
From QV Require Import Base.Mat C01.Model C01.ModelExtra C01.Spec C01.Lib C01.ProofsSV C01.ProofsCtrl C01.ProofsMat
  C01.ProofsRun C01.ProofsFused C01.ProofsQueue C01.ProofsDM C01.ProofsRunDM C01.ProofsDMCor.
Import ListNotations.

Lemma idx_repeat_false m : idx (repeat false m) = 0.
Proof. induction m as [|m IH]; [reflexivity|]. simpl repeat. rewrite idx_cons, IH. reflexivity. Qed.

Section Extra.
  Context {T : Type} (K : ops T) (cj : T -> T).
  Hypothesis HK : semiring K.
  Hypothesis HC : conj_ok K cj.
  Local Notation zero := (zero K).
  Local Notation one := (one K).

  Lemma pow2_pred n : 2 ^ n - 1 + 1 = 2 ^ n.
  Proof. pose proof (pow2_pos n). lia. Qed.

  Lemma zero_state_length n : length (zero_state K n) = 2 ^ n.
  Proof. unfold zero_state. simpl. rewrite repeat_length. pose proof (pow2_pos n). lia. Qed.

  Lemma nth_one_zeros m i : nth i (one :: repeat zero m) zero = if Nat.eqb i 0 then one else zero.
  Proof. destruct i; [reflexivity|]. simpl. apply nth_repeat. Qed.

  Lemma vtens_zero_state n b : length b = n ->
    vtens K (zero_state K n) b = if beqb (repeat false n) b then one else zero.
  Proof.
    intros Hb. unfold vtens, zero_state. rewrite nth_one_zeros.
    rewrite <- (idx_repeat_false n), (Nat.eqb_sym (idx b)). rewrite idx_eqb by (now rewrite repeat_length).
    reflexivity.
  Qed.

  (* |0...0> *)
  Theorem zero_state_basis n : zero_state K n = tvec n (fun b => if beqb (repeat false n) b then one else zero).
  Proof.
    rewrite <- (vec_tabulate K n (zero_state K n) (zero_state_length n)). unfold tvec.
    apply map_ext_in. intros b Hb. apply allbits_In in Hb. now apply vtens_zero_state.
  Qed.

  Lemma zero_dm_wf n : wf_mat n (zero_density_matrix K n).
  Proof.
    unfold zero_density_matrix, wf_mat. pose proof (pow2_pos n). split.
    - simpl. rewrite repeat_length. lia.
    - constructor; [simpl; rewrite repeat_length; lia|].
      apply Forall_forall. intros row Hr. apply repeat_spec in Hr. subst. apply repeat_length.
  Qed.

  (* |0...0><0...0| *)
  Theorem zero_dm_outer n : zero_density_matrix K n = outer K cj n (zero_state K n) (zero_state K n).
  Proof.
    rewrite (wf_tab2 K n _ (zero_dm_wf n)). unfold outer. apply tab2_ext. intros r c Hr Hc.
    rewrite !vtens_zero_state by assumption. unfold mentry, mget, zero_density_matrix.
    rewrite <- (idx_repeat_false n). rewrite <- !idx_eqb by (now rewrite repeat_length). rewrite idx_repeat_false.
    destruct (idx r) as [|i] eqn:Er; simpl.
    - destruct (idx c) as [|j]; rewrite ?(cj_one K cj HC), ?(cj_zero K cj HC), ?(sr_mul_1_l K HK), ?(mul_0_r K HK);
        [reflexivity|apply nth_repeat].
    - rewrite (sr_mul_0_l K HK).
      destruct (Nat.lt_ge_cases i (2 ^ n - 1)).
      + rewrite (nth_indep _ [] (repeat zero (2 ^ n))) by (now rewrite repeat_length).
        rewrite nth_repeat. apply nth_repeat.
      + rewrite (nth_overflow (repeat (repeat zero (2 ^ n)) (2 ^ n - 1)) []) by (rewrite repeat_length; lia).
        destruct (idx c); reflexivity.
  Qed.

  (* the default density-matrix run is the projector onto the default state-vector run *)
  Theorem default_run_pure n gs : Forall (gate_wf n) gs ->
    execute_circuit_dm K cj n gs (DInitNone) =
    option_map (fun psi => outer K cj n psi psi) (execute_circuit K n gs (InitNone)).
  Proof.
    intros Hw. simpl. f_equal. rewrite zero_dm_outer.
    apply (dm_pure_eq K cj HK HC); [assumption|apply zero_state_length].
  Qed.

  (* an initial circuit is executed first *)
  Theorem initial_circuit_run n c0 gs :
    execute_circuit K n gs (InitCircuit c0) = Some (execute K n gs (execute K n c0 (zero_state K n)))
    /\ execute_circuit_dm K cj n gs (DInitCircuit c0)
       = Some (execute_dm K cj n gs (execute_dm K cj n c0 (zero_density_matrix K n))).
  Proof. split; simpl; f_equal; [unfold execute|unfold execute_dm]; apply fold_left_app. Qed.

  Theorem execute_circuit_eq n gs v : Forall (gate_wf n) gs ->
    execute_circuit K n gs (InitArray v) =
    if Nat.eqb (length v) (2 ^ n) then Some (mvmul K (circ_op K n gs) v) else None.
  Proof.
    intros Hw. simpl. destruct (Nat.eqb_spec (length v) (2 ^ n)); [|reflexivity].
    f_equal. now apply (execute_eq K HK).
  Qed.

  Theorem execute_circuit_dm_eq n gs rho : Forall (gate_wf n) gs ->
    execute_circuit_dm K cj n gs (DInitArray rho) =
    if shape_ok (2 ^ n) rho then Some (sandwich K cj n (circ_op K n gs) rho) else None.
  Proof.
    intros Hw. simpl. destruct (shape_ok (2 ^ n) rho) eqn:S; [|reflexivity].
    f_equal. apply (execute_dm_eq K cj HK HC); [assumption|]. now apply shape_ok_shape.
  Qed.

  (* ---------------------------------------------------------------- queues with FusedGates, density matrices *)
  Lemma execute_dm_wf n gs rho : Forall (gate_wf n) gs -> wf_mat n rho -> wf_mat n (execute_dm K cj n gs rho).
  Proof.
    intros Hw Hr. rewrite (execute_dm_eq K cj HK HC) by assumption.
    apply (sandwich_wf K cj HK); [apply (circ_op_wf K HK)|assumption].
  Qed.

  Lemma apply_item_dm_eq n it rho : item_ok n it -> wf_mat n rho ->
    apply_item_dm K cj n it rho = execute_dm K cj n (flatten [it]) rho.
  Proof.
    destruct it as [g|fq gs]; simpl; rewrite ?app_nil_r; intros Hok Hr; [reflexivity|].
    destruct Hok as [Hfq [Hq Hall]].
    rewrite (dm_plain_eq K cj HK HC) by (auto; exact (incr_from_NoDup 0 fq Hfq)).
    rewrite (embed_matrix_fused K HK) by assumption. symmetry. apply (execute_dm_eq K cj HK HC); [|assumption].
    apply Forall_forall. intros g Hg. rewrite Forall_forall in Hall. apply Hall in Hg. apply Hg.
  Qed.

  Theorem execute_dm_queue_flatten n q : Forall (item_ok n) q -> forall rho, wf_mat n rho ->
    execute_dm_queue K cj n q rho = execute_dm K cj n (flatten q) rho.
  Proof.
    induction q as [|it q IH]; intros Hok rho Hr; [reflexivity|]. inversion Hok; subst.
    rewrite (flatten_cons it q). unfold execute_dm at 1. rewrite fold_left_app. fold (execute_dm K cj n (flatten [it]) rho).
    simpl. rewrite apply_item_dm_eq by assumption.
    apply IH; [assumption|]. apply execute_dm_wf; [|assumption]. now apply (item_flat_ok n it).
  Qed.

  Theorem execute_dm_queue_eq n q rho : Forall (item_ok n) q -> wf_mat n rho ->
    execute_dm_queue K cj n q rho = sandwich K cj n (circ_op K n (flatten q)) rho.
  Proof.
    intros Hok Hr. rewrite execute_dm_queue_flatten by assumption.
    apply (execute_dm_eq K cj HK HC); [|assumption]. now apply (flatten_ok n q).
  Qed.
End Extra.
