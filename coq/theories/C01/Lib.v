(* C01/Lib.v : generic facts used by the proofs: lists, bit strings (idx / allbits), the
   positional update [upd], finite sums over a commutative semiring. *)
From Coq Require Import List Bool Arith Lia.
From QV Require Import Base.Mat C01.Model.
Import ListNotations.

(* ------------------------------------------------------------------ lists *)
Lemma nth_map_d {A B} (f : A -> B) l : forall i d d', i < length l -> nth i (map f l) d = f (nth i l d').
Proof.
  induction l as [|h t IH]; intros [|i] d d' H; simpl in *; try lia; [reflexivity|]. apply IH. lia.
Qed.

Lemma nth_map_seq {A} (f : nat -> A) n i d : i < n -> nth i (map f (seq 0 n)) d = f i.
Proof.
  intros H. rewrite (nth_indep _ d (f 0)) by (rewrite map_length, seq_length; lia).
  rewrite map_nth, seq_nth by lia. reflexivity.
Qed.

Lemma nth_map_seq_from {A} (f : nat -> A) a n i d : i < n -> nth i (map f (seq a n)) d = f (a + i).
Proof.
  intros H. rewrite (nth_indep _ d (f 0)) by (rewrite map_length, seq_length; lia).
  rewrite map_nth, seq_nth by lia. reflexivity.
Qed.

Lemma memb_In l ls : memb l ls = true <-> In l ls.
Proof.
  unfold memb. rewrite existsb_exists. split.
  - intros [x [Hi He]]. apply Nat.eqb_eq in He. now subst.
  - intros H. exists l. split; [assumption|apply Nat.eqb_refl].
Qed.

Lemma memb_false l ls : memb l ls = false <-> ~ In l ls.
Proof. rewrite <- memb_In. destruct (memb l ls); split; congruence. Qed.

Lemma memb_app l a b : memb l (a ++ b) = memb l a || memb l b.
Proof. unfold memb. apply existsb_app. Qed.

Lemma index_of_lt j l : In j l -> index_of j l < length l.
Proof.
  induction l as [|h t IH]; simpl; [tauto|]. intros [->|H].
  - rewrite Nat.eqb_refl. lia.
  - destruct (Nat.eqb h j); [lia|]. apply IH in H. lia.
Qed.

Lemma index_of_le j l : index_of j l <= length l.
Proof. induction l as [|h t IH]; simpl; [lia|]. destruct (Nat.eqb h j); lia. Qed.

Lemma index_of_notin j l : ~ In j l -> index_of j l = length l.
Proof.
  induction l as [|h t IH]; simpl; [reflexivity|]. intros H.
  destruct (Nat.eqb_spec h j); [exfalso; apply H; now left|].
  rewrite IH; [reflexivity|]. intros Hi. apply H. now right.
Qed.

Lemma nth_index_of j l d : In j l -> nth (index_of j l) l d = j.
Proof.
  induction l as [|h t IH]; simpl; [tauto|]. intros H.
  destruct (Nat.eqb_spec h j); [assumption|]. apply IH. destruct H; [contradiction|assumption].
Qed.

Lemma index_of_nth i l d : NoDup l -> i < length l -> index_of (nth i l d) l = i.
Proof.
  revert i. induction l as [|h t IH]; simpl; intros i Hn Hi; [lia|].
  inversion Hn as [|? ? Hh Ht]; subst. destruct i as [|i].
  - now rewrite Nat.eqb_refl.
  - destruct (Nat.eqb_spec h (nth i t d)) as [E|E].
    + exfalso. apply Hh. rewrite E. apply nth_In. lia.
    + f_equal. apply IH; [assumption|lia].
Qed.

Lemma index_of_app_l j a b : In j a -> index_of j (a ++ b) = index_of j a.
Proof.
  induction a as [|h t IH]; simpl; [tauto|]. intros H.
  destruct (Nat.eqb_spec h j); [reflexivity|]. f_equal. apply IH. destruct H; [contradiction|assumption].
Qed.

Lemma index_of_app_r j a b : ~ In j a -> index_of j (a ++ b) = length a + index_of j b.
Proof.
  induction a as [|h t IH]; simpl; [reflexivity|]. intros H.
  destruct (Nat.eqb_spec h j); [exfalso; apply H; now left|].
  f_equal. apply IH. intros Hi. apply H. now right.
Qed.

Lemma NoDup_app_intro {A} (a b : list A) :
  NoDup a -> NoDup b -> (forall x, In x a -> ~ In x b) -> NoDup (a ++ b).
Proof.
  induction a as [|h t IH]; simpl; intros Ha Hb Hd; [assumption|].
  inversion Ha; subst. constructor.
  - rewrite in_app_iff. intros [H|H]; [contradiction|]. apply (Hd h); [now left|assumption].
  - apply IH; auto.
Qed.

Lemma NoDup_app_l {A} (a b : list A) : NoDup (a ++ b) -> NoDup a.
Proof.
  induction a as [|h t IH]; simpl; intros H; [constructor|]. inversion H; subst.
  constructor; [|auto]. intros Hi. apply H2. apply in_app_iff. now left.
Qed.

Lemma NoDup_app_r {A} (a b : list A) : NoDup (a ++ b) -> NoDup b.
Proof. induction a as [|h t IH]; simpl; intros H; [assumption|]. inversion H; auto. Qed.

Lemma NoDup_app_disj {A} (a b : list A) x : NoDup (a ++ b) -> In x a -> ~ In x b.
Proof.
  induction a as [|h t IH]; simpl; intros H Hi; [tauto|]. inversion H; subst.
  destruct Hi as [->|Hi]; [|auto]. intros Hb. apply H2. apply in_app_iff. now right.
Qed.

Lemma NoDup_map_inj {A B} (f : A -> B) l :
  (forall x y, In x l -> In y l -> f x = f y -> x = y) -> NoDup l -> NoDup (map f l).
Proof.
  induction l as [|h t IH]; simpl; intros Hf Hn; [constructor|]. inversion Hn; subst. constructor.
  - rewrite in_map_iff. intros [y [E Hy]]. assert (y = h) by (apply Hf; auto). subst. contradiction.
  - apply IH; auto.
Qed.

Lemma nodupb_NoDup l : nodupb l = true <-> NoDup l.
Proof.
  induction l as [|h t IH]; simpl.
  - split; [constructor|reflexivity].
  - rewrite andb_true_iff, negb_true_iff, memb_false, IH. split.
    + intros [? ?]. now constructor.
    + intros H. inversion H; auto.
Qed.

Lemma set_nth_length {A} i (x : A) l : length (set_nth i x l) = length l.
Proof. revert i. induction l as [|h t IH]; intros [|i]; simpl; auto. Qed.

Lemma nth_set_nth {A} i j (x d : A) l :
  nth j (set_nth i x l) d = if (Nat.eqb i j && (i <? length l))%bool then x else nth j l d.
Proof.
  revert i j. induction l as [|h t IH]; intros i j.
  - destruct i, j; simpl; rewrite ?andb_false_r; reflexivity.
  - destruct i as [|i], j as [|j]; simpl; try reflexivity.
    rewrite IH. destruct (Nat.eqb i j); simpl; [|reflexivity].
    change (S i <? S (length t)) with (i <? length t). reflexivity.
Qed.

(* ------------------------------------------------------------------ dedup *)
Lemma dedup_In x l : In x (dedup l) -> In x l.
Proof.
  induction l as [|h t IH]; simpl; [tauto|]. intros [->|H]; [now left|].
  apply filter_In in H. right. apply IH. tauto.
Qed.

Lemma filter_filter_comm {A} (f g : A -> bool) l : filter f (filter g l) = filter g (filter f l).
Proof.
  induction l as [|h t IH]; simpl; [reflexivity|].
  destruct (g h) eqn:G, (f h) eqn:F; simpl; rewrite ?G, ?F, IH; reflexivity.
Qed.

Lemma filter_id {A} (f : A -> bool) l : (forall x, In x l -> f x = true) -> filter f l = l.
Proof.
  induction l as [|h t IH]; simpl; intros H; [reflexivity|].
  rewrite (H h) by now left. f_equal. apply IH. intros; apply H; now right.
Qed.

Lemma filter_nil {A} (f : A -> bool) l : (forall x, In x l -> f x = false) -> filter f l = [].
Proof.
  induction l as [|h t IH]; simpl; intros H; [reflexivity|].
  rewrite (H h) by now left. apply IH. intros; apply H; now right.
Qed.

Lemma dedup_app_nodup l1 l2 :
  NoDup l1 -> dedup (l1 ++ l2) = l1 ++ filter (fun x => negb (memb x l1)) (dedup l2).
Proof.
  induction l1 as [|a l1 IH]; simpl; intros Hn.
  - symmetry. apply filter_id. reflexivity.
  - inversion Hn; subst. rewrite IH by assumption. f_equal. rewrite filter_app. f_equal.
    + apply filter_id. intros x Hx. apply negb_true_iff. apply Nat.eqb_neq. intros ->. contradiction.
    + generalize (dedup l2) as L. clear. intros L. induction L as [|h t IH]; simpl; [reflexivity|].
      fold (memb h l1). destruct (memb h l1) eqn:M; simpl.
      * rewrite orb_true_r. simpl. apply IH.
      * rewrite orb_false_r. destruct (Nat.eqb h a); simpl; [apply IH|f_equal; apply IH].
Qed.

Lemma dedup_app_absorb l1 l2 : NoDup l1 -> (forall x, In x l2 -> In x l1) -> dedup (l1 ++ l2) = l1.
Proof.
  intros Hn Hs. rewrite dedup_app_nodup by assumption. rewrite filter_nil; [apply app_nil_r|].
  intros x Hx. apply negb_false_iff. apply memb_In. apply Hs. now apply dedup_In.
Qed.

(* ------------------------------------------------------------------ bits *)
Lemma allbits_length n : length (allbits n) = 2 ^ n.
Proof. induction n; simpl; [reflexivity|]. rewrite app_length, !map_length, IHn. lia. Qed.

Lemma allbits_In n b : In b (allbits n) <-> length b = n.
Proof.
  revert b. induction n as [|n IH]; intros b; simpl.
  - split; [intros [<-|[]]; reflexivity|]. destruct b; [now left|discriminate].
  - rewrite in_app_iff, !in_map_iff. split.
    + intros [[x [<- H]]|[x [<- H]]]; simpl; f_equal; now apply IH.
    + destruct b as [|[|] b]; [discriminate| |]; simpl; intros H; injection H as H.
      * right. exists b. split; [reflexivity|now apply IH].
      * left. exists b. split; [reflexivity|now apply IH].
Qed.

Lemma idx_acc_lin b : forall a, idx_acc a b = a * 2 ^ length b + idx_acc 0 b.
Proof.
  induction b as [|x b IH]; intros a; simpl; [lia|].
  rewrite IH. rewrite (IH (if x then 1 else 0)). destruct x; simpl; lia.
Qed.

Lemma idx_cons x b : idx (x :: b) = (if x then 2 ^ length b else 0) + idx b.
Proof. unfold idx. simpl. rewrite idx_acc_lin. destruct x; simpl; lia. Qed.

Lemma idx_lt b : idx b < 2 ^ length b.
Proof.
  induction b as [|x b IH]; [unfold idx; simpl; lia|]. rewrite idx_cons. simpl. destruct x; lia.
Qed.

Lemma idx_app a b : idx (a ++ b) = idx a * 2 ^ length b + idx b.
Proof.
  induction a as [|x a IH]; simpl; [unfold idx; simpl; lia|].
  rewrite !idx_cons, IH, app_length, Nat.pow_add_r. destruct x; rewrite ?Nat.mul_add_distr_r; simpl; lia.
Qed.

Lemma map_add_seq m k : forall a, map (fun y => m + y) (seq a k) = seq (m + a) k.
Proof.
  induction k as [|k IH]; intros a; simpl; [reflexivity|]. f_equal.
  rewrite IH. f_equal. lia.
Qed.

Lemma map_idx_allbits n : map idx (allbits n) = seq 0 (2 ^ n).
Proof.
  induction n as [|n IH]; [reflexivity|]. simpl allbits. rewrite map_app, !map_map.
  replace (2 ^ S n) with (2 ^ n + 2 ^ n) by (simpl; lia). rewrite seq_app. f_equal.
  - rewrite <- IH. apply map_ext_in. intros b Hb. rewrite idx_cons. reflexivity.
  - rewrite (map_ext_in _ (fun x => 2 ^ n + idx x)).
    + rewrite <- (map_map idx (fun y => 2 ^ n + y)), IH, map_add_seq. f_equal. lia.
    + intros b Hb. rewrite idx_cons. apply allbits_In in Hb. now rewrite Hb.
Qed.

Lemma nth_idx_allbits n b d : length b = n -> nth (idx b) (allbits n) d = b.
Proof.
  revert b. induction n as [|n IH]; intros b Hb.
  - destruct b; [reflexivity|discriminate].
  - destruct b as [|x b]; [discriminate|]. injection Hb as Hb. rewrite idx_cons, Hb. simpl allbits.
    pose proof (idx_lt b) as Hl. rewrite Hb in Hl. destruct x.
    + rewrite app_nth2 by (rewrite map_length, allbits_length; lia).
      rewrite map_length, allbits_length. replace (2 ^ n + idx b - 2 ^ n) with (idx b) by lia.
      rewrite (nth_indep _ d (true :: d)) by (rewrite map_length, allbits_length; lia).
      rewrite map_nth. f_equal. now apply IH.
    + rewrite app_nth1 by (rewrite map_length, allbits_length; lia).
      rewrite (nth_indep _ d (false :: d)) by (rewrite map_length, allbits_length; lia).
      simpl. rewrite map_nth. f_equal. now apply IH.
Qed.

Lemma bits_idx n b : length b = n -> bits n (idx b) = b.
Proof. apply nth_idx_allbits. Qed.

Lemma idx_repeat_true m : idx (repeat true m) = 2 ^ m - 1.
Proof.
  induction m as [|m IH]; [reflexivity|]. simpl repeat. rewrite idx_cons, repeat_length, IH.
  assert (0 < 2 ^ m) by (apply Nat.neq_0_lt_0, Nat.pow_nonzero; lia). simpl. lia.
Qed.

Lemma all1_repeat b : all1 b = true -> b = repeat true (length b).
Proof.
  induction b as [|x b IH]; simpl; [reflexivity|]. rewrite andb_true_iff. intros [-> H].
  f_equal. now apply IH.
Qed.

Lemma idx_all1 b : (idx b <? 2 ^ length b - 1) = negb (all1 b).
Proof.
  induction b as [|x b IH]; [reflexivity|]. rewrite idx_cons. simpl length. simpl all1.
  pose proof (idx_lt b) as Hl. destruct x; simpl andb.
  - rewrite <- IH. simpl. destruct (Nat.ltb_spec (idx b) (2 ^ length b - 1));
      [apply Nat.ltb_lt|apply Nat.ltb_ge]; lia.
  - simpl. apply Nat.ltb_lt. lia.
Qed.

Lemma beqb_eq r c : beqb r c = true <-> r = c.
Proof.
  revert c. induction r as [|x r IH]; intros [|y c]; simpl; try (split; [discriminate|discriminate]); [tauto|].
  rewrite andb_true_iff, IH. split.
  - intros [H ->]. apply eqb_prop in H. now subst.
  - intros H. injection H as -> ->. split; [apply eqb_reflx|reflexivity].
Qed.

Lemma beqb_refl r : beqb r r = true.
Proof. now apply beqb_eq. Qed.

(* ------------------------------------------------------------------ sel / upd *)
(* r with position qs[i] replaced by s[i] *)
Definition upd (qs : list nat) (s r : list bool) : list bool :=
  map (fun l => if memb l qs then nth (index_of l qs) s false else nth l r false) (seq 0 (length r)).

Lemma upd_length qs s r : length (upd qs s r) = length r.
Proof. unfold upd. now rewrite map_length, seq_length. Qed.

Lemma nth_upd qs s r l : l < length r ->
  nth l (upd qs s r) false = if memb l qs then nth (index_of l qs) s false else nth l r false.
Proof. intros H. unfold upd. now rewrite nth_map_seq. Qed.

Lemma sel_length qs b : length (sel qs b) = length qs.
Proof. unfold sel. apply map_length. Qed.

Lemma sel_app a b x : sel (a ++ b) x = sel a x ++ sel b x.
Proof. unfold sel. apply map_app. Qed.

Lemma nth_sel qs b i : i < length qs -> nth i (sel qs b) false = nth (nth i qs 0) b false.
Proof. intros H. unfold sel. now rewrite (nth_map_d _ _ _ _ 0). Qed.

Lemma bool_list_ext (a b : list bool) :
  length a = length b -> (forall i, i < length a -> nth i a false = nth i b false) -> a = b.
Proof. intros. now apply nth_ext with (d := false) (d' := false). Qed.

Lemma sel_upd_same qs s r :
  NoDup qs -> (forall q, In q qs -> q < length r) -> length s = length qs -> sel qs (upd qs s r) = s.
Proof.
  intros Hn Hr Hs. apply bool_list_ext; [now rewrite sel_length|].
  intros i Hi. rewrite sel_length in Hi. rewrite nth_sel by assumption.
  assert (In (nth i qs 0) qs) by (apply nth_In; assumption).
  rewrite nth_upd by auto. replace (memb (nth i qs 0) qs) with true by (symmetry; now apply memb_In).
  now rewrite index_of_nth.
Qed.

Lemma sel_upd_other cs qs s r :
  (forall q, In q cs -> q < length r) -> (forall q, In q cs -> ~ In q qs) -> sel cs (upd qs s r) = sel cs r.
Proof.
  intros Hr Hd. unfold sel. apply map_ext_in. intros q Hq. rewrite nth_upd by auto.
  replace (memb q qs) with false; [reflexivity|]. symmetry. apply memb_false. auto.
Qed.

Lemma upd_nil r : upd [] [] r = r.
Proof.
  apply bool_list_ext; [apply upd_length|]. intros i Hi. rewrite upd_length in Hi.
  now rewrite nth_upd.
Qed.

Lemma upd_cons q qs x s r : ~ In q qs ->
  upd (q :: qs) (x :: s) r = upd qs s (upd [q] [x] r).
Proof.
  intros Hq. apply bool_list_ext; [now rewrite !upd_length|].
  intros i Hi. rewrite upd_length in Hi. rewrite !nth_upd by (rewrite ?upd_length; assumption).
  simpl. destruct (Nat.eqb_spec i q) as [->|Hne].
  - rewrite Nat.eqb_refl. simpl. replace (memb q qs) with false by (symmetry; now apply memb_false).
    reflexivity.
  - rewrite (proj2 (Nat.eqb_neq q i)) by congruence. simpl.
    destruct (memb i qs); reflexivity.
Qed.

(* the relabelling lemma: selecting the positions P after an update on ts = P[ts'] *)
Lemma sel_upd_perm P ts' s b :
  NoDup P -> (forall j, In j ts' -> j < length P) -> (forall p, In p P -> p < length b) ->
  sel P (upd (map (fun j => nth j P 0) ts') s b) = upd ts' s (sel P b).
Proof.
  intros Hn Ht Hb. apply bool_list_ext; [now rewrite upd_length, !sel_length|].
  intros i Hi. rewrite sel_length in Hi. rewrite nth_sel by assumption.
  rewrite nth_upd by (apply Hb, nth_In; assumption).
  rewrite nth_upd by (now rewrite sel_length). rewrite nth_sel by assumption.
  assert (E : forall l, (forall j, In j l -> j < length P) ->
              memb (nth i P 0) (map (fun j => nth j P 0) l) = memb i l /\
              (memb i l = true -> index_of (nth i P 0) (map (fun j => nth j P 0) l) = index_of i l)).
  { induction l as [|h t IH]; intros Hl; [split; [reflexivity|discriminate]|].
    destruct (IH (fun j H => Hl j (or_intror H))) as [IH1 IH2]. simpl.
    destruct (Nat.eqb_spec i h) as [->|Hne].
    - rewrite !Nat.eqb_refl. simpl. split; reflexivity.
    - assert (nth h P 0 <> nth i P 0).
      { intros E. apply Hne. transitivity (index_of (nth i P 0) P).
        - symmetry. now apply index_of_nth.
        - rewrite <- E. apply index_of_nth; [assumption|]. apply Hl. now left. }
      rewrite (proj2 (Nat.eqb_neq (nth i P 0) (nth h P 0))) by congruence.
      rewrite (proj2 (Nat.eqb_neq (nth h P 0) (nth i P 0))) by congruence.
      rewrite (proj2 (Nat.eqb_neq h i)) by congruence. simpl. split; [assumption|].
      intros H'. f_equal. now apply IH2. }
  destruct (E ts' Ht) as [E1 E2]. rewrite E1. destruct (memb i ts') eqn:M; [|reflexivity].
  now rewrite E2.
Qed.

(* agree_off *)
Lemma agree_off_from_spec qs : forall r c i,
  agree_off_from i qs r c = true <->
  (length r = length c /\ forall j, j < length r -> memb (i + j) qs = true \/ nth j r false = nth j c false).
Proof.
  induction r as [|x r IH]; intros [|y c] i; simpl; try (split; [discriminate|intros [H _]; discriminate]).
  - split; [intros _; split; [reflexivity|intros; lia]|reflexivity].
  - rewrite andb_true_iff, IH. fold (memb i qs). split.
    + intros [H0 [Hl H]]. split; [now f_equal|]. intros [|j] Hj.
      * rewrite Nat.add_0_r. destruct (memb i qs); [now left|right]. now apply eqb_prop.
      * replace (i + S j) with (S i + j) by lia. apply H. lia.
    + intros [Hl H]. split; [|split; [now injection Hl|]].
      * destruct (H 0 ltac:(lia)) as [H0|H0]; rewrite ?Nat.add_0_r in *.
        -- now rewrite H0.
        -- simpl in H0. subst. destruct (memb i qs); [reflexivity|apply eqb_reflx].
      * intros j Hj. replace (S i + j) with (i + S j) by lia. apply (H (S j)). lia.
Qed.

Lemma agree_off_spec qs r c :
  agree_off qs r c = true <->
  (length r = length c /\ forall j, j < length r -> memb j qs = true \/ nth j r false = nth j c false).
Proof. unfold agree_off. rewrite agree_off_from_spec. reflexivity. Qed.

Lemma agree_off_nil r c : agree_off [] r c = beqb r c.
Proof.
  apply eq_true_iff_eq. rewrite agree_off_spec, beqb_eq. split.
  - intros [Hl H]. apply bool_list_ext; [assumption|]. intros i Hi. destruct (H i Hi); [discriminate|assumption].
  - intros ->. split; [reflexivity|]. intros; now right.
Qed.

(* ------------------------------------------------------------------ sums *)
(* commutative semiring laws of a carrier *)
Record semiring {T : Type} (K : ops T) : Prop := mk_semiring {
  sr_add_comm : forall a b, add K a b = add K b a;
  sr_add_assoc : forall a b c, add K a (add K b c) = add K (add K a b) c;
  sr_add_0_l : forall a, add K (zero K) a = a;
  sr_mul_comm : forall a b, mul K a b = mul K b a;
  sr_mul_assoc : forall a b c, mul K a (mul K b c) = mul K (mul K a b) c;
  sr_mul_1_l : forall a, mul K (one K) a = a;
  sr_mul_0_l : forall a, mul K (zero K) a = zero K;
  sr_mul_add_l : forall a b c, mul K a (add K b c) = add K (mul K a b) (mul K a c) }.

Section Sums.
  Context {T : Type} (K : ops T).
  Hypothesis HK : semiring K.
  Local Notation add_comm := (sr_add_comm K HK).
  Local Notation add_assoc := (sr_add_assoc K HK).
  Local Notation add_0_l := (sr_add_0_l K HK).
  Local Notation mul_comm := (sr_mul_comm K HK).
  Local Notation mul_assoc := (sr_mul_assoc K HK).
  Local Notation mul_1_l := (sr_mul_1_l K HK).
  Local Notation mul_0_l := (sr_mul_0_l K HK).
  Local Notation mul_add_l := (sr_mul_add_l K HK).

  Lemma add_0_r a : add K a (zero K) = a.
  Proof. rewrite add_comm. apply add_0_l. Qed.
  Lemma mul_0_r a : mul K a (zero K) = zero K.
  Proof. rewrite mul_comm. apply mul_0_l. Qed.
  Lemma mul_1_r a : mul K a (one K) = a.
  Proof. rewrite mul_comm. apply mul_1_l. Qed.
  Lemma mul_add_r a b c : mul K (add K a b) c = add K (mul K a c) (mul K b c).
  Proof. now rewrite mul_comm, mul_add_l, !(mul_comm c). Qed.
  Lemma add_swap a b c d : add K (add K a b) (add K c d) = add K (add K a c) (add K b d).
  Proof.
    rewrite <- !add_assoc. f_equal. rewrite !add_assoc. f_equal. apply add_comm.
  Qed.

  Notation tsum := (tsum K).

  Lemma tsum_app l1 l2 : tsum (l1 ++ l2) = add K (tsum l1) (tsum l2).
  Proof.
    induction l1 as [|x l1 IH]; simpl; [now rewrite add_0_l|]. now rewrite IH, add_assoc.
  Qed.

  Lemma tsum_map_ext {A} (f g : A -> T) l : (forall x, In x l -> f x = g x) -> tsum (map f l) = tsum (map g l).
  Proof. intros H. f_equal. now apply map_ext_in. Qed.

  Lemma tsum_zero {A} (l : list A) : tsum (map (fun _ => zero K) l) = zero K.
  Proof. induction l; simpl; [reflexivity|]. now rewrite IHl, add_0_l. Qed.

  Lemma tsum_add {A} (f g : A -> T) l :
    tsum (map (fun x => add K (f x) (g x)) l) = add K (tsum (map f l)) (tsum (map g l)).
  Proof.
    induction l as [|x l IH]; simpl; [now rewrite add_0_l|]. now rewrite IH, add_swap.
  Qed.

  Lemma tsum_scale_l {A} c (f : A -> T) l : tsum (map (fun x => mul K c (f x)) l) = mul K c (tsum (map f l)).
  Proof.
    induction l as [|x l IH]; simpl; [now rewrite mul_0_r|]. now rewrite IH, mul_add_l.
  Qed.

  Lemma tsum_scale_r {A} c (f : A -> T) l : tsum (map (fun x => mul K (f x) c) l) = mul K (tsum (map f l)) c.
  Proof.
    rewrite (mul_comm _ c), <- tsum_scale_l. apply tsum_map_ext. intros; apply mul_comm.
  Qed.

  Lemma tsum_swap {A B} (f : A -> B -> T) la lb :
    tsum (map (fun a => tsum (map (fun b => f a b) lb)) la)
    = tsum (map (fun b => tsum (map (fun a => f a b) la)) lb).
  Proof.
    induction la as [|a la IH]; simpl.
    - now rewrite tsum_zero.
    - rewrite IH. now rewrite <- tsum_add.
  Qed.

  Lemma tsum_allbits_S (f : list bool -> T) n :
    tsum (map f (allbits (S n)))
    = add K (tsum (map (fun b => f (false :: b)) (allbits n))) (tsum (map (fun b => f (true :: b)) (allbits n))).
  Proof. simpl allbits. now rewrite map_app, tsum_app, !map_map. Qed.

  (* sum of an indicator *)
  Lemma tsum_delta n : forall (F : list bool -> T) r, length r = n ->
    tsum (map (fun c => if beqb r c then F c else zero K) (allbits n)) = F r.
  Proof.
    induction n as [|n IH]; intros F r Hr.
    - destruct r; [|discriminate]. simpl. now rewrite add_0_r.
    - destruct r as [|x r]; [discriminate|]. injection Hr as Hr. rewrite tsum_allbits_S.
      destruct x; simpl.
      + rewrite tsum_zero, add_0_l. now apply (IH (fun b => F (true :: b))).
      + rewrite tsum_zero, add_0_r. now apply (IH (fun b => F (false :: b))).
  Qed.

  (* the central re-indexing: columns agreeing with r off qs <-> assignments of the bits at qs *)
  Lemma gate_sum (F : list bool -> T) n : forall qs r,
    NoDup qs -> (forall q, In q qs -> q < n) -> length r = n ->
    tsum (map (fun c => if agree_off qs r c then F c else zero K) (allbits n))
    = tsum (map (fun s => F (upd qs s r)) (allbits (length qs))).
  Proof.
    induction qs as [|q qs IH]; intros r Hn Hq Hr.
    - simpl. rewrite add_0_r, upd_nil.
      rewrite (tsum_map_ext _ (fun c => if beqb r c then F c else zero K)).
      + now apply tsum_delta.
      + intros c _. now rewrite agree_off_nil.
    - inversion Hn as [|? ? Hnq Hn']; subst. simpl length. rewrite tsum_allbits_S.
      assert (Hq' : forall q0, In q0 qs -> q0 < length r) by (intros; apply Hq; now right).
      assert (Hqr : q < length r) by (apply Hq; now left).
      rewrite (tsum_map_ext (fun b => F (upd (q :: qs) (false :: b) r)) (fun b => F (upd qs b (upd [q] [false] r))))
        by (intros; now rewrite upd_cons).
      rewrite (tsum_map_ext (fun b => F (upd (q :: qs) (true :: b) r)) (fun b => F (upd qs b (upd [q] [true] r))))
        by (intros; now rewrite upd_cons).
      rewrite <- !IH by (rewrite ?upd_length; auto).
      rewrite <- tsum_add. apply tsum_map_ext. intros c Hc. apply allbits_In in Hc.
      (* pointwise: agree_off (q::qs) r c  <->  exactly one of the two *)
      assert (A : forall x, agree_off qs (upd [q] [x] r) c = agree_off (q :: qs) r c && eqb (nth q c false) x).
      { intros x. apply eq_true_iff_eq. rewrite andb_true_iff, !agree_off_spec, upd_length. split.
        - intros [Hl H]. split; [split; [assumption|]|].
          + intros j Hj. destruct (H j Hj) as [H1|H1].
            * left. simpl. now rewrite H1, orb_true_r.
            * rewrite nth_upd in H1 by assumption. simpl in H1.
              destruct (Nat.eqb_spec j q) as [->|Hne]; [left; simpl; now rewrite Nat.eqb_refl|].
              rewrite orb_false_r in H1. now right.
          + destruct (H q Hqr) as [H1|H1].
            * apply memb_In in H1. contradiction.
            * rewrite nth_upd in H1 by assumption. simpl in H1. rewrite Nat.eqb_refl in H1. simpl in H1.
              rewrite <- H1. apply eqb_reflx.
        - intros [[Hl H] Hx]. apply eqb_prop in Hx. split; [assumption|]. intros j Hj.
          rewrite nth_upd by assumption. simpl.
          destruct (Nat.eqb_spec j q) as [->|Hne]; simpl.
          + right. rewrite Nat.eqb_refl. simpl. now symmetry.
          + destruct (H j Hj) as [H1|H1]; [|now right]. simpl in H1.
            rewrite (proj2 (Nat.eqb_neq j q)) in H1 by assumption. now left. }
      rewrite !A. destruct (agree_off (q :: qs) r c); simpl; [|now rewrite add_0_l].
      destruct (nth q c false); simpl; [now rewrite add_0_l|now rewrite add_0_r].
  Qed.
End Sums.
