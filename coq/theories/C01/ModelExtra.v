(* C01/ModelExtra.v : further executable models of backends/numpy.py (no proofs here):
     zero_state, zero_density_matrix, the initial-state handling of execute_circuit
     (None / a Circuit / an array whose shape is validated), and density-matrix execution of queues
     that contain FusedGates (FusedGate.apply_density_matrix = apply_gate_density_matrix with
     matrix_fused(fgate) on fgate.target_qubits, not controlled). *)
From Coq Require Import List Bool Arith Lia.
From QV Require Import Base.Mat C01.Model.
Import ListNotations.

Section Extra.
  Context {T : Type} (K : ops T) (cj : T -> T).

  (* state = zeros(2^n); state[0] = 1 *)
  Definition zero_state (n : nat) : vec T := one K :: repeat (zero K) (2 ^ n - 1).
  (* state = zeros((2^n, 2^n)); state[0, 0] = 1 *)
  Definition zero_density_matrix (n : nat) : mat T :=
    (one K :: repeat (zero K) (2 ^ n - 1)) :: repeat (repeat (zero K) (2 ^ n)) (2 ^ n - 1).

  Inductive init_sv : Type := InitNone | InitCircuit (c0 : list (gate (T:=T))) | InitArray (v : vec T).
  Inductive init_dm : Type := DInitNone | DInitCircuit (c0 : list (gate (T:=T))) | DInitArray (rho : mat T).

  (* execute_circuit, density_matrix=False; None = ValueError (wrong shape) *)
  Definition execute_circuit (n : nat) (gs : list gate) (init : init_sv) : option (vec T) :=
    match init with
    | InitNone => Some (execute K n gs (zero_state n))
    | InitCircuit c0 => Some (execute K n (c0 ++ gs) (zero_state n))    (* execute_circuit(initial_state + circuit) *)
    | InitArray v => if Nat.eqb (length v) (2 ^ n) then Some (execute K n gs v) else None
    end.
  Definition execute_circuit_dm (n : nat) (gs : list gate) (init : init_dm) : option (mat T) :=
    match init with
    | DInitNone => Some (execute_dm K cj n gs (zero_density_matrix n))
    | DInitCircuit c0 => Some (execute_dm K cj n (c0 ++ gs) (zero_density_matrix n))
    | DInitArray rho => if shape_ok (2 ^ n) rho then Some (execute_dm K cj n gs rho) else None
    end.

  Definition apply_item_dm (n : nat) (it : qitem) (rho : mat T) : mat T :=
    match it with
    | QGate g => apply_gate_dm K cj n g rho
    | QFused fq gs => apply_gate_dm_plain K cj n fq (matrix_fused K fq gs) rho
    end.
  Definition execute_dm_queue (n : nat) (q : list qitem) (rho : mat T) : mat T :=
    fold_left (fun s it => apply_item_dm n it s) q rho.
End Extra.
