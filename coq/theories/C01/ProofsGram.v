(* C01/ProofsGram.v : Gram-form preservation (positivity without an order, and the strongest tie
   between the density-matrix and the state-vector semantics).
       gram n [(a_i, v_i, w_i)] = sum_i a_i . |v_i><w_i|
   The density-matrix run of any queue maps it to sum_i a_i |U v_i><U w_i| where U v_i, U w_i are the
   STATE-VECTOR runs of the same queue (execute); the half call maps it to sum_i a_i |E v_i><w_i|.
   With w_i = v_i and "non-negative" a_i this is preservation of positive semidefiniteness; every
   2^n x 2^n matrix is a Gram form (gram_complete), so the statement covers every rho. *)
From Coq Require Import List Bool Arith Lia.
From QV Require Import Base.Mat C01.Model C01.Spec C01.Lib C01.ProofsSV C01.ProofsCtrl C01.ProofsMat
  C01.ProofsRun C01.ProofsDM C01.ProofsRunDM.
Import ListNotations.

Section Gram.
  Context {T : Type} (K : ops T) (cj : T -> T).
  Hypothesis HK : semiring K.
  Hypothesis HC : conj_ok K cj.
  Local Notation mul_comm := (sr_mul_comm K HK).
  Local Notation mul_assoc := (sr_mul_assoc K HK).
  Local Notation mul_0_l := (sr_mul_0_l K HK).
  Local Notation mul_add_l := (sr_mul_add_l K HK).
  Local Notation tsum := (tsum K).
  Local Notation zero := (zero K).

  Definition term := (T * vec T * vec T)%type.
  Definition t_a (t : term) : T := fst (fst t).
  Definition t_v (t : term) : vec T := snd (fst t).
  Definition t_w (t : term) : vec T := snd t.

  Definition gram_entry (l : list term) (r c : list bool) : T :=
    tsum (map (fun t => mul K (t_a t) (mul K (vtens K (t_v t) r) (cj (vtens K (t_w t) c)))) l).
  Definition gram (n : nat) (l : list term) : mat T := tab2 n (gram_entry l).
  Definition term_ok (n : nat) (t : term) : Prop := length (t_v t) = 2 ^ n /\ length (t_w t) = 2 ^ n.
  Definition map_term (F Gf : vec T -> vec T) (t : term) : term := (t_a t, F (t_v t), Gf (t_w t)).

  Lemma gram_wf n l : wf_mat n (gram n l).
  Proof. apply tab2_wf. Qed.

  (* ---------------------------------------------------------------- linear / bilinear forms over bit strings *)
  Section Forms.
    Variable n : nat.
    Definition lin (f X : list bool -> T) : T := tsum (map (fun k => mul K (f k) (X k)) (allbits n)).
    Definition bil (f g : list bool -> T) (X : list bool -> list bool -> T) : T :=
      lin f (fun k => lin (fun k' => g k') (fun k' => X k k')).

    Lemma lin_ext f X Y : (forall k, length k = n -> X k = Y k) -> lin f X = lin f Y.
    Proof. intros H. unfold lin. apply tsum_map_ext. intros k Hk. apply allbits_In in Hk. now rewrite H. Qed.

    Lemma lin_zero f : lin f (fun _ => zero) = zero.
    Proof.
      unfold lin. rewrite (tsum_map_ext K _ (fun _ => zero)) by (intros; apply (mul_0_r K HK)).
      apply (tsum_zero K HK).
    Qed.

    Lemma lin_add f X Y : lin f (fun k => add K (X k) (Y k)) = add K (lin f X) (lin f Y).
    Proof.
      unfold lin. rewrite <- (tsum_add K HK). apply tsum_map_ext. intros k _. apply mul_add_l.
    Qed.

    Lemma lin_scale f a X : lin f (fun k => mul K a (X k)) = mul K a (lin f X).
    Proof.
      unfold lin. rewrite <- (tsum_scale_l K HK). apply tsum_map_ext. intros k _.
      rewrite !mul_assoc. f_equal. apply mul_comm.
    Qed.

    Lemma lin_scale_r f X b : lin f (fun k => mul K (X k) b) = mul K (lin f X) b.
    Proof.
      unfold lin. rewrite <- (tsum_scale_r K HK). apply tsum_map_ext. intros k _. apply mul_assoc.
    Qed.

    Lemma lin_tsum {A} f (h : A -> list bool -> T) (l : list A) :
      lin f (fun k => tsum (map (fun t => h t k) l)) = tsum (map (fun t => lin f (h t)) l).
    Proof.
      induction l as [|t l IH]; simpl; [apply lin_zero|]. now rewrite lin_add, IH.
    Qed.
  End Forms.

  Lemma vtens_mvmul n f v r : length v = 2 ^ n -> length r = n ->
    vtens K (mvmul K (tab2 n f) v) r = lin n (f r) (vtens K v).
  Proof. intros Hv Hr. rewrite (mvmul_tab2 K n f v Hv). now rewrite (vtens_tvec K). Qed.

  (* ---------------------------------------------------------------- U rho U^dagger and E rho on Gram forms *)
  Lemma sandwich_gram n U l : wf_mat n U -> Forall (term_ok n) l ->
    sandwich K cj n U (gram n l) = gram n (map (map_term (mvmul K U) (mvmul K U)) l).
  Proof.
    intros HU Hl. rewrite (wf_tab2 K n U HU). generalize (mentry K U). intros f.
    unfold gram at 1. rewrite (sandwich_tab2 K cj HK). unfold gram. apply tab2_ext. intros r c Hr Hc.
    change (tsum (map (fun k => mul K (f r k) (tsum (map (fun k' => mul K (gram_entry l k k') (cj (f c k'))) (allbits n)))) (allbits n)))
      with (lin n (f r) (fun k => tsum (map (fun k' => mul K (gram_entry l k k') (cj (f c k'))) (allbits n)))).
    rewrite (lin_ext n _ _ (fun k => tsum (map (fun t =>
               mul K (mul K (t_a t) (vtens K (t_v t) k)) (lin n (fun k' => cj (f c k')) (fun k' => cj (vtens K (t_w t) k')))) l))).
    2:{ intros k _. unfold gram_entry.
        rewrite (tsum_map_ext K _ (fun k' => tsum (map (fun t =>
            mul K (mul K (t_a t) (vtens K (t_v t) k)) (mul K (cj (f c k')) (cj (vtens K (t_w t) k')))) l))).
        - rewrite (tsum_swap K HK). apply tsum_map_ext. intros t _. unfold lin. now rewrite (tsum_scale_l K HK).
        - intros k' _. rewrite <- (tsum_scale_r K HK). apply tsum_map_ext. intros t _.
          rewrite <- !mul_assoc. f_equal. f_equal. apply mul_comm. }
    rewrite lin_tsum. unfold gram_entry. rewrite map_map. apply tsum_map_ext. intros t Ht.
    rewrite Forall_forall in Hl. destruct (Hl t Ht) as [Hv Hw].
    unfold map_term, t_a, t_v, t_w. cbn [fst snd].
    rewrite !vtens_mvmul by assumption.
    rewrite (lin_scale_r n). rewrite (lin_scale n). rewrite <- mul_assoc. f_equal. f_equal.
    unfold lin. rewrite (cj_tsum K cj HC). apply tsum_map_ext. intros k' _. symmetry. apply (cj_mul K cj HC).
  Qed.

  Lemma mmul_gram n E l : wf_mat n E -> Forall (term_ok n) l ->
    mmul K E (gram n l) = gram n (map (map_term (mvmul K E) (fun w => w)) l).
  Proof.
    intros HE Hl. rewrite (wf_tab2 K n E HE). generalize (mentry K E). intros f.
    unfold gram at 1. rewrite (mmul_tab2 K HK). unfold gram. apply tab2_ext. intros r c Hr Hc.
    change (tsum (map (fun k => mul K (f r k) (gram_entry l k c)) (allbits n)))
      with (lin n (f r) (fun k => gram_entry l k c)).
    unfold gram_entry. rewrite lin_tsum, map_map. apply tsum_map_ext. intros t Ht.
    rewrite Forall_forall in Hl. destruct (Hl t Ht) as [Hv Hw].
    unfold map_term, t_a, t_v, t_w. cbn [fst snd]. rewrite vtens_mvmul by assumption.
    rewrite (lin_scale n). f_equal. apply (lin_scale_r n).
  Qed.

  (* ---------------------------------------------------------------- the theorems *)
  Theorem dm_run_gram_eq n gs l : Forall (gate_wf n) gs -> Forall (term_ok n) l ->
    execute_dm K cj n gs (gram n l) = gram n (map (map_term (execute K n gs) (execute K n gs)) l).
  Proof.
    intros Hw Hl. rewrite (execute_dm_eq K cj HK HC) by (auto using gram_wf).
    rewrite sandwich_gram by (auto; apply (circ_op_wf K HK)). f_equal.
    apply map_ext_in. intros t Ht. rewrite Forall_forall in Hl. destruct (Hl t Ht) as [Hv Hw'].
    unfold map_term. now rewrite !(execute_eq K HK).
  Qed.

  Theorem dm_gate_gram_eq n g l : gate_wf n g -> Forall (term_ok n) l ->
    apply_gate_dm K cj n g (gram n l) = gram n (map (map_term (apply_gate K n g) (apply_gate K n g)) l).
  Proof.
    intros Hw Hl. rewrite (apply_gate_dm_eq K cj HK HC) by (auto using gram_wf).
    rewrite sandwich_gram by (auto; apply gate_op_wf). f_equal.
    apply map_ext_in. intros t Ht. rewrite Forall_forall in Hl. destruct (Hl t Ht) as [Hv Hw'].
    unfold map_term. now rewrite !(apply_gate_eq K HK).
  Qed.

  Theorem dm_plain_gram_eq n qs M l : NoDup qs -> (forall q, In q qs -> q < n) -> Forall (term_ok n) l ->
    apply_gate_dm_plain K cj n qs M (gram n l)
    = gram n (map (map_term (apply_gate_plain K n qs M) (apply_gate_plain K n qs M)) l).
  Proof.
    intros Hn Hq Hl. rewrite (dm_plain_eq K cj HK HC) by (auto using gram_wf).
    rewrite sandwich_gram by (auto; rewrite embed_tab2; apply tab2_wf). f_equal.
    apply map_ext_in. intros t Ht. rewrite Forall_forall in Hl. destruct (Hl t Ht) as [Hv Hw'].
    unfold map_term. now rewrite !(apply_gate_plain_eq K HK).
  Qed.

  Theorem dm_ctrl_gram_eq n cs ts M l :
    incr_from 0 cs -> (forall c, In c cs -> c < n) -> NoDup ts -> (forall t, In t ts -> t < n) ->
    (forall t, In t ts -> ~ In t cs) -> Forall (term_ok n) l ->
    apply_gate_dm_ctrl K cj n cs ts M (gram n l)
    = gram n (map (map_term (apply_gate_ctrl K n cs ts M) (apply_gate_ctrl K n cs ts M)) l).
  Proof.
    intros Hi Hc Hn Ht Hd Hl. rewrite (dm_ctrl_eq K cj HK HC) by (auto using gram_wf).
    rewrite sandwich_gram by (auto; rewrite cembed_tab2; apply tab2_wf). f_equal.
    apply map_ext_in. intros t Ht'. rewrite Forall_forall in Hl. destruct (Hl t Ht') as [Hv Hw'].
    unfold map_term. now rewrite !(apply_gate_ctrl_eq K HK).
  Qed.

  Theorem dm_half_gram_eq n qs M l : NoDup qs -> (forall q, In q qs -> q < n) -> Forall (term_ok n) l ->
    apply_gate_half_dm K n qs M (gram n l)
    = gram n (map (map_term (apply_gate_plain K n qs M) (fun w => w)) l).
  Proof.
    intros Hn Hq Hl. rewrite (dm_half_eq K HK) by (auto using gram_wf).
    rewrite mmul_gram by (auto; rewrite embed_tab2; apply tab2_wf). f_equal.
    apply map_ext_in. intros t Ht. rewrite Forall_forall in Hl. destruct (Hl t Ht) as [Hv Hw'].
    unfold map_term. now rewrite (apply_gate_plain_eq K HK).
  Qed.

  (* ---------------------------------------------------------------- every matrix is a Gram form *)
  Definition basis (n : nat) (r : list bool) : vec T := tvec n (fun b => if beqb r b then one K else zero).
  Definition gram_of (n : nat) (rho : mat T) : list term :=
    flat_map (fun r => map (fun c => (mentry K rho r c, basis n r, basis n c)) (allbits n)) (allbits n).

  Lemma tsum_flat_map {A B} (h : B -> T) (F : A -> list B) l :
    tsum (map h (flat_map F l)) = tsum (map (fun a => tsum (map h (F a))) l).
  Proof.
    induction l as [|a l IH]; simpl; [reflexivity|]. now rewrite map_app, (tsum_app K HK), IH.
  Qed.

  Lemma basis_length n r : length (basis n r) = 2 ^ n.
  Proof. unfold basis, tvec. now rewrite map_length, allbits_length. Qed.

  Lemma gram_of_ok n rho : Forall (term_ok n) (gram_of n rho).
  Proof.
    apply Forall_forall. intros t Ht. unfold gram_of in Ht. apply in_flat_map in Ht.
    destruct Ht as [r [_ Ht]]. apply in_map_iff in Ht. destruct Ht as [c [<- _]].
    split; apply basis_length.
  Qed.

  Theorem gram_complete n rho : wf_mat n rho -> rho = gram n (gram_of n rho).
  Proof.
    intros Hr. rewrite (wf_tab2 K n rho Hr) at 1. unfold gram. apply tab2_ext. intros r0 c0 Hr0 Hc0.
    unfold gram_entry, gram_of. rewrite tsum_flat_map.
    rewrite (tsum_map_ext K _ (fun r => if beqb r0 r then mentry K rho r c0 else zero)).
    - symmetry. exact (tsum_delta K HK n (fun r => mentry K rho r c0) r0 Hr0).
    - intros r Hr'. apply allbits_In in Hr'. rewrite map_map.
      rewrite (tsum_map_ext K _ (fun c => if beqb c0 c then (if beqb r0 r then mentry K rho r c else zero) else zero)).
      + rewrite (tsum_delta K HK n (fun c => if beqb r0 r then mentry K rho r c else zero) c0 Hc0). reflexivity.
      + intros c Hc'. apply allbits_In in Hc'. unfold t_a, t_v, t_w, basis. cbn [fst snd].
        rewrite !(vtens_tvec K) by assumption.
        rewrite (beqb_sym r r0), (beqb_sym c c0).
        destruct (beqb c0 c), (beqb r0 r); rewrite ?(cj_one K cj HC), ?(cj_zero K cj HC),
          ?(mul_1_r K HK), ?(mul_0_r K HK), ?mul_0_l; reflexivity.
  Qed.
End Gram.
