(* C01/ProofsDM.v : density matrices.  apply_gate_density_matrix (plain branch and the controlled
   00/01/10/11 block branch) and apply_gate_half_density_matrix against E rho E^dagger / E rho. *)
From Coq Require Import List Bool Arith Lia Permutation.
From QV Require Import Base.Mat C01.Model C01.Spec C01.Lib C01.ProofsSV C01.ProofsCtrl C01.ProofsMat.
Import ListNotations.

(* what is needed of the conjugation *)
Record conj_ok {T : Type} (K : ops T) (cj : T -> T) : Prop := mk_conj_ok {
  cj_zero : cj (zero K) = zero K;
  cj_one : cj (one K) = one K;
  cj_add : forall a b, cj (add K a b) = add K (cj a) (cj b);
  cj_mul : forall a b, cj (mul K a b) = mul K (cj a) (cj b) }.

Section DM.
  Context {T : Type} (K : ops T) (cj : T -> T).
  Hypothesis HK : semiring K.
  Hypothesis HC : conj_ok K cj.
  Local Notation add_comm := (sr_add_comm K HK).
  Local Notation add_0_l := (sr_add_0_l K HK).
  Local Notation mul_comm := (sr_mul_comm K HK).
  Local Notation mul_assoc := (sr_mul_assoc K HK).
  Local Notation mul_1_l := (sr_mul_1_l K HK).
  Local Notation mul_0_l := (sr_mul_0_l K HK).
  Local Notation tsum := (tsum K).
  Local Notation zero := (zero K).

  (* ---------------------------------------------------------------- spec side *)
  Lemma madj_tab2 n f : madj K cj n (tab2 n f) = tab2 n (fun r c => cj (f c r)).
  Proof.
    unfold madj. unfold tab2 at 2. apply map_ext_in. intros r Hr. apply map_ext_in. intros c Hc.
    apply allbits_In in Hr. apply allbits_In in Hc. f_equal. now apply (mentry_tab2 K n f c r).
  Qed.

  Lemma sandwich_tab2 n f g :
    sandwich K cj n (tab2 n f) (tab2 n g)
    = tab2 n (fun r c => tsum (map (fun k => mul K (f r k)
                 (tsum (map (fun k' => mul K (g k k') (cj (f c k'))) (allbits n)))) (allbits n))).
  Proof. unfold sandwich. now rewrite madj_tab2, !(mmul_tab2 K HK). Qed.

  (* E rho E^dagger for a (controlled) gate operator, entry by entry *)
  Definition dm_inner (cs ts : list nat) (M : mat T) (g : list bool -> list bool -> T) (c k : list bool) : T :=
    if all1 (sel cs c)
    then tsum (map (fun s' => mul K (cj (mget K M (idx (sel ts c)) (idx s'))) (g k (upd ts s' c))) (allbits (length ts)))
    else g k c.
  Definition dm_action (cs ts : list nat) (M : mat T) (g : list bool -> list bool -> T) (r c : list bool) : T :=
    if all1 (sel cs r)
    then tsum (map (fun s => mul K (mget K M (idx (sel ts r)) (idx s)) (dm_inner cs ts M g c (upd ts s r))) (allbits (length ts)))
    else dm_inner cs ts M g c r.

  Lemma sandwich_cembed n cs ts M g : NoDup ts -> (forall t, In t ts -> t < n) ->
    sandwich K cj n (cembed K n cs ts M) (tab2 n g) = tab2 n (dm_action cs ts M g).
  Proof.
    intros Hn Ht. rewrite cembed_tab2, sandwich_tab2. apply tab2_ext. intros r c Hr Hc.
    assert (I : forall k, tsum (map (fun k' => mul K (g k k')
                (cj (if forallb (fun q => nth q c false) cs
                     then if agree_off ts c k' then mget K M (idx (sel ts c)) (idx (sel ts k')) else zero
                     else if beqb c k' then one K else zero))) (allbits n)) = dm_inner cs ts M g c k).
    { intros k. unfold dm_inner.
      rewrite <- (cembed_row_sum K HK n cs ts (fun s' => cj (mget K M (idx (sel ts c)) (idx s'))) (fun k' => g k k') c Hn Ht Hc).
      apply tsum_map_ext. intros k' _. rewrite mul_comm. f_equal.
      destruct (forallb (fun q => nth q c false) cs).
      - destruct (agree_off ts c k'); [reflexivity|apply (cj_zero K cj HC)].
      - destruct (beqb c k'); [apply (cj_one K cj HC)|apply (cj_zero K cj HC)]. }
    rewrite (tsum_map_ext K _ (fun k => mul K
               (if forallb (fun q => nth q r false) cs
                then if agree_off ts r k then mget K M (idx (sel ts r)) (idx (sel ts k)) else zero
                else if beqb r k then one K else zero) (dm_inner cs ts M g c k)))
      by (intros k _; now rewrite I).
    unfold dm_action.
    exact (cembed_row_sum K HK n cs ts (fun s => mget K M (idx (sel ts r)) (idx s)) (dm_inner cs ts M g c) r Hn Ht Hr).
  Qed.

  (* ---------------------------------------------------------------- the two strings *)
  Lemma dm_strings_eq qs n : NoDup qs -> (forall q, In q qs -> q < n) ->
    apply_gate_density_matrix_string qs n
    = ((seq 0 n ++ seq (n + length qs) n, seq n (length qs) ++ qs, out_of qs n ++ seq (n + length qs) n),
       (seq (n + length qs) n ++ seq 0 n, seq n (length qs) ++ qs, seq (n + length qs) n ++ out_of qs n)).
  Proof. intros Hn Hq. unfold apply_gate_density_matrix_string. now rewrite prepare_strings_eq. Qed.

  Lemma dm_ctrl_strings_eq qs n : NoDup qs -> (forall q, In q qs -> q < n) ->
    apply_gate_density_matrix_controlled_string qs n
    = let c := n + length qs + n in
      let '(l, r) := apply_gate_density_matrix_string qs n in
      ((c :: fst (fst l), snd (fst l), c :: snd l), (c :: fst (fst r), snd (fst r), c :: snd r)).
  Proof.
    intros Hn Hq. rewrite dm_strings_eq by assumption.
    unfold apply_gate_density_matrix_controlled_string. now rewrite prepare_strings_eq.
  Qed.

  Lemma trest_ok n k : NoDup (seq (n + k) n) /\ (forall l, In l (seq (n + k) n) -> n + k <= l).
  Proof. split; [apply seq_NoDup|]. intros l H. apply in_seq in H. lia. Qed.

  Lemma einsum_left n qs (a b : tensor (T:=T)) r c :
    NoDup qs -> (forall q, In q qs -> q < n) -> length r = n -> length c = n ->
    einsum2 K (seq 0 n ++ seq (n + length qs) n, seq n (length qs) ++ qs, out_of qs n ++ seq (n + length qs) n) a b (r ++ c)
    = tsum (map (fun s => mul K (a (upd qs s r ++ c)) (b (sel qs r ++ s))) (allbits (length qs))).
  Proof.
    intros Hn Hq Hr Hc. destruct (trest_ok n (length qs)) as [H1 H2].
    assert (Hc' : length c = length (seq (n + length qs) n)) by (now rewrite seq_length).
    exact (einsum_gate K n qs [] (seq (n + length qs) n) Hn Hq H1 H2 a b [] r c eq_refl Hr Hc').
  Qed.

  Lemma einsum_right n qs (a b : tensor (T:=T)) r c :
    NoDup qs -> (forall q, In q qs -> q < n) -> length r = n -> length c = n ->
    einsum2 K (seq (n + length qs) n ++ seq 0 n, seq n (length qs) ++ qs, seq (n + length qs) n ++ out_of qs n) a b (r ++ c)
    = tsum (map (fun s => mul K (a (r ++ upd qs s c)) (b (sel qs c ++ s))) (allbits (length qs))).
  Proof.
    intros Hn Hq Hr Hc. destruct (trest_ok n (length qs)) as [H1 H2].
    assert (Hr' : length r = length (seq (n + length qs) n)) by (now rewrite seq_length).
    assert (H1' : NoDup (seq (n + length qs) n ++ [])) by (now rewrite app_nil_r).
    assert (H2' : forall l, In l (seq (n + length qs) n ++ []) -> n + length qs <= l) by (rewrite app_nil_r; exact H2).
    pose proof (einsum_gate K n qs (seq (n + length qs) n) [] Hn Hq H1' H2' a b r c [] Hr' Hc eq_refl) as E.
    rewrite !app_nil_r in E. rewrite E. apply tsum_map_ext. intros s _. now rewrite app_nil_r.
  Qed.

  Lemma mtens_tab2 n g r c : length r = n -> length c = n -> mtens K n (tab2 n g) (r ++ c) = g r c.
  Proof. intros Hr Hc. rewrite mtens_split by assumption. now apply (mentry_tab2 K n g r c). Qed.

  (* ---------------------------------------------------------------- plain branch *)
  Lemma sel_nil_all1 r : all1 (sel [] r) = true.
  Proof. reflexivity. Qed.

  Lemma dm_plain_tab2 n qs M g : NoDup qs -> (forall q, In q qs -> q < n) ->
    apply_gate_dm_plain K cj n qs M (tab2 n g) = sandwich K cj n (embed K n qs M) (tab2 n g).
  Proof.
    intros Hn Hq. change (embed K n qs M) with (cembed K n [] qs M).
    rewrite sandwich_cembed by assumption.
    unfold apply_gate_dm_plain. rewrite dm_strings_eq by assumption. cbv beta iota zeta.
    unfold tmat. apply tab2_ext. intros r c Hr Hc.
    rewrite einsum_left by assumption. unfold dm_action, dm_inner. cbn [sel map all1 forallb].
    apply tsum_map_ext. intros s Hs. apply allbits_In in Hs.
    rewrite mtens_split by apply sel_length. rewrite mul_comm. f_equal.
    rewrite einsum_right by (rewrite ?upd_length; assumption).
    apply tsum_map_ext. intros s' Hs'. apply allbits_In in Hs'.
    rewrite (mtens_split K (length qs) M (sel qs c) s') by apply sel_length. rewrite mul_comm. f_equal.
    apply mtens_tab2; now rewrite upd_length.
  Qed.

  Theorem dm_plain_eq n qs M rho : NoDup qs -> (forall q, In q qs -> q < n) -> wf_mat n rho ->
    apply_gate_dm_plain K cj n qs M rho = sandwich K cj n (embed K n qs M) rho.
  Proof. intros Hn Hq Hw. rewrite (wf_tab2 K n rho Hw). now apply dm_plain_tab2. Qed.

  (* half call: E rho *)
  Theorem dm_half_eq n qs M rho : NoDup qs -> (forall q, In q qs -> q < n) -> wf_mat n rho ->
    apply_gate_half_dm K n qs M rho = mmul K (embed K n qs M) rho.
  Proof.
    intros Hn Hq Hw. rewrite (wf_tab2 K n rho Hw). generalize (mentry K rho). intros g.
    rewrite embed_tab2, (mmul_tab2 K HK).
    unfold apply_gate_half_dm. rewrite dm_strings_eq by assumption. cbv beta iota zeta.
    unfold tmat. apply tab2_ext. intros r c Hr Hc.
    rewrite einsum_left by assumption.
    rewrite (embed_row_sum K HK n qs (fun s => mget K M (idx (sel qs r)) (idx s)) (fun k => g k c) r Hn Hq Hr).
    apply tsum_map_ext. intros s Hs. apply allbits_In in Hs.
    rewrite (mtens_split K (length qs) M (sel qs r) s) by apply sel_length. rewrite mul_comm. f_equal.
    apply mtens_tab2; now rewrite ?upd_length.
  Qed.

  (* ---------------------------------------------------------------- controlled branch *)
  Lemma idx_all1' b m : length b = m -> (idx b <? 2 ^ m - 1) = negb (all1 b).
  Proof. intros <-. apply idx_all1. Qed.

  Definition shift (n : nat) (l : list nat) : list nat := map (fun x => x + n) l.

  Lemma sel_low l r c : (forall q, In q l -> q < length r) -> sel l (r ++ c) = sel l r.
  Proof. intros H. unfold sel. apply map_ext_in. intros q Hq. apply app_nth1. auto. Qed.

  Lemma sel_shift l r c : sel (shift (length r) l) (r ++ c) = sel l c.
  Proof.
    unfold sel, shift. rewrite map_map. apply map_ext. intros q.
    rewrite app_nth2 by lia. f_equal. lia.
  Qed.

  Lemma control_order_dm_eq cs rest ts ts' n :
    control_order cs ts n = (cs ++ rest, ts') -> length (cs ++ rest) = n ->
    control_order_density_matrix cs ts n = (cs ++ shift n cs ++ rest ++ shift n rest, ts').
  Proof.
    intros E Hl. unfold control_order_density_matrix. rewrite E, Hl.
    rewrite firstn_app_len, skipn_app_len by reflexivity.
    rewrite map_app. fold (shift n cs) (shift n rest).
    rewrite firstn_app_len, skipn_app_len by (unfold shift; now rewrite map_length).
    reflexivity.
  Qed.

  Lemma dm_perm n cs rest : is_perm n (cs ++ rest) ->
    is_perm (n + n) (cs ++ shift n cs ++ rest ++ shift n rest).
  Proof.
    intros [Hn [Hb Hl]].
    assert (P : Permutation ((cs ++ rest) ++ shift n (cs ++ rest)) (cs ++ shift n cs ++ rest ++ shift n rest)).
    { unfold shift. rewrite map_app, <- app_assoc. apply Permutation_app_head.
      rewrite !app_assoc. apply Permutation_app_tail. apply Permutation_app_comm. }
    assert (ND : NoDup ((cs ++ rest) ++ shift n (cs ++ rest))).
    { apply NoDup_app_intro; [assumption| |].
      - unfold shift. apply NoDup_map_inj; [|assumption]. intros x y _ _. lia.
      - intros x Hx Hs. unfold shift in Hs. apply in_map_iff in Hs. destruct Hs as [y [E _]].
        apply Hb in Hx. lia. }
    repeat split.
    - exact (Permutation_NoDup P ND).
    - intros x Hx. apply (Permutation_in _ (Permutation_sym P)) in Hx. apply in_app_iff in Hx.
      destruct Hx as [Hx|Hx]; [apply Hb in Hx; lia|].
      unfold shift in Hx. apply in_map_iff in Hx. destruct Hx as [y [<- Hy]]. apply Hb in Hy. lia.
    - rewrite <- (Permutation_length P). unfold shift. rewrite app_length, map_length. lia.
  Qed.

  Lemma sel_dm_order n cs rest r c : (forall x, In x (cs ++ rest) -> x < n) -> length r = n ->
    sel (cs ++ shift n cs ++ rest ++ shift n rest) (r ++ c)
    = sel cs r ++ sel cs c ++ sel rest r ++ sel rest c.
  Proof.
    intros Hb Hr. rewrite !sel_app. rewrite <- Hr at 1 2. rewrite !sel_shift.
    rewrite !sel_low; [reflexivity| |].
    - intros q Hq. rewrite Hr. apply Hb, in_app_iff. now right.
    - intros q Hq. rewrite Hr. apply Hb, in_app_iff. now left.
  Qed.

  Section Blocks.
    Variables (n : nat) (cs rest ts ts' : list nat) (M : mat T) (g : list bool -> list bool -> T).
    Hypothesis Hp : is_perm n (cs ++ rest).
    Hypothesis Hnr : NoDup rest.
    Hypothesis Hd : forall x, In x cs -> ~ In x ts.
    Hypothesis Hj : forall j, In j ts' -> j < length rest.
    Hypothesis Hm : map (fun j => nth j rest 0) ts' = ts.
    Hypothesis Hlen : length ts' = length ts.

    Let P := cs ++ shift n cs ++ rest ++ shift n rest.
    Let st1 : tensor (T:=T) := ttranspose P (mtens K n (tab2 n g)).

    Lemma Hb_all x : In x (cs ++ rest) -> x < n.
    Proof. apply Hp. Qed.

    (* reading the transposed tensor at the image of (r, c) *)
    Lemma st1_read r c : length r = n -> length c = n ->
      st1 (sel cs r ++ sel cs c ++ sel rest r ++ sel rest c) = g r c.
    Proof.
      intros Hr Hc. unfold st1. rewrite ttranspose_unsel.
      rewrite <- (sel_dm_order n cs rest r c Hb_all Hr). fold P.
      rewrite (unsel_sel (n + n) P); [now apply mtens_tab2|now apply dm_perm|].
      rewrite app_length. lia.
    Qed.

    Lemma sel_cs_upd s r : length r = n -> sel cs (upd ts s r) = sel cs r.
    Proof.
      intros Hr. apply sel_upd_other; [|assumption].
      intros q Hq. rewrite Hr. apply Hb_all, in_app_iff. now left.
    Qed.

    Lemma sel_rest_upd s r : length r = n -> sel rest (upd ts s r) = upd ts' s (sel rest r).
    Proof.
      intros Hr. rewrite <- Hm. apply sel_upd_perm; auto.
      intros p Hp'. rewrite Hr. apply Hb_all, in_app_iff. now right.
    Qed.

    Lemma sel_ts' r : sel ts' (sel rest r) = sel ts r.
    Proof. rewrite sel_sel by assumption. now rewrite Hm. Qed.

    Lemma rest_length : length rest = n - length cs.
    Proof. destruct Hp as [_ [_ Hl]]. rewrite app_length in Hl. lia. Qed.

    Lemma ones_of r : all1 (sel cs r) = true -> repeat true (length cs) = sel cs r.
    Proof. intros H. rewrite <- (sel_length cs r). symmetry. now apply all1_repeat. Qed.
  End Blocks.

  Lemma dm_ctrl_tab2 n cs ts M g :
    incr_from 0 cs -> (forall c, In c cs -> c < n) -> NoDup ts -> (forall t, In t ts -> t < n) ->
    (forall t, In t ts -> ~ In t cs) ->
    apply_gate_dm_ctrl K cj n cs ts M (tab2 n g) = sandwich K cj n (cembed K n cs ts M) (tab2 n g).
  Proof.
    intros Hi Hc Hn Ht Hd. rewrite sandwich_cembed by assumption.
    destruct (control_order_spec n cs ts Hi Hc Hn Ht Hd)
      as [rest [ts' [Eco [Hnd [Hlt [Hlen [Hlr [Hcn [Hnr [Hrl [Hcr [Hlt' [Hj [Hm Hnt']]]]]]]]]]]]]].
    assert (Hp : is_perm n (cs ++ rest)) by (repeat split; assumption).
    assert (Hd' : forall x, In x cs -> ~ In x ts) by (intros x Hx Hx'; exact (Hd x Hx' Hx)).
    assert (Hq' : forall q, In q ts' -> q < n - length cs) by (intros q Hq; apply Hj in Hq; lia).
    unfold apply_gate_dm_ctrl. rewrite (control_order_dm_eq cs rest ts ts' n Eco Hlen).
    rewrite dm_ctrl_strings_eq, dm_strings_eq by assumption. cbv beta iota zeta.
    cbn [fst snd einsum2_batch tl].
    unfold tmat. apply tab2_ext. intros r c Hr Hc'.
    replace (2 * n) with (n + n) by lia.
    rewrite (ttranspose_reverse (n + n)) by (now apply dm_perm).
    rewrite (sel_dm_order n cs rest r c Hlt Hr).
    unfold unlead.
    rewrite firstn_app_len, skipn_app_len by apply sel_length.
    rewrite firstn_app_len, skipn_app_len by apply sel_length.
    rewrite !(idx_all1' _ (length cs)) by apply sel_length.
    pose proof (st1_read n cs rest ts ts' g Hp Hlt') as READ.
    pose proof (sel_cs_upd n cs rest ts Hp Hd') as SC.
    pose proof (sel_rest_upd n cs rest ts ts' Hp Hnr Hj Hm) as SR.
    pose proof (sel_ts' rest ts ts' Hj Hm) as ST.
    assert (LR : forall x, length (sel rest x) = n - length cs) by (intros; now rewrite sel_length).
    unfold dm_action, dm_inner.
    destruct (all1 (sel cs r)) eqn:Ar, (all1 (sel cs c)) eqn:Ac; cbn [negb].
    - (* 11 *)
      rewrite einsum_left by auto. rewrite <- Hlt'.
      apply tsum_map_ext. intros s Hs. apply allbits_In in Hs.
      rewrite (mtens_split K _ M (sel ts' (sel rest r)) s) by apply sel_length. rewrite ST, mul_comm. f_equal.
      rewrite einsum_right by (rewrite ?upd_length; auto).
      apply tsum_map_ext. intros s' Hs'. apply allbits_In in Hs'.
      rewrite (mtens_split K _ M (sel ts' (sel rest c)) s') by apply sel_length. rewrite ST, mul_comm. f_equal.
      unfold lead. rewrite bits_ones.
      rewrite (ones_of cs r Ar) at 1. rewrite (ones_of cs c Ac).
      rewrite <- (SC s r Hr), <- (SC s' c Hc'), <- SR, <- SR by assumption.
      apply READ; now rewrite upd_length.
    - (* 10 *)
      rewrite einsum_left by auto. rewrite <- Hlt'.
      apply tsum_map_ext. intros s Hs. apply allbits_In in Hs.
      rewrite (mtens_split K _ M (sel ts' (sel rest r)) s) by apply sel_length. rewrite ST, mul_comm. f_equal.
      unfold lead. rewrite bits_ones, bits_idx by apply sel_length.
      rewrite (ones_of cs r Ar).
      rewrite <- (SC s r Hr), <- SR by assumption.
      apply READ; now rewrite ?upd_length.
    - (* 01 *)
      rewrite einsum_right by auto. rewrite <- Hlt'.
      apply tsum_map_ext. intros s' Hs'. apply allbits_In in Hs'.
      rewrite (mtens_split K _ M (sel ts' (sel rest c)) s') by apply sel_length. rewrite ST, mul_comm. f_equal.
      unfold lead. rewrite bits_ones, bits_idx by apply sel_length.
      rewrite (ones_of cs c Ac).
      rewrite <- (SC s' c Hc'), <- SR by assumption.
      apply READ; now rewrite ?upd_length.
    - (* 00 *)
      unfold lead. rewrite !bits_idx by apply sel_length. now apply READ.
  Qed.

  Theorem dm_ctrl_eq n cs ts M rho :
    incr_from 0 cs -> (forall c, In c cs -> c < n) -> NoDup ts -> (forall t, In t ts -> t < n) ->
    (forall t, In t ts -> ~ In t cs) -> wf_mat n rho ->
    apply_gate_dm_ctrl K cj n cs ts M rho = sandwich K cj n (cembed K n cs ts M) rho.
  Proof. intros Hi Hc Hn Ht Hd Hw. rewrite (wf_tab2 K n rho Hw). now apply dm_ctrl_tab2. Qed.
End DM.
