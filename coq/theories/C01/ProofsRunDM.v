(* C01/ProofsRunDM.v : apply_gate_density_matrix for a gate as qibo stores it, and the
   density-matrix execution loop = U rho U^dagger for the ordered product U. *)
From Coq Require Import List Bool Arith Lia.
From QV Require Import Base.Mat C01.Model C01.Spec C01.Lib C01.ProofsSV C01.ProofsCtrl C01.ProofsMat
  C01.ProofsRun C01.ProofsDM.
Import ListNotations.

Section RunDM.
  Context {T : Type} (K : ops T) (cj : T -> T).
  Hypothesis HK : semiring K.
  Hypothesis HC : conj_ok K cj.
  Local Notation mul_comm := (sr_mul_comm K HK).
  Local Notation mul_assoc := (sr_mul_assoc K HK).
  Local Notation mul_1_l := (sr_mul_1_l K HK).
  Local Notation mul_0_l := (sr_mul_0_l K HK).
  Local Notation tsum := (tsum K).

  Lemma mmul_assoc_tab2 n f g h :
    mmul K (mmul K (tab2 n f) (tab2 n g)) (tab2 n h) = mmul K (tab2 n f) (mmul K (tab2 n g) (tab2 n h)).
  Proof.
    rewrite !(mmul_tab2 K HK). apply tab2_ext. intros r c Hr Hc.
    rewrite (tsum_map_ext K _ (fun k => tsum (map (fun j => mul K (mul K (f r j) (g j k)) (h k c)) (allbits n))))
      by (intros k _; symmetry; apply (tsum_scale_r K HK)).
    rewrite (tsum_swap K HK). apply tsum_map_ext. intros j _.
    rewrite <- (tsum_scale_l K HK). apply tsum_map_ext. intros k _. symmetry. apply mul_assoc.
  Qed.

  Lemma mmul_assoc n A B C : wf_mat n A -> wf_mat n B -> wf_mat n C ->
    mmul K (mmul K A B) C = mmul K A (mmul K B C).
  Proof.
    intros HA HB HC'. rewrite (wf_tab2 K n A HA), (wf_tab2 K n B HB), (wf_tab2 K n C HC').
    apply mmul_assoc_tab2.
  Qed.

  Lemma cj_tsum {A} (f : A -> T) l : cj (tsum (map f l)) = tsum (map (fun x => cj (f x)) l).
  Proof.
    induction l as [|x l IH]; simpl; [apply (cj_zero K cj HC)|]. now rewrite (cj_add K cj HC), IH.
  Qed.

  Lemma madj_wf n A : wf_mat n (madj K cj n A).
  Proof. apply tab2_wf. Qed.

  Lemma madj_mmul n A B : wf_mat n A -> wf_mat n B ->
    madj K cj n (mmul K A B) = mmul K (madj K cj n B) (madj K cj n A).
  Proof.
    intros HA HB. rewrite (wf_tab2 K n A HA), (wf_tab2 K n B HB).
    rewrite (mmul_tab2 K HK), !madj_tab2, (mmul_tab2 K HK). apply tab2_ext. intros r c Hr Hc.
    rewrite cj_tsum. apply tsum_map_ext. intros k _. rewrite (cj_mul K cj HC). apply mul_comm.
  Qed.

  Lemma beqb_sym r c : beqb r c = beqb c r.
  Proof.
    apply eq_true_iff_eq. rewrite !beqb_eq. split; congruence.
  Qed.

  Lemma mmul_id_l n A : wf_mat n A -> mmul K (midentity K n) A = A.
  Proof.
    intros HA. rewrite (wf_tab2 K n A HA). generalize (mentry K A). intros f.
    rewrite midentity_tab2, (mmul_tab2 K HK). apply tab2_ext. intros r c Hr Hc.
    rewrite (tsum_map_ext K _ (fun k => if beqb r k then f k c else zero K)).
    - exact (tsum_delta K HK n (fun k => f k c) r Hr).
    - intros k _. destruct (beqb r k); [apply mul_1_l|apply mul_0_l].
  Qed.

  Lemma mmul_id_r n A : wf_mat n A -> mmul K A (midentity K n) = A.
  Proof.
    intros HA. rewrite (wf_tab2 K n A HA). generalize (mentry K A). intros f.
    rewrite midentity_tab2, (mmul_tab2 K HK). apply tab2_ext. intros r c Hr Hc.
    rewrite (tsum_map_ext K _ (fun k => if beqb c k then f r k else zero K)).
    - exact (tsum_delta K HK n (fun k => f r k) c Hc).
    - intros k _. rewrite beqb_sym. destruct (beqb c k); [apply (mul_1_r K HK)|apply (mul_0_r K HK)].
  Qed.

  Lemma madj_identity n : madj K cj n (midentity K n) = midentity K n.
  Proof.
    rewrite midentity_tab2, madj_tab2. apply tab2_ext. intros r c _ _. rewrite beqb_sym.
    destruct (beqb r c); [apply (cj_one K cj HC)|apply (cj_zero K cj HC)].
  Qed.

  Lemma sandwich_wf n U rho : wf_mat n U -> wf_mat n rho -> wf_mat n (sandwich K cj n U rho).
  Proof. intros HU Hr. unfold sandwich. repeat apply (mmul_wf K HK); auto using madj_wf. Qed.

  Lemma sandwich_identity n rho : wf_mat n rho -> sandwich K cj n (midentity K n) rho = rho.
  Proof.
    intros Hr. unfold sandwich. rewrite madj_identity, mmul_id_r by assumption. now apply mmul_id_l.
  Qed.

  Lemma sandwich_mmul n A B rho : wf_mat n A -> wf_mat n B -> wf_mat n rho ->
    sandwich K cj n (mmul K A B) rho = sandwich K cj n A (sandwich K cj n B rho).
  Proof.
    intros HA HB Hr. unfold sandwich. rewrite madj_mmul by assumption.
    pose proof (madj_wf n A) as HA'. pose proof (madj_wf n B) as HB'.
    rewrite (mmul_assoc n A B) by (auto; repeat apply (mmul_wf K HK); auto).
    f_equal. rewrite <- (mmul_assoc n rho) by auto.
    rewrite <- (mmul_assoc n B) by (auto; apply (mmul_wf K HK); auto).
    reflexivity.
  Qed.

  Theorem apply_gate_dm_eq n g rho : gate_wf n g -> wf_mat n rho ->
    apply_gate_dm K cj n g rho = sandwich K cj n (gate_op K n g) rho.
  Proof.
    destruct g as [[[ctrl cs] ts] M]. intros [Hc [Ht [Hlt Hd]]] Hw. simpl.
    assert (Hcs : forall c, In c (isort cs) -> c < n).
    { intros c Hi. apply Hlt, in_app_iff. left. now apply (proj1 (isort_In _ _)). }
    assert (Hts : forall t, In t ts -> t < n) by (intros t Hi; apply Hlt, in_app_iff; now right).
    destruct ctrl.
    - rewrite <- (cembed_isort K n cs ts M). apply (dm_ctrl_eq K cj HK HC); auto.
      + now apply isort_incr.
      + intros t Hi Hs. apply (proj1 (isort_In _ _)) in Hs. exact (Hd t Hi Hs).
    - apply (dm_plain_eq K cj HK HC); auto.
      + apply NoDup_app_intro; [apply (incr_from_NoDup 0), isort_incr; assumption|assumption|].
        intros x Hx Hx'. apply (proj1 (isort_In _ _)) in Hx. exact (Hd x Hx' Hx).
      + intros q Hq. apply in_app_iff in Hq. destruct Hq; auto.
  Qed.

  Lemma execute_dm_gen n gs : Forall (gate_wf n) gs -> forall U rho0, wf_mat n U -> wf_mat n rho0 ->
    execute_dm K cj n gs (sandwich K cj n U rho0)
    = sandwich K cj n (fold_left (fun U g => mmul K (gate_op K n g) U) gs U) rho0.
  Proof.
    induction gs as [|g gs IH]; intros Hall U rho0 HU Hr; [reflexivity|].
    inversion Hall; subst. simpl.
    rewrite apply_gate_dm_eq by (auto using sandwich_wf).
    rewrite <- sandwich_mmul by (auto using (gate_op_wf K)).
    apply IH; auto. apply (mmul_wf K HK); auto using (gate_op_wf K).
  Qed.

  Theorem execute_dm_eq n gs rho : Forall (gate_wf n) gs -> wf_mat n rho ->
    execute_dm K cj n gs rho = sandwich K cj n (circ_op K n gs) rho.
  Proof.
    intros Hall Hr. unfold circ_op. rewrite <- execute_dm_gen; auto.
    - now rewrite sandwich_identity.
    - rewrite midentity_tab2. apply tab2_wf.
  Qed.
End RunDM.
