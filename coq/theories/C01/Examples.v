(* C01/Examples.v : the Gaussian integers are an instance of the hypotheses of the theorems,
   and concrete instances showing that the hypotheses of every main theorem are satisfiable. *)
From Coq Require Import List Bool Arith Lia ZArith.
From QV Require Import Base.Mat Base.Zi C01.Model C01.Spec C01.Lib C01.ProofsCtrl C01.ProofsMat
  C01.ProofsRun C01.ProofsFused C01.ProofsQueue C01.ProofsDM C01.ProofsDMCor C01.ModelExtra C01.ProofsGram C01.ProofsExtra.
Import ListNotations.

Lemma Zi_semiring : semiring Ziops.
Proof.
  constructor; simpl.
  - apply zi_add_comm.
  - apply zi_add_assoc.
  - apply zi_add_0_l.
  - apply zi_mul_comm.
  - apply zi_mul_assoc.
  - apply zi_mul_1_l.
  - apply zi_mul_0_l.
  - apply zi_mul_add_l.
Qed.

Lemma Zi_conj_ok : conj_ok Ziops zi_conj.
Proof.
  constructor; simpl.
  - reflexivity.
  - reflexivity.
  - apply zi_conj_add.
  - apply zi_conj_mul.
Qed.

Definition ex_M1 : mat Zi := [[(1, 2); (0, -1)]; [(3, 0); (-2, 1)]]%Z.
Definition ex_M2 : mat Zi :=
  [[(1, 0); (0, 1); (2, 0); (0, 0)]; [(0, -1); (1, 1); (0, 0); (3, 0)];
   [(2, 2); (0, 0); (1, 0); (0, 1)]; [(0, 0); (1, -1); (0, 2); (1, 0)]]%Z.
Definition ex_psi : vec Zi := [(1, 0); (0, 1); (2, -1); (0, 0); (1, 1); (-1, 0); (0, 2); (3, 0)]%Z.
Definition ex_rho : mat Zi := tab2 3 (fun r c => (Z.of_nat (idx r) + 1, Z.of_nat (idx c) - Z.of_nat (idx r))%Z).

Ltac fin := simpl; repeat (match goal with
  | |- _ /\ _ => split
  | |- forall _, _ => intro
  | H : _ \/ _ |- _ => destruct H
  | H : False |- _ => destruct H
  | |- NoDup _ => constructor
  | |- Forall _ _ => constructor
  | |- ~ _ => intro
  end; subst; simpl in * ); try lia; try tauto.

(* non-ascending, non-adjacent targets (2,0) on 3 qubits *)
Example ex_plain_hyps :
  NoDup [2; 0] /\ (forall q, In q [2; 0] -> q < 3) /\ length ex_psi = 2 ^ 3.
Proof. fin. Qed.

Example ex_plain_value :
  apply_gate_plain Ziops 3 [2; 0] ex_M2 ex_psi = mvmul Ziops (embed Ziops 3 [2; 0] ex_M2) ex_psi
  /\ apply_gate_plain Ziops 3 [2; 0] ex_M2 ex_psi <> ex_psi.
Proof. split; [vm_compute; reflexivity|vm_compute; discriminate]. Qed.

(* controls (0,2) sorted, target 1 *)
Example ex_ctrl_hyps :
  incr_from 0 [0; 2] /\ (forall c, In c [0; 2] -> c < 3) /\ NoDup [1] /\ (forall t, In t [1] -> t < 3)
  /\ (forall t, In t [1] -> ~ In t [0; 2]) /\ length ex_psi = 2 ^ 3.
Proof. fin. Qed.

Example ex_ctrl_value :
  apply_gate_ctrl Ziops 3 [0; 2] [1] ex_M1 ex_psi = mvmul Ziops (cembed Ziops 3 [0; 2] [1] ex_M1) ex_psi
  /\ apply_gate_ctrl Ziops 3 [0; 2] [1] ex_M1 ex_psi <> ex_psi.
Proof. split; [vm_compute; reflexivity|vm_compute; discriminate]. Qed.

Definition ex_circuit : list (gate (T:=Zi)) :=
  [(true, [2; 0], [1], ex_M1); (false, [], [2; 0], ex_M2); (false, [1], [0], ex_M2)].

Example ex_gates_wf : Forall (gate_wf 3) ex_circuit.
Proof. unfold ex_circuit, gate_wf. fin. Qed.

Example ex_gates_ok : forallb (gate_ok 3) ex_circuit = true.
Proof. reflexivity. Qed.

Example ex_rho_wf : wf_mat 3 ex_rho.
Proof. apply tab2_wf. Qed.

Example ex_dm_value :
  execute_dm Ziops zi_conj 3 ex_circuit ex_rho = sandwich Ziops zi_conj 3 (circ_op Ziops 3 ex_circuit) ex_rho
  /\ execute_dm Ziops zi_conj 3 ex_circuit ex_rho <> ex_rho.
Proof. split; [vm_compute; reflexivity|vm_compute; discriminate]. Qed.

Lemma zi_conj_invol : forall a, zi_conj (zi_conj a) = a.
Proof. intros [a b]. unfold zi_conj. simpl. now rewrite Z.opp_involutive. Qed.

(* a Hermitian rho with complex off-diagonal entries, and a unitary (permutation-like) circuit *)
Definition ex_herm : mat Zi := tab2 2 (fun r c => (Z.of_nat (idx r) + Z.of_nat (idx c), Z.of_nat (idx r) - Z.of_nat (idx c))%Z).
Example ex_herm_ok : hermitian Ziops zi_conj 2 ex_herm /\ wf_mat 2 ex_herm.
Proof. split; [vm_compute; reflexivity|apply tab2_wf]. Qed.

Definition ex_unitary_circuit : list (gate (T:=Zi)) :=
  [(true, [1], [0], [[(0, 0); (0, -1)]; [(0, 1); (0, 0)]]%Z); (false, [], [1], [[(0, 0); (1, 0)]; [(1, 0); (0, 0)]]%Z)].
Example ex_unitary_hyp :
  Forall (gate_wf 2) ex_unitary_circuit /\
  mmul Ziops (madj Ziops zi_conj 2 (circ_op Ziops 2 ex_unitary_circuit)) (circ_op Ziops 2 ex_unitary_circuit) = midentity Ziops 2.
Proof. split; [unfold ex_unitary_circuit, gate_wf; fin|vm_compute; reflexivity]. Qed.

(* a queue with a FusedGate on the non-adjacent subset (0,2) of 3 qubits *)
Definition ex_queue : list (qitem (T:=Zi)) :=
  [QGate (false, [], [1], ex_M1);
   QFused [0; 2] [(false, [], [2; 0], ex_M2); (true, [2], [0], ex_M1); (false, [], [2], ex_M1)];
   QGate (true, [1], [2], ex_M1)].
Example ex_queue_ok : Forall (item_ok 3) ex_queue.
Proof.
  unfold ex_queue, ex_M1, ex_M2.
  repeat (apply Forall_cons || apply Forall_nil);
    unfold item_ok, member_ok, gate_wf, gate_shape_ok, shape, gate_qubits; simpl; fin.
Qed.
Example ex_queue_value :
  mvmul Ziops (unitary_queue Ziops 3 ex_queue) ex_psi = execute_queue Ziops 3 ex_queue ex_psi
  /\ execute_queue Ziops 3 ex_queue ex_psi <> ex_psi.
Proof. split; [vm_compute; reflexivity|vm_compute; discriminate]. Qed.

(* Gram forms: a mixed, non-Hermitian combination of two rank-one terms on 3 qubits *)
Definition ex_phi : vec Zi := [(0, 1); (1, 0); (0, 0); (2, 1); (1, -1); (0, 0); (3, 0); (0, -2)]%Z.
Definition ex_terms : list (term (T:=Zi)) := [((2, 0)%Z, ex_psi, ex_psi); ((1, 1)%Z, ex_phi, ex_psi)].
Example ex_terms_ok : Forall (term_ok 3) ex_terms.
Proof. repeat constructor. Qed.
Example ex_gram_value :
  execute_dm Ziops zi_conj 3 ex_circuit (gram Ziops zi_conj 3 ex_terms)
  = gram Ziops zi_conj 3 (map (map_term (execute Ziops 3 ex_circuit) (execute Ziops 3 ex_circuit)) ex_terms)
  /\ gram Ziops zi_conj 3 ex_terms <> madj Ziops zi_conj 3 (gram Ziops zi_conj 3 ex_terms)
  /\ ex_rho = gram Ziops zi_conj 3 (gram_of Ziops 3 ex_rho).
Proof. repeat split; try (vm_compute; reflexivity). vm_compute. discriminate. Qed.

(* default initial state and a queue with a FusedGate in density-matrix mode *)
Example ex_default_value :
  execute_circuit_dm Ziops zi_conj 3 ex_circuit (DInitNone)
  = option_map (fun psi => outer Ziops zi_conj 3 psi psi) (execute_circuit Ziops 3 ex_circuit (InitNone))
  /\ execute_circuit Ziops 3 ex_circuit (InitArray [(1, 0)%Z]) = None
  /\ execute_dm_queue Ziops zi_conj 3 ex_queue ex_rho
     = sandwich Ziops zi_conj 3 (circ_op Ziops 3 (flatten ex_queue)) ex_rho.
Proof. repeat split; vm_compute; reflexivity. Qed.
