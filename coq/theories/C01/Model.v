(* C01/Model.v : executable Gallina models (no proofs here) of
     qibo/backends/einsum_utils.py   prepare_strings, apply_gate_string,
                                     apply_gate_density_matrix_string,
                                     apply_gate_density_matrix_controlled_string,
                                     control_order, control_order_density_matrix, reverse_order
     qibo/backends/numpy.py          apply_gate (both branches), apply_gate_density_matrix (both
                                     branches), apply_gate_half_density_matrix, matrix_fused,
                                     the two loops of execute_circuit
     qibo/models/circuit.py          Circuit.unitary
   together with the small part of numpy they rely on (mini-numpy, trusted, validated on every run
   by the exact correspondence of harness/c01.py and harness/c02.py):

   * an array whose axes all have dimension 2 is a function from bit lists (one bit per axis) to
     the carrier ("tensor");  reshape between (2^n,) / (2^n,2^n) and (2,)*n / (2,)*2n is
     row-major = big-endian bits, qubit 0 first (Base/Mat.idx, allbits);
   * an axis of dimension 2^m obtained by a row-major reshape of m bit axes is addressed by the
     natural number  idx bits  (lead / unlead);
   * einsum of two operands over label lists (labels are positions in config.EINSUM_CHARS):
        out[o] = sum over assignments of the labels that are not in the output of a[..] * b[..];
   * transpose: out[b] = in[b'] with b'[order[i]] = b[i].                                  *)
From Coq Require Import List Bool Arith Lia.
From QV Require Import Base.Mat.
Import ListNotations.

(* ------------------------------------------------------------------ list helpers *)
Fixpoint set_nth {A : Type} (i : nat) (x : A) (l : list A) : list A :=
  match l, i with
  | [], _ => []
  | _ :: t, O => x :: t
  | h :: t, S i' => h :: set_nth i' x t
  end.

(* first position of j in l (length l when absent) *)
Fixpoint index_of (j : nat) (l : list nat) : nat :=
  match l with [] => 0 | h :: t => if Nat.eqb h j then 0 else S (index_of j t) end.

Definition memb (l : nat) (ls : list nat) : bool := existsb (Nat.eqb l) ls.

(* keep first occurrences, in order *)
Fixpoint dedup (ls : list nat) : list nat :=
  match ls with [] => [] | l :: r => l :: filter (fun x => negb (Nat.eqb x l)) (dedup r) end.

Fixpoint nodupb (ls : list nat) : bool :=
  match ls with [] => true | l :: r => negb (memb l r) && nodupb r end.

Fixpoint insert (x : nat) (l : list nat) : list nat :=
  match l with [] => [x] | h :: t => if x <=? h then x :: l else h :: insert x t end.
Definition isort (l : list nat) : list nat := fold_right insert [] l.   (* python sorted() *)

Definition all1 (b : list bool) : bool := forallb (fun x => x) b.
Definition bits (n i : nat) : list bool := nth i (allbits n) (repeat false n).

(* ------------------------------------------------------------------ einsum_utils.py *)
(* labels are natural numbers: label l stands for EINSUM_CHARS[l].  The real code raises
   NotImplementedError when it runs out of the 52 characters (state vectors: n + k > 52,
   density matrices: 2n + k (+1) > 52); [enough_chars] is that test. *)
Definition einsum_chars : nat := 52.

(* returns (inp, out, trans, start of rest) *)
Definition prepare_strings (qubits : list nat) (n : nat) : list nat * list nat * list nat * nat :=
  let inp := seq 0 n in
  let k := length qubits in
  let step := fun (acc : list nat * list nat) (iq : nat * nat) =>
    let '(trans, out) := acc in
    let '(i, q) := iq in
    let trans' := trans ++ [nth q inp 0] in            (* trans.append(inp[q]) *)
    (trans', set_nth q (nth i trans' 0) out) in        (* out[q] = trans[i]     *)
  let '(trans, out) := fold_left step (combine (seq 0 k) qubits) (seq n k, inp) in
  (inp, out, trans, n + k).

(* an einsum string "a,b->o" is the triple (a, b, o) *)
Definition estring := (list nat * list nat * list nat)%type.

Definition apply_gate_string (qubits : list nat) (n : nat) : estring :=
  let '(inp, out, trans, _) := prepare_strings qubits n in (inp, trans, out).

(* (sleft, sright) *)
Definition apply_gate_density_matrix_string (qubits : list nat) (n : nat) : estring * estring :=
  let '(inp, out, trans, rest) := prepare_strings qubits n in
  let trest := seq rest n in
  ((inp ++ trest, trans, out ++ trest), (trest ++ inp, trans, trest ++ out)).

Definition apply_gate_density_matrix_controlled_string (qubits : list nat) (n : nat) : estring * estring :=
  let '(inp, out, trans, rest) := prepare_strings qubits n in
  let trest := seq rest n in
  let c := rest + n in
  ((c :: inp ++ trest, trans, c :: out ++ trest), (c :: trest ++ inp, trans, c :: trest ++ out)).

Definition enough_chars (dm ctrl : bool) (k n : nat) : bool :=
  if dm then (n + k + n + (if ctrl then 1 else 0) <=? einsum_chars) else (n + k <=? einsum_chars).

(* control_order(gate, nqubits): cs = gate.control_qubits (sorted), ts = gate.target_qubits *)
Fixpoint control_order_loop (cs ts0 : list nat) (loop_start : nat) (order targets : list nat) (n : nat)
  : list nat * list nat :=
  match cs with
  | [] => (order ++ seq loop_start (n - loop_start), targets)
  | c :: cs' =>
      control_order_loop cs' ts0 (c + 1) (order ++ seq loop_start (c - loop_start))
        (map (fun tt : nat * nat => if c <? fst tt then snd tt - 1 else snd tt)
             (combine ts0 targets)) n
  end.
Definition control_order (cs ts : list nat) (n : nat) : list nat * list nat :=
  control_order_loop cs ts 0 cs ts n.

Definition control_order_density_matrix (cs ts : list nat) (n : nat) : list nat * list nat :=
  let ncontrol := length cs in
  let '(order, targets) := control_order cs ts n in
  let additional := map (fun x => x + length order) order in
  (firstn ncontrol order ++ firstn ncontrol additional ++ skipn ncontrol order ++ skipn ncontrol additional,
   targets).

Definition reverse_order (order : list nat) : list nat :=
  fold_left (fun ro (ir : nat * nat) => set_nth (snd ir) (fst ir) ro)
            (combine (seq 0 (length order)) order) (repeat 0 (length order)).

(* ------------------------------------------------------------------ mini-numpy over a carrier *)
Section Exec.
  Context {T : Type} (K : ops T) (cj : T -> T).

  Definition tensor := list bool -> T.
  Definition tsum (l : list T) : T := fold_right (add K) (zero K) l.

  (* reshapes *)
  Definition vtens (v : vec T) : tensor := fun b => nth (idx b) v (zero K).
  Definition tvec (n : nat) (t : tensor) : vec T := map t (allbits n).
  Definition mtens (n : nat) (M : mat T) : tensor :=
    fun x => mget K M (idx (firstn n x)) (idx (skipn n x)).
  Definition tmat (n : nat) (t : tensor) : mat T :=
    map (fun r => map (fun c => t (r ++ c)) (allbits n)) (allbits n).
  (* leading axis of dimension 2^m <-> m bit axes *)
  Definition lead (m : nat) (t : tensor) (i : nat) : tensor := fun y => t (bits m i ++ y).
  Definition unlead (m : nat) (f : nat -> tensor) : tensor :=
    fun x => f (idx (firstn m x)) (skipn m x).

  Fixpoint lookup (e : list (nat * bool)) (l : nat) : bool :=
    match e with [] => false | kv :: e' => if Nat.eqb (fst kv) l then snd kv else lookup e' l end.

  Definition summed_labels (la lb lo : list nat) : list nat :=
    dedup (filter (fun l => negb (memb l lo)) (lb ++ la)).

  (* numpy rejects an output label that is repeated or occurs in no operand *)
  Definition einsum_ok (s : estring) : bool :=
    let '(la, lb, lo) := s in nodupb lo && forallb (fun l => memb l (la ++ lb)) lo.

  Definition einsum2 (s : estring) (a b : tensor) : tensor :=
    let '(la, lb, lo) := s in
    let sl := summed_labels la lb lo in
    fun o =>
      tsum (map (fun sv => let e := combine sl sv ++ combine lo o in
                           mul K (a (map (lookup e) la)) (b (map (lookup e) lb)))
                (allbits (length sl))).

  (* a label that is the first one of operand 1 and of the output and occurs nowhere else is a
     pass-through (batch) axis; it may have any dimension (here 2^ncontrol - 1) *)
  Definition batch_ok (s : estring) : bool :=
    let '(la, lb, lo) := s in
    match la, lo with
    | c :: la', c' :: lo' => Nat.eqb c c' && negb (memb c (la' ++ lb ++ lo'))
    | _, _ => false
    end.
  Definition einsum2_batch (s : estring) (a : nat -> tensor) (b : tensor) : nat -> tensor :=
    let '(la, lb, lo) := s in fun c => einsum2 (tl la, lb, tl lo) (a c) b.

  Definition ttranspose (order : list nat) (t : tensor) : tensor :=
    fun b => t (map (fun j => nth (index_of j order) b false) (seq 0 (length order))).

  Definition eye (d : nat) : mat T :=
    map (fun i => map (fun j => if Nat.eqb i j then one K else zero K) (seq 0 d)) (seq 0 d).
  (* scipy.linalg.block_diag(A, B) *)
  Definition block_diag (A B : mat T) : mat T :=
    map (fun r => r ++ repeat (zero K) (length (hd [] B))) A
    ++ map (fun r => repeat (zero K) (length (hd [] A)) ++ r) B.
  Definition argsort (l : list nat) : list nat := map (fun v => index_of v l) (isort l).

  Definition shape_ok (d : nat) (M : mat T) : bool :=
    Nat.eqb (length M) d && forallb (fun r => Nat.eqb (length r) d) M.

  (* ---------------------------------------------------------------- numpy.py apply_gate *)
  Definition apply_gate_plain (n : nat) (qs : list nat) (M : mat T) (state : vec T) : vec T :=
    let st := vtens state in                                 (* reshape(state, n*(2,)) *)
    let mt := mtens (length qs) M in                          (* reshape(matrix, 2k*(2,)) *)
    tvec n (einsum2 (apply_gate_string qs n) st mt).

  Definition apply_gate_ctrl (n : nat) (cs ts : list nat) (M : mat T) (state : vec T) : vec T :=
    let st := vtens state in
    let mt := mtens (length ts) M in
    let ncontrol := length cs in
    let nactive := n - ncontrol in
    let '(order, targets) := control_order cs ts n in
    let st1 := ttranspose order st in
    (* reshape to (2^ncontrol,) + nactive*(2,) *)
    let N := 2 ^ ncontrol in
    let updates := einsum2 (apply_gate_string targets nactive) (lead ncontrol st1 (N - 1)) mt in
    (* concatenate([state[:-1], updates[None]], axis=0); reshape to n*(2,) *)
    let st2 := unlead ncontrol (fun i => if i <? N - 1 then lead ncontrol st1 i else updates) in
    tvec n (ttranspose (reverse_order order) st2).

  (* ---------------------------------------------------------------- density matrices *)
  Definition apply_gate_dm_plain (n : nat) (qs : list nat) (M : mat T) (rho : mat T) : mat T :=
    let st := mtens n rho in
    let mt := mtens (length qs) M in
    let mtc : tensor := fun x => cj (mt x) in
    let '(sleft, sright) := apply_gate_density_matrix_string qs n in
    let st := einsum2 sright st mtc in
    let st := einsum2 sleft st mt in
    tmat n st.

  Definition apply_gate_half_dm (n : nat) (qs : list nat) (M : mat T) (rho : mat T) : mat T :=
    let st := mtens n rho in
    let mt := mtens (length qs) M in
    let '(sleft, _) := apply_gate_density_matrix_string qs n in
    tmat n (einsum2 sleft st mt).

  Definition apply_gate_dm_ctrl (n : nat) (cs ts : list nat) (M : mat T) (rho : mat T) : mat T :=
    let st := mtens n rho in
    let mt := mtens (length ts) M in
    let mtc : tensor := fun x => cj (mt x) in
    let ncontrol := length cs in
    let nactive := n - ncontrol in
    let N := 2 ^ ncontrol in
    let '(order, targets) := control_order_density_matrix cs ts n in
    let st1 := ttranspose order st in
    (* reshape to 2*(N,) + 2*nactive*(2,) : blk i j = state[i, j] *)
    let blk := fun i j => lead ncontrol (lead ncontrol st1 i) j in
    let '(leftc, rightc) := apply_gate_density_matrix_controlled_string targets nactive in
    let state01 := einsum2_batch rightc (fun c => blk c (N - 1)) mtc in   (* state[:N-1, N-1] *)
    let state10 := einsum2_batch leftc (fun c => blk (N - 1) c) mt in     (* state[N-1, :N-1] *)
    let '(sleft, sright) := apply_gate_density_matrix_string targets nactive in
    let state11 := einsum2 sright (blk (N - 1) (N - 1)) mtc in
    let state11 := einsum2 sleft state11 mt in
    let state00 := blk in                                    (* rows and columns range(N-1) *)
    (* concatenate([state00, state01[:, None]], axis=1) *)
    let state01' := fun i j => if j <? N - 1 then state00 i j else state01 i in
    (* concatenate([state10, state11[None]], axis=0) *)
    let state10' := fun j => if j <? N - 1 then state10 j else state11 in
    (* concatenate([state01, state10[None]], axis=0); reshape to 2n*(2,) *)
    let st2 := unlead ncontrol (fun i => unlead ncontrol (fun j =>
                 if i <? N - 1 then state01' i j else state10' j)) in
    tmat n (ttranspose (reverse_order order) st2).

  (* ---------------------------------------------------------------- gates and circuits *)
  (* (is_controlled_by, _control_qubits as given, target_qubits, gate.matrix()) *)
  Definition gate := (bool * list nat * list nat * mat T)%type.

  Definition gate_ok (n : nat) (g : gate) : bool :=
    let '(ctrl, cs, ts, M) := g in
    nodupb ts && nodupb cs && nodupb (cs ++ ts) && forallb (fun q => q <? n) (cs ++ ts)
    && (if ctrl then negb (Nat.eqb (length cs) 0) else true)
    && shape_ok (2 ^ (if ctrl then length ts else length (cs ++ ts))) M.

  Definition apply_gate (n : nat) (g : gate) (state : vec T) : vec T :=
    let '(ctrl, cs0, ts, M) := g in
    let cs := isort cs0 in                                    (* Gate.control_qubits *)
    if ctrl then apply_gate_ctrl n cs ts M state
    else apply_gate_plain n (cs ++ ts) M state.               (* Gate.qubits *)

  Definition apply_gate_dm (n : nat) (g : gate) (rho : mat T) : mat T :=
    let '(ctrl, cs0, ts, M) := g in
    let cs := isort cs0 in
    if ctrl then apply_gate_dm_ctrl n cs ts M rho
    else apply_gate_dm_plain n (cs ++ ts) M rho.

  Definition execute (n : nat) (gs : list gate) (state : vec T) : vec T :=
    fold_left (fun s g => apply_gate n g s) gs state.
  Definition execute_dm (n : nat) (gs : list gate) (rho : mat T) : mat T :=
    fold_left (fun s g => apply_gate_dm n g s) gs rho.

  (* ---------------------------------------------------------------- matrix_fused / unitary *)
  (* fq = fgate.target_qubits (sorted) *)
  Definition fused_gate_matrix (fq : list nat) (g : gate) : mat T :=
    let rank := length fq in
    let '(_, cs0, ts, M) := g in
    let cs := isort cs0 in
    let qubits := cs ++ ts in
    let gm := if 0 <? length cs
              then block_diag (eye (2 ^ length qubits - length M)) M else M in
    let gm := kron K gm (eye (2 ^ (rank - length qubits))) in
    let t := mtens rank gm in                                 (* reshape 2*rank*(2,) *)
    let indices := argsort (qubits ++ filter (fun q => negb (memb q qubits)) fq) in
    let t := ttranspose (indices ++ map (fun i => i + rank) indices) t in
    tmat rank t.

  Definition matrix_fused (fq : list nat) (gs : list gate) : mat T :=
    fold_left (fun m g => mmul K (fused_gate_matrix fq g) m) gs (eye (2 ^ length fq)).

  Definition unitary (n : nat) (gs : list gate) : mat T := matrix_fused (seq 0 n) gs.

  (* ---------------------------------------------------------------- queues that contain FusedGates *)
  (* the queue of a circuit returned by Circuit.fuse: elementary gates and
     FusedGate(target_qubits (sorted), gates) *)
  Inductive qitem : Type := QGate (g : gate) | QFused (fq : list nat) (gs : list gate).

  (* FusedGate.apply = apply_gate with matrix_fused(fgate) on fgate.target_qubits, not controlled *)
  Definition apply_item (n : nat) (it : qitem) (state : vec T) : vec T :=
    match it with
    | QGate g => apply_gate n g state
    | QFused fq gs => apply_gate_plain n fq (matrix_fused fq gs) state
    end.
  Definition execute_queue (n : nat) (q : list qitem) (state : vec T) : vec T :=
    fold_left (fun s it => apply_item n it s) q state.

  (* Circuit.unitary (after repair 93eb16277):
       `elif isinstance(gate, gates.FusedGate) or not isinstance(gate, (gates.SpecialGate, gates.M)):
            fgate.append(gate)`
     and FusedGate.append of a FusedGate extends the member list with that gate's members *)
  Definition unitary_queue (n : nat) (q : list qitem) : mat T :=
    matrix_fused (seq 0 n)
      (flat_map (fun it => match it with QGate g => [g] | QFused _ gs => gs end) q).

  (* historical: before the repair every SpecialGate, FusedGate included, was skipped *)
  Definition unitary_queue_skipping (n : nat) (q : list qitem) : mat T :=
    matrix_fused (seq 0 n)
      (flat_map (fun it => match it with QGate g => [g] | QFused _ _ => [] end) q).
End Exec.
