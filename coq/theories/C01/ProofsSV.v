(* C01/ProofsSV.v : the einsum strings of prepare_strings implement the textbook action of a
   matrix on the named qubits; apply_gate (plain branch) = embed-spec applied to the state. *)
From Coq Require Import List Bool Arith Lia.
From QV Require Import Base.Mat C01.Model C01.Spec C01.Lib.
Import ListNotations.

(* ------------------------------------------------------------------ prepare_strings in closed form *)
Definition out_of (qs : list nat) (n : nat) : list nat :=
  map (fun l => if memb l qs then n + index_of l qs else l) (seq 0 n).

Definition prep_step (n : nat) := fun (acc : list nat * list nat) (iq : nat * nat) =>
  let '(trans, out) := acc in
  let '(i, q) := iq in
  let trans' := trans ++ [nth q (seq 0 n) 0] in
  (trans', set_nth q (nth i trans' 0) out).

Lemma prep_fold n qs : NoDup qs -> (forall q, In q qs -> q < n) ->
  forall todo done, qs = done ++ todo ->
  fold_left (prep_step n) (combine (seq (length done) (length todo)) todo)
    (seq n (length qs) ++ done,
     map (fun l => if memb l done then n + index_of l qs else l) (seq 0 n))
  = (seq n (length qs) ++ qs, out_of qs n).
Proof.
  intros Hn Hq. induction todo as [|q todo IH]; intros done E.
  - rewrite app_nil_r in E. subst done. reflexivity.
  - simpl length. simpl seq. simpl combine. simpl fold_left.
    assert (Hqn : q < n) by (apply Hq; rewrite E; apply in_app_iff; right; now left).
    assert (Hqd : ~ In q done).
    { rewrite E in Hn. intros Hi. apply (NoDup_app_disj _ _ _ Hn Hi). now left. }
    assert (Hlen : length done < length qs) by (rewrite E, app_length; simpl; lia).
    rewrite seq_nth by assumption. simpl plus.
    rewrite <- app_assoc.
    replace (nth (length done) (seq n (length qs) ++ done ++ [q]) 0) with (n + length done)
      by (rewrite app_nth1 by (rewrite seq_length; lia); now rewrite seq_nth).
    specialize (IH (done ++ [q])). rewrite app_length in IH. simpl in IH.
    rewrite Nat.add_1_r in IH. rewrite <- IH by (rewrite <- app_assoc; exact E).
    f_equal. f_equal.
    apply nth_ext with (d := 0) (d' := 0); [now rewrite set_nth_length, !map_length|].
    intros j Hj. rewrite set_nth_length, map_length, seq_length in Hj.
    rewrite nth_set_nth, map_length, seq_length, !nth_map_seq by assumption.
    rewrite memb_app. simpl. rewrite orb_false_r.
    destruct (Nat.eqb_spec q j) as [<-|Hne]; simpl.
    + replace (q <? n) with true by (symmetry; now apply Nat.ltb_lt). rewrite Nat.eqb_refl, orb_true_r.
      rewrite E, index_of_app_r by assumption. simpl. rewrite Nat.eqb_refl. lia.
    + rewrite (proj2 (Nat.eqb_neq j q)) by congruence. now rewrite orb_false_r.
Qed.

Lemma prepare_strings_eq qs n : NoDup qs -> (forall q, In q qs -> q < n) ->
  prepare_strings qs n = (seq 0 n, out_of qs n, seq n (length qs) ++ qs, n + length qs).
Proof.
  intros Hn Hq. unfold prepare_strings. fold (prep_step n).
  pose proof (prep_fold n qs Hn Hq qs [] eq_refl) as H. simpl in H.
  rewrite app_nil_r in H.
  replace (map (fun l => l) (seq 0 n)) with (seq 0 n) in H by (symmetry; apply map_id).
  rewrite H. reflexivity.
Qed.

Lemma out_of_length qs n : length (out_of qs n) = n.
Proof. unfold out_of. now rewrite map_length, seq_length. Qed.

Lemma nth_out_of qs n l : l < n -> nth l (out_of qs n) 0 = if memb l qs then n + index_of l qs else l.
Proof. intros H. unfold out_of. now rewrite nth_map_seq. Qed.

Lemma out_of_bound qs n x : (forall q, In q qs -> q < n) -> In x (out_of qs n) -> x < n + length qs.
Proof.
  intros Hq. unfold out_of. rewrite in_map_iff. intros [l [<- Hl]]. apply in_seq in Hl.
  destruct (memb l qs) eqn:M; [|lia]. apply memb_In, index_of_lt in M. lia.
Qed.

Lemma out_of_NoDup qs n : NoDup qs -> (forall q, In q qs -> q < n) -> NoDup (out_of qs n).
Proof.
  intros Hn Hq. unfold out_of. apply NoDup_map_inj; [|apply seq_NoDup].
  intros x y Hx Hy. apply in_seq in Hx. apply in_seq in Hy.
  destruct (memb x qs) eqn:Mx, (memb y qs) eqn:My; try lia.
  intros E. assert (E' : index_of x qs = index_of y qs) by lia.
  apply memb_In in Mx. apply memb_In in My.
  rewrite <- (nth_index_of x qs 0 Mx), <- (nth_index_of y qs 0 My). now rewrite E'.
Qed.

(* ------------------------------------------------------------------ small list facts *)
Lemma nth_app3_1 {A} (a b c : list A) j d : j < length a -> nth j (a ++ b ++ c) d = nth j a d.
Proof. intros. now rewrite app_nth1. Qed.
Lemma nth_app3_2 {A} (a b c : list A) j d : j < length b -> nth (length a + j) (a ++ b ++ c) d = nth j b d.
Proof.
  intros. rewrite app_nth2 by lia. replace (length a + j - length a) with j by lia. now rewrite app_nth1.
Qed.
Lemma nth_app3_3 {A} (a b c : list A) j d : nth (length a + length b + j) (a ++ b ++ c) d = nth j c d.
Proof.
  rewrite app_nth2 by lia. replace (length a + length b + j - length a) with (length b + j) by lia.
  rewrite app_nth2 by lia. f_equal. lia.
Qed.

Lemma firstn_app_len {A} (a b : list A) k : length a = k -> firstn k (a ++ b) = a.
Proof. intros <-. rewrite firstn_app, Nat.sub_diag, firstn_all. simpl. apply app_nil_r. Qed.
Lemma skipn_app_len {A} (a b : list A) k : length a = k -> skipn k (a ++ b) = b.
Proof. intros <-. rewrite skipn_app, Nat.sub_diag, skipn_all. reflexivity. Qed.

Lemma map_nth_seq {A} (v : list A) d : map (fun i => nth i v d) (seq 0 (length v)) = v.
Proof.
  apply nth_ext with (d := d) (d' := d); [now rewrite map_length, seq_length|].
  intros i Hi. rewrite map_length, seq_length in Hi. now rewrite nth_map_seq.
Qed.

(* ------------------------------------------------------------------ environments *)
Section EinsumGate.
  Context {T : Type} (K : ops T).
  Hypothesis HK : semiring K.
  Local Notation add_comm := (sr_add_comm K HK).
  Local Notation add_assoc := (sr_add_assoc K HK).
  Local Notation add_0_l := (sr_add_0_l K HK).
  Local Notation mul_comm := (sr_mul_comm K HK).
  Local Notation mul_assoc := (sr_mul_assoc K HK).
  Local Notation mul_1_l := (sr_mul_1_l K HK).
  Local Notation mul_0_l := (sr_mul_0_l K HK).
  Local Notation mul_add_l := (sr_mul_add_l K HK).

  Lemma lookup_app e1 e2 l :
    lookup (e1 ++ e2) l = if memb l (map fst e1) then lookup e1 l else lookup e2 l.
  Proof.
    induction e1 as [|[k v] e1 IH]; simpl; [reflexivity|].
    rewrite (Nat.eqb_sym l k). destruct (Nat.eqb k l); simpl; [reflexivity|apply IH].
  Qed.

  Lemma map_fst_combine {A B} (ls : list A) (vs : list B) : length ls = length vs -> map fst (combine ls vs) = ls.
  Proof.
    revert vs. induction ls as [|h t IH]; intros [|v vs] H; simpl in *; try discriminate; [reflexivity|].
    f_equal. apply IH. lia.
  Qed.

  Lemma lookup_combine_index ls : forall vs l, length vs = length ls -> In l ls ->
    lookup (combine ls vs) l = nth (index_of l ls) vs false.
  Proof.
    induction ls as [|h t IH]; intros [|v vs] l Hl Hi; simpl in *; try discriminate; [tauto|].
    destruct (Nat.eqb_spec h l); [reflexivity|]. apply IH; [lia|]. destruct Hi; [contradiction|assumption].
  Qed.

  Lemma lookup_combine_nth ls vs i : NoDup ls -> i < length ls -> length vs = length ls ->
    lookup (combine ls vs) (nth i ls 0) = nth i vs false.
  Proof.
    intros Hn Hi Hl. rewrite lookup_combine_index by (auto using nth_In). now rewrite index_of_nth.
  Qed.

  (* ---------------------------------------------------------------- the einsum of a gate string *)
  Section Strings.
    Variables (n : nat) (qs pre post : list nat).
    Hypothesis Hn : NoDup qs.
    Hypothesis Hq : forall x, In x qs -> x < n.
    Hypothesis Hpp : NoDup (pre ++ post).
    Hypothesis Hge : forall l, In l (pre ++ post) -> n + length qs <= l.

    Let k := length qs.
    Let lo := pre ++ out_of qs n ++ post.
    Let la := pre ++ seq 0 n ++ post.
    Let lb := seq n k ++ qs.

    Lemma pre_ge l : In l pre -> n + k <= l.
    Proof. intros H. apply Hge. apply in_app_iff. now left. Qed.
    Lemma post_ge l : In l post -> n + k <= l.
    Proof. intros H. apply Hge. apply in_app_iff. now right. Qed.

    Lemma lo_NoDup : NoDup lo.
    Proof.
      unfold lo. apply NoDup_app_intro; [now apply NoDup_app_l in Hpp| |].
      - apply NoDup_app_intro; [now apply out_of_NoDup|now apply NoDup_app_r in Hpp|].
        intros x Hx Hp. apply out_of_bound in Hx; [|assumption]. apply post_ge in Hp. unfold k in Hp. lia.
      - intros x Hx Hi. apply in_app_iff in Hi. destruct Hi as [Hi|Hi].
        + apply out_of_bound in Hi; [|assumption]. apply pre_ge in Hx. unfold k in Hx. lia.
        + exact (NoDup_app_disj _ _ _ Hpp Hx Hi).
    Qed.

    Lemma lo_length : length lo = length pre + n + length post.
    Proof. unfold lo. rewrite !app_length, out_of_length. lia. Qed.

    (* which labels are output labels *)
    Lemma new_in_lo i : i < k -> memb (n + i) lo = true.
    Proof.
      intros Hi. apply memb_In. unfold lo. rewrite !in_app_iff. right. left.
      unfold out_of. apply in_map_iff. exists (nth i qs 0).
      assert (In (nth i qs 0) qs) by (now apply nth_In).
      split; [|apply in_seq; split; [lia|simpl; now apply Hq]].
      replace (memb (nth i qs 0) qs) with true by (symmetry; now apply memb_In).
      now rewrite index_of_nth.
    Qed.

    Lemma old_in_lo l : l < n -> memb l lo = negb (memb l qs).
    Proof.
      intros Hl. unfold lo. rewrite !memb_app.
      replace (memb l pre) with false
        by (symmetry; apply memb_false; intros H; apply pre_ge in H; lia).
      replace (memb l post) with false
        by (symmetry; apply memb_false; intros H; apply post_ge in H; lia).
      rewrite orb_false_r. simpl. destruct (memb l qs) eqn:M; simpl.
      - apply memb_false. unfold out_of. rewrite in_map_iff. intros [x [E Hx]].
        destruct (memb x qs) eqn:Mx; [lia|]. subst x. congruence.
      - apply memb_In. unfold out_of. apply in_map_iff. exists l. rewrite M.
        split; [reflexivity|apply in_seq; lia].
    Qed.

    Lemma summed_eq : summed_labels la lb lo = qs.
    Proof.
      unfold summed_labels, la, lb. rewrite !filter_app.
      rewrite (filter_nil _ (seq n k)).
      2:{ intros x Hx. apply in_seq in Hx. apply negb_false_iff.
          replace x with (n + (x - n)) by lia. apply new_in_lo. lia. }
      rewrite (filter_id _ qs).
      2:{ intros x Hx. rewrite old_in_lo by auto. rewrite negb_involutive. now apply memb_In. }
      rewrite (filter_nil _ pre).
      2:{ intros x Hx. apply negb_false_iff, memb_In. unfold lo. apply in_app_iff. now left. }
      rewrite (filter_nil _ post).
      2:{ intros x Hx. apply negb_false_iff, memb_In. unfold lo. rewrite !in_app_iff. right. now right. }
      simpl. rewrite app_nil_r. apply dedup_app_absorb; [assumption|].
      intros x Hx. apply filter_In in Hx. destruct Hx as [Hx Hf]. apply in_seq in Hx.
      rewrite old_in_lo in Hf by lia. rewrite negb_involutive in Hf. now apply memb_In.
    Qed.

    (* positions of the labels inside lo *)
    Lemma lo_pre j : j < length pre -> nth j lo 0 = nth j pre 0.
    Proof. intros. unfold lo. now apply nth_app3_1. Qed.
    Lemma lo_mid j : j < n -> nth (length pre + j) lo 0 = if memb j qs then n + index_of j qs else j.
    Proof.
      intros. unfold lo. rewrite nth_app3_2 by (now rewrite out_of_length). now apply nth_out_of.
    Qed.
    Lemma lo_post j : nth (length pre + n + j) lo 0 = nth j post 0.
    Proof.
      unfold lo. rewrite <- (out_of_length qs n) at 1. apply nth_app3_3.
    Qed.

    Section Env.
      Variables (s p o q : list bool).
      Hypothesis Hs : length s = k.
      Hypothesis Hp : length p = length pre.
      Hypothesis Ho : length o = n.
      Hypothesis Hqq : length q = length post.
      Let vals := p ++ o ++ q.
      Let e := combine qs s ++ combine lo vals.

      Lemma vals_length : length vals = length lo.
      Proof. unfold vals. rewrite lo_length, !app_length. lia. Qed.

      Lemma env_qs l : In l qs -> lookup e l = nth (index_of l qs) s false.
      Proof.
        intros H. unfold e. rewrite lookup_app, map_fst_combine by (now rewrite Hs).
        replace (memb l qs) with true by (symmetry; now apply memb_In).
        now apply lookup_combine_index.
      Qed.

      Lemma env_lo j : j < length lo -> ~ In (nth j lo 0) qs -> lookup e (nth j lo 0) = nth j vals false.
      Proof.
        intros Hj Hni. unfold e. rewrite lookup_app, map_fst_combine by (now rewrite Hs).
        replace (memb (nth j lo 0) qs) with false by (symmetry; now apply memb_false).
        apply lookup_combine_nth; [apply lo_NoDup|assumption|apply vals_length].
      Qed.

      Lemma env_pre : map (lookup e) pre = p.
      Proof.
        apply bool_list_ext; [now rewrite map_length|]. intros j Hj. rewrite map_length in Hj.
        rewrite (nth_map_d _ _ _ _ 0) by assumption. rewrite <- lo_pre by assumption.
        rewrite env_lo.
        - unfold vals. apply nth_app3_1. lia.
        - rewrite lo_length. lia.
        - rewrite lo_pre by assumption. intros H. apply Hq in H.
          assert (n + k <= nth j pre 0) by (apply pre_ge, nth_In; assumption). lia.
      Qed.

      Lemma env_post : map (lookup e) post = q.
      Proof.
        apply bool_list_ext; [now rewrite map_length|]. intros j Hj. rewrite map_length in Hj.
        rewrite (nth_map_d _ _ _ _ 0) by assumption. rewrite <- lo_post.
        rewrite env_lo.
        - unfold vals. rewrite <- Hp, <- Ho. apply nth_app3_3.
        - rewrite lo_length. lia.
        - rewrite lo_post. intros H. apply Hq in H.
          assert (n + k <= nth j post 0) by (apply post_ge, nth_In; assumption). lia.
      Qed.

      Lemma env_inp : map (lookup e) (seq 0 n) = upd qs s o.
      Proof.
        apply bool_list_ext; [now rewrite map_length, seq_length, upd_length|].
        intros j Hj. rewrite map_length, seq_length in Hj.
        rewrite nth_map_seq by assumption. rewrite nth_upd by lia.
        destruct (memb j qs) eqn:M.
        - apply env_qs. now apply memb_In.
        - assert (E : nth (length pre + j) lo 0 = j) by (rewrite lo_mid by assumption; now rewrite M).
          rewrite <- E at 1. rewrite env_lo.
          + unfold vals. rewrite <- Hp. apply nth_app3_2. lia.
          + rewrite lo_length. lia.
          + rewrite E. now apply memb_false.
      Qed.

      Lemma env_new : map (lookup e) (seq n k) = sel qs o.
      Proof.
        apply bool_list_ext; [now rewrite map_length, seq_length, sel_length|].
        intros i Hi. rewrite map_length, seq_length in Hi.
        rewrite (nth_map_d _ _ _ _ 0) by (now rewrite seq_length). rewrite seq_nth by assumption.
        rewrite nth_sel by assumption.
        assert (Hin : In (nth i qs 0) qs) by (now apply nth_In).
        assert (E : nth (length pre + nth i qs 0) lo 0 = n + i).
        { rewrite lo_mid by auto. replace (memb (nth i qs 0) qs) with true by (symmetry; now apply memb_In).
          now rewrite index_of_nth. }
        rewrite <- E. rewrite env_lo.
        - unfold vals. rewrite <- Hp. apply nth_app3_2. rewrite Ho. auto.
        - rewrite lo_length. apply Hq in Hin. lia.
        - rewrite E. intros H. apply Hq in H. lia.
      Qed.

      Lemma env_qs_all : map (lookup e) qs = s.
      Proof.
        apply bool_list_ext; [now rewrite map_length|]. intros i Hi. rewrite map_length in Hi.
        rewrite (nth_map_d _ _ _ _ 0) by assumption. rewrite env_qs by (now apply nth_In).
        now rewrite index_of_nth.
      Qed.
    End Env.

    Lemma einsum_gate (a b : tensor (T:=T)) p o q :
      length p = length pre -> length o = n -> length q = length post ->
      einsum2 K (la, lb, lo) a b (p ++ o ++ q)
      = tsum K (map (fun s => mul K (a (p ++ upd qs s o ++ q)) (b (sel qs o ++ s))) (allbits k)).
    Proof.
      intros Hp Ho Hqq. unfold einsum2. rewrite summed_eq. fold k.
      apply tsum_map_ext. intros s Hs. apply allbits_In in Hs.
      unfold la, lb. rewrite !map_app.
      rewrite env_pre, env_post, env_inp, env_new, env_qs_all by assumption. reflexivity.
    Qed.
  End Strings.

  (* ---------------------------------------------------------------- spec side *)
  Lemma vec_tabulate n (v : vec T) : length v = 2 ^ n -> map (vtens K v) (allbits n) = v.
  Proof.
    intros H. unfold vtens. rewrite <- (map_map idx (fun i => nth i v (zero K))), map_idx_allbits, <- H.
    apply map_nth_seq.
  Qed.

  Lemma dot_map {A} (g h : A -> T) l :
    dot K (map g l) (map h l) = tsum K (map (fun c => mul K (g c) (h c)) l).
  Proof. unfold dot. induction l as [|x l IH]; simpl; [reflexivity|]. now rewrite IH. Qed.

  Lemma dot_allbits n (g : list bool -> T) v : length v = 2 ^ n ->
    dot K (map g (allbits n)) v = tsum K (map (fun c => mul K (g c) (vtens K v c)) (allbits n)).
  Proof. intros H. rewrite <- (vec_tabulate n v H) at 1. apply dot_map. Qed.

  (* the textbook action:  out(r) = sum_s M[r|qs, s] * psi(r[qs := s]) *)
  Definition gate_action (qs : list nat) (M : mat T) (t : tensor (T:=T)) : tensor :=
    fun r => tsum K (map (fun s => mul K (mget K M (idx (sel qs r)) (idx s)) (t (upd qs s r)))
                         (allbits (length qs))).

  Lemma gate_action_ext qs M (t t' : tensor (T:=T)) : (forall y, t y = t' y) ->
    forall r, gate_action qs M t r = gate_action qs M t' r.
  Proof.
    intros H r. unfold gate_action. apply tsum_map_ext. intros s _. now rewrite H.
  Qed.

  (* G = the matrix row as a function of the column bits at qs *)
  Lemma embed_row_sum n qs (G F : list bool -> T) r :
    NoDup qs -> (forall q, In q qs -> q < n) -> length r = n ->
    tsum K (map (fun c => mul K (if agree_off qs r c then G (sel qs c) else zero K) (F c)) (allbits n))
    = tsum K (map (fun s => mul K (G s) (F (upd qs s r))) (allbits (length qs))).
  Proof.
    intros Hn Hq Hr.
    rewrite (tsum_map_ext K _ (fun c => if agree_off qs r c then mul K (G (sel qs c)) (F c) else zero K))
      by (intros c _; destruct (agree_off qs r c); [reflexivity|apply mul_0_l]).
    rewrite (gate_sum K HK (fun c => mul K (G (sel qs c)) (F c)) n qs r Hn Hq Hr).
    apply tsum_map_ext. intros s Hs. apply allbits_In in Hs.
    rewrite sel_upd_same; auto. intros x Hx. rewrite Hr. auto.
  Qed.

  Lemma mvmul_embed n qs M v :
    NoDup qs -> (forall q, In q qs -> q < n) -> length v = 2 ^ n ->
    mvmul K (embed K n qs M) v = tvec n (gate_action qs M (vtens K v)).
  Proof.
    intros Hn Hq Hv. unfold mvmul, embed, tvec. rewrite map_map. apply map_ext_in.
    intros r Hr. apply allbits_In in Hr. rewrite dot_allbits by assumption.
    unfold gate_action. now apply (embed_row_sum n qs (fun s => mget K M (idx (sel qs r)) (idx s))).
  Qed.

  (* ---------------------------------------------------------------- apply_gate, plain branch *)
  Lemma mtens_split k (M : mat T) a b : length a = k -> mtens K k M (a ++ b) = mget K M (idx a) (idx b).
  Proof. intros H. unfold mtens. now rewrite firstn_app_len, skipn_app_len. Qed.

  Lemma einsum_plain n qs M (t : tensor (T:=T)) o :
    NoDup qs -> (forall q, In q qs -> q < n) -> length o = n ->
    einsum2 K (apply_gate_string qs n) t (mtens K (length qs) M) o = gate_action qs M t o.
  Proof.
    intros Hn Hq Ho. unfold apply_gate_string. rewrite prepare_strings_eq by assumption.
    pose proof (einsum_gate n qs [] [] Hn Hq (NoDup_nil _) (fun l (H : In l ([] ++ [])) => match H with end)
                  t (mtens K (length qs) M) [] o [] eq_refl Ho eq_refl) as E.
    cbn [app] in E. rewrite !app_nil_r in E. rewrite E. unfold gate_action.
    apply tsum_map_ext. intros s Hs. rewrite app_nil_r.
    rewrite mtens_split by apply sel_length. apply mul_comm.
  Qed.

  Theorem apply_gate_plain_eq n qs M v :
    NoDup qs -> (forall q, In q qs -> q < n) -> length v = 2 ^ n ->
    apply_gate_plain K n qs M v = mvmul K (embed K n qs M) v.
  Proof.
    intros Hn Hq Hv. rewrite mvmul_embed by assumption. unfold apply_gate_plain, tvec.
    apply map_ext_in. intros o Ho. apply allbits_In in Ho. now apply einsum_plain.
  Qed.
End EinsumGate.
