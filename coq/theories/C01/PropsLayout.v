(* C01/PropsLayout.v : statements of the round-5 theorems (model and proofs: C01/Layout.v).  Used by C01, C02 and C04.
   Representation independence: the execution models take the LOGICAL array a view denotes; labels are not operator data.
   Excluded by hypotheses: ragged arrays (well_shaped; numpy arrays never are), negative strides (not modelled),
   one-row arrays in ravel_K_f_view (their Fortran and C layouts coincide).
   Input non-mutation and aliasing of results are not expressible here (values, not buffers): checked on the implementation
   by the harness (harness/repr_inv.py guards).  Tie to /repo: exact equality of every representation's run with the canonical
   run, itself compared with the Coq spec (harness/c01_repr.py, harness/c04.py repr_stream). *)
From Coq Require Import List Bool Arith Lia ZArith.
From QV Require Import Base.Mat Base.Zi C01.Model C01.Layout.
Import ListNotations.

(* A C-ordered and a Fortran-ordered array holding the same matrix denote that matrix, so every observation computed from
   the logical array -- in particular execute_dm / apply_kraus / the closed-form fast paths of the models -- is the same. *)
Theorem layout_independent : forall (A : Type) (d : A) (R : Type) (run : list (list A) -> R) r c M, well_shaped r c M ->
  run (logical d (f_view d r c M)) = run M /\ run (logical d (c_view r c M)) = run M.
Proof. exact @layout_independent_eq. Qed.
Print Assumptions layout_independent.

(* numpy ravel() / reshape(-1) (logical order) is the row-major list of the matrix for both layouts *)
Theorem ravel_C_layouts : forall (A : Type) (d : A) r c M, well_shaped r c M ->
  ravel_C d (f_view d r c M) = concat M /\ ravel_C d (c_view r c M) = concat M.
Proof. exact @ravel_C_layouts_eq. Qed.
Print Assumptions ravel_C_layouts.

(* numpy ravel(order="K") (memory order) of a Fortran-ordered array is the list of the TRANSPOSED matrix *)
Theorem ravel_K_f_view : forall (A : Type) (d : A) r c M, well_shaped r c M -> 1 < r ->
  ravel_K d (f_view d r c M) = concat (columns d r c M).
Proof. exact @ravel_K_f_view_eq. Qed.
Print Assumptions ravel_K_f_view.

(* ... hence "flatten in memory order, then apply the superoperator" is not a function of the logical array *)
Theorem ravel_memory_order_is_not_logical :
  exists (M : list (list nat)), well_shaped 2 2 M /\ ravel_K 0 (f_view 0 2 2 M) <> ravel_C 0 (f_view 0 2 2 M)
                                /\ ravel_K 0 (c_view 2 2 M) = ravel_C 0 (c_view 2 2 M).
Proof. exact ravel_memory_order_is_not_logical_eq. Qed.
Print Assumptions ravel_memory_order_is_not_logical.

Example layout_hypotheses_satisfiable : well_shaped 2 3 [[1; 2; 3]; [4; 5; 6]] /\ 1 < 2.
Proof. split; [split; [reflexivity | repeat constructor] | lia]. Qed.

(* A loop that skips gates by label equals the execution loop when (and, by execute_skip_by_label_unsound, only when) the skipped
   gates act as the identity: labels are not operator data. *)
Theorem execute_skip_ok : forall (T L : Type) (K : ops T) (skip : L -> bool) n lgs psi,
  (forall lg, In lg lgs -> skip (fst lg) = true -> forall s, apply_gate K n (snd lg) s = s) ->
  execute_skip K skip n lgs psi = execute K n (map snd lgs) psi.
Proof. exact @execute_skip_ok_eq. Qed.
Print Assumptions execute_skip_ok.

Theorem execute_dm_skip_ok : forall (T L : Type) (K : ops T) cj (skip : L -> bool) n lgs rho,
  (forall lg, In lg lgs -> skip (fst lg) = true -> forall s, apply_gate_dm K cj n (snd lg) s = s) ->
  execute_dm_skip K cj skip n lgs rho = execute_dm K cj n (map snd lgs) rho.
Proof. exact @execute_dm_skip_ok_eq. Qed.
Print Assumptions execute_dm_skip_ok.

Theorem labelled_execution_ignores_labels : forall (T L : Type) (K : ops T) n (lgs lgs' : list (L * gate (T:=T))) psi,
  map snd lgs = map snd lgs' ->
  execute_skip K (fun _ => false) n lgs psi = execute_skip K (fun _ => false) n lgs' psi.
Proof. exact @labels_irrelevant_eq. Qed.
Print Assumptions labelled_execution_ignores_labels.

Theorem execute_skip_by_label_unsound :
  exists (skip : nat -> bool) (lgs : list (nat * gate (T:=Zi))) (psi : vec Zi),
    gate_ok 1 (snd (hd (0, lab_X) lgs)) = true /\
    execute_skip Ziops skip 1 lgs psi <> execute Ziops 1 (map snd lgs) psi.
Proof. exact execute_skip_by_label_unsound_eq. Qed.
Print Assumptions execute_skip_by_label_unsound.

(* non-vacuity of execute_skip_ok: a queue with a skipped gate whose operator is the identity *)
Example skip_hypothesis_satisfiable :
  let idg : gate (T:=Zi) := (false, @nil nat, [0%nat], [[(1, 0); (0, 0)]; [(0, 0); (1, 0)]]%Z) in
  execute_skip Ziops (fun l => Nat.eqb l 0) 1 [(0, idg); (1, lab_X)] [(2, 1); (0, 3)]%Z
  = execute Ziops 1 [idg; lab_X] [(2, 1); (0, 3)]%Z.
Proof. vm_compute. reflexivity. Qed.
