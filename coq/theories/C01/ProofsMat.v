(* C01/ProofsMat.v : facts about the list matrices of Base/Mat.v (mmul, mget) for matrices
   tabulated over bit strings, and about the matrix-vector product of C01/Spec.v. *)
From Coq Require Import List Bool Arith Lia.
From QV Require Import Base.Mat C01.Model C01.Spec C01.Lib C01.ProofsSV.
Import ListNotations.

Section MatFacts.
  Context {T : Type} (K : ops T).
  Hypothesis HK : semiring K.
  Local Notation add_comm := (sr_add_comm K HK).
  Local Notation add_assoc := (sr_add_assoc K HK).
  Local Notation add_0_l := (sr_add_0_l K HK).
  Local Notation mul_comm := (sr_mul_comm K HK).
  Local Notation mul_assoc := (sr_mul_assoc K HK).
  Local Notation mul_1_l := (sr_mul_1_l K HK).
  Local Notation mul_0_l := (sr_mul_0_l K HK).
  Local Notation mul_add_l := (sr_mul_add_l K HK).
  Local Notation add_0_r := (add_0_r K HK).
  Local Notation mul_0_r := (mul_0_r K HK).
  Local Notation tsum := (tsum K).
  Local Notation zero := (zero K).

  (* 2^n x 2^n matrix given by its entries *)
  Definition tab2 (n : nat) (f : list bool -> list bool -> T) : mat T :=
    map (fun r => map (fun c => f r c) (allbits n)) (allbits n).

  Definition wf_mat (n : nat) (A : mat T) : Prop :=
    length A = 2 ^ n /\ Forall (fun row => length row = 2 ^ n) A.
  Definition mentry (A : mat T) (r c : list bool) : T := mget K A (idx r) (idx c).

  Lemma nth_vadd u : forall v j, nth j (vadd K u v) zero = add K (nth j u zero) (nth j v zero).
  Proof.
    induction u as [|x u IH]; intros [|y v] [|j]; simpl; rewrite ?add_0_l, ?add_0_r; try reflexivity.
    apply IH.
  Qed.

  Lemma nth_vscale x b j : nth j (vscale K x b) zero = mul K x (nth j b zero).
  Proof.
    unfold vscale. destruct (Nat.lt_ge_cases j (length b)).
    - now rewrite (nth_map_d _ _ _ _ zero).
    - rewrite !nth_overflow by (rewrite ?map_length; lia). now rewrite mul_0_r.
  Qed.

  Lemma nth_rowmul r : forall B j,
    nth j (rowmul K r B) zero = tsum (map (fun xr : T * list T => mul K (fst xr) (nth j (snd xr) zero)) (combine r B)).
  Proof.
    induction r as [|x r IH]; intros [|b B] j; simpl; try (destruct j; reflexivity).
    now rewrite nth_vadd, nth_vscale, IH.
  Qed.

  Lemma mget_mmul A B i j :
    mget K (mmul K A B) i j
    = tsum (map (fun xr : T * list T => mul K (fst xr) (nth j (snd xr) zero)) (combine (nth i A []) B)).
  Proof.
    unfold mget, mmul, vec, mat in *. destruct (Nat.lt_ge_cases i (length A)).
    - rewrite (nth_map_d _ _ _ _ []) by assumption. apply nth_rowmul.
    - rewrite (nth_overflow (map _ A)) by (rewrite map_length; lia). rewrite (nth_overflow A) by lia.
      simpl. destruct j; reflexivity.
  Qed.

  Lemma vadd_length u : forall v, length (vadd K u v) = Nat.max (length u) (length v).
  Proof. induction u as [|x u IH]; intros [|y v]; simpl; try reflexivity. now rewrite IH. Qed.

  Lemma rowmul_length m r : forall B, Forall (fun row => length row = m) B ->
    length (rowmul K r B) = m \/ rowmul K r B = [].
  Proof.
    induction r as [|x r IH]; intros [|b B] HB; simpl; auto.
    inversion HB; subst. left. rewrite vadd_length. unfold vscale. rewrite map_length.
    destruct (IH B H2) as [E|E]; rewrite E; simpl; lia.
  Qed.

  Lemma rowmul_length_pos m r B : Forall (fun row => length row = m) B -> r <> [] -> B <> [] ->
    length (rowmul K r B) = m.
  Proof.
    intros HB Hr Hb. destruct r as [|x r]; [congruence|]. destruct B as [|b B]; [congruence|].
    simpl. inversion HB; subst. rewrite vadd_length. unfold vscale. rewrite map_length.
    destruct (rowmul_length (length b) r B H2) as [E|E]; rewrite E; simpl; lia.
  Qed.

  Lemma allbits_nonempty n : allbits n <> [].
  Proof.
    intros E. pose proof (allbits_length n) as H. rewrite E in H. simpl in H.
    assert (0 < 2 ^ n) by (apply Nat.neq_0_lt_0, Nat.pow_nonzero; lia). lia.
  Qed.

  Lemma tab2_wf n f : wf_mat n (tab2 n f).
  Proof.
    split; [unfold tab2; now rewrite map_length, allbits_length|].
    apply Forall_forall. intros row Hr. unfold tab2 in Hr. apply in_map_iff in Hr.
    destruct Hr as [r [<- _]]. now rewrite map_length, allbits_length.
  Qed.

  Lemma mentry_tab2 n f r c : length r = n -> length c = n -> mentry (tab2 n f) r c = f r c.
  Proof.
    intros Hr Hc. unfold mentry, mget, tab2.
    pose proof (idx_lt r) as Lr. pose proof (idx_lt c) as Lc. rewrite Hr in Lr. rewrite Hc in Lc.
    rewrite (nth_map_d _ _ _ _ []) by (now rewrite allbits_length).
    rewrite (nth_map_d _ _ _ _ []) by (now rewrite allbits_length).
    now rewrite !nth_idx_allbits.
  Qed.

  Lemma tab2_ext n f g : (forall r c, length r = n -> length c = n -> f r c = g r c) -> tab2 n f = tab2 n g.
  Proof.
    intros H. unfold tab2. apply map_ext_in. intros r Hr. apply map_ext_in. intros c Hc.
    apply allbits_In in Hr. apply allbits_In in Hc. auto.
  Qed.

  Lemma wf_tab2 n A : wf_mat n A -> A = tab2 n (mentry A).
  Proof.
    intros [Hl Hr]. unfold tab2, mentry, mget.
    transitivity (map (fun i => map (fun j => nth j (nth i A []) zero) (seq 0 (2 ^ n))) (seq 0 (2 ^ n))).
    - apply nth_ext with (d := []) (d' := []); [now rewrite map_length, seq_length|].
      intros i Hi. rewrite Hl in Hi. rewrite nth_map_seq by assumption.
      assert (E : length (nth i A []) = 2 ^ n).
      { rewrite Forall_forall in Hr. apply Hr. apply nth_In. now rewrite Hl. }
      rewrite <- E. symmetry. apply map_nth_seq.
    - rewrite <- map_idx_allbits. rewrite map_map. apply map_ext. intros r.
      rewrite map_map. reflexivity.
  Qed.

  Lemma mmul_tab2 n f g :
    mmul K (tab2 n f) (tab2 n g)
    = tab2 n (fun r c => tsum (map (fun k => mul K (f r k) (g k c)) (allbits n))).
  Proof.
    unfold mmul. unfold tab2 at 2 3. rewrite map_map. apply map_ext_in. intros r Hr.
    assert (HL : length (rowmul K (map (fun c => f r c) (allbits n)) (tab2 n g)) = 2 ^ n).
    { apply rowmul_length_pos.
      - apply (tab2_wf n g).
      - intros E. apply map_eq_nil in E. now apply allbits_nonempty in E.
      - intros E. apply map_eq_nil in E. now apply allbits_nonempty in E. }
    apply nth_ext with (d := zero) (d' := zero); [now rewrite HL, map_length, allbits_length|].
    intros j Hj. rewrite HL in Hj. rewrite nth_rowmul.
    rewrite (nth_map_d _ _ _ _ (repeat false n)) by (now rewrite allbits_length).
    unfold tab2.
    assert (C : forall (l : list (list bool)),
               combine (map (fun c => f r c) l) (map (fun r0 => map (fun c => g r0 c) (allbits n)) l)
               = map (fun k => (f r k, map (fun c => g k c) (allbits n))) l).
    { induction l as [|h t IH]; simpl; [reflexivity|]. now rewrite IH. }
    rewrite C, map_map. apply tsum_map_ext. intros k Hk. simpl. f_equal.
    now rewrite (nth_map_d _ _ _ _ (repeat false n)) by (now rewrite allbits_length).
  Qed.

  (* ---------------------------------------------------------------- vectors *)
  Lemma mvmul_tab2 n f v : length v = 2 ^ n ->
    mvmul K (tab2 n f) v = tvec n (fun r => tsum (map (fun c => mul K (f r c) (vtens K v c)) (allbits n))).
  Proof.
    intros Hv. unfold mvmul, tab2, tvec. rewrite map_map. apply map_ext_in. intros r Hr.
    now apply dot_allbits.
  Qed.

  Lemma mvmul_length n A v : wf_mat n A -> length (mvmul K A v) = 2 ^ n.
  Proof. intros [H _]. unfold mvmul. now rewrite map_length. Qed.

  Lemma vtens_tvec n t b : length b = n -> vtens K (tvec n t) b = t b.
  Proof.
    intros Hb. unfold vtens, tvec. pose proof (idx_lt b) as L. rewrite Hb in L.
    rewrite (nth_map_d _ _ _ _ []) by (now rewrite allbits_length). now rewrite nth_idx_allbits.
  Qed.

  Lemma mvmul_mmul n A B v : wf_mat n A -> wf_mat n B -> length v = 2 ^ n ->
    mvmul K (mmul K A B) v = mvmul K A (mvmul K B v).
  Proof.
    intros HA HB Hv. rewrite (wf_tab2 n A HA), (wf_tab2 n B HB), mmul_tab2.
    rewrite (mvmul_tab2 n _ v Hv). rewrite (mvmul_tab2 n (mentry B) v Hv).
    rewrite mvmul_tab2 by (unfold tvec; now rewrite map_length, allbits_length).
    unfold tvec. apply map_ext_in. intros r Hr. apply allbits_In in Hr.
    rewrite (tsum_map_ext K _ (fun c => tsum (map (fun k => mul K (mul K (mentry A r k) (mentry B k c)) (vtens K v c)) (allbits n))))
      by (intros c _; symmetry; apply tsum_scale_r; assumption).
    rewrite (tsum_swap K HK).
    apply tsum_map_ext. intros k Hk. apply allbits_In in Hk.
    fold (tvec n (fun r0 => tsum (map (fun c => mul K (mentry B r0 c) (vtens K v c)) (allbits n)))).
    rewrite vtens_tvec by assumption. rewrite <- (tsum_scale_l K HK).
    apply tsum_map_ext. intros c _. symmetry. apply mul_assoc.
  Qed.

  Lemma midentity_tab2 n : midentity K n = tab2 n (fun r c => if beqb r c then one K else zero).
  Proof. reflexivity. Qed.

  Lemma mvmul_identity n v : length v = 2 ^ n -> mvmul K (midentity K n) v = v.
  Proof.
    intros Hv. rewrite midentity_tab2, mvmul_tab2 by assumption.
    transitivity (map (vtens K v) (allbits n)); [|now apply vec_tabulate].
    unfold tvec. apply map_ext_in. intros r Hr. apply allbits_In in Hr.
    rewrite (tsum_map_ext K _ (fun c => if beqb r c then vtens K v c else zero)).
    - now apply (tsum_delta K HK).
    - intros c _. destruct (beqb r c); [apply mul_1_l|apply mul_0_l].
  Qed.

  Lemma mmul_wf n A B : wf_mat n A -> wf_mat n B -> wf_mat n (mmul K A B).
  Proof.
    intros HA HB. rewrite (wf_tab2 n A HA), (wf_tab2 n B HB), mmul_tab2. apply tab2_wf.
  Qed.

  Lemma embed_tab2 n qs M :
    embed K n qs M = tab2 n (fun r c => if agree_off qs r c then mget K M (idx (sel qs r)) (idx (sel qs c)) else zero).
  Proof. reflexivity. Qed.

  Lemma cembed_tab2 n cs ts M :
    cembed K n cs ts M = tab2 n (fun r c =>
      if forallb (fun q => nth q r false) cs
      then (if agree_off ts r c then mget K M (idx (sel ts r)) (idx (sel ts c)) else zero)
      else (if beqb r c then one K else zero)).
  Proof. reflexivity. Qed.
End MatFacts.
