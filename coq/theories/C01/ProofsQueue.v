(* C01/ProofsQueue.v : circuits whose queue contains FusedGates (the result of Circuit.fuse).
   matrix_fused on a sorted qubit SUBSET fq, embedded on fq, is the ordered product of the member
   gates' operators; hence executing the queue = executing the flattened gate list, and the repaired
   Circuit.unitary (FusedGate members included) is the operator the queue executes. *)
From Coq Require Import List Bool Arith Lia.
From QV Require Import Base.Mat C01.Model C01.Spec C01.Lib C01.ProofsSV C01.ProofsCtrl C01.ProofsMat
  C01.ProofsRun C01.ProofsFused.
Import ListNotations.

(* ------------------------------------------------------------------ sorted lists and order-preserving relabelling *)
Lemma incr_nth_lt : forall l lo i j, incr_from lo l -> i < j -> j < length l -> nth i l 0 < nth j l 0.
Proof.
  induction l as [|c t IH]; intros lo i j H Hij Hj; simpl in *; [lia|]. destruct H as [H1 H2].
  destruct j as [|j]; [lia|]. destruct i as [|i].
  - pose proof (incr_from_nth_ge t (S c) j H2 ltac:(lia)). lia.
  - apply (IH (S c)); auto; lia.
Qed.

Section Relabel.
  Variable fq : list nat.
  Hypothesis Hfq : incr_from 0 fq.
  Let phi := fun q => index_of q fq.
  Let psi := fun j => nth j fq 0.

  Lemma fq_NoDup : NoDup fq.
  Proof. exact (incr_from_NoDup 0 fq Hfq). Qed.

  Lemma psi_phi q : In q fq -> psi (phi q) = q.
  Proof. intros H. now apply nth_index_of. Qed.

  Lemma phi_psi j : j < length fq -> phi (psi j) = j.
  Proof. intros H. apply index_of_nth; [apply fq_NoDup|assumption]. Qed.

  Lemma phi_lt q : In q fq -> phi q < length fq.
  Proof. apply index_of_lt. Qed.

  Lemma phi_inj x y : In x fq -> In y fq -> phi x = phi y -> x = y.
  Proof. intros Hx Hy E. rewrite <- (psi_phi x Hx), <- (psi_phi y Hy). now rewrite E. Qed.

  Lemma phi_leb x y : In x fq -> In y fq -> (phi x <=? phi y) = (x <=? y).
  Proof.
    intros Hx Hy. pose proof (phi_lt x Hx) as Lx. pose proof (phi_lt y Hy) as Ly.
    destruct (Nat.leb_spec (phi x) (phi y)) as [H|H]; symmetry.
    - apply Nat.leb_le. destruct (Nat.eq_dec (phi x) (phi y)) as [E|E].
      + apply phi_inj in E; auto. lia.
      + pose proof (incr_nth_lt fq 0 (phi x) (phi y) Hfq ltac:(lia) Ly) as G.
        fold (psi (phi x)) (psi (phi y)) in G. rewrite !psi_phi in G by assumption. lia.
    - apply Nat.leb_gt. pose proof (incr_nth_lt fq 0 (phi y) (phi x) Hfq H Lx) as G.
      fold (psi (phi x)) (psi (phi y)) in G. rewrite !psi_phi in G by assumption. exact G.
  Qed.

  Lemma insert_map_phi x l : In x fq -> (forall y, In y l -> In y fq) ->
    insert (phi x) (map phi l) = map phi (insert x l).
  Proof.
    intros Hx. induction l as [|h t IH]; intros Hl; simpl; [reflexivity|].
    rewrite phi_leb by (auto; apply Hl; now left). destruct (x <=? h); simpl; [reflexivity|].
    f_equal. apply IH. intros; apply Hl; now right.
  Qed.

  Lemma isort_map_phi l : (forall y, In y l -> In y fq) -> isort (map phi l) = map phi (isort l).
  Proof.
    induction l as [|h t IH]; intros Hl; simpl; [reflexivity|].
    rewrite IH by (intros; apply Hl; now right). apply insert_map_phi.
    - apply Hl. now left.
    - intros y Hy. apply (proj1 (isort_In _ _)) in Hy. apply Hl. now right.
  Qed.

  Lemma index_of_map_phi v l : In v fq -> (forall y, In y l -> In y fq) ->
    index_of (phi v) (map phi l) = index_of v l.
  Proof. intros Hv Hl. apply (index_of_map_inj phi). intros y Hy E. apply phi_inj; auto. Qed.

  Lemma memb_map_phi v l : In v fq -> (forall y, In y l -> In y fq) -> memb (phi v) (map phi l) = memb v l.
  Proof.
    intros Hv Hl. apply eq_true_iff_eq. rewrite !memb_In, in_map_iff. split.
    - intros [y [E Hy]]. apply phi_inj in E; auto. now subst.
    - intros H. now exists v.
  Qed.

  Lemma argsort_map_phi l : (forall y, In y l -> In y fq) -> argsort (map phi l) = argsort l.
  Proof.
    intros Hl. unfold argsort. rewrite isort_map_phi by assumption. rewrite map_map.
    apply map_ext_in. intros v Hv. apply (proj1 (isort_In _ _)) in Hv. apply index_of_map_phi; auto.
  Qed.

  Lemma map_phi_fq : map phi fq = seq 0 (length fq).
  Proof.
    apply nth_ext with (d := 0) (d' := 0); [now rewrite map_length, seq_length|].
    intros i Hi. rewrite map_length in Hi. rewrite (nth_map_d _ _ _ _ 0) by assumption.
    rewrite seq_nth by assumption. now apply phi_psi.
  Qed.

  Lemma map_phi_others qs : (forall y, In y qs -> In y fq) ->
    map phi (filter (fun q => negb (memb q qs)) fq) = others (map phi qs) (length fq).
  Proof.
    intros Hq. unfold others. rewrite <- map_phi_fq.
    assert (G : forall l, (forall y, In y l -> In y fq) ->
              map phi (filter (fun q => negb (memb q qs)) l)
              = filter (fun q => negb (memb q (map phi qs))) (map phi l)).
    { induction l as [|h t IH]; intros Hl; simpl; [reflexivity|].
      rewrite memb_map_phi by (auto; apply Hl; now left).
      destruct (memb h qs); simpl; [|f_equal]; apply IH; intros; apply Hl; now right. }
    apply G. auto.
  Qed.

End Relabel.

Section Queue.
  Context {T : Type} (K : ops T).
  Hypothesis HK : semiring K.
  Local Notation mul_1_l := (sr_mul_1_l K HK).
  Local Notation mul_0_l := (sr_mul_0_l K HK).
  Local Notation zero := (zero K).
  Local Notation one := (one K).

  Definition gate_qubits (g : gate (T:=T)) : list nat := let '(_, cs, ts, _) := g in cs ++ ts.
  Definition relabel (fq : list nat) (g : gate (T:=T)) : gate (T:=T) :=
    let '(ctrl, cs, ts, M) := g in
    (ctrl, map (fun q => index_of q fq) cs, map (fun q => index_of q fq) ts, M).

  (* ---------------------------------------------------------------- matrix_fused on a subset = on local indices *)
  Lemma fused_gate_relabel fq g : incr_from 0 fq -> (forall q, In q (gate_qubits g) -> In q fq) ->
    fused_gate_matrix K fq g = fused_gate_matrix K (seq 0 (length fq)) (relabel fq g).
  Proof.
    destruct g as [[[ctrl cs0] ts] M]. intros Hfq Hsub. simpl in Hsub.
    assert (Hcs0 : forall y, In y cs0 -> In y fq) by (intros; apply Hsub, in_app_iff; now left).
    assert (Hts : forall y, In y ts -> In y fq) by (intros; apply Hsub, in_app_iff; now right).
    assert (Hics : forall y, In y (isort cs0) -> In y fq) by (intros y Hy; apply (proj1 (isort_In _ _)) in Hy; auto).
    assert (Hall : forall y, In y (isort cs0 ++ ts) -> In y fq).
    { intros y Hy. apply in_app_iff in Hy. destruct Hy; auto. }
    unfold fused_gate_matrix, relabel. cbv beta iota zeta. rewrite seq_length.
    rewrite (isort_map_phi fq Hfq) by assumption.
    rewrite <- map_app. rewrite !map_length.
    fold (others (map (fun q => index_of q fq) (isort cs0 ++ ts)) (length fq)).
    rewrite <- (map_phi_others fq Hfq) by assumption.
    rewrite <- map_app. rewrite (argsort_map_phi fq Hfq).
    - reflexivity.
    - intros y Hy. apply in_app_iff in Hy. destruct Hy as [Hy|Hy]; [auto|].
      apply filter_In in Hy. tauto.
  Qed.

  (* ---------------------------------------------------------------- embedding on a subset *)
  Lemma agree_off_upd fq s r c : agree_off fq (upd fq s r) c = agree_off fq r c.
  Proof.
    apply eq_true_iff_eq. rewrite !agree_off_spec, upd_length. split; intros [Hl H]; (split; [assumption|]);
      intros j Hj; (destruct (H j Hj) as [Hm|He]; [now left|]).
    - rewrite nth_upd in He by assumption. destruct (memb j fq); [now left|now right].
    - destruct (memb j fq) eqn:M; [now left|right]. rewrite nth_upd by assumption. now rewrite M.
  Qed.

  Lemma mget_mmul_bits m A B a a' : wf_mat m A -> wf_mat m B -> length a = m -> length a' = m ->
    mget K (mmul K A B) (idx a) (idx a')
    = tsum K (map (fun s => mul K (mget K A (idx a) (idx s)) (mget K B (idx s) (idx a'))) (allbits m)).
  Proof.
    intros HA HB Ha Ha'. rewrite (wf_tab2 K m A HA) at 1. rewrite (wf_tab2 K m B HB) at 1.
    rewrite (mmul_tab2 K HK). now apply (mentry_tab2 K m).
  Qed.

  Lemma embed_mmul n fq A B : NoDup fq -> (forall q, In q fq -> q < n) ->
    wf_mat (length fq) A -> wf_mat (length fq) B ->
    embed K n fq (mmul K A B) = mmul K (embed K n fq A) (embed K n fq B).
  Proof.
    intros Hn Hq HA HB. rewrite !embed_tab2, (mmul_tab2 K HK). apply tab2_ext. intros r c Hr Hc.
    rewrite (embed_row_sum K HK n fq (fun s => mget K A (idx (sel fq r)) (idx s))
               (fun k => if agree_off fq k c then mget K B (idx (sel fq k)) (idx (sel fq c)) else zero) r Hn Hq Hr).
    destruct (agree_off fq r c) eqn:Ag.
    - rewrite (mget_mmul_bits (length fq)) by (auto using sel_length).
      apply tsum_map_ext. intros s Hs. apply allbits_In in Hs. rewrite agree_off_upd, Ag.
      rewrite sel_upd_same; auto. intros q Hq'. rewrite Hr. auto.
    - rewrite (tsum_map_ext K _ (fun _ => zero)); [now rewrite (tsum_zero K HK)|].
      intros s _. rewrite agree_off_upd, Ag. apply (mul_0_r K HK).
  Qed.

  Lemma embed_eye n fq : NoDup fq -> (forall q, In q fq -> q < n) ->
    embed K n fq (eye K (2 ^ length fq)) = midentity K n.
  Proof.
    intros Hn Hq. rewrite embed_tab2, midentity_tab2. apply tab2_ext. intros r c Hr Hc.
    pose proof (idx_lt (sel fq r)) as L1. pose proof (idx_lt (sel fq c)) as L2. rewrite sel_length in L1, L2.
    rewrite mget_eye by assumption. rewrite idx_eqb by (now rewrite !sel_length).
    assert (Hb : forall q, In q fq -> q < length r) by (intros; rewrite Hr; auto).
    pose proof (agree_sel_eq fq r c ltac:(congruence) Hb) as E.
    destruct (beqb r c) eqn:B.
    - apply beqb_eq in B. apply E in B. destruct B as [B1 B2]. now rewrite B1, B2, beqb_refl.
    - destruct (agree_off fq r c) eqn:Ag; [|reflexivity].
      destruct (beqb (sel fq r) (sel fq c)) eqn:Bs; [|reflexivity].
      apply beqb_eq in Bs. assert (r = c) by (apply E; auto). subst. rewrite beqb_refl in B. discriminate.
  Qed.

  Lemma memb_map_nth fq i l : NoDup fq -> i < length fq -> (forall j, In j l -> j < length fq) ->
    memb (nth i fq 0) (map (fun j => nth j fq 0) l) = memb i l.
  Proof.
    intros Hn Hi Hl. apply eq_true_iff_eq. rewrite !memb_In, in_map_iff. split.
    - intros [j [E Hj]]. assert (j = i); [|now subst].
      rewrite <- (index_of_nth j fq 0 Hn (Hl j Hj)), E. now apply index_of_nth.
    - intros H. now exists i.
  Qed.

  Lemma agree_off_sub n fq ts' r c : NoDup fq -> (forall q, In q fq -> q < n) ->
    (forall j, In j ts' -> j < length fq) -> length r = n -> length c = n ->
    agree_off (map (fun j => nth j fq 0) ts') r c
    = agree_off fq r c && agree_off ts' (sel fq r) (sel fq c).
  Proof.
    intros Hn Hq Ht Hr Hc. apply eq_true_iff_eq. rewrite andb_true_iff, !agree_off_spec, !sel_length. split.
    - intros [Hl H]. split; (split; [congruence|]).
      + intros j Hj. destruct (H j Hj) as [Hm|He]; [left|now right].
        apply memb_In in Hm. apply in_map_iff in Hm. destruct Hm as [i [<- Hi]]. apply memb_In, nth_In. auto.
      + intros i Hi. rewrite !nth_sel by assumption.
        assert (Hin : In (nth i fq 0) fq) by (now apply nth_In).
        destruct (H (nth i fq 0) ltac:(rewrite Hr; auto)) as [Hm|He]; [left|now right].
        now rewrite memb_map_nth in Hm.
    - intros [[Hl H1] [_ H2]]. split; [assumption|]. intros j Hj.
      destruct (H1 j Hj) as [Hm|He]; [|now right]. apply memb_In in Hm.
      pose proof (index_of_lt j fq Hm) as Li. pose proof (nth_index_of j fq 0 Hm) as Ej.
      destruct (H2 (index_of j fq) Li) as [Hm2|He2].
      + left. rewrite <- Ej. now rewrite memb_map_nth.
      + right. rewrite !nth_sel in He2 by assumption. now rewrite Ej in He2.
  Qed.

  Lemma embed_cembed n fq cs' ts' M : NoDup fq -> (forall q, In q fq -> q < n) ->
    (forall j, In j cs' -> j < length fq) -> (forall j, In j ts' -> j < length fq) ->
    embed K n fq (cembed K (length fq) cs' ts' M)
    = cembed K n (map (fun j => nth j fq 0) cs') (map (fun j => nth j fq 0) ts') M.
  Proof.
    intros Hn Hq Hcs Hts. rewrite embed_tab2, !cembed_tab2. apply tab2_ext. intros r c Hr Hc.
    fold (mentry K (tab2 (length fq) (fun r0 c0 : list bool =>
       if forallb (fun q => nth q r0 false) cs'
       then if agree_off ts' r0 c0 then mget K M (idx (sel ts' r0)) (idx (sel ts' c0)) else zero
       else if beqb r0 c0 then one else zero)) (sel fq r) (sel fq c)).
    rewrite (mentry_tab2 K) by apply sel_length.
    rewrite !all1_sel. rewrite !sel_sel by assumption.
    rewrite (agree_off_sub n fq ts' r c) by assumption.
    assert (Hb : forall q, In q fq -> q < length r) by (intros; rewrite Hr; auto).
    pose proof (agree_sel_eq fq r c ltac:(congruence) Hb) as E.
    destruct (all1 (sel (map (fun j => nth j fq 0) cs') r)).
    - destruct (agree_off fq r c); reflexivity.
    - destruct (beqb r c) eqn:B.
      + apply beqb_eq in B. apply E in B. destruct B as [B1 B2]. now rewrite B1, B2, beqb_refl.
      + destruct (agree_off fq r c) eqn:Ag; [|reflexivity].
        destruct (beqb (sel fq r) (sel fq c)) eqn:Bs; [|reflexivity].
        apply beqb_eq in Bs. assert (r = c) by (apply E; auto). subst. rewrite beqb_refl in B. discriminate.
  Qed.

  Lemma map_psi_phi fq l : (forall y, In y l -> In y fq) ->
    map (fun j => nth j fq 0) (map (fun q => index_of q fq) l) = l.
  Proof.
    intros Hl. rewrite map_map. rewrite <- (map_id l) at 2. apply map_ext_in. intros y Hy.
    apply nth_index_of. auto.
  Qed.

  Lemma embed_gate_op n fq g : incr_from 0 fq -> (forall q, In q fq -> q < n) ->
    (forall q, In q (gate_qubits g) -> In q fq) ->
    embed K n fq (gate_op K (length fq) (relabel fq g)) = gate_op K n g.
  Proof.
    destruct g as [[[ctrl cs0] ts] M]. intros Hfq Hq Hsub. simpl in Hsub.
    pose proof (incr_from_NoDup 0 fq Hfq) as Hn.
    assert (Hcs0 : forall y, In y cs0 -> In y fq) by (intros; apply Hsub, in_app_iff; now left).
    assert (Hts : forall y, In y ts -> In y fq) by (intros; apply Hsub, in_app_iff; now right).
    assert (Hall : forall y, In y (isort cs0 ++ ts) -> In y fq).
    { intros y Hy. apply in_app_iff in Hy. destruct Hy as [Hy|Hy]; auto. apply (proj1 (isort_In _ _)) in Hy. auto. }
    assert (LT : forall l, (forall y, In y l -> In y fq) -> forall j, In j (map (fun q => index_of q fq) l) -> j < length fq).
    { intros l Hl j Hj. apply in_map_iff in Hj. destruct Hj as [y [<- Hy]]. apply index_of_lt. auto. }
    unfold relabel. simpl gate_op. destruct ctrl.
    - rewrite embed_cembed; auto; [|now apply LT|now apply LT]. now rewrite !map_psi_phi.
    - rewrite (isort_map_phi fq Hfq) by assumption. rewrite <- map_app.
      change (embed K (length fq) (map (fun q => index_of q fq) (isort cs0 ++ ts)) M)
        with (cembed K (length fq) [] (map (fun q => index_of q fq) (isort cs0 ++ ts)) M).
      rewrite embed_cembed; auto; [|intros j []|now apply LT]. now rewrite map_psi_phi.
  Qed.

  Lemma relabel_wf n fq g : incr_from 0 fq -> (forall q, In q (gate_qubits g) -> In q fq) ->
    gate_wf n g -> gate_wf (length fq) (relabel fq g).
  Proof.
    destruct g as [[[ctrl cs0] ts] M]. intros Hfq Hsub [Hc [Ht [Hlt Hd]]]. simpl in Hsub. unfold relabel, gate_wf.
    assert (Hcs0 : forall y, In y cs0 -> In y fq) by (intros; apply Hsub, in_app_iff; now left).
    assert (Hts : forall y, In y ts -> In y fq) by (intros; apply Hsub, in_app_iff; now right).
    repeat split.
    - apply NoDup_map_inj; [|assumption]. intros x y Hx Hy. apply (phi_inj fq); auto.
    - apply NoDup_map_inj; [|assumption]. intros x y Hx Hy. apply (phi_inj fq); auto.
    - intros q Hq. rewrite <- map_app in Hq. apply in_map_iff in Hq. destruct Hq as [y [<- Hy]].
      apply index_of_lt. auto.
    - intros t Ht' Hc'. apply in_map_iff in Ht'. apply in_map_iff in Hc'.
      destruct Ht' as [x [<- Hx]]. destruct Hc' as [y [E Hy]].
      apply (phi_inj fq) in E; auto. subst. exact (Hd x Hx Hy).
  Qed.

  Lemma relabel_shape fq g : gate_shape_ok g -> gate_shape_ok (relabel fq g).
  Proof.
    destruct g as [[[ctrl cs0] ts] M]. unfold gate_shape_ok, relabel. now rewrite !app_length, !map_length, <- app_length.
  Qed.

  Definition member_ok (n : nat) (fq : list nat) (g : gate (T:=T)) : Prop :=
    gate_wf n g /\ gate_shape_ok g /\ (forall q, In q (gate_qubits g) -> In q fq).

  Lemma embed_fused_gate n fq g : incr_from 0 fq -> (forall q, In q fq -> q < n) -> member_ok n fq g ->
    embed K n fq (fused_gate_matrix K fq g) = gate_op K n g.
  Proof.
    intros Hfq Hq [Hw [Hs Hsub]]. rewrite fused_gate_relabel by assumption.
    rewrite (fused_gate_eq K HK) by (auto using relabel_shape; now apply (relabel_wf n)).
    now apply embed_gate_op.
  Qed.

  Lemma fused_gate_wf fq g : wf_mat (length fq) (fused_gate_matrix K fq g).
  Proof. destruct g as [[[ctrl cs0] ts] M]. unfold fused_gate_matrix. apply tab2_wf. Qed.

  Theorem embed_matrix_fused n fq gs : incr_from 0 fq -> (forall q, In q fq -> q < n) ->
    Forall (member_ok n fq) gs ->
    embed K n fq (matrix_fused K fq gs) = circ_op K n gs.
  Proof.
    intros Hfq Hq Hall. pose proof (incr_from_NoDup 0 fq Hfq) as Hn.
    unfold matrix_fused, circ_op. rewrite <- (embed_eye n fq Hn Hq).
    assert (W : wf_mat (length fq) (eye K (2 ^ length fq))) by apply eye_shape.
    revert W. generalize (eye K (2 ^ length fq)).
    induction gs as [|g gs IH]; intros A HA; [reflexivity|]. inversion Hall; subst. simpl.
    rewrite IH; auto.
    - rewrite embed_mmul by (auto using fused_gate_wf). now rewrite embed_fused_gate.
    - apply (mmul_wf K HK); auto using fused_gate_wf.
  Qed.

  (* ---------------------------------------------------------------- queues *)
  Definition flatten (q : list (qitem (T:=T))) : list (gate (T:=T)) :=
    flat_map (fun it => match it with QGate g => [g] | QFused _ gs => gs end) q.

  Definition item_ok (n : nat) (it : qitem (T:=T)) : Prop :=
    match it with
    | QGate g => gate_wf n g /\ gate_shape_ok g
    | QFused fq gs => incr_from 0 fq /\ (forall q, In q fq -> q < n) /\ Forall (member_ok n fq) gs
    end.

  Lemma flatten_cons it q : flatten (it :: q) = flatten [it] ++ flatten q.
  Proof. unfold flatten. simpl. now rewrite app_nil_r. Qed.

  Lemma item_flat_ok n it : item_ok n it ->
    Forall (gate_wf n) (flatten [it]) /\ Forall gate_shape_ok (flatten [it]).
  Proof.
    destruct it as [g|fq gs]; simpl; rewrite ?app_nil_r.
    - intros [H1 H2]. split; constructor; auto.
    - intros [_ [_ H]]. split; apply Forall_forall; intros g Hg; rewrite Forall_forall in H; apply H in Hg; apply Hg.
  Qed.

  Lemma apply_item_eq n it v : item_ok n it -> length v = 2 ^ n ->
    apply_item K n it v = execute K n (flatten [it]) v.
  Proof.
    destruct it as [g|fq gs]; simpl; rewrite ?app_nil_r; intros Hok Hv; [reflexivity|].
    destruct Hok as [Hfq [Hq Hall]].
    rewrite (apply_gate_plain_eq K HK) by (auto; exact (incr_from_NoDup 0 fq Hfq)).
    rewrite embed_matrix_fused by assumption. symmetry. apply (execute_eq K HK); [|assumption].
    apply Forall_forall. intros g Hg. rewrite Forall_forall in Hall. apply Hall in Hg. apply Hg.
  Qed.

  Lemma execute_length n gs v : Forall (gate_wf n) gs -> length v = 2 ^ n -> length (execute K n gs v) = 2 ^ n.
  Proof.
    revert v. induction gs as [|g gs IH]; intros v Hw Hv; [assumption|]. inversion Hw; subst. simpl.
    apply IH; auto. now apply (apply_gate_length K HK).
  Qed.

  Lemma execute_app n gs1 gs2 v : execute K n (gs1 ++ gs2) v = execute K n gs2 (execute K n gs1 v).
  Proof. unfold execute. apply fold_left_app. Qed.

  Lemma execute_queue_flatten n q : Forall (item_ok n) q -> forall v, length v = 2 ^ n ->
    execute_queue K n q v = execute K n (flatten q) v.
  Proof.
    induction q as [|it q IH]; intros Hok v Hv; [reflexivity|]. inversion Hok; subst.
    rewrite (flatten_cons it q).
    rewrite execute_app. simpl. rewrite apply_item_eq by assumption.
    apply IH; [assumption|]. apply execute_length; [|assumption]. now apply (item_flat_ok n it).
  Qed.

  Lemma flatten_ok n q : Forall (item_ok n) q ->
    Forall (gate_wf n) (flatten q) /\ Forall gate_shape_ok (flatten q).
  Proof.
    induction q as [|it q IH]; intros Hok; [split; constructor|]. inversion Hok; subst.
    rewrite (flatten_cons it q).
    destruct (item_flat_ok n it H1) as [A1 A2]. destruct (IH H2) as [B1 B2].
    split; apply Forall_app; auto.
  Qed.

  (* the repaired Circuit.unitary on a queue with FusedGates is the operator the queue executes *)
  Theorem unitary_queue_eq n q v : Forall (item_ok n) q -> length v = 2 ^ n ->
    mvmul K (unitary_queue K n q) v = execute_queue K n q v.
  Proof.
    intros Hok Hv. rewrite execute_queue_flatten by assumption.
    destruct (flatten_ok n q Hok) as [H1 H2]. unfold unitary_queue. fold (flatten q). fold (unitary K n (flatten q)).
    now apply (unitary_run_eq K HK).
  Qed.

  Theorem unitary_queue_op n q : Forall (item_ok n) q -> unitary_queue K n q = circ_op K n (flatten q).
  Proof.
    intros Hok. destruct (flatten_ok n q Hok) as [H1 H2]. unfold unitary_queue. fold (flatten q).
    now apply (unitary_eq K HK).
  Qed.
End Queue.

(* HISTORICAL (not part of the live model): before repair 93eb16277 Circuit.unitary skipped every
   SpecialGate, FusedGate included.  For that old model (Model.unitary_queue_skipping) the statement
   above was false: one qubit, queue [FusedGate(0){X, Y}], state |0>. *)
From QV Require Import Base.Zi.
From Coq Require Import ZArith.
Lemma historical_unitary_queue_skipping_wrong :
  exists n (q : list (qitem (T:=Zi))) (v : vec Zi), length v = 2 ^ n /\
    mvmul Ziops (unitary_queue_skipping Ziops n q) v <> execute_queue Ziops n q v.
Proof.
  exists 1, [QFused [0] [(false, [], [0], [[(0, 0); (1, 0)]; [(1, 0); (0, 0)]]%Z);
                         (false, [], [0], [[(0, 0); (0, -1)]; [(0, 1); (0, 0)]]%Z)]], [(1, 0); (0, 0)]%Z.
  split; [reflexivity|]. vm_compute. discriminate.
Qed.
