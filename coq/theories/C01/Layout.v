(* C01/Layout.v : representation independence of the execution entries (round 5, STRENGTHEN_GUIDE family F).
   Model + proofs (self-contained; statements are repeated in C01/PropsLayout.v).

   1. Memory layout.  A user-supplied 2-d array is a VIEW (buffer, offset, shape, strides); what it DENOTES is the
      logical array  logical v = [[ buffer[off + i*rs + j*cs] ]].  The execution models of C01 / C02 / C04 take the
      logical array (mat T), so they are functions of what the view denotes -- a C-ordered and a Fortran-ordered view of
      the same matrix give the same answer (layout_independent).  Flattening in logical order (numpy `ravel()`, order
      "C") is the row-major list of the logical array for every layout; flattening in MEMORY order (numpy
      `ravel(order="K")`) is the transposed matrix's list for a Fortran-ordered view (ravel_K_f_view) and therefore not a
      function of the logical array (ravel_memory_order_is_not_logical).  Only non-negative strides are modelled (reversed views
      are covered by the correspondence stream only).
   2. Labels.  A gate object carries a label (`name`, `draw_label`, `trainable`, ...) beside its operator data.  The model
      of the execution loop, `execute`, does not see labels at all; a loop that SKIPS gates by label
      (execute_skip) agrees with it exactly when every skipped gate acts as the identity (execute_skip_ok), and is wrong
      for a label-colliding non-identity gate (execute_skip_by_label_unsound: X labelled like the identity gate). *)
From Coq Require Import List Bool Arith Lia ZArith.
From QV Require Import Base.Mat Base.Zi C01.Model.
Import ListNotations.

Section Layout.
  Context {A : Type} (d : A).

  Record view := mkview { v_buf : list A; v_off : nat; v_rows : nat; v_cols : nat; v_rs : nat; v_cs : nat }.

  Definition vget (v : view) (i j : nat) : A := nth (v_off v + i * v_rs v + j * v_cs v) (v_buf v) d.
  Definition logical (v : view) : list (list A) :=
    map (fun i => map (fun j => vget v i j) (seq 0 (v_cols v))) (seq 0 (v_rows v)).
  (* numpy ravel(order="C") / reshape(-1): logical row-major order, whatever the strides *)
  Definition ravel_C (v : view) : list A := concat (logical v).
  (* column-major list of the logical array *)
  Definition ravel_F (v : view) : list A :=
    concat (map (fun j => map (fun i => vget v i j) (seq 0 (v_rows v))) (seq 0 (v_cols v))).
  (* numpy ravel(order="K"): axes visited by decreasing stride = memory order *)
  Definition ravel_K (v : view) : list A := if v_rs v <? v_cs v then ravel_F v else ravel_C v.

  Definition well_shaped (r c : nat) (M : list (list A)) : Prop := length M = r /\ Forall (fun row => length row = c) M.
  Definition columns (r c : nat) (M : list (list A)) : list (list A) :=
    map (fun j => map (fun i => nth j (nth i M []) d) (seq 0 r)) (seq 0 c).
  (* the C-contiguous and the Fortran-contiguous array holding M *)
  Definition c_view (r c : nat) (M : list (list A)) : view := mkview (concat M) 0 r c c 1.
  Definition f_view (r c : nat) (M : list (list A)) : view := mkview (concat (columns r c M)) 0 r c 1 r.

  Lemma nth_concat_uniform : forall (l : list (list A)) r i j,
    Forall (fun x => length x = r) l -> i < r -> j < length l ->
    nth (j * r + i) (concat l) d = nth i (nth j l []) d.
  Proof.
    induction l as [|x l IH]; intros r i j Hf Hi Hj; simpl in Hj; [lia|].
    inversion Hf as [|? ? Hx Hl]; subst.
    destruct j as [|j]; simpl.
    - rewrite app_nth1 by lia. reflexivity.
    - rewrite app_nth2 by lia.
      replace (length x + j * length x + i - length x) with (j * length x + i) by lia.
      apply IH; auto; lia.
  Qed.

  Lemma nth_map_seq : forall {B} (f : nat -> B) n j dflt, j < n -> nth j (map f (seq 0 n)) dflt = f j.
  Proof.
    intros B f n j dflt Hj.
    rewrite nth_indep with (d' := f 0) by (rewrite map_length, seq_length; exact Hj).
    rewrite map_nth. rewrite seq_nth by exact Hj. reflexivity.
  Qed.

  Lemma map_nth_seq_id : forall {B} (l : list B) n dflt, length l = n -> map (fun i => nth i l dflt) (seq 0 n) = l.
  Proof.
    intros B l n dflt Hl. apply nth_ext with (d := dflt) (d' := dflt).
    - rewrite map_length, seq_length. auto.
    - intros k Hk. rewrite map_length, seq_length in Hk. rewrite nth_map_seq by exact Hk. reflexivity.
  Qed.

  Lemma rows_from_reads : forall r c (M : list (list A)), well_shaped r c M ->
    map (fun i => map (fun j => nth j (nth i M []) d) (seq 0 c)) (seq 0 r) = M.
  Proof.
    intros r c M [Hr Hc].
    etransitivity; [|apply (map_nth_seq_id M r [] Hr)].
    apply map_ext_in. intros i Hi. apply in_seq in Hi.
    apply map_nth_seq_id.
    rewrite Forall_forall in Hc. apply Hc. apply nth_In. lia.
  Qed.

  Lemma logical_c_view_eq : forall r c M, well_shaped r c M -> logical (c_view r c M) = M.
  Proof.
    intros r c M H. pose proof H as [Hr Hc]. unfold logical, c_view, vget; simpl.
    etransitivity; [|apply (rows_from_reads r c M H)].
    apply map_ext_in. intros i Hi. apply in_seq in Hi.
    apply map_ext_in. intros j Hj. apply in_seq in Hj.
    replace (i * c + j * 1) with (i * c + j) by lia.
    apply nth_concat_uniform; auto; lia.
  Qed.

  Lemma columns_uniform : forall r c M, Forall (fun x => length x = r) (columns r c M).
  Proof.
    intros. unfold columns. apply Forall_forall. intros x Hx. apply in_map_iff in Hx.
    destruct Hx as [j [Hx _]]. subst. rewrite map_length, seq_length. reflexivity.
  Qed.

  Lemma logical_f_view_eq : forall r c M, well_shaped r c M -> logical (f_view r c M) = M.
  Proof.
    intros r c M H. unfold logical, f_view, vget; simpl.
    etransitivity; [|apply (rows_from_reads r c M H)].
    apply map_ext_in. intros i Hi. apply in_seq in Hi.
    apply map_ext_in. intros j Hj. apply in_seq in Hj.
    replace (i * 1 + j * r) with (j * r + i) by lia.
    rewrite nth_concat_uniform.
    - unfold columns. rewrite nth_map_seq by lia. rewrite nth_map_seq by lia. reflexivity.
    - apply columns_uniform.
    - lia.
    - unfold columns. rewrite map_length, seq_length. lia.
  Qed.

  (* every observation computed from the logical array is layout independent *)
  Lemma layout_independent_eq : forall (R : Type) (run : list (list A) -> R) r c M, well_shaped r c M ->
    run (logical (f_view r c M)) = run M /\ run (logical (c_view r c M)) = run M.
  Proof. intros. rewrite logical_f_view_eq, logical_c_view_eq by assumption. split; reflexivity. Qed.

  Lemma ravel_C_layouts_eq : forall r c M, well_shaped r c M ->
    ravel_C (f_view r c M) = concat M /\ ravel_C (c_view r c M) = concat M.
  Proof. intros. unfold ravel_C. rewrite logical_f_view_eq, logical_c_view_eq by assumption. split; reflexivity. Qed.

  (* memory-order flattening of the Fortran-ordered array is the flattening of the TRANSPOSED matrix *)
  Lemma ravel_K_f_view_eq : forall r c M, well_shaped r c M -> 1 < r ->
    ravel_K (f_view r c M) = concat (columns r c M).
  Proof.
    intros r c M H Hr. unfold ravel_K. simpl.
    destruct (Nat.ltb_spec 1 r) as [_|]; [|lia].
    unfold ravel_F. f_equal. simpl.
    pose proof (logical_f_view_eq r c M H) as HL.
    unfold columns. apply map_ext_in. intros j Hj. apply in_seq in Hj.
    apply map_ext_in. intros i Hi. apply in_seq in Hi.
    assert (Hg : nth j (nth i (logical (f_view r c M)) []) d = vget (f_view r c M) i j).
    { unfold logical. simpl. rewrite nth_map_seq by lia. rewrite nth_map_seq by lia. reflexivity. }
    rewrite <- Hg, HL. reflexivity.
  Qed.
End Layout.

(* witness: [[1;2];[3;4]] stored in Fortran order is read as its transpose by a memory-order flattening *)
Lemma ravel_memory_order_is_not_logical_eq :
  exists (M : list (list nat)), well_shaped 2 2 M /\ ravel_K 0 (f_view 0 2 2 M) <> ravel_C 0 (f_view 0 2 2 M)
                                /\ ravel_K 0 (c_view 2 2 M) = ravel_C 0 (c_view 2 2 M).
Proof.
  exists [[1; 2]; [3; 4]]. split; [|split].
  - split; [reflexivity|]. repeat constructor.
  - vm_compute. discriminate.
  - reflexivity.
Qed.

Section Labels.
  Context {T L : Type} (K : ops T).

  (* the execution loop of a queue of LABELLED gates; a label-driven short-cut skips the gates whose label satisfies skip *)
  Definition execute_skip (skip : L -> bool) (n : nat) (lgs : list (L * gate (T:=T))) (psi : vec T) : vec T :=
    fold_left (fun s lg => if skip (fst lg) then s else apply_gate K n (snd lg) s) lgs psi.
  Definition execute_dm_skip (cj : T -> T) (skip : L -> bool) (n : nat) (lgs : list (L * gate (T:=T))) (rho : mat T) : mat T :=
    fold_left (fun s lg => if skip (fst lg) then s else apply_gate_dm K cj n (snd lg) s) lgs rho.

  Lemma execute_skip_ok_eq : forall skip n lgs psi,
    (forall lg, In lg lgs -> skip (fst lg) = true -> forall s, apply_gate K n (snd lg) s = s) ->
    execute_skip skip n lgs psi = execute K n (map snd lgs) psi.
  Proof.
    intros skip n lgs. unfold execute_skip, execute.
    induction lgs as [|lg lgs IH]; intros psi H; simpl; [reflexivity|].
    destruct (skip (fst lg)) eqn:E.
    - rewrite (H lg (or_introl eq_refl) E psi). apply IH. intros; apply H; auto. right; auto.
    - apply IH. intros; apply H; auto. right; auto.
  Qed.

  Lemma execute_dm_skip_ok_eq : forall cj skip n lgs rho,
    (forall lg, In lg lgs -> skip (fst lg) = true -> forall s, apply_gate_dm K cj n (snd lg) s = s) ->
    execute_dm_skip cj skip n lgs rho = execute_dm K cj n (map snd lgs) rho.
  Proof.
    intros cj skip n lgs. unfold execute_dm_skip, execute_dm.
    induction lgs as [|lg lgs IH]; intros rho H; simpl; [reflexivity|].
    destruct (skip (fst lg)) eqn:E.
    - rewrite (H lg (or_introl eq_refl) E rho). apply IH. intros; apply H; auto. right; auto.
    - apply IH. intros; apply H; auto. right; auto.
  Qed.

  (* no short-cut: the labels are irrelevant; two queues with the same operator data execute alike *)
  Lemma labels_irrelevant_eq : forall n (lgs lgs' : list (L * gate (T:=T))) psi,
    map snd lgs = map snd lgs' ->
    execute_skip (fun _ => false) n lgs psi = execute_skip (fun _ => false) n lgs' psi.
  Proof.
    intros n lgs lgs' psi H.
    rewrite !execute_skip_ok_eq by (intros; discriminate). rewrite H. reflexivity.
  Qed.
End Labels.

(* witness: the Pauli X carrying the label of the identity gate (label 0) is dropped by a skip-by-label loop *)
Definition lab_X : gate (T:=Zi) := (false, @nil nat, [0%nat], [[(0, 0); (1, 0)]; [(1, 0); (0, 0)]]%Z).
Lemma execute_skip_by_label_unsound_eq :
  exists (skip : nat -> bool) (lgs : list (nat * gate (T:=Zi))) (psi : vec Zi),
    gate_ok 1 (snd (hd (0, lab_X) lgs)) = true /\
    execute_skip Ziops skip 1 lgs psi <> execute Ziops 1 (map snd lgs) psi.
Proof.
  exists (fun l => Nat.eqb l 0), [(0, lab_X)], [(1, 0); (0, 0)]%Z. split.
  - reflexivity.
  - vm_compute. discriminate.
Qed.
