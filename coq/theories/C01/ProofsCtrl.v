(* C01/ProofsCtrl.v : control_order / reverse_order in closed form, transposition lemmas, and
   apply_gate (controlled branch) = cembed-spec applied to the state. *)
From Coq Require Import List Bool Arith Lia.
From QV Require Import Base.Mat C01.Model C01.Spec C01.Lib C01.ProofsSV.
Import ListNotations.

(* ------------------------------------------------------------------ sorted control lists *)
(* strictly increasing, all elements >= lo *)
Fixpoint incr_from (lo : nat) (l : list nat) : Prop :=
  match l with [] => True | c :: t => lo <= c /\ incr_from (S c) t end.

Lemma incr_from_weaken lo lo' l : lo' <= lo -> incr_from lo l -> incr_from lo' l.
Proof. destruct l; simpl; [trivial|]. intros H [H1 H2]. split; [lia|assumption]. Qed.

Lemma incr_from_ge lo l x : incr_from lo l -> In x l -> lo <= x.
Proof.
  revert lo. induction l as [|c t IH]; simpl; intros lo H Hi; [tauto|]. destruct H as [H1 H2].
  destruct Hi as [->|Hi]; [assumption|]. pose proof (IH (S c) H2 Hi). lia.
Qed.

Lemma incr_from_NoDup lo l : incr_from lo l -> NoDup l.
Proof.
  revert lo. induction l as [|c t IH]; simpl; intros lo H; [constructor|]. destruct H as [H1 H2].
  constructor; [|eauto]. intros Hi. apply (incr_from_ge _ _ _ H2) in Hi. lia.
Qed.

Lemma insert_In x y l : In x (insert y l) <-> x = y \/ In x l.
Proof.
  induction l as [|h t IH]; simpl; [intuition|]. destruct (y <=? h); simpl; [intuition|].
  rewrite IH. intuition.
Qed.

Lemma isort_In x l : In x (isort l) <-> In x l.
Proof.
  induction l as [|h t IH]; simpl; [tauto|]. rewrite insert_In, IH. intuition.
Qed.

Lemma insert_length y l : length (insert y l) = S (length l).
Proof. induction l as [|h t IH]; simpl; [reflexivity|]. destruct (y <=? h); simpl; [reflexivity|now rewrite IH]. Qed.

Lemma isort_length l : length (isort l) = length l.
Proof. induction l as [|h t IH]; simpl; [reflexivity|]. now rewrite insert_length, IH. Qed.

Lemma insert_incr x : forall l lo, incr_from lo l -> lo <= x -> ~ In x l -> incr_from lo (insert x l).
Proof.
  induction l as [|c t IH]; simpl; intros lo H Hx Hi; [auto|]. destruct H as [H1 H2].
  destruct (Nat.leb_spec x c).
  - simpl. split; [lia|]. split; [|assumption]. assert (x <> c) by (intros ->; apply Hi; now left). lia.
  - simpl. split; [assumption|]. apply IH; [assumption|lia|]. intros Ht. apply Hi. now right.
Qed.

Lemma isort_incr l : NoDup l -> incr_from 0 (isort l).
Proof.
  induction l as [|h t IH]; simpl; intros H; [trivial|]. inversion H; subst.
  apply insert_incr; [auto|lia|]. now rewrite isort_In.
Qed.

(* ------------------------------------------------------------------ control_order in closed form *)
Fixpoint co_rest (cs : list nat) (ls n : nat) : list nat :=
  match cs with [] => seq ls (n - ls) | c :: cs' => seq ls (c - ls) ++ co_rest cs' (c + 1) n end.
Fixpoint tadj (cs : list nat) (t0 t : nat) : nat :=
  match cs with [] => t | c :: cs' => tadj cs' t0 (if c <? t0 then t - 1 else t) end.

Lemma combine_map_self {A B C} (g : A -> B) (f : A * B -> C) l :
  map f (combine l (map g l)) = map (fun x => f (x, g x)) l.
Proof. induction l as [|h t IH]; simpl; [reflexivity|]. now rewrite IH. Qed.

Lemma control_order_loop_eq cs : forall ts0 ls order (g : nat -> nat) n,
  control_order_loop cs ts0 ls order (map g ts0) n
  = (order ++ co_rest cs ls n, map (fun t0 => tadj cs t0 (g t0)) ts0).
Proof.
  induction cs as [|c cs IH]; intros ts0 ls order g n; simpl; [reflexivity|].
  rewrite combine_map_self. simpl. rewrite (IH ts0 (c + 1) _ (fun t0 => if c <? t0 then g t0 - 1 else g t0)).
  now rewrite <- app_assoc.
Qed.

Lemma control_order_eq cs ts n :
  control_order cs ts n = (cs ++ co_rest cs 0 n, map (fun t0 => tadj cs t0 t0) ts).
Proof.
  unfold control_order. rewrite <- (map_id ts) at 2. apply control_order_loop_eq.
Qed.

Lemma co_rest_In n : forall cs ls x, incr_from ls cs -> (forall c, In c cs -> c < n) ->
  (In x (co_rest cs ls n) <-> ls <= x < n /\ ~ In x cs).
Proof.
  induction cs as [|c cs IH]; intros ls x Hi Hc; simpl.
  - rewrite in_seq. split; [intros; split; [lia|tauto]|intros [? _]; lia].
  - destruct Hi as [H1 H2]. assert (c < n) by (apply Hc; now left).
    assert (Hc' : forall c0, In c0 cs -> c0 < n) by (intros; apply Hc; now right).
    assert (H2' : incr_from (c + 1) cs) by (now rewrite Nat.add_1_r).
    rewrite in_app_iff, in_seq, (IH (c + 1) x H2' Hc').
    split.
    + intros [H'|[H' Hn]].
      * split; [lia|]. intros [->|Hx]; [lia|]. apply (incr_from_ge _ _ _ H2) in Hx. lia.
      * split; [lia|]. intros [->|Hx]; [lia|contradiction].
    + intros [H' Hn]. destruct (Nat.lt_ge_cases x c); [left; lia|right].
      split; [|intros Hx; apply Hn; now right].
      assert (x <> c) by (intros ->; apply Hn; now left). lia.
Qed.

Lemma co_rest_NoDup n : forall cs ls, incr_from ls cs -> (forall c, In c cs -> c < n) -> NoDup (co_rest cs ls n).
Proof.
  induction cs as [|c cs IH]; intros ls Hi Hc; simpl; [apply seq_NoDup|].
  destruct Hi as [H1 H2].
  assert (Hc' : forall c0, In c0 cs -> c0 < n) by (intros; apply Hc; now right).
  assert (H2' : incr_from (c + 1) cs) by (now rewrite Nat.add_1_r).
  apply NoDup_app_intro; [apply seq_NoDup|now apply IH|].
  intros x Hx Hr. apply in_seq in Hx. apply (co_rest_In n cs (c + 1) x H2' Hc') in Hr. lia.
Qed.

Lemma co_rest_length n : forall cs ls, ls <= n -> incr_from ls cs -> (forall c, In c cs -> c < n) ->
  length (co_rest cs ls n) + length cs + ls = n.
Proof.
  induction cs as [|c cs IH]; intros ls Hls Hi Hc; simpl.
  - rewrite seq_length. lia.
  - destruct Hi as [H1 H2]. assert (c < n) by (apply Hc; now left).
    assert (Hc' : forall c0, In c0 cs -> c0 < n) by (intros; apply Hc; now right).
    assert (H2' : incr_from (c + 1) cs) by (now rewrite Nat.add_1_r).
    rewrite app_length, seq_length. specialize (IH (c + 1) ltac:(lia) H2' Hc'). lia.
Qed.

Lemma seq_nth' ls len i : i < len -> nth i (seq ls len) 0 = ls + i.
Proof. apply seq_nth. Qed.

Lemma tadj_pos n t0 : t0 < n -> forall cs ls old j t,
  incr_from ls cs -> (forall c, In c cs -> c < n) -> ~ In t0 cs -> length old + j = ls ->
  ((t0 < ls /\ t < length old /\ nth t old 0 = t0) \/ (ls <= t0 /\ t + j = t0)) ->
  tadj cs t0 t < length (old ++ co_rest cs ls n) /\ nth (tadj cs t0 t) (old ++ co_rest cs ls n) 0 = t0.
Proof.
  intros Ht0. induction cs as [|c cs IH]; intros ls old j t Hi Hc Hn Hl Hd; simpl.
  - rewrite app_length, seq_length. destruct Hd as [[H1 [H2 H3]]|[H1 H2]].
    + split; [lia|]. now rewrite app_nth1.
    + split; [lia|]. rewrite app_nth2 by lia. rewrite seq_nth by lia. lia.
  - destruct Hi as [Hi1 Hi2]. assert (Hcn : c < n) by (apply Hc; now left).
    assert (Hne : t0 <> c) by (intros ->; apply Hn; now left).
    rewrite app_assoc. apply (IH (c + 1) (old ++ seq ls (c - ls)) (j + 1)).
    + now rewrite Nat.add_1_r.
    + intros; apply Hc; now right.
    + intros H; apply Hn; now right.
    + rewrite app_length, seq_length. lia.
    + destruct Hd as [[H1 [H2 H3]]|[H1 H2]].
      * left. replace (c <? t0) with false by (symmetry; apply Nat.ltb_ge; lia).
        rewrite app_length, seq_length. repeat split; try lia. now rewrite app_nth1.
      * destruct (Nat.ltb_spec c t0).
        -- right. lia.
        -- left. rewrite app_length, seq_length. repeat split; try lia.
           rewrite app_nth2 by lia. rewrite seq_nth by lia. lia.
Qed.

(* everything the proofs need to know about control_order, for sorted controls *)
Lemma control_order_spec n cs ts :
  incr_from 0 cs -> (forall c, In c cs -> c < n) -> NoDup ts -> (forall t, In t ts -> t < n) ->
  (forall t, In t ts -> ~ In t cs) ->
  exists rest ts',
    control_order cs ts n = (cs ++ rest, ts') /\
    NoDup (cs ++ rest) /\ (forall x, In x (cs ++ rest) -> x < n) /\ length (cs ++ rest) = n /\
    length rest = n - length cs /\ length cs <= n /\
    NoDup rest /\ (forall x, In x rest -> x < n) /\ (forall x, In x cs -> ~ In x rest) /\
    length ts' = length ts /\
    (forall j, In j ts' -> j < length rest) /\ map (fun j => nth j rest 0) ts' = ts /\ NoDup ts'.
Proof.
  intros Hi Hc Hn Ht Hd.
  exists (co_rest cs 0 n), (map (fun t0 => tadj cs t0 t0) ts).
  pose proof (co_rest_length n cs 0 (Nat.le_0_l n) Hi Hc) as HL.
  assert (HR : forall x, In x (co_rest cs 0 n) <-> 0 <= x < n /\ ~ In x cs) by (intros; now apply co_rest_In).
  assert (HP : forall t, In t ts -> tadj cs t t < length (co_rest cs 0 n) /\ nth (tadj cs t t) (co_rest cs 0 n) 0 = t).
  { intros t Hin. apply (tadj_pos n t (Ht t Hin) cs 0 [] 0 t Hi Hc (Hd t Hin) eq_refl). right. lia. }
  split; [apply control_order_eq|].
  split. { apply NoDup_app_intro; [eapply incr_from_NoDup; eauto|now apply co_rest_NoDup|].
           intros x Hx Hr. apply HR in Hr. tauto. }
  split. { intros x Hx. apply in_app_iff in Hx. destruct Hx as [Hx|Hx]; [auto|apply HR in Hx; lia]. }
  split. { rewrite app_length. lia. }
  split; [lia|]. split; [lia|].
  split; [now apply co_rest_NoDup|].
  split. { intros x Hx. apply HR in Hx. lia. }
  split. { intros x Hx Hr. apply HR in Hr. tauto. }
  split; [apply map_length|].
  split. { intros j Hj. apply in_map_iff in Hj. destruct Hj as [t [<- Hin]]. now apply HP. }
  split. { rewrite map_map. rewrite <- (map_id ts) at 2. apply map_ext_in. intros t Hin. now apply HP. }
  apply NoDup_map_inj; [|assumption]. intros x y Hx Hy E.
  rewrite <- (proj2 (HP x Hx)), <- (proj2 (HP y Hy)). now rewrite E.
Qed.

(* ------------------------------------------------------------------ permutations of positions *)
Definition is_perm (n : nat) (order : list nat) : Prop :=
  NoDup order /\ (forall x, In x order -> x < n) /\ length order = n.

Lemma perm_complete n order : is_perm n order -> forall j, j < n -> In j order.
Proof.
  intros [Hn [Hb Hl]] j Hj.
  apply (NoDup_length_incl Hn (l' := seq 0 n)).
  - rewrite seq_length. lia.
  - intros x Hx. apply in_seq. apply Hb in Hx. lia.
  - apply in_seq. lia.
Qed.

Definition unsel (order : list nat) (x : list bool) : list bool :=
  map (fun j => nth (index_of j order) x false) (seq 0 (length order)).

Lemma unsel_sel n order b : is_perm n order -> length b = n -> unsel order (sel order b) = b.
Proof.
  intros Hp Hb. pose proof (perm_complete n order Hp) as Hc. destruct Hp as [Hn [Hlt Hl]].
  apply bool_list_ext; [unfold unsel; now rewrite map_length, seq_length, Hl|].
  intros j Hj. unfold unsel in *. rewrite map_length, seq_length, Hl in Hj.
  rewrite Hl, nth_map_seq by assumption.
  rewrite nth_sel by (apply index_of_lt; auto). now rewrite nth_index_of by auto.
Qed.

Lemma index_of_seq n x : x < n -> index_of x (seq 0 n) = x.
Proof.
  intros H. transitivity (index_of (nth x (seq 0 n) 0) (seq 0 n)).
  - now rewrite seq_nth.
  - apply index_of_nth; [apply seq_NoDup|now rewrite seq_length].
Qed.

Lemma index_of_map_inj (f : nat -> nat) x : forall l,
  (forall y, In y l -> f y = f x -> y = x) -> index_of (f x) (map f l) = index_of x l.
Proof.
  induction l as [|h t IH]; intros Hinj; simpl; [reflexivity|].
  destruct (Nat.eqb_spec (f h) (f x)) as [E|E].
  - apply Hinj in E; [|now left]. subst. now rewrite Nat.eqb_refl.
  - destruct (Nat.eqb_spec h x) as [->|Hne]; [congruence|]. f_equal. apply IH.
    intros; apply Hinj; auto. now right.
Qed.

Lemma reverse_order_fold order n : length order = n -> NoDup order -> (forall x, In x order -> x < n) ->
  forall todo done, order = done ++ todo ->
  fold_left (fun ro (ir : nat * nat) => set_nth (snd ir) (fst ir) ro)
            (combine (seq (length done) (length todo)) todo)
            (map (fun r => if memb r done then index_of r order else 0) (seq 0 n))
  = map (fun r => if memb r order then index_of r order else 0) (seq 0 n).
Proof.
  intros Hl Hn Hb. induction todo as [|r todo IH]; intros done E.
  - rewrite app_nil_r in E. now subst.
  - simpl length. simpl seq. simpl combine. simpl fold_left.
    assert (Hr : r < n) by (apply Hb; rewrite E; apply in_app_iff; right; now left).
    assert (Hrd : ~ In r done).
    { rewrite E in Hn. intros Hi. apply (NoDup_app_disj _ _ _ Hn Hi). now left. }
    specialize (IH (done ++ [r])). rewrite app_length in IH. simpl in IH. rewrite Nat.add_1_r in IH.
    rewrite <- IH by (rewrite <- app_assoc; exact E). f_equal.
    apply nth_ext with (d := 0) (d' := 0); [now rewrite set_nth_length, !map_length|].
    intros j Hj. rewrite set_nth_length, map_length, seq_length in Hj.
    rewrite nth_set_nth, map_length, seq_length, !nth_map_seq by assumption.
    rewrite memb_app. simpl. rewrite orb_false_r.
    destruct (Nat.eqb_spec r j) as [<-|Hne]; simpl.
    + replace (r <? n) with true by (symmetry; now apply Nat.ltb_lt). rewrite Nat.eqb_refl, orb_true_r.
      rewrite E, index_of_app_r by assumption. simpl. rewrite Nat.eqb_refl. lia.
    + rewrite (proj2 (Nat.eqb_neq j r)) by congruence. now rewrite orb_false_r.
Qed.

Lemma reverse_order_eq n order : is_perm n order ->
  reverse_order order = map (fun r => index_of r order) (seq 0 n).
Proof.
  intros Hp. pose proof (perm_complete n order Hp) as Hc. destruct Hp as [Hn [Hb Hl]].
  unfold reverse_order. rewrite Hl.
  pose proof (reverse_order_fold order n Hl Hn Hb order [] eq_refl) as H. simpl in H.
  rewrite Hl in H.
  replace (repeat 0 n) with (map (fun _ : nat => 0) (seq 0 n)).
  2:{ clear. generalize 0 at 2. induction n; intros a; simpl; [reflexivity|]. now rewrite IHn. }
  rewrite H. apply map_ext_in. intros r Hr. apply in_seq in Hr.
  replace (memb r order) with true; [reflexivity|]. symmetry. apply memb_In. apply Hc. lia.
Qed.

Lemma reverse_order_length n order : is_perm n order -> length (reverse_order order) = n.
Proof. intros H. rewrite (reverse_order_eq n) by assumption. now rewrite map_length, seq_length. Qed.

Lemma index_of_reverse_order n order j : is_perm n order -> j < n ->
  index_of j (reverse_order order) = nth j order 0.
Proof.
  intros Hp Hj. pose proof (perm_complete n order Hp) as Hc. rewrite (reverse_order_eq n) by assumption.
  destruct Hp as [Hn [Hb Hl]].
  assert (Hin : In (nth j order 0) order) by (apply nth_In; lia).
  rewrite <- (index_of_nth j order 0 Hn) at 1 by lia.
  rewrite (index_of_map_inj (fun r => index_of r order)).
  - apply index_of_seq. auto.
  - intros y Hy E. apply in_seq in Hy.
    rewrite <- (nth_index_of y order 0) by (apply Hc; lia). rewrite E. now apply nth_index_of.
Qed.

Section Transpose.
  Context {T : Type}.
  Lemma ttranspose_unsel order (t : tensor (T:=T)) x : ttranspose order t x = t (unsel order x).
  Proof. reflexivity. Qed.

  Lemma ttranspose_reverse n order (t : tensor (T:=T)) b : is_perm n order ->
    ttranspose (reverse_order order) t b = t (sel order b).
  Proof.
    intros Hp. unfold ttranspose. rewrite (reverse_order_length n) by assumption. f_equal.
    destruct Hp as [Hn [Hb Hl]]. unfold sel.
    transitivity (map (fun q => nth q b false) (map (fun i => nth i order 0) (seq 0 (length order))));
      [|now rewrite map_nth_seq].
    rewrite map_map, Hl. apply map_ext_in. intros j Hj. apply in_seq in Hj.
    now rewrite (index_of_reverse_order n) by (repeat split; auto; lia).
  Qed.
End Transpose.

(* ------------------------------------------------------------------ apply_gate, controlled branch *)
Section Ctrl.
  Context {T : Type} (K : ops T).
  Hypothesis HK : semiring K.
  Local Notation add_comm := (sr_add_comm K HK).
  Local Notation add_assoc := (sr_add_assoc K HK).
  Local Notation add_0_l := (sr_add_0_l K HK).
  Local Notation mul_comm := (sr_mul_comm K HK).
  Local Notation mul_assoc := (sr_mul_assoc K HK).
  Local Notation mul_1_l := (sr_mul_1_l K HK).
  Local Notation mul_0_l := (sr_mul_0_l K HK).
  Local Notation mul_add_l := (sr_mul_add_l K HK).

  (* the textbook controlled action *)
  Definition ctrl_action (cs ts : list nat) (M : mat T) (t : tensor (T:=T)) : tensor :=
    fun r => if all1 (sel cs r) then gate_action K ts M t r else t r.

  Lemma all1_sel cs r : forallb (fun q => nth q r false) cs = all1 (sel cs r).
  Proof. unfold all1, sel. induction cs as [|c cs IH]; simpl; [reflexivity|]. now rewrite IH. Qed.

  Lemma cembed_row_sum n cs ts (G F : list bool -> T) r :
    NoDup ts -> (forall q, In q ts -> q < n) -> length r = n ->
    tsum K (map (fun c => mul K
                   (if forallb (fun q => nth q r false) cs
                    then (if agree_off ts r c then G (sel ts c) else zero K)
                    else (if beqb r c then one K else zero K)) (F c)) (allbits n))
    = if all1 (sel cs r)
      then tsum K (map (fun s => mul K (G s) (F (upd ts s r))) (allbits (length ts)))
      else F r.
  Proof.
    intros Hn Hq Hr. rewrite all1_sel. destruct (all1 (sel cs r)).
    - now apply embed_row_sum.
    - rewrite (tsum_map_ext K _ (fun c => if beqb r c then F c else zero K)).
      + now apply tsum_delta.
      + intros c _. destruct (beqb r c); [apply mul_1_l|apply mul_0_l].
  Qed.

  Lemma mvmul_cembed n cs ts M v :
    NoDup ts -> (forall q, In q ts -> q < n) -> length v = 2 ^ n ->
    mvmul K (cembed K n cs ts M) v = tvec n (ctrl_action cs ts M (vtens K v)).
  Proof.
    intros Hn Hq Hv. unfold mvmul, cembed, tvec. rewrite map_map. apply map_ext_in.
    intros r Hr. apply allbits_In in Hr. rewrite (dot_allbits K n) by assumption.
    unfold ctrl_action, gate_action. now apply (cembed_row_sum n cs ts (fun s => mget K M (idx (sel ts r)) (idx s))).
  Qed.

  Lemma bits_ones m : bits m (2 ^ m - 1) = repeat true m.
  Proof. rewrite <- idx_repeat_true. apply bits_idx. apply repeat_length. Qed.

  Lemma sel_sel rest ts' b : (forall j, In j ts' -> j < length rest) ->
    sel ts' (sel rest b) = sel (map (fun j => nth j rest 0) ts') b.
  Proof.
    intros H. unfold sel at 1 3. rewrite map_map. apply map_ext_in. intros j Hj.
    apply nth_sel. auto.
  Qed.

  (* the state-vector kernel shared with the density-matrix proof: what the model does on the
     transposed tensor, expressed on the original positions *)
  Lemma ctrl_kernel n cs rest ts ts' M (t : tensor (T:=T)) b :
    is_perm n (cs ++ rest) -> NoDup rest -> (forall x, In x cs -> ~ In x ts) ->
    (forall j, In j ts' -> j < length rest) -> map (fun j => nth j rest 0) ts' = ts -> NoDup ts' ->
    length ts' = length ts -> length b = n -> all1 (sel cs b) = true ->
    gate_action K ts' M (fun y => t (unsel (cs ++ rest) (repeat true (length cs) ++ y))) (sel rest b)
    = gate_action K ts M t b.
  Proof.
    intros Hp Hnr Hd Hj Hm Hnt Hlen Hb H1. unfold gate_action. rewrite Hlen.
    apply tsum_map_ext. intros s Hs. apply allbits_In in Hs.
    rewrite sel_sel, Hm by assumption. f_equal. f_equal.
    assert (Hbound : forall x, In x (cs ++ rest) -> x < length b) by (rewrite Hb; apply Hp).
    rewrite <- Hm. rewrite <- sel_upd_perm; auto.
    2:{ intros p Hp'. apply Hbound. apply in_app_iff. now right. }
    rewrite Hm.
    replace (repeat true (length cs)) with (sel cs (upd ts s b)).
    2:{ rewrite sel_upd_other; auto.
        - rewrite <- (sel_length cs b). now apply all1_repeat.
        - intros q Hq. apply Hbound. apply in_app_iff. now left. }
    rewrite <- sel_app. apply (unsel_sel n); [assumption|]. now rewrite upd_length.
  Qed.

  Theorem apply_gate_ctrl_eq n cs ts M v :
    incr_from 0 cs -> (forall c, In c cs -> c < n) -> NoDup ts -> (forall t, In t ts -> t < n) ->
    (forall t, In t ts -> ~ In t cs) -> length v = 2 ^ n ->
    apply_gate_ctrl K n cs ts M v = mvmul K (cembed K n cs ts M) v.
  Proof.
    intros Hi Hc Hn Ht Hd Hv. rewrite mvmul_cembed by assumption.
    destruct (control_order_spec n cs ts Hi Hc Hn Ht Hd)
      as [rest [ts' [Eco [Hnd [Hlt [Hlen [Hlr [Hcn [Hnr [Hrl [Hcr [Hlt' [Hj [Hm Hnt']]]]]]]]]]]]]].
    assert (Hp : is_perm n (cs ++ rest)) by (repeat split; assumption).
    unfold apply_gate_ctrl. rewrite Eco. unfold tvec. apply map_ext_in. intros b Hb. apply allbits_In in Hb.
    rewrite (ttranspose_reverse n) by assumption. rewrite sel_app. unfold unlead.
    rewrite firstn_app_len, skipn_app_len by apply sel_length.
    replace (2 ^ length cs - 1) with (2 ^ length (sel cs b) - 1) by (now rewrite sel_length).
    rewrite idx_all1, ?sel_length.
    unfold ctrl_action. destruct (all1 (sel cs b)) eqn:A; cbn [negb].
    - rewrite <- Hlt'. rewrite einsum_plain; auto.
      2:{ intros q Hq. apply Hj in Hq. lia. }
      2:{ rewrite sel_length. lia. }
      unfold lead. rewrite bits_ones.
      rewrite (gate_action_ext K _ _ _ (fun y => vtens K v (unsel (cs ++ rest) (repeat true (length cs) ++ y)))).
      2:{ intros y. apply ttranspose_unsel. }
      apply (ctrl_kernel n); auto. intros x Hx Hx'. exact (Hd x Hx' Hx).
    - unfold lead. rewrite bits_idx by apply sel_length. rewrite ttranspose_unsel, <- sel_app.
      now rewrite (unsel_sel n).
  Qed.
End Ctrl.
