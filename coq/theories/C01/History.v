(* C01/History.v : executable model of HISTORIES on long-lived objects (no proofs here).
   qibo circuits hold references to mutable gate objects; `Circuit.fuse`, `Circuit.copy(deep=False)` and
   `Circuit.__add__` return circuits that SHARE those objects, `Circuit.set_parameters` / `gate.parameters = v`
   update them in place, and `controlled_by` / `dagger` / `on_qubits` / `invert` / deep copies DERIVE new
   objects from the current value of their source.  The model is a store of gate objects addressed by
   identity (index), circuits whose queues hold references (single objects or FusedGates over member
   objects), and a small language of operations; an observation (state-vector execution, density-matrix
   execution, Circuit.unitary) is computed from the store AS IT IS at that moment by the models of
   C01/Model.v (execute_queue, execute_dm_queue, unitary_queue).
   A parameter update is modelled by the new value of gate.matrix() (the table obligations of C01 tie
   parameters to documented matrices). *)
From Coq Require Import List Bool Arith Lia.
From QV Require Import Base.Mat C01.Model C01.Spec C01.ModelExtra.
Import ListNotations.

Section Hist.
  Context {T : Type} (K : ops T) (cj : T -> T).

  (* queue entry: a gate object, or a FusedGate(target_qubits fq) whose members are gate objects *)
  Inductive qref : Type := RGate (i : nat) | RFused (fq : list nat) (ids : list nat).

  (* a circuit: nqubits, queue, trainable_gates (object ids in the order set_parameters consumes values) *)
  Record circ : Type := { c_n : nat; c_queue : list qref; c_train : list nat }.

  Record hstate : Type := { h_objs : list (gate (T:=T)); h_circs : list circ }.

  Inductive hop : Type :=
  | HNew (g : gate (T:=T))                         (* construct a gate object; its id is the next index *)
  | HSet (i : nat) (M : mat T)                     (* gate.parameters = v : the object's matrix becomes matrix(v) *)
  | HSetCirc (c : nat) (Ms : list (mat T))         (* Circuit.set_parameters: k-th trainable gate gets the k-th value *)
  | HDerive (i : nat) (dag ctrl : bool) (cs ts : list nat)
      (* a NEW object from the current value of object i: placement (ctrl, cs, ts) as given, matrix copied
         (dag = false: controlled_by fall-backs, on_qubits, deep copy) or conjugate-transposed (dagger, invert) *)
  | HCtrlInPlace (i : nat) (cs : list nat)         (* generic Gate.controlled_by: mutates the object itself *)
  | HCirc (c : circ)                               (* a new circuit; aliases (fuse, shallow copy, +) reuse object ids *)
  | HExec (c : nat) (psi : vec T)
  | HExecDM (c : nat) (rho : mat T)
  | HUnitary (c : nat).

  Inductive obs : Type := OVec (v : option (vec T)) | OMat (m : option (mat T)).

  Fixpoint omap {A B} (f : A -> option B) (l : list A) : option (list B) :=
    match l with
    | [] => Some []
    | x :: t => match f x, omap f t with Some y, Some r => Some (y :: r) | _, _ => None end
    end.

  Definition resolve_ref (objs : list (gate (T:=T))) (r : qref) : option (qitem (T:=T)) :=
    match r with
    | RGate i => option_map QGate (nth_error objs i)
    | RFused fq ids => option_map (QFused fq) (omap (nth_error objs) ids)
    end.
  (* the queue as the backend sees it at this moment *)
  Definition resolve (objs : list (gate (T:=T))) (q : list qref) : option (list (qitem (T:=T))) :=
    omap (resolve_ref objs) q.

  Definition gate_nq (g : gate (T:=T)) : nat :=
    let '(ctrl, cs, ts, _) := g in if ctrl then length ts else length (cs ++ ts).
  Definition set_matrix (g : gate (T:=T)) (M : mat T) : gate :=
    let '(ctrl, cs, ts, _) := g in (ctrl, cs, ts, M).
  Definition gate_matrix (g : gate (T:=T)) : mat T := let '(_, _, _, M) := g in M.

  Definition set_obj (objs : list (gate (T:=T))) (i : nat) (M : mat T) : list gate :=
    match nth_error objs i with
    | Some g => set_nth i (set_matrix g M) objs
    | None => objs
    end.

  (* `for i, gate in enumerate(trainable_gates): gate.parameters = parameters[i]` (an object listed twice is
     assigned twice, the last value stays) *)
  Fixpoint set_many (objs : list (gate (T:=T))) (ids : list nat) (Ms : list (mat T)) : list gate :=
    match ids, Ms with
    | i :: ids', M :: Ms' => set_many (set_obj objs i M) ids' Ms'
    | _, _ => objs
    end.

  Definition with_objs (st : hstate) (o : list (gate (T:=T))) : hstate := {| h_objs := o; h_circs := h_circs st |}.

  Definition observe_sv (st : hstate) (c : nat) (psi : vec T) : option (vec T) :=
    match nth_error (h_circs st) c with
    | Some C => match resolve (h_objs st) (c_queue C) with
                | Some q => if Nat.eqb (length psi) (2 ^ c_n C) then Some (execute_queue K (c_n C) q psi) else None
                | None => None
                end
    | None => None
    end.
  Definition observe_dm (st : hstate) (c : nat) (rho : mat T) : option (mat T) :=
    match nth_error (h_circs st) c with
    | Some C => match resolve (h_objs st) (c_queue C) with
                | Some q => if shape_ok (2 ^ c_n C) rho then Some (execute_dm_queue K cj (c_n C) q rho) else None
                | None => None
                end
    | None => None
    end.
  Definition observe_unitary (st : hstate) (c : nat) : option (mat T) :=
    match nth_error (h_circs st) c with
    | Some C => option_map (unitary_queue K (c_n C)) (resolve (h_objs st) (c_queue C))
    | None => None
    end.

  Definition step (st : hstate) (o : hop) : hstate * list obs :=
    match o with
    | HNew g => (with_objs st (h_objs st ++ [g]), [])
    | HSet i M => (with_objs st (set_obj (h_objs st) i M), [])
    | HSetCirc c Ms =>
        match nth_error (h_circs st) c with
        | Some C => (with_objs st (set_many (h_objs st) (c_train C) Ms), [])
        | None => (st, [])
        end
    | HDerive i dag ctrl cs ts =>
        match nth_error (h_objs st) i with
        | Some g => let M := gate_matrix g in
                    let M' := if dag then madj K cj (gate_nq g) M else M in
                    (with_objs st (h_objs st ++ [(ctrl, cs, ts, M')]), [])
        | None => (st, [])
        end
    | HCtrlInPlace i cs =>
        match nth_error (h_objs st) i with
        | Some (_, _, ts, M) => (with_objs st (set_nth i (true, cs, ts, M) (h_objs st)), [])
        | None => (st, [])
        end
    | HCirc C => ({| h_objs := h_objs st; h_circs := h_circs st ++ [C] |}, [])
    | HExec c psi => (st, [OVec (observe_sv st c psi)])
    | HExecDM c rho => (st, [OMat (observe_dm st c rho)])
    | HUnitary c => (st, [OMat (observe_unitary st c)])
    end.

  Fixpoint run_from (st : hstate) (ops : list hop) : hstate * list obs :=
    match ops with
    | [] => (st, [])
    | o :: t => let '(st1, o1) := step st o in let '(st2, o2) := run_from st1 t in (st2, o1 ++ o2)
    end.
  Definition empty_state : hstate := {| h_objs := []; h_circs := [] |}.
  Definition run_history (ops : list hop) : list obs := snd (run_from empty_state ops).

  (* does the queue mention object i ? *)
  Definition ref_mentions (i : nat) (r : qref) : bool :=
    match r with RGate j => Nat.eqb i j | RFused _ ids => existsb (Nat.eqb i) ids end.
  Definition mentions (i : nat) (q : list qref) : bool := existsb (ref_mentions i) q.
End Hist.
