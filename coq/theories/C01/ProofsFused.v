(* C01/ProofsFused.v : matrix_fused on all qubits (Circuit.unitary): block_diag for controls,
   Kronecker product with the identity, reshape, transpose by argsort, reshape back
   = the operator embed / cembed of the gate; the fold is the ordered product. *)
From Coq Require Import List Bool Arith Lia.
From QV Require Import Base.Mat C01.Model C01.Spec C01.Lib C01.ProofsSV C01.ProofsCtrl C01.ProofsMat C01.ProofsRun.
Import ListNotations.

(* ------------------------------------------------------------------ lists *)
Lemma nth_flat_map_uniform {A B} (f : A -> list B) q : forall l, (forall x, In x l -> length (f x) = q) ->
  forall ia ib d d0, ia < length l -> ib < q ->
  nth (ia * q + ib) (flat_map f l) d = nth ib (f (nth ia l d0)) d.
Proof.
  induction l as [|h t IH]; intros H ia ib d d0 Hia Hib; simpl in *; [lia|].
  assert (Hh : length (f h) = q) by (apply H; now left).
  destruct ia as [|ia].
  - simpl. now rewrite app_nth1 by lia.
  - rewrite app_nth2 by (rewrite Hh; simpl; lia).
    rewrite Hh. replace (S ia * q + ib - q) with (ia * q + ib) by (simpl; lia).
    apply IH; auto. lia.
Qed.

Lemma incr_from_nth_ge : forall l lo i, incr_from lo l -> i < length l -> lo + i <= nth i l 0.
Proof.
  induction l as [|c t IH]; intros lo i H Hi; simpl in *; [lia|]. destruct H as [H1 H2].
  destruct i as [|i]; [lia|]. specialize (IH (S c) i H2 ltac:(lia)). lia.
Qed.

Lemma incr_from_seq : forall l lo, incr_from lo l -> (forall x, In x l -> x < lo + length l) ->
  l = seq lo (length l).
Proof.
  induction l as [|c t IH]; intros lo H Hb; [reflexivity|]. simpl in H. destruct H as [H1 H2].
  assert (c = lo).
  { destruct t as [|c' t'].
    - specialize (Hb c (or_introl eq_refl)). simpl in Hb. lia.
    - pose proof (incr_from_nth_ge (c' :: t') (S c) (length t') H2 ltac:(simpl; lia)) as G.
      assert (In (nth (length t') (c' :: t') 0) (c :: c' :: t')) by (right; apply nth_In; simpl; lia).
      apply Hb in H. simpl in H. simpl in G. lia. }
  subst c. simpl. f_equal. apply IH; [assumption|].
  intros x Hx. specialize (Hb x (or_intror Hx)). simpl in Hb. lia.
Qed.

Lemma isort_perm_seq n l : is_perm n l -> isort l = seq 0 n.
Proof.
  intros [Hn [Hb Hl]]. rewrite <- Hl, <- (isort_length l). apply incr_from_seq.
  - now apply isort_incr.
  - intros x Hx. apply (proj1 (isort_In _ _)) in Hx. rewrite isort_length, Hl. simpl. auto.
Qed.

Lemma idx_inj a b : length a = length b -> idx a = idx b -> a = b.
Proof.
  intros Hl E. rewrite <- (bits_idx (length a) a eq_refl), E. now apply bits_idx.
Qed.

Lemma idx_eqb a b : length a = length b -> Nat.eqb (idx a) (idx b) = beqb a b.
Proof.
  intros Hl. apply eq_true_iff_eq. rewrite Nat.eqb_eq, beqb_eq. split; [now apply idx_inj|congruence].
Qed.

(* positions outside qs *)
Definition others (qs : list nat) (n : nat) : list nat := filter (fun q => negb (memb q qs)) (seq 0 n).

Lemma others_perm n qs : NoDup qs -> (forall q, In q qs -> q < n) -> is_perm n (qs ++ others qs n).
Proof.
  intros Hn Hq.
  assert (ND : NoDup (qs ++ others qs n)).
  { apply NoDup_app_intro; [assumption|apply NoDup_filter, seq_NoDup|].
    intros x Hx Ho. apply filter_In in Ho. destruct Ho as [_ Ho]. apply negb_true_iff, memb_false in Ho. contradiction. }
  assert (HB : forall x, In x (qs ++ others qs n) -> x < n).
  { intros x Hx. apply in_app_iff in Hx. destruct Hx as [Hx|Hx]; [auto|].
    apply filter_In in Hx. destruct Hx as [Hx _]. apply in_seq in Hx. lia. }
  repeat split; auto.
  (* length: every j < n occurs, and there are no duplicates *)
  apply Nat.le_antisymm.
  - pose proof (NoDup_incl_length ND (l' := seq 0 n)) as H. rewrite seq_length in H. apply H.
    intros x Hx. apply in_seq. apply HB in Hx. lia.
  - pose proof (NoDup_incl_length (seq_NoDup n 0) (l' := qs ++ others qs n)) as H. rewrite seq_length in H. apply H.
    intros x Hx. apply in_seq in Hx.
    apply in_app_iff. destruct (memb x qs) eqn:Mx; [left; now apply memb_In|right].
    apply filter_In. split; [apply in_seq; lia|now rewrite Mx].
Qed.

Lemma others_agree qs n r c : length r = n -> length c = n ->
  agree_off qs r c = beqb (sel (others qs n) r) (sel (others qs n) c).
Proof.
  intros Hr Hc. apply eq_true_iff_eq. rewrite agree_off_spec, beqb_eq. split.
  - intros [_ H]. unfold sel. apply map_ext_in. intros q Hq. apply filter_In in Hq.
    destruct Hq as [Hq Hm]. apply in_seq in Hq. destruct (H q ltac:(lia)) as [H'|H']; [|assumption].
    rewrite H' in Hm. discriminate.
  - intros E. split; [congruence|]. intros j Hj. destruct (memb j qs) eqn:Mj; [now left|right].
    assert (Hin : In j (others qs n)) by (apply filter_In; split; [apply in_seq; lia|now rewrite Mj]).
    unfold sel in E.
    assert (G : forall l, map (fun q => nth q r false) l = map (fun q => nth q c false) l -> In j l ->
                nth j r false = nth j c false).
    { induction l as [|h t IH]; simpl; [tauto|]. intros E' [->|Hi]; injection E'; auto. }
    exact (G _ E Hin).
Qed.

Section Fused.
  Context {T : Type} (K : ops T).
  Hypothesis HK : semiring K.
  Local Notation mul_1_l := (sr_mul_1_l K HK).
  Local Notation mul_0_l := (sr_mul_0_l K HK).
  Local Notation zero := (zero K).
  Local Notation one := (one K).

  Definition shape (d : nat) (M : mat T) : Prop := length M = d /\ Forall (fun r => length r = d) M.

  Lemma shape_ok_shape d M : shape_ok d M = true -> shape d M.
  Proof.
    unfold shape_ok. rewrite andb_true_iff, Nat.eqb_eq, forallb_forall. intros [H1 H2]. split; [assumption|].
    apply Forall_forall. intros r Hr. apply Nat.eqb_eq. auto.
  Qed.

  Lemma shape_row d M i : shape d M -> i < d -> length (nth i M []) = d.
  Proof. intros [Hl Hr] Hi. rewrite Forall_forall in Hr. apply Hr, nth_In. lia. Qed.

  (* ---------------------------------------------------------------- eye, kron, block_diag entries *)
  Lemma eye_shape d : shape d (eye K d).
  Proof.
    split; [unfold eye; now rewrite map_length, seq_length|]. apply Forall_forall. intros r Hr.
    unfold eye in Hr. apply in_map_iff in Hr. destruct Hr as [i [<- _]]. now rewrite map_length, seq_length.
  Qed.

  Lemma mget_eye d i j : i < d -> j < d -> mget K (eye K d) i j = if Nat.eqb i j then one else zero.
  Proof. intros Hi Hj. unfold mget, eye. rewrite nth_map_seq by assumption. now rewrite nth_map_seq. Qed.

  Lemma krow_flat a b : krow K a b = flat_map (fun x => vscale K x b) a.
  Proof. induction a as [|x a IH]; simpl; [reflexivity|]. now rewrite IH. Qed.

  Lemma mget_kron p q A B ia ib ja jb : shape p A -> shape q B -> ia < p -> ja < p -> ib < q -> jb < q ->
    mget K (kron K A B) (ia * q + ib) (ja * q + jb) = mul K (mget K A ia ja) (mget K B ib jb).
  Proof.
    intros HA HB Hia Hja Hib Hjb. unfold mget, kron. destruct HA as [HAl HAr]. destruct HB as [HBl HBr].
    rewrite (nth_flat_map_uniform _ q A) with (d0 := []); try lia.
    2:{ intros x _. now rewrite map_length. }
    cbv beta. unfold vec, mat in *. rewrite (nth_map_d _ _ _ _ []) by lia.
    rewrite krow_flat.
    assert (Hrow : length (nth ib B []) = q) by (rewrite Forall_forall in HBr; apply HBr, nth_In; lia).
    assert (Hrow' : length (nth ia A []) = p) by (rewrite Forall_forall in HAr; apply HAr, nth_In; lia).
    rewrite (nth_flat_map_uniform _ q (nth ia A [])) with (d0 := zero); try lia.
    2:{ intros x _. unfold vscale. now rewrite map_length. }
    cbv beta. unfold vscale. now rewrite (nth_map_d _ _ _ _ zero) by lia.
  Qed.

  Lemma pow2_pos m : 0 < 2 ^ m.
  Proof. apply Nat.neq_0_lt_0, Nat.pow_nonzero. lia. Qed.

  (* Kronecker product with the identity, on bit strings *)
  Lemma mget_kron_eye k m G a b a' b' : shape (2 ^ k) G ->
    length a = k -> length a' = k -> length b = m -> length b' = m ->
    mget K (kron K G (eye K (2 ^ m))) (idx (a ++ b)) (idx (a' ++ b'))
    = if beqb b b' then mget K G (idx a) (idx a') else zero.
  Proof.
    intros HG Ha Ha' Hb Hb'. rewrite !idx_app, Hb, Hb'.
    pose proof (idx_lt a) as L1. pose proof (idx_lt a') as L2. pose proof (idx_lt b) as L3. pose proof (idx_lt b') as L4.
    rewrite Ha in L1. rewrite Ha' in L2. rewrite Hb in L3. rewrite Hb' in L4.
    rewrite (mget_kron (2 ^ k) (2 ^ m)); auto using eye_shape.
    rewrite mget_eye by assumption. rewrite idx_eqb by congruence.
    destruct (beqb b b'); [apply (mul_1_r K HK)|apply (mul_0_r K HK)].
  Qed.

  (* block_diag(eye d, M) for M of size e *)
  Lemma mget_block_diag d e M i j : shape e M -> 0 < e -> i < d + e -> j < d + e ->
    mget K (block_diag K (eye K d) M) i j
    = if i <? d then (if Nat.eqb i j then one else zero)
      else if j <? d then zero else mget K M (i - d) (j - d).
  Proof.
    intros HM He Hi Hj. unfold mget, block_diag.
    assert (H1 : length (hd [] M) = e).
    { destruct HM as [Hl Hr]. destruct M as [|r0 M']; [simpl in Hl; lia|]. simpl. now inversion Hr. }
    assert (H2 : length (hd [] (eye K d)) = d).
    { destruct d; [reflexivity|]. unfold eye. simpl. now rewrite map_length, seq_length. }
    rewrite H1, H2.
    assert (Le : length (map (fun r : list T => r ++ repeat zero e) (eye K d)) = d)
      by (rewrite map_length; apply eye_shape).
    destruct (Nat.ltb_spec i d) as [Hid|Hid].
    - rewrite app_nth1 by lia. rewrite (nth_map_d _ _ _ _ []) by (destruct (eye_shape d); lia).
      unfold eye. rewrite nth_map_seq by assumption.
      destruct (Nat.lt_ge_cases j d) as [Hjd|Hjd].
      + rewrite app_nth1 by (now rewrite map_length, seq_length). now rewrite nth_map_seq.
      + rewrite app_nth2 by (rewrite map_length, seq_length; lia).
        rewrite nth_repeat. replace (Nat.eqb i j) with false; [reflexivity|].
        symmetry. apply Nat.eqb_neq. lia.
    - rewrite app_nth2 by lia. rewrite Le.
      rewrite (nth_map_d _ _ _ _ []) by (destruct HM; lia).
      destruct (Nat.ltb_spec j d) as [Hjd|Hjd].
      + rewrite app_nth1 by (now rewrite repeat_length). apply nth_repeat.
      + rewrite app_nth2 by (rewrite repeat_length; lia). now rewrite repeat_length.
  Qed.

  Lemma block_diag_eye0 M : block_diag K (eye K 0) M = M.
  Proof. unfold block_diag, eye. simpl. apply map_id. Qed.

  (* ---------------------------------------------------------------- the transposition of matrix_fused *)
  Lemma unsel_double n order r c : is_perm n order -> length r = n -> length c = n ->
    unsel (reverse_order order ++ map (fun i => i + n) (reverse_order order)) (r ++ c)
    = sel order r ++ sel order c.
  Proof.
    intros Hp Hr Hc. pose proof (reverse_order_length n order Hp) as HL.
    unfold unsel. rewrite app_length, map_length, HL. rewrite seq_app, map_app. f_equal.
    - destruct Hp as [Hn [Hb Hl]]. unfold sel.
      transitivity (map (fun q => nth q r false) (map (fun i => nth i order 0) (seq 0 (length order))));
        [|now rewrite map_nth_seq].
      rewrite map_map, Hl. apply map_ext_in. intros j Hj. apply in_seq in Hj.
      assert (Hin : In j (reverse_order order)).
      { rewrite (reverse_order_eq n) by (repeat split; auto). apply in_map_iff.
        exists (nth j order 0). split; [apply index_of_nth; auto; lia|].
        apply in_seq. split; [lia|]. simpl. apply Hb, nth_In. lia. }
      rewrite index_of_app_l by assumption.
      rewrite (index_of_reverse_order n) by (repeat split; auto; lia).
      apply app_nth1. rewrite Hr. apply Hb, nth_In. lia.
    - destruct Hp as [Hn [Hb Hl]]. unfold sel.
      transitivity (map (fun q => nth q c false) (map (fun i => nth i order 0) (seq 0 (length order))));
        [|now rewrite map_nth_seq].
      rewrite map_map, Hl. change (0 + n) with n.
      replace (seq n n) with (seq (n + 0) n) by (f_equal; lia).
      rewrite <- (map_add_seq n n 0), map_map.
      apply map_ext_in. intros j Hj. apply in_seq in Hj.
      assert (Hni : ~ In (n + j) (reverse_order order)).
      { rewrite (reverse_order_eq n) by (repeat split; auto). intros Hi. apply in_map_iff in Hi.
        destruct Hi as [x [E Hx]]. apply in_seq in Hx.
        assert (index_of x order <= length order) by apply index_of_le.
        assert (In x order) by (apply (perm_complete n order); [repeat split; auto|lia]).
        apply index_of_lt in H0. lia. }
      rewrite index_of_app_r by assumption. rewrite HL.
      replace (n + j) with (j + n) by lia.
      rewrite (index_of_map_inj (fun i => i + n)) by (intros; lia).
      rewrite (index_of_reverse_order n) by (repeat split; auto; lia).
      rewrite app_nth2 by lia. f_equal. lia.
  Qed.

  Lemma argsort_perm n order : is_perm n order -> argsort order = reverse_order order.
  Proof.
    intros Hp. unfold argsort. rewrite (isort_perm_seq n) by assumption.
    now rewrite (reverse_order_eq n).
  Qed.

  (* kron with identity + transposition = embed, for any 2^k x 2^k matrix G *)
  Lemma fused_core n qs G : NoDup qs -> (forall q, In q qs -> q < n) -> shape (2 ^ length qs) G ->
    let indices := argsort (qs ++ others qs n) in
    tmat n (ttranspose (indices ++ map (fun i => i + n) indices)
              (mtens K n (kron K G (eye K (2 ^ (n - length qs))))))
    = embed K n qs G.
  Proof.
    intros Hn Hq HG. pose proof (others_perm n qs Hn Hq) as Hp. cbv zeta.
    rewrite (argsort_perm n) by assumption. rewrite embed_tab2. unfold tmat. apply tab2_ext.
    intros r c Hr Hc. rewrite ttranspose_unsel, (unsel_double n) by assumption.
    rewrite !sel_app.
    assert (Lo : forall x, length (sel (others qs n) x) = n - length qs).
    { intros x. rewrite sel_length. destruct Hp as [_ [_ Hl]]. rewrite app_length in Hl. lia. }
    assert (Ln : length (sel qs r ++ sel (others qs n) r) = n).
    { rewrite app_length, Lo, sel_length. destruct Hp as [_ [_ Hl]]. rewrite app_length in Hl. lia. }
    unfold mtens. rewrite firstn_app_len, skipn_app_len by assumption.
    rewrite (mget_kron_eye (length qs) (n - length qs)); auto using sel_length.
    now rewrite <- (others_agree qs n r c Hr Hc).
  Qed.

  (* ---------------------------------------------------------------- controls as a block matrix *)
  Lemma agree_sel_eq qs r c : length r = length c -> (forall q, In q qs -> q < length r) ->
    (agree_off qs r c = true /\ sel qs r = sel qs c) <-> r = c.
  Proof.
    intros Hl Hq. split.
    - intros [Ha Hs]. apply agree_off_spec in Ha. destruct Ha as [_ Ha].
      apply bool_list_ext; [assumption|]. intros j Hj. destruct (Ha j Hj) as [Hm|He]; [|assumption].
      apply memb_In in Hm. unfold sel in Hs.
      assert (G : forall l, map (fun q => nth q r false) l = map (fun q => nth q c false) l -> In j l ->
                  nth j r false = nth j c false).
      { induction l as [|h t IH]; simpl; [tauto|]. intros E' [->|Hi]; injection E'; auto. }
      exact (G _ Hs Hm).
    - intros ->. split; [|reflexivity]. apply agree_off_spec. split; [reflexivity|]. intros; now right.
  Qed.

  Lemma agree_off_app cs ts r c : length r = length c -> (forall q, In q cs -> q < length r) ->
    (forall q, In q cs -> ~ In q ts) ->
    (agree_off ts r c = true <-> agree_off (cs ++ ts) r c = true /\ sel cs r = sel cs c).
  Proof.
    intros Hl Hq Hd. rewrite !agree_off_spec. split.
    - intros [_ H]. split; [split; [assumption|]|].
      + intros j Hj. destruct (H j Hj) as [Hm|He]; [left|now right]. rewrite memb_app, Hm. apply orb_true_r.
      + unfold sel. apply map_ext_in. intros q Hqc. destruct (H q (Hq q Hqc)) as [Hm|He]; [|assumption].
        apply memb_In in Hm. exfalso. exact (Hd q Hqc Hm).
    - intros [[_ H] Hs]. split; [assumption|]. intros j Hj. destruct (H j Hj) as [Hm|He]; [|now right].
      rewrite memb_app in Hm. destruct (memb j ts) eqn:Mt; [now left|right].
      rewrite orb_false_r in Hm. apply memb_In in Hm. unfold sel in Hs.
      assert (G : forall l, map (fun q => nth q r false) l = map (fun q => nth q c false) l -> In j l ->
                  nth j r false = nth j c false).
      { induction l as [|h t IH]; simpl; [tauto|]. intros E' [->|Hi]; injection E'; auto. }
      exact (G _ Hs Hm).
  Qed.

  Lemma all1_idx a : all1 a = negb (idx a <? 2 ^ length a - 1).
  Proof. rewrite idx_all1. now rewrite negb_involutive. Qed.

  Lemma embed_block_diag n cs ts M :
    NoDup cs -> (forall q, In q (cs ++ ts) -> q < n) -> (forall q, In q cs -> ~ In q ts) ->
    shape (2 ^ length ts) M ->
    embed K n (cs ++ ts) (block_diag K (eye K (2 ^ length (cs ++ ts) - length M)) M) = cembed K n cs ts M.
  Proof.
    intros Hnc Hb Hd HM. rewrite embed_tab2, cembed_tab2. apply tab2_ext. intros r c Hr Hc.
    rewrite all1_sel. destruct HM as [HMl HMr]. rewrite HMl.
    set (nc := length cs). set (nt := length ts).
    assert (E2 : 2 ^ length (cs ++ ts) = 2 ^ nc * 2 ^ nt) by (rewrite app_length; apply Nat.pow_add_r).
    pose proof (pow2_pos nc) as P1. pose proof (pow2_pos nt) as P2.
    set (d := 2 ^ length (cs ++ ts) - 2 ^ nt).
    assert (Ed : d = (2 ^ nc - 1) * 2 ^ nt) by (unfold d; rewrite E2, Nat.mul_sub_distr_r; lia).
    assert (Hcs : forall q, In q cs -> q < length r) by (intros; rewrite Hr; apply Hb, in_app_iff; now left).
    assert (Hall : forall q, In q (cs ++ ts) -> q < length r) by (intros; rewrite Hr; now apply Hb).
    assert (Hlen : length r = length c) by congruence.
    (* index arithmetic for a row/column index idx (a ++ b) *)
    assert (IDX : forall x, idx (sel (cs ++ ts) x) = idx (sel cs x) * 2 ^ nt + idx (sel ts x)
                            /\ idx (sel cs x) < 2 ^ nc /\ idx (sel ts x) < 2 ^ nt).
    { intros x. rewrite sel_app, idx_app, sel_length. fold nt.
      pose proof (idx_lt (sel cs x)) as L1. pose proof (idx_lt (sel ts x)) as L2.
      rewrite sel_length in L1, L2. auto. }
    destruct (IDX r) as [Ir [Ir1 Ir2]]. destruct (IDX c) as [Ic [Ic1 Ic2]].
    assert (LT : forall x, (idx (sel (cs ++ ts) x) <? d) = negb (all1 (sel cs x))).
    { intros x. destruct (IDX x) as [Ix [Ix1 Ix2]]. rewrite all1_idx, negb_involutive, sel_length. fold nc.
      rewrite Ix, Ed. destruct (Nat.ltb_spec (idx (sel cs x)) (2 ^ nc - 1)); [apply Nat.ltb_lt|apply Nat.ltb_ge]; nia. }
    assert (SUB : forall x, all1 (sel cs x) = true -> idx (sel (cs ++ ts) x) - d = idx (sel ts x)).
    { intros x Hx. destruct (IDX x) as [Ix [Ix1 Ix2]]. rewrite all1_idx, sel_length in Hx. fold nc in Hx.
      apply negb_true_iff, Nat.ltb_ge in Hx. rewrite Ix, Ed. nia. }
    assert (BD : mget K (block_diag K (eye K d) M) (idx (sel (cs ++ ts) r)) (idx (sel (cs ++ ts) c))
                 = if all1 (sel cs r)
                   then (if all1 (sel cs c) then mget K M (idx (sel ts r)) (idx (sel ts c)) else zero)
                   else (if beqb (sel (cs ++ ts) r) (sel (cs ++ ts) c) then one else zero)).
    { rewrite (mget_block_diag d (2 ^ nt)); try (split; assumption); try lia; try (rewrite Ed; nia).
      rewrite !LT. destruct (all1 (sel cs r)) eqn:Ar; cbn [negb].
      - destruct (all1 (sel cs c)) eqn:Ac; cbn [negb]; [|reflexivity]. now rewrite !SUB.
      - apply f_equal with (f := fun b : bool => if b then one else zero).
        apply idx_eqb. now rewrite !sel_length. }
    fold d. rewrite BD. clear BD.
    destruct (all1 (sel cs r)) eqn:Ar.
    - destruct (agree_off ts r c) eqn:At.
      + apply (agree_off_app cs ts r c Hlen Hcs Hd) in At. destruct At as [At Es]. rewrite At, <- Es, Ar. reflexivity.
      + destruct (agree_off (cs ++ ts) r c) eqn:Aa; [|reflexivity].
        destruct (all1 (sel cs c)) eqn:Ac; [|reflexivity]. exfalso.
        assert (Es : sel cs r = sel cs c).
        { rewrite (all1_repeat _ Ar), (all1_repeat _ Ac). now rewrite !sel_length. }
        assert (X : agree_off ts r c = true) by (apply (agree_off_app cs ts r c Hlen Hcs Hd); auto).
        congruence.
    - destruct (beqb r c) eqn:Brc.
      + apply beqb_eq in Brc. subst c.
        replace (agree_off (cs ++ ts) r r) with true by (symmetry; now apply (agree_sel_eq (cs ++ ts) r r eq_refl Hall)).
        now rewrite beqb_refl.
      + destruct (agree_off (cs ++ ts) r c) eqn:Aa; [|reflexivity].
        destruct (beqb (sel (cs ++ ts) r) (sel (cs ++ ts) c)) eqn:Bs; [|reflexivity]. exfalso.
        apply beqb_eq in Bs. assert (r = c) by (apply (agree_sel_eq (cs ++ ts) r c Hlen Hall); auto).
        subst. rewrite beqb_refl in Brc. discriminate.
  Qed.

  (* ---------------------------------------------------------------- one gate, then the fold *)
  (* the matrix has the size the real reshape demands *)
  Definition gate_shape_ok (g : gate (T:=T)) : Prop :=
    let '(ctrl, cs, ts, M) := g in shape (2 ^ (if ctrl then length ts else length (cs ++ ts))) M.

  Lemma filter_others qs n :
    filter (fun q => negb (memb q qs)) (seq 0 n) = others qs n.
  Proof. reflexivity. Qed.

  Lemma fused_gate_eq n g : gate_wf n g -> gate_shape_ok g ->
    fused_gate_matrix K (seq 0 n) g = gate_op K n g.
  Proof.
    destruct g as [[[ctrl cs0] ts] M]. intros [Hc [Ht [Hlt Hd]]] HS. unfold gate_shape_ok in HS.
    unfold fused_gate_matrix. rewrite seq_length. cbv beta iota zeta. fold (others (isort cs0 ++ ts) n).
    set (cs := isort cs0).
    assert (Hcs : NoDup cs) by (apply (incr_from_NoDup 0), isort_incr; assumption).
    assert (HIn : forall x, In x cs <-> In x cs0) by (intros; apply isort_In).
    assert (Hq : forall q, In q (cs ++ ts) -> q < n).
    { intros q Hq. apply Hlt. apply in_app_iff in Hq. apply in_app_iff. destruct Hq; [left; now apply HIn|now right]. }
    assert (Hnq : NoDup (cs ++ ts)).
    { apply NoDup_app_intro; auto. intros x Hx Hx'. apply HIn in Hx. exact (Hd x Hx' Hx). }
    assert (Hdd : forall q, In q cs -> ~ In q ts) by (intros q Hq' Hq''; apply HIn in Hq'; exact (Hd q Hq'' Hq')).
    assert (Lcs : length cs = length cs0) by apply isort_length.
    simpl gate_op. destruct ctrl.
    - (* controlled_by: M acts on the targets *)
      destruct (Nat.ltb_spec 0 (length cs)) as [Hpos|Hz].
      + rewrite (fused_core n (cs ++ ts)); auto.
        * rewrite embed_block_diag; auto. apply cembed_isort.
        * destruct HS as [HSl HSr]. rewrite HSl.
          assert (E2 : 2 ^ length (cs ++ ts) = 2 ^ length cs * 2 ^ length ts) by (rewrite app_length; apply Nat.pow_add_r).
          pose proof (pow2_pos (length cs)). pose proof (pow2_pos (length ts)).
          split.
          -- unfold block_diag. rewrite app_length, !map_length, HSl. destruct (eye_shape (2 ^ length (cs ++ ts) - 2 ^ length ts)) as [El _].
             rewrite El. nia.
          -- apply Forall_forall. intros row Hrow. unfold block_diag in Hrow. apply in_app_iff in Hrow.
             assert (H1 : length (hd [] M) = 2 ^ length ts).
             { destruct M as [|r0 M']; [simpl in HSl; lia|]. simpl. now inversion HSr. }
             assert (H2 : length (hd [] (eye K (2 ^ length (cs ++ ts) - 2 ^ length ts))) = 2 ^ length (cs ++ ts) - 2 ^ length ts).
             { destruct (2 ^ length (cs ++ ts) - 2 ^ length ts); [reflexivity|]. unfold eye. simpl. now rewrite map_length, seq_length. }
             rewrite H1, H2 in Hrow. destruct Hrow as [Hrow|Hrow]; apply in_map_iff in Hrow; destruct Hrow as [x [<- Hx]].
             ++ rewrite app_length, repeat_length.
                destruct (eye_shape (2 ^ length (cs ++ ts) - 2 ^ length ts)) as [_ Er]. rewrite Forall_forall in Er.
                rewrite (Er x Hx). nia.
             ++ rewrite app_length, repeat_length. rewrite Forall_forall in HSr. rewrite (HSr x Hx). nia.
      + assert (cs = []) by (destruct cs; [reflexivity|simpl in Hz; lia]).
        assert (Hcs0 : length cs0 = 0) by (rewrite <- Lcs, H; reflexivity).
        assert (cs0 = []) by (destruct cs0; [reflexivity|simpl in Hcs0; lia]).
        rewrite H. subst cs0. cbn [app]. rewrite (fused_core n ts); auto.
    - (* plain gate: M acts on gate.qubits = sorted controls ++ targets *)
      assert (G : (if 0 <? length cs then block_diag K (eye K (2 ^ length (cs ++ ts) - length M)) M else M) = M).
      { destruct (0 <? length cs); [|reflexivity]. destruct HS as [HSl _].
        rewrite HSl. rewrite !app_length, Lcs, Nat.sub_diag. apply block_diag_eye0. }
      rewrite G. apply (fused_core n (cs ++ ts)); auto.
      rewrite app_length, Lcs, <- app_length. exact HS.
  Qed.

  Lemma eye_midentity n : eye K (2 ^ n) = midentity K n.
  Proof.
    rewrite midentity_tab2. unfold eye, tab2. rewrite <- map_idx_allbits, map_map.
    apply map_ext_in. intros r Hr. rewrite map_map. apply map_ext_in. intros c Hc.
    apply allbits_In in Hr. apply allbits_In in Hc. rewrite idx_eqb by congruence. reflexivity.
  Qed.

  Theorem unitary_eq n gs : Forall (gate_wf n) gs -> Forall gate_shape_ok gs ->
    unitary K n gs = circ_op K n gs.
  Proof.
    intros Hw Hs. unfold unitary, matrix_fused, circ_op. rewrite seq_length, eye_midentity.
    generalize (midentity K n). induction gs as [|g gs IH]; intros U; [reflexivity|].
    inversion Hw; subst. inversion Hs; subst. simpl. rewrite fused_gate_eq by assumption. now apply IH.
  Qed.

  Theorem unitary_run_eq n gs v : Forall (gate_wf n) gs -> Forall gate_shape_ok gs -> length v = 2 ^ n ->
    mvmul K (unitary K n gs) v = execute K n gs v.
  Proof. intros Hw Hs Hv. rewrite unitary_eq by assumption. symmetry. now apply (execute_eq K HK). Qed.

End Fused.

