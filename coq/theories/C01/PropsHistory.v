(* C01/PropsHistory.v : properties C01 / C02 on HISTORIES of long-lived objects (model: C01/History.v; proofs:
   C01/ProofsHistory.v).  Statements only.
   The store holds gate objects by identity; circuits hold references, so alias circuits (Circuit.fuse, shallow copies,
   `+`) share objects while derived objects (controlled_by fall-backs, dagger, on_qubits, invert, deep copies) get fresh
   identities.  All theorems are universally quantified over the carrier, the state of the store (hence over every
   history that produced it), the circuits and the inputs.
   What the hypotheses exclude: dangling references (resolve = None; cannot happen in Python), queues whose current gates
   are ill-formed (item_ok: the real `Circuit.add` / constructors reject them), inputs of the wrong shape (ValueError).
   Input non-mutation is not expressible in this purely functional model (inputs are values); it is checked on the
   implementation by the harness (snapshots of every user-supplied array before / after each call).
   Satisfiability of the hypotheses: C01/ExamplesHistory.v. *)
From Coq Require Import List Bool Arith Lia.
From QV Require Import Base.Mat C01.Model C01.ModelExtra C01.Spec C01.Lib C01.ProofsMat C01.ProofsRun C01.ProofsFused
  C01.ProofsQueue C01.ProofsDM C01.ProofsExtra C01.History C01.ProofsHistory.
Import ListNotations.

(* State-vector execution after ANY history is the Spec operator of the gates' CURRENT matrices, in queue order:
   the observation is a function of the current abstract state only (no memo of earlier parameter values). *)
Theorem history_exec_ok : forall (T : Type) (K : ops T), semiring K ->
  forall (st : hstate (T:=T)) c C q psi,
  nth_error (h_circs st) c = Some C -> resolve (h_objs st) (c_queue C) = Some q ->
  Forall (item_ok (c_n C)) q -> length psi = 2 ^ c_n C ->
  observe_sv K st c psi = Some (mvmul K (circ_op K (c_n C) (flatten q)) psi).
Proof. exact @observe_sv_eq. Qed.
Print Assumptions history_exec_ok.

(* Density-matrix execution after any history is U rho U^dagger for the SAME current operator U *)
Theorem history_exec_dm_ok : forall (T : Type) (K : ops T) (cj : T -> T), semiring K -> conj_ok K cj ->
  forall (st : hstate (T:=T)) c C q rho,
  nth_error (h_circs st) c = Some C -> resolve (h_objs st) (c_queue C) = Some q ->
  Forall (item_ok (c_n C)) q -> shape_ok (2 ^ c_n C) rho = true ->
  observe_dm K cj st c rho = Some (sandwich K cj (c_n C) (circ_op K (c_n C) (flatten q)) rho).
Proof. exact @observe_dm_eq. Qed.
Print Assumptions history_exec_dm_ok.

(* Circuit.unitary() after any history is that same operator *)
Theorem history_unitary_ok : forall (T : Type) (K : ops T), semiring K ->
  forall (st : hstate (T:=T)) c C q,
  nth_error (h_circs st) c = Some C -> resolve (h_objs st) (c_queue C) = Some q ->
  Forall (item_ok (c_n C)) q ->
  observe_unitary K st c = Some (circ_op K (c_n C) (flatten q)).
Proof. exact @observe_unitary_eq. Qed.
Print Assumptions history_unitary_ok.

(* History vs fresh: after any history `ops`, every observation equals the same observation on objects and circuits
   built from scratch out of the current values (rebuild st = constructors of the current objects, then the circuits). *)
Theorem history_vs_fresh : forall (T : Type) (K : ops T) (cj : T -> T) (ops : list (hop (T:=T))) (o : hop),
  let st := fst (run_from K cj empty_state ops) in
  snd (step K cj st o) = snd (step K cj (fst (run_from K cj empty_state (rebuild st))) o).
Proof. exact @history_vs_fresh_eq. Qed.
Print Assumptions history_vs_fresh.

(* Frame: `gate_i.parameters = v` changes no observation of a circuit that does not hold object i *)
Theorem update_frame_ok : forall (T : Type) (K : ops T) (cj : T -> T) (st : hstate (T:=T)) i M c C o,
  nth_error (h_circs st) c = Some C -> mentions i (c_queue C) = false ->
  (o = HUnitary c \/ (exists psi, o = HExec c psi) \/ (exists rho, o = HExecDM c rho)) ->
  snd (step K cj (fst (step K cj st (HSet i M))) o) = snd (step K cj st o).
Proof. exact @update_frame. Qed.
Print Assumptions update_frame_ok.

(* A derived object is independent of its source: deriving changes no observation of an existing circuit (the new
   object has a fresh identity; with update_frame_ok, later updates of the source do not reach circuits over it) *)
Theorem derive_frame_ok : forall (T : Type) (K : ops T) (cj : T -> T) (st : hstate (T:=T)) i dag ctrl cs ts c C q o,
  nth_error (h_circs st) c = Some C -> resolve (h_objs st) (c_queue C) = Some q ->
  (o = HUnitary c \/ (exists psi, o = HExec c psi) \/ (exists rho, o = HExecDM c rho)) ->
  snd (step K cj (fst (step K cj st (HDerive i dag ctrl cs ts))) o) = snd (step K cj st o).
Proof. exact @derive_frame. Qed.
Print Assumptions derive_frame_ok.

(* Circuit.set_parameters = the individual assignments gate.parameters = v_k in trainable_gates order *)
Theorem set_parameters_is_assignments : forall (T : Type) (K : ops T) (cj : T -> T) (st : hstate (T:=T)) c C Ms,
  nth_error (h_circs st) c = Some C -> length Ms = length (c_train C) ->
  fst (step K cj st (HSetCirc c Ms)) =
  fst (run_from K cj st (map (fun p => HSet (fst p) (snd p)) (combine (c_train C) Ms))).
Proof. exact @set_circ_is_sets. Qed.
Print Assumptions set_parameters_is_assignments.
