(* C01/ProofsRun.v : apply_gate for a gate as qibo stores it (controls in any order, flag
   is_controlled_by) and the execution loop = ordered product of the gate operators. *)
From Coq Require Import List Bool Arith Lia.
From QV Require Import Base.Mat C01.Model C01.Spec C01.Lib C01.ProofsSV C01.ProofsCtrl C01.ProofsMat.
Import ListNotations.

Section Run.
  Context {T : Type} (K : ops T).
  Hypothesis HK : semiring K.

  (* what qibo guarantees about a gate it accepted into a circuit of n qubits *)
  Definition gate_wf (n : nat) (g : gate (T:=T)) : Prop :=
    let '(_, cs, ts, _) := g in
    NoDup cs /\ NoDup ts /\ (forall q, In q (cs ++ ts) -> q < n) /\ (forall t, In t ts -> ~ In t cs).

  Lemma gate_ok_wf n g : gate_ok n g = true -> gate_wf n g.
  Proof.
    destruct g as [[[ctrl cs] ts] M]. unfold gate_ok, gate_wf. rewrite !andb_true_iff.
    intros [[[[[H1 H2] H3] H4] _] _].
    apply nodupb_NoDup in H1, H2, H3. rewrite forallb_forall in H4.
    repeat split; auto.
    - intros q Hq. apply Nat.ltb_lt. auto.
    - intros t Ht Hc. exact (NoDup_app_disj _ _ _ H3 Hc Ht).
  Qed.

  Lemma forallb_insert (f : nat -> bool) x l : forallb f (insert x l) = f x && forallb f l.
  Proof.
    induction l as [|h t IH]; simpl; [reflexivity|]. destruct (x <=? h); simpl; [reflexivity|].
    rewrite IH. destruct (f x), (f h); reflexivity.
  Qed.

  Lemma forallb_isort (f : nat -> bool) l : forallb f (isort l) = forallb f l.
  Proof. induction l as [|h t IH]; simpl; [reflexivity|]. now rewrite forallb_insert, IH. Qed.

  Lemma cembed_isort n cs ts M : cembed K n (isort cs) ts M = cembed K n cs ts M.
  Proof.
    unfold cembed. apply map_ext. intros r. apply map_ext. intros c. now rewrite forallb_isort.
  Qed.

  Lemma gate_op_wf n g : wf_mat n (gate_op K n g).
  Proof. destruct g as [[[ctrl cs] ts] M]. simpl. destruct ctrl; apply tab2_wf. Qed.

  Theorem apply_gate_eq n g v : gate_wf n g -> length v = 2 ^ n ->
    apply_gate K n g v = mvmul K (gate_op K n g) v.
  Proof.
    destruct g as [[[ctrl cs] ts] M]. intros [Hc [Ht [Hlt Hd]]] Hv. simpl.
    assert (Hcs : forall c, In c (isort cs) -> c < n).
    { intros c Hi. apply Hlt, in_app_iff. left. now apply isort_In. }
    assert (Hts : forall t, In t ts -> t < n) by (intros t Hi; apply Hlt, in_app_iff; now right).
    destruct ctrl.
    - rewrite <- (cembed_isort n cs ts M). apply (apply_gate_ctrl_eq K HK); auto.
      + now apply isort_incr.
      + intros t Hi Hs. apply (proj1 (isort_In _ _)) in Hs. exact (Hd t Hi Hs).
    - apply (apply_gate_plain_eq K HK); auto.
      + apply NoDup_app_intro; [apply (incr_from_NoDup 0), isort_incr; assumption|assumption|].
        intros x Hx Hx'. apply (proj1 (isort_In _ _)) in Hx. exact (Hd x Hx' Hx).
      + intros q Hq. apply in_app_iff in Hq. destruct Hq; auto.
  Qed.

  Lemma apply_gate_length n g v : gate_wf n g -> length v = 2 ^ n -> length (apply_gate K n g v) = 2 ^ n.
  Proof. intros Hg Hv. rewrite apply_gate_eq by assumption. apply (mvmul_length K n). apply gate_op_wf. Qed.

  Lemma execute_gen n gs : Forall (gate_wf n) gs -> forall U v0, wf_mat n U -> length v0 = 2 ^ n ->
    execute K n gs (mvmul K U v0)
    = mvmul K (fold_left (fun U g => mmul K (gate_op K n g) U) gs U) v0.
  Proof.
    induction gs as [|g gs IH]; intros Hall U v0 HU Hv; [reflexivity|].
    inversion Hall; subst. simpl.
    rewrite apply_gate_eq by (auto; now apply (mvmul_length K n)).
    rewrite <- (mvmul_mmul K HK n) by (auto using gate_op_wf).
    apply IH; auto. apply (mmul_wf K HK); auto using gate_op_wf.
  Qed.

  Theorem execute_eq n gs v : Forall (gate_wf n) gs -> length v = 2 ^ n ->
    execute K n gs v = mvmul K (circ_op K n gs) v.
  Proof.
    intros Hall Hv. unfold circ_op. rewrite <- execute_gen; auto.
    - now rewrite (mvmul_identity K HK).
    - rewrite midentity_tab2. apply tab2_wf.
  Qed.

  Lemma circ_op_wf n gs : wf_mat n (circ_op K n gs).
  Proof.
    unfold circ_op. assert (H : wf_mat n (midentity K n)) by (rewrite midentity_tab2; apply tab2_wf).
    revert H. generalize (midentity K n). induction gs as [|g gs IH]; intros U HU; simpl; [assumption|].
    apply IH. apply (mmul_wf K HK); auto using gate_op_wf.
  Qed.
End Run.
