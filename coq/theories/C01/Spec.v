(* C01/Spec.v : what the models are proved against.  The operator of a gate is Base/Mat.cembed
   (controlled_by gates) or Base/Mat.embed on gate.qubits = sorted controls ++ targets; states are
   column vectors, density matrices are conjugated U rho U^dagger; a circuit is the ordered product. *)
From Coq Require Import List Bool Arith Lia.
From QV Require Import Base.Mat C01.Model.
Import ListNotations.

Section Spec.
  Context {T : Type} (K : ops T) (cj : T -> T).

  Definition dot (r v : vec T) : T :=
    tsum K (map (fun ab : T * T => mul K (fst ab) (snd ab)) (combine r v)).
  Definition mvmul (A : mat T) (v : vec T) : vec T := map (fun r => dot r v) A.

  (* conjugate transpose of a 2^n x 2^n matrix *)
  Definition madj (n : nat) (A : mat T) : mat T :=
    map (fun r => map (fun c => cj (mget K A (idx c) (idx r))) (allbits n)) (allbits n).

  Definition gate_op (n : nat) (g : gate (T:=T)) : mat T :=
    let '(ctrl, cs, ts, M) := g in
    if ctrl then cembed K n cs ts M else embed K n (isort cs ++ ts) M.

  Definition circ_op (n : nat) (gs : list (gate (T:=T))) : mat T :=
    fold_left (fun U g => mmul K (gate_op n g) U) gs (midentity K n).

  Definition sandwich (n : nat) (U rho : mat T) : mat T := mmul K U (mmul K rho (madj n U)).
End Spec.
