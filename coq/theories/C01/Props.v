(* C01/Props.v : property C01 (index / execution part).  Statements only; proofs are in
   ProofsSV / ProofsCtrl / ProofsRun / ProofsFused / ProofsQueue.  Models: C01/Model.v, spec: C01/Spec.v + Base/Mat.v.
   All theorems are universally quantified over the carrier (any commutative semiring), the number
   of qubits, the qubit placement (any order, any adjacency), the matrix and the state.
   Inputs the real code rejects (and that the hypotheses exclude): duplicate / overlapping /
   out-of-range qubits, states of the wrong length; more than 52 einsum characters (n + k > 52)
   raise NotImplementedError in the real code and are not distinguished by the model.
   A gate matrix of the wrong size is rejected by the real reshape; the model reads missing entries
   as 0 through Base/Mat.mget on both sides, so the index theorems need no shape hypothesis
   (this says nothing about the real code on such inputs); the unitary theorems state the shape.
   Satisfiability of the hypotheses: C01/Examples.v. *)
From Coq Require Import List Bool Arith Lia.
From Coq Require Import ZArith.
From QV Require Import Base.Zi Base.Mat C01.Model C01.Spec C01.Lib C01.ProofsSV C01.ProofsCtrl C01.ProofsMat
  C01.ProofsRun C01.ProofsFused C01.ProofsQueue.
Import ListNotations.

(* the einsum string of prepare_strings / apply_gate_string applies M to the named qubits *)
Theorem apply_gate_plain_ok : forall (T : Type) (K : ops T), semiring K ->
  forall n qs (M : mat T) (v : vec T),
  NoDup qs -> (forall q, In q qs -> q < n) -> length v = 2 ^ n ->
  apply_gate_plain K n qs M v = mvmul K (embed K n qs M) v.
Proof. exact @apply_gate_plain_eq. Qed.
Print Assumptions apply_gate_plain_ok.

(* controlled branch (transpose by control_order, update the all-ones slice, transpose back);
   cs = Gate.control_qubits, i.e. sorted; any number of controls 0..n-k *)
Theorem apply_gate_ctrl_ok : forall (T : Type) (K : ops T), semiring K ->
  forall n cs ts (M : mat T) (v : vec T),
  incr_from 0 cs -> (forall c, In c cs -> c < n) -> NoDup ts -> (forall t, In t ts -> t < n) ->
  (forall t, In t ts -> ~ In t cs) -> length v = 2 ^ n ->
  apply_gate_ctrl K n cs ts M v = mvmul K (cembed K n cs ts M) v.
Proof. exact @apply_gate_ctrl_eq. Qed.
Print Assumptions apply_gate_ctrl_ok.

(* a gate as qibo stores it: flag is_controlled_by, controls in the order given by the user *)
Theorem apply_gate_ok : forall (T : Type) (K : ops T), semiring K ->
  forall n (g : gate) (v : vec T), gate_wf n g -> length v = 2 ^ n ->
  apply_gate K n g v = mvmul K (gate_op K n g) v.
Proof. exact @apply_gate_eq. Qed.
Print Assumptions apply_gate_ok.

(* the execution loop applies the gates in queue order *)
Theorem execute_ok : forall (T : Type) (K : ops T), semiring K ->
  forall n (gs : list gate) (v : vec T), Forall (gate_wf n) gs -> length v = 2 ^ n ->
  execute K n gs v = mvmul K (circ_op K n gs) v.
Proof. exact @execute_eq. Qed.
Print Assumptions execute_ok.

(* matrix_fused on all qubits (= Circuit.unitary) is the ordered product of the gate operators *)
Theorem unitary_ok : forall (T : Type) (K : ops T), semiring K ->
  forall n (gs : list (gate (T:=T))), Forall (gate_wf n) gs -> Forall (gate_shape_ok) gs ->
  unitary K n gs = circ_op K n gs.
Proof. exact @unitary_eq. Qed.
Print Assumptions unitary_ok.

Theorem unitary_is_run : forall (T : Type) (K : ops T), semiring K ->
  forall n (gs : list gate) (v : vec T), Forall (gate_wf n) gs -> Forall (gate_shape_ok) gs ->
  length v = 2 ^ n ->
  mvmul K (unitary K n gs) v = execute K n gs v.
Proof. exact @unitary_run_eq. Qed.
Print Assumptions unitary_is_run.

(* Circuits whose queue contains FusedGates (the result of Circuit.fuse): elementary gates and
   FusedGate(sorted target_qubits, member gates).  A FusedGate executes matrix_fused on its qubit
   subset; the repaired Circuit.unitary includes the members of every FusedGate.
   item_ok: elementary gates are well formed; a FusedGate has strictly increasing in-range
   target_qubits and well-formed members whose qubits lie in them. *)
Theorem fused_gate_ok : forall (T : Type) (K : ops T), semiring K ->
  forall n fq (gs : list (gate (T:=T))), incr_from 0 fq -> (forall q, In q fq -> q < n) ->
  Forall (member_ok n fq) gs ->
  embed K n fq (matrix_fused K fq gs) = circ_op K n gs.
Proof. exact @embed_matrix_fused. Qed.
Print Assumptions fused_gate_ok.

Theorem execute_queue_ok : forall (T : Type) (K : ops T), semiring K ->
  forall n (q : list qitem) (v : vec T), Forall (item_ok n) q -> length v = 2 ^ n ->
  execute_queue K n q v = mvmul K (circ_op K n (flatten q)) v.
Proof.
  intros T K HK n q v Hok Hv. rewrite (execute_queue_flatten K HK) by assumption.
  apply (execute_eq K HK); [|assumption]. now apply (flatten_ok n q).
Qed.
Print Assumptions execute_queue_ok.

Theorem unitary_queue_ok : forall (T : Type) (K : ops T), semiring K ->
  forall n (q : list qitem) (v : vec T), Forall (item_ok n) q -> length v = 2 ^ n ->
  mvmul K (unitary_queue K n q) v = execute_queue K n q v.
Proof. exact @unitary_queue_eq. Qed.
Print Assumptions unitary_queue_ok.
