(* C01/ProofsHistory.v : proofs about the history model C01/History.v. *)
From Coq Require Import List Bool Arith Lia.
From QV Require Import Base.Mat C01.Model C01.ModelExtra C01.Spec C01.Lib C01.ProofsSV C01.ProofsCtrl C01.ProofsMat
  C01.ProofsRun C01.ProofsFused C01.ProofsQueue C01.ProofsDM C01.ProofsRunDM C01.ProofsDMCor C01.ProofsExtra
  C01.History.
Import ListNotations.

Section HistProofs.
  Context {T : Type} (K : ops T) (cj : T -> T).
  Hypothesis HK : semiring K.
  Hypothesis HC : conj_ok K cj.

  (* ---------------------------------------------------------------- observations = Spec of the CURRENT store *)
  Lemma observe_sv_eq st c C q psi :
    nth_error (h_circs st) c = Some C -> resolve (h_objs st) (c_queue C) = Some q ->
    Forall (item_ok (c_n C)) q -> length psi = 2 ^ c_n C ->
    observe_sv K st c psi = Some (mvmul K (circ_op K (c_n C) (flatten q)) psi).
  Proof.
    intros Hc Hq Hok Hl. unfold observe_sv. rewrite Hc, Hq. rewrite (proj2 (Nat.eqb_eq _ _) Hl). f_equal.
    rewrite (execute_queue_flatten K HK) by assumption.
    apply (execute_eq K HK); [|assumption]. now apply (flatten_ok (c_n C) q).
  Qed.

  Lemma observe_dm_eq st c C q rho :
    nth_error (h_circs st) c = Some C -> resolve (h_objs st) (c_queue C) = Some q ->
    Forall (item_ok (c_n C)) q -> shape_ok (2 ^ c_n C) rho = true ->
    observe_dm K cj st c rho = Some (sandwich K cj (c_n C) (circ_op K (c_n C) (flatten q)) rho).
  Proof.
    intros Hc Hq Hok Hs. unfold observe_dm. rewrite Hc, Hq, Hs. f_equal.
    apply (execute_dm_queue_eq K cj HK HC); [assumption|]. now apply shape_ok_shape.
  Qed.

  Lemma observe_unitary_eq st c C q :
    nth_error (h_circs st) c = Some C -> resolve (h_objs st) (c_queue C) = Some q ->
    Forall (item_ok (c_n C)) q ->
    observe_unitary K st c = Some (circ_op K (c_n C) (flatten q)).
  Proof.
    intros Hc Hq Hok. unfold observe_unitary. rewrite Hc, Hq. simpl. f_equal.
    now apply (unitary_queue_op K HK).
  Qed.

  (* ---------------------------------------------------------------- frame: updates of objects a queue does not mention *)
  Lemma nth_error_set_nth_other {A} (l : list A) i j x : i <> j -> nth_error (set_nth i x l) j = nth_error l j.
  Proof.
    revert i j. induction l as [|h t IH]; intros i j Hij; [destruct i; reflexivity|].
    destruct i as [|i], j as [|j]; simpl; try reflexivity; [lia|]. apply IH. lia.
  Qed.

  Lemma nth_error_set_obj_other (objs : list (gate (T:=T))) i j M : i <> j ->
    nth_error (set_obj objs i M) j = nth_error objs j.
  Proof.
    intros Hij. unfold set_obj. destruct (nth_error objs i); [|reflexivity]. now apply nth_error_set_nth_other.
  Qed.

  Lemma omap_ext {A B} (f g : A -> option B) l : (forall x, In x l -> f x = g x) -> omap f l = omap g l.
  Proof.
    induction l as [|x t IH]; intros H; [reflexivity|]. simpl.
    rewrite (H x (or_introl eq_refl)), IH; [reflexivity|]. intros y Hy. apply H. now right.
  Qed.

  Lemma resolve_set_other (objs : list (gate (T:=T))) i M q : mentions i q = false ->
    resolve (set_obj objs i M) q = resolve objs q.
  Proof.
    intros Hm. unfold resolve. apply omap_ext. intros r Hr.
    assert (Hr' : ref_mentions i r = false).
    { unfold mentions in Hm. destruct (ref_mentions i r) eqn:E; [|reflexivity].
      assert (existsb (ref_mentions i) q = true) by (apply existsb_exists; eauto). congruence. }
    destruct r as [j|fq ids]; simpl in *.
    - rewrite nth_error_set_obj_other; [reflexivity|]. intros ->. now rewrite Nat.eqb_refl in Hr'.
    - f_equal. apply omap_ext. intros j Hj. apply nth_error_set_obj_other. intros ->.
      assert (existsb (Nat.eqb j) ids = true) by (apply existsb_exists; exists j; split; [assumption|apply Nat.eqb_refl]).
      congruence.
  Qed.

  (* appending a new object (constructor, derive) changes no existing reference *)
  Lemma nth_error_app_some {A} (l l' : list A) j x : nth_error l j = Some x -> nth_error (l ++ l') j = Some x.
  Proof. intros H. rewrite nth_error_app1; [assumption|]. apply nth_error_Some. congruence. Qed.

  Lemma omap_some_mono {A B} (f g : A -> option B) l r :
    (forall x y, f x = Some y -> g x = Some y) -> omap f l = Some r -> omap g l = Some r.
  Proof.
    intros Hfg. revert r. induction l as [|x t IH]; intros r H; [assumption|]. simpl in *.
    destruct (f x) as [y|] eqn:E; [|discriminate]. destruct (omap f t) as [r'|] eqn:E'; [|discriminate].
    rewrite (Hfg _ _ E), (IH _ eq_refl). assumption.
  Qed.

  Lemma resolve_app (objs more : list (gate (T:=T))) q r : resolve objs q = Some r -> resolve (objs ++ more) q = Some r.
  Proof.
    unfold resolve. apply omap_some_mono. intros [j|fq ids] y; simpl.
    - destruct (nth_error objs j) eqn:E; [|discriminate]. intros H. now rewrite (nth_error_app_some _ _ _ _ E).
    - destruct (omap (nth_error objs) ids) as [gs|] eqn:E; [|discriminate]. intros H.
      rewrite (omap_some_mono (nth_error objs) (nth_error (objs ++ more)) ids gs); [assumption| |assumption].
      intros x g. apply nth_error_app_some.
  Qed.

  (* observations of a circuit that does not mention object i are unchanged by gate_i.parameters = v *)
  Theorem update_frame st i M c C o :
    nth_error (h_circs st) c = Some C -> mentions i (c_queue C) = false ->
    (o = HUnitary c \/ (exists psi, o = HExec c psi) \/ (exists rho, o = HExecDM c rho)) ->
    snd (step K cj (fst (step K cj st (HSet i M))) o) = snd (step K cj st o).
  Proof.
    intros Hc Hm Ho. simpl fst.
    destruct Ho as [->|[[psi ->]|[rho ->]]]; simpl; unfold observe_unitary, observe_sv, observe_dm; simpl;
      rewrite Hc, (resolve_set_other _ _ _ _ Hm); reflexivity.
  Qed.

  (* a derived object (controlled_by fall-back, dagger, on_qubits, deep copy) gets a fresh identity: no observation of
     an existing circuit changes, and later updates of the source do not reach circuits over the derived object *)
  Theorem derive_frame st i dag ctrl cs ts c C q o :
    nth_error (h_circs st) c = Some C -> resolve (h_objs st) (c_queue C) = Some q ->
    (o = HUnitary c \/ (exists psi, o = HExec c psi) \/ (exists rho, o = HExecDM c rho)) ->
    snd (step K cj (fst (step K cj st (HDerive i dag ctrl cs ts))) o) = snd (step K cj st o).
  Proof.
    intros Hc Hq Ho. simpl. destruct (nth_error (h_objs st) i) as [g|]; [|reflexivity]. simpl fst.
    destruct Ho as [->|[[psi ->]|[rho ->]]]; simpl; unfold observe_unitary, observe_sv, observe_dm; simpl;
      rewrite Hc, Hq, (resolve_app _ _ _ _ Hq); reflexivity.
  Qed.

  (* ---------------------------------------------------------------- history vs fresh rebuild *)
  (* building the CURRENT objects and circuits from scratch *)
  Definition rebuild (st : hstate (T:=T)) : list (hop (T:=T)) := map HNew (h_objs st) ++ map HCirc (h_circs st).

  Lemma run_from_app st ops1 ops2 :
    run_from K cj st (ops1 ++ ops2) =
    let '(st1, o1) := run_from K cj st ops1 in let '(st2, o2) := run_from K cj st1 ops2 in (st2, o1 ++ o2).
  Proof.
    revert st. induction ops1 as [|o t IH]; intros st; simpl.
    - destruct (run_from K cj st ops2). reflexivity.
    - destruct (step K cj st o) as [st1 o1]. rewrite IH.
      destruct (run_from K cj st1 t) as [st2 o2]. destruct (run_from K cj st2 ops2) as [st3 o3].
      now rewrite app_assoc.
  Qed.

  Lemma run_news objs circs gs :
    run_from K cj {| h_objs := objs; h_circs := circs |} (map HNew gs) = ({| h_objs := objs ++ gs; h_circs := circs |}, []).
  Proof.
    revert objs. induction gs as [|g t IH]; intros objs; simpl; [now rewrite app_nil_r|].
    unfold with_objs. simpl. rewrite IH. now rewrite <- app_assoc.
  Qed.

  Lemma run_circs objs circs Cs :
    run_from K cj {| h_objs := objs; h_circs := circs |} (map HCirc Cs) = ({| h_objs := objs; h_circs := circs ++ Cs |}, []).
  Proof.
    revert circs. induction Cs as [|C t IH]; intros circs; simpl; [now rewrite app_nil_r|].
    rewrite IH. now rewrite <- app_assoc.
  Qed.

  Lemma rebuild_state st : run_from K cj empty_state (rebuild st) = (st, []).
  Proof.
    unfold rebuild, empty_state. rewrite run_from_app, run_news, run_circs. destruct st. reflexivity.
  Qed.

  (* whatever the history, every observation equals the same observation on objects and circuits freshly built
     from the current values *)
  Theorem history_vs_fresh_eq ops o :
    let st := fst (run_from K cj empty_state ops) in
    snd (step K cj st o) = snd (step K cj (fst (run_from K cj empty_state (rebuild st))) o).
  Proof. intros st. now rewrite rebuild_state. Qed.

  (* Circuit.set_parameters is the sequence of the individual assignments, in trainable_gates order *)
  Lemma set_circ_is_sets st c C Ms :
    nth_error (h_circs st) c = Some C -> length Ms = length (c_train C) ->
    fst (step K cj st (HSetCirc c Ms)) =
    fst (run_from K cj st (map (fun p => HSet (fst p) (snd p)) (combine (c_train C) Ms))).
  Proof.
    intros Hc _. simpl. rewrite Hc. simpl. generalize (c_train C) as ids. intros ids.
    destruct st as [objs circs]. unfold with_objs. simpl. clear Hc.
    revert objs Ms. induction ids as [|i t IH]; intros objs Ms; [reflexivity|].
    destruct Ms as [|M Ms']; [reflexivity|]. simpl. unfold with_objs. simpl.
    specialize (IH (set_obj objs i M) Ms').
    destruct (run_from K cj {| h_objs := set_obj objs i M; h_circs := circs |}
                (map (fun p => HSet (fst p) (snd p)) (combine t Ms'))) as [s2 o2]. simpl in *. assumption.
  Qed.
End HistProofs.
