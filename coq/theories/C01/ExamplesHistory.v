(* C01/ExamplesHistory.v : a concrete history over the Gaussian integers showing that the hypotheses of the theorems of
   C01/PropsHistory.v are satisfiable and that the statements are not vacuous: a circuit, its fused alias (sharing the
   gate objects) and a circuit over a derived (controlled) object; the parameters are updated through the ORIGINAL
   circuit and the alias must see the new values while the derived object keeps the old ones. *)
From Coq Require Import List Bool Arith Lia ZArith.
From QV Require Import Base.Mat Base.Zi C01.Model C01.Spec C01.Lib C01.ProofsCtrl C01.ProofsMat
  C01.ProofsRun C01.ProofsFused C01.ProofsQueue C01.ProofsDM C01.ProofsDMCor C01.ModelExtra C01.ProofsExtra
  C01.Examples C01.History C01.ProofsHistory.
Import ListNotations.

Definition hx_A : mat Zi := [[(0, 0); (0, -1)]; [(0, -1); (0, 0)]]%Z.      (* RX(pi) = -iX *)
Definition hx_B : mat Zi := [[(1, 0); (0, 0)]; [(0, 0); (0, 1)]]%Z.        (* U1(pi/2) *)
Definition hx_A' : mat Zi := [[(-1, 0); (0, 0)]; [(0, 0); (-1, 0)]]%Z.     (* RX(2pi) = -1 *)
Definition hx_B' : mat Zi := [[(1, 0); (0, 0)]; [(0, 0); (-1, 0)]]%Z.      (* U1(pi) *)
Definition hx_psi : vec Zi := [(1, 0); (0, 1); (2, -1); (1, 1); (0, 0); (-1, 0); (0, 2); (3, 0)]%Z.

Definition hx_c0 : circ := {| c_n := 3; c_queue := [RGate 0; RGate 1]; c_train := [0; 1] |}.
Definition hx_c1 : circ := {| c_n := 3; c_queue := [RFused [0; 2] [0; 1]]; c_train := [0; 1] |}.   (* c0.fuse() *)
Definition hx_c2 : circ := {| c_n := 3; c_queue := [RGate 2]; c_train := [] |}.  (* Circuit over gate0.controlled_by(1) *)

Definition hx_build : list (hop (T:=Zi)) :=
  [HNew (false, [], [2], hx_A); HNew (false, [], [0], hx_B); HCirc hx_c0; HCirc hx_c1;
   HDerive 0 false true [1] [2]; HCirc hx_c2].
Definition hx_history : list (hop (T:=Zi)) :=
  hx_build ++ [HExec 1 hx_psi; HExec 2 hx_psi; HSetCirc 0 [hx_A'; hx_B']; HExec 1 hx_psi; HExec 2 hx_psi; HUnitary 1].

Definition hx_state : hstate (T:=Zi) := fst (run_from Ziops zi_conj empty_state (hx_build ++ [HSetCirc 0 [hx_A'; hx_B']])).
Definition hx_q1 : list (qitem (T:=Zi)) := [QFused [0; 2] [(false, [], [2], hx_A'); (false, [], [0], hx_B')]].

(* the hypotheses of history_exec_ok / history_exec_dm_ok / history_unitary_ok hold in the state after the update *)
Example hx_hyps :
  nth_error (h_circs hx_state) 1 = Some hx_c1 /\ resolve (h_objs hx_state) (c_queue hx_c1) = Some hx_q1 /\
  Forall (item_ok (c_n hx_c1)) hx_q1 /\ length hx_psi = 2 ^ c_n hx_c1.
Proof.
  split; [reflexivity|]. split; [reflexivity|]. split; [|reflexivity].
  unfold hx_q1, hx_A', hx_B'. repeat (apply Forall_cons || apply Forall_nil);
    unfold item_ok, member_ok, gate_wf, gate_shape_ok, shape, gate_qubits; simpl; fin.
Qed.

(* the alias (circuit 1) sees the update made through circuit 0, the derived object (circuit 2) does not *)
Example hx_values :
  match run_history Ziops zi_conj hx_history with
  | [OVec (Some a1); OVec (Some d1); OVec (Some a2); OVec (Some d2); OMat (Some u)] =>
      a1 <> a2 /\ d1 = d2 /\ d1 <> hx_psi /\
      a2 = mvmul Ziops (circ_op Ziops 3 (flatten hx_q1)) hx_psi /\ u = circ_op Ziops 3 (flatten hx_q1)
  | _ => False
  end.
Proof. vm_compute. repeat split; try reflexivity; discriminate. Qed.

(* update_frame_ok / derive_frame_ok: circuit 2 does not mention objects 0 and 1 *)
Example hx_frame : mentions 0 (c_queue hx_c2) = false /\ mentions 1 (c_queue hx_c2) = false
  /\ mentions 0 (c_queue hx_c1) = true.
Proof. repeat split. Qed.
