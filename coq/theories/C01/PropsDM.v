(* placeholder, filled in below *)
From QV Require Import Base.Mat C01.Model C01.Spec.
