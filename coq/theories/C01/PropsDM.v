(* C01/PropsDM.v : property C02.  Density-matrix execution returns U rho U^dagger.
   Statements only; proofs in ProofsDM / ProofsRunDM.  The carrier is any commutative semiring with
   a conjugation cj (cj 0 = 0, cj 1 = 1, additive, multiplicative); rho is ANY 2^n x 2^n matrix
   (Hermitian or not).  madj = conjugate transpose, sandwich n U rho = U * (rho * madj U).
   Satisfiability of the hypotheses: C01/Examples.v. *)
From Coq Require Import List Bool Arith Lia.
From QV Require Import Base.Mat C01.Model C01.Spec C01.Lib C01.ProofsSV C01.ProofsCtrl C01.ProofsMat
  C01.ProofsRun C01.ProofsDM C01.ProofsRunDM C01.ProofsDMCor.
Import ListNotations.

(* right einsum with conj(M), then left einsum with M *)
Theorem dm_plain_ok : forall (T : Type) (K : ops T) (cj : T -> T), semiring K -> conj_ok K cj ->
  forall n qs (M rho : mat T),
  NoDup qs -> (forall q, In q qs -> q < n) -> wf_mat n rho ->
  apply_gate_dm_plain K cj n qs M rho = sandwich K cj n (embed K n qs M) rho.
Proof. exact @dm_plain_eq. Qed.
Print Assumptions dm_plain_ok.

(* controlled branch: transpose by control_order_density_matrix, the blocks 01, 10, 11 are updated
   with the batched strings (label c of dimension 2^ncontrol - 1), 00 is kept, reassembled and
   transposed back *)
Theorem dm_ctrl_ok : forall (T : Type) (K : ops T) (cj : T -> T), semiring K -> conj_ok K cj ->
  forall n cs ts (M rho : mat T),
  incr_from 0 cs -> (forall c, In c cs -> c < n) -> NoDup ts -> (forall t, In t ts -> t < n) ->
  (forall t, In t ts -> ~ In t cs) -> wf_mat n rho ->
  apply_gate_dm_ctrl K cj n cs ts M rho = sandwich K cj n (cembed K n cs ts M) rho.
Proof. exact @dm_ctrl_eq. Qed.
Print Assumptions dm_ctrl_ok.

(* apply_gate_half_density_matrix = E rho (plain gates; the real code refuses controlled_by) *)
Theorem dm_half_ok : forall (T : Type) (K : ops T), semiring K ->
  forall n qs (M rho : mat T),
  NoDup qs -> (forall q, In q qs -> q < n) -> wf_mat n rho ->
  apply_gate_half_dm K n qs M rho = mmul K (embed K n qs M) rho.
Proof. exact @dm_half_eq. Qed.
Print Assumptions dm_half_ok.

Theorem apply_gate_dm_ok : forall (T : Type) (K : ops T) (cj : T -> T), semiring K -> conj_ok K cj ->
  forall n (g : gate) (rho : mat T), gate_wf n g -> wf_mat n rho ->
  apply_gate_dm K cj n g rho = sandwich K cj n (gate_op K n g) rho.
Proof. exact @apply_gate_dm_eq. Qed.
Print Assumptions apply_gate_dm_ok.

(* the density-matrix loop returns U rho U^dagger for the same U as the state-vector loop (C01.execute_ok) *)
Theorem dm_run_ok : forall (T : Type) (K : ops T) (cj : T -> T), semiring K -> conj_ok K cj ->
  forall n (gs : list gate) (rho : mat T), Forall (gate_wf n) gs -> wf_mat n rho ->
  execute_dm K cj n gs rho = sandwich K cj n (circ_op K n gs) rho.
Proof. exact @execute_dm_eq. Qed.
Print Assumptions dm_run_ok.

(* consequences.  outer n v w = |v><w|, mtrace = trace, hermitian n A := madj A = A.
   Positivity needs an order on the carrier and is not stated: it follows from the form U rho U^dagger. *)
Theorem dm_pure_ok : forall (T : Type) (K : ops T) (cj : T -> T), semiring K -> conj_ok K cj ->
  forall n (gs : list gate) (psi : vec T), Forall (gate_wf n) gs -> length psi = 2 ^ n ->
  execute_dm K cj n gs (outer K cj n psi psi) = outer K cj n (execute K n gs psi) (execute K n gs psi).
Proof. exact @dm_pure_eq. Qed.
Print Assumptions dm_pure_ok.

Theorem dm_hermitian_ok : forall (T : Type) (K : ops T) (cj : T -> T), semiring K -> conj_ok K cj ->
  (forall a, cj (cj a) = a) ->
  forall n (gs : list gate) (rho : mat T), Forall (gate_wf n) gs -> wf_mat n rho ->
  hermitian K cj n rho -> hermitian K cj n (execute_dm K cj n gs rho).
Proof. exact @dm_hermitian_eq. Qed.
Print Assumptions dm_hermitian_ok.

(* the trace is preserved when the circuit operator is an isometry (U^dagger U = 1); unitarity of the
   individual gate tables is the subject of the table obligations of C01, not of this file *)
Theorem dm_trace_ok : forall (T : Type) (K : ops T) (cj : T -> T), semiring K -> conj_ok K cj ->
  forall n (gs : list gate) (rho : mat T), Forall (gate_wf n) gs -> wf_mat n rho ->
  mmul K (madj K cj n (circ_op K n gs)) (circ_op K n gs) = midentity K n ->
  mtrace K n (execute_dm K cj n gs rho) = mtrace K n rho.
Proof. exact @dm_trace_eq. Qed.
Print Assumptions dm_trace_ok.
