(* C01/PropsDM.v : property C02.  Density-matrix execution returns U rho U^dagger.
   Statements only; proofs in ProofsDM / ProofsRunDM.  The carrier is any commutative semiring with
   a conjugation cj (cj 0 = 0, cj 1 = 1, additive, multiplicative); rho is ANY 2^n x 2^n matrix
   (Hermitian or not).  madj = conjugate transpose, sandwich n U rho = U * (rho * madj U).
   Satisfiability of the hypotheses: C01/Examples.v. *)
From Coq Require Import List Bool Arith Lia.
From QV Require Import Base.Mat C01.Model C01.Spec C01.Lib C01.ProofsSV C01.ProofsCtrl C01.ProofsMat
  C01.ProofsRun C01.ProofsFused C01.ProofsQueue C01.ProofsDM C01.ProofsRunDM C01.ProofsDMCor
  C01.ModelExtra C01.ProofsGram C01.ProofsExtra.
Import ListNotations.

(* right einsum with conj(M), then left einsum with M *)
Theorem dm_plain_ok : forall (T : Type) (K : ops T) (cj : T -> T), semiring K -> conj_ok K cj ->
  forall n qs (M rho : mat T),
  NoDup qs -> (forall q, In q qs -> q < n) -> wf_mat n rho ->
  apply_gate_dm_plain K cj n qs M rho = sandwich K cj n (embed K n qs M) rho.
Proof. exact @dm_plain_eq. Qed.
Print Assumptions dm_plain_ok.

(* controlled branch: transpose by control_order_density_matrix, the blocks 01, 10, 11 are updated
   with the batched strings (label c of dimension 2^ncontrol - 1), 00 is kept, reassembled and
   transposed back *)
Theorem dm_ctrl_ok : forall (T : Type) (K : ops T) (cj : T -> T), semiring K -> conj_ok K cj ->
  forall n cs ts (M rho : mat T),
  incr_from 0 cs -> (forall c, In c cs -> c < n) -> NoDup ts -> (forall t, In t ts -> t < n) ->
  (forall t, In t ts -> ~ In t cs) -> wf_mat n rho ->
  apply_gate_dm_ctrl K cj n cs ts M rho = sandwich K cj n (cembed K n cs ts M) rho.
Proof. exact @dm_ctrl_eq. Qed.
Print Assumptions dm_ctrl_ok.

(* apply_gate_half_density_matrix = E rho (plain gates; the real code refuses controlled_by) *)
Theorem dm_half_ok : forall (T : Type) (K : ops T), semiring K ->
  forall n qs (M rho : mat T),
  NoDup qs -> (forall q, In q qs -> q < n) -> wf_mat n rho ->
  apply_gate_half_dm K n qs M rho = mmul K (embed K n qs M) rho.
Proof. exact @dm_half_eq. Qed.
Print Assumptions dm_half_ok.

Theorem apply_gate_dm_ok : forall (T : Type) (K : ops T) (cj : T -> T), semiring K -> conj_ok K cj ->
  forall n (g : gate) (rho : mat T), gate_wf n g -> wf_mat n rho ->
  apply_gate_dm K cj n g rho = sandwich K cj n (gate_op K n g) rho.
Proof. exact @apply_gate_dm_eq. Qed.
Print Assumptions apply_gate_dm_ok.

(* the density-matrix loop returns U rho U^dagger for the same U as the state-vector loop (C01.execute_ok) *)
Theorem dm_run_ok : forall (T : Type) (K : ops T) (cj : T -> T), semiring K -> conj_ok K cj ->
  forall n (gs : list gate) (rho : mat T), Forall (gate_wf n) gs -> wf_mat n rho ->
  execute_dm K cj n gs rho = sandwich K cj n (circ_op K n gs) rho.
Proof. exact @execute_dm_eq. Qed.
Print Assumptions dm_run_ok.

(* consequences.  outer n v w = |v><w|, mtrace = trace, hermitian n A := madj A = A.
   Positivity needs an order on the carrier and is not stated: it follows from the form U rho U^dagger. *)
Theorem dm_pure_ok : forall (T : Type) (K : ops T) (cj : T -> T), semiring K -> conj_ok K cj ->
  forall n (gs : list gate) (psi : vec T), Forall (gate_wf n) gs -> length psi = 2 ^ n ->
  execute_dm K cj n gs (outer K cj n psi psi) = outer K cj n (execute K n gs psi) (execute K n gs psi).
Proof. exact @dm_pure_eq. Qed.
Print Assumptions dm_pure_ok.

Theorem dm_hermitian_ok : forall (T : Type) (K : ops T) (cj : T -> T), semiring K -> conj_ok K cj ->
  (forall a, cj (cj a) = a) ->
  forall n (gs : list gate) (rho : mat T), Forall (gate_wf n) gs -> wf_mat n rho ->
  hermitian K cj n rho -> hermitian K cj n (execute_dm K cj n gs rho).
Proof. exact @dm_hermitian_eq. Qed.
Print Assumptions dm_hermitian_ok.

(* the trace is preserved when the circuit operator is an isometry (U^dagger U = 1); unitarity of the
   individual gate tables is the subject of the table obligations of C01, not of this file *)
Theorem dm_trace_ok : forall (T : Type) (K : ops T) (cj : T -> T), semiring K -> conj_ok K cj ->
  forall n (gs : list gate) (rho : mat T), Forall (gate_wf n) gs -> wf_mat n rho ->
  mmul K (madj K cj n (circ_op K n gs)) (circ_op K n gs) = midentity K n ->
  mtrace K n (execute_dm K cj n gs rho) = mtrace K n rho.
Proof. exact @dm_trace_eq. Qed.
Print Assumptions dm_trace_ok.

(* ---------------------------------------------------------------- Gram forms: positivity without an order,
   and the strongest tie between the two semantics.  gram n [(a_i, v_i, w_i)] = sum_i a_i |v_i><w_i|.
   The density-matrix run maps it to sum_i a_i |U v_i><U w_i| where U v_i, U w_i are the STATE-VECTOR runs
   (Model.execute) of the same queue.  With w_i = v_i and non-negative a_i (in an ordered carrier) this is
   preservation of positive semidefiniteness; every 2^n x 2^n matrix is a Gram form (gram_complete_ok). *)
Theorem dm_run_preserves_gram_form : forall (T : Type) (K : ops T) (cj : T -> T), semiring K -> conj_ok K cj ->
  forall n (gs : list gate) (l : list (term (T:=T))), Forall (gate_wf n) gs -> Forall (term_ok n) l ->
  execute_dm K cj n gs (gram K cj n l) = gram K cj n (map (map_term (execute K n gs) (execute K n gs)) l).
Proof. exact @dm_run_gram_eq. Qed.
Print Assumptions dm_run_preserves_gram_form.

Theorem dm_gate_preserves_gram_form : forall (T : Type) (K : ops T) (cj : T -> T), semiring K -> conj_ok K cj ->
  forall n (g : gate) (l : list (term (T:=T))), gate_wf n g -> Forall (term_ok n) l ->
  apply_gate_dm K cj n g (gram K cj n l) = gram K cj n (map (map_term (apply_gate K n g) (apply_gate K n g)) l).
Proof. exact @dm_gate_gram_eq. Qed.
Print Assumptions dm_gate_preserves_gram_form.

Theorem dm_plain_preserves_gram_form : forall (T : Type) (K : ops T) (cj : T -> T), semiring K -> conj_ok K cj ->
  forall n qs (M : mat T) (l : list (term (T:=T))), NoDup qs -> (forall q, In q qs -> q < n) -> Forall (term_ok n) l ->
  apply_gate_dm_plain K cj n qs M (gram K cj n l)
  = gram K cj n (map (map_term (apply_gate_plain K n qs M) (apply_gate_plain K n qs M)) l).
Proof. exact @dm_plain_gram_eq. Qed.
Print Assumptions dm_plain_preserves_gram_form.

Theorem dm_ctrl_preserves_gram_form : forall (T : Type) (K : ops T) (cj : T -> T), semiring K -> conj_ok K cj ->
  forall n cs ts (M : mat T) (l : list (term (T:=T))),
  incr_from 0 cs -> (forall c, In c cs -> c < n) -> NoDup ts -> (forall t, In t ts -> t < n) ->
  (forall t, In t ts -> ~ In t cs) -> Forall (term_ok n) l ->
  apply_gate_dm_ctrl K cj n cs ts M (gram K cj n l)
  = gram K cj n (map (map_term (apply_gate_ctrl K n cs ts M) (apply_gate_ctrl K n cs ts M)) l).
Proof. exact @dm_ctrl_gram_eq. Qed.
Print Assumptions dm_ctrl_preserves_gram_form.

(* half call: only the ket side moves *)
Theorem dm_half_preserves_gram_form : forall (T : Type) (K : ops T) (cj : T -> T), semiring K ->
  forall n qs (M : mat T) (l : list (term (T:=T))), NoDup qs -> (forall q, In q qs -> q < n) -> Forall (term_ok n) l ->
  apply_gate_half_dm K n qs M (gram K cj n l)
  = gram K cj n (map (map_term (apply_gate_plain K n qs M) (fun w => w)) l).
Proof. exact @dm_half_gram_eq. Qed.
Print Assumptions dm_half_preserves_gram_form.

Theorem gram_complete_ok : forall (T : Type) (K : ops T) (cj : T -> T), semiring K -> conj_ok K cj ->
  forall n (rho : mat T), wf_mat n rho ->
  rho = gram K cj n (gram_of K n rho) /\ Forall (term_ok n) (gram_of K n rho).
Proof. intros T K cj HK HC n rho Hr. split; [now apply (gram_complete K cj HK HC)|apply gram_of_ok]. Qed.
Print Assumptions gram_complete_ok.

(* ---------------------------------------------------------------- execute_circuit: initial states *)
(* zero_density_matrix = |0..0><0..0| and the default density-matrix run is the projector onto the default
   state-vector run *)
Theorem default_run_pure_ok : forall (T : Type) (K : ops T) (cj : T -> T), semiring K -> conj_ok K cj ->
  forall n (gs : list (gate (T:=T))), Forall (gate_wf n) gs ->
  execute_circuit_dm K cj n gs (DInitNone) =
  option_map (fun psi => outer K cj n psi psi) (execute_circuit K n gs (InitNone)).
Proof. exact @default_run_pure. Qed.
Print Assumptions default_run_pure_ok.

(* initial_state given as a Circuit: it is executed first (both modes) *)
Theorem initial_circuit_ok : forall (T : Type) (K : ops T) (cj : T -> T) n (c0 gs : list (gate (T:=T))),
  execute_circuit K n gs (InitCircuit c0) = Some (execute K n gs (execute K n c0 (zero_state K n)))
  /\ execute_circuit_dm K cj n gs (DInitCircuit c0)
     = Some (execute_dm K cj n gs (execute_dm K cj n c0 (zero_density_matrix K n))).
Proof. exact @initial_circuit_run. Qed.
Print Assumptions initial_circuit_ok.

(* an array initial state is accepted iff it has the right shape, and then the run is U rho U^dagger *)
Theorem execute_circuit_dm_ok : forall (T : Type) (K : ops T) (cj : T -> T), semiring K -> conj_ok K cj ->
  forall n (gs : list gate) (rho : mat T), Forall (gate_wf n) gs ->
  execute_circuit_dm K cj n gs (DInitArray rho) =
  if shape_ok (2 ^ n) rho then Some (sandwich K cj n (circ_op K n gs) rho) else None.
Proof. exact @execute_circuit_dm_eq. Qed.
Print Assumptions execute_circuit_dm_ok.

Theorem execute_circuit_sv_ok : forall (T : Type) (K : ops T), semiring K ->
  forall n (gs : list gate) (v : vec T), Forall (gate_wf n) gs ->
  execute_circuit K n gs (InitArray v) =
  if Nat.eqb (length v) (2 ^ n) then Some (mvmul K (circ_op K n gs) v) else None.
Proof. exact @execute_circuit_eq. Qed.
Print Assumptions execute_circuit_sv_ok.

(* density-matrix execution of a queue with FusedGates (Circuit.fuse with density_matrix=True) *)
Theorem dm_queue_ok : forall (T : Type) (K : ops T) (cj : T -> T), semiring K -> conj_ok K cj ->
  forall n (q : list qitem) (rho : mat T), Forall (item_ok n) q -> wf_mat n rho ->
  execute_dm_queue K cj n q rho = sandwich K cj n (circ_op K n (flatten q)) rho.
Proof. exact @execute_dm_queue_eq. Qed.
Print Assumptions dm_queue_ok.
