(* C04/LiftFast.v : the documented closed forms of the reset and depolarizing channels
   (ChannelSpec.reset_closed / depol_closed, the formulas the fast paths of backends/numpy.py
   implement) ARE Kraus maps, for every register size n and every duplicate-free in-range target
   list: the Kraus operators are the matrix units |a><b| on the target qubits,
        Tr_qs(rho) (x) |a><a|  =  sum_b  E_ab rho E_ab^dagger ,   E_ab = embed n qs |a><b| .
   Hence (LiftTP.v) the closed forms multiply the trace by w + sum_a wt(a), map Gram forms to Gram
   forms (complete positivity, also on extended registers) and preserve Hermiticity -- for all n.
   The same matrix units give the ReadoutErrorChannel Kraus set: sum w_ab |a><b|^dagger |a><b| is
   D . I exactly when the weight table has row sums D (every number of qubits). *)
From Coq Require Import List Bool Arith Lia ZArith Ring.
From QV Require Import Base.Mat Base.Zi C01.Model C01.Spec C01.Lib C01.ProofsSV C01.ProofsCtrl C01.ProofsMat
  C01.ProofsRun C01.ProofsFused C01.ProofsQueue C01.ProofsDM C01.ProofsRunDM C01.ProofsDMCor C01.Examples
  Base.Sem C04.ChannelSpec C04.LiftTP.
Import ListNotations.

Section G.
  Context {T : Type} (K : ops T) (cj : T -> T).
  Hypothesis HK : semiring K.
  Hypothesis HC : conj_ok K cj.
  Notation T0 := (zero K).
  Notation T1 := (one K).
  Infix "+!" := (add K) (at level 50, left associativity).
  Infix "*!" := (mul K) (at level 40, left associativity).
  Notation tsum := (tsum K).
  Notation mentry := (mentry K).
  Add Ring TRfast : (SRT K HK).

  (* the matrix unit |a><b| on k qubits *)
  Definition munit (k : nat) (a b : list bool) : mat T :=
    tab2 k (fun x y => if beqb x a && beqb y b then T1 else T0).

  Lemma tsum_flat_map {A B} (h : A -> list B) (f : B -> T) l :
    tsum (map f (flat_map h l)) = tsum (map (fun a => tsum (map f (h a))) l).
  Proof.
    induction l as [|a l IH]; [reflexivity|]. cbn [flat_map].
    rewrite map_app, (tsum_app K HK), IH. reflexivity.
  Qed.

  Lemma tsum_if_const {A} (b : bool) (F : A -> T) l :
    tsum (map (fun s => if b then F s else T0) l) = if b then tsum (map F l) else T0.
  Proof. destruct b; [reflexivity|apply (tsum_zero K HK)]. Qed.

  Lemma tsum_delta' k (F : list bool -> T) a : length a = k ->
    tsum (map (fun s => if beqb s a then F s else T0) (allbits k)) = F a.
  Proof.
    intros Ha. rewrite <- (tsum_delta K HK k F a Ha). apply tsum_map_ext. intros s _. now rewrite (beqb_sym s a).
  Qed.

  (* one term with a matrix unit:  E_ab rho E_ab^dagger  picks the (a,a) block and moves the b bits in *)
  Lemma gterm_munit_entry n qs w a b g r c : NoDup qs -> (forall q, In q qs -> q < n) ->
    length a = length qs -> length b = length qs -> length r = n -> length c = n ->
    mentry (gterm K cj n (w, qs, munit (length qs) a b) (tab2 n g)) r c
    = w *! (if beqb (sel qs r) a && beqb (sel qs c) a then g (upd qs b r) (upd qs b c) else T0).
  Proof.
    intros Hn Hq Ha Hb Hr Hc. cbn [gterm].
    pose proof (embed_wf K n qs (munit (length qs) a b)) as WE.
    rewrite (mmul_assoc K HK n _ (tab2 n g) _ WE (tab2_wf n g) (madj_wf K cj n _)).
    change (mmul K ?E (mmul K ?R (madj K cj n ?E))) with (sandwich K cj n E R).
    rewrite (embed_as_cembed K n qs), (sandwich_cembed K cj HK HC n [] qs _ g Hn Hq).
    rewrite (mentry_mscale K n w _ r c (tab2_wf n _) Hr Hc), (mentry_tab2 K) by assumption. f_equal.
    unfold dm_action, dm_inner. rewrite !sel_nil_all1.
    assert (Em : forall x s, length x = length qs -> length s = length qs ->
              mget K (munit (length qs) a b) (idx x) (idx s) = if beqb x a && beqb s b then T1 else T0).
    { intros x s Hx Hs. exact (mentry_tab2 K (length qs) _ x s Hx Hs). }
    rewrite (tsum_map_ext K _ (fun s => if beqb s b then
               (if beqb (sel qs r) a then
                  tsum (map (fun s' => if beqb s' b then (if beqb (sel qs c) a then g (upd qs s r) (upd qs s' c) else T0) else T0)
                            (allbits (length qs))) else T0) else T0)).
    - rewrite (tsum_delta' (length qs) _ b Hb). rewrite (tsum_delta' (length qs) _ b Hb).
      destruct (beqb (sel qs r) a), (beqb (sel qs c) a); reflexivity.
    - intros s Hs. apply allbits_In in Hs. rewrite (Em _ s (sel_length qs r) Hs).
      destruct (beqb s b); [|rewrite andb_false_r; ring].
      destruct (beqb (sel qs r) a); cbn [andb]; [|ring].
      rewrite (sr_mul_1_l K HK). apply tsum_map_ext. intros s' Hs'. apply allbits_In in Hs'.
      rewrite (Em _ s' (sel_length qs c) Hs').
      destruct (beqb s' b); [|rewrite andb_false_r, (cj_zero K cj HC); ring].
      destruct (beqb (sel qs c) a); cbn [andb]; [rewrite (cj_one K cj HC)|rewrite (cj_zero K cj HC)]; ring.
  Qed.

  (* entries of the generic map: w0 rho + sum of the terms *)
  Lemma fold_gmadd_entry n (F : kt (T:=T) -> mat T) ts : Forall (fun t => wf_mat n (F t)) ts ->
    forall acc r c, wf_mat n acc -> length r = n -> length c = n ->
    mentry (fold_left (fun a t => gmadd K a (F t)) ts acc) r c
    = mentry acc r c +! tsum (map (fun t => mentry (F t) r c) ts).
  Proof.
    assert (tsum_cons : forall x l, tsum (x :: l) = x +! tsum l) by reflexivity.
    induction ts as [|t ts IH]; intros HF acc r c Ha Hr Hc; cbn [fold_left map].
    - change (tsum []) with T0. ring.
    - inversion_clear HF as [|? ? Ht HF'].
      rewrite IH by (auto using (wf_gmadd K)). rewrite (mentry_gmadd K n) by auto. rewrite tsum_cons. ring.
  Qed.

  Lemma gapply_entry n w0 ts rho r c : wf_mat n rho -> length r = n -> length c = n ->
    mentry (gapply K cj n w0 ts rho) r c
    = w0 *! mentry rho r c +! tsum (map (fun t => mentry (gterm K cj n t rho) r c) ts).
  Proof.
    intros Hw Hr Hc. unfold gapply.
    rewrite (fold_gmadd_entry n (fun t => gterm K cj n t rho) ts)
      by (auto using (wf_mscale K); apply Forall_forall; intros t _; now apply (wf_gterm K cj HK)).
    now rewrite (mentry_mscale K n).
  Qed.

  (* all matrix units |a><b| on qs with weight wt a b *)
  Definition uterms (wt : list bool -> list bool -> T) (qs : list nat) : list (kt (T:=T)) :=
    flat_map (fun a => map (fun b => (wt a b, qs, munit (length qs) a b)) (allbits (length qs))) (allbits (length qs)).

  Theorem unit_kraus_closed_form n qs w0 wt g r c : NoDup qs -> (forall q, In q qs -> q < n) ->
    length r = n -> length c = n ->
    mentry (gapply K cj n w0 (uterms wt qs) (tab2 n g)) r c
    = w0 *! g r c +! (if beqb (sel qs r) (sel qs c)
                      then tsum (map (fun b => wt (sel qs r) b *! g (upd qs b r) (upd qs b c)) (allbits (length qs)))
                      else T0).
  Proof.
    intros Hn Hq Hr Hc. rewrite (gapply_entry n w0 _ (tab2 n g) r c (tab2_wf n g) Hr Hc).
    rewrite (mentry_tab2 K) by assumption. f_equal.
    unfold uterms. rewrite tsum_flat_map.
    rewrite (tsum_map_ext K _ (fun a => if beqb a (sel qs r) then
               (if beqb (sel qs c) a then tsum (map (fun b => wt a b *! g (upd qs b r) (upd qs b c)) (allbits (length qs))) else T0)
               else T0)).
    - rewrite (tsum_delta' (length qs) _ (sel qs r) (sel_length qs r)). now rewrite (beqb_sym (sel qs c) (sel qs r)).
    - intros a Ha. apply allbits_In in Ha. rewrite map_map.
      rewrite (tsum_map_ext K _ (fun b => if beqb (sel qs r) a && beqb (sel qs c) a then wt a b *! g (upd qs b r) (upd qs b c) else T0)).
      + rewrite tsum_if_const. rewrite (beqb_sym a (sel qs r)).
        destruct (beqb (sel qs r) a), (beqb (sel qs c) a); reflexivity.
      + intros b Hb. apply allbits_In in Hb. rewrite (gterm_munit_entry n qs (wt a b) a b g r c) by assumption.
        destruct (beqb (sel qs r) a && beqb (sel qs c) a); ring.
  Qed.

  (* the small operator of the unit terms: (w0 + sum_a wt a) . I *)
  Lemma eye_wf k : wf_mat k (eye K (2 ^ k)).
  Proof. apply (eye_shape K). Qed.
  Lemma mentry_eye k x y : length x = k -> length y = k -> mentry (eye K (2 ^ k)) x y = if beqb x y then T1 else T0.
  Proof.
    intros Hx Hy. unfold ProofsMat.mentry. pose proof (idx_lt x) as L1. pose proof (idx_lt y) as L2.
    rewrite Hx in L1. rewrite Hy in L2. rewrite (mget_eye K) by assumption. now rewrite idx_eqb by congruence.
  Qed.

  Definition tp_of (k : nat) (t : kt (T:=T)) : mat T :=
    match t with (w, _, M) => mscale K w (mmul K (madj K cj k M) M) end.
  Lemma tp_small_fold k w0 ts :
    tp_small K cj k w0 ts = fold_left (fun a t => gmadd K a (tp_of k t)) ts (mscale K w0 (eye K (2 ^ k))).
  Proof.
    unfold tp_small. generalize (mscale K w0 (eye K (2 ^ k))). induction ts as [|[[w q] M] ts IH]; intros acc; [reflexivity|].
    cbn [fold_left]. apply IH.
  Qed.

  Lemma tp_of_munit_entry k w q a b x y : length a = k -> length b = k -> length x = k -> length y = k ->
    mentry (tp_of k (w, q, munit k a b)) x y = w *! (if beqb x b && beqb y b then T1 else T0).
  Proof.
    intros Ha Hb Hx Hy. cbn [tp_of].
    rewrite (mentry_mscale K k w _ x y) by (first [assumption | apply (mmul_wf K HK); [apply madj_wf|apply tab2_wf]]). f_equal.
    rewrite (mentry_mmul K HK k (madj K cj k (munit k a b)) (munit k a b) x y (madj_wf K cj k _) (tab2_wf k _) Hx Hy).
    rewrite (tsum_map_ext K _ (fun z => if beqb z a then (if beqb x b && beqb y b then T1 else T0) else T0)).
    - now rewrite (tsum_delta' k _ a Ha).
    - intros z Hz. apply allbits_In in Hz. rewrite (mentry_madj K cj k _ x z Hx Hz).
      unfold munit. rewrite !(mentry_tab2 K) by assumption.
      destruct (beqb z a); cbn [andb]; [|rewrite (cj_zero K cj HC); ring].
      destruct (beqb x b); cbn [andb]; [rewrite (cj_one K cj HC)|rewrite (cj_zero K cj HC)]; destruct (beqb y b); ring.
  Qed.

  (* sum_ab wt(a,b) |a><b|^dagger |a><b| = sum_b (sum_a wt(a,b)) |b><b| : it is D . I exactly when every
     "column" b of the weight table sums to D (ReadoutErrorChannel: rows of the stochastic matrix) *)
  Theorem tp_small_uterms w0 wt qs D :
    (forall b, length b = length qs -> tsum (map (fun a => wt a b) (allbits (length qs))) = D) ->
    tp_small K cj (length qs) w0 (uterms wt qs) = mscale K (w0 +! D) (eye K (2 ^ length qs)).
  Proof.
    intros Hcol. set (k := length qs) in *.
    assert (WU : Forall (fun t => wf_mat k (tp_of k t)) (uterms wt qs)).
    { apply Forall_forall. intros t Ht. unfold uterms in Ht. apply in_flat_map in Ht. destruct Ht as [a [_ Ht]].
      apply in_map_iff in Ht. destruct Ht as [b [<- _]]. cbn [tp_of]. apply (wf_mscale K).
      apply (mmul_wf K HK); [apply madj_wf|apply tab2_wf]. }
    assert (WT : wf_mat k (tp_small K cj k w0 (uterms wt qs))).
    { rewrite tp_small_fold. revert WU. generalize (uterms wt qs) as ts.
      assert (W0 : wf_mat k (mscale K w0 (eye K (2 ^ k)))) by (apply (wf_mscale K), eye_wf).
      revert W0. generalize (mscale K w0 (eye K (2 ^ k))) as acc. intros acc W0 ts. revert acc W0.
      induction ts as [|t ts IH]; intros acc W0 WU; [exact W0|].
      inversion_clear WU. cbn [fold_left]. apply IH; [apply (wf_gmadd K); assumption|assumption]. }
    apply (mat_eq K k); [exact WT|apply (wf_mscale K), eye_wf|].
    intros x y Hx Hy. rewrite tp_small_fold.
    rewrite (fold_gmadd_entry k (tp_of k) _ WU _ x y (wf_mscale K k w0 _ (eye_wf k)) Hx Hy).
    rewrite !(mentry_mscale K k _ _ x y (eye_wf k) Hx Hy), (mentry_eye k x y Hx Hy).
    unfold uterms. fold k. rewrite tsum_flat_map.
    rewrite (tsum_map_ext K _ (fun a => wt a x *! (if beqb x y then T1 else T0))).
    - rewrite (tsum_scale_r K HK), (Hcol x Hx). ring.
    - intros a Ha. apply allbits_In in Ha. rewrite map_map.
      rewrite (tsum_map_ext K _ (fun b => if beqb b x then wt a b *! (if beqb y b then T1 else T0) else T0)).
      + rewrite (tsum_delta' k _ x Hx). now rewrite (beqb_sym y x).
      + intros b Hb. apply allbits_In in Hb. rewrite (tp_of_munit_entry k (wt a b) qs a b x y Ha Hb Hx Hy).
        rewrite (beqb_sym b x). destruct (beqb x b); cbn [andb]; [reflexivity|ring].
  Qed.
End G.

(* ==================================================================== Part Z: the closed forms of ChannelSpec.v *)
Lemma nth_setbits_from qs b : length b = length qs -> forall r i j, j < length r ->
  nth j (setbits_from i qs b r) false
  = if memb (i + j) qs then nth (index_of (i + j) qs) b false else nth j r false.
Proof.
  intros Hl. induction r as [|x r IH]; intros i j Hj; [cbn in Hj; lia|].
  destruct j as [|j].
  - cbn [setbits_from nth]. rewrite Nat.add_0_r. clear IH Hj.
    revert b Hl. induction qs as [|q qs IHq]; intros [|y b] Hl; try discriminate; [reflexivity|].
    change (memb i (q :: qs)) with (Nat.eqb i q || memb i qs). cbn [index_of]. rewrite (Nat.eqb_sym i q).
    destruct (Nat.eqb q i); cbn [orb nth]; [reflexivity|].
    rewrite IHq by (cbn in Hl; lia). destruct (memb i qs); reflexivity.
  - cbn [setbits_from nth]. rewrite IH by (cbn in Hj; lia). now rewrite Nat.add_succ_comm.
Qed.
Lemma setbits_length qs b r : length (setbits qs b r) = length r.
Proof.
  unfold setbits. generalize 0. induction r as [|x r IH]; intros i; [reflexivity|].
  cbn [setbits_from length]. now rewrite IH.
Qed.
Lemma setbits_upd qs b r : length b = length qs -> setbits qs b r = upd qs b r.
Proof.
  intros Hb. apply bool_list_ext; [now rewrite setbits_length, upd_length|].
  intros i Hi. rewrite setbits_length in Hi. unfold setbits.
  rewrite (nth_setbits_from qs b Hb r 0 i Hi), nth_upd by exact Hi. reflexivity.
Qed.

Definition zuterms (wt : list bool -> list bool -> Z) (qs : list nat) : list kterm :=
  flat_map (fun a => map (fun b => (wt a b, qs, munit Ziops (length qs) a b)) (allbits (length qs))) (allbits (length qs)).
Lemma zlift_zuterms wt qs : map zlift (zuterms wt qs) = uterms Ziops (fun a b => zw (wt a b)) qs.
Proof.
  unfold zuterms, uterms.
  assert (G : forall (l : list (list bool)) (h : list bool -> list kterm),
            map zlift (flat_map h l) = flat_map (fun a => map zlift (h a)) l).
  { intros l h. induction l as [|a l IH]; [reflexivity|]. cbn [flat_map]. now rewrite map_app, IH. }
  rewrite G. apply flat_map_ext. intros a. now rewrite map_map.
Qed.

Notation ZK := Zi_semiring.
Notation ZC := Zi_conj_ok.

Lemma wf_apply_kraus n w0 ts rho : wf_mat n rho -> wf_mat n (apply_kraus n w0 ts rho).
Proof.
  intros Hr. rewrite apply_kraus_is_gapply. unfold gapply.
  assert (W0 : wf_mat n (mscale Ziops (zw w0) rho)) by now apply (wf_mscale Ziops).
  revert W0. generalize (mscale Ziops (zw w0) rho) as acc. induction (map zlift ts) as [|t l IH]; intros acc W0; [exact W0|].
  cbn [fold_left]. apply IH. apply (wf_gmadd Ziops); [exact W0|now apply (wf_gterm Ziops zi_conj ZK)].
Qed.

(* the general closed form  w rho + delta(r|qs, c|qs) sum_b wt(r|qs, b) rho[r[qs:=b]][c[qs:=b]]  is the Kraus map
   with the weighted matrix units *)
Definition unit_closed (n : nat) (qs : list nat) (w : Z) (wt : list bool -> list bool -> Z) (rho : zmat) : zmat :=
  tab2 n (fun r c => zi_add (zi_mul (zw w) (mget Ziops rho (idx r) (idx c)))
     (if beqb (sel qs r) (sel qs c)
      then zsum (map (fun b => zi_mul (zw (wt (sel qs r) b)) (mget Ziops rho (idx (setbits qs b r)) (idx (setbits qs b c))))
                     (allbits (length qs)))
      else zi0)).

Theorem unit_closed_is_kraus_map n qs w wt rho : NoDup qs -> (forall q, In q qs -> q < n) -> wf_mat n rho ->
  unit_closed n qs w wt rho = apply_kraus n w (zuterms wt qs) rho.
Proof.
  intros Hn Hq Hr. apply (mat_eq Ziops n); [apply tab2_wf|now apply wf_apply_kraus|].
  intros r c Hlr Hlc. unfold unit_closed. rewrite (mentry_tab2 Ziops) by assumption.
  rewrite apply_kraus_is_gapply, zlift_zuterms.
  pose proof (unit_kraus_closed_form Ziops zi_conj ZK ZC n qs (zw w) (fun a b => zw (wt a b))
                (mentry Ziops rho) r c Hn Hq Hlr Hlc) as E.
  rewrite <- (wf_tab2 Ziops n rho Hr) in E. rewrite E. clear E.
  apply (f_equal2 zi_add); [reflexivity|]. destruct (beqb (sel qs r) (sel qs c)); [|reflexivity].
  change zsum with (tsum Ziops). apply (tsum_map_ext Ziops). intros b Hb. apply allbits_In in Hb.
  now rewrite !setbits_upd by exact Hb.
Qed.

Lemma zsum_scale w l : zsum (map (fun x => zi_mul w x) l) = zi_mul w (zsum l).
Proof. change zsum with (tsum Ziops). rewrite <- (map_id l) at 2. exact (tsum_scale_l Ziops ZK w (fun x => x) l). Qed.
Lemma zsum_scale_map {A} w (g : A -> Zi) l : zsum (map (fun b => zi_mul w (g b)) l) = zi_mul w (zsum (map g l)).
Proof. change zsum with (tsum Ziops). exact (tsum_scale_l Ziops ZK w g l). Qed.

(* DepolarizingChannel on k qubits (documented closed form) = Kraus map with all 4^k matrix units, weight wl *)
Theorem depol_closed_is_kraus_map n qs w wl rho : NoDup qs -> (forall q, In q qs -> q < n) -> wf_mat n rho ->
  depol_closed n qs w wl rho = apply_kraus n w (zuterms (fun _ _ => wl) qs) rho.
Proof.
  intros Hn Hq Hr. rewrite <- (unit_closed_is_kraus_map n qs w _ rho Hn Hq Hr).
  unfold depol_closed, unit_closed, tab2. apply map_ext. intros r. apply map_ext. intros c.
  cbv zeta. destruct (beqb (sel qs r) (sel qs c)).
  - f_equal. unfold ChannelSpec.ptrace_entry. symmetry. apply (zsum_scale_map (zw _)).
  - now rewrite zi_add_comm, zi_add_0_l.
Qed.

(* ResetChannel (documented closed form) = Kraus map with |0><0|,|0><1| (weight w0) and |1><0|,|1><1| (weight w1) *)
Definition reset_wt (w0 w1 : Z) (a _ : list bool) : Z := if hd false a then w1 else w0.
Theorem reset_closed_is_kraus_map n q w w0 w1 rho : q < n -> wf_mat n rho ->
  reset_closed n q w w0 w1 rho = apply_kraus n w (zuterms (reset_wt w0 w1) [q]) rho.
Proof.
  intros Hq Hr.
  assert (Hnd : NoDup [q]) by (constructor; [intros []|constructor]).
  assert (Hlt : forall x, In x [q] -> x < n) by (intros x [<-|[]]; exact Hq).
  rewrite <- (unit_closed_is_kraus_map n [q] w _ rho Hnd Hlt Hr).
  unfold reset_closed, unit_closed, tab2. apply map_ext. intros r. apply map_ext. intros c.
  cbv zeta. cbn [sel map beqb]. rewrite andb_true_r. unfold reset_wt. cbn [hd].
  destruct (Bool.eqb (nth q r false) (nth q c false)).
  - f_equal. unfold ChannelSpec.ptrace_entry. symmetry. apply (zsum_scale_map (zw _)).
  - now rewrite zi_add_comm, zi_add_0_l.
Qed.

(* ---- consequences for every n: trace, complete positivity (Gram form), Hermiticity of the closed forms *)
Definition zcolsum (k : nat) (wt : list bool -> list bool -> Z) (b : list bool) : Zi :=
  tsum Ziops (map (fun a => zw (wt a b)) (allbits k)).

Theorem unit_closed_trace n qs w wt D rho : NoDup qs -> (forall q, In q qs -> q < n) -> wf_mat n rho ->
  (forall b, length b = length qs -> zcolsum (length qs) wt b = D) ->
  ztr n (unit_closed n qs w wt rho) = zi_mul (zi_add (zw w) D) (ztr n rho).
Proof.
  intros Hn Hq Hr Hcol. rewrite (unit_closed_is_kraus_map n qs w wt rho Hn Hq Hr), apply_kraus_is_gapply, zlift_zuterms.
  apply (kraus_tp_lifts_g Ziops zi_conj ZK ZC n qs); try assumption.
  - apply Forall_forall. intros t Ht. unfold uterms in Ht. apply in_flat_map in Ht. destruct Ht as [a [_ Ht]].
    apply in_map_iff in Ht. destruct Ht as [b [<- _]]. cbn [fst snd]. split; [reflexivity|apply tab2_wf].
  - apply (tp_small_uterms Ziops zi_conj ZK ZC). exact Hcol.
Qed.

Theorem depol_closed_trace n qs w wl rho : NoDup qs -> (forall q, In q qs -> q < n) -> wf_mat n rho ->
  ztr n (depol_closed n qs w wl rho)
  = zi_mul (zi_add (zw w) (tsum Ziops (map (fun _ => zw wl) (allbits (length qs))))) (ztr n rho).
Proof.
  intros Hn Hq Hr. rewrite (depol_closed_is_kraus_map n qs w wl rho Hn Hq Hr).
  rewrite <- (unit_closed_is_kraus_map n qs w _ rho Hn Hq Hr).
  apply unit_closed_trace; try assumption. intros b _. reflexivity.
Qed.

Theorem reset_closed_trace n q w w0 w1 rho : q < n -> wf_mat n rho ->
  ztr n (reset_closed n q w w0 w1 rho) = zi_mul (zw (w + (w0 + w1))) (ztr n rho).
Proof.
  intros Hq Hr.
  assert (Hnd : NoDup [q]) by (constructor; [intros []|constructor]).
  assert (Hlt : forall x, In x [q] -> x < n) by (intros x [<-|[]]; exact Hq).
  rewrite (reset_closed_is_kraus_map n q w w0 w1 rho Hq Hr).
  rewrite <- (unit_closed_is_kraus_map n [q] w _ rho Hnd Hlt Hr).
  assert (HD : forall b, length b = length [q] -> zcolsum (length [q]) (reset_wt w0 w1) b = zw (w0 + w1)).
  { intros b _. unfold zcolsum, reset_wt. cbn. unfold zi_add, zw. unfold zi0. cbn [fst snd]. apply (f_equal2 (@pair Z Z)); ring. }
  rewrite (unit_closed_trace n [q] w _ (zw (w0 + w1)) rho Hnd Hlt Hr HD).
  reflexivity.
Qed.

(* complete positivity: Gram forms go to Gram forms (n arbitrary, so also on every extended register) *)
Theorem unit_closed_preserves_gram_form n qs w wt l : NoDup qs -> (forall q, In q qs -> q < n) ->
  unit_closed n qs w wt (gram Ziops zi_conj n l)
  = gram Ziops zi_conj n (gram_out Ziops n (zw w) (map zlift (zuterms wt qs)) l).
Proof.
  intros Hn Hq. rewrite (unit_closed_is_kraus_map n qs w wt (gram Ziops zi_conj n l) Hn Hq (tab2_wf n _)). apply z_apply_kraus_gram.
Qed.
Theorem depol_closed_preserves_gram_form n qs w wl l : NoDup qs -> (forall q, In q qs -> q < n) ->
  depol_closed n qs w wl (gram Ziops zi_conj n l)
  = gram Ziops zi_conj n (gram_out Ziops n (zw w) (map zlift (zuterms (fun _ _ => wl) qs)) l).
Proof.
  intros Hn Hq. rewrite (depol_closed_is_kraus_map n qs w wl (gram Ziops zi_conj n l) Hn Hq (tab2_wf n _)). apply z_apply_kraus_gram.
Qed.
Theorem reset_closed_preserves_gram_form n q w w0 w1 l : q < n ->
  reset_closed n q w w0 w1 (gram Ziops zi_conj n l)
  = gram Ziops zi_conj n (gram_out Ziops n (zw w) (map zlift (zuterms (reset_wt w0 w1) [q])) l).
Proof.
  intros Hq. rewrite (reset_closed_is_kraus_map n q w w0 w1 (gram Ziops zi_conj n l) Hq (tab2_wf n _)). apply z_apply_kraus_gram.
Qed.

(* ReadoutErrorChannel on k qubits: operators sqrt(P[b][a]) |a><b| ; with integer weights wt a b = D P[b][a] the small
   operator is D . I as soon as every row b of P sums to 1 (column b of wt sums to D) -- every k *)
Theorem readout_kraus_tp : forall qs wt D,
  (forall b, length b = length qs -> zcolsum (length qs) wt b = D) ->
  tp_small Ziops zi_conj (length qs) (zw 0) (map zlift (zuterms wt qs))
  = mscale Ziops (zi_add (zw 0) D) (eye Ziops (2 ^ length qs)).
Proof.
  intros qs wt D Hcol. rewrite zlift_zuterms. apply (tp_small_uterms Ziops zi_conj ZK ZC). exact Hcol.
Qed.
