(* C04/ChannelSpec.v : what a noise channel declares.
   Part 1 (executable, over Gaussian integers): the map  rho |-> w0*rho + sum_k w_k E_k rho E_k^dagger
   with E_k the embedding (Base/Mat.v) of the k-th operator on its qubits, and the documented closed
   forms of the reset and depolarizing channels at index level.  Weights are integers: a channel
   with dyadic probabilities p_k = w_k / D is compared after multiplying by D.
   Part 2 (theorems over the reals, all parameter values): the documented Kraus lists are trace
   preserving and equal the documented closed forms on every one-qubit density matrix. *)
From Coq Require Import ZArith List Bool Reals Lra Psatz Nsatz.
From Coquelicot Require Import Complex.
From QV Require Import Base.Mat Base.Zi.
Import ListNotations.

(* ------------------------------------------------------------------ Part 1 *)
Definition zmat := mat Zi.
Definition zdagger (A : zmat) : zmat := map (map zi_conj) (transpose A).
Definition zscale (w : Z) (A : zmat) : zmat := mscale Ziops (w, 0%Z) A.
Fixpoint zmadd (A B : zmat) : zmat :=
  match A, B with
  | r :: A', s :: B' => vadd Ziops r s :: zmadd A' B'
  | [], _ => B
  | _, [] => A
  end.

(* one term: integer weight, qubits, operator matrix *)
Definition kterm := (Z * list nat * zmat)%type.

Definition apply_term (n : nat) (t : kterm) (rho : zmat) : zmat :=
  match t with (w, qs, M) =>
    let E := embed Ziops n qs M in
    zscale w (mmul Ziops (mmul Ziops E rho) (zdagger E))
  end.

Definition apply_kraus (n : nat) (w0 : Z) (ts : list kterm) (rho : zmat) : zmat :=
  fold_left (fun acc t => zmadd acc (apply_term n t rho)) ts (zscale w0 rho).

(* replace the bits of r at positions qs by b *)
Fixpoint setbits_from (i : nat) (qs : list nat) (b r : list bool) : list bool :=
  match r with
  | [] => []
  | x :: r' =>
      (fix look (qs0 : list nat) (b0 : list bool) : bool :=
         match qs0, b0 with
         | q :: qs1, y :: b1 => if Nat.eqb q i then y else look qs1 b1
         | _, _ => x
         end) qs b :: setbits_from (S i) qs b r'
  end.
Definition setbits := setbits_from 0.

Definition zsum (l : list Zi) : Zi := fold_right zi_add zi0 l.

(* sum_b rho[r[qs:=b], c[qs:=b]]  -- the partial trace over qs at the remaining indices of r, c *)
Definition ptrace_entry (qs : list nat) (rho : zmat) (r c : list bool) : Zi :=
  zsum (map (fun b => mget Ziops rho (idx (setbits qs b r)) (idx (setbits qs b c))) (allbits (length qs))).

(* ResetChannel, documented:  (1-p0-p1) rho + Tr_q[rho] (x) (p0 |0><0| + p1 |1><1|)
   with integer weights w = D*(1-p0-p1), w0 = D*p0, w1 = D*p1 *)
Definition reset_closed (n q : nat) (w w0 w1 : Z) (rho : zmat) : zmat :=
  map (fun r => map (fun c =>
      let base := zi_mul (w, 0%Z) (mget Ziops rho (idx r) (idx c)) in
      let rq := List.nth q r false in let cq := List.nth q c false in
      if Bool.eqb rq cq
      then zi_add base (zi_mul ((if rq then w1 else w0), 0%Z) (ptrace_entry [q] rho r c))
      else base) (allbits n)) (allbits n).

(* DepolarizingChannel, documented:  (1-lam) rho + lam Tr_qs[rho] (x) I/2^k ;
   weights w = D*(1-lam), wl = D*lam/2^k *)
Definition depol_closed (n : nat) (qs : list nat) (w wl : Z) (rho : zmat) : zmat :=
  map (fun r => map (fun c =>
      let base := zi_mul (w, 0%Z) (mget Ziops rho (idx r) (idx c)) in
      if beqb (sel qs r) (sel qs c)
      then zi_add base (zi_mul (wl, 0%Z) (ptrace_entry qs rho r c))
      else base) (allbits n)) (allbits n).

(* ------------------------------------------------------------------ Part 2 *)
(* one-qubit operators as 2x2 tuples over C; rho = [[a b][c d]] arbitrary complex *)
Local Open Scope R_scope.

Definition M2 := (C * C * C * C)%type.
Definition m2mul (A B : M2) : M2 :=
  let '(a11, a12, a21, a22) := A in let '(b11, b12, b21, b22) := B in
  (Cplus (Cmult a11 b11) (Cmult a12 b21), Cplus (Cmult a11 b12) (Cmult a12 b22),
   Cplus (Cmult a21 b11) (Cmult a22 b21), Cplus (Cmult a21 b12) (Cmult a22 b22)).
Definition m2add (A B : M2) : M2 :=
  let '(a11, a12, a21, a22) := A in let '(b11, b12, b21, b22) := B in
  (Cplus a11 b11, Cplus a12 b12, Cplus a21 b21, Cplus a22 b22).
Definition m2dag (A : M2) : M2 :=
  let '(a11, a12, a21, a22) := A in (Cconj a11, Cconj a21, Cconj a12, Cconj a22).
Definition m2scale (k : R) (A : M2) : M2 :=
  let '(a11, a12, a21, a22) := A in
  (Cmult (RtoC k) a11, Cmult (RtoC k) a12, Cmult (RtoC k) a21, Cmult (RtoC k) a22).
Definition m2real (a b c d : R) : M2 := (RtoC a, RtoC b, RtoC c, RtoC d).
Definition m2id : M2 := m2real 1 0 0 1.
Definition m2zero : M2 := m2real 0 0 0 0.
Definition conjugate (K rho : M2) : M2 := m2mul (m2mul K rho) (m2dag K).
Definition kraus_map (Ks : list M2) (rho : M2) : M2 :=
  fold_right (fun K acc => m2add (conjugate K rho) acc) m2zero Ks.
Definition kraus_tp (Ks : list M2) : M2 :=
  fold_right (fun K acc => m2add (m2mul (m2dag K) K) acc) m2zero Ks.
Definition m2tr (A : M2) : C := let '(a11, _, _, a22) := A in Cplus a11 a22.

Definition reset_ops (s0 s1 s2 : R) : list M2 :=
  [m2real s0 0 0 0; m2real 0 s0 0 0; m2real 0 0 s1 0; m2real 0 0 0 s1; m2real s2 0 0 s2].
Definition ad_ops (s t : R) : list M2 := [m2real 1 0 0 s; m2real 0 t 0 0].
Definition pd_ops (s t : R) : list M2 := [m2real 1 0 0 s; m2real 0 0 0 t].
Definition pX : M2 := m2real 0 1 1 0.
Definition pY : M2 := (RtoC 0, Copp Ci, Ci, RtoC 0).
Definition pZ : M2 := m2real 1 0 0 (-1).
Definition thermal_ops (s0 s1 sz s3 : R) : list M2 :=
  [m2real s0 0 0 0; m2real 0 s0 0 0; m2real 0 0 s1 0; m2real 0 0 0 s1; m2real sz 0 0 (- sz); m2real s3 0 0 s3].

Ltac m2_solve :=
  cbv [kraus_map kraus_tp conjugate m2mul m2add m2dag m2scale m2real m2id m2zero m2tr
       Cplus Cmult Cconj Copp Ci RtoC fold_right fst snd
       reset_ops ad_ops pd_ops thermal_ops pX pY pZ];
  repeat (apply (f_equal2 pair)); try nsatz.

(* ResetChannel: operators sqrt(p0)|0><0|, sqrt(p0)|0><1|, sqrt(p1)|1><0|, sqrt(p1)|1><1|, sqrt(1-p0-p1) I *)

Theorem reset_kraus_tp : forall p0 p1 s0 s1 s2,
  s0 * s0 = p0 -> s1 * s1 = p1 -> s2 * s2 = 1 - p0 - p1 ->
  kraus_tp (reset_ops s0 s1 s2) = m2id.
Proof. intros p0 p1 s0 s1 s2 H0 H1 H2. m2_solve. Qed.

Theorem reset_kraus_closed_form : forall p0 p1 s0 s1 s2 (a b c d : C),
  s0 * s0 = p0 -> s1 * s1 = p1 -> s2 * s2 = 1 - p0 - p1 ->
  kraus_map (reset_ops s0 s1 s2) (a, b, c, d)
  = m2add (m2scale (1 - p0 - p1) (a, b, c, d))
          (Cmult (RtoC p0) (Cplus a d), RtoC 0, RtoC 0, Cmult (RtoC p1) (Cplus a d)).
Proof.
  intros p0 p1 s0 s1 s2 [ar ai] [br bi] [cr ci] [dr di] H0 H1 H2. m2_solve.
Qed.

(* AmplitudeDampingChannel: [[1,0],[0,sqrt(1-g)]], [[0,sqrt g],[0,0]] *)
Theorem amplitude_damping_tp : forall g s t, s * s = 1 - g -> t * t = g -> kraus_tp (ad_ops s t) = m2id.
Proof. intros g s t Hs Ht. m2_solve. Qed.
Theorem amplitude_damping_closed_form : forall g s t (a b c d : C),
  s * s = 1 - g -> t * t = g ->
  kraus_map (ad_ops s t) (a, b, c, d)
  = (Cplus a (Cmult (RtoC g) d), Cmult (RtoC s) b, Cmult (RtoC s) c, Cmult (RtoC (1 - g)) d).
Proof. intros g s t [ar ai] [br bi] [cr ci] [dr di] Hs Ht. m2_solve. Qed.

(* PhaseDampingChannel: [[1,0],[0,sqrt(1-g)]], [[0,0],[0,sqrt g]] *)
Theorem phase_damping_tp : forall g s t, s * s = 1 - g -> t * t = g -> kraus_tp (pd_ops s t) = m2id.
Proof. intros g s t Hs Ht. m2_solve. Qed.
Theorem phase_damping_closed_form : forall g s t (a b c d : C),
  s * s = 1 - g -> t * t = g ->
  kraus_map (pd_ops s t) (a, b, c, d) = (a, Cmult (RtoC s) b, Cmult (RtoC s) c, d).
Proof. intros g s t [ar ai] [br bi] [cr ci] [dr di] Hs Ht. m2_solve. Qed.

(* one-qubit DepolarizingChannel: X, Y, Z with probability lam/4 each, identity with 1 - 3 lam/4 *)
Theorem depolarizing_closed_form : forall lam (a b c d : C),
  m2add (m2scale (1 - 3 * lam / 4) (a, b, c, d))
    (m2add (m2scale (lam / 4) (conjugate pX (a, b, c, d)))
      (m2add (m2scale (lam / 4) (conjugate pY (a, b, c, d)))
             (m2scale (lam / 4) (conjugate pZ (a, b, c, d)))))
  = m2add (m2scale (1 - lam) (a, b, c, d))
          (Cmult (RtoC (lam / 2)) (Cplus a d), RtoC 0, RtoC 0, Cmult (RtoC (lam / 2)) (Cplus a d)).
Proof.
  intros lam [ar ai] [br bi] [cr ci] [dr di].
  cbv [conjugate pX pY pZ m2mul m2add m2dag m2scale m2real Cplus Cmult Cconj Copp Ci RtoC fst snd].
  repeat (apply (f_equal2 pair)); field.
Qed.

(* ThermalRelaxationChannel, regime t1 >= t2: the six documented operators
   sqrt(p0)|0><0|, sqrt(p0)|0><1|, sqrt(p1)|1><0|, sqrt(p1)|1><1|, sqrt(pz) Z, sqrt(1-p0-p1-pz) I
   are trace preserving and equal   reset(rho) - pz rho + pz Z rho Z   (the fast path's formula) *)
Theorem thermal_ge_tp : forall p0 p1 pz s0 s1 sz s3,
  s0 * s0 = p0 -> s1 * s1 = p1 -> sz * sz = pz -> s3 * s3 = 1 - p0 - p1 - pz ->
  kraus_tp (thermal_ops s0 s1 sz s3) = m2id.
Proof. intros p0 p1 pz s0 s1 sz s3 H0 H1 Hz H3. m2_solve. Qed.
Theorem thermal_ge_fast_path : forall p0 p1 pz s0 s1 sz s3 (a b c d : C),
  s0 * s0 = p0 -> s1 * s1 = p1 -> sz * sz = pz -> s3 * s3 = 1 - p0 - p1 - pz ->
  kraus_map (thermal_ops s0 s1 sz s3) (a, b, c, d)
  = m2add (m2add (m2scale (1 - p0 - p1) (a, b, c, d))
                 (Cmult (RtoC p0) (Cplus a d), RtoC 0, RtoC 0, Cmult (RtoC p1) (Cplus a d)))
          (m2add (m2scale (- pz) (a, b, c, d)) (m2scale pz (conjugate pZ (a, b, c, d)))).
Proof.
  intros p0 p1 pz s0 s1 sz s3 [ar ai] [br bi] [cr ci] [dr di] H0 H1 Hz H3.
  m2_solve.
Qed.

(* non-vacuity: admissible parameters exist *)
Example reset_params_exist : exists p0 p1 s0 s1 s2,
  s0 * s0 = p0 /\ s1 * s1 = p1 /\ s2 * s2 = 1 - p0 - p1 /\ 0 < p0 /\ 0 < p1.
Proof. exists (/4), (/4), (/2), (/2), (sqrt (/2)). rewrite sqrt_sqrt by lra. repeat split; lra. Qed.
