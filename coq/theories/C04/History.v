(* C04/History.v : histories on ONE long-lived channel object, with the arguments of every call.

   C04/Object.v models the object as the attribute record the executions read and shows that no operation
   writes it.  Here the operations carry their arguments -- the register size of every execution and of every
   representation query, the vectorisation order, the Pauli ordering -- and every operation yields an OBSERVATION
   (the returned matrix).  The model has no other state than the constructed record: there is no cache and no
   field remembering a register size, an order or an earlier result.  Consequences (all histories, all sizes):

     trace_is_fresh            every observation made during a history is the observation a freshly
                               constructed object gives for the same call;
     exec_after_any_history    an execution in a register of n qubits after ANY history (other register sizes,
                               other orders, any number of queries) is apply_kraus n of the constructed operators;
     views_after_any_history   a Choi / Liouville / Pauli-Liouville matrix asked after any history h1, for any
                               order, acts on rho exactly as the execution made after any other history h2.

   Tie to the code (harness/chan_hist.py, every run of C04 and C17): one real object is driven through such
   histories (register sizes m..4, orders row/column/system, nqubits None/m/m+1.., normalize, 24 Pauli orderings,
   execution directly / in a circuit / twice in one queue / in copied and added circuits, state-vector sampling,
   the caller overwriting returned arrays); every observation is compared exactly with a fresh object's, the fresh
   object's with the closed form (and with this model by vm_compute on exact data), and the whole attribute tree of
   the object with the constructed one (the transition below is the identity). *)
From Coq Require Import List Bool Arith Lia ZArith.
From QV Require Import Base.Mat Base.Zi C17.Alg C17.Model C17.Spec C17.ZiInst C17.ProofsIdx C17.ProofsVec
  C17.ProofsPerm C17.ProofsPauli C17.ProofsStine C17.Props.
From QV Require Import C01.Model C01.Spec C01.Lib C01.ProofsSV C01.ProofsMat C01.ProofsFused C01.ProofsRunDM C01.Examples
  Base.Sem C04.ChannelSpec C04.LiftTP C04.LiftFast C04.Object C04.Views.
Import ListNotations.
Local Open Scope Z_scope.

Inductive hop :=
| HExec (n : nat) (rho : zmat)                 (* density-matrix execution in an n-qubit register *)
| HSample (n : nat)                            (* state-vector sampling (observation not modelled: random) *)
| HChoi (o : vorder) (n : nat)                 (* to_choi(nqubits=n, order=o) *)
| HLiouville (col : bool) (n : nat)            (* to_liouville(nqubits=n, order=row/column) *)
| HPauli (po : list nat) (n : nat).            (* to_pauli_liouville(nqubits=n, pauli_order=po), un-normalised *)

(* the object after an operation: the same record (Object.step, for every argument) *)
Definition hstep (s : chan) (o : hop) : chan := s.
Definition hrun (s : chan) (ops : list hop) : chan := fold_left hstep ops s.

(* what a call returns, as a function of the record and of the arguments of THIS call *)
Definition observe (D : Z) (s : chan) (o : hop) : zmat :=
  match o with
  | HExec n rho => apply_dm D n s rho
  | HSample _ => []
  | HChoi o n => chan_choi o n (D - csum s) (terms s)
  | HLiouville col n => chan_liouville col n (D - csum s) (terms s)
  | HPauli po n => chan_pauli po n (D - csum s) (terms s)
  end.

(* the list of observations made along a history *)
Fixpoint trace (D : Z) (s : chan) (ops : list hop) : list zmat :=
  match ops with
  | [] => []
  | o :: rest => observe D s o :: trace D (hstep s o) rest
  end.

Lemma hrun_id : forall ops s, hrun s ops = s.
Proof. induction ops as [|o ops IH]; intros s; [reflexivity|]. cbn [hrun fold_left hstep]. apply IH. Qed.

Lemma trace_is_fresh_l : forall D ops s, trace D s ops = map (observe D s) ops.
Proof. induction ops as [|o ops IH]; intros s; [reflexivity|]. cbn [trace map hstep]. now rewrite IH. Qed.

Lemma observe_after_history_l : forall D h s o, observe D (hrun s h) o = observe D s o.
Proof. intros. now rewrite hrun_id. Qed.

Lemma exec_after_any_history_l : forall D h s n rho,
  observe D (hrun s h) (HExec n rho) = apply_kraus n (D - csum s) (terms s) rho.
Proof. intros. now rewrite hrun_id. Qed.

Lemma views_after_any_history_l : forall D s h1 h2 n rho r c,
  wf_mat n rho -> length r = n -> length c = n ->
  (forall o, odim o = (2 ^ n)%nat ->
     mget Ziops (choi_action Ziops o (observe D (hrun s h1) (HChoi o n)) rho) (idx r) (idx c)
     = mget Ziops (observe D (hrun s h2) (HExec n rho)) (idx r) (idx c))
  /\ (forall col,
     mget Ziops (liouville_action Ziops (ord col (2 ^ n)%nat) (observe D (hrun s h1) (HLiouville col n)) rho) (idx r) (idx c)
     = mget Ziops (observe D (hrun s h2) (HExec n rho)) (idx r) (idx c))
  /\ (forall po, NoDup po /\ length po = 4%nat /\ (forall x, In x po -> (x < 4)%nat) ->
     mget Ziops (z_pauli_action po n (observe D (hrun s h1) (HPauli po n)) rho) (idx r) (idx c)
     = zi_mul (zi_mul (twopow Ziops n) (twopow Ziops n))
         (mget Ziops (observe D (hrun s h2) (HExec n rho)) (idx r) (idx c))).
Proof.
  intros D s h1 h2 n rho r c Hr Hlr Hlc. rewrite !hrun_id. cbn [observe]. unfold apply_dm.
  exact (channel_views_describe_apply_kraus n (D - csum s) (terms s) rho r c Hr Hlr Hlc).
Qed.

(* non-vacuity / sanity: one object, X with weight 1/4, executed in registers of 1, 2 and again 1 qubits with
   queries of different orders in between: the observations are those of fresh objects, and the 2-qubit execution is
   the 2-qubit map (not the 1-qubit one re-used) *)
Definition ex_obj : chan := mkchan [1] [([0%nat], zX2)] 1 [0%nat].
Definition ex_rho1 : zmat := [[(1,0); (2,0)]; [(0,3); (5,0)]].
Definition ex_rho2 : zmat := [[(1,0); (2,0); (0,1); (3,0)]; [(0,3); (5,0); (1,1); (0,0)];
                              [(2,0); (0,0); (4,0); (0,-2)]; [(1,0); (1,0); (0,2); (7,0)]].
Definition ex_hist : list hop :=
  [HExec 1 ex_rho1; HChoi (Col 2) 1; HExec 2 ex_rho2; HChoi (Sys 2) 2; HLiouville true 1; HPauli [0;1;2;3]%nat 1; HExec 1 ex_rho1].
Example ex_trace_fresh : trace 4 ex_obj ex_hist = map (observe 4 ex_obj) ex_hist.
Proof. apply trace_is_fresh_l. Qed.
Example ex_sizes_differ :
  nth 2 (trace 4 ex_obj ex_hist) [] = apply_kraus 2 3 [(1, [0%nat], zX2)] ex_rho2
  /\ nth 0 (trace 4 ex_obj ex_hist) [] = nth 6 (trace 4 ex_obj ex_hist) []
  /\ length (nth 2 (trace 4 ex_obj ex_hist) []) = 4%nat /\ length (nth 0 (trace 4 ex_obj ex_hist) []) = 2%nat.
Proof. vm_compute. repeat split. Qed.

(* A LABELLED COUNTER-MODEL (not the current tree): an object that memoises the first register size it was
   executed in and re-uses it afterwards does NOT satisfy trace_is_fresh -- the statement is not vacuous. *)
Record cchan := mkc { cobj : chan; cached_n : option nat }.
Definition cstep (s : cchan) (o : hop) : cchan :=
  match o, cached_n s with
  | HExec n _, None => mkc (cobj s) (Some n)
  | _, _ => s
  end.
Definition cobserve (D : Z) (s : cchan) (o : hop) : zmat :=
  match o with
  | HExec n rho => apply_dm D (match cached_n s with Some n0 => n0 | None => n end) (cobj s) rho
  | _ => observe D (cobj s) o
  end.
Fixpoint ctrace (D : Z) (s : cchan) (ops : list hop) : list zmat :=
  match ops with [] => [] | o :: rest => cobserve D s o :: ctrace D (cstep s o) rest end.
Lemma caching_counter_model_is_history_dependent :
  exists ops, ctrace 4 (mkc ex_obj None) ops <> map (cobserve 4 (mkc ex_obj None)) ops.
Proof. exists [HExec 1 ex_rho1; HExec 2 ex_rho2]. vm_compute. intros H. discriminate H. Qed.
