(* C04/Object.v : the channel OBJECT as a state machine.
   State = the attributes the density-matrix / state-vector paths read: coefficients, gates,
   coefficient_sum.  Operations = the queries to_choi / to_liouville / to_pauli_liouville and the two
   executions.  Since repair 1e6eab1e3 no operation writes an attribute, so after ANY interleaving of
   operations the object is the one that was constructed and apply_density_matrix is the same map.
   The harness compares the attributes of the real object after every operation of a history with this
   model (exact).  The pre-repair to_choi (appended the identity term to coefficients / gates without
   updating coefficient_sum) is kept as a labelled historical transition with a refutation lemma. *)
From Coq Require Import ZArith List Bool Arith Lia.
From QV Require Import Base.Mat Base.Zi C04.ChannelSpec.
Import ListNotations.
Local Open Scope Z_scope.

Record chan := mkchan {
  coeffs : list Z;                       (* D * coefficients *)
  cgates : list (list nat * zmat);       (* gate qubits and matrices *)
  csum : Z;                              (* D * coefficient_sum *)
  targets : list nat }.
Inductive qop := QChoi | QLiouville | QPauli | QApplyDM | QApplySV.

(* current code: queries and executions read only *)
Definition step (s : chan) (o : qop) : chan := s.
Definition run (s : chan) (ops : list qop) : chan := fold_left step ops s.

Definition terms (s : chan) : list kterm := map (fun wg => (fst wg, fst (snd wg), snd (snd wg))) (combine (coeffs s) (cgates s)).
(* apply_channel_density_matrix: (1 - coefficient_sum) rho + sum coeff_k E_k rho E_k^dagger, scaled by D *)
Definition apply_dm (D : Z) (n : nat) (s : chan) (rho : zmat) : zmat := apply_kraus n (D - csum s) (terms s) rho.

Theorem queries_leave_object_unchanged : forall ops s, run s ops = s.
Proof. induction ops as [|o ops IH]; intros s; [reflexivity|]. cbn [run fold_left step]. apply IH. Qed.

Theorem apply_dm_independent_of_history : forall ops D n s rho,
  apply_dm D n (run s ops) rho = apply_dm D n s rho.
Proof. intros. now rewrite queries_leave_object_unchanged. Qed.
Print Assumptions apply_dm_independent_of_history.

(* HISTORICAL (pre-repair transition of to_choi, not the current tree): for channel classes other than
   KrausChannel / ReadoutErrorChannel with p0 = D - sum coefficients > 0 the identity term was appended to
   the object's coefficients and gates, coefficient_sum stayed *)
Definition zI2 : zmat := [[(1,0); (0,0)]; [(0,0); (1,0)]].
Definition zX2 : zmat := [[(0,0); (1,0)]; [(1,0); (0,0)]].
Definition step_prefix (D : Z) (idm : zmat) (s : chan) (o : qop) : chan :=
  match o with
  | QChoi | QLiouville | QPauli =>
      let p0 := D - fold_right Z.add 0 (coeffs s) in
      if 0 <? p0 then mkchan (coeffs s ++ [p0]) (cgates s ++ [(targets s, idm)]) (csum s) (targets s) else s
  | _ => s
  end.
Lemma historical_to_choi_mutates :
  exists s rho, apply_dm 4 1 (step_prefix 4 zI2 s QChoi) rho <> apply_dm 4 1 s rho.
Proof.
  exists (mkchan [1] [([0%nat], zX2)] 1 [0%nat]), [[(1,0); (2,0)]; [(0,3); (5,0)]].
  vm_compute. intros H. discriminate H.
Qed.
(* the current transition on the same witness *)
Example current_to_choi_does_not_mutate :
  apply_dm 4 1 (step (mkchan [1] [([0%nat], zX2)] 1 [0%nat]) QChoi) [[(1,0); (2,0)]; [(0,3); (5,0)]]
  = apply_dm 4 1 (mkchan [1] [([0%nat], zX2)] 1 [0%nat]) [[(1,0); (2,0)]; [(0,3); (5,0)]].
Proof. reflexivity. Qed.
