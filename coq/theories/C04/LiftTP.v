(* C04/LiftTP.v : trace preservation, complete positivity ("Gram form is preserved") and
   Hermiticity of the map  rho |-> w0 rho + sum_k w_k E_k rho E_k^dagger,  E_k = embed n qs_k K_k,
   for EVERY register size n and every duplicate-free in-range target list -- the n-qubit lift of
   the one-qubit theorems of ChannelSpec.v.
   Part G is generic (any commutative semiring K with a conjugation cj, C01/Lib.semiring,
   C01/ProofsDM.conj_ok); Part Z shows that the executable model C04/ChannelSpec.apply_kraus
   (Gaussian integers; the one the harness compares exactly with the real backend) IS the generic
   map, so every theorem holds for apply_kraus itself.
   Matrices are list matrices (Base/Mat.v); wf_mat n A = A is 2^n x 2^n; all matrix equalities
   are list equalities. *)
From Coq Require Import List Bool Arith Lia ZArith Ring.
From QV Require Import Base.Mat Base.Zi C01.Model C01.Spec C01.Lib C01.ProofsSV C01.ProofsCtrl C01.ProofsMat
  C01.ProofsRun C01.ProofsFused C01.ProofsQueue C01.ProofsDM C01.ProofsRunDM C01.ProofsDMCor C01.Examples
  Base.Sem C04.ChannelSpec.
Import ListNotations.

Section G.
  Context {T : Type} (K : ops T) (cj : T -> T).
  Hypothesis HK : semiring K.
  Hypothesis HC : conj_ok K cj.
  Notation T0 := (zero K).
  Notation T1 := (one K).
  Infix "+!" := (add K) (at level 50, left associativity).
  Infix "*!" := (mul K) (at level 40, left associativity).
  Notation tsum := (tsum K).
  Notation mentry := (mentry K).

  Lemma SRT : semi_ring_theory T0 T1 (add K) (mul K) (@eq T).
  Proof.
    constructor; intros.
    - apply (sr_add_0_l K HK). - apply (sr_add_comm K HK). - apply (sr_add_assoc K HK).
    - apply (sr_mul_1_l K HK). - apply (sr_mul_0_l K HK). - apply (sr_mul_comm K HK).
    - apply (sr_mul_assoc K HK). - apply (mul_add_r K HK).
  Qed.
  Add Ring TRlift : SRT.

  (* ---------------------------------------------------------------- the generic map *)
  Fixpoint gmadd (A B : mat T) : mat T :=
    match A, B with
    | r :: A', s :: B' => vadd K r s :: gmadd A' B'
    | [], _ => B
    | _, [] => A
    end.
  Definition kt := (T * list nat * mat T)%type.
  Definition gterm (n : nat) (t : kt) (rho : mat T) : mat T :=
    match t with (w, qs, M) =>
      let E := embed K n qs M in mscale K w (mmul K (mmul K E rho) (madj K cj n E)) end.
  Definition gapply (n : nat) (w0 : T) (ts : list kt) (rho : mat T) : mat T :=
    fold_left (fun acc t => gmadd acc (gterm n t rho)) ts (mscale K w0 rho).

  Definition tr (n : nat) (A : mat T) : T := tsum (map (fun x => mentry A x x) (allbits n)).
  (* w0 I + sum_k w_k E_k^dagger E_k *)
  Definition tp_term (n : nat) (t : kt) : mat T :=
    match t with (w, qs, M) =>
      let E := embed K n qs M in mscale K w (mmul K (madj K cj n E) E) end.
  Definition tp_op (n : nat) (w0 : T) (ts : list kt) : mat T :=
    fold_left (fun acc t => gmadd acc (tp_term n t)) ts (mscale K w0 (midentity K n)).

  (* ---------------------------------------------------------------- entries of sums and multiples *)
  Lemma mscale_tab2 n w f : mscale K w (tab2 n f) = tab2 n (fun r c => w *! f r c).
  Proof. unfold mscale, tab2, vscale. rewrite map_map. apply map_ext. intros r. now rewrite map_map. Qed.

  Lemma vadd_map {A} (f g : A -> T) l : vadd K (map f l) (map g l) = map (fun c => f c +! g c) l.
  Proof. induction l as [|x l IH]; simpl; [reflexivity|]. now rewrite IH. Qed.
  Lemma gmadd_map {A} (F G : A -> list T) l : gmadd (map F l) (map G l) = map (fun x => vadd K (F x) (G x)) l.
  Proof. induction l as [|x l IH]; simpl; [reflexivity|]. now rewrite IH. Qed.
  Lemma gmadd_tab2 n f g : gmadd (tab2 n f) (tab2 n g) = tab2 n (fun r c => f r c +! g r c).
  Proof. unfold tab2. rewrite gmadd_map. apply map_ext. intros r. apply vadd_map. Qed.

  Lemma wf_mscale n w A : wf_mat n A -> wf_mat n (mscale K w A).
  Proof. intros HA. rewrite (wf_tab2 K n A HA), mscale_tab2. apply tab2_wf. Qed.
  Lemma wf_gmadd n A B : wf_mat n A -> wf_mat n B -> wf_mat n (gmadd A B).
  Proof. intros HA HB. rewrite (wf_tab2 K n A HA), (wf_tab2 K n B HB), gmadd_tab2. apply tab2_wf. Qed.

  Lemma mat_eq n A B : wf_mat n A -> wf_mat n B ->
    (forall r c, length r = n -> length c = n -> mentry A r c = mentry B r c) -> A = B.
  Proof. intros HA HB H. rewrite (wf_tab2 K n A HA), (wf_tab2 K n B HB). now apply tab2_ext. Qed.

  Lemma mentry_mscale n w A r c : wf_mat n A -> length r = n -> length c = n ->
    mentry (mscale K w A) r c = w *! mentry A r c.
  Proof. intros HA Hr Hc. rewrite (wf_tab2 K n A HA) at 1. rewrite mscale_tab2. now rewrite (mentry_tab2 K). Qed.
  Lemma mentry_gmadd n A B r c : wf_mat n A -> wf_mat n B -> length r = n -> length c = n ->
    mentry (gmadd A B) r c = mentry A r c +! mentry B r c.
  Proof.
    intros HA HB Hr Hc. rewrite (wf_tab2 K n A HA) at 1. rewrite (wf_tab2 K n B HB) at 1.
    rewrite gmadd_tab2. now rewrite (mentry_tab2 K).
  Qed.
  Lemma mentry_mmul n A B r c : wf_mat n A -> wf_mat n B -> length r = n -> length c = n ->
    mentry (mmul K A B) r c = tsum (map (fun k => mentry A r k *! mentry B k c) (allbits n)).
  Proof. intros. now apply (mget_mmul_bits K HK n). Qed.
  Lemma mentry_madj n A r c : length r = n -> length c = n -> mentry (madj K cj n A) r c = cj (mentry A c r).
  Proof.
    intros Hr Hc. change (madj K cj n A) with (tab2 n (fun r c => cj (mget K A (idx c) (idx r)))).
    now rewrite (mentry_tab2 K).
  Qed.
  Lemma mentry_id n r c : length r = n -> length c = n ->
    mentry (midentity K n) r c = if beqb r c then T1 else T0.
  Proof. intros. rewrite midentity_tab2. now rewrite (mentry_tab2 K). Qed.
  Lemma midentity_wf n : wf_mat n (midentity K n).
  Proof. rewrite midentity_tab2. apply tab2_wf. Qed.

  (* ---------------------------------------------------------------- (1) trace *)
  Theorem tr_cyclic n A B : wf_mat n A -> wf_mat n B -> tr n (mmul K A B) = tr n (mmul K B A).
  Proof.
    intros HA HB. unfold tr.
    rewrite (tsum_map_ext K _ (fun x => tsum (map (fun k => mentry A x k *! mentry B k x) (allbits n))))
      by (intros x Hx; apply allbits_In in Hx; now apply (mentry_mmul n)).
    rewrite (tsum_swap K HK). apply tsum_map_ext. intros k Hk. apply allbits_In in Hk.
    rewrite (mentry_mmul n B A k k) by assumption. apply tsum_map_ext. intros x _. ring.
  Qed.
  Theorem tr_add n A B : wf_mat n A -> wf_mat n B -> tr n (gmadd A B) = tr n A +! tr n B.
  Proof.
    intros HA HB. unfold tr. rewrite <- (tsum_add K HK). apply tsum_map_ext. intros x Hx.
    apply allbits_In in Hx. now apply (mentry_gmadd n).
  Qed.
  Theorem tr_scale n w A : wf_mat n A -> tr n (mscale K w A) = w *! tr n A.
  Proof.
    intros HA. unfold tr. rewrite <- (tsum_scale_l K HK). apply tsum_map_ext. intros x Hx.
    apply allbits_In in Hx. now apply (mentry_mscale n).
  Qed.

  (* products distribute over sums and multiples *)
  Lemma mmul_gmadd_l n A B C : wf_mat n A -> wf_mat n B -> wf_mat n C ->
    mmul K (gmadd A B) C = gmadd (mmul K A C) (mmul K B C).
  Proof.
    intros HA HB HC'. apply (mat_eq n); [apply (mmul_wf K HK); [now apply wf_gmadd|assumption]
      | apply wf_gmadd; now apply (mmul_wf K HK) |].
    intros r c Hr Hc. rewrite (mentry_mmul n), (mentry_gmadd n), !(mentry_mmul n) by (auto using wf_gmadd, (mmul_wf K HK)).
    rewrite <- (tsum_add K HK). apply tsum_map_ext. intros k Hk. apply allbits_In in Hk.
    rewrite (mentry_gmadd n) by assumption. ring.
  Qed.
  Lemma mmul_mscale_l n w A C : wf_mat n A -> wf_mat n C -> mmul K (mscale K w A) C = mscale K w (mmul K A C).
  Proof.
    intros HA HC'. apply (mat_eq n); [apply (mmul_wf K HK); [now apply wf_mscale|assumption]
      | apply wf_mscale; now apply (mmul_wf K HK) |].
    intros r c Hr Hc. rewrite (mentry_mmul n), (mentry_mscale n), (mentry_mmul n) by (auto using wf_mscale, (mmul_wf K HK)).
    rewrite <- (tsum_scale_l K HK). apply tsum_map_ext. intros k Hk. apply allbits_In in Hk.
    rewrite (mentry_mscale n) by assumption. ring.
  Qed.

  Lemma wf_gterm n t rho : wf_mat n rho -> wf_mat n (gterm n t rho).
  Proof.
    intros Hr. destruct t as [[w qs] M]. cbn [gterm]. apply wf_mscale.
    apply (mmul_wf K HK); [apply (mmul_wf K HK); [apply embed_wf|exact Hr]|apply madj_wf].
  Qed.
  Lemma wf_tp_term n t : wf_mat n (tp_term n t).
  Proof.
    destruct t as [[w qs] M]. cbn [tp_term]. apply wf_mscale. apply (mmul_wf K HK); [apply madj_wf|apply embed_wf].
  Qed.

  (* ---------------------------------------------------------------- (2) trace of the map *)
  Lemma tr_gterm n t rho : wf_mat n rho -> tr n (gterm n t rho) = tr n (mmul K (tp_term n t) rho).
  Proof.
    intros Hr. destruct t as [[w qs] M]. cbn [gterm tp_term].
    pose proof (embed_wf K n qs M) as WE. pose proof (madj_wf K cj n (embed K n qs M)) as WD.
    set (E := embed K n qs M) in *. set (D := madj K cj n E) in *.
    rewrite (mmul_mscale_l n w (mmul K D E) rho) by (try apply (mmul_wf K HK); assumption).
    rewrite !tr_scale by (repeat apply (mmul_wf K HK); assumption). f_equal.
    rewrite (tr_cyclic n (mmul K E rho) D) by (try apply (mmul_wf K HK); assumption).
    now rewrite (mmul_assoc K HK n D E rho).
  Qed.

  Theorem gapply_trace n w0 ts rho : wf_mat n rho ->
    tr n (gapply n w0 ts rho) = tr n (mmul K (tp_op n w0 ts) rho).
  Proof.
    intros Hr. unfold gapply, tp_op.
    assert (G : forall ts acc accM, wf_mat n acc -> wf_mat n accM -> tr n acc = tr n (mmul K accM rho) ->
      tr n (fold_left (fun a t => gmadd a (gterm n t rho)) ts acc)
      = tr n (mmul K (fold_left (fun a t => gmadd a (tp_term n t)) ts accM) rho)).
    { clear ts. induction ts as [|t ts IH]; intros acc accM Ha Hm E; [exact E|]. cbn [fold_left].
      apply IH; [apply wf_gmadd; [exact Ha|now apply wf_gterm]|apply wf_gmadd; [exact Hm|apply wf_tp_term]|].
      rewrite (mmul_gmadd_l n accM (tp_term n t) rho Hm (wf_tp_term n t) Hr).
      rewrite !tr_add by (try apply (mmul_wf K HK); auto using wf_gterm, wf_tp_term).
      now rewrite E, tr_gterm. }
    apply G; [now apply wf_mscale|apply wf_mscale, midentity_wf|].
    rewrite (mmul_mscale_l n w0 _ rho (midentity_wf n) Hr). now rewrite (mmul_id_l K HK n rho Hr).
  Qed.

  (* ---------------------------------------------------------------- (3) lifting *)
  Lemma mget_mscale_gen w A i j : mget K (mscale K w A) i j = w *! mget K A i j.
  Proof.
    unfold mget, mscale. destruct (Nat.lt_ge_cases i (length A)).
    - rewrite (nth_map_d _ _ _ _ []) by assumption. apply (nth_vscale K HK).
    - rewrite (nth_overflow (map _ A)) by (rewrite map_length; lia). rewrite (nth_overflow A) by lia.
      destruct j; cbn; ring.
  Qed.
  Lemma vadd_nil_r (u : vec T) : vadd K u [] = u.
  Proof. destruct u; reflexivity. Qed.
  Lemma nth_gmadd A : forall B i, nth i (gmadd A B) [] = vadd K (nth i A []) (nth i B []).
  Proof.
    induction A as [|a A IH]; intros B i.
    - cbn [gmadd]. replace (nth i (@nil (list T)) []) with (@nil T) by (destruct i; reflexivity). reflexivity.
    - destruct B as [|b B].
      + cbn [gmadd]. replace (nth i (@nil (list T)) []) with (@nil T) by (destruct i; reflexivity).
        now rewrite vadd_nil_r.
      + destruct i as [|i]; cbn [gmadd nth]; [reflexivity|apply IH].
  Qed.
  Lemma mget_gmadd_gen A B i j : mget K (gmadd A B) i j = mget K A i j +! mget K B i j.
  Proof. unfold mget. rewrite nth_gmadd. apply (nth_vadd K HK). Qed.

  Lemma embed_gmadd n qs A B : embed K n qs (gmadd A B) = gmadd (embed K n qs A) (embed K n qs B).
  Proof.
    rewrite !embed_tab2, gmadd_tab2. apply tab2_ext. intros r c _ _.
    destruct (agree_off qs r c); [apply mget_gmadd_gen|ring].
  Qed.
  Lemma embed_mscale n qs w A : embed K n qs (mscale K w A) = mscale K w (embed K n qs A).
  Proof.
    rewrite !embed_tab2, mscale_tab2. apply tab2_ext. intros r c _ _.
    destruct (agree_off qs r c); [apply mget_mscale_gen|ring].
  Qed.

  (* the small (2^k x 2^k) operator  w0 I + sum_k w_k K_k^dagger K_k *)
  Definition tp_small (k : nat) (w0 : T) (ts : list kt) : mat T :=
    fold_left (fun acc t => match t with (w, _, M) => gmadd acc (mscale K w (mmul K (madj K cj k M) M)) end)
              ts (mscale K w0 (eye K (2 ^ k))).

  Theorem tp_op_lifts n qs w0 ts : NoDup qs -> (forall q, In q qs -> q < n) ->
    Forall (fun t : kt => snd (fst t) = qs /\ wf_mat (length qs) (snd t)) ts ->
    tp_op n w0 ts = embed K n qs (tp_small (length qs) w0 ts).
  Proof.
    intros Hn Hq Hts. unfold tp_op, tp_small.
    assert (G : forall ts accS, Forall (fun t : kt => snd (fst t) = qs /\ wf_mat (length qs) (snd t)) ts ->
      fold_left (fun a t => gmadd a (tp_term n t)) ts (embed K n qs accS)
      = embed K n qs (fold_left (fun acc t => match t with (w, _, M) =>
             gmadd acc (mscale K w (mmul K (madj K cj (length qs) M) M)) end) ts accS)).
    { clear ts Hts. induction ts as [|[[w qs'] M] ts IH]; intros accS Hf; [reflexivity|].
      inversion Hf as [|? ? Hhd Hf']; subst. destruct Hhd as [Hqs HM]. cbn [fst snd] in Hqs, HM. subst qs'. cbn [fold_left].
      rewrite <- IH by exact Hf'. f_equal. rewrite embed_gmadd, embed_mscale. f_equal. cbn [tp_term]. f_equal.
      rewrite (ProofsQueue.embed_mmul K HK n qs _ M Hn Hq (madj_wf K cj _ M) HM). f_equal.
      symmetry. apply (embed_dagger_eq K cj (cj_zero K cj HC) (cj_one K cj HC)). exact Hq. }
    rewrite <- G by exact Hts. f_equal. rewrite embed_mscale. f_equal. symmetry. now apply embed_eye.
  Qed.

  (* if the small operator is D times the identity (D = 1: trace preserving; integer weights: D = common
     denominator), the lifted map multiplies the trace by D -- every n, every target position *)
  Theorem kraus_tp_lifts_g n qs w0 ts D rho : NoDup qs -> (forall q, In q qs -> q < n) ->
    Forall (fun t : kt => snd (fst t) = qs /\ wf_mat (length qs) (snd t)) ts ->
    tp_small (length qs) w0 ts = mscale K D (eye K (2 ^ length qs)) -> wf_mat n rho ->
    tr n (gapply n w0 ts rho) = D *! tr n rho.
  Proof.
    intros Hn Hq Hts Hs Hr. rewrite (gapply_trace n w0 ts rho Hr), (tp_op_lifts n qs w0 ts Hn Hq Hts), Hs.
    rewrite embed_mscale, (embed_eye K n qs Hn Hq).
    rewrite (mmul_mscale_l n D _ rho (midentity_wf n) Hr), (mmul_id_l K HK n rho Hr). now apply tr_scale.
  Qed.

  (* mixtures of unitaries, the terms may act on DIFFERENT qubit lists (PauliNoise, UnitaryChannel, products) *)
  Definition unitary_term (n : nat) (t : kt) : Prop :=
    match t with (_, qs, U) =>
      NoDup qs /\ (forall q, In q qs -> q < n) /\ wf_mat (length qs) U
      /\ mmul K (madj K cj (length qs) U) U = eye K (2 ^ length qs) end.
  Definition total_weight (w0 : T) (ts : list kt) : T := fold_left (fun s t => s +! fst (fst t)) ts w0.

  Lemma mscale_id_add n a b : gmadd (mscale K a (midentity K n)) (mscale K b (midentity K n)) = mscale K (a +! b) (midentity K n).
  Proof.
    rewrite midentity_tab2, !mscale_tab2, gmadd_tab2. apply tab2_ext. intros r c _ _. destruct (beqb r c); ring.
  Qed.

  Theorem tp_op_unitary_mixture n w0 ts : Forall (unitary_term n) ts ->
    tp_op n w0 ts = mscale K (total_weight w0 ts) (midentity K n).
  Proof.
    unfold tp_op, total_weight. revert w0. induction ts as [|[[w qs] U] ts IH]; intros w0 Hf; [reflexivity|].
    inversion Hf as [|? ? Hhd Hf']; subst. destruct Hhd as [Hn [Hq [HU Hun]]]. cbn [fold_left fst]. rewrite <- IH by exact Hf'. f_equal.
    rewrite <- mscale_id_add. f_equal. cbn [tp_term]. f_equal.
    rewrite <- (embed_dagger_eq K cj (cj_zero K cj HC) (cj_one K cj HC) n qs U Hq).
    rewrite <- (ProofsQueue.embed_mmul K HK n qs _ U Hn Hq (madj_wf K cj _ U) HU). rewrite Hun. now apply embed_eye.
  Qed.

  Theorem unitary_mixture_trace_g n w0 ts rho : Forall (unitary_term n) ts -> wf_mat n rho ->
    tr n (gapply n w0 ts rho) = total_weight w0 ts *! tr n rho.
  Proof.
    intros Hf Hr. rewrite (gapply_trace n w0 ts rho Hr), (tp_op_unitary_mixture n w0 ts Hf).
    rewrite (mmul_mscale_l n _ _ rho (midentity_wf n) Hr), (mmul_id_l K HK n rho Hr). now apply tr_scale.
  Qed.

  (* ---------------------------------------------------------------- (4) Gram form is preserved *)
  (* sum_i c_i v_i v_i^dagger, the v_i given as tensors (functions on bit strings) *)
  Definition gram (n : nat) (l : list (T * tensor (T:=T))) : mat T :=
    tab2 n (fun r c => tsum (map (fun cv => fst cv *! (snd cv r *! cj (snd cv c))) l)).

  Lemma gram_app n l1 l2 : gmadd (gram n l1) (gram n l2) = gram n (l1 ++ l2).
  Proof. unfold gram. rewrite gmadd_tab2. apply tab2_ext. intros r c _ _. now rewrite map_app, (tsum_app K HK). Qed.
  Lemma gram_scale n w l : mscale K w (gram n l) = gram n (map (fun cv => (w *! fst cv, snd cv)) l).
  Proof.
    unfold gram. rewrite mscale_tab2. apply tab2_ext. intros r c _ _. rewrite map_map. cbn [fst snd].
    rewrite <- (tsum_scale_l K HK). apply tsum_map_ext. intros cv _. apply (sr_mul_assoc K HK).
  Qed.

  (* E (sum c_i v_i v_i^dagger) E^dagger = sum c_i (E v_i)(E v_i)^dagger *)
  Lemma sandwich_gram n E l : wf_mat n E ->
    mmul K (mmul K E (gram n l)) (madj K cj n E) = gram n (map (fun cv => (fst cv, mact K n E (snd cv))) l).
  Proof.
    intros HE. rewrite (wf_tab2 K n E HE). generalize (mentry E). intros e.
    unfold gram. rewrite (mmul_tab2 K HK), madj_tab2, (mmul_tab2 K HK). apply tab2_ext. intros r c Hr Hc.
    rewrite map_map. cbn [fst snd].
    set (S := fun (cv : T * tensor (T:=T)) (k j : list bool) =>
                fst cv *! ((e r j *! snd cv j) *! cj (e c k *! snd cv k))).
    transitivity (tsum (map (fun k => tsum (map (fun j => tsum (map (fun cv => S cv k j) l)) (allbits n))) (allbits n))).
    - apply tsum_map_ext. intros k _. rewrite <- (tsum_scale_r K HK). apply tsum_map_ext. intros j _.
      rewrite <- (tsum_scale_l K HK), <- (tsum_scale_r K HK). apply tsum_map_ext. intros [ci v] _.
      unfold S. cbn [fst snd]. rewrite (cj_mul K cj HC). ring.
    - transitivity (tsum (map (fun cv => tsum (map (fun k => tsum (map (fun j => S cv k j) (allbits n))) (allbits n))) l)).
      + rewrite (tsum_swap K HK (fun cv k => tsum (map (fun j => S cv k j) (allbits n))) l (allbits n)).
        apply tsum_map_ext. intros k _.
        now rewrite (tsum_swap K HK (fun cv j => S cv k j) l (allbits n)).
      + apply tsum_map_ext. intros [ci v] _. cbn [fst snd]. rewrite !(mact_tab2 K) by assumption.
        rewrite (cj_tsum K cj HC). rewrite <- (tsum_scale_l K HK). rewrite <- (tsum_scale_l K HK).
        apply tsum_map_ext. intros k _. rewrite <- (tsum_scale_r K HK). rewrite <- (tsum_scale_l K HK).
        apply tsum_map_ext. intros j _. reflexivity.
  Qed.

  Definition gram_out (n : nat) (w0 : T) (ts : list kt) (l : list (T * tensor (T:=T))) : list (T * tensor (T:=T)) :=
    fold_left (fun acc t => match t with (w, qs, M) =>
                 acc ++ map (fun cv => (w *! fst cv, mact K n (embed K n qs M) (snd cv))) l end)
              ts (map (fun cv => (w0 *! fst cv, snd cv)) l).

  (* complete positivity without an order: a state in Gram form is mapped to a state in Gram form whose
     coefficients are products (weight x input coefficient) and whose vectors are E_k v_i; n is arbitrary, so
     the same holds with the operators embedded on the same qubits of any larger register n + m *)
  Theorem gapply_gram n w0 ts l : gapply n w0 ts (gram n l) = gram n (gram_out n w0 ts l).
  Proof.
    unfold gapply, gram_out. rewrite gram_scale. generalize (map (fun cv => (w0 *! fst cv, snd cv)) l) as acc.
    induction ts as [|[[w qs] M] ts IH]; intros acc; [reflexivity|]. cbn [fold_left].
    rewrite <- IH. f_equal. rewrite <- gram_app. f_equal. cbn [gterm].
    rewrite (sandwich_gram n _ l (embed_wf K n qs M)), gram_scale, map_map. reflexivity.
  Qed.

  (* ---------------------------------------------------------------- (5) Hermiticity *)
  Hypothesis cj_invol : forall a, cj (cj a) = a.
  Definition hermitian (n : nat) (A : mat T) : Prop := madj K cj n A = A.

  Lemma madj_gmadd n A B : wf_mat n A -> wf_mat n B -> madj K cj n (gmadd A B) = gmadd (madj K cj n A) (madj K cj n B).
  Proof.
    intros HA HB. rewrite (wf_tab2 K n A HA), (wf_tab2 K n B HB), gmadd_tab2, !madj_tab2, gmadd_tab2.
    apply tab2_ext. intros r c _ _. apply (cj_add K cj HC).
  Qed.
  Lemma madj_mscale n w A : wf_mat n A -> madj K cj n (mscale K w A) = mscale K (cj w) (madj K cj n A).
  Proof.
    intros HA. rewrite (wf_tab2 K n A HA), mscale_tab2, !madj_tab2, mscale_tab2.
    apply tab2_ext. intros r c _ _. apply (cj_mul K cj HC).
  Qed.
  Lemma hermitian_sandwich n E rho : wf_mat n E -> wf_mat n rho -> hermitian n rho ->
    hermitian n (mmul K (mmul K E rho) (madj K cj n E)).
  Proof.
    intros HE Hr Hh. unfold hermitian in *.
    rewrite (madj_mmul K cj HK HC n _ _ ((mmul_wf K HK) n E rho HE Hr) (madj_wf K cj n E)).
    rewrite (madj_madj K cj cj_invol n E HE), (madj_mmul K cj HK HC n E rho HE Hr), Hh.
    symmetry. apply (mmul_assoc K HK n E rho _ HE Hr (madj_wf K cj n E)).
  Qed.

  Theorem gapply_hermitian n w0 ts rho : wf_mat n rho -> hermitian n rho ->
    cj w0 = w0 -> Forall (fun t : kt => cj (fst (fst t)) = fst (fst t)) ts ->
    hermitian n (gapply n w0 ts rho).
  Proof.
    intros Hr Hh Hw0 Hts. unfold gapply.
    assert (G : forall ts acc, Forall (fun t : kt => cj (fst (fst t)) = fst (fst t)) ts ->
              wf_mat n acc -> hermitian n acc ->
              hermitian n (fold_left (fun a t => gmadd a (gterm n t rho)) ts acc)).
    { clear ts Hts. induction ts as [|[[w qs] M] ts IH]; intros acc Hf Ha Hha; [exact Hha|].
      inversion Hf as [|? ? Hw Hf']; subst. cbn [fst] in Hw. cbn [fold_left].
      apply IH; [exact Hf'|apply wf_gmadd; [exact Ha|now apply wf_gterm]|].
      unfold hermitian in *. rewrite (madj_gmadd n acc _ Ha (wf_gterm n (w, qs, M) rho Hr)), Hha. f_equal.
      cbn [gterm]. rewrite madj_mscale, Hw.
      - f_equal. apply (hermitian_sandwich n _ rho (embed_wf K n qs M) Hr Hh).
      - apply (mmul_wf K HK); [apply (mmul_wf K HK); [apply embed_wf|exact Hr]|apply madj_wf]. }
    apply G; [exact Hts|now apply wf_mscale|]. unfold hermitian in *. now rewrite madj_mscale, Hw0, Hh.
  Qed.
End G.

(* ==================================================================== Part Z: the executable model *)
(* conjugate transpose by Base.Mat.transpose = madj, on rectangular list matrices *)
Lemma zipcons_map {A} (d : A) (r : list A) : forall (F : nat -> list A) s,
  zipcons r (map F (seq s (length r))) = map (fun j => nth (j - s) r d :: F j) (seq s (length r)).
Proof.
  induction r as [|x r IH]; intros F s; [reflexivity|]. cbn [length seq map zipcons].
  rewrite Nat.sub_diag. cbn [nth]. f_equal. rewrite IH. apply map_ext_in. intros j Hj. apply in_seq in Hj.
  replace (j - s) with (S (j - S s)) by lia. reflexivity.
Qed.
Lemma zipcons_nil {A} (r : list A) : zipcons r [] = map (fun x => [x]) r.
Proof. induction r as [|x r IH]; [reflexivity|]. cbn [zipcons map]. now rewrite IH. Qed.

Lemma transpose_spec {A} (d : A) (M : list (list A)) C : M <> [] -> Forall (fun row => length row = C) M ->
  transpose M = map (fun j => map (fun i => nth j (nth i M []) d) (seq 0 (length M))) (seq 0 C).
Proof.
  induction M as [|r M IH]; intros Hne Hf; [congruence|].
  inversion Hf as [|? ? Hr Hf']; subst. cbn [transpose]. destruct M as [|r' M].
  - cbn [transpose]. rewrite zipcons_nil. cbn [length seq map].
    rewrite <- (map_nth_seq r d) at 1. rewrite map_map. apply map_ext. intros j. reflexivity.
  - remember (r' :: M) as M' eqn:EM. rewrite IH by (subst; congruence || exact Hf').
    rewrite (zipcons_map d r _ 0).
    apply map_ext_in. intros j _. rewrite Nat.sub_0_r. cbn [length seq map nth].
    f_equal. rewrite <- seq_shift, map_map. reflexivity.
Qed.

Lemma zdagger_madj n A : wf_mat n A -> zdagger A = madj Ziops zi_conj n A.
Proof.
  intros [Hl Hf]. unfold zdagger.
  assert (Hne : A <> []) by (intros ->; cbn in Hl; pose proof (Nat.pow_nonzero 2 n); lia).
  rewrite (transpose_spec zi0 A (2 ^ n) Hne Hf), Hl. unfold madj. rewrite <- (map_idx_allbits n), !map_map.
  apply map_ext. intros r. rewrite !map_map. apply map_ext. intros c. reflexivity.
Qed.

Lemma zmadd_gmadd A : forall B, zmadd A B = gmadd Ziops A B.
Proof. induction A as [|r A IH]; intros [|s B]; cbn [zmadd gmadd]; try reflexivity; try (now rewrite IH). Qed.

Definition zw (w : Z) : Zi := (w, 0%Z).
Definition zlift (t : kterm) : kt (T:=Zi) := match t with (w, qs, M) => (zw w, qs, M) end.

Theorem apply_kraus_is_gapply n w0 ts rho :
  apply_kraus n w0 ts rho = gapply Ziops zi_conj n (zw w0) (map zlift ts) rho.
Proof.
  unfold apply_kraus, gapply. change (mscale Ziops (zw w0) rho) with (zscale w0 rho).
  generalize (zscale w0 rho) as acc.
  induction ts as [|[[w qs] M] ts IH]; intros acc; [reflexivity|]. cbn [fold_left map].
  rewrite IH. f_equal. rewrite zmadd_gmadd. f_equal. cbn [apply_term zlift gterm].
  rewrite (zdagger_madj n _ (embed_wf Ziops n qs M)). reflexivity.
Qed.

Definition ztr := tr Ziops.
Lemma zw_real w : zi_conj (zw w) = zw w.
Proof. reflexivity. Qed.

(* ---- the theorems for apply_kraus itself *)
Notation ZK := Zi_semiring.
Notation ZC := Zi_conj_ok.

Theorem z_trace_cyclic n A B : wf_mat n A -> wf_mat n B -> ztr n (mmul Ziops A B) = ztr n (mmul Ziops B A).
Proof. apply (tr_cyclic Ziops ZK). Qed.

Theorem z_apply_kraus_trace n w0 ts rho : wf_mat n rho ->
  ztr n (apply_kraus n w0 ts rho) = ztr n (mmul Ziops (tp_op Ziops zi_conj n (zw w0) (map zlift ts)) rho).
Proof. intros Hr. rewrite apply_kraus_is_gapply. now apply (gapply_trace Ziops zi_conj ZK). Qed.

Lemma zlift_same_qubits qs ts :
  Forall (fun t : kterm => snd (fst t) = qs /\ wf_mat (length qs) (snd t)) ts ->
  Forall (fun t : kt (T:=Zi) => snd (fst t) = qs /\ wf_mat (length qs) (snd t)) (map zlift ts).
Proof.
  intros H. apply Forall_forall. intros t Ht. apply in_map_iff in Ht. destruct Ht as [[[w q] M] [<- Hin]].
  rewrite Forall_forall in H. exact (H _ Hin).
Qed.

Theorem z_kraus_tp_lifts n qs w0 ts D rho : NoDup qs -> (forall q, In q qs -> q < n) ->
  Forall (fun t : kterm => snd (fst t) = qs /\ wf_mat (length qs) (snd t)) ts ->
  tp_small Ziops zi_conj (length qs) (zw w0) (map zlift ts) = mscale Ziops (zw D) (eye Ziops (2 ^ length qs)) ->
  wf_mat n rho ->
  ztr n (apply_kraus n w0 ts rho) = zi_mul (zw D) (ztr n rho).
Proof.
  intros Hn Hq Hts Hs Hr. rewrite apply_kraus_is_gapply.
  exact (kraus_tp_lifts_g Ziops zi_conj ZK ZC n qs (zw w0) (map zlift ts) (zw D) rho Hn Hq (zlift_same_qubits qs ts Hts) Hs Hr).
Qed.

Definition z_unitary_term (n : nat) (t : kterm) : Prop := unitary_term Ziops zi_conj n (zlift t).

Theorem z_unitary_mixture_trace n w0 ts rho : Forall (z_unitary_term n) ts -> wf_mat n rho ->
  ztr n (apply_kraus n w0 ts rho) = zi_mul (total_weight Ziops (zw w0) (map zlift ts)) (ztr n rho).
Proof.
  intros Hf Hr. rewrite apply_kraus_is_gapply.
  apply (unitary_mixture_trace_g Ziops zi_conj ZK ZC); [|exact Hr].
  apply Forall_forall. intros t Ht. apply in_map_iff in Ht. destruct Ht as [t0 [<- Hin]].
  rewrite Forall_forall in Hf. exact (Hf _ Hin).
Qed.

Theorem z_apply_kraus_gram n w0 ts l :
  apply_kraus n w0 ts (gram Ziops zi_conj n l)
  = gram Ziops zi_conj n (gram_out Ziops n (zw w0) (map zlift ts) l).
Proof. rewrite apply_kraus_is_gapply. apply (gapply_gram Ziops zi_conj ZK ZC). Qed.

Theorem z_apply_kraus_hermitian n w0 ts rho : wf_mat n rho -> hermitian Ziops zi_conj n rho ->
  hermitian Ziops zi_conj n (apply_kraus n w0 ts rho).
Proof.
  intros Hr Hh. rewrite apply_kraus_is_gapply.
  apply (gapply_hermitian Ziops zi_conj ZK ZC); [|exact Hr|exact Hh|reflexivity|].
  - intros [a b]. unfold zi_conj. cbn [fst snd]. f_equal. apply Z.opp_involutive.
  - apply Forall_forall. intros t Ht. apply in_map_iff in Ht. destruct Ht as [[[w q] M] [<- _]]. reflexivity.
Qed.

(* complete positivity on an extended register: the same operators embedded on the same qubits of a
   register with m more qubits again map Gram forms to Gram forms (instance of the n-generic theorem),
   and trace preservation does not depend on the size of the register *)
Corollary z_apply_kraus_gram_extended n m w0 ts l :
  apply_kraus (n + m) w0 ts (gram Ziops zi_conj (n + m) l)
  = gram Ziops zi_conj (n + m) (gram_out Ziops (n + m) (zw w0) (map zlift ts) l).
Proof. apply z_apply_kraus_gram. Qed.

Corollary z_kraus_tp_lifts_extended n m qs w0 ts D rho : NoDup qs -> (forall q, In q qs -> q < n) ->
  Forall (fun t : kterm => snd (fst t) = qs /\ wf_mat (length qs) (snd t)) ts ->
  tp_small Ziops zi_conj (length qs) (zw w0) (map zlift ts) = mscale Ziops (zw D) (eye Ziops (2 ^ length qs)) ->
  wf_mat (n + m) rho ->
  ztr (n + m) (apply_kraus (n + m) w0 ts rho) = zi_mul (zw D) (ztr (n + m) rho).
Proof.
  intros Hn Hq. apply z_kraus_tp_lifts; [exact Hn|]. intros q Hin. specialize (Hq q Hin). lia.
Qed.

(* ---- non-vacuity: the hypotheses are satisfiable by concrete integer data *)
Local Open Scope Z_scope.
Definition ex_K0 : zmat := [[(1,0); (0,0)]; [(0,0); (0,0)]].   (* |0><0| *)
Definition ex_K1 : zmat := [[(0,0); (1,0)]; [(0,0); (0,0)]].   (* |0><1| *)
Definition ex_X : zmat := [[(0,0); (1,0)]; [(1,0); (0,0)]].
Definition ex_Z : zmat := [[(1,0); (0,0)]; [(0,0); (-1,0)]].
Local Close Scope Z_scope.

(* a reset-to-|0> Kraus pair on qubit 2 (any register containing it): sum K^dagger K = I *)
Example ex_reset_tp_small :
  tp_small Ziops zi_conj 1 (zw 0) (map zlift [(1%Z, [2], ex_K0); (1%Z, [2], ex_K1)])
  = mscale Ziops (zw 1) (eye Ziops (2 ^ 1)).
Proof. vm_compute. reflexivity. Qed.
Example ex_reset_same_qubits :
  Forall (fun t : kterm => snd (fst t) = [2] /\ wf_mat (length [2]) (snd t)) [(1%Z, [2], ex_K0); (1%Z, [2], ex_K1)].
Proof. repeat constructor. Qed.
(* a Pauli-noise mixture with terms on different qubit lists, weights 1 + 2 + 1 = 4 = D *)
Example ex_pauli_mixture : Forall (z_unitary_term 3) [(2%Z, [2], ex_X); (1%Z, [0], ex_Z)].
Proof.
  assert (N1 : forall x : nat, NoDup [x]) by (intros x; constructor; [intros []|constructor]).
  constructor; [|constructor; [|constructor]]; unfold z_unitary_term, zlift, unitary_term;
    (split; [apply N1|split; [intros q [<-|[]]; lia|split; [repeat constructor|vm_compute; reflexivity]]]).
Qed.
Example ex_pauli_mixture_weight :
  total_weight Ziops (zw 1) (map zlift [(2%Z, [2], ex_X); (1%Z, [0], ex_Z)]) = zw 4.
Proof. reflexivity. Qed.
