(* C04/PropsHistory.v : property theorems about histories on one channel object (statements only; proofs in
   C04/History.v).  "any interleaving of representation queries and executions", with register sizes, orders and
   Pauli orderings as arguments of the operations. *)
From Coq Require Import List Bool Arith Lia ZArith.
From QV Require Import Base.Mat Base.Zi C17.Alg C17.Model C17.Spec C17.ZiInst C17.ProofsIdx C17.ProofsVec
  C17.ProofsPerm C17.ProofsPauli C17.ProofsStine C17.Props.
From QV Require Import C01.Model C01.Spec C01.Lib C01.ProofsSV C01.ProofsMat C01.ProofsFused C01.ProofsRunDM C01.Examples
  Base.Sem C04.ChannelSpec C04.LiftTP C04.LiftFast C04.Object C04.Views C04.History.
Import ListNotations.
Local Open Scope Z_scope.

(* every observation along a history equals the observation of a freshly constructed object for the same call *)
Theorem trace_is_fresh : forall D ops s, trace D s ops = map (observe D s) ops.
Proof. exact trace_is_fresh_l. Qed.
Print Assumptions trace_is_fresh.

(* whatever was done before (executions in registers of other sizes, queries of any order), a call observes
   what it observes on the constructed object *)
Theorem observe_after_history : forall D h s o, observe D (hrun s h) o = observe D s o.
Proof. exact observe_after_history_l. Qed.
Print Assumptions observe_after_history.

(* an execution in a register of n qubits after any history is the declared map on n qubits *)
Theorem exec_after_any_history : forall D h s n rho,
  observe D (hrun s h) (HExec n rho) = apply_kraus n (D - csum s) (terms s) rho.
Proof. exact exec_after_any_history_l. Qed.
Print Assumptions exec_after_any_history.

(* a view of any order asked after history h1 acts on rho as the execution made after history h2 *)
Theorem views_after_any_history : forall D s h1 h2 n rho r c,
  wf_mat n rho -> length r = n -> length c = n ->
  (forall o, odim o = (2 ^ n)%nat ->
     mget Ziops (choi_action Ziops o (observe D (hrun s h1) (HChoi o n)) rho) (idx r) (idx c)
     = mget Ziops (observe D (hrun s h2) (HExec n rho)) (idx r) (idx c))
  /\ (forall col,
     mget Ziops (liouville_action Ziops (ord col (2 ^ n)%nat) (observe D (hrun s h1) (HLiouville col n)) rho) (idx r) (idx c)
     = mget Ziops (observe D (hrun s h2) (HExec n rho)) (idx r) (idx c))
  /\ (forall po, NoDup po /\ length po = 4%nat /\ (forall x, In x po -> (x < 4)%nat) ->
     mget Ziops (z_pauli_action po n (observe D (hrun s h1) (HPauli po n)) rho) (idx r) (idx c)
     = zi_mul (zi_mul (twopow Ziops n) (twopow Ziops n))
         (mget Ziops (observe D (hrun s h2) (HExec n rho)) (idx r) (idx c))).
Proof. exact views_after_any_history_l. Qed.
Print Assumptions views_after_any_history.

(* non-vacuity: a concrete history with register sizes 1, 2, 1 and four kinds of queries *)
Example history_example : trace 4 ex_obj ex_hist = map (observe 4 ex_obj) ex_hist /\ length ex_hist = 7%nat.
Proof. split; [apply trace_is_fresh_l | reflexivity]. Qed.
