(* C04/Props.v : property theorems of C04.
   Part 1 (all parameter values; one-qubit density matrices arbitrary complex): the documented Kraus
   lists are trace preserving and equal the documented closed forms.
   Part 2 (C04/LiftTP.v; every register size n, every duplicate-free in-range target list): the map
   apply_kraus of C04/ChannelSpec.v -- the model the harness compares exactly with the real backend --
   is trace preserving as soon as the small operator sum is, completely positive (Gram form) and
   Hermiticity preserving.  The exact correspondence run (harness/c04.py) ties apply_kraus and the
   index-level closed forms to the code. *)
From Coq Require Import Reals List.
From Coquelicot Require Import Complex.
From QV Require Import Base.Mat Base.Zi C01.Model C01.ProofsMat C04.ChannelSpec C04.LiftTP C04.LiftFast.
Import ListNotations.
Local Open Scope R_scope.

Theorem reset_is_trace_preserving : forall p0 p1 s0 s1 s2,
  s0 * s0 = p0 -> s1 * s1 = p1 -> s2 * s2 = 1 - p0 - p1 -> kraus_tp (reset_ops s0 s1 s2) = m2id.
Proof. exact reset_kraus_tp. Qed.
Print Assumptions reset_is_trace_preserving.

Theorem reset_matches_documented_map : forall p0 p1 s0 s1 s2 (a b c d : C),
  s0 * s0 = p0 -> s1 * s1 = p1 -> s2 * s2 = 1 - p0 - p1 ->
  kraus_map (reset_ops s0 s1 s2) (a, b, c, d)
  = m2add (m2scale (1 - p0 - p1) (a, b, c, d))
          (Cmult (RtoC p0) (Cplus a d), RtoC 0, RtoC 0, Cmult (RtoC p1) (Cplus a d)).
Proof. exact reset_kraus_closed_form. Qed.
Print Assumptions reset_matches_documented_map.

Theorem amplitude_damping_is_trace_preserving :
  forall g s t, s * s = 1 - g -> t * t = g -> kraus_tp (ad_ops s t) = m2id.
Proof. exact amplitude_damping_tp. Qed.
Print Assumptions amplitude_damping_is_trace_preserving.

Theorem amplitude_damping_matches_documented_map : forall g s t (a b c d : C),
  s * s = 1 - g -> t * t = g ->
  kraus_map (ad_ops s t) (a, b, c, d)
  = (Cplus a (Cmult (RtoC g) d), Cmult (RtoC s) b, Cmult (RtoC s) c, Cmult (RtoC (1 - g)) d).
Proof. exact amplitude_damping_closed_form. Qed.
Print Assumptions amplitude_damping_matches_documented_map.

Theorem phase_damping_is_trace_preserving :
  forall g s t, s * s = 1 - g -> t * t = g -> kraus_tp (pd_ops s t) = m2id.
Proof. exact phase_damping_tp. Qed.
Print Assumptions phase_damping_is_trace_preserving.

Theorem phase_damping_matches_documented_map : forall g s t (a b c d : C),
  s * s = 1 - g -> t * t = g ->
  kraus_map (pd_ops s t) (a, b, c, d) = (a, Cmult (RtoC s) b, Cmult (RtoC s) c, d).
Proof. exact phase_damping_closed_form. Qed.
Print Assumptions phase_damping_matches_documented_map.

Theorem depolarizing_pauli_mixture_is_documented_map : forall lam (a b c d : C),
  m2add (m2scale (1 - 3 * lam / 4) (a, b, c, d))
    (m2add (m2scale (lam / 4) (conjugate pX (a, b, c, d)))
      (m2add (m2scale (lam / 4) (conjugate pY (a, b, c, d)))
             (m2scale (lam / 4) (conjugate pZ (a, b, c, d)))))
  = m2add (m2scale (1 - lam) (a, b, c, d))
          (Cmult (RtoC (lam / 2)) (Cplus a d), RtoC 0, RtoC 0, Cmult (RtoC (lam / 2)) (Cplus a d)).
Proof. exact depolarizing_closed_form. Qed.
Print Assumptions depolarizing_pauli_mixture_is_documented_map.

Theorem thermal_t1_ge_t2_is_trace_preserving : forall p0 p1 pz s0 s1 sz s3,
  s0 * s0 = p0 -> s1 * s1 = p1 -> sz * sz = pz -> s3 * s3 = 1 - p0 - p1 - pz ->
  kraus_tp (thermal_ops s0 s1 sz s3) = m2id.
Proof. exact thermal_ge_tp. Qed.
Print Assumptions thermal_t1_ge_t2_is_trace_preserving.

Theorem thermal_t1_ge_t2_fast_path_is_kraus_map : forall p0 p1 pz s0 s1 sz s3 (a b c d : C),
  s0 * s0 = p0 -> s1 * s1 = p1 -> sz * sz = pz -> s3 * s3 = 1 - p0 - p1 - pz ->
  kraus_map (thermal_ops s0 s1 sz s3) (a, b, c, d)
  = m2add (m2add (m2scale (1 - p0 - p1) (a, b, c, d))
                 (Cmult (RtoC p0) (Cplus a d), RtoC 0, RtoC 0, Cmult (RtoC p1) (Cplus a d)))
          (m2add (m2scale (- pz) (a, b, c, d)) (m2scale pz (conjugate pZ (a, b, c, d)))).
Proof. exact thermal_ge_fast_path. Qed.
Print Assumptions thermal_t1_ge_t2_fast_path_is_kraus_map.

(* ==================================================================== Part 2: every n, every position *)
Local Close Scope R_scope.

(* (1) the trace is cyclic on 2^n x 2^n matrices *)
Theorem trace_cyclic : forall n (A B : zmat), wf_mat n A -> wf_mat n B ->
  ztr n (mmul Ziops A B) = ztr n (mmul Ziops B A).
Proof. exact z_trace_cyclic. Qed.
Print Assumptions trace_cyclic.

(* the model apply_kraus is the generic map  w0 rho + sum_k w_k E_k rho E_k^dagger,  E_k = embed n qs_k K_k *)
Theorem apply_kraus_is_generic_map : forall n w0 ts rho,
  apply_kraus n w0 ts rho = gapply Ziops zi_conj n (zw w0) (map zlift ts) rho.
Proof. exact apply_kraus_is_gapply. Qed.
Print Assumptions apply_kraus_is_generic_map.

(* (2) tr(apply_kraus rho) = tr((w0 I + sum_k w_k E_k^dagger E_k) rho) *)
Theorem apply_kraus_trace : forall n w0 ts rho, wf_mat n rho ->
  ztr n (apply_kraus n w0 ts rho) = ztr n (mmul Ziops (tp_op Ziops zi_conj n (zw w0) (map zlift ts)) rho).
Proof. exact z_apply_kraus_trace. Qed.
Print Assumptions apply_kraus_trace.

(* (3) lifting: if the small operator w0 I + sum_k w_k K_k^dagger K_k is D times the 2^k x 2^k identity
   (D = 1: trace preserving; D = the common denominator of integer weights), then for EVERY register
   size n and EVERY duplicate-free in-range target list qs (any order) the trace is multiplied by D *)
Theorem kraus_tp_lifts : forall n qs w0 ts D rho, NoDup qs -> (forall q, In q qs -> q < n) ->
  Forall (fun t : kterm => snd (fst t) = qs /\ wf_mat (length qs) (snd t)) ts ->
  tp_small Ziops zi_conj (length qs) (zw w0) (map zlift ts) = mscale Ziops (zw D) (eye Ziops (2 ^ length qs)) ->
  wf_mat n rho ->
  ztr n (apply_kraus n w0 ts rho) = zi_mul (zw D) (ztr n rho).
Proof. exact z_kraus_tp_lifts. Qed.
Print Assumptions kraus_tp_lifts.

(* mixtures of unitaries whose terms may act on DIFFERENT qubit lists (PauliNoiseChannel,
   UnitaryChannel, DepolarizingChannel as a Pauli mixture): the trace is multiplied by w0 + sum_k w_k *)
Theorem unitary_mixture_trace : forall n w0 ts rho, Forall (z_unitary_term n) ts -> wf_mat n rho ->
  ztr n (apply_kraus n w0 ts rho) = zi_mul (total_weight Ziops (zw w0) (map zlift ts)) (ztr n rho).
Proof. exact z_unitary_mixture_trace. Qed.
Print Assumptions unitary_mixture_trace.

(* (4) complete positivity, without an order: rho = sum_i c_i v_i v_i^dagger is mapped to
   sum (w0 c_i) v_i v_i^dagger + sum_{k,i} (w_k c_i) (E_k v_i)(E_k v_i)^dagger -- again a Gram form whose
   coefficients are products weight x input coefficient; no hypothesis on n, the qubit lists or the operators,
   so it holds verbatim with the operators embedded in any larger register (second statement) *)
Theorem apply_kraus_preserves_gram_form : forall n w0 ts l,
  apply_kraus n w0 ts (gram Ziops zi_conj n l)
  = gram Ziops zi_conj n (gram_out Ziops n (zw w0) (map zlift ts) l).
Proof. exact z_apply_kraus_gram. Qed.
Print Assumptions apply_kraus_preserves_gram_form.

Theorem apply_kraus_preserves_gram_form_on_extended_register : forall n m w0 ts l,
  apply_kraus (n + m) w0 ts (gram Ziops zi_conj (n + m) l)
  = gram Ziops zi_conj (n + m) (gram_out Ziops (n + m) (zw w0) (map zlift ts) l).
Proof. exact z_apply_kraus_gram_extended. Qed.
Print Assumptions apply_kraus_preserves_gram_form_on_extended_register.

Theorem kraus_tp_lifts_on_extended_register : forall n m qs w0 ts D rho, NoDup qs -> (forall q, In q qs -> q < n) ->
  Forall (fun t : kterm => snd (fst t) = qs /\ wf_mat (length qs) (snd t)) ts ->
  tp_small Ziops zi_conj (length qs) (zw w0) (map zlift ts) = mscale Ziops (zw D) (eye Ziops (2 ^ length qs)) ->
  wf_mat (n + m) rho ->
  ztr (n + m) (apply_kraus (n + m) w0 ts rho) = zi_mul (zw D) (ztr (n + m) rho).
Proof. exact z_kraus_tp_lifts_extended. Qed.
Print Assumptions kraus_tp_lifts_on_extended_register.

(* (5) Hermiticity is preserved (weights are real: integers) *)
Theorem apply_kraus_preserves_hermiticity : forall n w0 ts rho, wf_mat n rho ->
  hermitian Ziops zi_conj n rho -> hermitian Ziops zi_conj n (apply_kraus n w0 ts rho).
Proof. exact z_apply_kraus_hermitian. Qed.
Print Assumptions apply_kraus_preserves_hermiticity.

(* ==================================================================== Part 3: the closed forms, every n *)
(* the documented closed forms (the formulas of the fast paths) are Kraus maps with matrix-unit operators,
   for every register size and every duplicate-free in-range target list (any order) *)
Theorem reset_closed_form_is_kraus_map : forall n q w w0 w1 rho, q < n -> wf_mat n rho ->
  reset_closed n q w w0 w1 rho = apply_kraus n w (zuterms (reset_wt w0 w1) [q]) rho.
Proof. exact reset_closed_is_kraus_map. Qed.
Print Assumptions reset_closed_form_is_kraus_map.

Theorem depolarizing_closed_form_is_kraus_map : forall n qs w wl rho,
  NoDup qs -> (forall q, In q qs -> q < n) -> wf_mat n rho ->
  depol_closed n qs w wl rho = apply_kraus n w (zuterms (fun _ _ => wl) qs) rho.
Proof. exact depol_closed_is_kraus_map. Qed.
Print Assumptions depolarizing_closed_form_is_kraus_map.

(* trace: weights w = D(1-p0-p1), w0 = D p0, w1 = D p1 give D tr(rho);  w = D(1-lam), wl = D lam / 2^k likewise *)
Theorem reset_closed_form_trace : forall n q w w0 w1 rho, q < n -> wf_mat n rho ->
  ztr n (reset_closed n q w w0 w1 rho) = zi_mul (zw (w + (w0 + w1))) (ztr n rho).
Proof. exact reset_closed_trace. Qed.
Print Assumptions reset_closed_form_trace.

Theorem depolarizing_closed_form_trace : forall n qs w wl rho,
  NoDup qs -> (forall q, In q qs -> q < n) -> wf_mat n rho ->
  ztr n (depol_closed n qs w wl rho)
  = zi_mul (zi_add (zw w) (tsum Ziops (map (fun _ => zw wl) (allbits (length qs))))) (ztr n rho).
Proof. exact depol_closed_trace. Qed.
Print Assumptions depolarizing_closed_form_trace.

(* complete positivity of the closed forms (Gram form preserved; n arbitrary = every extended register) *)
Theorem reset_closed_form_preserves_gram_form : forall n q w w0 w1 l, q < n ->
  reset_closed n q w w0 w1 (gram Ziops zi_conj n l)
  = gram Ziops zi_conj n (gram_out Ziops n (zw w) (map zlift (zuterms (reset_wt w0 w1) [q])) l).
Proof. exact reset_closed_preserves_gram_form. Qed.
Print Assumptions reset_closed_form_preserves_gram_form.

Theorem depolarizing_closed_form_preserves_gram_form : forall n qs w wl l,
  NoDup qs -> (forall q, In q qs -> q < n) ->
  depol_closed n qs w wl (gram Ziops zi_conj n l)
  = gram Ziops zi_conj n (gram_out Ziops n (zw w) (map zlift (zuterms (fun _ _ => wl) qs)) l).
Proof. exact depol_closed_preserves_gram_form. Qed.
Print Assumptions depolarizing_closed_form_preserves_gram_form.

(* ReadoutErrorChannel on k qubits (operators sqrt(P[b][a]) |a><b|, integer weights wt a b = D P[b][a]):
   sum_ab wt(a,b) |a><b|^dagger |a><b| = D I whenever every row of P sums to one -- every k *)
Theorem readout_error_kraus_set_is_trace_preserving : forall qs wt D,
  (forall b, length b = length qs -> zcolsum (length qs) wt b = D) ->
  tp_small Ziops zi_conj (length qs) (zw 0) (map zlift (zuterms wt qs))
  = mscale Ziops (zi_add (zw 0) D) (eye Ziops (2 ^ length qs)).
Proof. exact readout_kraus_tp. Qed.
Print Assumptions readout_error_kraus_set_is_trace_preserving.
