(* C04/Props.v : property theorems of C04 (all parameter values; one-qubit density matrices
   arbitrary complex).  The n-qubit placement is tied by the exact correspondence run
   (harness/c04.py) against the executable index-level closed forms of C04/ChannelSpec.v. *)
From Coq Require Import Reals List.
From Coquelicot Require Import Complex.
From QV Require Import C04.ChannelSpec.
Import ListNotations.
Local Open Scope R_scope.

Theorem reset_is_trace_preserving : forall p0 p1 s0 s1 s2,
  s0 * s0 = p0 -> s1 * s1 = p1 -> s2 * s2 = 1 - p0 - p1 -> kraus_tp (reset_ops s0 s1 s2) = m2id.
Proof. exact reset_kraus_tp. Qed.
Print Assumptions reset_is_trace_preserving.

Theorem reset_matches_documented_map : forall p0 p1 s0 s1 s2 (a b c d : C),
  s0 * s0 = p0 -> s1 * s1 = p1 -> s2 * s2 = 1 - p0 - p1 ->
  kraus_map (reset_ops s0 s1 s2) (a, b, c, d)
  = m2add (m2scale (1 - p0 - p1) (a, b, c, d))
          (Cmult (RtoC p0) (Cplus a d), RtoC 0, RtoC 0, Cmult (RtoC p1) (Cplus a d)).
Proof. exact reset_kraus_closed_form. Qed.
Print Assumptions reset_matches_documented_map.

Theorem amplitude_damping_is_trace_preserving :
  forall g s t, s * s = 1 - g -> t * t = g -> kraus_tp (ad_ops s t) = m2id.
Proof. exact amplitude_damping_tp. Qed.
Print Assumptions amplitude_damping_is_trace_preserving.

Theorem amplitude_damping_matches_documented_map : forall g s t (a b c d : C),
  s * s = 1 - g -> t * t = g ->
  kraus_map (ad_ops s t) (a, b, c, d)
  = (Cplus a (Cmult (RtoC g) d), Cmult (RtoC s) b, Cmult (RtoC s) c, Cmult (RtoC (1 - g)) d).
Proof. exact amplitude_damping_closed_form. Qed.
Print Assumptions amplitude_damping_matches_documented_map.

Theorem phase_damping_is_trace_preserving :
  forall g s t, s * s = 1 - g -> t * t = g -> kraus_tp (pd_ops s t) = m2id.
Proof. exact phase_damping_tp. Qed.
Print Assumptions phase_damping_is_trace_preserving.

Theorem phase_damping_matches_documented_map : forall g s t (a b c d : C),
  s * s = 1 - g -> t * t = g ->
  kraus_map (pd_ops s t) (a, b, c, d) = (a, Cmult (RtoC s) b, Cmult (RtoC s) c, d).
Proof. exact phase_damping_closed_form. Qed.
Print Assumptions phase_damping_matches_documented_map.

Theorem depolarizing_pauli_mixture_is_documented_map : forall lam (a b c d : C),
  m2add (m2scale (1 - 3 * lam / 4) (a, b, c, d))
    (m2add (m2scale (lam / 4) (conjugate pX (a, b, c, d)))
      (m2add (m2scale (lam / 4) (conjugate pY (a, b, c, d)))
             (m2scale (lam / 4) (conjugate pZ (a, b, c, d)))))
  = m2add (m2scale (1 - lam) (a, b, c, d))
          (Cmult (RtoC (lam / 2)) (Cplus a d), RtoC 0, RtoC 0, Cmult (RtoC (lam / 2)) (Cplus a d)).
Proof. exact depolarizing_closed_form. Qed.
Print Assumptions depolarizing_pauli_mixture_is_documented_map.

Theorem thermal_t1_ge_t2_is_trace_preserving : forall p0 p1 pz s0 s1 sz s3,
  s0 * s0 = p0 -> s1 * s1 = p1 -> sz * sz = pz -> s3 * s3 = 1 - p0 - p1 - pz ->
  kraus_tp (thermal_ops s0 s1 sz s3) = m2id.
Proof. exact thermal_ge_tp. Qed.
Print Assumptions thermal_t1_ge_t2_is_trace_preserving.

Theorem thermal_t1_ge_t2_fast_path_is_kraus_map : forall p0 p1 pz s0 s1 sz s3 (a b c d : C),
  s0 * s0 = p0 -> s1 * s1 = p1 -> sz * sz = pz -> s3 * s3 = 1 - p0 - p1 - pz ->
  kraus_map (thermal_ops s0 s1 sz s3) (a, b, c, d)
  = m2add (m2add (m2scale (1 - p0 - p1) (a, b, c, d))
                 (Cmult (RtoC p0) (Cplus a d), RtoC 0, RtoC 0, Cmult (RtoC p1) (Cplus a d)))
          (m2add (m2scale (- pz) (a, b, c, d)) (m2scale pz (conjugate pZ (a, b, c, d)))).
Proof. exact thermal_ge_fast_path. Qed.
Print Assumptions thermal_t1_ge_t2_fast_path_is_kraus_map.
