(* C04/Views.v : Channel.to_choi / to_liouville / to_pauli_liouville describe the SAME map as the
   density-matrix execution, for every register size n.
   Channel.to_choi(nqubits=n, order) = sum_k coeff_k |E_k)(E_k| with E_k the FusedGate matrix of gate k on
   range(n) (= Base.Mat.embed n qubits K_k), plus the term p0 |I)(I| for the channel classes that carry an
   implicit identity (p0 = 1 - sum coeff);  to_liouville = _reshuffling of it;  to_pauli_liouville =
   row-order Liouville conjugated with comp_basis_to_pauli.  The vectorisation / reshuffling / Pauli basis
   are the C17 models (tied to the code by the C17 correspondence run, incl. Channel.to_* on KrausChannel);
   the execution is C04/ChannelSpec.apply_kraus (tied by the C04 run).  This file proves that the three views,
   read with the textbook actions of C17/Spec.v, act on rho exactly as apply_kraus does. *)
From Coq Require Import List Bool Arith Lia ZArith Ring.
From QV Require Import Base.Mat Base.Zi C17.Alg C17.Model C17.Spec C17.ZiInst C17.ProofsIdx C17.ProofsVec
  C17.ProofsPerm C17.ProofsPauli C17.ProofsStine C17.Props.
From QV Require Import C01.Model C01.Spec C01.Lib C01.ProofsSV C01.ProofsMat C01.ProofsFused C01.ProofsRunDM C01.Examples
  Base.Sem C04.ChannelSpec C04.LiftTP C04.LiftFast.
Import ListNotations.

(* ------------------------------------------------------------------ weighted Kraus sets, C17 side (generic) *)
Section W.
  Context {T : Type} (K : ops T) (cj : T -> T).
  Notation T0 := (zero K).
  Infix "+!" := (add K) (at level 50, left associativity).
  Infix "*!" := (mul K) (at level 40, left associativity).
  Variable SR : semi_ring_theory T0 (one K) (add K) (mul K) (@eq T).
  Add Ring TRv : SR.
  Hypothesis cj0 : cj T0 = T0.
  Notation mget := (mget K).
  Notation bsum := (Alg.bsum K).
  Notation lsum := (Alg.lsum K).

  (* sum_k w_k |K_k)(K_k|  in the vectorisation order o *)
  Definition wchoi (o : vorder) (wKs : list (T * mat T)) : mat T :=
    let d := odim o in msum K (d * d) (d * d) (map (fun wK => mscal K (fst wK) (to_choi K cj o (snd wK))) wKs).
  (* entry (a,b) of sum_k w_k K_k rho K_k^dagger *)
  Definition wentry (d : nat) (wKs : list (T * mat T)) (rho : mat T) (a b : nat) : T :=
    lsum (map (fun wK => fst wK *! bsum d (fun c => bsum d (fun e =>
            mget (snd wK) a c *! mget rho c e *! cj (mget (snd wK) b e)))) wKs).

  Lemma mget_wchoi o wKs x y : x < odim o * odim o -> y < odim o * odim o ->
    mget (wchoi o wKs) x y
    = lsum (map (fun wK => fst wK *! (mget (snd wK) (fst (vun o x)) (snd (vun o x))
                                      *! cj (mget (snd wK) (fst (vun o y)) (snd (vun o y))))) wKs).
  Proof.
    intros Hx Hy. unfold wchoi. cbv zeta. rewrite (mget_msum K) by assumption. rewrite map_map.
    apply (lsum_map_ext K). intros [w U] _. cbn [fst snd].
    rewrite (mget_mscal K SR). now rewrite (mget_to_choi K cj cj0).
  Qed.

  Theorem wchoi_acts o wKs rho m n : m < odim o -> n < odim o ->
    mget (choi_action K o (wchoi o wKs) rho) m n = wentry (odim o) wKs rho m n.
  Proof.
    intros Hm Hn. unfold choi_action, wentry. cbv zeta. rewrite (mget_mk K) by assumption.
    rewrite (lsum_map_ext K wKs _ (fun wK => bsum (odim o) (fun c => bsum (odim o) (fun e =>
               fst wK *! (mget (snd wK) m c *! mget rho c e *! cj (mget (snd wK) n e)))))).
    2:{ intros wK _. rewrite (bsum_mul_l K SR). apply (bsum_ext K). intros c _. apply (bsum_mul_l K SR). }
    rewrite (lsum_bsum_swap K SR). apply (bsum_ext K). intros k Hk.
    rewrite (lsum_bsum_swap K SR). apply (bsum_ext K). intros l Hl.
    rewrite mget_wchoi by (apply vidx_lt; assumption). rewrite !vun_vidx by assumption. cbn [fst snd].
    rewrite <- (lsum_map_mul_r K SR). apply (lsum_map_ext K). intros [w U] _. cbn [fst snd]. ring.
  Qed.
End W.

(* ------------------------------------------------------------------ apply_kraus, entry by entry, as such a sum *)
Notation ZK := Zi_semiring.
Notation ZC := Zi_conj_ok.

Lemma lsum_tsum (l : list Zi) : Alg.lsum Ziops l = tsum Ziops l.
Proof. induction l as [|x l IH]; [reflexivity|]. cbn [Alg.lsum]. now rewrite IH. Qed.

Lemma tsum_allbits_bsum n (F : nat -> Zi) : tsum Ziops (map (fun k => F (idx k)) (allbits n)) = Alg.bsum Ziops (2 ^ n) F.
Proof. rewrite <- (map_map idx F), map_idx_allbits, <- lsum_tsum. symmetry. apply (bsum_lsum Ziops Zi_SR). Qed.

(* the channel as a weighted Kraus set on the full register: identity with weight w0, then the embedded terms *)
Definition full_terms (n : nat) (w0 : Z) (ts : list kterm) : list (Zi * mat Zi) :=
  (zw w0, midentity Ziops n) :: map (fun t : kterm => match t with (w, qs, M) => (zw w, embed Ziops n qs M) end) ts.

Lemma sandwich_entry n E rho r c : wf_mat n E -> wf_mat n rho -> length r = n -> length c = n ->
  mentry Ziops (mmul Ziops (mmul Ziops E rho) (madj Ziops zi_conj n E)) r c
  = Alg.bsum Ziops (2 ^ n) (fun a => Alg.bsum Ziops (2 ^ n) (fun e =>
      zi_mul (zi_mul (mget Ziops E (idx r) a) (mget Ziops rho a e)) (zi_conj (mget Ziops E (idx c) e)))).
Proof.
  intros HE Hr Hlr Hlc.
  rewrite (mentry_mmul Ziops ZK n _ _ r c ((mmul_wf Ziops ZK) n E rho HE Hr) (madj_wf Ziops zi_conj n E) Hlr Hlc).
  rewrite (tsum_map_ext Ziops _ (fun e => (fun ei => Alg.bsum Ziops (2 ^ n) (fun a =>
             zi_mul (zi_mul (mget Ziops E (idx r) a) (mget Ziops rho a ei)) (zi_conj (mget Ziops E (idx c) ei)))) (idx e))).
  - rewrite (tsum_allbits_bsum n (fun ei => Alg.bsum Ziops (2 ^ n) (fun a =>
             zi_mul (zi_mul (mget Ziops E (idx r) a) (mget Ziops rho a ei)) (zi_conj (mget Ziops E (idx c) ei))))).
    apply (bsum_swap Ziops Zi_SR).
  - intros e He. apply allbits_In in He. cbv beta.
    rewrite (mentry_mmul Ziops ZK n E rho r e HE Hr Hlr He), (mentry_madj Ziops zi_conj n E e c He Hlc).
    rewrite <- (tsum_allbits_bsum n (fun a => zi_mul (zi_mul (mget Ziops E (idx r) a) (mget Ziops rho a (idx e))) (zi_conj (mget Ziops E (idx c) (idx e))))).
    symmetry. exact (tsum_scale_r Ziops ZK (zi_conj (mget Ziops E (idx c) (idx e)))
                       (fun a => zi_mul (mget Ziops E (idx r) (idx a)) (mget Ziops rho (idx a) (idx e))) (allbits n)).
Qed.

Theorem apply_kraus_entry n w0 ts rho r c : wf_mat n rho -> length r = n -> length c = n ->
  mget Ziops (apply_kraus n w0 ts rho) (idx r) (idx c)
  = wentry Ziops zi_conj (2 ^ n) (full_terms n w0 ts) rho (idx r) (idx c).
Proof.
  intros Hr Hlr Hlc. fold (mentry Ziops (apply_kraus n w0 ts rho) r c).
  rewrite apply_kraus_is_gapply, (gapply_entry Ziops zi_conj ZK n (zw w0) _ rho r c Hr Hlr Hlc).
  unfold wentry, full_terms. cbn [map Alg.lsum fst snd]. apply (f_equal2 zi_add).
  - (* the identity term *)
    f_equal. pose proof (idx_lt r) as Lr. pose proof (idx_lt c) as Lc. rewrite Hlr in Lr. rewrite Hlc in Lc.
    rewrite (bsum_ext Ziops (2 ^ n) _ (fun a => if Nat.eqb a (idx r) then
               Alg.bsum Ziops (2 ^ n) (fun e => if Nat.eqb e (idx c) then mget Ziops rho a e else zi0) else zi0)).
    + rewrite (bsum_delta Ziops Zi_SR) by exact Lr. now rewrite (bsum_delta Ziops Zi_SR) by exact Lc.
    + intros a Ha.
      assert (Ia : forall i j, i < 2 ^ n -> j < 2 ^ n -> mget Ziops (midentity Ziops n) i j = if Nat.eqb i j then zi1 else zi0).
      { intros i j Hi Hj. rewrite midentity_tab2.
        assert (Hb : forall i, i < 2 ^ n -> exists x, length x = n /\ idx x = i).
        { intros i0 Hi0. exists (nth i0 (allbits n) []). split.
          - apply allbits_In. apply nth_In. now rewrite allbits_length.
          - rewrite <- (nth_map_d idx (allbits n) i0 0 []) by (now rewrite allbits_length).
            rewrite map_idx_allbits. now apply seq_nth. }
        destruct (Hb i Hi) as [x [Hx <-]]. destruct (Hb j Hj) as [y [Hy <-]].
        fold (mentry Ziops (tab2 n (fun r0 c0 : list bool => if beqb r0 c0 then one Ziops else zero Ziops)) x y).
        rewrite (mentry_tab2 Ziops) by assumption.
        rewrite ProofsFused.idx_eqb by congruence. destruct (beqb x y); reflexivity. }
      rewrite (Nat.eqb_sym a (idx r)).
      destruct (Nat.eqb (idx r) a) eqn:Ea.
      * apply (bsum_ext Ziops). intros e He. rewrite (Ia (idx r) a Lr Ha), Ea, (Ia (idx c) e Lc He).
        rewrite (Nat.eqb_sym e (idx c)). rewrite zi_mul_1_l. destruct (Nat.eqb (idx c) e).
        -- change (zi_conj zi1) with zi1. now rewrite zi_mul_comm, zi_mul_1_l.
        -- change (zi_conj zi0) with zi0. now rewrite zi_mul_comm, zi_mul_0_l.
      * apply (bsum_zero' Ziops Zi_SR). intros e He. rewrite (Ia (idx r) a Lr Ha), Ea.
        now rewrite !zi_mul_0_l.
  - rewrite map_map, <- lsum_tsum, map_map. f_equal. apply map_ext. intros [[w qs] M]. cbn [zlift gterm fst snd].
    rewrite (mentry_mscale Ziops n (zw w) _ r c) by (first [assumption |
      apply (mmul_wf Ziops ZK); [apply (mmul_wf Ziops ZK); [apply embed_wf|exact Hr]|apply madj_wf]]).
    f_equal. apply sandwich_entry; try assumption. apply embed_wf.
Qed.

(* ------------------------------------------------------------------ the three views *)
Definition chan_choi (o : vorder) (n : nat) (w0 : Z) (ts : list kterm) : mat Zi := wchoi Ziops zi_conj o (full_terms n w0 ts).
Definition chan_liouville (col : bool) (n : nat) (w0 : Z) (ts : list kterm) : mat Zi :=
  reshuffle Ziops col (2 ^ n) (chan_choi (ord col (2 ^ n)) n w0 ts).
Definition chan_pauli (po : list nat) (n : nat) (w0 : Z) (ts : list kterm) : mat Zi :=
  z_liouville_to_pauli po (Row (2 ^ n)) n (chan_liouville false n w0 ts).

Theorem channel_views_describe_apply_kraus : forall n w0 ts rho r c,
  wf_mat n rho -> length r = n -> length c = n ->
  (* to_choi, every vectorisation order *)
  (forall o, odim o = 2 ^ n ->
     mget Ziops (choi_action Ziops o (chan_choi o n w0 ts) rho) (idx r) (idx c)
     = mget Ziops (apply_kraus n w0 ts rho) (idx r) (idx c))
  (* to_liouville, row and column order *)
  /\ (forall col,
     mget Ziops (liouville_action Ziops (ord col (2 ^ n)) (chan_liouville col n w0 ts) rho) (idx r) (idx c)
     = mget Ziops (apply_kraus n w0 ts rho) (idx r) (idx c))
  (* to_pauli_liouville (un-normalised basis; normalize=True divides by 2^n), every pauli_order *)
  /\ (forall po, NoDup po /\ length po = 4 /\ (forall x, In x po -> x < 4) ->
     mget Ziops (z_pauli_action po n (chan_pauli po n w0 ts) rho) (idx r) (idx c)
     = zi_mul (zi_mul (twopow Ziops n) (twopow Ziops n)) (mget Ziops (apply_kraus n w0 ts rho) (idx r) (idx c))).
Proof.
  intros n w0 ts rho r c Hr Hlr Hlc.
  pose proof (idx_lt r) as Lr. pose proof (idx_lt c) as Lc. rewrite Hlr in Lr. rewrite Hlc in Lc.
  assert (HC : forall o, odim o = 2 ^ n ->
     mget Ziops (choi_action Ziops o (chan_choi o n w0 ts) rho) (idx r) (idx c)
     = mget Ziops (apply_kraus n w0 ts rho) (idx r) (idx c)).
  { intros o Ho. rewrite (apply_kraus_entry n w0 ts rho r c Hr Hlr Hlc). unfold chan_choi.
    rewrite (wchoi_acts Ziops zi_conj Zi_SR zi_conj_0 o _ rho (idx r) (idx c)) by (rewrite Ho; assumption).
    now rewrite Ho. }
  assert (HL : forall col,
     mget Ziops (liouville_action Ziops (ord col (2 ^ n)) (chan_liouville col n w0 ts) rho) (idx r) (idx c)
     = mget Ziops (apply_kraus n w0 ts rho) (idx r) (idx c)).
  { intros col. unfold chan_liouville.
    rewrite (Props.choi_liouville_iso Ziops Zi_SR col (2 ^ n) _ rho (idx r) (idx c) Lr Lc).
    apply HC. destruct col; reflexivity. }
  split; [exact HC|]. split; [exact HL|].
  intros po Hpo. unfold chan_pauli, z_pauli_action, z_liouville_to_pauli.
  rewrite (Props.pauli_acts Ziops zi_conj Zi_SR zi_conj_0 zi_conj_mul zi_conj_invol zi_conj_1 zP po Hpo zP_complete
             (Row (2 ^ n)) n _ rho (idx r) (idx c) eq_refl) by (try assumption; rewrite pow4_sq; apply (wf_reshuffle Ziops)).
  apply (f_equal (zi_mul (zi_mul (twopow Ziops n) (twopow Ziops n)))). exact (HL false).
Qed.
Print Assumptions channel_views_describe_apply_kraus.
