From Coq Require Import List.
From QV Require Import C19.Model.
Theorem stub_placeholder : True. Proof. exact I. Qed.
Print Assumptions stub_placeholder.
