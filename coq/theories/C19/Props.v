(* C19/Props.v : the property theorems (statements only; proofs are in Proofs.v / ProofsFixed.v / Traj.v).

   Models: C19/ModelFixed.v = the REPAIRED NoiseModel.apply now in /repo (before / after lists, the gate added
   exactly once, a fresh copy of every measurement gate), C19/Model.v = Circuit.add bookkeeping, rule lookup,
   error dispatch, with_pauli_noise, _Conditions, IBMQNoiseModel.from_dict -- and the ORIGINAL apply, kept for the
   historical lemmas.  Tied to /repo on every run by harness/c19.py (exact structural correspondence of
   NoiseModel.apply(circuit).queue and circuit.with_pauli_noise(map).queue; the harness detects which apply is
   in /repo and a return of the old behaviour is a VIOLATION).

   Reading guide
   - [spec_apply rules c] is the property text: for every gate of c in order, the gate itself followed by
     the channels of the rules that fire on it; a measurement is PRECEDED by the channels of its readout
     rules and followed by the others ([spec_block]).  [noise_apply_channels_local]: these channels act on a
     subset of the trigger's qubits (CustomError channels excepted: they are the user's fixed channel object).
   - FULL STRENGTH, all circuits and all rule lists: [noise_apply_exact], [noise_apply_skeleton],
     [noise_apply_no_keyerror].
   - HISTORICAL (about the algorithm that was in qibo before the repair, Model.apply): the full-strength
     statements were false of it ([historical_*_fails]); it was exact only on the [clean] inputs. *)
From Coq Require Import List Bool Arith QArith ZArith Ring.
From QV Require Import C19.Model C19.Proofs C19.ModelFixed C19.ProofsFixed C19.Traj.
Import ListNotations.
Local Close Scope Q_scope.
Local Open Scope nat_scope.

(* ---------------------------------------------------------------- NoiseModel.apply (the repaired code): FULL STRENGTH *)
(* whatever the rules (any keys, qubit subsets, conditions, error types) and the circuit (mid-circuit and repeated
   measurements, pre-existing channels): if apply returns, its queue is exactly what the property prescribes *)
Theorem noise_apply_exact : forall rules coll0 c out,
  apply2 rules coll0 c = Some out -> out = spec_apply rules c.
Proof. exact apply2_exact. Qed.
Print Assumptions noise_apply_exact.

Theorem noise_apply_skeleton : forall rules coll0 c out,
  apply2 rules coll0 c = Some out -> erase out = c.
Proof. exact apply2_skeleton. Qed.
Print Assumptions noise_apply_skeleton.

(* and it always returns (no register-name KeyError) on a circuit that could be built in the first place *)
Theorem noise_apply_no_keyerror : forall rules coll0 c,
  build_st coll0 c <> None -> apply2 rules coll0 c = Some (spec_apply rules c).
Proof. exact apply2_total. Qed.
Print Assumptions noise_apply_no_keyerror.

Example noise_apply_two_readout_now :
  show (apply2 two_readout [] [gH; gM01]) = Some [(0, [0], 0); (7, [0], 0); (7, [1], 0); (0, [1], 0)].
Proof. vm_compute. reflexivity. Qed.

(* non-vacuity: the example circuit below can be built, and apply2 returns on it *)
Example build_example : build_st [] [gH; gM01] <> None.
Proof. vm_compute. discriminate. Qed.

(* ---------------------------------------------------------------- HISTORICAL: the algorithm before the repair (Model.apply) *)
Theorem historical_old_apply_exact_on_clean : forall rules coll0 c,
  clean rules coll0 c = true ->
  apply rules coll0 c = Some (spec_apply rules c) /\
  option_map s_coll (apply_st rules coll0 c) = Some coll0.      (* collapse flags of the shared M objects unchanged *)
Proof. exact apply_exact_clean. Qed.
Print Assumptions historical_old_apply_exact_on_clean.

Theorem historical_old_apply_skeleton_on_clean : forall rules coll0 c,
  clean rules coll0 c = true -> option_map erase (apply rules coll0 c) = Some c.
Proof. exact apply_skeleton_clean. Qed.
Print Assumptions historical_old_apply_skeleton_on_clean.

(* erasing the channels from what the property prescribes gives back the circuit *)
Theorem spec_apply_skeleton : forall rules c, erase (spec_apply rules c) = c.
Proof. exact erase_spec_apply. Qed.
Print Assumptions spec_apply_skeleton.

(* a block of the specification contains the trigger and prescribed channels only *)
Theorem spec_block_items : forall rules g it,
  In it (spec_block rules g) -> it = Orig g \/ In it (prescribed rules g).
Proof. exact spec_block_In. Qed.
Print Assumptions spec_block_items.

Theorem noise_apply_channels_local : forall rules g ch,
  In (Ins ch) (prescribed rules g) -> incl (c_qubits ch) (g_qubits g).
Proof. exact prescribed_local. Qed.
Print Assumptions noise_apply_channels_local.

(* a prescribed channel comes from a rule registered for the trigger's class (or for None, if the
   trigger is neither a channel nor a measurement) whose conditions hold on the trigger *)
Theorem noise_apply_channels_prescribed : forall rules g it,
  In it (prescribed rules g) ->
  exists r, In r rules /\ (r_key r = Some (g_cls g) \/ (r_key r = None /\ g_kind g = KU))
            /\ fires r g = true /\ In it (chans_of (r_err r) (eff_qubits r g)).
Proof.
  intros rules g it H. apply prescribed_In in H as [r [H1 [H2 H3]]].
  apply lookup_key in H1 as [H1 H4]. exists r. auto.
Qed.
Print Assumptions noise_apply_channels_prescribed.

Theorem historical_old_apply_repeats : forall rules coll0 c out,
  apply rules coll0 c = Some out ->
  exists ks, length ks = length c /\ erase out = expand c ks.
Proof. exact apply_repeats. Qed.
Print Assumptions historical_old_apply_repeats.

(* non-vacuity of [clean]: H(0) CNOT(1,0) RX(2) M(0,1) M(2); Pauli noise on every gate restricted to
   qubits {0,2}, depolarizing on two-qubit gates, one readout rule on qubit 0 and one on qubit 2 *)
Definition ex_c : list gate :=
  [mkGate 0 0 KU [0] 0; mkGate 1 1 KU [1; 0] 0; mkGate 2 2 KU [2] 0; mkGate 3 3 KM [0; 1] 0; mkGate 4 3 KM [2] 1].
Definition ex_rules : list rule :=
  [mkRule None [] (EPauli 0) (Some [2; 0]); mkRule None [cond_two] (EDepol 1) None;
   mkRule (Some 3) [] (EReadout 0) (Some [0]); mkRule (Some 3) [] (EReadout 0) (Some [2])].
Example clean_example : clean ex_rules [] ex_c = true.
Proof. vm_compute. reflexivity. Qed.
Example clean_example_output :
  show (apply ex_rules [] ex_c) =
  Some [(0, [0], 0); (1, [0], 0); (0, [1], 0); (1, [0], 0); (2, [1; 0], 1); (0, [2], 0); (1, [2], 0);
        (7, [0], 0); (0, [3], 0); (7, [2], 0); (0, [4], 0)].
Proof. vm_compute. reflexivity. Qed.

(* ---------------------------------------------------------------- HISTORICAL: what was false of the old algorithm *)
Theorem historical_old_apply_skeleton_fails :
  exists rules coll0 c, option_map erase (apply rules coll0 c) <> Some c.
Proof. exists two_readout, [], [gH; gM01]. exact skeleton_refuted_two_readout. Qed.
Print Assumptions historical_old_apply_skeleton_fails.

Theorem historical_old_apply_exact_fails :
  exists rules coll0 c, apply rules coll0 c <> Some (spec_apply rules c).
Proof. exists two_readout, [], [gH; gM01]. exact exact_refuted_two_readout. Qed.
Print Assumptions historical_old_apply_exact_fails.

(* two readout rules on one measurement: RE(0) M RE(1) M M, and M.collapse becomes True *)
Theorem historical_old_apply_two_readout :
  show_st (apply_st two_readout [] [gH; gM01]) =
  Some ([(0, [0], 0); (7, [0], 0); (0, [1], 0); (7, [1], 0); (0, [1], 0); (0, [1], 0)], [], [1]).
Proof. exact two_readout_output. Qed.
Print Assumptions historical_old_apply_two_readout.

Theorem historical_old_apply_mutates_input :
  exists rules coll0 c, option_map s_coll (apply_st rules coll0 c) <> Some coll0.
Proof. exists two_readout, [], [gH; gM01]. exact mutation_refuted_two_readout. Qed.
Print Assumptions historical_old_apply_mutates_input.

(* the EMPTY noise model duplicates a collapsing measurement *)
Theorem historical_old_apply_empty_model_duplicates :
  option_map erase (apply [] [0] [gM0; gH1; gM2]) = Some [gM0; gM0; gH1; gM2].
Proof. exact skeleton_refuted_empty_model. Qed.
Print Assumptions historical_old_apply_empty_model_duplicates.

(* a readout rule naming exactly the measured qubits whose condition is false drops the measurement *)
Theorem historical_old_apply_drops_measurement :
  option_map erase (apply [mkRule (Some 1) [fun _ => false] (EReadout 0) (Some [0])] [] [gH; mkGate 1 1 KM [0] 0])
  = Some [gH].
Proof. exact skeleton_refuted_dropped. Qed.
Print Assumptions historical_old_apply_drops_measurement.

(* ---------------------------------------------------------------- with_pauli_noise *)
Theorem pauli_noise_ok : forall nq m c out,
  with_pauli_noise nq m c = Some out ->
  exists m', check_noise_map nq m = Some m' /\
    out = flat_map (pauli_block m') c /\        (* each gate followed by its channels *)
    erase out = c /\
    (forall g it, In it (pauli_block m' g) ->
       it = Orig g \/
       exists q o ps, it = Ins (mkChan CPauli [q] o) /\ In q (g_qubits g) /\ g_kind g <> KM /\
                      assoc q m' = Some (o, ps) /\ pos_sum ps = true).
Proof.
  intros nq m c out H. apply pauli_noise_correct in H as [m' [H1 [H2 H3]]].
  exists m'. repeat split; try assumption. intros g it. apply pauli_block_local.
Qed.
Print Assumptions pauli_noise_ok.

Example pauli_noise_example :
  show (with_pauli_noise 2 (inr [(1, (7, [Qmake 1 8])); (0, (5, [Qmake 0 1; Qmake 0 1]))])
          [mkGate 0 0 KU [1; 0] 0; mkGate 1 1 KM [0] 0])
  = Some [(0, [0], 0); (1, [1], 7); (0, [1], 0)].
Proof. vm_compute. reflexivity. Qed.

Theorem zero_strength_pauli_map : forall nq m c out,
  with_pauli_noise nq m c = Some out ->
  (forall m' q o ps, check_noise_map nq m = Some m' -> assoc q m' = Some (o, ps) -> Forall (fun p => Qeq p 0) ps) ->
  out = map Orig c.
Proof.
  intros nq m c out H Z. apply (pauli_zero_strength nq m c out H).
  intros m' q o ps H1 H2. apply pos_sum_zero. exact (Z m' q o ps H1 H2).
Qed.
Print Assumptions zero_strength_pauli_map.

(* ---------------------------------------------------------------- trajectories vs density matrix *)
(* the algebraic setting, bundled *)
Record setting := {
  K : Type; k0 : K; k1 : K; kadd : K -> K -> K; kmul : K -> K -> K; ksub : K -> K -> K; kopp : K -> K;
  Kring : ring_theory k0 k1 kadd kmul ksub kopp (@eq K);
  D : Type; dzero : D; dadd : D -> D -> D; dscale : K -> D -> D;
  dadd_comm : forall a b, dadd a b = dadd b a;
  dadd_assoc : forall a b c, dadd a (dadd b c) = dadd (dadd a b) c;
  dadd_0_l : forall a, dadd dzero a = a;
  dscale_add_r : forall x a b, dscale x (dadd a b) = dadd (dscale x a) (dscale x b);
  dscale_mul : forall x y a, dscale (kmul x y) a = dscale x (dscale y a);
  dscale_1 : forall a, dscale k1 a = a;
  dscale_0 : forall a, dscale k0 a = dzero;
  dscale_zero : forall x, dscale x dzero = dzero;
  V : Type; U : Type; proj : V -> D; actV : U -> V -> V; actD : U -> D -> D;
  proj_act : forall u v, proj (actV u v) = actD u (proj v);
  actD_add : forall u a b, actD u (dadd a b) = dadd (actD u a) (actD u b);
  actD_scale : forall u x a, actD u (dscale x a) = dscale x (actD u a);
  actD_zero : forall u, actD u dzero = dzero
}.

(* sum over all draw sequences of  prob * |psi_T><psi_T|  =  density-matrix run of the circuit,
   for every circuit of unitaries and unitary-mixture channels (exact arithmetic) *)
Theorem trajectory_expectation : forall (S : setting) (c : list (tstep (K S) (U S))) (v : V S),
  expect (K S) (D S) (dzero S) (dadd S) (dscale S) (V S) (proj S)
         (trajs (K S) (k0 S) (k1 S) (kadd S) (kmul S) (ksub S) (V S) (U S) (actV S) c v)
  = run_dm (K S) (k0 S) (k1 S) (kadd S) (ksub S) (D S) (dzero S) (dadd S) (dscale S) (U S) (actD S) c (proj S v).
Proof.
  intros S c v.
  apply (trajectory_expectation_gen (K S) (k0 S) (k1 S) (kadd S) (kmul S) (ksub S) (kopp S) (Kring S));
    destruct S; assumption.
Qed.
Print Assumptions trajectory_expectation.

Theorem trajectory_weights : forall (S : setting) (c : list (tstep (K S) (U S))) (v : V S),
  weight (K S) (k0 S) (kadd S) (V S)
         (trajs (K S) (k0 S) (k1 S) (kadd S) (kmul S) (ksub S) (V S) (U S) (actV S) c v) = k1 S.
Proof.
  intros S c v. apply (trajectory_weights_gen (K S) (k0 S) (k1 S) (kadd S) (kmul S) (ksub S) (kopp S) (Kring S)).
Qed.
Print Assumptions trajectory_weights.

(* a unitary mixture with all probabilities zero is the identity map *)
Theorem zero_strength_identity : forall (S : setting) (ops : list (K S * U S)) (rho : D S),
  Forall (fun pu => fst pu = k0 S) ops ->
  chan_dm (K S) (k0 S) (k1 S) (kadd S) (ksub S) (D S) (dzero S) (dadd S) (dscale S) (U S) (actD S) ops rho = rho.
Proof.
  intros S ops rho. apply (zero_strength_dm_gen (K S) (k0 S) (k1 S) (kadd S) (kmul S) (ksub S) (kopp S) (Kring S));
    destruct S; assumption.
Qed.
Print Assumptions zero_strength_identity.

(* non-vacuity: a setting exists (integers; proj v = v^2) *)
Local Open Scope Z_scope.
Definition Zsetting : setting.
Proof.
  refine {| K := Z; k0 := 0; k1 := 1; kadd := Z.add; kmul := Z.mul; ksub := Z.sub; kopp := Z.opp; Kring := Zring;
            D := Z; dzero := 0; dadd := Z.add; dscale := Z.mul;
            V := Z; U := Z; proj := fun v => v * v; actV := Z.mul; actD := fun u d => u * u * d |};
    intros; ring.
Defined.
Example trajectory_setting_example :
  let c := [TU Z Z 2; TC Z Z [(3, 5); (4, -1)]; TU Z Z 7] in
  expect Z Z 0 Z.add Z.mul Z (fun v => v * v) (trajs Z 0 1 Z.add Z.mul Z.sub Z Z Z.mul c 1) = 14308.
Proof. vm_compute. reflexivity. Qed.

(* ---------------------------------------------------------------- the NoiseModel OBJECT: history vs fresh (ModelHist.v) *)
From QV Require Import C19.ModelHist C19.ProofsHist.
Local Open Scope nat_scope.

(* one long-lived NoiseModel (dictionary of rule buckets; apply READS the defaultdict and thereby creates empty buckets)
   driven through any interleaving of add / apply: every apply returns what a freshly built model holding the rules
   added so far returns *)
Theorem noise_history_equals_fresh : forall ops, run_hist [] ops = fresh_hist [] ops.
Proof. exact run_hist_fresh. Qed.
Print Assumptions noise_history_equals_fresh.

(* apply is a function of the accumulated rule list and the circuit only *)
Theorem noise_apply_after_history : forall ops coll0 c,
  last (run_hist [] (ops ++ [HApply coll0 c])) None = apply2 (added ops) coll0 c.
Proof. exact apply_after_history. Qed.
Print Assumptions noise_apply_after_history.

(* the dictionary read of apply is the rule lookup of the flat model whenever the buckets hold the added rules *)
Theorem noise_lookup_of_dictionary : forall d rules g, wf d rules -> nm_lookup d g = lookup rules g.
Proof. exact nm_lookup_wf. Qed.
Print Assumptions noise_lookup_of_dictionary.

(* non-vacuity: a history with an add AFTER an apply; and the defect class "per-class rule cache invalidated for the
   rule's own key only" (run_hist_cached) is NOT history-independent *)
Example noise_history_example :
  map show (run_hist [] hist_witness) =
  [Some [(0, [0], 0); (1, [0], 0)]; Some [(0, [0], 0); (1, [0], 0); (2, [0], 1)]].
Proof. vm_compute. reflexivity. Qed.

Theorem noise_history_cached_refuted : exists ops, run_hist_cached [] [] ops <> fresh_hist [] ops.
Proof. exists hist_witness. exact cached_hist_differs. Qed.
Print Assumptions noise_history_cached_refuted.

(* ---------------------------------------------------------------- sampled index -> applied operator; zero probabilities (TrajZero.v) *)
From QV Require Import C19.TrajZero.
Local Open Scope nat_scope.

(* draw i of the trajectory step applies the i-th operator of the DECLARED list with the i-th declared probability;
   draw len(ops) is the identity branch with probability 1 - sum; no other draw exists *)
Theorem trajectory_branch_index : forall (S : setting) (ops : list (K S * U S)) (v : V S) (i : nat),
  nth_error (branches (K S) (k0 S) (k1 S) (kadd S) (ksub S) (V S) (U S) (actV S) ops v) i =
  match nth_error ops i with
  | Some (p, u) => Some (p, actV S u v)
  | None => if Nat.eqb i (length ops)
            then Some (ksub S (k1 S) (ksum (K S) (k0 S) (kadd S) (map fst ops)), v) else None
  end.
Proof. intros S ops v i. apply branch_index_gen. Qed.
Print Assumptions trajectory_branch_index.

(* operators of probability exactly zero -- at any position of the list -- can be removed TOGETHER WITH their
   probabilities without changing the density-matrix run, hence (trajectory_expectation) the trajectory average *)
Theorem zero_probability_operators_irrelevant :
  forall (S : setting) (isz : K S -> bool), (forall x, isz x = true -> x = k0 S) ->
  forall (c : list (tstep (K S) (U S))) (v : V S),
  expect (K S) (D S) (dzero S) (dadd S) (dscale S) (V S) (proj S)
         (trajs (K S) (k0 S) (k1 S) (kadd S) (kmul S) (ksub S) (V S) (U S) (actV S)
                (map (drop_zero_step (K S) (U S) isz) c) v)
  = run_dm (K S) (k0 S) (k1 S) (kadd S) (ksub S) (D S) (dzero S) (dadd S) (dscale S) (U S) (actD S) c (proj S v).
Proof.
  intros S isz Hz c v. rewrite trajectory_expectation.
  apply (run_dm_drop_zero_gen (K S) (k0 S) (k1 S) (kadd S) (kmul S) (ksub S) (kopp S) (Kring S)); try assumption;
    destruct S; assumption.
Qed.
Print Assumptions zero_probability_operators_irrelevant.

(* the defect class "probabilities filtered, operators indexed in the unfiltered list" does not have the
   density-matrix expectation (integers, proj v = v^2, operators [(0, 5); (1, 3)]) *)
Theorem shifted_index_sampling_refuted :
  exists ops : list (Z * Z),
  expect Z Z 0%Z Z.add Z.mul Z (fun v => (v * v)%Z) (branches_shift Z 0%Z 1%Z Z.add Z.sub Z Z Z.mul (Z.eqb 0) ops 1%Z)
  <> chan_dm Z 0%Z 1%Z Z.add Z.sub Z 0%Z Z.add Z.mul Z (fun u d => (u * u * d)%Z) ops 1%Z.
Proof. exists [(0, 5); (1, 3)]%Z. exact shift_refuted_Z. Qed.
Print Assumptions shifted_index_sampling_refuted.

(* non-vacuity of the zero test: exact comparison with 0 on the integer setting *)
Example zero_test_example : forall x : K Zsetting, Z.eqb 0 x = true -> x = k0 Zsetting.
Proof. intros x H. apply Z.eqb_eq in H. now subst. Qed.
