(* C19/TrajZero.v : the sampled index -> applied operator mapping, and zero-probability operators.

   backends/numpy.py apply_channel:  probabilities = coefficients + (1 - sum,) ; index = sample(probabilities) ;
                                     gates[index] is applied unless index = len(gates).
   [branch_index]: the branch of draw i is (p_i, U_i . psi) for the i-th entry of the DECLARED operator list and
   (1 - sum, psi) for i = len.  [chan_dm_drop_zero] / [trajs_drop_zero]: operators with probability zero may be
   removed from the list (probabilities AND operators together) without changing either semantics -- whereas the
   defect class "probabilities filtered, operators indexed in the unfiltered list" ([branches_shift]) does not have
   the density-matrix expectation ([shift_refuted]). *)
From Coq Require Import List Ring ZArith Arith Bool Lia.
From QV Require Import C19.Traj.
Import ListNotations.

Section TrajZero.
  Variables (K : Type) (k0 k1 : K) (kadd kmul ksub : K -> K -> K) (kopp : K -> K).
  Hypothesis Kring : ring_theory k0 k1 kadd kmul ksub kopp (@eq K).
  Add Ring KR0 : Kring.
  Variables (D : Type) (dzero : D) (dadd : D -> D -> D) (dscale : K -> D -> D).
  Hypothesis dadd_0_l : forall a, dadd dzero a = a.
  Hypothesis dscale_0 : forall a, dscale k0 a = dzero.
  Variables (V U : Type) (proj : V -> D) (actV : U -> V -> V) (actD : U -> D -> D).
  (* a sound zero test on the weights (exact 0.0 in the implementation) *)
  Variable isz : K -> bool.
  Hypothesis isz_ok : forall x, isz x = true -> x = k0.

  Notation branches := (branches K k0 k1 kadd ksub V U actV).
  Notation chan_dm := (chan_dm K k0 k1 kadd ksub D dzero dadd dscale U actD).
  Notation ksum := (ksum K k0 kadd).
  Notation tstep := (tstep K U).

  (* the branch of draw i *)
  Theorem branch_index_gen (ops : list (K * U)) (v : V) (i : nat) :
    nth_error (branches ops v) i =
    match nth_error ops i with
    | Some (p, u) => Some (p, actV u v)
    | None => if Nat.eqb i (length ops) then Some (ksub k1 (ksum (map fst ops)), v) else None
    end.
  Proof.
    unfold Traj.branches.
    destruct (nth_error ops i) as [[p u]|] eqn:E.
    - rewrite nth_error_app1.
      + rewrite nth_error_map, E. reflexivity.
      + rewrite map_length. apply nth_error_Some. now rewrite E.
    - apply nth_error_None in E. rewrite nth_error_app2; rewrite map_length; [|exact E].
      destruct (Nat.eqb i (length ops)) eqn:E2.
      + apply Nat.eqb_eq in E2. subst i. now rewrite Nat.sub_diag.
      + apply Nat.eqb_neq in E2. destruct (i - length ops) as [|m] eqn:E3; [lia|].
        simpl. now destruct m.
  Qed.

  Definition nz (pu : K * U) : bool := negb (isz (fst pu)).
  Definition drop_zero (ops : list (K * U)) : list (K * U) := filter nz ops.

  Lemma ksum_drop_zero ops : ksum (map fst (drop_zero ops)) = ksum (map fst ops).
  Proof.
    induction ops as [|[p u] ops IH]; simpl; [reflexivity|].
    unfold nz at 1. simpl. destruct (isz p) eqn:E; simpl; rewrite IH; [|reflexivity].
    apply isz_ok in E. subst p. ring.
  Qed.

  Theorem chan_dm_drop_zero_gen ops rho : chan_dm (drop_zero ops) rho = chan_dm ops rho.
  Proof.
    unfold Traj.chan_dm. rewrite ksum_drop_zero. f_equal.
    induction ops as [|[p u] ops IH]; simpl; [reflexivity|].
    unfold nz at 1. simpl. destruct (isz p) eqn:E; simpl; rewrite IH; [|reflexivity].
    apply isz_ok in E. subst p. now rewrite dscale_0, dadd_0_l.
  Qed.

  Definition drop_zero_step (s : tstep) : tstep :=
    match s with TU _ _ u => TU _ _ u | TC _ _ ops => TC _ _ (drop_zero ops) end.

  Theorem run_dm_drop_zero_gen (c : list tstep) : forall rho,
    run_dm K k0 k1 kadd ksub D dzero dadd dscale U actD (map drop_zero_step c) rho
    = run_dm K k0 k1 kadd ksub D dzero dadd dscale U actD c rho.
  Proof.
    unfold run_dm. induction c as [|s c IH]; intros rho; simpl; [reflexivity|].
    rewrite IH. f_equal. destruct s; simpl; [reflexivity | apply chan_dm_drop_zero_gen].
  Qed.

  (* the defect class: probabilities of the filtered list, operators taken by index from the UNFILTERED list *)
  Definition branches_shift (ops : list (K * U)) (v : V) : list (K * V) :=
    map (fun pu => (fst pu, actV (snd pu) v)) (combine (map fst (drop_zero ops)) (map snd ops))
    ++ [(ksub k1 (ksum (map fst (drop_zero ops))), v)].
End TrajZero.

(* the shifted-index step does not have the density-matrix expectation: integers, proj v = v^2 *)
Local Open Scope Z_scope.
Lemma shift_refuted_Z :
  let ops := [(0, 5); (1, 3)] in
  expect Z Z 0 Z.add Z.mul Z (fun v => v * v) (branches_shift Z 0 1 Z.add Z.sub Z Z Z.mul (Z.eqb 0) ops 1)
  <> chan_dm Z 0 1 Z.add Z.sub Z 0 Z.add Z.mul Z (fun u d => u * u * d) ops 1.
Proof. vm_compute. discriminate. Qed.

Lemma drop_zero_example_Z :
  let ops := [(0, 5); (1, 3)] in
  expect Z Z 0 Z.add Z.mul Z (fun v => v * v) (branches Z 0 1 Z.add Z.sub Z Z Z.mul (drop_zero Z Z (Z.eqb 0) ops) 1)
  = chan_dm Z 0 1 Z.add Z.sub Z 0 Z.add Z.mul Z (fun u d => u * u * d) ops 1.
Proof. vm_compute. reflexivity. Qed.
