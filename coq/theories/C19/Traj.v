(* C19/Traj.v : trajectories versus density matrices as a FINITE EXPECTATION identity.

   Model of  backends/numpy.py apply_channel (trajectory step: index drawn from
   coefficients + (1 - sum,); the unitary gates[index] is applied unless index = len(gates)),
   apply_channel_density_matrix ((1 - sum) rho + sum_k p_k U_k rho U_k^dag) and of the loop of
   execute_circuit_repeated / execute_circuit over the queue.

   Everything is stated over an abstract commutative ring K of weights, an abstract K-module D of
   density operators, an abstract set V of state vectors with  proj : V -> D  (psi |-> |psi><psi|),
   and abstract operators U acting on V and (linearly) on D with  proj (u.psi) = u.(proj psi).
   The theorem needs no unitarity and no positivity: it is linearity of the density-matrix
   semantics, by induction over the queue.  "Frequencies converge" is then the law of large
   numbers, which is cited, not proved. *)
From Coq Require Import List Ring ZArith.
Import ListNotations.

Section Traj.
  (* weights *)
  Variables (K : Type) (k0 k1 : K) (kadd kmul ksub : K -> K -> K) (kopp : K -> K).
  Hypothesis Kring : ring_theory k0 k1 kadd kmul ksub kopp (@eq K).
  Add Ring KR : Kring.
  (* density operators: a K-module *)
  Variables (D : Type) (dzero : D) (dadd : D -> D -> D) (dscale : K -> D -> D).
  Hypothesis dadd_comm : forall a b, dadd a b = dadd b a.
  Hypothesis dadd_assoc : forall a b c, dadd a (dadd b c) = dadd (dadd a b) c.
  Hypothesis dadd_0_l : forall a, dadd dzero a = a.
  Hypothesis dscale_add_l : forall x y a, dscale (kadd x y) a = dadd (dscale x a) (dscale y a).
  Hypothesis dscale_add_r : forall x a b, dscale x (dadd a b) = dadd (dscale x a) (dscale x b).
  Hypothesis dscale_mul : forall x y a, dscale (kmul x y) a = dscale x (dscale y a).
  Hypothesis dscale_1 : forall a, dscale k1 a = a.
  Hypothesis dscale_0 : forall a, dscale k0 a = dzero.
  Hypothesis dscale_zero : forall x, dscale x dzero = dzero.
  (* states, operators *)
  Variables (V U : Type) (proj : V -> D) (actV : U -> V -> V) (actD : U -> D -> D).
  Hypothesis proj_act : forall u v, proj (actV u v) = actD u (proj v).
  Hypothesis actD_add : forall u a b, actD u (dadd a b) = dadd (actD u a) (actD u b).
  Hypothesis actD_scale : forall u x a, actD u (dscale x a) = dscale x (actD u a).
  Hypothesis actD_zero : forall u, actD u dzero = dzero.

  Inductive tstep := TU (u : U) | TC (ops : list (K * U)).   (* unitary gate | UnitaryChannel *)

  Definition ksum (l : list K) : K := fold_right kadd k0 l.
  Definition dsum (l : list D) : D := fold_right dadd dzero l.

  (* density-matrix semantics *)
  Definition chan_dm (ops : list (K * U)) (rho : D) : D :=
    dadd (dscale (ksub k1 (ksum (map fst ops))) rho)
         (dsum (map (fun pu => dscale (fst pu) (actD (snd pu) rho)) ops)).
  Definition step_dm (s : tstep) (rho : D) : D :=
    match s with TU u => actD u rho | TC ops => chan_dm ops rho end.
  Definition run_dm (c : list tstep) (rho : D) : D := fold_left (fun r s => step_dm s r) c rho.

  (* trajectory semantics: the weighted list of all draw sequences *)
  Definition branches (ops : list (K * U)) (v : V) : list (K * V) :=
    map (fun pu => (fst pu, actV (snd pu) v)) ops ++ [(ksub k1 (ksum (map fst ops)), v)].
  Definition step_ens (s : tstep) (ens : list (K * V)) : list (K * V) :=
    match s with
    | TU u => map (fun pv => (fst pv, actV u (snd pv))) ens
    | TC ops => flat_map (fun pv => map (fun qw => (kmul (fst pv) (fst qw), snd qw)) (branches ops (snd pv))) ens
    end.
  Definition trajs (c : list tstep) (v : V) : list (K * V) :=
    fold_left (fun e s => step_ens s e) c [(k1, v)].
  Definition expect (ens : list (K * V)) : D :=
    dsum (map (fun pv => dscale (fst pv) (proj (snd pv))) ens).

  (* ---- module lemmas *)
  Lemma dadd_0_r a : dadd a dzero = a.
  Proof. now rewrite dadd_comm, dadd_0_l. Qed.

  Lemma dsum_app a b : dsum (a ++ b) = dadd (dsum a) (dsum b).
  Proof.
    induction a as [|x a IH]; simpl; [now rewrite dadd_0_l|]. now rewrite IH, dadd_assoc.
  Qed.

  Lemma dadd_swap a b c d : dadd (dadd a b) (dadd c d) = dadd (dadd a c) (dadd b d).
  Proof.
    rewrite <- (dadd_assoc a b), (dadd_assoc b c d), (dadd_comm b c), <- (dadd_assoc c b d), dadd_assoc.
    reflexivity.
  Qed.

  Lemma dsum_scale x l : dsum (map (dscale x) l) = dscale x (dsum l).
  Proof.
    induction l as [|a l IH]; simpl; [now rewrite dscale_zero|]. now rewrite IH, dscale_add_r.
  Qed.

  Lemma dsum_actD u l : dsum (map (actD u) l) = actD u (dsum l).
  Proof.
    induction l as [|a l IH]; simpl; [now rewrite actD_zero|]. now rewrite IH, actD_add.
  Qed.

  (* ---- the channel map is linear *)
  Lemma chan_dm_zero ops : chan_dm ops dzero = dzero.
  Proof.
    unfold chan_dm. rewrite dscale_zero, dadd_0_l.
    induction ops as [|[p u] ops IH]; simpl; [reflexivity|].
    now rewrite IH, actD_zero, dscale_zero, dadd_0_l.
  Qed.

  Lemma chan_dm_add ops a b : chan_dm ops (dadd a b) = dadd (chan_dm ops a) (chan_dm ops b).
  Proof.
    unfold chan_dm. rewrite dscale_add_r, dadd_swap. f_equal.
    induction ops as [|[p u] ops IH]; simpl; [now rewrite dadd_0_l|].
    rewrite IH, actD_add, dscale_add_r, dadd_swap. reflexivity.
  Qed.

  Lemma dscale_comm x y a : dscale x (dscale y a) = dscale y (dscale x a).
  Proof. rewrite <- !dscale_mul. f_equal. ring. Qed.

  Lemma chan_dm_scale ops x a : chan_dm ops (dscale x a) = dscale x (chan_dm ops a).
  Proof.
    unfold chan_dm. rewrite dscale_add_r, (dscale_comm x). f_equal.
    induction ops as [|[p u] ops IH]; simpl; [now rewrite dscale_zero|].
    rewrite IH, actD_scale, dscale_add_r, (dscale_comm x). reflexivity.
  Qed.

  (* ---- one trajectory step *)
  Lemma expect_app a b : expect (a ++ b) = dadd (expect a) (expect b).
  Proof. unfold expect. now rewrite map_app, dsum_app. Qed.

  Lemma expect_branches p ops v :
    expect (map (fun qw => (kmul p (fst qw), snd qw)) (branches ops v)) = dscale p (chan_dm ops (proj v)).
  Proof.
    unfold branches. rewrite map_app, expect_app. unfold chan_dm.
    rewrite dscale_add_r, dadd_comm. f_equal.
    - unfold expect. simpl. now rewrite dadd_0_r, dscale_mul.
    - unfold expect. rewrite !map_map. simpl.
      induction ops as [|[q u] ops IH]; simpl; [now rewrite dscale_zero|].
      rewrite IH, dscale_add_r, proj_act, dscale_mul. reflexivity.
  Qed.

  Lemma expect_step s ens : expect (step_ens s ens) = step_dm s (expect ens).
  Proof.
    destruct s as [u|ops]; simpl.
    - unfold expect. rewrite map_map. simpl.
      induction ens as [|[p v] ens IH]; simpl; [now rewrite actD_zero|].
      rewrite IH, actD_add, actD_scale, proj_act. reflexivity.
    - induction ens as [|[p v] ens IH]; simpl.
      + unfold expect. simpl. now rewrite chan_dm_zero.
      + rewrite expect_app, IH, expect_branches. simpl.
        unfold expect at 2. simpl. fold (expect ens).
        now rewrite chan_dm_add, chan_dm_scale.
  Qed.

  Lemma expect_run c : forall ens,
    expect (fold_left (fun e s => step_ens s e) c ens) = run_dm c (expect ens).
  Proof.
    induction c as [|s c IH]; intros ens; simpl; [reflexivity|].
    now rewrite IH, expect_step.
  Qed.

  (* E[ |psi_T><psi_T| ] over all draw sequences = density-matrix run *)
  Theorem trajectory_expectation_gen c v : expect (trajs c v) = run_dm c (proj v).
  Proof.
    unfold trajs. rewrite expect_run. unfold expect. simpl. now rewrite dscale_1, dadd_0_r.
  Qed.

  (* the weights of the draw sequences sum to one *)
  Definition weight (ens : list (K * V)) : K := ksum (map fst ens).

  Lemma ksum_app a b : ksum (a ++ b) = kadd (ksum a) (ksum b).
  Proof. induction a as [|x a IH]; simpl; [ring | rewrite IH; ring]. Qed.

  Lemma weight_branches p ops v :
    ksum (map fst (map (fun qw : K * V => (kmul p (fst qw), snd qw)) (branches ops v))) = p.
  Proof.
    unfold branches. rewrite map_app, map_app, ksum_app. simpl.
    assert (E : ksum (map fst (map (fun qw : K * V => (kmul p (fst qw), snd qw))
                                   (map (fun pu : K * U => (fst pu, actV (snd pu) v)) ops)))
                = kmul p (ksum (map fst ops))).
    { induction ops as [|[q u] ops IH]; simpl; [ring | rewrite IH; ring]. }
    rewrite E. ring.
  Qed.

  Lemma weight_step s ens : weight (step_ens s ens) = weight ens.
  Proof.
    unfold weight. destruct s as [u|ops]; simpl.
    - now rewrite map_map.
    - induction ens as [|[p v] ens IH]; simpl; [reflexivity|].
      rewrite map_app, ksum_app, IH, weight_branches. reflexivity.
  Qed.

  Theorem trajectory_weights_gen c v : weight (trajs c v) = k1.
  Proof.
    unfold trajs.
    assert (G : forall ens, weight (fold_left (fun e s => step_ens s e) c ens) = weight ens).
    { induction c as [|s c IH]; intros ens; simpl; [reflexivity|]. now rewrite IH, weight_step. }
    rewrite G. unfold weight. simpl. ring.
  Qed.

  (* zero strength: a unitary mixture whose probabilities are all zero is the identity map,
     in both semantics *)
  Lemma zero_ksum ops : Forall (fun pu : K * U => fst pu = k0) ops -> ksum (map fst ops) = k0.
  Proof.
    intros H. induction H as [|[p u] ops Hp _ IH]; simpl in *; [reflexivity|]. rewrite IH, Hp. ring.
  Qed.

  Lemma zero_dsum ops rho :
    Forall (fun pu : K * U => fst pu = k0) ops ->
    dsum (map (fun pu => dscale (fst pu) (actD (snd pu) rho)) ops) = dzero.
  Proof.
    intros H. induction H as [|[p u] ops Hp _ IH]; simpl in *; [reflexivity|].
    now rewrite IH, Hp, dscale_0, dadd_0_l.
  Qed.

  Theorem zero_strength_dm_gen ops rho :
    Forall (fun pu => fst pu = k0) ops -> chan_dm ops rho = rho.
  Proof.
    intros H. unfold chan_dm.
    rewrite (zero_ksum ops H), (zero_dsum ops rho H), dadd_0_r.
    replace (ksub k1 k0) with k1 by ring. apply dscale_1.
  Qed.
End Traj.

(* ---- non-vacuity: the hypotheses are satisfiable (K = D = V = U = Z, proj v = v^2,
   u acts on V by multiplication and on D by multiplication with u^2) *)
Local Open Scope Z_scope.
Definition Zring : ring_theory 0 1 Z.add Z.mul Z.sub Z.opp (@eq Z).
Proof. constructor; intros; ring. Qed.

Definition trajectory_expectation_Z (c : list (tstep Z Z)) (v : Z) :
  expect Z Z 0 Z.add Z.mul Z (fun v => v * v) (trajs Z 0 1 Z.add Z.mul Z.sub Z Z Z.mul c v)
  = run_dm Z 0 1 Z.add Z.sub Z 0 Z.add Z.mul Z (fun u d => u * u * d) c (v * v).
Proof.
  apply (trajectory_expectation_gen Z 0 1 Z.add Z.mul Z.sub Z.opp Zring Z 0 Z.add Z.mul)
    with (proj := fun v => v * v) (actV := Z.mul) (actD := fun u d => u * u * d); intros; ring.
Qed.

Example trajectory_example :
  let c := [TU Z Z 2; TC Z Z [(3, 5); (4, -1)]; TU Z Z 7] in
  expect Z Z 0 Z.add Z.mul Z (fun v => v * v) (trajs Z 0 1 Z.add Z.mul Z.sub Z Z Z.mul c 1)
  = run_dm Z 0 1 Z.add Z.sub Z 0 Z.add Z.mul Z (fun u d => u * u * d) c 1.
Proof. vm_compute. reflexivity. Qed.
