(* C19/Proofs.v : lemmas about the model of NoiseModel.apply / with_pauli_noise (Model.v). *)
From Coq Require Import List Bool Arith QArith Lia.
From QV Require Import C19.Model.
Import ListNotations.
Local Close Scope Q_scope.
Local Open Scope nat_scope.

(* ------------------------------------------------------------------ list utilities *)
Lemma filter_all {A} (p : A -> bool) l : (forall x, In x l -> p x = true) -> filter p l = l.
Proof.
  induction l as [|a l IH]; intros H; simpl; [reflexivity|].
  rewrite (H a (or_introl eq_refl)). f_equal. apply IH. intros; apply H; now right.
Qed.

Lemma filter_none {A} (p : A -> bool) l : (forall x, In x l -> p x = false) -> filter p l = [].
Proof.
  induction l as [|a l IH]; intros H; simpl; [reflexivity|].
  rewrite (H a (or_introl eq_refl)). apply IH. intros; apply H; now right.
Qed.

Lemma mem_In x l : mem x l = true <-> In x l.
Proof.
  unfold mem. rewrite existsb_exists. split.
  - intros [y [Hy E]]. apply Nat.eqb_eq in E. now subst.
  - intros H. exists x. split; [assumption | apply Nat.eqb_refl].
Qed.

Lemma incl_b_incl a b : incl_b a b = true <-> incl a b.
Proof.
  unfold incl_b, incl. rewrite forallb_forall. split; intros H x Hx.
  - apply mem_In. now apply H.
  - apply mem_In. now apply H.
Qed.

Lemma intersects_false a b : intersects a b = false <-> (forall x, In x a -> In x b -> False).
Proof.
  unfold intersects. split.
  - intros H x Ha Hb.
    assert (E : existsb (fun x => mem x b) a = true).
    { apply existsb_exists. exists x. split; [assumption | now apply mem_In]. }
    congruence.
  - intros H. destruct (existsb (fun x => mem x b) a) eqn:E; [|reflexivity].
    apply existsb_exists in E as [x [Ha Hb]]. apply mem_In in Hb. exfalso. eauto.
Qed.

Lemma intersects_sub a b c : intersects a b = false -> incl c b -> intersects a c = false.
Proof.
  rewrite !intersects_false. intros H I x Ha Hc. apply (H x Ha). now apply I.
Qed.

Lemma leqb_refl l : leqb l l = true.
Proof. induction l; simpl; [reflexivity|]. now rewrite Nat.eqb_refl. Qed.

(* ------------------------------------------------------------------ where inserted channels act *)
Lemma inter_sorted_incl gq rq : incl (inter_sorted gq rq) gq.
Proof.
  unfold inter_sorted, incl. intros x Hx. apply filter_In in Hx as [_ Hx].
  apply andb_true_iff in Hx as [Hx _]. now apply mem_In.
Qed.

Lemma eff_qubits_incl r g : incl (eff_qubits r g) (g_qubits g).
Proof.
  unfold eff_qubits. destruct (r_qubits r); [apply inter_sorted_incl | apply incl_refl].
Qed.

Lemma combs_incl : forall l k c, In c (combs k l) -> incl c l.
Proof.
  induction l as [|x l IH]; intros k c H.
  - destruct k; simpl in H.
    + destruct H as [<-|[]]. apply incl_refl.
    + destruct H.
  - destruct k; simpl in H.
    + destruct H as [<-|[]]. intros y Hy. destruct Hy.
    + apply in_app_or in H as [H|H].
      * apply in_map_iff in H as [c' [<- H]]. apply IH in H.
        intros y Hy. destruct Hy as [<-|Hy]; [now left | right; now apply H].
      * apply IH in H. intros y Hy. right. now apply H.
Qed.

(* every created (non-custom) channel acts on a subset of the qubits it was given *)
Lemma chans_of_incl e qs it :
  In it (chans_of e qs) ->
  match it with
  | Ins c => incl (c_qubits c) qs
  | InsCustom ch => e = ECustom ch
  | Orig _ => False
  end.
Proof.
  destruct e; simpl; intros H;
    try (apply in_map_iff in H as [q [<- Hq]]; simpl; intros x [<-|[]]; exact Hq);
    try (destruct H as [<-|[]]; simpl; try apply incl_refl; reflexivity).
  - apply in_map_iff in H as [c [<- Hc]]. simpl. now apply combs_incl in Hc.
  - apply in_map_iff in H as [c [<- Hc]]. simpl. now apply combs_incl in Hc.
Qed.

Lemma prescribed_In rules g it :
  In it (prescribed rules g) ->
  exists r, In r (lookup rules g) /\ fires r g = true /\ In it (chans_of (r_err r) (eff_qubits r g)).
Proof.
  unfold prescribed. intros H. apply in_flat_map in H as [r [Hr H]].
  destruct (fires r g) eqn:F; [|destruct H]. now exists r.
Qed.

Lemma prescribed_local rules g c :
  In (Ins c) (prescribed rules g) -> incl (c_qubits c) (g_qubits g).
Proof.
  intros H. apply prescribed_In in H as [r [_ [_ H]]].
  apply chans_of_incl in H. eapply incl_tran; [exact H | apply eff_qubits_incl].
Qed.

Lemma prescribed_no_orig rules g h : ~ In (Orig h) (prescribed rules g).
Proof. intros H. apply prescribed_In in H as [r [_ [_ H]]]. now apply chans_of_incl in H. Qed.

Lemma lookup_key rules g r :
  In r (lookup rules g) ->
  In r rules /\ (r_key r = Some (g_cls g) \/ (r_key r = None /\ g_kind g = KU)).
Proof.
  unfold lookup. intros H. apply in_app_or in H as [H|H].
  - apply filter_In in H as [H1 H2]. split; [assumption|]. left.
    unfold key_is in H2. destruct (r_key r); [|discriminate]. apply Nat.eqb_eq in H2. now subst.
  - destruct (g_kind g) eqn:K; try destruct H.
    apply filter_In in H as [H1 H2]. split; [assumption|]. right.
    destruct (r_key r); [discriminate | now split].
Qed.

(* ------------------------------------------------------------------ erase *)
Lemma erase_app a b : erase (a ++ b) = erase a ++ erase b.
Proof. unfold erase. apply flat_map_app. Qed.

Lemma erase_chans e qs : erase (chans_of e qs) = [].
Proof.
  assert (G : forall l, (forall it, In it l -> match it with Orig _ => False | _ => True end) -> erase l = []).
  { induction l as [|a l IH]; intros H; [reflexivity|].
    simpl. specialize (H a (or_introl eq_refl)) as Ha. destruct a; [destruct Ha| |]; simpl;
      apply IH; intros; apply H; now right. }
  apply G. intros it H. apply chans_of_incl in H. destruct it; auto.
Qed.

Lemma erase_prescribed rules g : erase (prescribed rules g) = [].
Proof.
  unfold prescribed. induction (lookup rules g) as [|r L IH]; [reflexivity|].
  simpl. rewrite erase_app, IH, app_nil_r. destruct (fires r g); [apply erase_chans | reflexivity].
Qed.

Lemma erase_prescribed_sel ro rules g : erase (prescribed_sel ro rules g) = [].
Proof.
  unfold prescribed_sel. induction (lookup rules g) as [|r L IH]; [reflexivity|].
  simpl. rewrite erase_app, IH, app_nil_r. destruct (_ && _); [apply erase_chans | reflexivity].
Qed.

Lemma erase_spec_block rules g : erase (spec_block rules g) = [g].
Proof.
  unfold spec_block. destruct (g_kind g).
  - simpl. now rewrite erase_prescribed.
  - now rewrite !erase_app, !erase_prescribed_sel.
  - simpl. now rewrite erase_prescribed.
Qed.

(* every item of a block is the trigger itself or one of its prescribed channels *)
Lemma prescribed_sel_In ro rules g it : In it (prescribed_sel ro rules g) -> In it (prescribed rules g).
Proof.
  unfold prescribed_sel, prescribed. intros H. apply in_flat_map in H as [r [Hr H]].
  apply in_flat_map. exists r. split; [exact Hr|].
  destruct (fires r g); [|destruct H]. destruct (Bool.eqb _ ro); [exact H | destruct H].
Qed.

Lemma spec_block_In rules g it :
  In it (spec_block rules g) -> it = Orig g \/ In it (prescribed rules g).
Proof.
  unfold spec_block. destruct (g_kind g); simpl; intros H.
  - destruct H as [<-|H]; auto.
  - apply in_app_or in H as [H|[<-|H]]; auto; right; eapply prescribed_sel_In; eassumption.
  - destruct H as [<-|H]; auto.
Qed.

(* if every rule of the list is a readout rule, all prescribed channels are readout channels *)
Lemma prescribed_sel_all_readout rules g :
  forallb (fun r => is_readout (r_err r)) (lookup rules g) = true ->
  prescribed_sel true rules g = prescribed rules g /\ prescribed_sel false rules g = [].
Proof.
  unfold prescribed_sel, prescribed. induction (lookup rules g) as [|r L IH]; intros H; [now split|].
  simpl in H. apply andb_true_iff in H as [H1 H2]. destruct (IH H2) as [E1 E2].
  simpl. rewrite E1, E2, H1. simpl. rewrite andb_true_r, andb_false_r. now split.
Qed.

Lemma erase_spec_apply rules c : erase (spec_apply rules c) = c.
Proof.
  unfold spec_apply. induction c as [|g c IH]; [reflexivity|].
  simpl. rewrite erase_app, erase_spec_block, IH. reflexivity.
Qed.

(* ------------------------------------------------------------------ Circuit.add on states whose listed measurements are out of reach *)
Definition away (st : cstate) (qs : list nat) : Prop :=
  forall m, In m (s_meas st) -> intersects (g_qubits m) qs = false.

Lemma add_plain_away it st :
  away st (item_qubits it) ->
  add_plain it st = mkSt (it :: s_queue st) (s_meas st) (s_coll st).
Proof.
  intros H. unfold add_plain.
  rewrite (filter_none (fun m => intersects (g_qubits m) (item_qubits it))) by (intros m Hm; now apply H).
  rewrite (filter_all (fun m => negb (intersects (g_qubits m) (item_qubits it)))) by (intros m Hm; now rewrite (H m Hm)).
  reflexivity.
Qed.

Lemma add_items_away its : forall st qs,
  away st qs -> (forall it, In it its -> incl (item_qubits it) qs) ->
  add_items its st = mkSt (rev its ++ s_queue st) (s_meas st) (s_coll st).
Proof.
  unfold add_items. induction its as [|it its IH]; intros st qs A H; simpl.
  - now destruct st.
  - rewrite add_plain_away.
    + rewrite (IH _ qs); simpl.
      * now rewrite <- app_assoc.
      * exact A.
      * intros; apply H; now right.
    + intros m Hm. eapply intersects_sub; [now apply A | apply H; now left].
Qed.

Definition fresh_reg (st : cstate) (g : gate) : Prop :=
  forall m, In m (s_meas st) -> g_reg m <> g_reg g.

Lemma fresh_existsb st g :
  fresh_reg st g -> existsb (fun m => Nat.eqb (g_reg m) (g_reg g)) (s_meas st) = false.
Proof.
  intros H. destruct (existsb _ _) eqn:E; [|reflexivity].
  apply existsb_exists in E as [m [Hm E]]. apply Nat.eqb_eq in E. exfalso. now apply (H m).
Qed.

Lemma add_meas_fresh g st :
  fresh_reg st g -> mem (g_uid g) (s_coll st) = false ->
  add_meas g st = Some (mkSt (Orig g :: s_queue st) (s_meas st ++ [g]) (s_coll st)).
Proof. intros F C. unfold add_meas. now rewrite fresh_existsb, C. Qed.

(* ------------------------------------------------------------------ the rule loop *)
Section Gate.
  Variables (rules : list rule) (g : gate).

  Definition block_of (L : list rule) : list item :=
    flat_map (fun r => if fires r g then chans_of (r_err r) (eff_qubits r g) else []) L.

  Lemma block_items_local L :
    forallb (fun r => custom_local r g) L = true ->
    forall it, In it (block_of L) -> incl (item_qubits it) (g_qubits g).
  Proof.
    intros CL it H. unfold block_of in H. apply in_flat_map in H as [r [Hr H]].
    destruct (fires r g) eqn:F; [|destruct H].
    pose proof (proj1 (forallb_forall _ _) CL r Hr) as Cr.
    apply chans_of_incl in H. destruct it; simpl.
    - destruct H.
    - eapply incl_tran; [exact H | apply eff_qubits_incl].
    - unfold custom_local in Cr. rewrite H, F in Cr. simpl in Cr. now apply incl_b_incl.
  Qed.

  (* no readout rule in the list: the channels of the firing rules are appended in order *)
  Lemma fold_plain : forall L st,
    forallb (fun r => negb (is_readout (r_err r))) L = true ->
    forallb (fun r => custom_local r g) L = true ->
    away st (g_qubits g) ->
    fold_left (rule_step g) L (Some st) =
      Some (mkSt (rev (block_of L) ++ s_queue st) (s_meas st) (s_coll st)).
  Proof.
    induction L as [|r L IH]; intros st NR CL A.
    - now destruct st.
    - simpl in NR, CL. apply andb_true_iff in NR as [NR1 NR2]. apply andb_true_iff in CL as [CL1 CL2].
      simpl. unfold rule_step at 2. destruct (fires r g) eqn:F.
      + simpl. apply negb_true_iff in NR1. rewrite NR1.
        rewrite (add_items_away _ st (g_qubits g)); [| exact A |].
        * rewrite IH; [| assumption | assumption | exact A].
          simpl. rewrite rev_app_distr, <- app_assoc. reflexivity.
        * intros it Hit. apply (block_items_local [r]).
          -- simpl. now rewrite CL1.
          -- unfold block_of. simpl. rewrite F, app_nil_r. exact Hit.
      + rewrite IH; [| assumption | assumption | exact A]. reflexivity.
  Qed.

  Lemma fold_silent : forall L st,
    filter (fun r => fires r g) L = [] -> fold_left (rule_step g) L st = st.
  Proof.
    induction L as [|r L IH]; intros st H; [reflexivity|].
    simpl in H. destruct (fires r g) eqn:F; [discriminate|].
    simpl. unfold rule_step at 2. rewrite F. now apply IH.
  Qed.

  Lemma block_filter L :
    block_of L = flat_map (fun r => chans_of (r_err r) (eff_qubits r g)) (filter (fun r => fires r g) L).
  Proof.
    unfold block_of. induction L as [|r L IH]; [reflexivity|].
    simpl. destruct (fires r g); simpl; now rewrite IH.
  Qed.

  (* measurement, all rules are readout rules, exactly one fires *)
  Lemma fold_one : forall L st r0,
    g_kind g = KM ->
    forallb (fun r => is_readout (r_err r)) L = true ->
    filter (fun r => fires r g) L = [r0] ->
    away st (g_qubits g) -> fresh_reg st g -> mem (g_uid g) (s_coll st) = false ->
    fold_left (rule_step g) L (Some st) =
      Some (mkSt (Orig g :: rev (block_of L) ++ s_queue st) (s_meas st ++ [g]) (s_coll st)).
  Proof.
    induction L as [|r L IH]; intros st r0 K RO F1 A FR NC; [discriminate|].
    simpl in RO. apply andb_true_iff in RO as [RO1 RO2].
    simpl in F1. simpl. unfold rule_step at 2. destruct (fires r g) eqn:F.
    - injection F1 as -> F1. simpl. rewrite RO1.
      destruct (r_err r0) eqn:E; try discriminate. simpl.
      rewrite add_plain_away.
      2:{ intros m Hm. eapply intersects_sub; [now apply A | simpl; apply eff_qubits_incl]. }
      unfold add_gate. rewrite K.
      rewrite add_meas_fresh; [| exact FR | exact NC].
      rewrite fold_silent by exact F1. simpl.
      rewrite (block_filter L), F1. simpl. reflexivity.
    - simpl. fold (block_of L). now apply (IH st r0).
  Qed.
End Gate.

(* ------------------------------------------------------------------ one gate of a clean circuit *)
Definition isKM (g : gate) : bool := match g_kind g with KM => true | _ => false end.

Lemma prescribed_block rules g : prescribed rules g = block_of g (lookup rules g).
Proof. reflexivity. Qed.

Lemma step_clean rules coll0 g st :
  clean_gate rules coll0 g = true ->
  s_coll st = coll0 -> away st (g_qubits g) -> (g_kind g = KM -> fresh_reg st g) ->
  step rules (Some st) g =
    Some (mkSt (rev (spec_block rules g) ++ s_queue st)
               (s_meas st ++ (if isKM g then [g] else [])) coll0).
Proof.
  intros C SC A FR. unfold clean_gate in C. apply andb_true_iff in C as [CL C].
  assert (SB : spec_block rules g = match g_kind g with
                                    | KM => prescribed rules g ++ [Orig g]
                                    | _ => Orig g :: prescribed rules g
                                    end).
  { unfold spec_block. destruct (g_kind g); try reflexivity.
    apply andb_true_iff in C as [C _]. apply andb_true_iff in C as [_ C2].
    destruct (prescribed_sel_all_readout rules g C2) as [E1 E2]. rewrite E1, E2. now rewrite app_nil_r. }
  rewrite SB. clear SB.
  unfold step, isKM. rewrite prescribed_block.
  set (L := lookup rules g) in *.
  destruct (g_kind g) eqn:K.
  - (* ordinary gate *)
    assert (NE : existsb (fun r => is_readout (r_err r)) L = false).
    { destruct (existsb _ L) eqn:E; [|reflexivity]. apply existsb_exists in E as [r [Hr E]].
      pose proof (proj1 (forallb_forall _ _) C r Hr) as N. cbv beta in N. rewrite E in N. discriminate. }
    rewrite NE. simpl. unfold add_gate. rewrite K.
    rewrite add_plain_away by exact A.
    rewrite fold_plain; try assumption; simpl.
    rewrite <- app_assoc, app_nil_r. simpl. now rewrite SC.
  - (* measurement *)
    specialize (FR eq_refl).
    apply andb_true_iff in C as [C C3]. apply andb_true_iff in C as [C1 C2].
    apply negb_true_iff in C1. rewrite <- SC in C1.
    destruct L as [|r1 L'] eqn:EL.
    + simpl. unfold add_gate. rewrite K. rewrite add_meas_fresh by assumption. simpl.
      rewrite existsb_app. simpl. rewrite Nat.eqb_refl, orb_true_r. simpl. now rewrite SC.
    + assert (EX : existsb (fun r => is_readout (r_err r)) (r1 :: L') = true).
      { simpl in C2. apply andb_true_iff in C2 as [C2 _]. simpl. now rewrite C2. }
      rewrite EX.
      assert (FA : filter (fun r => is_readout (r_err r)) (r1 :: L') = r1 :: L') by (apply filter_all; now apply forallb_forall).
      rewrite FA.
      destruct (filter (fun r => fires r g) (r1 :: L')) as [|r0 [|r2 F']] eqn:EF; [| |discriminate].
      * rewrite fold_silent by exact EF. cbn [obind].
        rewrite (block_filter g (r1 :: L')), EF.
        apply negb_true_iff in C3. rewrite C3, fresh_existsb by exact FR. simpl.
        unfold add_gate. rewrite K, add_meas_fresh by assumption.
        simpl. now rewrite SC.
      * rewrite (fold_one g (r1 :: L') st r0) by assumption. cbn [obind].
        generalize (block_of g (r1 :: L')). intros B.
        cbn [s_meas]. rewrite existsb_app. simpl. rewrite Nat.eqb_refl, orb_true_r, andb_false_r.
        rewrite rev_app_distr. simpl. now rewrite SC.
  - (* channel already present in the input circuit *)
    assert (NE : existsb (fun r => is_readout (r_err r)) L = false).
    { destruct (existsb _ L) eqn:E; [|reflexivity]. apply existsb_exists in E as [r [Hr E]].
      pose proof (proj1 (forallb_forall _ _) C r Hr) as N. cbv beta in N. rewrite E in N. discriminate. }
    rewrite NE. simpl. unfold add_gate. rewrite K.
    rewrite add_plain_away by exact A.
    rewrite fold_plain; try assumption; simpl.
    rewrite <- app_assoc, app_nil_r. simpl. now rewrite SC.
Qed.


(* ------------------------------------------------------------------ whole circuit *)
Lemma terminal_head g c :
  terminal (g :: c) = true ->
  (g_kind g = KM -> forall h, In h c ->
     intersects (g_qubits g) (g_qubits h) = false /\ (g_kind h = KM -> g_reg g <> g_reg h))
  /\ terminal c = true.
Proof.
  simpl. intros H. apply andb_true_iff in H as [H1 H2]. split; [|exact H2].
  intros K h Hh. rewrite K in H1.
  pose proof (proj1 (forallb_forall _ _) H1 h Hh) as P. cbv beta in P.
  apply andb_true_iff in P as [P1 P2]. apply negb_true_iff in P1. split; [exact P1|].
  intros Kh E. rewrite Kh in P2. apply negb_true_iff in P2. apply Nat.eqb_neq in P2. congruence.
Qed.

Lemma run_clean rules coll0 : forall c st,
  s_coll st = coll0 ->
  (forall h, In h c -> away st (g_qubits h)) ->
  (forall h, In h c -> g_kind h = KM -> fresh_reg st h) ->
  forallb (clean_gate rules coll0) c = true -> terminal c = true ->
  fold_left (step rules) c (Some st) =
    Some (mkSt (rev (spec_apply rules c) ++ s_queue st) (s_meas st ++ filter isKM c) coll0).
Proof.
  induction c as [|g c IH]; intros st SC A FR CG T.
  - simpl. rewrite app_nil_r. destruct st; simpl in *. now subst.
  - simpl in CG. apply andb_true_iff in CG as [CG1 CG2].
    apply terminal_head in T as [T1 T2].
    simpl fold_left.
    rewrite (step_clean rules coll0 g st CG1 SC (A g (or_introl eq_refl)) (FR g (or_introl eq_refl))).
    rewrite IH; try assumption; try reflexivity.
    + cbn [s_queue s_meas]. f_equal. f_equal.
      * unfold spec_apply. simpl. rewrite rev_app_distr, <- app_assoc. reflexivity.
      * rewrite <- app_assoc. f_equal. simpl. destruct (isKM g); reflexivity.
    + intros h Hh m Hm. cbn [s_meas] in Hm. apply in_app_or in Hm as [Hm|Hm].
      * apply (A h (or_intror Hh) m Hm).
      * unfold isKM in Hm. destruct (g_kind g) eqn:K; [destruct Hm | | destruct Hm].
        destruct Hm as [<-|[]]. now apply (T1 eq_refl h Hh).
    + intros h Hh Kh m Hm. cbn [s_meas] in Hm. apply in_app_or in Hm as [Hm|Hm].
      * apply (FR h (or_intror Hh) Kh m Hm).
      * unfold isKM in Hm. destruct (g_kind g) eqn:K; [destruct Hm | | destruct Hm].
        destruct Hm as [<-|[]]. now apply (T1 eq_refl h Hh).
Qed.

Theorem apply_st_clean rules coll0 c :
  clean rules coll0 c = true ->
  apply_st rules coll0 c = Some (mkSt (rev (spec_apply rules c)) (filter isKM c) coll0).
Proof.
  unfold clean, apply_st. intros H. apply andb_true_iff in H as [H1 H2].
  rewrite (run_clean rules coll0 c (mkSt [] [] coll0)); try assumption; try reflexivity.
  - simpl. now rewrite app_nil_r.
  - intros h _ m [].
  - intros h _ _ m [].
Qed.

(* exactness on clean inputs: output = what the rules prescribe, block by block; input not mutated *)
Lemma apply_exact_clean rules coll0 c :
  clean rules coll0 c = true ->
  apply rules coll0 c = Some (spec_apply rules c) /\
  option_map s_coll (apply_st rules coll0 c) = Some coll0.
Proof.
  intros H. unfold apply. rewrite (apply_st_clean _ _ _ H). simpl. now rewrite rev_involutive.
Qed.

Lemma apply_skeleton_clean rules coll0 c :
  clean rules coll0 c = true -> option_map erase (apply rules coll0 c) = Some c.
Proof.
  intros H. destruct (apply_exact_clean _ _ _ H) as [E _]. rewrite E. simpl. now rewrite erase_spec_apply.
Qed.

(* ------------------------------------------------------------------ unconditional: apply only ever repeats or drops input gates *)
Definition emits (g : gate) (st st' : cstate) : Prop :=
  exists its k, s_queue st' = its ++ s_queue st /\ erase (rev its) = repeat g k.

Lemma emits_refl g st : emits g st st.
Proof. exists [], 0. now split. Qed.

Lemma repeat_plus {A} (x : A) a b : repeat x a ++ repeat x b = repeat x (a + b).
Proof. induction a; simpl; [reflexivity | now rewrite IHa]. Qed.

Lemma emits_trans g a b c : emits g a b -> emits g b c -> emits g a c.
Proof.
  intros [i1 [k1 [Q1 E1]]] [i2 [k2 [Q2 E2]]]. exists (i2 ++ i1), (k1 + k2). split.
  - now rewrite Q2, Q1, app_assoc.
  - now rewrite rev_app_distr, erase_app, E1, E2, repeat_plus.
Qed.

Lemma emits_add_gate g st st' : add_gate g st = Some st' -> emits g st st'.
Proof.
  unfold add_gate, add_meas, add_plain. intros H.
  exists [Orig g], 1. split; [|reflexivity].
  destruct (g_kind g);
    try (injection H as <-; reflexivity).
  destruct (existsb _ _); [discriminate|].
  destruct (mem _ _); injection H as <-; reflexivity.
Qed.

Lemma emits_add_items g its : forall st, erase its = [] -> emits g st (add_items its st).
Proof.
  unfold add_items. induction its as [|it its IH]; intros st E; simpl; [apply emits_refl|].
  assert (E1 : erase [it] = [] /\ erase its = []).
  { change (it :: its) with ([it] ++ its) in E. rewrite erase_app in E. now apply app_eq_nil in E. }
  destruct E1 as [E1 E2].
  eapply emits_trans; [| apply IH; exact E2].
  exists [it], 0. split; [reflexivity | exact E1].
Qed.

Lemma emits_rule_step g r st st' :
  rule_step g (Some st) r = Some st' -> emits g st st'.
Proof.
  unfold rule_step. destruct (fires r g); [|intros H; injection H as <-; apply emits_refl].
  simpl. destruct (is_readout (r_err r)).
  - intros H. apply emits_add_gate in H. eapply emits_trans; [|exact H]. apply emits_add_items, erase_chans.
  - intros H. injection H as <-. apply emits_add_items, erase_chans.
Qed.

Lemma rule_step_none g r : rule_step g None r = None.
Proof. unfold rule_step. now destruct (fires r g). Qed.

Lemma fold_rule_none g L : fold_left (rule_step g) L None = None.
Proof. induction L; simpl; [reflexivity | now rewrite rule_step_none]. Qed.

Lemma emits_fold g : forall L st st',
  fold_left (rule_step g) L (Some st) = Some st' -> emits g st st'.
Proof.
  induction L as [|r L IH]; intros st st' H; simpl in H.
  - injection H as <-. apply emits_refl.
  - destruct (rule_step g (Some st) r) as [s1|] eqn:E.
    + apply emits_rule_step in E. apply IH in H. eapply emits_trans; eassumption.
    + now rewrite fold_rule_none in H.
Qed.

Lemma emits_step rules g st st' : step rules (Some st) g = Some st' -> emits g st st'.
Proof.
  unfold step. set (L := lookup rules g).
  assert (S1 : forall s1, (if existsb (fun r => is_readout (r_err r)) L then Some st else obind (Some st) (add_gate g)) = Some s1 ->
                          emits g st s1).
  { intros s1. destruct (existsb _ L); simpl.
    - intros H. injection H as <-. apply emits_refl.
    - apply emits_add_gate. }
  destruct (if existsb _ L then Some st else obind (Some st) (add_gate g)) as [s1|] eqn:E1.
  2:{ rewrite fold_rule_none. destruct (g_kind g); discriminate. }
  specialize (S1 s1 eq_refl).
  destruct (fold_left (rule_step g) L (Some s1)) as [s2|] eqn:E2.
  2:{ destruct (g_kind g); discriminate. }
  apply emits_fold in E2.
  assert (S2 : emits g st s2) by (eapply emits_trans; eassumption).
  destruct (g_kind g); try (intros H; injection H as <-; exact S2).
  simpl. destruct (_ && _).
  - intros H. eapply emits_trans; [exact S2 | now apply emits_add_gate].
  - intros H. injection H as <-. exact S2.
Qed.

Lemma step_none rules g : step rules None g = None.
Proof.
  unfold step. destruct (existsb _ _); simpl; rewrite fold_rule_none; now destruct (g_kind g).
Qed.

Lemma fold_step_none rules c : fold_left (step rules) c None = None.
Proof. induction c; simpl; [reflexivity | now rewrite step_none]. Qed.

Fixpoint expand (c : list gate) (ks : list nat) : list gate :=
  match c, ks with
  | g :: c', k :: ks' => repeat g k ++ expand c' ks'
  | _, _ => []
  end.

Lemma apply_repeats_gen rules : forall c st st',
  fold_left (step rules) c (Some st) = Some st' ->
  exists its ks, s_queue st' = its ++ s_queue st /\ length ks = length c /\ erase (rev its) = expand c ks.
Proof.
  induction c as [|g c IH]; intros st st' H; simpl in H.
  - injection H as <-. exists [], []. repeat split.
  - destruct (step rules (Some st) g) as [s1|] eqn:E; [|now rewrite fold_step_none in H].
    apply emits_step in E as [i1 [k [Q1 E1]]].
    apply IH in H as [i2 [ks [Q2 [Lk E2]]]].
    exists (i2 ++ i1), (k :: ks). repeat split.
    + now rewrite Q2, Q1, app_assoc.
    + simpl. now rewrite Lk.
    + rewrite rev_app_distr, erase_app, E1, E2. reflexivity.
Qed.

Theorem apply_repeats rules coll0 c out :
  apply rules coll0 c = Some out ->
  exists ks, length ks = length c /\ erase out = expand c ks.
Proof.
  unfold apply, apply_st. destruct (fold_left _ _ _) as [s|] eqn:E; [|discriminate].
  intros H. injection H as <-.
  apply apply_repeats_gen in E as [its [ks [Q [Lk E]]]].
  exists ks. split; [exact Lk|]. simpl in Q. rewrite app_nil_r in Q. now rewrite Q.
Qed.

(* every created channel is on a subset of the qubits of some input gate (custom channels excepted) *)

(* ------------------------------------------------------------------ refutations of the full-strength statements (faithful model) *)
Definition gH := mkGate 0 0 KU [0] 0.
Definition gM01 := mkGate 1 1 KM [0; 1] 0.
Definition two_readout : list rule :=
  [mkRule (Some 1) [] (EReadout 0) (Some [0]); mkRule (Some 1) [] (EReadout 0) (Some [1])].

Lemma two_readout_output :
  show_st (apply_st two_readout [] [gH; gM01]) =
  Some ([(0, [0], 0); (7, [0], 0); (0, [1], 0); (7, [1], 0); (0, [1], 0); (0, [1], 0)], [], [1]).
Proof. vm_compute. reflexivity. Qed.

Lemma skeleton_refuted_two_readout :
  option_map erase (apply two_readout [] [gH; gM01]) <> Some [gH; gM01].
Proof. vm_compute. discriminate. Qed.

Lemma exact_refuted_two_readout :
  apply two_readout [] [gH; gM01] <> Some (spec_apply two_readout [gH; gM01]).
Proof. vm_compute. discriminate. Qed.

Lemma mutation_refuted_two_readout :
  option_map s_coll (apply_st two_readout [] [gH; gM01]) <> Some [].
Proof. vm_compute. discriminate. Qed.

(* collapsing measurement, EMPTY noise model *)
Definition gM0 := mkGate 0 1 KM [0] 0.
Definition gH1 := mkGate 1 0 KU [0] 0.
Definition gM2 := mkGate 2 1 KM [0] 1.
Lemma skeleton_refuted_empty_model :
  option_map erase (apply [] [0] [gM0; gH1; gM2]) = Some [gM0; gM0; gH1; gM2].
Proof. vm_compute. reflexivity. Qed.

(* readout rule naming the measured qubits with a false condition: measurement dropped *)
Lemma skeleton_refuted_dropped :
  option_map erase (apply [mkRule (Some 1) [fun _ => false] (EReadout 0) (Some [0])] [] [gH; mkGate 1 1 KM [0] 0])
  = Some [gH].
Proof. vm_compute. reflexivity. Qed.

(* ------------------------------------------------------------------ with_pauli_noise *)
Lemma combine_map_flat {A B} (f : A -> list B) (h : A -> B) (c : list A) :
  flat_map (fun gn => h (fst gn) :: snd gn) (combine c (map f c)) = flat_map (fun g => h g :: f g) c.
Proof. induction c as [|g c IH]; [reflexivity|]. simpl. now rewrite IH. Qed.

Lemma with_pauli_noise_spec nq m c out :
  with_pauli_noise nq m c = Some out ->
  exists m', check_noise_map nq m = Some m' /\ out = flat_map (pauli_block m') c.
Proof.
  unfold with_pauli_noise. destruct (check_noise_map nq m) as [m'|]; [|discriminate]. simpl.
  destruct (existsb _ c); [discriminate|]. intros H. injection H as <-.
  exists m'. split; [reflexivity|].
  rewrite (combine_map_flat (fun g => tl (pauli_block m' g)) Orig). reflexivity.
Qed.

Lemma erase_pauli_block m g : erase (pauli_block m g) = [g].
Proof.
  unfold pauli_block. simpl. f_equal. destruct (g_kind g); try reflexivity;
  induction (g_qubits g) as [|q l IH]; simpl; try reflexivity;
  rewrite erase_app, IH, app_nil_r; destruct (assoc q m) as [[o ps]|]; try reflexivity;
  destruct (pos_sum ps); reflexivity.
Qed.

Lemma pauli_block_local m g it :
  In it (pauli_block m g) ->
  it = Orig g \/ exists q o ps, it = Ins (mkChan CPauli [q] o) /\ In q (g_qubits g) /\ g_kind g <> KM
                                /\ assoc q m = Some (o, ps) /\ pos_sum ps = true.
Proof.
  unfold pauli_block. intros [<-|H]; [now left|]. right.
  assert (G : In it (flat_map (fun q => match assoc q m with
                                        | Some (o, ps) => if pos_sum ps then [Ins (mkChan CPauli [q] o)] else []
                                        | None => [] end) (g_qubits g)) -> g_kind g <> KM ->
              exists q o ps, it = Ins (mkChan CPauli [q] o) /\ In q (g_qubits g) /\ g_kind g <> KM
                             /\ assoc q m = Some (o, ps) /\ pos_sum ps = true).
  { intros H0 NK. apply in_flat_map in H0 as [q [Hq H0]].
    destruct (assoc q m) as [[o ps]|] eqn:E; [|destruct H0].
    destruct (pos_sum ps) eqn:P; [|destruct H0].
    destruct H0 as [<-|[]]. exists q, o, ps. repeat split; assumption. }
  destruct (g_kind g) eqn:K.
  - apply G; [exact H | discriminate].
  - destruct H.
  - apply G; [exact H | discriminate].
Qed.

Lemma pauli_noise_correct nq m c out :
  with_pauli_noise nq m c = Some out ->
  exists m', check_noise_map nq m = Some m' /\ out = flat_map (pauli_block m') c /\ erase out = c.
Proof.
  intros H. apply with_pauli_noise_spec in H as [m' [H1 ->]]. exists m'. repeat split; try assumption.
  induction c as [|g c IH]; [reflexivity|].
  change (flat_map (pauli_block m') (g :: c)) with (pauli_block m' g ++ flat_map (pauli_block m') c).
  rewrite erase_app, erase_pauli_block, IH. reflexivity.
Qed.

(* zero strength: every row sums to zero -> nothing is inserted *)
Lemma pauli_block_zero m g :
  (forall q o ps, assoc q m = Some (o, ps) -> pos_sum ps = false) -> pauli_block m g = [Orig g].
Proof.
  intros Z. unfold pauli_block. f_equal. destruct (g_kind g); try reflexivity;
  induction (g_qubits g) as [|q l IH]; simpl; try reflexivity; rewrite IH;
  destruct (assoc q m) as [[o ps]|] eqn:E; try reflexivity; now rewrite (Z q o ps E).
Qed.

Lemma pauli_zero_strength nq m c out :
  with_pauli_noise nq m c = Some out ->
  (forall m' q o ps, check_noise_map nq m = Some m' -> assoc q m' = Some (o, ps) -> pos_sum ps = false) ->
  out = map Orig c.
Proof.
  intros H Z. apply with_pauli_noise_spec in H as [m' [H1 ->]].
  induction c as [|g c IH]; [reflexivity|].
  change (flat_map (pauli_block m') (g :: c)) with (pauli_block m' g ++ flat_map (pauli_block m') c).
  rewrite pauli_block_zero by (intros q o ps; apply (Z m' q o ps H1)). simpl. now rewrite IH.
Qed.

Local Open Scope Q_scope.
Lemma pos_sum_zero ps : Forall (fun p => p == 0) ps -> pos_sum ps = false.
Proof.
  intros H. unfold pos_sum. apply negb_false_iff. apply Qle_bool_iff.
  assert (E : qsum ps == 0).
  { induction H as [|p ps Hp _ IH]; simpl; [reflexivity|]. rewrite Hp, IH. reflexivity. }
  rewrite E. apply Qle_refl.
Qed.
