(* C19/ProofsHist.v : NoiseModel.apply after ANY history of add / apply operations on one object equals the apply of
   a freshly built model holding the accumulated rules (proofs for ModelHist.v). *)
From Coq Require Import List Bool Arith Lia.
From QV Require Import C19.Model C19.ModelFixed C19.ModelHist.
Import ListNotations.

Lemma okey_eqb_eq a b : okey_eqb a b = true <-> a = b.
Proof.
  destruct a as [x|], b as [y|]; simpl; split; intros H; try discriminate; try reflexivity.
  - apply Nat.eqb_eq in H. now subst.
  - injection H as ->. apply Nat.eqb_refl.
Qed.

Lemma okey_eqb_refl a : okey_eqb a a = true.
Proof. now apply okey_eqb_eq. Qed.

(* the invariant: every bucket is the sub-list of the accumulated rules with that key, in order *)
Definition wf (d : nmstate) (rules : list rule) : Prop :=
  forall k, dict_get d k = filter (fun r => okey_eqb (r_key r) k) rules.

Lemma wf_empty : wf [] [].
Proof. intros k. reflexivity. Qed.

Lemma dict_get_append d k r k' :
  dict_get (dict_append d k r) k' = dict_get d k' ++ (if okey_eqb k k' then [r] else []).
Proof.
  induction d as [|[k0 l] t IH]; simpl.
  - destruct (okey_eqb k k'); reflexivity.
  - destruct (okey_eqb k0 k) eqn:E; simpl.
    + apply okey_eqb_eq in E. subst k0.
      destruct (okey_eqb k k'); [reflexivity | now rewrite app_nil_r].
    + destruct (okey_eqb k0 k') eqn:E2; [|exact IH].
      apply okey_eqb_eq in E2. subst k0.
      destruct (okey_eqb k k') eqn:E3; [|now rewrite app_nil_r].
      apply okey_eqb_eq in E3. subst k. now rewrite okey_eqb_refl in E.
Qed.

Lemma filter_snoc {A} (f : A -> bool) l x : filter f (l ++ [x]) = filter f l ++ (if f x then [x] else []).
Proof. induction l as [|a l IH]; simpl; [reflexivity|]. rewrite IH. now destruct (f a). Qed.

Lemma wf_add d rules r : wf d rules -> wf (nm_add d r) (rules ++ [r]).
Proof.
  intros H k. unfold nm_add. now rewrite dict_get_append, filter_snoc, H.
Qed.

Lemma dict_get_snoc_empty d k k' : dict_get (d ++ [(k, [])]) k' = dict_get d k'.
Proof.
  induction d as [|[k0 l] t IH]; simpl; [now destruct (okey_eqb k k')|].
  now destruct (okey_eqb k0 k').
Qed.

Lemma dict_get_touch d k k' : dict_get (nm_touch d k) k' = dict_get d k'.
Proof. unfold nm_touch. destruct (dict_has d k); [reflexivity | apply dict_get_snoc_empty]. Qed.

Lemma wf_touch d rules k : wf d rules -> wf (nm_touch d k) rules.
Proof. intros H k'. now rewrite dict_get_touch. Qed.

Lemma wf_touch_all c : forall d rules, wf d rules -> wf (nm_touch_all d c) rules.
Proof.
  unfold nm_touch_all. induction c as [|g c IH]; intros d rules H; simpl; [exact H|].
  apply IH. unfold nm_touch_gate. destruct (g_kind g); repeat apply wf_touch; exact H.
Qed.

Lemma filter_ext' {A} (f g : A -> bool) l : (forall x, f x = g x) -> filter f l = filter g l.
Proof. intros E. induction l as [|a l IH]; simpl; [reflexivity|]. now rewrite E, IH. Qed.

(* the dictionary read of apply = the rule lookup of the flat model *)
Lemma nm_lookup_wf d rules g : wf d rules -> nm_lookup d g = lookup rules g.
Proof.
  intros H. unfold nm_lookup, lookup. rewrite !H.
  assert (E1 : filter (fun r => okey_eqb (r_key r) (Some (g_cls g))) rules = filter (key_is (g_cls g)) rules).
  { apply filter_ext'. intros r. unfold key_is. now destruct (r_key r). }
  rewrite E1. reflexivity.
Qed.

Lemma fold_left_ext' {A B} (f g : A -> B -> A) l : (forall a b, f a b = g a b) -> forall a, fold_left f l a = fold_left g l a.
Proof. intros E. induction l as [|b l IH]; intros a; simpl; [reflexivity|]. now rewrite E, IH. Qed.

Lemma apply2_l_ext lk1 lk2 coll0 c : (forall g, lk1 g = lk2 g) -> apply2_l lk1 coll0 c = apply2_l lk2 coll0 c.
Proof.
  intros E. unfold apply2_l. f_equal. apply fold_left_ext'. intros st g. unfold step2_l. now rewrite E.
Qed.

Lemma apply2_l_lookup rules coll0 c : apply2_l (lookup rules) coll0 c = apply2 rules coll0 c.
Proof. reflexivity. Qed.

Lemma nm_apply_wf d rules coll0 c : wf d rules -> nm_apply d coll0 c = apply2 rules coll0 c.
Proof.
  intros H. unfold nm_apply. rewrite <- apply2_l_lookup. apply apply2_l_ext. intros g. now apply nm_lookup_wf.
Qed.

Lemma run_hist_fresh_gen ops : forall d acc, wf d acc -> run_hist d ops = fresh_hist acc ops.
Proof.
  induction ops as [|[r|k c] ops IH]; intros d acc H; simpl.
  - reflexivity.
  - apply IH. now apply wf_add.
  - f_equal; [now apply nm_apply_wf | apply IH; now apply wf_touch_all].
Qed.

Theorem run_hist_fresh ops : run_hist [] ops = fresh_hist [] ops.
Proof. apply run_hist_fresh_gen, wf_empty. Qed.

(* apply is a function of the accumulated rule list and the circuit only: two objects with the same added rules
   (whatever was applied in between) give the same output *)
Fixpoint added (ops : list hop) : list rule :=
  match ops with [] => [] | HAdd r :: t => r :: added t | HApply _ _ :: t => added t end.

Lemma fresh_hist_last acc ops k c :
  last (fresh_hist acc (ops ++ [HApply k c])) None = apply2 (acc ++ added ops) k c.
Proof.
  revert acc. induction ops as [|[r|k' c'] ops IH]; intros acc; simpl.
  - now rewrite app_nil_r.
  - rewrite IH, <- app_assoc. reflexivity.
  - rewrite <- IH. destruct (fresh_hist acc (ops ++ [HApply k c])) eqn:E; [|reflexivity].
    destruct ops; simpl in E; [discriminate|]. destruct h; simpl in E.
    + exfalso. clear IH. revert E. generalize (acc ++ [r]). induction ops as [|[r'|k'' c''] ops IH']; intros a; simpl; try discriminate.
      apply IH'.
    + discriminate.
Qed.

Theorem apply_after_history ops k c :
  last (run_hist [] (ops ++ [HApply k c])) None = apply2 (added ops) k c.
Proof. rewrite run_hist_fresh. apply fresh_hist_last. Qed.

(* the counter-model with a per-class cache invalidated for the rule's own key only *)
Definition hist_witness : list hop :=
  [HAdd (mkRule (Some 0) [] (EPauli 0) None);
   HApply [] [mkGate 0 0 KU [0] 0];
   HAdd (mkRule None [] (EDepol 1) None);
   HApply [] [mkGate 0 0 KU [0] 0]].

Lemma cached_hist_differs : run_hist_cached [] [] hist_witness <> fresh_hist [] hist_witness.
Proof. intros H. vm_compute in H. discriminate H. Qed.
