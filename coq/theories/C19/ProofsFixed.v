(* C19/ProofsFixed.v : the repaired NoiseModel.apply (ModelFixed.v) meets the property at FULL strength:
   its queue is exactly spec_apply, for all circuits and all rule lists, and it raises no KeyError on any
   circuit that could be built in the first place. *)
From Coq Require Import List Bool Arith Lia.
From QV Require Import C19.Model C19.Proofs C19.ModelFixed.
Import ListNotations.

Lemma add_plain_queue it st : s_queue (add_plain it st) = it :: s_queue st.
Proof. reflexivity. Qed.

Lemma add_items_queue : forall its st, s_queue (add_items its st) = rev its ++ s_queue st.
Proof.
  unfold add_items. induction its as [|it its IH]; intros st; simpl; [reflexivity|].
  rewrite IH, add_plain_queue, <- app_assoc. reflexivity.
Qed.

Lemma add_gate_queue g st st' : add_gate g st = Some st' -> s_queue st' = Orig g :: s_queue st.
Proof.
  unfold add_gate, add_meas. destruct (g_kind g); try (intros H; injection H as <-; reflexivity).
  destruct (existsb _ _); [discriminate|]. destruct (mem _ _); intros H; injection H as <-; reflexivity.
Qed.

Lemma sel_items_block rules g :
  sel_items true rules g ++ [Orig g] ++ sel_items false rules g = spec_block rules g.
Proof.
  unfold sel_items, spec_block, isKMb, prescribed_sel, prescribed. destruct (g_kind g).
  - (* ordinary gate: nothing before *)
    assert (E1 : flat_map (fun r => if fires r g && Bool.eqb (is_readout (r_err r) && false) true
                                   then chans_of (r_err r) (eff_qubits r g) else []) (lookup rules g) = []).
    { induction (lookup rules g) as [|r L IH]; [reflexivity|]. simpl.
      rewrite andb_false_r. simpl. rewrite andb_false_r. exact IH. }
    rewrite E1. simpl. f_equal. apply flat_map_ext. intros r. rewrite andb_false_r. simpl. now rewrite andb_true_r.
  - f_equal; [|f_equal]; apply flat_map_ext; intros r; now rewrite andb_true_r.
  - assert (E1 : flat_map (fun r => if fires r g && Bool.eqb (is_readout (r_err r) && false) true
                                   then chans_of (r_err r) (eff_qubits r g) else []) (lookup rules g) = []).
    { induction (lookup rules g) as [|r L IH]; [reflexivity|]. simpl.
      rewrite andb_false_r. simpl. rewrite andb_false_r. exact IH. }
    rewrite E1. simpl. f_equal. apply flat_map_ext. intros r. rewrite andb_false_r. simpl. now rewrite andb_true_r.
Qed.

Lemma step2_queue rules s g s' :
  step2 rules (Some s) g = Some s' -> s_queue s' = rev (spec_block rules g) ++ s_queue s.
Proof.
  unfold step2. simpl.
  destruct (add_gate g (add_items (sel_items true rules g) s)) as [s2|] eqn:E; [|discriminate].
  simpl. intros H. injection H as <-.
  rewrite add_items_queue, (add_gate_queue _ _ _ E), add_items_queue.
  rewrite <- sel_items_block, !rev_app_distr. simpl. rewrite <- !app_assoc. reflexivity.
Qed.

Lemma step2_none rules g : step2 rules None g = None.
Proof. reflexivity. Qed.

Lemma fold_step2_none rules c : fold_left (step2 rules) c None = None.
Proof. induction c; simpl; auto. Qed.

Lemma apply2_queue_gen rules : forall c s s',
  fold_left (step2 rules) c (Some s) = Some s' -> s_queue s' = rev (spec_apply rules c) ++ s_queue s.
Proof.
  induction c as [|g c IH]; intros s s' H; cbn [fold_left] in H.
  - injection H as <-. reflexivity.
  - destruct (step2 rules (Some s) g) as [s1|] eqn:E; [|now rewrite fold_step2_none in H].
    rewrite (IH _ _ H), (step2_queue _ _ _ _ E). unfold spec_apply. simpl.
    rewrite rev_app_distr, <- app_assoc. reflexivity.
Qed.

(* FULL STRENGTH: whatever the rules and the circuit, the output is what the property prescribes *)
Theorem apply2_exact rules coll0 c out : apply2 rules coll0 c = Some out -> out = spec_apply rules c.
Proof.
  unfold apply2, apply2_st. destruct (fold_left _ _ _) as [s|] eqn:E; [|discriminate].
  intros H. injection H as <-. rewrite (apply2_queue_gen _ _ _ _ E). simpl.
  now rewrite app_nil_r, rev_involutive.
Qed.

Theorem apply2_skeleton rules coll0 c out : apply2 rules coll0 c = Some out -> erase out = c.
Proof. intros H. rewrite (apply2_exact _ _ _ _ H). apply erase_spec_apply. Qed.

(* ------------------------------------------------------------------ no KeyError that the input did not already have *)
(* P: state of the plain construction of the circuit; Q: state of the noisy construction *)
Definition dominated (P Q : cstate) : Prop :=
  incl (s_meas Q) (s_meas P) /\
  incl (s_coll P) (s_coll Q) /\
  (forall m, In m (s_meas P) -> In m (s_meas Q) \/ In (g_uid m) (s_coll Q)).

Lemma mem_In' x l : mem x l = true <-> In x l.
Proof. apply mem_In. Qed.

Lemma dominated_add_plain_Q it P Q : dominated P Q -> dominated P (add_plain it Q).
Proof.
  intros [A [B C]]. unfold add_plain. repeat split; simpl.
  - intros m Hm. apply filter_In in Hm as [Hm _]. now apply A.
  - intros u Hu. apply in_or_app. right. now apply B.
  - intros m Hm. destruct (C m Hm) as [H|H].
    + destruct (intersects (g_qubits m) (item_qubits it)) eqn:I.
      * right. apply in_or_app. left. apply in_map. apply filter_In. now split.
      * left. apply filter_In. split; [exact H | now rewrite I].
    + right. apply in_or_app. now right.
Qed.

Lemma dominated_add_items_Q its : forall P Q, dominated P Q -> dominated P (add_items its Q).
Proof.
  unfold add_items. induction its as [|it its IH]; intros P Q D; simpl; [exact D|].
  apply IH. now apply dominated_add_plain_Q.
Qed.

Lemma dominated_add_plain_both it P Q : dominated P Q -> dominated (add_plain it P) (add_plain it Q).
Proof.
  intros [A [B C]]. unfold add_plain. repeat split; simpl.
  - intros m Hm. apply filter_In in Hm as [Hm1 Hm2]. apply filter_In. split; [now apply A | exact Hm2].
  - intros u Hu. apply in_app_or in Hu as [Hu|Hu].
    + apply in_map_iff in Hu as [m [<- Hm]]. apply filter_In in Hm as [Hm1 Hm2].
      destruct (C m Hm1) as [H|H].
      * apply in_or_app. left. apply in_map. apply filter_In. now split.
      * apply in_or_app. now right.
    + apply in_or_app. right. now apply B.
  - intros m Hm. apply filter_In in Hm as [Hm1 Hm2]. destruct (C m Hm1) as [H|H].
    + left. apply filter_In. now split.
    + right. apply in_or_app. now right.
Qed.

Lemma dominated_add_gate g P Q P' :
  dominated P Q -> add_gate g P = Some P' -> exists Q', add_gate g Q = Some Q' /\ dominated P' Q'.
Proof.
  intros D H. unfold add_gate in *. destruct (g_kind g) eqn:K.
  - injection H as <-. eexists. split; [reflexivity|]. now apply dominated_add_plain_both.
  - destruct D as [A [B C]]. unfold add_meas in *.
    destruct (existsb (fun m => g_reg m =? g_reg g) (s_meas P)) eqn:EP; [discriminate|].
    assert (EQ : existsb (fun m => g_reg m =? g_reg g) (s_meas Q) = false).
    { destruct (existsb _ (s_meas Q)) eqn:E; [|reflexivity]. apply existsb_exists in E as [m [Hm E]].
      assert (X : existsb (fun m => g_reg m =? g_reg g) (s_meas P) = true)
        by (apply existsb_exists; exists m; split; [now apply A | exact E]). congruence. }
    rewrite EQ.
    destruct (mem (g_uid g) (s_coll P)) eqn:MP.
    + injection H as <-. apply mem_In' in MP. apply B in MP. apply mem_In' in MP. rewrite MP.
      eexists. split; [reflexivity|]. repeat split; simpl; assumption.
    + injection H as <-. destruct (mem (g_uid g) (s_coll Q)) eqn:MQ.
      * eexists. split; [reflexivity|]. repeat split; simpl.
        -- intros m Hm. apply in_or_app. left. now apply A.
        -- exact B.
        -- intros m Hm. apply in_app_or in Hm as [Hm|[<-|[]]]; [now apply C|]. right. now apply mem_In'.
      * eexists. split; [reflexivity|]. repeat split; simpl.
        -- intros m Hm. apply in_app_or in Hm as [Hm|Hm]; apply in_or_app; [left; now apply A | now right].
        -- exact B.
        -- intros m Hm. apply in_app_or in Hm as [Hm|[<-|[]]].
           ++ destruct (C m Hm); [left; apply in_or_app; now left | now right].
           ++ left. apply in_or_app. right. now left.
  - injection H as <-. eexists. split; [reflexivity|]. now apply dominated_add_plain_both.
Qed.

Lemma apply2_total_gen rules : forall c P Q P',
  dominated P Q ->
  fold_left (fun st g => obind st (add_gate g)) c (Some P) = Some P' ->
  exists Q', fold_left (step2 rules) c (Some Q) = Some Q'.
Proof.
  induction c as [|g c IH]; intros P Q P' D H; cbn [fold_left obind] in *.
  - eexists. reflexivity.
  - destruct (add_gate g P) as [P1|] eqn:E.
    2:{ exfalso. clear -H. induction c as [|g' c IHc]; cbn [fold_left obind] in H; [discriminate | auto]. }
    destruct (dominated_add_gate g P (add_items (sel_items true rules g) Q) P1
                (dominated_add_items_Q _ _ _ D) E) as [Q1 [EQ D1]].
    assert (S : step2 rules (Some Q) g = Some (add_items (sel_items false rules g) Q1))
      by (unfold step2; cbn [obind]; rewrite EQ; reflexivity).
    rewrite S. apply (IH P1 _ P' (dominated_add_items_Q _ _ _ D1) H).
Qed.

Theorem apply2_total rules coll0 c :
  build_st coll0 c <> None -> apply2 rules coll0 c = Some (spec_apply rules c).
Proof.
  unfold build_st. intros H. destruct (fold_left _ c (Some (mkSt [] [] coll0))) as [P'|] eqn:E; [|congruence].
  destruct (apply2_total_gen rules c (mkSt [] [] coll0) (mkSt [] [] coll0) P') as [Q' EQ].
  - split; [apply incl_refl | split; [apply incl_refl | intros m []]].
  - exact E.
  - assert (A : apply2 rules coll0 c = Some (rev (s_queue Q'))) by (unfold apply2, apply2_st; now rewrite EQ).
    rewrite A. f_equal. now apply (apply2_exact rules coll0 c).
Qed.
