(* C19/ModelHist.v : the NoiseModel OBJECT and its history (executable definitions only).

   noise.py:  self.errors = collections.defaultdict(list)
              add(error, gate, qubits, conditions):  self.errors[gate].append((conditions, error, qubits))
              apply(circuit):  for every gate  errors_list = self.errors[cls] (+ self.errors[None] for ordinary gates)

   [nmstate] is that dictionary: buckets in insertion order of their keys, rules in insertion order
   inside a bucket.  Reading a missing key of a defaultdict CREATES an empty bucket, so [apply] does change the
   object ([nm_touch]); that change must not be observable.  [run_hist] executes a history of add / apply
   operations on ONE object; [fresh_hist] is the reference: every apply is done by a freshly built model that
   holds the rules added so far (ModelFixed.apply2 on the accumulated flat rule list). *)
From Coq Require Import List Bool Arith.
From QV Require Import C19.Model C19.ModelFixed.
Import ListNotations.

Definition okey_eqb (a b : option nat) : bool :=
  match a, b with
  | None, None => true
  | Some x, Some y => Nat.eqb x y
  | _, _ => false
  end.

Definition nmstate := list (option nat * list rule).

Fixpoint dict_get (d : nmstate) (k : option nat) : list rule :=
  match d with
  | [] => []
  | (k', l) :: t => if okey_eqb k' k then l else dict_get t k
  end.

Fixpoint dict_has (d : nmstate) (k : option nat) : bool :=
  match d with
  | [] => false
  | (k', _) :: t => okey_eqb k' k || dict_has t k
  end.

(* self.errors[k].append(r) *)
Fixpoint dict_append (d : nmstate) (k : option nat) (r : rule) : nmstate :=
  match d with
  | [] => [(k, [r])]
  | (k', l) :: t => if okey_eqb k' k then (k', l ++ [r]) :: t else (k', l) :: dict_append t k r
  end.

(* reading self.errors[k] of the defaultdict *)
Definition nm_touch (d : nmstate) (k : option nat) : nmstate :=
  if dict_has d k then d else d ++ [(k, [])].

Definition nm_add (d : nmstate) (r : rule) : nmstate := dict_append d (r_key r) r.

(* errors_list of apply, read from the dictionary *)
Definition nm_lookup (d : nmstate) (g : gate) : list rule :=
  dict_get d (Some (g_cls g)) ++ match g_kind g with KU => dict_get d None | _ => [] end.

(* the keys apply reads for one gate / for a circuit *)
Definition nm_touch_gate (d : nmstate) (g : gate) : nmstate :=
  let d1 := nm_touch d (Some (g_cls g)) in
  match g_kind g with KU => nm_touch d1 None | _ => d1 end.
Definition nm_touch_all (d : nmstate) (c : list gate) : nmstate := fold_left nm_touch_gate c d.

(* ModelFixed.apply2 with the rule lookup as a parameter *)
Definition sel_of (before : bool) (L : list rule) (g : gate) : list item :=
  flat_map (fun r => if fires r g && Bool.eqb (is_readout (r_err r) && isKMb g) before
                     then chans_of (r_err r) (eff_qubits r g) else []) L.

Definition step2_l (lk : gate -> list rule) (st : option cstate) (g : gate) : option cstate :=
  obind st (fun s =>
    obind (add_gate g (add_items (sel_of true (lk g) g) s)) (fun s2 =>
      Some (add_items (sel_of false (lk g) g) s2))).

Definition apply2_l (lk : gate -> list rule) (coll0 : list nat) (c : list gate) : option (list item) :=
  option_map (fun s => rev (s_queue s)) (fold_left (step2_l lk) c (Some (mkSt [] [] coll0))).

(* NoiseModel.apply on the object with dictionary d *)
Definition nm_apply (d : nmstate) (coll0 : list nat) (c : list gate) : option (list item) :=
  apply2_l (nm_lookup d) coll0 c.

Inductive hop :=
| HAdd (r : rule)                               (* model.add(...) *)
| HApply (coll0 : list nat) (c : list gate).    (* model.apply(circuit) *)

(* one long-lived object *)
Fixpoint run_hist (d : nmstate) (ops : list hop) : list (option (list item)) :=
  match ops with
  | [] => []
  | HAdd r :: t => run_hist (nm_add d r) t
  | HApply k c :: t => nm_apply d k c :: run_hist (nm_touch_all d c) t
  end.

(* a fresh model per apply, holding the rules added so far *)
Fixpoint fresh_hist (acc : list rule) (ops : list hop) : list (option (list item)) :=
  match ops with
  | [] => []
  | HAdd r :: t => fresh_hist (acc ++ [r]) t
  | HApply k c :: t => apply2 acc k c :: fresh_hist acc t
  end.

(* the defect class "memoised rule list with incomplete invalidation", as an executable counter-model:
   a per-class cache filled by apply and cleared by add for the rule's own key only *)
Definition cache := list (nat * list rule).
Fixpoint cache_get (m : cache) (k : nat) : option (list rule) :=
  match m with [] => None | (k', l) :: t => if Nat.eqb k' k then Some l else cache_get t k end.
Definition cache_drop (m : cache) (k : option nat) : cache :=
  match k with None => m | Some k => filter (fun e => negb (Nat.eqb (fst e) k)) m end.
Definition cached_lookup (d : nmstate) (m : cache) (g : gate) : list rule :=
  match cache_get m (g_cls g) with Some l => l | None => nm_lookup d g end.
Definition cache_fill (d : nmstate) (m : cache) (c : list gate) : cache :=
  fold_left (fun m g => match cache_get m (g_cls g) with Some _ => m | None => (g_cls g, nm_lookup d g) :: m end) c m.
Fixpoint run_hist_cached (d : nmstate) (m : cache) (ops : list hop) : list (option (list item)) :=
  match ops with
  | [] => []
  | HAdd r :: t => run_hist_cached (nm_add d r) (cache_drop m (r_key r)) t
  | HApply k c :: t => apply2_l (cached_lookup d (cache_fill d m c)) k c :: run_hist_cached d (cache_fill d m c) t
  end.
