(* C19/ModelFixed.v : model of the REPAIRED NoiseModel.apply (before / after lists, the gate added exactly once):

        before, after = [], []
        for conditions, error, qubits in errors_list:  ... channels of a firing rule go to `before` when the error is a
                                                        ReadoutError and the gate is a measurement, else to `after`
        noisy_circuit.add(before); noisy_circuit.add(gate); noisy_circuit.add(after)

   The Circuit.add bookkeeping (measurement list, collapse flags, register-name KeyError) is the one of Model.v.
   With the second patch (a fresh copy of every M gate is added) the collapse flags tracked here belong to the
   copies: [coll0] is then the list of measurements constructed with collapse=True, and the input circuit cannot
   be mutated at all. *)
From Coq Require Import List Bool Arith Lia.
From QV Require Import C19.Model.
Import ListNotations.

Definition isKMb (g : gate) : bool := match g_kind g with KM => true | _ => false end.

Definition sel_items (before : bool) (rules : list rule) (g : gate) : list item :=
  flat_map (fun r => if fires r g && Bool.eqb (is_readout (r_err r) && isKMb g) before
                     then chans_of (r_err r) (eff_qubits r g) else []) (lookup rules g).

Definition step2 (rules : list rule) (st : option cstate) (g : gate) : option cstate :=
  obind st (fun s =>
    obind (add_gate g (add_items (sel_items true rules g) s)) (fun s2 =>
      Some (add_items (sel_items false rules g) s2))).

Definition apply2_st (rules : list rule) (coll0 : list nat) (c : list gate) : option cstate :=
  fold_left (step2 rules) c (Some (mkSt [] [] coll0)).

Definition apply2 (rules : list rule) (coll0 : list nat) (c : list gate) : option (list item) :=
  option_map (fun s => rev (s_queue s)) (apply2_st rules coll0 c).

(* building the input circuit itself: Circuit.add of every gate, no noise *)
Definition build_st (coll0 : list nat) (c : list gate) : option cstate :=
  fold_left (fun st g => obind st (add_gate g)) c (Some (mkSt [] [] coll0)).
