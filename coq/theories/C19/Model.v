(* C19/Model.v : executable model of qibo's noise attachment.

   - [apply]            : noise.py  NoiseModel.apply  (with the bookkeeping of Circuit.add that it
                          depends on: list of non-collapsing measurements, collapse flags of the
                          *shared* M gate objects, register-name clash = KeyError)
   - [with_pauli_noise] : models/circuit.py  Circuit.with_pauli_noise / _check_noise_map
   - [cond_qubits] ...  : noise.py _Conditions
   - [ibmq_rules]       : noise.py IBMQNoiseModel.from_dict as a rule-list builder

   No proofs in this file.  Gates are abstract: identity (uid = position of the object in the
   input queue), class tag, kind, qubits (= gate.qubits, controls first), register name.
   Parameters of gates and channels are opaque tags ([c_opts] is an index into a table the
   harness keeps).

   Out of scope of the model (the real code raises there, or the behaviour depends on CPython's
   set iteration order): channel-constructor argument validation, qubit ids >= 8 inside a rule
   with an explicit qubit tuple (tuple(set & set) is ascending only for small ints). *)
From Coq Require Import List Bool Arith QArith Lia.
Import ListNotations.
Local Close Scope Q_scope.
Local Open Scope nat_scope.

Inductive kind := KU | KM | KC.   (* ordinary gate | measurement gate M | channel *)

Record gate := mkGate {
  g_uid : nat;            (* identity of the Python object *)
  g_cls : nat;            (* class tag: rules are keyed by exact class *)
  g_kind : kind;
  g_qubits : list nat;    (* gate.qubits *)
  g_reg : nat             (* register name (measurements only) *)
}.

Inductive ctype := CPauli | CDepol | CThermal | CAmp | CPhase | CReset | CReadout | CUnitary | CKraus.

Record chan := mkChan { c_type : ctype; c_qubits : list nat; c_opts : nat }.

Inductive err :=
| EPauli (o : nat) | EDepol (o : nat) | EThermal (o : nat) | EAmp (o : nat) | EPhase (o : nat)
| EReset (o : nat) | EReadout (o : nat)
| EUnitary (k : nat) (o : nat)     (* unitaries of rank 2^k *)
| EKraus (k : nat) (o : nat)
| ECustom (ch : gate).             (* CustomError(channel): the user's channel object *)

Record rule := mkRule {
  r_key : option nat;               (* gate class or None *)
  r_conds : list (gate -> bool);    (* conditions (None = []) : opaque predicates on the gate *)
  r_err : err;
  r_qubits : option (list nat)      (* qubits argument of NoiseModel.add, as given *)
}.

Inductive item :=
| Orig (g : gate)            (* a gate object of the input circuit *)
| Ins (c : chan)             (* a channel created by apply *)
| InsCustom (ch : gate).     (* the channel object of a CustomError *)

(* ---------- small list utilities *)
Definition mem (x : nat) (l : list nat) : bool := existsb (Nat.eqb x) l.
Fixpoint leqb (a b : list nat) : bool :=
  match a, b with
  | [], [] => true
  | x :: a', y :: b' => Nat.eqb x y && leqb a' b'
  | _, _ => false
  end.
Definition intersects (a b : list nat) : bool := existsb (fun x => mem x b) a.
Definition is_nil {A} (l : list A) : bool := match l with [] => true | _ => false end.
Definition is_none {A} (o : option A) : bool := match o with None => true | _ => false end.

(* tuple(set(gq) & set(rq)) : ascending for small non-negative ints *)
Definition inter_sorted (gq rq : list nat) : list nat :=
  filter (fun q => mem q gq && mem q rq) (seq 0 (S (list_max gq))).

(* itertools.combinations(l, k) *)
Fixpoint combs (k : nat) (l : list nat) : list (list nat) :=
  match k with
  | O => [[]]
  | S k' => match l with
            | [] => []
            | x :: l' => map (cons x) (combs k' l') ++ combs k l'
            end
  end.

(* ---------- the part of Circuit.add that apply depends on *)
Record cstate := mkSt {
  s_queue : list item;    (* reversed *)
  s_meas : list gate;     (* circuit.measurements : the non-collapsing M gates, in order *)
  s_coll : list nat       (* uids of the M objects whose .collapse is True *)
}.

Definition item_qubits (it : item) : list nat :=
  match it with Orig g => g_qubits g | Ins c => c_qubits c | InsCustom ch => g_qubits ch end.

(* any non-M gate: appended; every listed measurement that shares a qubit becomes collapsing *)
Definition add_plain (it : item) (st : cstate) : cstate :=
  let qs := item_qubits it in
  let hit := filter (fun m => intersects (g_qubits m) qs) (s_meas st) in
  mkSt (it :: s_queue st)
       (filter (fun m => negb (intersects (g_qubits m) qs)) (s_meas st))
       (map g_uid hit ++ s_coll st).

(* M gate: KeyError when a listed measurement has the same register name *)
Definition add_meas (g : gate) (st : cstate) : option cstate :=
  if existsb (fun m => Nat.eqb (g_reg m) (g_reg g)) (s_meas st) then None
  else if mem (g_uid g) (s_coll st)
       then Some (mkSt (Orig g :: s_queue st) (s_meas st) (s_coll st))
       else Some (mkSt (Orig g :: s_queue st) (s_meas st ++ [g]) (s_coll st)).

Definition add_gate (g : gate) (st : cstate) : option cstate :=
  match g_kind g with KM => add_meas g st | _ => Some (add_plain (Orig g) st) end.

Definition add_items (its : list item) (st : cstate) : cstate :=
  fold_left (fun s it => add_plain it s) its st.

(* ---------- NoiseModel.apply *)
Definition is_readout (e : err) : bool := match e with EReadout _ => true | _ => false end.
Definition key_is (k : nat) (r : rule) : bool :=
  match r_key r with Some k' => Nat.eqb k' k | None => false end.

(* errors_list *)
Definition lookup (rules : list rule) (g : gate) : list rule :=
  filter (key_is (g_cls g)) rules ++
  match g_kind g with KU => filter (fun r => is_none (r_key r)) rules | _ => [] end.

Definition eff_qubits (r : rule) (g : gate) : list nat :=
  match r_qubits r with None => g_qubits g | Some rq => inter_sorted (g_qubits g) rq end.

Definition fires (r : rule) (g : gate) : bool :=
  forallb (fun c => c g) (r_conds r) && negb (is_nil (eff_qubits r g)).

Definition chans_of (e : err) (qs : list nat) : list item :=
  match e with
  | ECustom ch => [InsCustom ch]
  | EThermal o => map (fun q => Ins (mkChan CThermal [q] o)) qs
  | EAmp o => map (fun q => Ins (mkChan CAmp [q] o)) qs
  | EPhase o => map (fun q => Ins (mkChan CPhase [q] o)) qs
  | EReset o => map (fun q => Ins (mkChan CReset [q] o)) qs
  | EReadout o => [Ins (mkChan CReadout qs o)]
  | EPauli o => map (fun q => Ins (mkChan CPauli [q] o)) qs
  | EDepol o => [Ins (mkChan CDepol qs o)]
  | EUnitary k o => map (fun c => Ins (mkChan CUnitary c o)) (combs k qs)
  | EKraus k o => map (fun c => Ins (mkChan CKraus c o)) (combs k qs)
  end.

Definition obind {A B} (o : option A) (f : A -> option B) : option B :=
  match o with Some a => f a | None => None end.

Definition rule_step (g : gate) (st : option cstate) (r : rule) : option cstate :=
  if fires r g then
    obind st (fun s =>
      let s' := add_items (chans_of (r_err r) (eff_qubits r g)) s in
      if is_readout (r_err r) then add_gate g s' else Some s')
  else st.

Fixpoint opt_mem (x : option (list nat)) (l : list (option (list nat))) : bool :=
  match l with
  | [] => false
  | y :: l' => (match x, y with
                | Some a, Some b => leqb a b
                | None, None => true
                | _, _ => false
                end) || opt_mem x l'
  end.

Definition step (rules : list rule) (st : option cstate) (g : gate) : option cstate :=
  let L := lookup rules g in
  let st1 := if existsb (fun r => is_readout (r_err r)) L then st else obind st (add_gate g) in
  let st2 := fold_left (rule_step g) L st1 in
  match g_kind g with
  | KM =>
      let roq := map r_qubits (filter (fun r => is_readout (r_err r)) L) in
      obind st2 (fun s =>
        if negb (opt_mem (Some (g_qubits g)) roq)
           && negb (existsb (fun m => Nat.eqb (g_reg m) (g_reg g)) (s_meas s))
        then add_gate g s else Some s)
  | _ => st2
  end.

(* coll0 : uids of the input M objects with collapse=True when apply is called *)
Definition apply_st (rules : list rule) (coll0 : list nat) (c : list gate) : option cstate :=
  fold_left (step rules) c (Some (mkSt [] [] coll0)).

Definition apply (rules : list rule) (coll0 : list nat) (c : list gate) : option (list item) :=
  option_map (fun s => rev (s_queue s)) (apply_st rules coll0 c).

Definition erase (l : list item) : list gate :=
  flat_map (fun it => match it with Orig g => [g] | _ => [] end) l.

(* ---------- what the property prescribes (declarative) *)
Definition prescribed (rules : list rule) (g : gate) : list item :=
  flat_map (fun r => if fires r g then chans_of (r_err r) (eff_qubits r g) else []) (lookup rules g).

(* the prescribed channels of the readout rules / of the other rules *)
Definition prescribed_sel (ro : bool) (rules : list rule) (g : gate) : list item :=
  flat_map (fun r => if fires r g && Bool.eqb (is_readout (r_err r)) ro
                     then chans_of (r_err r) (eff_qubits r g) else []) (lookup rules g).

(* a gate is followed by its channels; a measurement is PRECEDED by its readout channels *)
Definition spec_block (rules : list rule) (g : gate) : list item :=
  match g_kind g with
  | KM => prescribed_sel true rules g ++ [Orig g] ++ prescribed_sel false rules g
  | _ => Orig g :: prescribed rules g
  end.

Definition spec_apply (rules : list rule) (c : list gate) : list item :=
  flat_map (spec_block rules) c.

(* ---------- inputs on which the implementation is faithful (see Proofs.v) *)
Definition incl_b (a b : list nat) : bool := forallb (fun x => mem x b) a.
Definition custom_local (r : rule) (g : gate) : bool :=
  match r_err r with ECustom ch => negb (fires r g) || incl_b (g_qubits ch) (g_qubits g) | _ => true end.

Definition clean_gate (rules : list rule) (coll0 : list nat) (g : gate) : bool :=
  let L := lookup rules g in
  forallb (fun r => custom_local r g) L &&
  match g_kind g with
  | KM => negb (mem (g_uid g) coll0)
          && forallb (fun r => is_readout (r_err r)) L
          && (match filter (fun r => fires r g) L with
              | [] => negb (opt_mem (Some (g_qubits g)) (map r_qubits L))
              | [_] => true
              | _ => false
              end)
  | _ => forallb (fun r => negb (is_readout (r_err r))) L
  end.

(* measurements are terminal: no later gate touches a measured qubit; distinct register names *)
Fixpoint terminal (c : list gate) : bool :=
  match c with
  | [] => true
  | g :: c' =>
      (match g_kind g with
       | KM => forallb (fun h => negb (intersects (g_qubits g) (g_qubits h))
                                 && negb (match g_kind h with KM => Nat.eqb (g_reg h) (g_reg g) | _ => false end)) c'
       | _ => true
       end) && terminal c'
  end.

Definition clean (rules : list rule) (coll0 : list nat) (c : list gate) : bool :=
  forallb (clean_gate rules coll0) c && terminal c.


(* ---------- which clause of [clean] fails (reason codes used by the harness to explain a
   violation of the property text by a known defect class):
   1 readout rule in the errors_list of a non-measurement gate     2 measurement with collapse=True
   3 non-readout rule in the errors_list of a measurement          4 two or more readout rules fire on one measurement
   5 readout rule(s), none fires, but one names exactly gate.qubits 6 custom channel outside the trigger's qubits
   7 a measured qubit is touched again later / register-name clash *)
Definition diag_gate (rules : list rule) (coll0 : list nat) (g : gate) : list nat :=
  let L := lookup rules g in
  (if forallb (fun r => custom_local r g) L then [] else [6]) ++
  match g_kind g with
  | KM =>
      let RO := filter (fun r => is_readout (r_err r)) L in
      (if mem (g_uid g) coll0 then [2] else []) ++
      (if forallb (fun r => is_readout (r_err r)) L then [] else [3]) ++
      (match filter (fun r => fires r g) RO with
       | [] => if opt_mem (Some (g_qubits g)) (map r_qubits RO) then [5] else []
       | [_] => []
       | _ => [4]
       end)
  | _ => if forallb (fun r => negb (is_readout (r_err r))) L then [] else [1]
  end.
Definition diagnose (rules : list rule) (coll0 : list nat) (c : list gate) : list nat :=
  nodup Nat.eq_dec (flat_map (diag_gate rules coll0) c ++ (if terminal c then [] else [7])).

(* ---------- _Conditions *)
Definition cond_qubits (qs : option (list nat)) (g : gate) : bool :=
  match qs with Some l => leqb (g_qubits g) l | None => false end.
Definition cond_single (g : gate) : bool := Nat.eqb (length (g_qubits g)) 1.
Definition cond_two (g : gate) : bool := Nat.eqb (length (g_qubits g)) 2.

(* ---------- IBMQNoiseModel.from_dict as a rule-list builder
   parameters: scalars or per-qubit dictionaries (association lists in insertion order);
   values are opaque option tags; mcls = class tag of gates.M *)
Inductive sd (K : Type) := Scalar (o : nat) | Dict (d : list (K * nat)).
Arguments Scalar {K}. Arguments Dict {K}.

Definition ibmq_rules (mcls : nat)
    (dep1 : sd nat) (dep2 : sd (list nat))
    (t12 : sum (nat * nat) (list (nat * (nat * nat))))   (* scalar: (tag time1, tag time2); dict: qubit -> *)
    (ro : sd nat) : list rule :=
  (match dep1 with
   | Scalar o => [mkRule None [cond_single] (EDepol o) None]
   | Dict d => map (fun kv => mkRule None [cond_single] (EDepol (snd kv)) (Some [fst kv])) d
   end) ++
  (match dep2 with
   | Scalar o => [mkRule None [cond_two] (EDepol o) None]
   | Dict d => map (fun kv => mkRule None [cond_two; cond_qubits (Some (fst kv))] (EDepol (snd kv)) (Some (fst kv))) d
   end) ++
  (match t12 with
   | inl (o1, o2) => [mkRule None [cond_single] (EThermal o1) None; mkRule None [cond_two] (EThermal o2) None]
   | inr d => flat_map (fun kv => [mkRule None [cond_single] (EThermal (fst (snd kv))) (Some [fst kv]);
                                    mkRule None [cond_two] (EThermal (snd (snd kv))) (Some [fst kv])]) d
   end) ++
  (match ro with
   | Scalar o => [mkRule (Some mcls) [] (EReadout o) None]
   | Dict d => map (fun kv => mkRule (Some mcls) [] (EReadout (snd kv)) (Some [fst kv])) d
   end).

(* ---------- Circuit.with_pauli_noise *)
Definition prow := (nat * list Q)%type.     (* (opts tag, probabilities of the rows) *)
Definition qsum (l : list Q) : Q := fold_right Qplus 0%Q l.
Definition pos_sum (l : list Q) : bool := negb (Qle_bool (qsum l) 0%Q).

Fixpoint assoc (q : nat) (m : list (nat * prow)) : option prow :=
  match m with
  | [] => None
  | (k, v) :: m' => if Nat.eqb k q then Some v else assoc q m'
  end.

(* _check_noise_map: a list of rows is used for every qubit; a dict must have nqubits entries *)
Definition check_noise_map (nq : nat) (m : sum prow (list (nat * prow))) : option (list (nat * prow)) :=
  match m with
  | inl rows => Some (map (fun q => (q, rows)) (seq 0 nq))
  | inr d => if Nat.eqb (length d) nq then Some d else None
  end.

Definition pauli_block (m : list (nat * prow)) (g : gate) : list item :=
  Orig g ::
  match g_kind g with
  | KM => []
  | _ => flat_map (fun q => match assoc q m with
                            | Some (o, ps) => if pos_sum ps then [Ins (mkChan CPauli [q] o)] else []
                            | None => []
                            end) (g_qubits g)
  end.

Definition with_pauli_noise (nq : nat) (m : sum prow (list (nat * prow))) (c : list gate) : option (list item) :=
  obind (check_noise_map nq m) (fun m' =>
    if existsb (fun g => match g_kind g with KC => true | _ => false end) c then None
    else
      (* first pass: noise_gates[i]; second pass: interleave *)
      let noise := map (fun g => tl (pauli_block m' g)) c in
      Some (flat_map (fun gn => Orig (fst gn) :: snd gn) (combine c noise))).

(* ---------- compact printing for the correspondence *)
Definition ctype_code (t : ctype) : nat :=
  match t with CPauli => 1 | CDepol => 2 | CThermal => 3 | CAmp => 4 | CPhase => 5
             | CReset => 6 | CReadout => 7 | CUnitary => 8 | CKraus => 9 end.
Definition item_code (it : item) : nat * list nat * nat :=
  match it with
  | Orig g => (0, [g_uid g], 0)
  | Ins c => (ctype_code (c_type c), c_qubits c, c_opts c)
  | InsCustom ch => (10, [g_uid ch], 0)
  end.
Definition show (o : option (list item)) : option (list (nat * list nat * nat)) :=
  option_map (map item_code) o.
Definition show_st (o : option cstate) : option (list (nat * list nat * nat) * list nat * list nat) :=
  option_map (fun s => (map item_code (rev (s_queue s)), map g_uid (s_meas s), s_coll s)) o.
