(* C08/MCXProofs.v : the multi-controlled X decomposition of C08/MCXModel.v is, for EVERY number of
   controls and every admissible number of borrowed free qubits, the multi-controlled X on all bit
   strings (in particular it restores the borrowed bits whatever their initial values).

   Structure
     1. sorting (isort) is a permutation; everything relevant is permutation invariant;
     2. states as functions nat -> bool ([frun]) and the transfer to bit lists ([run_cx]);
     3. the ladder  W_k = A_k .. A_1 A_0 A_1 .. A_k  xors the prefix AND c_0..c_{j+1} into the
        free bit f_j, for every j <= k, and touches nothing else (Barenco et al., Lemma 7.2);
     4. branch 1 of X.decompose (Top; W; Top; W) is the multi-controlled X;
     5. Lemma 7.3: two half-size gates, each applied twice, borrowing each other's qubits;
     6. the model computes exactly these gate lists; admissibility arithmetic of the two
        recursive calls; fuel 2 suffices. *)
From Coq Require Import List Bool Arith ZArith Lia Permutation.
From QV Require Import C08.Reversible C08.MCXModel.
Import ListNotations.

(* ------------------------------------------------------------------ 1. sorting *)
Lemma insert_perm x l : Permutation (insert x l) (x :: l).
Proof.
  induction l as [|y l IH]; simpl; [reflexivity|].
  destruct (x <=? y); [reflexivity|].
  etransitivity; [apply perm_skip, IH | apply perm_swap].
Qed.

Lemma isort_perm l : Permutation (isort l) l.
Proof.
  induction l as [|x l IH]; simpl; [reflexivity|].
  etransitivity; [apply insert_perm | now apply perm_skip].
Qed.

Lemma forallb_perm {A} (f : A -> bool) l l' : Permutation l l' -> forallb f l = forallb f l'.
Proof.
  induction 1; simpl; try congruence.
  - now rewrite !andb_assoc, (andb_comm (f y) (f x)).
Qed.

Lemma isort_length l : length (isort l) = length l.
Proof. apply Permutation_length, isort_perm. Qed.

Inductive sorted_le : list nat -> Prop :=
| sorted_nil : sorted_le []
| sorted_one x : sorted_le [x]
| sorted_cons x y l : x <= y -> sorted_le (y :: l) -> sorted_le (x :: y :: l).

Lemma insert_sorted x l : sorted_le l -> sorted_le (insert x l).
Proof.
  induction 1 as [|y|y z l Hyz Hs IH]; simpl.
  - constructor.
  - destruct (Nat.leb_spec x y); constructor; try lia; constructor.
  - destruct (Nat.leb_spec x y).
    + constructor; [lia|]. now constructor.
    + simpl in IH. destruct (Nat.leb_spec x z).
      * constructor; [lia|]. constructor; [lia|assumption].
      * constructor; assumption.
Qed.

Lemma isort_sorted l : sorted_le (isort l).
Proof. induction l; simpl; [constructor | now apply insert_sorted]. Qed.

(* ------------------------------------------------------------------ 2. states as functions *)
Definition st := nat -> bool.
Definition upd (s : st) (t : nat) (v : bool) : st := fun k => if k =? t then v else s k.
Definition fapp (g : cx) (s : st) : st :=
  if forallb s (fst g) then upd s (snd g) (negb (s (snd g))) else s.
Definition frun (gs : list cx) (s : st) : st := fold_left (fun s g => fapp g s) gs s.

Lemma fapp_val g s q :
  fapp g s q = if q =? snd g then xorb (s (snd g)) (forallb s (fst g)) else s q.
Proof.
  unfold fapp, upd. destruct (forallb s (fst g)); destruct (Nat.eqb_spec q (snd g)); subst;
    try reflexivity; destruct (s (snd g)); reflexivity.
Qed.

Lemma fapp_other g s q : q <> snd g -> fapp g s q = s q.
Proof. intros H. rewrite fapp_val. destruct (Nat.eqb_spec q (snd g)); congruence. Qed.

Lemma fapp_tgt g s : fapp g s (snd g) = xorb (s (snd g)) (forallb s (fst g)).
Proof. rewrite fapp_val, Nat.eqb_refl. reflexivity. Qed.

Lemma forallb_ext_in {A} (f g : A -> bool) l :
  (forall x, In x l -> f x = g x) -> forallb f l = forallb g l.
Proof.
  induction l as [|x l IH]; simpl; intros H; [reflexivity|].
  rewrite H by now left. rewrite IH; [reflexivity|]. intros; apply H; now right.
Qed.

Lemma forallb_fapp g s l : ~ In (snd g) l -> forallb (fapp g s) l = forallb s l.
Proof.
  intros H. apply forallb_ext_in. intros x Hx. apply fapp_other. intros ->. contradiction.
Qed.

Lemma fapp_ext g s1 s2 : (forall k, s1 k = s2 k) -> forall k, fapp g s1 k = fapp g s2 k.
Proof.
  intros H k. rewrite !fapp_val, !H.
  rewrite (forallb_ext_in s1 s2) by (intros; apply H). reflexivity.
Qed.

Lemma frun_ext gs : forall s1 s2, (forall k, s1 k = s2 k) -> forall k, frun gs s1 k = frun gs s2 k.
Proof.
  induction gs as [|g gs IH]; intros s1 s2 H k; simpl; [apply H|].
  apply IH. now apply fapp_ext.
Qed.

Lemma frun_app g1 g2 s : frun (g1 ++ g2) s = frun g2 (frun g1 s).
Proof. unfold frun. apply fold_left_app. Qed.

Lemma frun_cons g gs s : frun (g :: gs) s = frun gs (fapp g s).
Proof. reflexivity. Qed.

Lemma fapp_perm c c' t s q : Permutation c c' -> fapp (c, t) s q = fapp (c', t) s q.
Proof. intros H. rewrite !fapp_val. simpl. now rewrite (forallb_perm s c c' H). Qed.

(* a sub-circuit that behaves like one gate can be replaced by that gate *)
Lemma frun_equiv_app p g rest :
  (forall s q, frun p s q = fapp g s q) ->
  forall s q, frun (p ++ rest) s q = frun rest (fapp g s) q.
Proof. intros H s q. rewrite frun_app. apply frun_ext. intros k. apply H. Qed.

(* transfer to bit lists *)
Definition getb (b : list bool) : st := fun k => nth k b false.

Lemma flip_length t : forall b, length (flip t b) = length b.
Proof. induction t; intros [|x b]; simpl; auto. Qed.

Lemma flip_same t : forall b, t < length b -> nth t (flip t b) false = negb (nth t b false).
Proof.
  induction t; intros [|x b] H; simpl in *; try lia; [reflexivity|]. apply IHt. lia.
Qed.

Lemma apply_cx_length g b : length (apply_cx g b) = length b.
Proof. unfold apply_cx. destruct (forallb _ _); [apply flip_length | reflexivity]. Qed.

Lemma run_cx_length gs : forall b, length (run_cx gs b) = length b.
Proof.
  induction gs as [|g gs IH]; intros b; simpl; [reflexivity|].
  unfold run_cx in *. simpl. rewrite IH. apply apply_cx_length.
Qed.

Lemma apply_cx_get g b : snd g < length b -> forall q, getb (apply_cx g b) q = fapp g (getb b) q.
Proof.
  intros H q. unfold apply_cx, fapp, getb, upd.
  destruct (forallb _ (fst g)); [|reflexivity].
  destruct (Nat.eqb_spec q (snd g)) as [->|Hq]; [now apply flip_same | now apply flip_other].
Qed.

Lemma run_cx_get gs : forall b, Forall (fun g => snd g < length b) gs ->
  forall q, getb (run_cx gs b) q = frun gs (getb b) q.
Proof.
  induction gs as [|g gs IH]; intros b H q; [reflexivity|].
  inversion H as [|? ? Hg Hgs]; subst.
  change (run_cx (g :: gs) b) with (run_cx gs (apply_cx g b)). rewrite frun_cons.
  rewrite IH.
  - apply frun_ext. intros k. now apply apply_cx_get.
  - rewrite apply_cx_length. assumption.
Qed.

Lemma bits_ext (a b : list bool) :
  length a = length b -> (forall q, getb a q = getb b q) -> a = b.
Proof. intros Hl H. apply (nth_ext a b false false Hl). intros n _. apply H. Qed.

(* function-level correctness + targets inside the register = list-level correctness *)
Lemma frun_to_lists gs c t N :
  (forall s q, frun gs s q = fapp (c, t) s q) ->
  Forall (fun g => snd g < N) gs -> t < N ->
  forall b, length b = N -> run_cx gs b = mcx_spec c t b.
Proof.
  intros H Hg Ht b Hb. apply bits_ext.
  - unfold mcx_spec. now rewrite run_cx_length, apply_cx_length.
  - intros q. unfold mcx_spec. rewrite run_cx_get, apply_cx_get; simpl; subst N; auto.
Qed.

(* ------------------------------------------------------------------ 3. the ladder *)
Lemma firstn_succ_nth {A} (d : A) : forall i l, i < length l -> firstn (S i) l = firstn i l ++ [nth i l d].
Proof.
  induction i; intros [|x l] H; simpl in *; try lia; [reflexivity|].
  f_equal. apply IHi. lia.
Qed.

Lemma forallb_pair (s : st) a b : forallb s (isort [a; b]) = s a && s b.
Proof. rewrite (forallb_perm s _ _ (isort_perm [a; b])). simpl. now rewrite andb_true_r. Qed.

(* AND of the first i controls, by index *)
Fixpoint pand (c : list nat) (s : st) (i : nat) : bool :=
  match i with O => true | S i' => pand c s i' && s (nth i' c 0) end.

Lemma pand_ext c s s' i :
  (forall j, j < i -> s' (nth j c 0) = s (nth j c 0)) -> pand c s' i = pand c s i.
Proof.
  induction i; simpl; intros H; [reflexivity|].
  rewrite IHi by (intros; apply H; lia). rewrite H by lia. reflexivity.
Qed.

Lemma pand_firstn c s i : i <= length c -> pand c s i = forallb s (firstn i c).
Proof.
  induction i; intros H; [reflexivity|].
  rewrite (firstn_succ_nth 0) by lia. rewrite forallb_app. simpl.
  rewrite IHi by lia. now rewrite andb_true_r.
Qed.

Lemma pand_all c s : pand c s (length c) = forallb s c.
Proof. rewrite pand_firstn by lia. now rewrite firstn_all. Qed.

Definition gA (c f : list nat) (j : nat) : cx :=          (* j >= 1 *)
  (isort [nth (j + 1) c 0; nth (j - 1) f 0], nth j f 0).
Definition gA0 (c f : list nat) : cx := (isort [nth 0 c 0; nth 1 c 0], nth 0 f 0).
Fixpoint down (c f : list nat) (k : nat) : list cx :=      (* A_k .. A_1 *)
  match k with O => [] | S k' => gA c f k :: down c f k' end.
Definition ladder (c f : list nat) (k : nat) : list cx := down c f k ++ gA0 c f :: rev (down c f k).

Lemma ladder_S c f k : ladder c f (S k) = gA c f (S k) :: ladder c f k ++ [gA c f (S k)].
Proof. unfold ladder. simpl. rewrite <- app_assoc. reflexivity. Qed.

Section Ladder.
  Variables c f : list nat.
  Hypothesis Hcf : forall i j, i < length c -> j < length f -> nth i c 0 <> nth j f 0.
  Hypothesis Hff : forall i j, i < length f -> j < length f -> nth i f 0 = nth j f 0 -> i = j.

  Lemma ladder_spec k : k + 2 <= length c -> k + 1 <= length f ->
    forall s,
      (forall j, j <= k -> frun (ladder c f k) s (nth j f 0) = xorb (s (nth j f 0)) (pand c s (j + 2)))
      /\ (forall q, (forall j, j <= k -> q <> nth j f 0) -> frun (ladder c f k) s q = s q).
  Proof.
    induction k as [|k IH]; intros Hc Hf s.
    - change (ladder c f 0) with [gA0 c f]. split.
      + intros j Hj. assert (j = 0) by lia. subst j.
        rewrite frun_cons. change (frun [] ?x) with x.
        change (nth 0 f 0) with (snd (gA0 c f)). rewrite fapp_tgt. f_equal.
        unfold gA0. cbn [fst]. rewrite forallb_pair. reflexivity.
      + intros q Hq. rewrite frun_cons. change (frun [] ?x) with x.
        apply fapp_other. cbn [gA0 snd]. apply Hq. lia.
    - destruct (IH ltac:(lia) ltac:(lia) (fapp (gA c f (S k)) s)) as [IHa IHb].
      set (g := gA c f (S k)) in *.
      assert (Hsnd : snd g = nth (S k) f 0) by reflexivity.
      assert (Hfst : forall s', forallb s' (fst g) = s' (nth (k + 2) c 0) && s' (nth k f 0)).
      { intros s'. unfold g, gA. cbn [fst]. rewrite forallb_pair.
        replace (S k + 1) with (k + 2) by lia. replace (S k - 1) with k by lia. reflexivity. }
      (* s1 = fapp g s agrees with s away from f_{k+1} *)
      assert (H1c : forall i, i < length c -> fapp g s (nth i c 0) = s (nth i c 0)).
      { intros i Hi. apply fapp_other. rewrite Hsnd. apply Hcf; lia. }
      assert (H1f : forall j, j <= k -> fapp g s (nth j f 0) = s (nth j f 0)).
      { intros j Hj. apply fapp_other. rewrite Hsnd. intros E. apply Hff in E; lia. }
      assert (H1p : forall i, i <= length c -> pand c (fapp g s) i = pand c s i).
      { intros i Hi. apply pand_ext. intros j Hj. apply H1c. lia. }
      rewrite ladder_S. fold g. split.
      + intros j Hj. rewrite frun_cons, frun_app. simpl frun at 1.
        rewrite fapp_val, Hsnd.
        destruct (Nat.eqb_spec (nth j f 0) (nth (S k) f 0)) as [E|E].
        * apply Hff in E; try lia. subst j.
          rewrite Hfst.
          rewrite (IHb (nth (S k) f 0)) by (intros j Hj' E'; apply Hff in E'; lia).
          rewrite (IHb (nth (k + 2) c 0)) by (intros j Hj'; apply Hcf; lia).
          rewrite (IHa k) by lia.
          rewrite H1c by lia. rewrite (H1f k) by lia. rewrite H1p by lia.
          rewrite <- Hsnd at 1. rewrite fapp_tgt, Hsnd, Hfst.
          replace (S k + 2) with (S (k + 2)) by lia. simpl pand.
          destruct (s (nth (S k) f 0)), (s (nth (k + 2) c 0)), (s (nth k f 0)), (pand c s (k + 2));
            reflexivity.
        * assert (j <= k) by (destruct (Nat.eq_dec j (S k)); [subst; congruence | lia]).
          rewrite (IHa j) by lia. rewrite H1f by lia. rewrite H1p by lia. reflexivity.
      + intros q Hq. rewrite frun_cons, frun_app. simpl frun at 1.
        rewrite fapp_other by (rewrite Hsnd; apply Hq; lia).
        rewrite IHb by (intros; apply Hq; lia).
        apply fapp_other. rewrite Hsnd. apply Hq. lia.
  Qed.

  (* ---------------------------------------------------------------- 4. branch 1 *)
  Lemma bounded_dec q k :
    (exists j, j <= k /\ q = nth j f 0) \/ (forall j, j <= k -> q <> nth j f 0).
  Proof.
    induction k as [|k [[j [Hj E]]|IH]].
    - destruct (Nat.eq_dec q (nth 0 f 0)); [left; exists 0; split; [lia|assumption]|].
      right. intros j Hj. assert (j = 0) by lia. now subst.
    - left. exists j. split; [lia|assumption].
    - destruct (Nat.eq_dec q (nth (S k) f 0)); [left; exists (S k); split; [lia|assumption]|].
      right. intros j Hj. destruct (Nat.eq_dec j (S k)); [now subst|]. apply IH. lia.
  Qed.

  Variable t : nat.
  Hypothesis Htc : forall i, i < length c -> t <> nth i c 0.
  Hypothesis Htf : forall j, j < length f -> t <> nth j f 0.

  Definition top (m : nat) : cx := (isort [nth (m - 1) c 0; nth (m - 3) f 0], t).
  Definition branch1 (m : nat) : list cx :=
    let dg := top m :: ladder c f (m - 3) in dg ++ dg.

  Lemma branch1_spec m : length c = m -> 3 <= m -> m - 2 <= length f ->
    forall s q, frun (branch1 m) s q = fapp (c, t) s q.
  Proof.
    intros Hm H3 Hf s q. unfold branch1.
    set (k := m - 3). set (T := top m).
    assert (HT : snd T = t) by reflexivity.
    assert (HTf : forall s', forallb s' (fst T) = s' (nth (k + 2) c 0) && s' (nth k f 0)).
    { intros s'. unfold T, top. cbn [fst]. rewrite forallb_pair.
      replace (m - 1) with (k + 2) by lia. reflexivity. }
    assert (L : forall s', _) by exact (ladder_spec k ltac:(lia) ltac:(lia)).
    (* one round Top; W *)
    assert (Tc : forall s' i, i < length c -> fapp T s' (nth i c 0) = s' (nth i c 0)).
    { intros s' i Hi. apply fapp_other. rewrite HT. intros E. symmetry in E. now apply Htc in E. }
    assert (Tf : forall s' j, j < length f -> fapp T s' (nth j f 0) = s' (nth j f 0)).
    { intros s' j Hj. apply fapp_other. rewrite HT. intros E. symmetry in E. now apply Htf in E. }
    assert (Tp : forall s' i, i <= length c -> pand c (fapp T s') i = pand c s' i).
    { intros s' i Hi. apply pand_ext. intros j Hj. apply Tc. lia. }
    assert (Wc : forall s' i, i < length c -> frun (ladder c f k) s' (nth i c 0) = s' (nth i c 0)).
    { intros s' i Hi. apply (proj2 (L s')). intros j Hj. apply Hcf; lia. }
    assert (Wp : forall s' i, i <= length c -> pand c (frun (ladder c f k) s') i = pand c s' i).
    { intros s' i Hi. apply pand_ext. intros j Hj. apply Wc. lia. }
    assert (Wt : forall s', frun (ladder c f k) s' t = s' t).
    { intros s'. apply (proj2 (L s')). intros j Hj. apply Htf. lia. }
    assert (Wf : forall s' j, j <= k ->
              frun (ladder c f k) s' (nth j f 0) = xorb (s' (nth j f 0)) (pand c s' (j + 2))).
    { intros s' j Hj. now apply (proj1 (L s')). }
    change ((T :: ladder c f k) ++ T :: ladder c f k) with (T :: ladder c f k ++ T :: ladder c f k).
    rewrite frun_cons, frun_app, frun_cons.
    set (s1 := fapp T s). set (s2 := frun (ladder c f k) s1). set (s3 := fapp T s2).
    rewrite (fapp_val (c, t)). cbn [fst snd].
    destruct (Nat.eqb_spec q t) as [->|Hqt].
    - rewrite Wt. unfold s3. rewrite <- HT at 1. rewrite fapp_tgt, HT, HTf.
      unfold s2 at 1. rewrite Wt. unfold s1 at 1. rewrite <- HT at 1. rewrite fapp_tgt, HT, HTf.
      unfold s2. rewrite Wc by lia. rewrite Wf by lia. unfold s1.
      rewrite Tc by lia. rewrite Tf by lia. rewrite Tp by lia.
      rewrite <- pand_all, Hm. replace (pand c s m) with (pand c s (S (k + 2))) by (f_equal; lia). simpl pand.
      destruct (s t), (s (nth (k + 2) c 0)), (s (nth k f 0)), (pand c s (k + 2)); reflexivity.
    - destruct (bounded_dec q k) as [[j [Hj ->]]|Hq].
      + rewrite Wf by lia. unfold s3. rewrite Tf by lia. rewrite Tp by lia.
        unfold s2. rewrite Wf by lia. rewrite Wp by lia. unfold s1. rewrite Tf by lia.
        rewrite Tp by lia. destruct (s (nth j f 0)), (pand c s (j + 2)); reflexivity.
      + rewrite (proj2 (L s3)) by assumption. unfold s3. rewrite fapp_other by now rewrite HT.
        unfold s2. rewrite (proj2 (L s1)) by assumption. unfold s1. apply fapp_other. now rewrite HT.
  Qed.
End Ladder.
