(* C08/MCXProofs.v : the multi-controlled X decomposition of C08/MCXModel.v is, for EVERY number of
   controls and every admissible number of borrowed free qubits, the multi-controlled X on all bit
   strings (in particular it restores the borrowed bits whatever their initial values).

   Structure
     1. sorting (isort) is a permutation; everything relevant is permutation invariant;
     2. states as functions nat -> bool ([frun]) and the transfer to bit lists ([run_cx]);
     3. the ladder  W_k = A_k .. A_1 A_0 A_1 .. A_k  xors the prefix AND c_0..c_{j+1} into the
        free bit f_j, for every j <= k, and touches nothing else (Barenco et al., Lemma 7.2);
     4. branch 1 of X.decompose (Top; W; Top; W) is the multi-controlled X;
     5. Lemma 7.3: two half-size gates, each applied twice, borrowing each other's qubits;
     6. the model computes exactly these gate lists; admissibility arithmetic of the two
        recursive calls; fuel 2 suffices. *)
From Coq Require Import List Bool Arith ZArith Lia Permutation.
From QV Require Import C08.Reversible C08.MCXModel.
Import ListNotations.

(* ------------------------------------------------------------------ 1. sorting *)
Lemma insert_perm x l : Permutation (insert x l) (x :: l).
Proof.
  induction l as [|y l IH]; simpl; [reflexivity|].
  destruct (x <=? y); [reflexivity|].
  etransitivity; [apply perm_skip, IH | apply perm_swap].
Qed.

Lemma isort_perm l : Permutation (isort l) l.
Proof.
  induction l as [|x l IH]; simpl; [reflexivity|].
  etransitivity; [apply insert_perm | now apply perm_skip].
Qed.

Lemma forallb_perm {A} (f : A -> bool) l l' : Permutation l l' -> forallb f l = forallb f l'.
Proof.
  induction 1; simpl; try congruence.
  - now rewrite !andb_assoc, (andb_comm (f y) (f x)).
Qed.

Lemma isort_length l : length (isort l) = length l.
Proof. apply Permutation_length, isort_perm. Qed.

Inductive sorted_le : list nat -> Prop :=
| sorted_nil : sorted_le []
| sorted_one x : sorted_le [x]
| sorted_cons x y l : x <= y -> sorted_le (y :: l) -> sorted_le (x :: y :: l).

Lemma insert_sorted x l : sorted_le l -> sorted_le (insert x l).
Proof.
  induction 1 as [|y|y z l Hyz Hs IH]; simpl.
  - constructor.
  - destruct (Nat.leb_spec x y); constructor; try lia; constructor.
  - destruct (Nat.leb_spec x y).
    + constructor; [lia|]. now constructor.
    + simpl in IH. destruct (Nat.leb_spec x z).
      * constructor; [lia|]. constructor; [lia|assumption].
      * constructor; assumption.
Qed.

Lemma isort_sorted l : sorted_le (isort l).
Proof. induction l; simpl; [constructor | now apply insert_sorted]. Qed.

(* ------------------------------------------------------------------ 2. states as functions *)
Definition st := nat -> bool.
Definition upd (s : st) (t : nat) (v : bool) : st := fun k => if k =? t then v else s k.
Definition fapp (g : cx) (s : st) : st :=
  if forallb s (fst g) then upd s (snd g) (negb (s (snd g))) else s.
Definition frun (gs : list cx) (s : st) : st := fold_left (fun s g => fapp g s) gs s.

Lemma fapp_val g s q :
  fapp g s q = if q =? snd g then xorb (s (snd g)) (forallb s (fst g)) else s q.
Proof.
  unfold fapp, upd. destruct (forallb s (fst g)); destruct (Nat.eqb_spec q (snd g)); subst;
    try reflexivity; destruct (s (snd g)); reflexivity.
Qed.

Lemma fapp_other g s q : q <> snd g -> fapp g s q = s q.
Proof. intros H. rewrite fapp_val. destruct (Nat.eqb_spec q (snd g)); congruence. Qed.

Lemma fapp_tgt g s : fapp g s (snd g) = xorb (s (snd g)) (forallb s (fst g)).
Proof. rewrite fapp_val, Nat.eqb_refl. reflexivity. Qed.

Lemma forallb_ext_in {A} (f g : A -> bool) l :
  (forall x, In x l -> f x = g x) -> forallb f l = forallb g l.
Proof.
  induction l as [|x l IH]; simpl; intros H; [reflexivity|].
  rewrite H by now left. rewrite IH; [reflexivity|]. intros; apply H; now right.
Qed.

Lemma forallb_fapp g s l : ~ In (snd g) l -> forallb (fapp g s) l = forallb s l.
Proof.
  intros H. apply forallb_ext_in. intros x Hx. apply fapp_other. intros ->. contradiction.
Qed.

Lemma fapp_ext g s1 s2 : (forall k, s1 k = s2 k) -> forall k, fapp g s1 k = fapp g s2 k.
Proof.
  intros H k. rewrite !fapp_val, !H.
  rewrite (forallb_ext_in s1 s2) by (intros; apply H). reflexivity.
Qed.

Lemma frun_ext gs : forall s1 s2, (forall k, s1 k = s2 k) -> forall k, frun gs s1 k = frun gs s2 k.
Proof.
  induction gs as [|g gs IH]; intros s1 s2 H k; simpl; [apply H|].
  apply IH. now apply fapp_ext.
Qed.

Lemma frun_app g1 g2 s : frun (g1 ++ g2) s = frun g2 (frun g1 s).
Proof. unfold frun. apply fold_left_app. Qed.

Lemma frun_cons g gs s : frun (g :: gs) s = frun gs (fapp g s).
Proof. reflexivity. Qed.

Lemma fapp_perm c c' t s q : Permutation c c' -> fapp (c, t) s q = fapp (c', t) s q.
Proof. intros H. rewrite !fapp_val. simpl. now rewrite (forallb_perm s c c' H). Qed.

(* a sub-circuit that behaves like one gate can be replaced by that gate *)
Lemma frun_equiv_app p g rest :
  (forall s q, frun p s q = fapp g s q) ->
  forall s q, frun (p ++ rest) s q = frun rest (fapp g s) q.
Proof. intros H s q. rewrite frun_app. apply frun_ext. intros k. apply H. Qed.

(* transfer to bit lists *)
Definition getb (b : list bool) : st := fun k => nth k b false.

Lemma flip_length t : forall b, length (flip t b) = length b.
Proof. induction t; intros [|x b]; simpl; auto. Qed.

Lemma flip_same t : forall b, t < length b -> nth t (flip t b) false = negb (nth t b false).
Proof.
  induction t; intros [|x b] H; simpl in *; try lia; [reflexivity|]. apply IHt. lia.
Qed.

Lemma apply_cx_length g b : length (apply_cx g b) = length b.
Proof. unfold apply_cx. destruct (forallb _ _); [apply flip_length | reflexivity]. Qed.

Lemma run_cx_length gs : forall b, length (run_cx gs b) = length b.
Proof.
  induction gs as [|g gs IH]; intros b; simpl; [reflexivity|].
  unfold run_cx in *. simpl. rewrite IH. apply apply_cx_length.
Qed.

Lemma apply_cx_get g b : snd g < length b -> forall q, getb (apply_cx g b) q = fapp g (getb b) q.
Proof.
  intros H q. unfold apply_cx, fapp, getb, upd.
  destruct (forallb _ (fst g)); [|reflexivity].
  destruct (Nat.eqb_spec q (snd g)) as [->|Hq]; [now apply flip_same | now apply flip_other].
Qed.

Lemma run_cx_get gs : forall b, Forall (fun g => snd g < length b) gs ->
  forall q, getb (run_cx gs b) q = frun gs (getb b) q.
Proof.
  induction gs as [|g gs IH]; intros b H q; [reflexivity|].
  inversion H as [|? ? Hg Hgs]; subst.
  change (run_cx (g :: gs) b) with (run_cx gs (apply_cx g b)). rewrite frun_cons.
  rewrite IH.
  - apply frun_ext. intros k. now apply apply_cx_get.
  - rewrite apply_cx_length. assumption.
Qed.

Lemma bits_ext (a b : list bool) :
  length a = length b -> (forall q, getb a q = getb b q) -> a = b.
Proof. intros Hl H. apply (nth_ext a b false false Hl). intros n _. apply H. Qed.

(* function-level correctness + targets inside the register = list-level correctness *)
Lemma frun_to_lists gs c t N :
  (forall s q, frun gs s q = fapp (c, t) s q) ->
  Forall (fun g => snd g < N) gs -> t < N ->
  forall b, length b = N -> run_cx gs b = mcx_spec c t b.
Proof.
  intros H Hg Ht b Hb. apply bits_ext.
  - unfold mcx_spec. now rewrite run_cx_length, apply_cx_length.
  - intros q. unfold mcx_spec. rewrite run_cx_get, apply_cx_get; simpl; subst N; auto.
Qed.

(* ------------------------------------------------------------------ 3. the ladder *)
Lemma firstn_succ_nth {A} (d : A) : forall i l, i < length l -> firstn (S i) l = firstn i l ++ [nth i l d].
Proof.
  induction i; intros [|x l] H; simpl in *; try lia; [reflexivity|].
  f_equal. apply IHi. lia.
Qed.

Lemma forallb_pair (s : st) a b : forallb s (isort [a; b]) = s a && s b.
Proof. rewrite (forallb_perm s _ _ (isort_perm [a; b])). simpl. now rewrite andb_true_r. Qed.

(* AND of the first i controls, by index *)
Fixpoint pand (c : list nat) (s : st) (i : nat) : bool :=
  match i with O => true | S i' => pand c s i' && s (nth i' c 0) end.

Lemma pand_ext c s s' i :
  (forall j, j < i -> s' (nth j c 0) = s (nth j c 0)) -> pand c s' i = pand c s i.
Proof.
  induction i; simpl; intros H; [reflexivity|].
  rewrite IHi by (intros; apply H; lia). rewrite H by lia. reflexivity.
Qed.

Lemma pand_firstn c s i : i <= length c -> pand c s i = forallb s (firstn i c).
Proof.
  induction i; intros H; [reflexivity|].
  rewrite (firstn_succ_nth 0) by lia. rewrite forallb_app. simpl.
  rewrite IHi by lia. now rewrite andb_true_r.
Qed.

Lemma pand_all c s : pand c s (length c) = forallb s c.
Proof. rewrite pand_firstn by lia. now rewrite firstn_all. Qed.

Definition gA (c f : list nat) (j : nat) : cx :=          (* j >= 1 *)
  (isort [nth (j + 1) c 0; nth (j - 1) f 0], nth j f 0).
Definition gA0 (c f : list nat) : cx := (isort [nth 0 c 0; nth 1 c 0], nth 0 f 0).
Fixpoint down (c f : list nat) (k : nat) : list cx :=      (* A_k .. A_1 *)
  match k with O => [] | S k' => gA c f k :: down c f k' end.
Definition ladder (c f : list nat) (k : nat) : list cx := down c f k ++ gA0 c f :: rev (down c f k).

Lemma ladder_S c f k : ladder c f (S k) = gA c f (S k) :: ladder c f k ++ [gA c f (S k)].
Proof. unfold ladder. simpl. rewrite <- app_assoc. reflexivity. Qed.

Section Ladder.
  Variables c f : list nat.
  Hypothesis Hcf : forall i j, i < length c -> j < length f -> nth i c 0 <> nth j f 0.
  Hypothesis Hff : forall i j, i < length f -> j < length f -> nth i f 0 = nth j f 0 -> i = j.

  Lemma ladder_spec k : k + 2 <= length c -> k + 1 <= length f ->
    forall s,
      (forall j, j <= k -> frun (ladder c f k) s (nth j f 0) = xorb (s (nth j f 0)) (pand c s (j + 2)))
      /\ (forall q, (forall j, j <= k -> q <> nth j f 0) -> frun (ladder c f k) s q = s q).
  Proof.
    induction k as [|k IH]; intros Hc Hf s.
    - change (ladder c f 0) with [gA0 c f]. split.
      + intros j Hj. assert (j = 0) by lia. subst j.
        rewrite frun_cons. change (frun [] ?x) with x.
        change (nth 0 f 0) with (snd (gA0 c f)). rewrite fapp_tgt. f_equal.
        unfold gA0. cbn [fst]. rewrite forallb_pair. reflexivity.
      + intros q Hq. rewrite frun_cons. change (frun [] ?x) with x.
        apply fapp_other. cbn [gA0 snd]. apply Hq. lia.
    - destruct (IH ltac:(lia) ltac:(lia) (fapp (gA c f (S k)) s)) as [IHa IHb].
      set (g := gA c f (S k)) in *.
      assert (Hsnd : snd g = nth (S k) f 0) by reflexivity.
      assert (Hfst : forall s', forallb s' (fst g) = s' (nth (k + 2) c 0) && s' (nth k f 0)).
      { intros s'. unfold g, gA. cbn [fst]. rewrite forallb_pair.
        replace (S k + 1) with (k + 2) by lia. replace (S k - 1) with k by lia. reflexivity. }
      (* s1 = fapp g s agrees with s away from f_{k+1} *)
      assert (H1c : forall i, i < length c -> fapp g s (nth i c 0) = s (nth i c 0)).
      { intros i Hi. apply fapp_other. rewrite Hsnd. apply Hcf; lia. }
      assert (H1f : forall j, j <= k -> fapp g s (nth j f 0) = s (nth j f 0)).
      { intros j Hj. apply fapp_other. rewrite Hsnd. intros E. apply Hff in E; lia. }
      assert (H1p : forall i, i <= length c -> pand c (fapp g s) i = pand c s i).
      { intros i Hi. apply pand_ext. intros j Hj. apply H1c. lia. }
      rewrite ladder_S. fold g. split.
      + intros j Hj. rewrite frun_cons, frun_app. simpl frun at 1.
        rewrite fapp_val, Hsnd.
        destruct (Nat.eqb_spec (nth j f 0) (nth (S k) f 0)) as [E|E].
        * apply Hff in E; try lia. subst j.
          rewrite Hfst.
          rewrite (IHb (nth (S k) f 0)) by (intros j Hj' E'; apply Hff in E'; lia).
          rewrite (IHb (nth (k + 2) c 0)) by (intros j Hj'; apply Hcf; lia).
          rewrite (IHa k) by lia.
          rewrite H1c by lia. rewrite (H1f k) by lia. rewrite H1p by lia.
          rewrite <- Hsnd at 1. rewrite fapp_tgt, Hsnd, Hfst.
          replace (S k + 2) with (S (k + 2)) by lia. simpl pand.
          destruct (s (nth (S k) f 0)), (s (nth (k + 2) c 0)), (s (nth k f 0)), (pand c s (k + 2));
            reflexivity.
        * assert (j <= k) by (destruct (Nat.eq_dec j (S k)); [subst; congruence | lia]).
          rewrite (IHa j) by lia. rewrite H1f by lia. rewrite H1p by lia. reflexivity.
      + intros q Hq. rewrite frun_cons, frun_app. simpl frun at 1.
        rewrite fapp_other by (rewrite Hsnd; apply Hq; lia).
        rewrite IHb by (intros; apply Hq; lia).
        apply fapp_other. rewrite Hsnd. apply Hq. lia.
  Qed.

  (* ---------------------------------------------------------------- 4. branch 1 *)
  Lemma bounded_dec q k :
    (exists j, j <= k /\ q = nth j f 0) \/ (forall j, j <= k -> q <> nth j f 0).
  Proof.
    induction k as [|k [[j [Hj E]]|IH]].
    - destruct (Nat.eq_dec q (nth 0 f 0)); [left; exists 0; split; [lia|assumption]|].
      right. intros j Hj. assert (j = 0) by lia. now subst.
    - left. exists j. split; [lia|assumption].
    - destruct (Nat.eq_dec q (nth (S k) f 0)); [left; exists (S k); split; [lia|assumption]|].
      right. intros j Hj. destruct (Nat.eq_dec j (S k)); [now subst|]. apply IH. lia.
  Qed.

  Variable t : nat.
  Hypothesis Htc : forall i, i < length c -> t <> nth i c 0.
  Hypothesis Htf : forall j, j < length f -> t <> nth j f 0.

  Definition top (m : nat) : cx := (isort [nth (m - 1) c 0; nth (m - 3) f 0], t).
  Definition branch1 (m : nat) : list cx :=
    let dg := top m :: ladder c f (m - 3) in dg ++ dg.

  Lemma branch1_spec m : length c = m -> 3 <= m -> m - 2 <= length f ->
    forall s q, frun (branch1 m) s q = fapp (c, t) s q.
  Proof.
    intros Hm H3 Hf s q. unfold branch1.
    set (k := m - 3). set (T := top m).
    assert (HT : snd T = t) by reflexivity.
    assert (HTf : forall s', forallb s' (fst T) = s' (nth (k + 2) c 0) && s' (nth k f 0)).
    { intros s'. unfold T, top. cbn [fst]. rewrite forallb_pair.
      replace (m - 1) with (k + 2) by lia. reflexivity. }
    assert (L : forall s', _) by exact (ladder_spec k ltac:(lia) ltac:(lia)).
    (* one round Top; W *)
    assert (Tc : forall s' i, i < length c -> fapp T s' (nth i c 0) = s' (nth i c 0)).
    { intros s' i Hi. apply fapp_other. rewrite HT. intros E. symmetry in E. now apply Htc in E. }
    assert (Tf : forall s' j, j < length f -> fapp T s' (nth j f 0) = s' (nth j f 0)).
    { intros s' j Hj. apply fapp_other. rewrite HT. intros E. symmetry in E. now apply Htf in E. }
    assert (Tp : forall s' i, i <= length c -> pand c (fapp T s') i = pand c s' i).
    { intros s' i Hi. apply pand_ext. intros j Hj. apply Tc. lia. }
    assert (Wc : forall s' i, i < length c -> frun (ladder c f k) s' (nth i c 0) = s' (nth i c 0)).
    { intros s' i Hi. apply (proj2 (L s')). intros j Hj. apply Hcf; lia. }
    assert (Wp : forall s' i, i <= length c -> pand c (frun (ladder c f k) s') i = pand c s' i).
    { intros s' i Hi. apply pand_ext. intros j Hj. apply Wc. lia. }
    assert (Wt : forall s', frun (ladder c f k) s' t = s' t).
    { intros s'. apply (proj2 (L s')). intros j Hj. apply Htf. lia. }
    assert (Wf : forall s' j, j <= k ->
              frun (ladder c f k) s' (nth j f 0) = xorb (s' (nth j f 0)) (pand c s' (j + 2))).
    { intros s' j Hj. now apply (proj1 (L s')). }
    change ((T :: ladder c f k) ++ T :: ladder c f k) with (T :: ladder c f k ++ T :: ladder c f k).
    rewrite frun_cons, frun_app, frun_cons.
    set (s1 := fapp T s). set (s2 := frun (ladder c f k) s1). set (s3 := fapp T s2).
    rewrite (fapp_val (c, t)). cbn [fst snd].
    destruct (Nat.eqb_spec q t) as [->|Hqt].
    - rewrite Wt. unfold s3. rewrite <- HT at 1. rewrite fapp_tgt, HT, HTf.
      unfold s2 at 1. rewrite Wt. unfold s1 at 1. rewrite <- HT at 1. rewrite fapp_tgt, HT, HTf.
      unfold s2. rewrite Wc by lia. rewrite Wf by lia. unfold s1.
      rewrite Tc by lia. rewrite Tf by lia. rewrite Tp by lia.
      rewrite <- pand_all, Hm. replace (pand c s m) with (pand c s (S (k + 2))) by (f_equal; lia). simpl pand.
      destruct (s t), (s (nth (k + 2) c 0)), (s (nth k f 0)), (pand c s (k + 2)); reflexivity.
    - destruct (bounded_dec q k) as [[j [Hj ->]]|Hq].
      + rewrite Wf by lia. unfold s3. rewrite Tf by lia. rewrite Tp by lia.
        unfold s2. rewrite Wf by lia. rewrite Wp by lia. unfold s1. rewrite Tf by lia.
        rewrite Tp by lia. destruct (s (nth j f 0)), (pand c s (j + 2)); reflexivity.
      + rewrite (proj2 (L s3)) by assumption. unfold s3. rewrite fapp_other by now rewrite HT.
        unfold s2. rewrite (proj2 (L s1)) by assumption. unfold s1. apply fapp_other. now rewrite HT.
  Qed.
End Ladder.

(* ------------------------------------------------------------------ 5. Lemma 7.3 *)
Lemma lemma73 A B f0 t p1 p2 :
  ~ In f0 A -> ~ In f0 B -> ~ In t A -> ~ In t B -> f0 <> t ->
  (forall s q, frun p1 s q = fapp (A, f0) s q) ->
  (forall s q, frun p2 s q = fapp (B ++ [f0], t) s q) ->
  forall s q, frun ((p1 ++ p2) ++ (p1 ++ p2)) s q = fapp (A ++ B, t) s q.
Proof.
  intros HfA HfB HtA HtB Hft H1 H2 s q.
  rewrite <- app_assoc.
  rewrite (frun_equiv_app p1 _ _ H1), (frun_equiv_app p2 _ _ H2), (frun_equiv_app p1 _ _ H1), H2.
  set (g1 := (A, f0)). set (g2 := (B ++ [f0], t)).
  assert (G1t : forall s', fapp g1 s' f0 = xorb (s' f0) (forallb s' A)) by (intros; apply (fapp_tgt g1)).
  assert (G1o : forall s' x, x <> f0 -> fapp g1 s' x = s' x) by (intros; now apply (fapp_other g1)).
  assert (G1A : forall s', forallb (fapp g1 s') A = forallb s' A) by (intros; now apply forallb_fapp).
  assert (G1B : forall s', forallb (fapp g1 s') B = forallb s' B) by (intros; now apply forallb_fapp).
  assert (G2t : forall s', fapp g2 s' t = xorb (s' t) (forallb s' B && s' f0)).
  { intros. rewrite (fapp_tgt g2). cbn [g2 fst snd]. rewrite forallb_app. simpl.
    now rewrite andb_true_r. }
  assert (G2o : forall s' x, x <> t -> fapp g2 s' x = s' x) by (intros; now apply (fapp_other g2)).
  assert (G2A : forall s', forallb (fapp g2 s') A = forallb s' A) by (intros; now apply forallb_fapp).
  assert (G2B : forall s', forallb (fapp g2 s') B = forallb s' B) by (intros; now apply forallb_fapp).
  assert (G1ot : forall s', fapp g1 s' t = s' t) by (intros; apply G1o; congruence).
  assert (G2of : forall s', fapp g2 s' f0 = s' f0) by (intros; apply G2o; congruence).
  rewrite (fapp_val (A ++ B, t)). cbn [fst snd]. rewrite forallb_app.
  destruct (Nat.eqb_spec q t) as [->|Hqt].
  - repeat first [rewrite G2t | rewrite G1ot | rewrite G1t | rewrite G2of
                 | rewrite G1A | rewrite G1B | rewrite G2A | rewrite G2B].
    destruct (s t), (s f0), (forallb s A), (forallb s B); reflexivity.
  - rewrite G2o by assumption.
    destruct (Nat.eq_dec q f0) as [->|Hqf].
    + repeat first [rewrite G1t | rewrite G2of | rewrite G1A | rewrite G2A].
      destruct (s f0), (forallb s A); reflexivity.
    + rewrite G1o, G2o, G1o by assumption. reflexivity.
Qed.

(* ------------------------------------------------------------------ 6. the model *)
Lemma pyget_nat (l : list nat) i : i < length l -> pyget l (Z.of_nat i) = Some (nth i l 0).
Proof.
  intros H. unfold pyget. destruct (Z.ltb_spec (Z.of_nat i) 0); [lia|].
  rewrite Nat2Z.id. now apply nth_error_nth'.
Qed.
Lemma pyget_0 (l : list nat) : 0 < length l -> pyget l 0%Z = Some (nth 0 l 0).
Proof. exact (pyget_nat l 0). Qed.
Lemma pyget_1 (l : list nat) : 1 < length l -> pyget l 1%Z = Some (nth 1 l 0).
Proof. exact (pyget_nat l 1). Qed.

Lemma mk_toffoli_ok a b c : a <> b -> a <> c -> b <> c -> mk_toffoli a b c = Some (isort [a; b], c).
Proof.
  intros H1 H2 H3. unfold mk_toffoli.
  apply Nat.eqb_neq in H1, H2, H3. now rewrite H1, H2, H3.
Qed.

Lemma opt_all_down c f (F : nat -> option cx) k :
  (forall i, i < k -> F i = Some (gA c f (k - i))) ->
  opt_all (map F (seq 0 k)) = Some (down c f k).
Proof.
  revert F. induction k as [|k IH]; intros F H; [reflexivity|].
  cbn [seq map]. rewrite <- seq_shift, map_map. cbn [opt_all].
  rewrite (H 0) by lia. rewrite (IH (fun i => F (S i))).
  - now rewrite Nat.sub_0_r.
  - intros i Hi. rewrite H by lia. reflexivity.
Qed.

Lemma existsb_eqb_false x l : ~ In x l -> existsb (Nat.eqb x) l = false.
Proof.
  induction l as [|a l IH]; simpl; intros H; [reflexivity|]. rewrite IH by tauto.
  destruct (Nat.eqb_spec x a); [subst; tauto | reflexivity].
Qed.

Lemma overlap_false a b : (forall x, In x a -> ~ In x b) -> overlap a b = false.
Proof.
  unfold overlap. induction a as [|y a IH]; simpl; intros H; [reflexivity|].
  rewrite existsb_eqb_false by (apply H; now left). apply IH. intros; apply H; now right.
Qed.

Lemma nodup_split (a b : list nat) :
  NoDup (a ++ b) -> NoDup a /\ NoDup b /\ (forall x, In x a -> In x b -> False).
Proof.
  induction a as [|x a IH]; simpl; intros H.
  - repeat split; [constructor | assumption | tauto].
  - inversion H as [|? ? Hx Hab]; subst. destruct (IH Hab) as (Ha & Hb & Hd).
    repeat split; [constructor; [|assumption] | assumption |].
    + intros Hi. apply Hx. apply in_or_app. now left.
    + intros y [->|Hy] Hyb; [apply Hx; apply in_or_app; now right | eauto].
Qed.

Lemma nodup_facts c t f : NoDup (c ++ t :: f) ->
  (forall i j, i < length c -> j < length f -> nth i c 0 <> nth j f 0)
  /\ (forall i j, i < length f -> j < length f -> nth i f 0 = nth j f 0 -> i = j)
  /\ (forall i, i < length c -> t <> nth i c 0)
  /\ (forall j, j < length f -> t <> nth j f 0).
Proof.
  intros H. destruct (nodup_split _ _ H) as (Hc & Htf & Hd).
  inversion Htf as [|? ? Ht Hf]; subst. repeat split.
  - intros i j Hi Hj E. apply (Hd (nth i c 0)); [now apply nth_In|]. right. rewrite E. now apply nth_In.
  - now apply NoDup_nth.
  - intros i Hi E. apply (Hd t); [rewrite E; now apply nth_In | now left].
  - intros j Hj E. apply Ht. rewrite E. now apply nth_In.
Qed.

Lemma nodup_isort c t f : NoDup (c ++ t :: f) -> NoDup (isort c ++ t :: f).
Proof.
  intros H. eapply Permutation_NoDup; [|exact H]. apply Permutation_app_tail. symmetry. apply isort_perm.
Qed.

Lemma overlap_ok c t f : NoDup (c ++ t :: f) -> overlap f (isort c ++ [t]) = false.
Proof.
  intros H. apply nodup_isort in H. destruct (nodup_split _ _ H) as (_ & Htf & Hd).
  inversion Htf as [|? ? Ht Hf]; subst.
  apply overlap_false. intros x Hx Hin. apply in_app_or in Hin as [Hin|[->|[]]].
  - apply (Hd x Hin). now right.
  - contradiction.
Qed.

Lemma x_step_base rec c t f :
  length c < 3 -> NoDup (c ++ t :: f) -> x_step rec c t f = Some [(isort c, t)].
Proof.
  intros H ND. unfold x_step. cbv zeta. rewrite isort_length.
  destruct (length c) as [|[|[|n]]] eqn:E; try lia; cbn [Nat.eqb orb]; try reflexivity.
  rewrite overlap_ok by assumption. reflexivity.
Qed.

Lemma x_step_branch1 rec c t f :
  NoDup (c ++ t :: f) -> 3 <= length c -> length c - 2 <= length f ->
  x_step rec c t f = Some (branch1 (isort c) f t (length c)).
Proof.
  intros ND H3 Hf. unfold x_step. cbv zeta. rewrite isort_length.
  rewrite overlap_ok by assumption.
  assert (Hcs : length (isort c) = length c) by apply isort_length.
  apply nodup_isort in ND. destruct (nodup_facts _ _ _ ND) as (Hcf & Hff & Htc & Htf).
  set (cs := isort c) in *. set (m := length c) in *.
  rewrite (proj2 (Nat.eqb_neq m 1)), (proj2 (Nat.eqb_neq m 2)) by lia. cbn [orb].
  rewrite (proj2 (Nat.ltb_ge m 3)) by lia.
  rewrite (proj2 (Z.leb_le _ _)) by lia. rewrite (proj2 (Nat.leb_le 3 m)) by lia. cbn [andb].
  rewrite (opt_all_down cs f _ (m - 3)).
  2:{ intros i Hi. cbv beta zeta.
      replace (Z.of_nat m - 2 - Z.of_nat i)%Z with (Z.of_nat (m - 2 - i)) by lia.
      replace (Z.of_nat m - 4 - Z.of_nat i)%Z with (Z.of_nat (m - 4 - i)) by lia.
      replace (Z.of_nat m - 3 - Z.of_nat i)%Z with (Z.of_nat (m - 3 - i)) by lia.
      rewrite !pyget_nat by lia. cbn [obind].
      rewrite mk_toffoli_ok.
      - unfold gA. replace (m - 3 - i + 1) with (m - 2 - i) by lia. replace (m - 3 - i - 1) with (m - 4 - i) by lia. reflexivity.
      - apply Hcf; lia.
      - apply Hcf; lia.
      - intros E. apply Hff in E; lia. }
  cbn [obind]. rewrite (pyget_0 cs), (pyget_1 cs), (pyget_0 f) by lia. cbn [obind].
  rewrite mk_toffoli_ok;
    [| intros E; apply (NoDup_nth cs 0) in E; [lia | exact (proj1 (nodup_split _ _ ND)) | lia | lia]
     | apply Hcf; lia | apply Hcf; lia].
  cbn [obind].
  replace (Z.of_nat m - 1)%Z with (Z.of_nat (m - 1)) by lia.
  replace (Z.of_nat m - 3)%Z with (Z.of_nat (m - 3)) by lia.
  rewrite !pyget_nat by lia. cbn [obind].
  rewrite mk_toffoli_ok;
    [| apply Hcf; lia | intros E; symmetry in E; revert E; apply Htc; lia
     | intros E; symmetry in E; revert E; apply Htf; lia].
  cbn [obind]. reflexivity.
Qed.

Lemma x_step_branch2 rec c t f0 F :
  3 <= length c -> S (length F) < length c - 2 -> NoDup (c ++ t :: f0 :: F) ->
  x_step rec c t (f0 :: F) =
    obind (rec (firstn ((length c + 1 + S (length F)) / 2) (isort c)) f0
               (skipn ((length c + 1 + S (length F)) / 2) (isort c) ++ [t] ++ F)) (fun p1 =>
    obind (rec (skipn ((length c + 1 + S (length F)) / 2) (isort c) ++ [f0]) t
               (firstn ((length c + 1 + S (length F)) / 2) (isort c) ++ F)) (fun p2 =>
    Some ((p1 ++ p2) ++ (p1 ++ p2)))).
Proof.
  intros H3 Hf ND. unfold x_step. cbv zeta. rewrite isort_length.
  rewrite overlap_ok by assumption.
  set (m := length c) in *.
  rewrite (proj2 (Nat.eqb_neq m 1)), (proj2 (Nat.eqb_neq m 2)) by lia. cbn [orb].
  rewrite (proj2 (Nat.ltb_ge m 3)) by lia.
  cbn [length]. rewrite (proj2 (Z.leb_gt _ _)) by lia. cbn [andb].
  change (1 <=? S (length F)) with true. cbv iota.
  rewrite pyget_0 by (cbn [length]; lia). cbn [obind nth skipn]. reflexivity.
Qed.

(* correctness of a gate list at the level of boolean functions, and its targets *)
Definition mcx_ok (c : list nat) (t : nat) (f : list nat) (gs : list cx) : Prop :=
  (forall s q, frun gs s q = fapp (c, t) s q) /\ Forall (fun g => In (snd g) (c ++ t :: f)) gs.

Lemma down_targets c f t k : k < length f -> Forall (fun g : cx => In (snd g) (t :: f)) (down c f k).
Proof.
  induction k as [|k IH]; intros H; [constructor|]. cbn [down]. constructor; [|apply IH; lia].
  right. apply nth_In. lia.
Qed.

Lemma branch1_targets c f t m : 3 <= m -> m - 2 <= length f ->
  Forall (fun g : cx => In (snd g) (t :: f)) (branch1 c f t m).
Proof.
  intros H3 Hf.
  assert (Forall (fun g : cx => In (snd g) (t :: f)) (top c f t m :: ladder c f (m - 3))).
  { constructor; [now left|]. unfold ladder. apply Forall_app. split; [apply down_targets; lia|].
    constructor; [right; apply nth_In; lia|]. apply Forall_rev, down_targets. lia. }
  unfold branch1. cbv zeta. apply Forall_app. now split.
Qed.

(* base case and branch 1: no recursive call is made *)
Lemma mcx_branch1_ok rec c t f :
  NoDup (c ++ t :: f) -> (length c < 3 \/ length c - 2 <= length f) ->
  exists gs, x_step rec c t f = Some gs /\ mcx_ok c t f gs.
Proof.
  intros ND H. destruct (Nat.lt_ge_cases (length c) 3) as [Hm|Hm].
  - exists [(isort c, t)]. split; [now apply x_step_base|]. split.
    + intros s q. rewrite frun_cons. change (frun [] ?x) with x. apply fapp_perm, isort_perm.
    + constructor; [|constructor]. apply in_or_app. right. now left.
  - assert (Hf : length c - 2 <= length f) by lia.
    exists (branch1 (isort c) f t (length c)). split; [now apply x_step_branch1|].
    pose proof (nodup_isort _ _ _ ND) as ND'. destruct (nodup_facts _ _ _ ND') as (Hcf & Hff & Htc & Htf).
    split.
    + intros s q. rewrite (branch1_spec (isort c) f Hcf Hff t Htc Htf (length c)); try lia.
      * apply fapp_perm, isort_perm.
      * apply isort_length.
    + eapply Forall_impl; [|apply branch1_targets; lia]. intros g Hg. apply in_or_app. now right.
Qed.

Lemma x_decompose_direct fuel c t f :
  NoDup (c ++ t :: f) -> (length c < 3 \/ length c - 2 <= length f) ->
  exists gs, x_decompose fuel c t f = Some gs /\ mcx_ok c t f gs.
Proof. destruct fuel; cbn [x_decompose]; apply mcx_branch1_ok. Qed.

Lemma nodup_calls (A B : list nat) (t f0 : nat) (F : list nat) : NoDup ((A ++ B) ++ t :: f0 :: F) ->
  NoDup (A ++ f0 :: (B ++ [t] ++ F)) /\ NoDup ((B ++ [f0]) ++ t :: (A ++ F))
  /\ ~ In f0 A /\ ~ In f0 B /\ ~ In t A /\ ~ In t B /\ f0 <> t.
Proof.
  intros H. rewrite (NoDup_count_occ Nat.eq_dec) in H.
  assert (K : forall x, count_occ Nat.eq_dec A x + count_occ Nat.eq_dec B x
                        + (if Nat.eq_dec t x then 1 else 0) + (if Nat.eq_dec f0 x then 1 else 0)
                        + count_occ Nat.eq_dec F x <= 1).
  { intros x. specialize (H x). rewrite !count_occ_app in H. cbn [count_occ] in H.
    destruct (Nat.eq_dec t x), (Nat.eq_dec f0 x); lia. }
  repeat split.
  - rewrite (NoDup_count_occ Nat.eq_dec). intros x. specialize (K x).
    rewrite !count_occ_app. cbn [count_occ]. rewrite !count_occ_app. cbn [count_occ].
    destruct (Nat.eq_dec t x), (Nat.eq_dec f0 x); lia.
  - rewrite (NoDup_count_occ Nat.eq_dec). intros x. specialize (K x).
    rewrite !count_occ_app. cbn [count_occ]. rewrite !count_occ_app. cbn [count_occ].
    destruct (Nat.eq_dec t x), (Nat.eq_dec f0 x); lia.
  - rewrite (count_occ_not_In Nat.eq_dec). specialize (K f0).
    destruct (Nat.eq_dec t f0), (Nat.eq_dec f0 f0); try congruence; lia.
  - rewrite (count_occ_not_In Nat.eq_dec). specialize (K f0).
    destruct (Nat.eq_dec t f0), (Nat.eq_dec f0 f0); try congruence; lia.
  - rewrite (count_occ_not_In Nat.eq_dec). specialize (K t).
    destruct (Nat.eq_dec t t), (Nat.eq_dec f0 t); try congruence; lia.
  - rewrite (count_occ_not_In Nat.eq_dec). specialize (K t).
    destruct (Nat.eq_dec t t), (Nat.eq_dec f0 t); try congruence; lia.
  - intros ->. specialize (K t). destruct (Nat.eq_dec t t); try congruence; lia.
Qed.

(* branch 2 given correct recursive calls (Lemma 7.3 composition), then the full statement *)
Theorem x_decompose_ok fuel c t f :
  1 <= fuel -> NoDup (c ++ t :: f) ->
  (length c < 3 \/ length c - 2 <= length f \/ 1 <= length f) ->
  exists gs, x_decompose fuel c t f = Some gs /\ mcx_ok c t f gs.
Proof.
  intros Hfuel ND Hadm.
  destruct (Nat.lt_ge_cases (length c) 3) as [Hm|Hm]; [apply x_decompose_direct; auto|].
  destruct (Nat.le_gt_cases (length c - 2) (length f)) as [Hb|Hb]; [apply x_decompose_direct; auto|].
  destruct f as [|f0 F]; [simpl in Hadm; lia|]. cbn [length] in Hb.
  destruct fuel as [|fuel]; [lia|]. cbn [x_decompose].
  rewrite x_step_branch2 by assumption.
  set (m := length c) in *. set (n := m + 1 + S (length F)). set (m1 := n / 2).
  assert (Hm1 : 2 * m1 <= n < 2 * m1 + 2).
  { pose proof (Nat.div_mod n 2 ltac:(lia)). pose proof (Nat.mod_upper_bound n 2 ltac:(lia)).
    fold m1 in H. lia. }
  assert (Hcs : length (isort c) = m) by apply isort_length.
  set (cs := isort c) in *. set (A := firstn m1 cs). set (B := skipn m1 cs).
  assert (HAB : A ++ B = cs) by apply firstn_skipn.
  assert (HlA : length A = m1) by (apply firstn_length_le; unfold n in Hm1; lia).
  assert (HlB : length B = m - m1) by (unfold B; rewrite skipn_length; lia).
  pose proof (nodup_isort _ _ _ ND) as ND'. fold cs in ND'. rewrite <- HAB in ND'.
  destruct (nodup_calls _ _ _ _ _ ND') as (ND1 & ND2 & HfA & HfB & HtA & HtB & Hft).
  destruct (x_decompose_direct fuel A f0 (B ++ [t] ++ F) ND1) as (p1 & E1 & S1 & T1).
  { right. rewrite !app_length. cbn [length]. unfold n in Hm1. lia. }
  destruct (x_decompose_direct fuel (B ++ [f0]) t (A ++ F) ND2) as (p2 & E2 & S2 & T2).
  { right. rewrite !app_length. cbn [length]. unfold n in Hm1. lia. }
  rewrite E1, E2. cbn [obind]. eexists. split; [reflexivity|].
  assert (Hin : forall x, In x c <-> In x A \/ In x B).
  { intros x. rewrite <- in_app_iff, HAB. split; apply Permutation_in;
      [symmetry|]; apply isort_perm. }
  split.
  - intros s q. rewrite (lemma73 A B f0 t p1 p2) by assumption.
    apply fapp_perm. rewrite HAB. apply isort_perm.
  - repeat (apply Forall_app; split).
    all: (eapply Forall_impl; [|eassumption]); intros g; rewrite !in_app_iff; simpl;
      rewrite !in_app_iff, Hin; simpl; tauto.
Qed.

(* >= 3 controls and no free qubit: the real code raises NotImplementedError *)
Lemma x_decompose_no_free fuel c t : 3 <= length c -> x_decompose fuel c t [] = None.
Proof.
  intros H.
  assert (forall rec, x_step rec c t [] = None); [|destruct fuel; cbn [x_decompose]; auto].
  intros rec. unfold x_step. cbv zeta. rewrite isort_length.
  set (m := length c) in *.
  rewrite (proj2 (Nat.eqb_neq m 1)), (proj2 (Nat.eqb_neq m 2)) by lia. cbn [orb overlap existsb].
  rewrite (proj2 (Nat.ltb_ge m 3)) by lia.
  cbn [length]. rewrite (proj2 (Z.leb_gt _ _)) by lia. reflexivity.
Qed.

(* ------------------------------------------------------------------ list-level statements *)
Theorem x_decompose_correct fuel c t f N :
  1 <= fuel -> NoDup (c ++ t :: f) -> (forall q, In q (c ++ t :: f) -> q < N) ->
  (length c < 3 \/ 2 * length c - 1 <= length c + 1 + length f \/ 1 <= length f) ->
  exists gs, x_decompose fuel c t f = Some gs
             /\ forall b, length b = N -> run_cx gs b = mcx_spec c t b.
Proof.
  intros Hfuel ND Hlt Hadm.
  destruct (x_decompose_ok fuel c t f Hfuel ND) as (gs & E & Hs & Ht); [lia|].
  exists gs. split; [assumption|].
  apply frun_to_lists; [assumption| |].
  - eapply Forall_impl; [|exact Ht]. intros g Hg. now apply Hlt.
  - apply Hlt. apply in_or_app. right. now left.
Qed.

Theorem mcx_decompose_correct c t f N :
  NoDup (c ++ t :: f) -> (forall q, In q (c ++ t :: f) -> q < N) ->
  (length c < 3 \/ 2 * length c - 1 <= length c + 1 + length f \/ 1 <= length f) ->
  exists gs, mcx_decompose c t f = Some gs
             /\ forall b, length b = N -> run_cx gs b = mcx_spec c t b.
Proof.
  intros ND Hlt Hadm. unfold mcx_decompose.
  destruct (Nat.lt_ge_cases (length c) 3) as [Hm|Hm].
  - destruct (x_decompose_direct (length c) c t f ND) as (gs & E & Hs & Ht); [now left|].
    exists gs. split; [assumption|]. apply frun_to_lists; [assumption| |].
    + eapply Forall_impl; [|exact Ht]. intros g Hg. now apply Hlt.
    + apply Hlt. apply in_or_app. right. now left.
  - apply x_decompose_correct; auto. lia.
Qed.

(* the borrowed work bits (and the controls) come back unchanged, whatever their values *)
Theorem mcx_decompose_restores c t f N :
  NoDup (c ++ t :: f) -> (forall q, In q (c ++ t :: f) -> q < N) ->
  (length c < 3 \/ 2 * length c - 1 <= length c + 1 + length f \/ 1 <= length f) ->
  exists gs, mcx_decompose c t f = Some gs
             /\ forall b, length b = N ->
                  (forall q, q <> t -> nth q (run_cx gs b) false = nth q b false)
                  /\ nth t (run_cx gs b) false
                     = xorb (nth t b false) (forallb (fun k => nth k b false) c).
Proof.
  intros ND Hlt Hadm. destruct (mcx_decompose_correct c t f N ND Hlt Hadm) as (gs & E & H).
  exists gs. split; [assumption|]. intros b Hb. rewrite (H b Hb). split.
  - intros q Hq. now apply mcx_spec_keeps_other_bits.
  - assert (Ht : t < length b) by (rewrite Hb; apply Hlt; apply in_or_app; right; now left).
    unfold mcx_spec. change (nth t (apply_cx (c, t) b) false) with (getb (apply_cx (c, t) b) t).
    rewrite apply_cx_get by assumption. rewrite (fapp_tgt (c, t)). reflexivity.
Qed.
