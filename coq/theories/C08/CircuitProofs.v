(* C08/CircuitProofs.v : proofs about C08/CircuitModel.v *)
From Coq Require Import List Bool.
From QV Require Import C08.CircuitModel.
Import ListNotations.

Section Proofs.
  Variable O : opmonoid.
  Hypothesis L : opmonoid_laws O.
  Variable G : Type.
  Variable sem : G -> op O.
  Local Notation SL := (sem_list O G sem).
  Local Notation "a ~ b" := (phase_eq O a b) (at level 70).

  Lemma fold_acc gs : forall U, fold_left (fun U g => omul O (sem g) U) gs U = omul O (SL gs) U.
  Proof.
    unfold sem_list. induction gs as [|g gs IH]; intros U; simpl.
    - now rewrite (omul_1_l O L).
    - rewrite IH, (IH (omul O (sem g) (oone O))), (omul_1_r O L). now rewrite (omul_assoc O L).
  Qed.

  Lemma sem_list_app xs ys : SL (xs ++ ys) = omul O (SL ys) (SL xs).
  Proof. unfold sem_list at 1. rewrite fold_left_app. apply fold_acc. Qed.

  Lemma sem_list_cons g gs : SL (g :: gs) = omul O (SL gs) (sem g).
  Proof. change (g :: gs) with ([g] ++ gs). rewrite sem_list_app. unfold sem_list at 2. simpl. now rewrite (omul_1_r O L). Qed.

  Lemma phase_eq_refl a : a ~ a.
  Proof. exists (pone O). now rewrite (act_one O L). Qed.

  Lemma phase_eq_mul a a' b b' : a ~ a' -> b ~ b' -> omul O a b ~ omul O a' b'.
  Proof.
    intros [z ->] [w ->]. exists (pmul O z w).
    now rewrite (act_mul_l O L), (act_mul_r O L), (act_act O L).
  Qed.

  Section Decompose.
    Variables (F : Type) (dec : F -> G -> list G) (free : F).

    Lemma circuit_decompose_sound queue :
      (forall g, In g queue -> SL (dec free g) ~ sem g) ->
      SL (circuit_decompose G F dec free queue) ~ SL queue.
    Proof.
      unfold circuit_decompose. induction queue as [|g queue IH]; intros H; simpl.
      - apply phase_eq_refl.
      - rewrite sem_list_app, sem_list_cons. apply phase_eq_mul.
        + apply IH. intros h Hh. apply H. now right.
        + apply H. now left.
    Qed.

    (* a memo is harmless exactly when what it stores is what dec would return *)
    Variables (K : Type) (key : G -> K) (keqb : K -> K -> bool).
    Hypothesis keqb_ok : forall a b, keqb a b = true <-> a = b.

    Definition memo_ok (memo : list (K * list G)) : Prop :=
      forall g d, lookup G K keqb (key g) memo = Some d -> d = dec free g.

    Lemma memo_decompose_sound queue : forall memo,
      (forall g h, key g = key h -> dec free g = dec free h) ->
      memo_ok memo ->
      memo_decompose G F dec K key keqb free memo queue = circuit_decompose G F dec free queue.
    Proof.
      unfold circuit_decompose. induction queue as [|g queue IH]; intros memo Hk Hm; simpl; [reflexivity|].
      destruct (lookup G K keqb (key g) memo) as [d|] eqn:E.
      - rewrite (Hm g d E). f_equal. now apply IH.
      - f_equal. apply IH; [assumption|].
        intros h d. simpl. destruct (keqb (key h) (key g)) eqn:Q.
        + intros [= <-]. apply keqb_ok in Q. symmetry. now apply Hk.
        + apply Hm.
    Qed.
  End Decompose.
End Proofs.

(* ---- a concrete instance: gates = integers, operator = product, phases = {+1,-1} acting by sign ---- *)
From Coq Require Import ZArith Lia.
Definition Zop : opmonoid :=
  {| op := Z; ph := Z; omul := Z.mul; oone := 1%Z; pmul := Z.mul; pone := 1%Z; act := Z.mul |}.
Lemma Zop_laws : opmonoid_laws Zop.
Proof. constructor; unfold Zop; cbn; intros; try ring; try (destruct a; reflexivity). Qed.

(* a memo whose key forgets part of the gate value is NOT harmless: gates = (visible, hidden) pairs, the
   decomposition depends on the hidden component, the key shows the visible one only (the shape of a cache keyed
   by (class, qubits, parameters) for a gate that also depends on the split of its qubits into two registers) *)
Definition toy_dec (_ : unit) (g : nat * nat) : list (nat * nat) := [(fst g, snd g); (snd g, snd g)].
Lemma memo_with_partial_key_differs :
  memo_decompose (nat * nat) unit toy_dec nat fst Nat.eqb tt [] [(0, 1); (0, 2)]
  <> circuit_decompose (nat * nat) unit toy_dec tt [(0, 1); (0, 2)].
Proof. vm_compute. discriminate. Qed.
