(* C08/MCXSignedModel.v : executable model of

       gates.X(target).controlled_by( *controls ).decompose( *free, use_toffolis=False )

   (qibo/gates/gates.py, X.decompose with TOFFOLI.congruent(use_toffolis=False)).  Same recursion
   as C08/MCXModel.v ([x_step]); the difference is WHICH three-qubit gates become congruent blocks:

     * base case m < 3: `[X(target).controlled_by( *controls )]` -- X / CNOT / genuine TOFFOLI
       (CNOT.decompose / TOFFOLI.decompose ignore `free` and `use_toffolis`);
     * branch 1 (n >= 2m-1): `first_toffoli = TOFFOLI(controls[m-1], free[m-3], target)` is appended
       as a GENUINE Toffoli; every gate of `gates1` and `gates2` is
       `TOFFOLI(a, b, c).congruent(use_toffolis=False)`, seven RY/CNOT gates, modelled as ONE token
       [CONG c0 c1 c] with (c0, c1) = sorted (a, b) (TOFFOLI.control_qubits is the sorted tuple and
       congruent() reads `control0, control1 = self.control_qubits`);
     * branch 2: the flag is passed unchanged to the two recursive calls.

   The TOFFOLI constructor runs before .congruent(), so repeated qubits raise (None) here as well.
   No proofs here.  [None] = the real code raises, or the fuel ran out (see MCXModel.v). *)
From Coq Require Import List Bool Arith ZArith.
From QV Require Import C08.Reversible C08.MCXModel C08.Signed.
Import ListNotations.

(* TOFFOLI(q0, q1, q2).congruent(use_toffolis=False) as one token *)
Definition cong_of (q0 q1 q2 : nat) : sgate :=
  if q0 <=? q1 then CONG q0 q1 q2 else CONG q1 q0 q2.
Definition mk_cong (q0 q1 q2 : nat) : option sgate :=
  if (q0 =? q1) || (q0 =? q2) || (q1 =? q2) then None else Some (cong_of q0 q1 q2).

Definition x_step_cong (rec : list nat -> nat -> list nat -> option (list sgate))
           (controls0 : list nat) (target : nat) (free : list nat) : option (list sgate) :=
  let controls := isort controls0 in
  let m := length controls in
  if (m =? 1) || (m =? 2) then Some [SCX (controls, target)]
  else if overlap free (controls ++ [target]) then None
  else if m <? 3 then Some [SCX (controls, target)]
  else
    let n := m + 1 + length free in
    let mz := Z.of_nat m in
    if (2 * mz - 1 <=? Z.of_nat n)%Z && (3 <=? m) then
      obind (opt_all (map (fun i : nat =>
               let iz := Z.of_nat i in
               obind (pyget controls (mz - 2 - iz)%Z) (fun a =>
               obind (pyget free (mz - 4 - iz)%Z) (fun b =>
               obind (pyget free (mz - 3 - iz)%Z) (fun c =>
               mk_cong a b c)))) (seq 0 (m - 3)))) (fun gates1 =>
      obind (pyget controls 0%Z) (fun c0 =>
      obind (pyget controls 1%Z) (fun c1 =>
      obind (pyget free 0%Z) (fun f0 =>
      obind (mk_cong c0 c1 f0) (fun gates2 =>
      obind (pyget controls (mz - 1)%Z) (fun cl =>
      obind (pyget free (mz - 3)%Z) (fun fl =>
      obind (mk_toffoli cl fl target) (fun first_toffoli =>
      let dg := SCX first_toffoli :: gates1 ++ gates2 :: rev gates1 in
      Some (dg ++ dg)))))))))
    else if 1 <=? length free then
      let m1 := n / 2 in
      obind (pyget free 0%Z) (fun f0 =>
      let free1 := skipn m1 controls ++ [target] ++ skipn 1 free in
      obind (rec (firstn m1 controls) f0 free1) (fun part1 =>
      let free2 := firstn m1 controls ++ skipn 1 free in
      let controls2 := skipn m1 controls ++ [f0] in
      obind (rec controls2 target free2) (fun part2 =>
      let dg := part1 ++ part2 in
      Some (dg ++ dg))))
    else None.

Fixpoint x_decompose_cong (fuel : nat) : list nat -> nat -> list nat -> option (list sgate) :=
  match fuel with
  | O => x_step_cong (fun _ _ _ => None)
  | S fuel' => x_step_cong (x_decompose_cong fuel')
  end.

Definition mcx_decompose_cong (controls : list nat) (target : nat) (free : list nat)
  : option (list sgate) :=
  x_decompose_cong (length controls) controls target free.

(* comparison helpers for the correspondence check *)
Definition sgate_eqb (a b : sgate) : bool :=
  match a, b with
  | SCX (c, t), SCX (c', t') => nats_eqb c c' && (t =? t')
  | CONG a0 a1 t, CONG b0 b1 t' => (a0 =? b0) && (a1 =? b1) && (t =? t')
  | _, _ => false
  end.
Fixpoint sgates_eqb (a b : list sgate) : bool :=
  match a, b with
  | [], [] => true
  | x :: a', y :: b' => sgate_eqb x y && sgates_eqb a' b'
  | _, _ => false
  end.
Definition same_sresult (r expected : option (list sgate)) : bool :=
  match r, expected with
  | Some a, Some b => sgates_eqb a b
  | None, None => true
  | _, _ => false
  end.
(* the skeleton (signs forgotten) is the gate list of the use_toffolis=True model *)
Definition same_skeleton (r : option (list sgate)) (r' : option (list cx)) : bool :=
  match r, r' with
  | Some a, Some b => cxs_eqb (map erase a) b
  | None, None => true
  | _, _ => false
  end.
