(* C08/PropsCircuit.v : property theorems for the circuit-level wrapper Circuit.decompose( *free).
   Tie to /repo (harness/c08_circuit.py, every run): the queue of the real c.decompose( *free) is compared
   structurally with flat_map of the decompositions of freshly built equal gates, over circuits made of
   collision groups (members equal in class / ordered qubits / parameters, different in construction data,
   history or identity). *)
From Coq Require Import List Bool ZArith.
From QV Require Import C08.CircuitModel C08.CircuitProofs.
Import ListNotations.

(* If every gate of the queue is implemented by its decomposition up to a global phase, the decomposed circuit
   implements the circuit up to a global phase; operators are taken on the WHOLE register, so qubits the circuit
   does not touch -- in particular the free work qubits lent to multi-controlled X gates -- are acted on as the
   circuit acts on them (identity), whatever state they are in.  Any monoid of operators with central phases. *)
Theorem circuit_decompose_ok :
  forall (O : opmonoid), opmonoid_laws O ->
  forall (G : Type) (sem : G -> op O) (F : Type) (dec : F -> G -> list G) (free : F) (queue : list G),
    (forall g, In g queue -> phase_eq O (sem_list O G sem (dec free g)) (sem g)) ->
    phase_eq O (sem_list O G sem (circuit_decompose G F dec free queue)) (sem_list O G sem queue).
Proof. exact circuit_decompose_sound. Qed.
Print Assumptions circuit_decompose_ok.

(* non-vacuity: an instance whose hypotheses hold (operators = integers under product, phases acting by
   multiplication; the "decomposition" of g is the two-gate list [-1; -g], whose product is g) *)
Example circuit_decompose_ok_inhabited :
  phase_eq Zop (sem_list Zop Z (fun g => g) (circuit_decompose Z unit (fun _ g => [(-1)%Z; (- g)%Z]) tt [2%Z; 3%Z; 5%Z]))
               (sem_list Zop Z (fun g => g) [2%Z; 3%Z; 5%Z]).
Proof.
  apply (circuit_decompose_ok Zop Zop_laws). intros g _. exists 1%Z. unfold sem_list, Zop. cbn [fold_left omul oone act op]. ring.
Qed.

(* a decomposition cache is harmless when its key determines the decomposition ... *)
Theorem memo_decompose_ok :
  forall (G F : Type) (dec : F -> G -> list G) (free : F) (K : Type) (key : G -> K) (keqb : K -> K -> bool),
    (forall a b, keqb a b = true <-> a = b) ->
    forall queue, (forall g h, key g = key h -> dec free g = dec free h) ->
    memo_decompose G F dec K key keqb free [] queue = circuit_decompose G F dec free queue.
Proof.
  intros G F dec free K key keqb Hk queue Hd.
  apply (memo_decompose_sound G F dec free K key keqb Hk queue [] Hd). intros g d. discriminate.
Qed.
Print Assumptions memo_decompose_ok.

(* ... and only then: with a key that forgets part of the gate value the cached circuit differs *)
Theorem memo_decompose_partial_key_refuted :
  exists queue, memo_decompose (nat * nat) unit toy_dec nat fst Nat.eqb tt [] queue
                <> circuit_decompose (nat * nat) unit toy_dec tt queue.
Proof. exists [(0, 1); (0, 2)]. exact memo_with_partial_key_differs. Qed.
Print Assumptions memo_decompose_partial_key_refuted.
