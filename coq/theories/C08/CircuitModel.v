(* C08/CircuitModel.v : executable model of Circuit.decompose( *free) (models/circuit.py).
     decomp_circuit = Circuit(nqubits); for gate in queue: decomp_circuit.add(gate.decompose( *free))
   i.e. the queue of the result is the concatenation, in queue order, of the per-gate decompositions.
   The per-gate decomposition [dec] is a parameter of the model: it is a FUNCTION OF THE GATE VALUE (class,
   qubits, current parameters, construction data) and of the free qubits only -- no memo, no history.
   A memoising variant is modelled too (keyed cache threaded through the queue) so that the condition under
   which a cache is harmless can be stated: the key must determine the decomposition.
   No proofs here. *)
From Coq Require Import List.
Import ListNotations.

Section Model.
  Variables (G F : Type).                     (* gate values; the tuple of free qubits *)
  Variable dec : F -> G -> list G.            (* gate.decompose( *free) *)

  Definition circuit_decompose (free : F) (queue : list G) : list G := flat_map (dec free) queue.

  (* memoising variant: the first gate met with a given key fixes the decomposition of that key *)
  Variables (K : Type) (key : G -> K) (keqb : K -> K -> bool).
  Fixpoint lookup (k : K) (memo : list (K * list G)) : option (list G) :=
    match memo with
    | [] => None
    | (k', d) :: memo' => if keqb k k' then Some d else lookup k memo'
    end.
  Fixpoint memo_decompose (free : F) (memo : list (K * list G)) (queue : list G) : list G :=
    match queue with
    | [] => []
    | g :: rest =>
        match lookup (key g) memo with
        | Some d => d ++ memo_decompose free memo rest
        | None => let d := dec free g in d ++ memo_decompose free ((key g, d) :: memo) rest
        end
    end.
End Model.

(* operators: any monoid with a group of central scalars ("global phases") acting on it *)
Record opmonoid : Type := {
  op : Type; ph : Type;
  omul : op -> op -> op; oone : op;
  pmul : ph -> ph -> ph; pone : ph;
  act : ph -> op -> op
}.
Record opmonoid_laws (O : opmonoid) : Prop := {
  omul_assoc : forall a b c, omul O a (omul O b c) = omul O (omul O a b) c;
  omul_1_l : forall a, omul O (oone O) a = a;
  omul_1_r : forall a, omul O a (oone O) = a;
  act_one : forall a, act O (pone O) a = a;
  act_act : forall z w a, act O z (act O w a) = act O (pmul O z w) a;
  act_mul_l : forall z a b, omul O (act O z a) b = act O z (omul O a b);
  act_mul_r : forall z a b, omul O a (act O z b) = act O z (omul O a b)
}.

Section Sem.
  Variable O : opmonoid.
  Variable G : Type.
  Variable sem : G -> op O.                   (* the operator of one gate on the whole register *)
  (* first gate of the list is applied first: U = g_k ... g_2 g_1 *)
  Definition sem_list (gs : list G) : op O := fold_left (fun U g => omul O (sem g) U) gs (oone O).
  Definition phase_eq (a b : op O) : Prop := exists z, a = act O z b.
End Sem.
