(* C08/MCXSignedProofs.v : the decomposition X.decompose( *free, use_toffolis=False ) modelled in
   C08/MCXSignedModel.v is, for EVERY number of controls and every admissible number of borrowed
   qubits, the multi-controlled X with NO relative phase: on every basis state the bits are those
   of mcx_spec (work bits restored) and the accumulated sign of all congruent Toffolis is +.

   Structure
     1. signs at the level of states-as-functions: [sgn], [sigs]; transfer to [run_signed];
     2. the signed ladder erases to the ladder of MCXProofs (so the bit part is inherited);
     3. sign of the ladder  W_k = A_k .. A_1 A_0 A_1 .. A_k  (every A_j congruent): the total sign
        of W_k is INVARIANT under the shift  f_j -> f_j xor (c_0 & .. & c_{j+1}),  j <= k, that W_k
        itself performs on the borrowed bits ([sladder_sign]);  hence in  Top; W_k; Top; W_k  (Top a
        genuine Toffoli onto the target, which W_k never reads) the two copies of W_k contribute the
        same sign and cancel ([sbranch1_sign]).  This is the remark after Lemma 7.2 of Barenco et
        al. 1995 that all Toffolis but the top one may be replaced by relative-phase Toffolis.
        NOTE the individual A_j pairs inside one W_k do NOT cancel (their total depends on the
        borrowed bits); only the two copies of the whole ladder do;
     4. every gate acts inside the register ([in_reg]; no bit is read through a default);
     5. the model computes exactly these gate lists; branch 2 composes sign-free parts. *)
From Coq Require Import List Bool Arith ZArith Lia Permutation.
From QV Require Import C08.Reversible C08.MCXModel C08.MCXProofs C08.Signed C08.MCXSignedModel.
Import ListNotations.

(* ------------------------------------------------------------------ 1. signs on function states *)
Definition sgn (g : sgate) (s : st) : bool :=
  match g with
  | SCX _ => false
  | CONG c0 c1 t => s c0 && negb (s c1) && negb (s t)
  end.

(* accumulated sign of a circuit started in basis state s *)
Fixpoint sigs (gs : list sgate) (s : st) : bool :=
  match gs with
  | [] => false
  | g :: gs' => xorb (sgn g s) (sigs gs' (fapp (erase g) s))
  end.

Lemma sgn_ext g s1 s2 : (forall k, s1 k = s2 k) -> sgn g s1 = sgn g s2.
Proof. intros H. destruct g; cbn [sgn]; [reflexivity|]. now rewrite !H. Qed.

Lemma sigs_ext gs : forall s1 s2, (forall k, s1 k = s2 k) -> sigs gs s1 = sigs gs s2.
Proof.
  induction gs as [|g gs IH]; intros s1 s2 H; cbn [sigs]; [reflexivity|].
  rewrite (sgn_ext g s1 s2 H). f_equal. apply IH. now apply fapp_ext.
Qed.

Lemma sigs_app g1 : forall g2 s,
  sigs (g1 ++ g2) s = xorb (sigs g1 s) (sigs g2 (frun (map erase g1) s)).
Proof.
  induction g1 as [|g g1 IH]; intros g2 s.
  - cbn [app sigs map]. rewrite xorb_false_l. reflexivity.
  - cbn [app sigs map]. rewrite IH, frun_cons. now rewrite xorb_assoc.
Qed.

Lemma sigs_app_false g1 g2 :
  (forall s, sigs g1 s = false) -> (forall s, sigs g2 s = false) -> forall s, sigs (g1 ++ g2) s = false.
Proof. intros H1 H2 s. now rewrite sigs_app, H1, H2. Qed.

(* transfer: the signed run on bit lists = (reversible run of the erased circuit, accumulated sign) *)
Lemma run_signed_get gs : forall b sg,
  Forall (fun g => snd (erase g) < length b) gs ->
  run_signed gs (b, sg) = (run_cx (map erase gs) b, xorb sg (sigs gs (getb b))).
Proof.
  induction gs as [|g gs IH]; intros b sg H.
  - cbn. now rewrite xorb_false_r.
  - inversion H as [|? ? Hg Hgs]; subst.
    change (run_signed (g :: gs) (b, sg)) with (run_signed gs (apply_sgate g (b, sg))).
    assert (E : apply_sgate g (b, sg) = (apply_cx (erase g) b, xorb sg (sgn g (getb b)))).
    { destruct g; cbn [apply_sgate erase sgn fst snd]; [now rewrite xorb_false_r | reflexivity]. }
    rewrite E, IH by (now rewrite apply_cx_length).
    cbn [map sigs]. change (run_cx (erase g :: ?l) b) with (run_cx l (apply_cx (erase g) b)).
    f_equal. rewrite xorb_assoc. f_equal. f_equal. apply sigs_ext. intros k. now apply apply_cx_get.
Qed.

(* ------------------------------------------------------------------ 2. the signed ladder *)
Definition sA (c f : list nat) (j : nat) : sgate :=          (* j >= 1 *)
  cong_of (nth (j + 1) c 0) (nth (j - 1) f 0) (nth j f 0).
Definition sA0 (c f : list nat) : sgate := cong_of (nth 0 c 0) (nth 1 c 0) (nth 0 f 0).
Fixpoint sdown (c f : list nat) (k : nat) : list sgate :=
  match k with O => [] | S k' => sA c f k :: sdown c f k' end.
Definition sladder (c f : list nat) (k : nat) : list sgate :=
  sdown c f k ++ sA0 c f :: rev (sdown c f k).

Lemma erase_cong_of a b t : erase (cong_of a b t) = (isort [a; b], t).
Proof. unfold cong_of. cbn [isort insert]. destruct (a <=? b); reflexivity. Qed.

Lemma erase_sdown c f k : map erase (sdown c f k) = down c f k.
Proof.
  induction k as [|k IH]; [reflexivity|]. cbn [sdown down map]. rewrite IH. f_equal.
  unfold sA. now rewrite erase_cong_of.
Qed.

Lemma erase_sladder c f k : map erase (sladder c f k) = ladder c f k.
Proof.
  unfold sladder, ladder. rewrite map_app. cbn [map]. rewrite map_rev, erase_sdown.
  unfold sA0. now rewrite erase_cong_of.
Qed.

Lemma sladder_S c f k : sladder c f (S k) = sA c f (S k) :: sladder c f k ++ [sA c f (S k)].
Proof. unfold sladder. simpl. rewrite <- app_assoc. reflexivity. Qed.

Lemma sgn_cong_of a b t s :
  sgn (cong_of a b t) s = if a <=? b then s a && negb (s b) && negb (s t)
                          else s b && negb (s a) && negb (s t).
Proof. unfold cong_of. destruct (a <=? b); reflexivity. Qed.

(* ------------------------------------------------------------------ 3. sign of the ladder *)
Section SignedLadder.
  Variables c f : list nat.
  Hypothesis Hcf : forall i j, i < length c -> j < length f -> nth i c 0 <> nth j f 0.
  Hypothesis Hff : forall i j, i < length f -> j < length f -> nth i f 0 = nth j f 0 -> i = j.

  Lemma sladder_sign k : k + 2 <= length c -> k + 1 <= length f ->
    forall s s',
      (forall i, i < length c -> s' (nth i c 0) = s (nth i c 0)) ->
      (forall j, j <= k -> s' (nth j f 0) = xorb (s (nth j f 0)) (pand c s (j + 2))) ->
      sigs (sladder c f k) s' = sigs (sladder c f k) s.
  Proof.
    induction k as [|k IH]; intros Hc Hf s s' Hcs Hfs.
    - change (sladder c f 0) with [sA0 c f]. cbn [sigs]. f_equal.
      unfold sA0. rewrite !sgn_cong_of.
      rewrite (Hfs 0) by lia. rewrite (Hcs 0), (Hcs 1) by lia.
      cbn [pand Nat.add].
      destruct (nth 0 c 0 <=? nth 1 c 0), (s (nth 0 c 0)), (s (nth 1 c 0)), (s (nth 0 f 0)); reflexivity.
    - rewrite sladder_S. set (g := sA c f (S k)).
      set (a := nth (k + 2) c 0). set (b := nth k f 0). set (tq := nth (S k) f 0).
      assert (Eg : erase g = gA c f (S k)) by (unfold g, sA; now rewrite erase_cong_of).
      assert (Hsnd : snd (gA c f (S k)) = tq) by reflexivity.
      assert (Hfst : forall u, forallb u (fst (gA c f (S k))) = u a && u b).
      { intros u. unfold gA. cbn [fst]. rewrite forallb_pair. unfold a, b.
        replace (S k + 1) with (k + 2) by lia. replace (S k - 1) with k by lia. reflexivity. }
      assert (Hsg : forall u, sgn g u = if a <=? b then u a && negb (u b) && negb (u tq)
                                        else u b && negb (u a) && negb (u tq)).
      { intros u. unfold g, sA. rewrite sgn_cong_of. unfold a, b, tq.
        replace (S k + 1) with (k + 2) by lia. replace (S k - 1) with k by lia. reflexivity. }
      assert (Hatq : a <> tq) by (apply Hcf; lia).
      assert (Hbtq : b <> tq) by (intros E; apply Hff in E; lia).
      (* the state after  A_{k+1}; W_k  at the three qubits the second A_{k+1} reads *)
      assert (V : forall u,
                 let u2 := frun (ladder c f k) (fapp (gA c f (S k)) u) in
                 u2 a = u a /\ u2 b = xorb (u b) (pand c u (k + 2))
                 /\ u2 tq = xorb (u tq) (u a && u b)).
      { intros u. cbv zeta.
        destruct (ladder_spec c f Hcf Hff k ltac:(lia) ltac:(lia) (fapp (gA c f (S k)) u)) as [La Lb].
        repeat split.
        - rewrite Lb by (intros j Hj; apply Hcf; lia).
          apply fapp_other. now rewrite Hsnd.
        - unfold b. rewrite (La k) by lia. fold b.
          rewrite fapp_other by now rewrite Hsnd. f_equal.
          apply pand_ext. intros j Hj. apply fapp_other. rewrite Hsnd. apply Hcf; lia.
        - rewrite Lb by (intros j Hj E; apply Hff in E; lia).
          rewrite <- Hsnd at 1. rewrite fapp_tgt, Hsnd, Hfst. reflexivity. }
      cbn [sigs]. rewrite !sigs_app. cbn [sigs]. rewrite erase_sladder, Eg.
      destruct (V s) as (Va & Vb & Vt). destruct (V s') as (Va' & Vb' & Vt').
      (* the inner ladder: induction hypothesis on the states after the first A_{k+1} *)
      assert (IHk : sigs (sladder c f k) (fapp (gA c f (S k)) s')
                    = sigs (sladder c f k) (fapp (gA c f (S k)) s)).
      { apply IH; try lia.
        - intros i Hi. rewrite !fapp_other by (rewrite Hsnd; apply Hcf; lia). now apply Hcs.
        - intros j Hj. rewrite !fapp_other by (rewrite Hsnd; intros E; apply Hff in E; lia).
          rewrite Hfs by lia. f_equal. symmetry. apply pand_ext. intros i Hi.
          apply fapp_other. rewrite Hsnd. apply Hcf; lia. }
      rewrite IHk. rewrite !Hsg. rewrite Va, Vb, Vt, Va', Vb', Vt'.
      assert (Ea : s' a = s a) by (apply Hcs; lia).
      assert (Eb : s' b = xorb (s b) (pand c s (k + 2))) by (apply Hfs; lia).
      assert (Et : s' tq = xorb (s tq) (pand c s (k + 2) && s a)).
      { unfold tq. rewrite Hfs by lia. replace (S k + 2) with (S (k + 2)) by lia. reflexivity. }
      assert (Ep : pand c s' (k + 2) = pand c s (k + 2)).
      { apply pand_ext. intros j Hj. apply Hcs. lia. }
      rewrite Ep, Ea, Eb, Et.
      destruct (a <=? b), (s a), (s b), (s tq), (pand c s (k + 2)),
        (sigs (sladder c f k) (fapp (gA c f (S k)) s)); reflexivity.
  Qed.

  Variable t : nat.
  Hypothesis Htc : forall i, i < length c -> t <> nth i c 0.
  Hypothesis Htf : forall j, j < length f -> t <> nth j f 0.

  Definition sbranch1 (m : nat) : list sgate :=
    let dg := SCX (top c f t m) :: sladder c f (m - 3) in dg ++ dg.

  Lemma erase_sbranch1 m : map erase (sbranch1 m) = branch1 c f t m.
  Proof. unfold sbranch1, branch1. cbv zeta. rewrite map_app. cbn [map erase]. now rewrite erase_sladder. Qed.

  (* Top; W; Top; W : the two ladders see states that differ exactly by the ladder's own shift *)
  Lemma sbranch1_sign m : length c = m -> 3 <= m -> m - 2 <= length f ->
    forall s, sigs (sbranch1 m) s = false.
  Proof.
    intros Hm H3 Hf s. unfold sbranch1. cbv zeta.
    set (k := m - 3). set (T := top c f t m).
    assert (HT : snd T = t) by reflexivity.
    rewrite sigs_app. cbn [sigs sgn map erase]. rewrite erase_sladder, frun_cons.
    set (s1 := fapp T s). set (s2 := frun (ladder c f k) s1). set (s3 := fapp T s2).
    destruct (ladder_spec c f Hcf Hff k ltac:(lia) ltac:(lia) s1) as [La Lb].
    rewrite (sladder_sign k ltac:(lia) ltac:(lia) s1 s3).
    - destruct (sigs (sladder c f k) s1); reflexivity.
    - intros i Hi. unfold s3. rewrite fapp_other by (rewrite HT; intros E; symmetry in E; revert E; now apply Htc).
      unfold s2. apply Lb. intros j Hj. apply Hcf; lia.
    - intros j Hj. unfold s3. rewrite fapp_other by (rewrite HT; intros E; symmetry in E; revert E; apply Htf; lia).
      unfold s2. now apply La.
  Qed.
End SignedLadder.

(* ------------------------------------------------------------------ 4. gates stay in the register *)
(* every qubit a gate touches (target and controls) lies in the register R: no gate of the model
   reads a bit through the default value of [nth] *)
Definition in_reg (R : list nat) (g : sgate) : Prop :=
  forall q, In q (snd (erase g) :: fst (erase g)) -> In q R.

Lemma in_reg_mono R R' g : (forall q, In q R -> In q R') -> in_reg R g -> in_reg R' g.
Proof. intros H Hg q Hq. apply H, Hg, Hq. Qed.

Lemma in_isort_pair q a b : In q (isort [a; b]) -> q = a \/ q = b.
Proof.
  intros H. apply (Permutation_in _ (isort_perm [a; b])) in H.
  destruct H as [<-|[<-|[]]]; auto.
Qed.

Lemma in_reg_cong_of R a b tq : In a R -> In b R -> In tq R -> in_reg R (cong_of a b tq).
Proof.
  intros Ha Hb Ht q. rewrite erase_cong_of. cbn [fst snd]. intros [<-|Hq]; [assumption|].
  apply in_isort_pair in Hq as [->| ->]; assumption.
Qed.

Lemma in_reg_scx_pair R a b tq : In a R -> In b R -> In tq R -> in_reg R (SCX (isort [a; b], tq)).
Proof.
  intros Ha Hb Ht q. cbn [erase fst snd]. intros [<-|Hq]; [assumption|].
  apply in_isort_pair in Hq as [->| ->]; assumption.
Qed.

Lemma sdown_in_reg R c f k :
  (forall x, In x c -> In x R) -> (forall x, In x f -> In x R) ->
  k + 2 <= length c -> k + 1 <= length f -> Forall (in_reg R) (sdown c f k).
Proof.
  intros Hc Hf. induction k as [|k IH]; intros H1 H2; [constructor|].
  cbn [sdown]. constructor; [|apply IH; lia].
  unfold sA. apply in_reg_cong_of; [apply Hc | apply Hf | apply Hf]; apply nth_In; lia.
Qed.

Lemma sladder_in_reg R c f k :
  (forall x, In x c -> In x R) -> (forall x, In x f -> In x R) ->
  k + 2 <= length c -> k + 1 <= length f -> Forall (in_reg R) (sladder c f k).
Proof.
  intros Hc Hf H1 H2. unfold sladder. apply Forall_app. split; [now apply sdown_in_reg|].
  constructor; [|apply Forall_rev; now apply sdown_in_reg].
  unfold sA0. apply in_reg_cong_of; [apply Hc | apply Hc | apply Hf]; apply nth_In; lia.
Qed.

Lemma sbranch1_in_reg R c f t m :
  (forall x, In x c -> In x R) -> (forall x, In x f -> In x R) -> In t R ->
  length c = m -> 3 <= m -> m - 2 <= length f -> Forall (in_reg R) (sbranch1 c f t m).
Proof.
  intros Hc Hf Ht Hm H3 Hl.
  assert (Forall (in_reg R) (SCX (top c f t m) :: sladder c f (m - 3))).
  { constructor; [|apply sladder_in_reg; auto; lia].
    unfold top. apply in_reg_scx_pair; [apply Hc | apply Hf | assumption]; apply nth_In; lia. }
  unfold sbranch1. cbv zeta. apply Forall_app. now split.
Qed.

(* ------------------------------------------------------------------ 5. the model *)
Lemma mk_cong_ok a b c : a <> b -> a <> c -> b <> c -> mk_cong a b c = Some (cong_of a b c).
Proof.
  intros H1 H2 H3. unfold mk_cong.
  apply Nat.eqb_neq in H1, H2, H3. now rewrite H1, H2, H3.
Qed.

Lemma opt_all_sdown c f (F : nat -> option sgate) k :
  (forall i, i < k -> F i = Some (sA c f (k - i))) ->
  opt_all (map F (seq 0 k)) = Some (sdown c f k).
Proof.
  revert F. induction k as [|k IH]; intros F H; [reflexivity|].
  cbn [seq map]. rewrite <- seq_shift, map_map. cbn [opt_all].
  rewrite (H 0) by lia. rewrite (IH (fun i => F (S i))).
  - now rewrite Nat.sub_0_r.
  - intros i Hi. rewrite H by lia. reflexivity.
Qed.

Lemma x_step_cong_base rec c t f :
  length c < 3 -> NoDup (c ++ t :: f) -> x_step_cong rec c t f = Some [SCX (isort c, t)].
Proof.
  intros H ND. unfold x_step_cong. cbv zeta. rewrite isort_length.
  destruct (length c) as [|[|[|n]]] eqn:E; try lia; cbn [Nat.eqb orb]; try reflexivity.
  rewrite overlap_ok by assumption. reflexivity.
Qed.

Lemma x_step_cong_branch1 rec c t f :
  NoDup (c ++ t :: f) -> 3 <= length c -> length c - 2 <= length f ->
  x_step_cong rec c t f = Some (sbranch1 (isort c) f t (length c)).
Proof.
  intros ND H3 Hf. unfold x_step_cong. cbv zeta. rewrite isort_length.
  rewrite overlap_ok by assumption.
  assert (Hcs : length (isort c) = length c) by apply isort_length.
  apply nodup_isort in ND. destruct (nodup_facts _ _ _ ND) as (Hcf & Hff & Htc & Htf).
  set (cs := isort c) in *. set (m := length c) in *.
  rewrite (proj2 (Nat.eqb_neq m 1)), (proj2 (Nat.eqb_neq m 2)) by lia. cbn [orb].
  rewrite (proj2 (Nat.ltb_ge m 3)) by lia.
  rewrite (proj2 (Z.leb_le _ _)) by lia. rewrite (proj2 (Nat.leb_le 3 m)) by lia. cbn [andb].
  rewrite (opt_all_sdown cs f _ (m - 3)).
  2:{ intros i Hi. cbv beta zeta.
      replace (Z.of_nat m - 2 - Z.of_nat i)%Z with (Z.of_nat (m - 2 - i)) by lia.
      replace (Z.of_nat m - 4 - Z.of_nat i)%Z with (Z.of_nat (m - 4 - i)) by lia.
      replace (Z.of_nat m - 3 - Z.of_nat i)%Z with (Z.of_nat (m - 3 - i)) by lia.
      rewrite !pyget_nat by lia. cbn [obind].
      rewrite mk_cong_ok.
      - unfold sA. replace (m - 3 - i + 1) with (m - 2 - i) by lia. replace (m - 3 - i - 1) with (m - 4 - i) by lia. reflexivity.
      - apply Hcf; lia.
      - apply Hcf; lia.
      - intros E. apply Hff in E; lia. }
  cbn [obind]. rewrite (pyget_0 cs), (pyget_1 cs), (pyget_0 f) by lia. cbn [obind].
  rewrite mk_cong_ok;
    [| intros E; apply (NoDup_nth cs 0) in E; [lia | exact (proj1 (nodup_split _ _ ND)) | lia | lia]
     | apply Hcf; lia | apply Hcf; lia].
  cbn [obind].
  replace (Z.of_nat m - 1)%Z with (Z.of_nat (m - 1)) by lia.
  replace (Z.of_nat m - 3)%Z with (Z.of_nat (m - 3)) by lia.
  rewrite !pyget_nat by lia. cbn [obind].
  rewrite mk_toffoli_ok;
    [| apply Hcf; lia | intros E; symmetry in E; revert E; apply Htc; lia
     | intros E; symmetry in E; revert E; apply Htf; lia].
  cbn [obind]. reflexivity.
Qed.

Lemma x_step_cong_branch2 rec c t f0 F :
  3 <= length c -> S (length F) < length c - 2 -> NoDup (c ++ t :: f0 :: F) ->
  x_step_cong rec c t (f0 :: F) =
    obind (rec (firstn ((length c + 1 + S (length F)) / 2) (isort c)) f0
               (skipn ((length c + 1 + S (length F)) / 2) (isort c) ++ [t] ++ F)) (fun p1 =>
    obind (rec (skipn ((length c + 1 + S (length F)) / 2) (isort c) ++ [f0]) t
               (firstn ((length c + 1 + S (length F)) / 2) (isort c) ++ F)) (fun p2 =>
    Some ((p1 ++ p2) ++ (p1 ++ p2)))).
Proof.
  intros H3 Hf ND. unfold x_step_cong. cbv zeta. rewrite isort_length.
  rewrite overlap_ok by assumption.
  set (m := length c) in *.
  rewrite (proj2 (Nat.eqb_neq m 1)), (proj2 (Nat.eqb_neq m 2)) by lia. cbn [orb].
  rewrite (proj2 (Nat.ltb_ge m 3)) by lia.
  cbn [length]. rewrite (proj2 (Z.leb_gt _ _)) by lia. cbn [andb].
  change (1 <=? S (length F)) with true. cbv iota.
  rewrite pyget_0 by (cbn [length]; lia). cbn [obind nth skipn]. reflexivity.
Qed.

(* correctness of a signed gate list: the erased circuit is the multi-controlled X on boolean
   functions (MCXProofs.mcx_ok), the accumulated sign is + from every basis state, and every gate
   acts inside the register controls + target + free *)
Definition smcx_ok (c : list nat) (t : nat) (f : list nat) (gs : list sgate) : Prop :=
  mcx_ok c t f (map erase gs) /\ (forall s, sigs gs s = false)
  /\ Forall (in_reg (c ++ t :: f)) gs.

Lemma smcx_branch1_ok rec c t f :
  NoDup (c ++ t :: f) -> (length c < 3 \/ length c - 2 <= length f) ->
  exists gs, x_step_cong rec c t f = Some gs /\ smcx_ok c t f gs.
Proof.
  intros ND H. destruct (Nat.lt_ge_cases (length c) 3) as [Hm|Hm].
  - exists [SCX (isort c, t)]. split; [now apply x_step_cong_base|]. split; [split|split].
    + intros s q. cbn [map erase]. rewrite frun_cons. change (frun [] ?x) with x. apply fapp_perm, isort_perm.
    + cbn [map erase]. constructor; [|constructor]. apply in_or_app. right. now left.
    + intros s. reflexivity.
    + constructor; [|constructor]. intros q. cbn [erase fst snd]. intros [<-|Hq]; apply in_or_app.
      * right. now left.
      * left. exact (Permutation_in _ (isort_perm c) Hq).
  - assert (Hf : length c - 2 <= length f) by lia.
    exists (sbranch1 (isort c) f t (length c)). split; [now apply x_step_cong_branch1|].
    pose proof (nodup_isort _ _ _ ND) as ND'. destruct (nodup_facts _ _ _ ND') as (Hcf & Hff & Htc & Htf).
    split; [split|split].
    + intros s q. rewrite erase_sbranch1.
      rewrite (branch1_spec (isort c) f Hcf Hff t Htc Htf (length c)); try lia.
      * apply fapp_perm, isort_perm.
      * apply isort_length.
    + rewrite erase_sbranch1.
      eapply Forall_impl; [|apply branch1_targets; lia]. intros g Hg. apply in_or_app. now right.
    + apply (sbranch1_sign (isort c) f Hcf Hff t Htc Htf (length c)); try lia. apply isort_length.
    + apply sbranch1_in_reg; try lia.
      * intros x Hx. apply in_or_app. left. exact (Permutation_in _ (isort_perm c) Hx).
      * intros x Hx. apply in_or_app. right. now right.
      * apply in_or_app. right. now left.
      * apply isort_length.
Qed.

Lemma x_decompose_cong_direct fuel c t f :
  NoDup (c ++ t :: f) -> (length c < 3 \/ length c - 2 <= length f) ->
  exists gs, x_decompose_cong fuel c t f = Some gs /\ smcx_ok c t f gs.
Proof. destruct fuel; cbn [x_decompose_cong]; apply smcx_branch1_ok. Qed.

Theorem x_decompose_cong_ok fuel c t f :
  1 <= fuel -> NoDup (c ++ t :: f) ->
  (length c < 3 \/ length c - 2 <= length f \/ 1 <= length f) ->
  exists gs, x_decompose_cong fuel c t f = Some gs /\ smcx_ok c t f gs.
Proof.
  intros Hfuel ND Hadm.
  destruct (Nat.lt_ge_cases (length c) 3) as [Hm|Hm]; [apply x_decompose_cong_direct; auto|].
  destruct (Nat.le_gt_cases (length c - 2) (length f)) as [Hb|Hb]; [apply x_decompose_cong_direct; auto|].
  destruct f as [|f0 F]; [simpl in Hadm; lia|]. cbn [length] in Hb.
  destruct fuel as [|fuel]; [lia|]. cbn [x_decompose_cong].
  rewrite x_step_cong_branch2 by assumption.
  set (m := length c) in *. set (n := m + 1 + S (length F)). set (m1 := n / 2).
  assert (Hm1 : 2 * m1 <= n < 2 * m1 + 2).
  { pose proof (Nat.div_mod n 2 ltac:(lia)). pose proof (Nat.mod_upper_bound n 2 ltac:(lia)).
    fold m1 in H. lia. }
  assert (Hcs : length (isort c) = m) by apply isort_length.
  set (cs := isort c) in *. set (A := firstn m1 cs). set (B := skipn m1 cs).
  assert (HAB : A ++ B = cs) by apply firstn_skipn.
  assert (HlA : length A = m1) by (apply firstn_length_le; unfold n in Hm1; lia).
  assert (HlB : length B = m - m1) by (unfold B; rewrite skipn_length; lia).
  pose proof (nodup_isort _ _ _ ND) as ND'. fold cs in ND'. rewrite <- HAB in ND'.
  destruct (nodup_calls _ _ _ _ _ ND') as (ND1 & ND2 & HfA & HfB & HtA & HtB & Hft).
  destruct (x_decompose_cong_direct fuel A f0 (B ++ [t] ++ F) ND1) as (p1 & E1 & (S1 & T1) & Z1 & R1).
  { right. rewrite !app_length. cbn [length]. unfold n in Hm1. lia. }
  destruct (x_decompose_cong_direct fuel (B ++ [f0]) t (A ++ F) ND2) as (p2 & E2 & (S2 & T2) & Z2 & R2).
  { right. rewrite !app_length. cbn [length]. unfold n in Hm1. lia. }
  rewrite E1, E2. cbn [obind]. eexists. split; [reflexivity|].
  assert (Hin : forall x, In x c <-> In x A \/ In x B).
  { intros x. rewrite <- in_app_iff, HAB. split; apply Permutation_in;
      [symmetry|]; apply isort_perm. }
  split; [split|split].
  - intros s q. rewrite !map_app.
    rewrite (lemma73 A B f0 t (map erase p1) (map erase p2)) by assumption.
    apply fapp_perm. rewrite HAB. apply isort_perm.
  - rewrite !map_app. repeat (apply Forall_app; split).
    all: (eapply Forall_impl; [|eassumption]); intros g; rewrite !in_app_iff; simpl;
      rewrite !in_app_iff, Hin; simpl; tauto.
  - repeat apply sigs_app_false; assumption.
  - repeat (apply Forall_app; split).
    all: (eapply Forall_impl; [|eassumption]); intros g; apply in_reg_mono; intros q;
      rewrite !in_app_iff; simpl; rewrite !in_app_iff, Hin; simpl; tauto.
Qed.

Lemma x_decompose_cong_no_free fuel c t : 3 <= length c -> x_decompose_cong fuel c t [] = None.
Proof.
  intros H.
  assert (forall rec, x_step_cong rec c t [] = None); [|destruct fuel; cbn [x_decompose_cong]; auto].
  intros rec. unfold x_step_cong. cbv zeta. rewrite isort_length.
  set (m := length c) in *.
  rewrite (proj2 (Nat.eqb_neq m 1)), (proj2 (Nat.eqb_neq m 2)) by lia. cbn [orb overlap existsb].
  rewrite (proj2 (Nat.ltb_ge m 3)) by lia.
  cbn [length]. rewrite (proj2 (Z.leb_gt _ _)) by lia. reflexivity.
Qed.

(* ------------------------------------------------------------------ list-level statements *)
Lemma smcx_ok_to_lists c t f gs N :
  smcx_ok c t f gs -> (forall q, In q (c ++ t :: f) -> q < N) ->
  forall b, length b = N -> run_signed gs (b, false) = (mcx_spec c t b, false).
Proof.
  intros [[Hs Ht] [Hz _]] Hlt b Hb.
  assert (HtN : Forall (fun g => snd g < N) (map erase gs)).
  { eapply Forall_impl; [|exact Ht]. intros g Hg. now apply Hlt. }
  rewrite run_signed_get.
  - rewrite Hz. cbn [xorb]. f_equal.
    apply (frun_to_lists (map erase gs) c t N); auto.
    apply Hlt. apply in_or_app. right. now left.
  - rewrite Forall_map in HtN. now rewrite Hb.
Qed.

Theorem x_decompose_cong_correct fuel c t f N :
  1 <= fuel -> NoDup (c ++ t :: f) -> (forall q, In q (c ++ t :: f) -> q < N) ->
  (length c < 3 \/ 2 * length c - 1 <= length c + 1 + length f \/ 1 <= length f) ->
  exists gs, x_decompose_cong fuel c t f = Some gs
             /\ forall b, length b = N -> run_signed gs (b, false) = (mcx_spec c t b, false).
Proof.
  intros Hfuel ND Hlt Hadm.
  destruct (x_decompose_cong_ok fuel c t f Hfuel ND) as (gs & E & Hok); [lia|].
  exists gs. split; [assumption|]. now apply (smcx_ok_to_lists c t f gs N).
Qed.

Theorem mcx_decompose_cong_correct c t f N :
  NoDup (c ++ t :: f) -> (forall q, In q (c ++ t :: f) -> q < N) ->
  (length c < 3 \/ 2 * length c - 1 <= length c + 1 + length f \/ 1 <= length f) ->
  exists gs, mcx_decompose_cong c t f = Some gs
             /\ forall b, length b = N -> run_signed gs (b, false) = (mcx_spec c t b, false).
Proof.
  intros ND Hlt Hadm. unfold mcx_decompose_cong.
  destruct (Nat.lt_ge_cases (length c) 3) as [Hm|Hm].
  - destruct (x_decompose_cong_direct (length c) c t f ND) as (gs & E & Hok); [now left|].
    exists gs. split; [assumption|]. now apply (smcx_ok_to_lists c t f gs N).
  - apply x_decompose_cong_correct; auto. lia.
Qed.

(* bitwise reading: every control and every borrowed work bit is restored, the target is flipped
   iff all controls are 1, and the amplitude keeps its sign *)
Theorem mcx_decompose_cong_restores c t f N :
  NoDup (c ++ t :: f) -> (forall q, In q (c ++ t :: f) -> q < N) ->
  (length c < 3 \/ 2 * length c - 1 <= length c + 1 + length f \/ 1 <= length f) ->
  exists gs, mcx_decompose_cong c t f = Some gs
             /\ forall b, length b = N ->
                  snd (run_signed gs (b, false)) = false
                  /\ (forall q, q <> t -> nth q (fst (run_signed gs (b, false))) false = nth q b false)
                  /\ nth t (fst (run_signed gs (b, false))) false
                     = xorb (nth t b false) (forallb (fun k => nth k b false) c).
Proof.
  intros ND Hlt Hadm. destruct (mcx_decompose_cong_correct c t f N ND Hlt Hadm) as (gs & E & H).
  exists gs. split; [assumption|]. intros b Hb. rewrite (H b Hb). cbn [fst snd].
  split; [reflexivity|]. split.
  - intros q Hq. now apply mcx_spec_keeps_other_bits.
  - assert (Ht : t < length b) by (rewrite Hb; apply Hlt; apply in_or_app; right; now left).
    unfold mcx_spec. change (nth t (apply_cx (c, t) b) false) with (getb (apply_cx (c, t) b) t).
    rewrite apply_cx_get by assumption. rewrite (fapp_tgt (c, t)). reflexivity.
Qed.

(* every gate of the decomposition acts inside the register controls + target + free (so the
   signed semantics never reads a bit through the default of [nth]) *)
Theorem mcx_decompose_cong_in_register c t f :
  NoDup (c ++ t :: f) ->
  (length c < 3 \/ 2 * length c - 1 <= length c + 1 + length f \/ 1 <= length f) ->
  exists gs, mcx_decompose_cong c t f = Some gs
             /\ forall g, In g gs ->
                  forall q, In q (snd (erase g) :: fst (erase g)) -> In q (c ++ t :: f).
Proof.
  intros ND Hadm. unfold mcx_decompose_cong.
  assert (H : exists gs, x_decompose_cong (length c) c t f = Some gs /\ smcx_ok c t f gs).
  { destruct (Nat.lt_ge_cases (length c) 3) as [Hm|Hm].
    - apply x_decompose_cong_direct; auto.
    - apply x_decompose_cong_ok; auto; lia. }
  destruct H as (gs & E & _ & _ & HR). exists gs. split; [assumption|].
  intros g Hg. rewrite Forall_forall in HR. exact (HR g Hg).
Qed.
