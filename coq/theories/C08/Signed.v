(* C08/Signed.v : signed-permutation model of circuits of X / CNOT / TOFFOLI gates and "congruent
   Toffolis" (TOFFOLI.congruent(use_toffolis=False) of qibo/gates/gates.py: the seven gates
       RY(t,-pi/4) CNOT(c1,t) RY(t,-pi/4) CNOT(c0,t) RY(t,pi/4) CNOT(c1,t) RY(t,pi/4),
   (c0, c1) = the SORTED control qubits of the TOFFOLI).

   A basis state is a pair (bits, sign).  A gate of the alphabet
       SCX (controls, target)   -- X / CNOT / TOFFOLI / multi-controlled X, as in C08/Reversible.v
       CONG c0 c1 t             -- the seven-gate block above as ONE token
   sends the basis vector |b> to  (+/-) |b'>:  SCX permutes the basis states and never changes the
   sign; CONG c0 c1 t acts on the bits as TOFFOLI(c0, c1, t) and multiplies by -1 exactly when the
   INPUT has  c0 = 1, c1 = 0, t = 0.

   Which basis state carries the minus sign was read off the real matrix (the product of the seven
   real qibo matrices, qubit 0 most significant): it is  diag-block(1,1,1,1,-1,1,X)  on (c0, c1, t),
   i.e. the sign sits on |c0 c1 t> = |100> -- NOT on |101> as the docstring of TOFFOLI.congruent
   says ("TOFFOLI with the phase of the |101> state reversed").  |100> is a fixed point of the
   TOFFOLI, so "sign on the input" and "sign on the output" coincide.  The harness proves on every
   run, by a generated TrigNF obligation about the traced product of the seven real gates, that the
   matrix is EXACTLY the one denoted by [cong_table] below (harness/c08_mcx_model.py,
   obligation cong_block_is_signed_toffoli).

   Linearity.  A circuit gs over this alphabet is the monomial matrix U with
       U |b> = (-1)^{snd (run_signed gs (b, false))} | fst (run_signed gs (b, false)) >
   (each token is such a matrix, and these matrices are closed under product: [run_signed_app],
   [run_signed_sign]).  Hence
       forall b, run_signed gs (b, false) = (mcx_spec cs t b, false)
   says that U and the multi-controlled X agree on every computational basis vector, i.e. U IS
   the multi-controlled X: same operator, no relative phase (not even a global one), and -- because
   mcx_spec leaves every bit other than the target alone -- the identity on the borrowed work
   qubits whatever (superposed, entangled) state they are in. *)
From Coq Require Import List Bool Arith Lia.
From QV Require Import Base.Mat C08.Reversible.
Import ListNotations.

Inductive sgate : Type :=
| SCX (g : cx)                   (* no sign *)
| CONG (c0 c1 t : nat).          (* TOFFOLI(c0,c1,t) on the bits, sign -1 iff c0=1, c1=0, t=0 *)

(* the underlying permutation gate *)
Definition erase (g : sgate) : cx :=
  match g with SCX g => g | CONG c0 c1 t => ([c0; c1], t) end.

Definition cong_sign (c0 c1 t : nat) (b : list bool) : bool :=
  nth c0 b false && negb (nth c1 b false) && negb (nth t b false).

Definition sstate := (list bool * bool)%type.       (* bits, sign (true = -1) *)

Definition apply_sgate (g : sgate) (x : sstate) : sstate :=
  match g with
  | SCX g => (apply_cx g (fst x), snd x)
  | CONG c0 c1 t => (apply_cx ([c0; c1], t) (fst x), xorb (snd x) (cong_sign c0 c1 t (fst x)))
  end.

Definition run_signed (gs : list sgate) (x : sstate) : sstate :=
  fold_left (fun s g => apply_sgate g s) gs x.

(* ---- the 8x8 matrix of one CONG token, as data: column |c0 c1 t> -> (row bits, sign) ---- *)
Definition cong_table : list (list bool * (list bool * bool)) :=
  map (fun b => (b, run_signed [CONG 0 1 2] (b, false))) (@allbits 3).

Example cong_table_value :
  cong_table =
  [ ([false; false; false], ([false; false; false], false));
    ([false; false; true ], ([false; false; true ], false));
    ([false; true ; false], ([false; true ; false], false));
    ([false; true ; true ], ([false; true ; true ], false));
    ([true ; false; false], ([true ; false; false], true ));     (* |100> -> -|100> *)
    ([true ; false; true ], ([true ; false; true ], false));
    ([true ; true ; false], ([true ; true ; true ], false));
    ([true ; true ; true ], ([true ; true ; false], false)) ].
Proof. reflexivity. Qed.

(* ---- structure ---- *)
Lemma run_signed_app g1 g2 x : run_signed (g1 ++ g2) x = run_signed g2 (run_signed g1 x).
Proof. unfold run_signed. apply fold_left_app. Qed.

Lemma apply_sgate_bits g x : fst (apply_sgate g x) = apply_cx (erase g) (fst x).
Proof. destruct g; reflexivity. Qed.

(* forgetting the signs gives the reversible circuit of C08/Reversible.v *)
Lemma run_signed_bits gs : forall x, fst (run_signed gs x) = run_cx (map erase gs) (fst x).
Proof.
  induction gs as [|g gs IH]; intros x; [reflexivity|].
  change (run_signed (g :: gs) x) with (run_signed gs (apply_sgate g x)).
  rewrite IH, apply_sgate_bits. reflexivity.
Qed.

(* the initial sign is carried along: the circuit multiplies by its own sign *)
Lemma apply_sgate_sign g b sg :
  apply_sgate g (b, sg) = (fst (apply_sgate g (b, false)), xorb sg (snd (apply_sgate g (b, false)))).
Proof. destruct g; cbn [apply_sgate fst snd]; [now rewrite xorb_false_r | now rewrite xorb_false_l]. Qed.

Lemma run_signed_sign gs : forall b sg,
  run_signed gs (b, sg) = (fst (run_signed gs (b, false)), xorb sg (snd (run_signed gs (b, false)))).
Proof.
  induction gs as [|g gs IH]; intros b sg; [cbn; now rewrite xorb_false_r|].
  change (run_signed (g :: gs) ?x) with (run_signed gs (apply_sgate g x)).
  rewrite (apply_sgate_sign g b sg).
  destruct (apply_sgate g (b, false)) as [b1 s1]. cbn [fst snd].
  rewrite (IH b1 (xorb sg s1)), (IH b1 s1). cbn [fst snd]. now rewrite xorb_assoc.
Qed.

(* ---- checker on all 2^n basis states, sound by proof (bounded cross-checks of real gate lists) *)
Definition signed_check (n : nat) (cs : list nat) (t : nat) (gs : list sgate) : bool :=
  forallb (fun b => let r := run_signed gs (b, false) in
                    bits_eqb (fst r) (mcx_spec cs t b) && negb (snd r)) (@allbits n).

Theorem signed_check_sound n cs t gs :
  signed_check n cs t gs = true ->
  forall b : list bool, length b = n -> run_signed gs (b, false) = (mcx_spec cs t b, false).
Proof.
  unfold signed_check. intros H b Hb. rewrite forallb_forall in H.
  specialize (H b (allbits_complete n b Hb)). cbv zeta in H.
  apply andb_true_iff in H as [H1 H2]. apply bits_eqb_eq in H1. apply negb_true_iff in H2.
  destruct (run_signed gs (b, false)) as [b' s']. cbn [fst snd] in *. now subst.
Qed.

(* one CONG alone is NOT a Toffoli (the sign shows), two in a row cancel *)
Example signed_check_example :
  signed_check 3 [0; 1] 2 [SCX ([0; 1], 2)] = true
  /\ signed_check 3 [0; 1] 2 [CONG 0 1 2] = false
  /\ run_signed [CONG 0 1 2] ([true; false; false], false) = ([true; false; false], true)
  /\ signed_check 3 [] 2 [CONG 0 1 2; CONG 0 1 2; SCX ([], 2)] = true.
Proof. repeat split; reflexivity. Qed.
