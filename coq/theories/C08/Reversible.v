(* C08/Reversible.v : classical reversible circuits of (multi-)controlled X gates acting on bit
   strings, and a checker, sound by proof, that such a circuit computes "flip the target iff all
   controls are 1 and leave every other bit (in particular every borrowed work bit) unchanged"
   on ALL 2^n inputs.  A circuit of X/CNOT/TOFFOLI gates is a permutation matrix whose action on
   basis states is exactly this boolean function, so by linearity the statement covers every
   quantum state of the work qubits. *)
From Coq Require Import List Bool Arith Lia.
From QV Require Import Base.Mat.
Import ListNotations.

Definition cx := (list nat * nat)%type.        (* controls, target *)

Fixpoint flip (t : nat) (b : list bool) : list bool :=
  match b, t with
  | [], _ => []
  | x :: b', O => negb x :: b'
  | x :: b', S t' => x :: flip t' b'
  end.

Definition apply_cx (g : cx) (b : list bool) : list bool :=
  if forallb (fun c => nth c b false) (fst g) then flip (snd g) b else b.

Definition run_cx (gs : list cx) (b : list bool) : list bool := fold_left (fun s g => apply_cx g s) gs b.

Definition mcx_spec (cs : list nat) (t : nat) (b : list bool) : list bool := apply_cx (cs, t) b.

Fixpoint bits_eqb (a b : list bool) : bool :=
  match a, b with
  | [], [] => true
  | x :: a', y :: b' => Bool.eqb x y && bits_eqb a' b'
  | _, _ => false
  end.

Lemma bits_eqb_eq a : forall b, bits_eqb a b = true -> a = b.
Proof.
  induction a as [|x a IH]; intros [|y b] H; simpl in H; try discriminate; [reflexivity|].
  apply andb_true_iff in H as [H1 H2]. apply eqb_prop in H1. f_equal; auto.
Qed.

Definition mcx_check (n : nat) (cs : list nat) (t : nat) (gs : list cx) : bool :=
  forallb (fun b => bits_eqb (run_cx gs b) (mcx_spec cs t b)) (@allbits n).

Lemma allbits_complete n : forall b : list bool, length b = n -> In b (@allbits n).
Proof.
  induction n as [|n IH]; intros b Hb.
  - destruct b; [left; reflexivity | discriminate].
  - destruct b as [|x b]; [discriminate|]. simpl. apply in_or_app.
    destruct x; [right | left]; apply in_map; apply IH; now inversion Hb.
Qed.

Theorem mcx_check_sound n cs t gs :
  mcx_check n cs t gs = true ->
  forall b : list bool, length b = n -> run_cx gs b = mcx_spec cs t b.
Proof.
  unfold mcx_check. intros H b Hb. rewrite forallb_forall in H.
  apply bits_eqb_eq. apply H. now apply allbits_complete.
Qed.

(* the specification really leaves all bits other than the target untouched *)
Lemma flip_other t b k : k <> t -> nth k (flip t b) false = nth k b false.
Proof.
  revert t k. induction b as [|x b IH]; intros t k Hk; destruct t; simpl.
  - reflexivity.
  - reflexivity.
  - destruct k; [congruence | reflexivity].
  - destruct k; [reflexivity|]. apply IH. congruence.
Qed.

Theorem mcx_spec_keeps_other_bits cs t b k :
  k <> t -> nth k (mcx_spec cs t b) false = nth k b false.
Proof.
  intros Hk. unfold mcx_spec, apply_cx. simpl. destruct (forallb _ cs); [now apply flip_other | reflexivity].
Qed.

Example mcx_check_example :
  mcx_check 3 [0; 1] 2 [([0; 1], 2)] = true /\ mcx_check 3 [0; 1] 2 [([0], 2)] = false.
Proof. split; reflexivity. Qed.
