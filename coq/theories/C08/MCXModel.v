(* C08/MCXModel.v : executable model of the recursion of

       gates.X(target).controlled_by( *controls ).decompose( *free, use_toffolis=True )

   (qibo/gates/gates.py, X.decompose; TOFFOLI.congruent(use_toffolis=True) = [TOFFOLI(c0,c1,t)]).
   With use_toffolis=True every produced gate is X / CNOT / TOFFOLI / multi-controlled X, i.e. a
   [cx] = (control list, target) of C08/Reversible.v.  A gate is represented by
   (gate.control_qubits, gate.target_qubits[0]); `control_qubits` is the SORTED tuple of controls
   (abstract.py: `tuple(sorted(self._control_qubits))`), which is what X.decompose reads as
   `controls` and indexes / slices.

   No proofs here.  [None] = the real code raises (ValueError for overlapping qubits / repeated
   qubits in a TOFFOLI, IndexError for an index out of range, NotImplementedError for >= 3
   controls without a free qubit) -- or the fuel (depth of nested decompose calls) ran out.
   MCXProofs shows fuel 1 always suffices on admissible input; [mcx_decompose] uses the number
   of controls as fuel, which is >= 3 whenever a recursive call is made.

   Python list indexing is modelled with integer (Z) indices and wrap-around of negative indices
   ([pyget]); slices l[a:], l[:a] with a >= 0 are [skipn]/[firstn]; `n // 2` is [Nat.div].
   Domain: the gate itself must be constructible, i.e. NoDup (controls ++ [target]). *)
From Coq Require Import List Bool Arith ZArith.
From QV Require Import C08.Reversible.
Import ListNotations.

(* sorted(...) on naturals *)
Fixpoint insert (x : nat) (l : list nat) : list nat :=
  match l with
  | [] => [x]
  | y :: l' => if x <=? y then x :: l else y :: insert x l'
  end.
Fixpoint isort (l : list nat) : list nat :=
  match l with [] => [] | x :: l' => insert x (isort l') end.

(* l[i] with Python semantics: negative indices count from the end, IndexError = None *)
Definition pyget {A : Type} (l : list A) (i : Z) : option A :=
  let len := Z.of_nat (length l) in
  if (i <? 0)%Z
  then (if (i + len <? 0)%Z then None else nth_error l (Z.to_nat (i + len)))
  else nth_error l (Z.to_nat i).

Definition obind {A B : Type} (x : option A) (f : A -> option B) : option B :=
  match x with Some a => f a | None => None end.

Fixpoint opt_all {A : Type} (l : list (option A)) : option (list A) :=
  match l with
  | [] => Some []
  | x :: l' => match x, opt_all l' with Some a, Some r => Some (a :: r) | _, _ => None end
  end.

(* set(a) & set(b) non-empty *)
Definition overlap (a b : list nat) : bool :=
  existsb (fun x => existsb (Nat.eqb x) b) a.

(* TOFFOLI(q0, q1, q2): the constructor raises ValueError on repeated / overlapping qubits;
   .congruent(use_toffolis=True) = .decompose() = [TOFFOLI(c0, c1, t)] with (c0,c1) sorted *)
Definition mk_toffoli (q0 q1 q2 : nat) : option cx :=
  if (q0 =? q1) || (q0 =? q2) || (q1 =? q2) then None else Some (isort [q0; q1], q2).

(* one level of X.decompose; [rec] stands for the recursive calls x1.decompose / x2.decompose *)
Definition x_step (rec : list nat -> nat -> list nat -> option (list cx))
           (controls0 : list nat) (target : nat) (free : list nat) : option (list cx) :=
  let controls := isort controls0 in                 (* self.control_qubits *)
  let m := length controls in
  (* X.controlled_by returns CNOT / TOFFOLI for one / two controls; their decompose() ignores
     `free` (no overlap test) and returns a copy of the gate *)
  if (m =? 1) || (m =? 2) then Some [(controls, target)]
  else if overlap free (controls ++ [target]) then None            (* ValueError *)
  else if m <? 3 then Some [(controls, target)]                    (* m = 0: [X(target)] *)
  else
    let n := m + 1 + length free in
    let mz := Z.of_nat m in
    if (2 * mz - 1 <=? Z.of_nat n)%Z && (3 <=? m) then
      (* gates1 = [TOFFOLI(controls[m-2-i], free[m-4-i], free[m-3-i]) for i in range(m-3)] *)
      obind (opt_all (map (fun i : nat =>
               let iz := Z.of_nat i in
               obind (pyget controls (mz - 2 - iz)%Z) (fun a =>
               obind (pyget free (mz - 4 - iz)%Z) (fun b =>
               obind (pyget free (mz - 3 - iz)%Z) (fun c =>
               mk_toffoli a b c)))) (seq 0 (m - 3)))) (fun gates1 =>
      (* gates2 = TOFFOLI(controls[0], controls[1], free[0]) *)
      obind (pyget controls 0%Z) (fun c0 =>
      obind (pyget controls 1%Z) (fun c1 =>
      obind (pyget free 0%Z) (fun f0 =>
      obind (mk_toffoli c0 c1 f0) (fun gates2 =>
      (* first_toffoli = TOFFOLI(controls[m-1], free[m-3], target) *)
      obind (pyget controls (mz - 1)%Z) (fun cl =>
      obind (pyget free (mz - 3)%Z) (fun fl =>
      obind (mk_toffoli cl fl target) (fun first_toffoli =>
      let dg := first_toffoli :: gates1 ++ gates2 :: rev gates1 in
      Some (dg ++ dg)))))))))                       (* decomp_gates.extend(decomp_gates) *)
    else if 1 <=? length free then
      let m1 := n / 2 in
      obind (pyget free 0%Z) (fun f0 =>
      let free1 := skipn m1 controls ++ [target] ++ skipn 1 free in
      (* x1 = X(free[0]).controlled_by of controls[:m1] *)
      obind (rec (firstn m1 controls) f0 free1) (fun part1 =>
      let free2 := firstn m1 controls ++ skipn 1 free in
      let controls2 := skipn m1 controls ++ [f0] in
      (* x2 = X(target).controlled_by of controls2 *)
      obind (rec controls2 target free2) (fun part2 =>
      let dg := part1 ++ part2 in
      Some (dg ++ dg))))
    else None.                                       (* NotImplementedError *)

(* fuel = allowed depth of nested decompose calls (fuel 0: any recursive call fails) *)
Fixpoint x_decompose (fuel : nat) : list nat -> nat -> list nat -> option (list cx) :=
  match fuel with
  | O => x_step (fun _ _ _ => None)
  | S fuel' => x_step (x_decompose fuel')
  end.

(* entry point: structural fuel = number of controls *)
Definition mcx_decompose (controls : list nat) (target : nat) (free : list nat) : option (list cx) :=
  x_decompose (length controls) controls target free.

(* comparison helpers for the correspondence check *)
Fixpoint nats_eqb (a b : list nat) : bool :=
  match a, b with
  | [], [] => true
  | x :: a', y :: b' => (x =? y) && nats_eqb a' b'
  | _, _ => false
  end.
Fixpoint cxs_eqb (a b : list cx) : bool :=
  match a, b with
  | [], [] => true
  | (c, t) :: a', (c', t') :: b' => nats_eqb c c' && (t =? t') && cxs_eqb a' b'
  | _, _ => false
  end.
Definition same_result (r : option (list cx)) (expected : option (list cx)) : bool :=
  match r, expected with
  | Some a, Some b => cxs_eqb a b
  | None, None => true
  | _, _ => false
  end.
