(* C08/MCXProps.v : property C08, second sentence, for EVERY number of controls:
   "Multi-controlled X decompositions that borrow free work qubits act as the identity on those
    work qubits whatever state they are in."

   Model: C08/MCXModel.v ([x_step]/[x_decompose]/[mcx_decompose], the recursion of X.decompose with
   use_toffolis=True, tied to the real code by the exact gate-list correspondence of
   harness/c08_mcx_model.py).  Semantics: C08/Reversible.v ([run_cx], [mcx_spec]).  The circuits
   consist of X / CNOT / TOFFOLI gates only, i.e. permutations of the computational basis; a
   statement about all bit strings extends by linearity to all quantum states of the register,
   in particular to arbitrary (entangled, unknown) states of the borrowed qubits.

   Admissibility (what the Python code needs): m < 3 controls, or n >= 2m-1 (branch 1), or at
   least one free qubit (branch 2); for m >= 3 this is equivalent to "at least one free qubit".
   With m >= 3 and no free qubit the real code raises NotImplementedError
   ([x_decompose_rejects_no_free]).  Inputs with overlapping qubits are rejected by the real code
   (ValueError) and lie outside the NoDup hypothesis.

   Second half of this file: the variant use_toffolis=False (congruent Toffolis, relative phases).
   Model: C08/MCXSignedModel.v ([x_step_cong]/[mcx_decompose_cong]); semantics: C08/Signed.v
   (signed permutations: basis state = (bits, sign), [run_signed]); proofs: C08/MCXSignedProofs.v. *)
From Coq Require Import List Bool Arith Lia Permutation.
From QV Require Import C08.Reversible C08.MCXModel C08.MCXProofs.
From QV Require Import C08.Signed C08.MCXSignedModel C08.MCXSignedProofs.
Import ListNotations.

(* Main theorem.  m = length controls and length free are arbitrary; N is any register size
   containing all the qubits (N = m + 1 + length free when the qubits fill the register). *)
Theorem mcx_decompose_all_m :
  forall (controls : list nat) (target : nat) (free : list nat) (N : nat),
    NoDup (controls ++ target :: free) ->
    (forall q, In q (controls ++ target :: free) -> q < N) ->
    (length controls < 3
     \/ 2 * length controls - 1 <= length controls + 1 + length free
     \/ 1 <= length free) ->
    exists gs, mcx_decompose controls target free = Some gs
               /\ forall b, length b = N -> run_cx gs b = mcx_spec controls target b.
Proof. exact mcx_decompose_correct. Qed.
Print Assumptions mcx_decompose_all_m.

(* The same, spelled out bitwise: every bit other than the target -- every control and every
   borrowed work bit, whatever its value -- is restored; the target is flipped iff all controls
   are 1. *)
Theorem mcx_work_bits_restored :
  forall (controls : list nat) (target : nat) (free : list nat) (N : nat),
    NoDup (controls ++ target :: free) ->
    (forall q, In q (controls ++ target :: free) -> q < N) ->
    (length controls < 3
     \/ 2 * length controls - 1 <= length controls + 1 + length free
     \/ 1 <= length free) ->
    exists gs, mcx_decompose controls target free = Some gs
               /\ forall b, length b = N ->
                    (forall q, q <> target -> nth q (run_cx gs b) false = nth q b false)
                    /\ nth target (run_cx gs b) false
                       = xorb (nth target b false) (forallb (fun k => nth k b false) controls).
Proof. exact mcx_decompose_restores. Qed.
Print Assumptions mcx_work_bits_restored.

(* Fuel sufficiency: one level of nested decompose calls is enough (the two recursive calls of
   branch 2 always land in the base case or in branch 1). *)
Theorem x_decompose_fuel_sufficient :
  forall (fuel : nat) (controls : list nat) (target : nat) (free : list nat) (N : nat),
    1 <= fuel ->
    NoDup (controls ++ target :: free) ->
    (forall q, In q (controls ++ target :: free) -> q < N) ->
    (length controls < 3
     \/ 2 * length controls - 1 <= length controls + 1 + length free
     \/ 1 <= length free) ->
    exists gs, x_decompose fuel controls target free = Some gs
               /\ forall b, length b = N -> run_cx gs b = mcx_spec controls target b.
Proof. exact x_decompose_correct. Qed.
Print Assumptions x_decompose_fuel_sufficient.

(* Building blocks (Barenco et al. 1995).  Lemma 7.2: base case / branch 1 of one decompose level
   is correct for every m, with m - 2 borrowed bits in arbitrary states, and makes no recursive
   call ([rec] is arbitrary). *)
Theorem mcx_branch1_all_m :
  forall (rec : list nat -> nat -> list nat -> option (list cx))
         (controls : list nat) (target : nat) (free : list nat),
    NoDup (controls ++ target :: free) ->
    (length controls < 3 \/ length controls - 2 <= length free) ->
    exists gs, x_step rec controls target free = Some gs /\ mcx_ok controls target free gs.
Proof. exact mcx_branch1_ok. Qed.
Print Assumptions mcx_branch1_all_m.

(* Lemma 7.3: two smaller multi-controlled X circuits, each applied twice, where the first
   targets a borrowed bit f0 that the second uses as a control. *)
Theorem mcx_lemma73_composition :
  forall (A B : list nat) (f0 t : nat) (p1 p2 : list cx),
    ~ In f0 A -> ~ In f0 B -> ~ In t A -> ~ In t B -> f0 <> t ->
    (forall s q, frun p1 s q = fapp (A, f0) s q) ->
    (forall s q, frun p2 s q = fapp (B ++ [f0], t) s q) ->
    forall s q, frun ((p1 ++ p2) ++ (p1 ++ p2)) s q = fapp (A ++ B, t) s q.
Proof. exact lemma73. Qed.
Print Assumptions mcx_lemma73_composition.

(* the inputs the real code rejects with NotImplementedError *)
Theorem x_decompose_rejects_no_free :
  forall (fuel : nat) (controls : list nat) (target : nat),
    3 <= length controls -> x_decompose fuel controls target [] = None.
Proof. exact x_decompose_no_free. Qed.
Print Assumptions x_decompose_rejects_no_free.

(* the model's sorted(...) *)
Theorem isort_sorted_permutation :
  forall l, sorted_le (isort l) /\ Permutation (isort l) l.
Proof. intros l. split; [apply isort_sorted | apply isort_perm]. Qed.
Print Assumptions isort_sorted_permutation.

(* ---- non-vacuity: the hypotheses are satisfiable in both branches, and the model computes ---- *)
(* branch 2 (m = 4, one free qubit, n = 6 < 2m-1 = 7), non-ascending placement *)
Example mcx_hypotheses_satisfiable_branch2 :
  let c := [5; 2; 4; 1] in let t := 0 in let f := [3] in
  NoDup (c ++ t :: f) /\ (forall q, In q (c ++ t :: f) -> q < 6)
  /\ ~ (length c < 3) /\ ~ (2 * length c - 1 <= length c + 1 + length f) /\ 1 <= length f
  /\ mcx_decompose c t f =
     Some [([4; 5], 3); ([1; 2], 5); ([4; 5], 3); ([1; 2], 5); ([3; 5], 0);
           ([4; 5], 3); ([1; 2], 5); ([4; 5], 3); ([1; 2], 5); ([3; 5], 0)]
  /\ mcx_check 6 c t [([4; 5], 3); ([1; 2], 5); ([4; 5], 3); ([1; 2], 5); ([3; 5], 0);
                      ([4; 5], 3); ([1; 2], 5); ([4; 5], 3); ([1; 2], 5); ([3; 5], 0)] = true.
Proof.
  cbv zeta. split; [|split; [|split; [|split; [|split; [|split]]]]].
  - repeat (constructor; [simpl; intuition discriminate|]). constructor.
  - simpl. intuition lia.
  - simpl. lia.
  - simpl. lia.
  - simpl. lia.
  - vm_compute. reflexivity.
  - vm_compute. reflexivity.
Qed.

(* branch 1 (m = 5, three free qubits, n = 9 >= 2m-1 = 9) *)
Example mcx_hypotheses_satisfiable_branch1 :
  let c := [5; 2; 7; 1; 8] in let t := 0 in let f := [3; 4; 6] in
  NoDup (c ++ t :: f) /\ (forall q, In q (c ++ t :: f) -> q < 9)
  /\ 2 * length c - 1 <= length c + 1 + length f
  /\ mcx_decompose c t f =
     Some [([6; 8], 0); ([4; 7], 6); ([3; 5], 4); ([1; 2], 3); ([3; 5], 4); ([4; 7], 6);
           ([6; 8], 0); ([4; 7], 6); ([3; 5], 4); ([1; 2], 3); ([3; 5], 4); ([4; 7], 6)].
Proof.
  cbv zeta. split; [|split; [|split]].
  - repeat (constructor; [simpl; intuition discriminate|]). constructor.
  - simpl. intuition lia.
  - simpl. lia.
  - vm_compute. reflexivity.
Qed.

(* ======================================================================================== *)
(* use_toffolis=False: every Toffoli except `first_toffoli` of branch 1 (and the gate returned
   for m <= 2 controls) is replaced by TOFFOLI.congruent = 7 RY/CNOT gates = TOFFOLI times a
   diagonal sign (-1 on |c0 c1 t> = |100>, C08/Signed.v; the matrix identity is a generated
   TrigNF obligation re-proved on every run from the traced real gates).  A circuit over
   {X, CNOT, TOFFOLI, multi-controlled X, CONG} is a signed permutation matrix
   |b> -> (+/-)|b'>; [run_signed gs (b, false) = (b', sign)] computes the column of |b>.  So

       forall b, run_signed gs (b, false) = (mcx_spec controls target b, false)

   says: the circuit is EXACTLY the multi-controlled X as an operator (every column agrees, all
   signs +, no relative and not even a global phase), and by linearity it is the identity on the
   borrowed work qubits whatever state they are in.  For EVERY number of controls: *)
Theorem mcx_decompose_congruent_all_m :
  forall (controls : list nat) (target : nat) (free : list nat) (N : nat),
    NoDup (controls ++ target :: free) ->
    (forall q, In q (controls ++ target :: free) -> q < N) ->
    (length controls < 3
     \/ 2 * length controls - 1 <= length controls + 1 + length free
     \/ 1 <= length free) ->
    exists gs, mcx_decompose_cong controls target free = Some gs
               /\ forall b, length b = N ->
                    run_signed gs (b, false) = (mcx_spec controls target b, false).
Proof. exact mcx_decompose_cong_correct. Qed.
Print Assumptions mcx_decompose_congruent_all_m.

(* bitwise: sign +, every bit other than the target restored (controls and borrowed work bits,
   whatever their values), target flipped iff all controls are 1 *)
Theorem mcx_congruent_work_bits_restored :
  forall (controls : list nat) (target : nat) (free : list nat) (N : nat),
    NoDup (controls ++ target :: free) ->
    (forall q, In q (controls ++ target :: free) -> q < N) ->
    (length controls < 3
     \/ 2 * length controls - 1 <= length controls + 1 + length free
     \/ 1 <= length free) ->
    exists gs, mcx_decompose_cong controls target free = Some gs
               /\ forall b, length b = N ->
                    snd (run_signed gs (b, false)) = false
                    /\ (forall q, q <> target ->
                          nth q (fst (run_signed gs (b, false))) false = nth q b false)
                    /\ nth target (fst (run_signed gs (b, false))) false
                       = xorb (nth target b false) (forallb (fun k => nth k b false) controls).
Proof. exact mcx_decompose_cong_restores. Qed.
Print Assumptions mcx_congruent_work_bits_restored.

(* one level of nested decompose calls is enough here as well *)
Theorem x_decompose_congruent_fuel_sufficient :
  forall (fuel : nat) (controls : list nat) (target : nat) (free : list nat) (N : nat),
    1 <= fuel ->
    NoDup (controls ++ target :: free) ->
    (forall q, In q (controls ++ target :: free) -> q < N) ->
    (length controls < 3
     \/ 2 * length controls - 1 <= length controls + 1 + length free
     \/ 1 <= length free) ->
    exists gs, x_decompose_cong fuel controls target free = Some gs
               /\ forall b, length b = N ->
                    run_signed gs (b, false) = (mcx_spec controls target b, false).
Proof. exact x_decompose_cong_correct. Qed.
Print Assumptions x_decompose_congruent_fuel_sufficient.

(* The sign argument (remark after Lemma 7.2 of Barenco et al.): for the ladder
   W_k = A_k .. A_1 A_0 A_1 .. A_k of CONGRUENT Toffolis on controls c and borrowed bits f, the
   accumulated sign is the same from any two basis states s, s' that agree on the controls and
   differ on the borrowed bits by exactly the shift f_j -> f_j xor (c_0 & .. & c_{j+1}) that W_k
   performs.  In  Top; W_k; Top; W_k  the second ladder starts from such a shifted state, so the
   two signs cancel ([mcx_congruent_branch1_all_m]). *)
Theorem mcx_congruent_ladder_sign_invariant :
  forall (c f : list nat),
    (forall i j, i < length c -> j < length f -> nth i c 0 <> nth j f 0) ->
    (forall i j, i < length f -> j < length f -> nth i f 0 = nth j f 0 -> i = j) ->
    forall k, k + 2 <= length c -> k + 1 <= length f ->
    forall s s' : nat -> bool,
      (forall i, i < length c -> s' (nth i c 0) = s (nth i c 0)) ->
      (forall j, j <= k -> s' (nth j f 0) = xorb (s (nth j f 0)) (pand c s (j + 2))) ->
      sigs (sladder c f k) s' = sigs (sladder c f k) s.
Proof. exact sladder_sign. Qed.
Print Assumptions mcx_congruent_ladder_sign_invariant.

(* base case / branch 1 of one decompose level, every m, no recursive call ([rec] arbitrary):
   the erased circuit is the multi-controlled X on boolean functions and the sign is + *)
Theorem mcx_congruent_branch1_all_m :
  forall (rec : list nat -> nat -> list nat -> option (list sgate))
         (controls : list nat) (target : nat) (free : list nat),
    NoDup (controls ++ target :: free) ->
    (length controls < 3 \/ length controls - 2 <= length free) ->
    exists gs, x_step_cong rec controls target free = Some gs
               /\ mcx_ok controls target free (map erase gs)
               /\ (forall s, sigs gs s = false)
               /\ Forall (in_reg (controls ++ target :: free)) gs.
Proof. exact smcx_branch1_ok. Qed.
Print Assumptions mcx_congruent_branch1_all_m.

(* what [sigs] / [erase] mean: the signed run is the reversible run of the erased circuit together
   with the accumulated sign (all targets inside the register) *)
Theorem run_signed_is_reversible_run_and_sign :
  forall (gs : list sgate) (b : list bool) (sg : bool),
    Forall (fun g => snd (erase g) < length b) gs ->
    run_signed gs (b, sg)
    = (run_cx (map erase gs) b, xorb sg (sigs gs (fun k => nth k b false))).
Proof. exact run_signed_get. Qed.
Print Assumptions run_signed_is_reversible_run_and_sign.

(* no totalisation trap: every gate of the decomposition (target and controls, of the genuine
   Toffolis and of the congruent ones) acts inside the register controls + target + free, so the
   semantics never reads a bit through the default value of [nth] *)
Theorem mcx_congruent_gates_inside_register :
  forall (controls : list nat) (target : nat) (free : list nat),
    NoDup (controls ++ target :: free) ->
    (length controls < 3
     \/ 2 * length controls - 1 <= length controls + 1 + length free
     \/ 1 <= length free) ->
    exists gs, mcx_decompose_cong controls target free = Some gs
               /\ forall g, In g gs ->
                    forall q, In q (snd (erase g) :: fst (erase g)) ->
                              In q (controls ++ target :: free).
Proof. exact mcx_decompose_cong_in_register. Qed.
Print Assumptions mcx_congruent_gates_inside_register.

Theorem x_decompose_congruent_rejects_no_free :
  forall (fuel : nat) (controls : list nat) (target : nat),
    3 <= length controls -> x_decompose_cong fuel controls target [] = None.
Proof. exact x_decompose_cong_no_free. Qed.
Print Assumptions x_decompose_congruent_rejects_no_free.

(* ---- non-vacuity: hypotheses satisfiable, the model computes, and the signed semantics is
        sensitive (the same circuits with the top Toffoli ALSO congruent are not sign-free) ---- *)
(* m = 3, one free qubit (branch 1, n = 5 = 2m-1), non-ascending placement *)
Example mcx_congruent_example_m3 :
  let c := [4; 0; 2] in let t := 1 in let f := [3] in
  NoDup (c ++ t :: f) /\ (forall q, In q (c ++ t :: f) -> q < 5)
  /\ 2 * length c - 1 <= length c + 1 + length f
  /\ mcx_decompose_cong c t f
     = Some [SCX ([3; 4], 1); CONG 0 2 3; SCX ([3; 4], 1); CONG 0 2 3]
  /\ signed_check 5 c t [SCX ([3; 4], 1); CONG 0 2 3; SCX ([3; 4], 1); CONG 0 2 3] = true
  /\ signed_check 5 c t [CONG 3 4 1; CONG 0 2 3; CONG 3 4 1; CONG 0 2 3] = false.
Proof.
  cbv zeta. split; [|split; [|split; [|split; [|split]]]].
  - repeat (constructor; [simpl; intuition discriminate|]). constructor.
  - simpl. intuition lia.
  - simpl. lia.
  - vm_compute. reflexivity.
  - vm_compute. reflexivity.
  - vm_compute. reflexivity.
Qed.

(* m = 4, one free qubit (branch 2: n = 6 < 2m-1 = 7) *)
Example mcx_congruent_example_m4 :
  let c := [5; 2; 4; 1] in let t := 0 in let f := [3] in
  NoDup (c ++ t :: f) /\ (forall q, In q (c ++ t :: f) -> q < 6)
  /\ ~ (length c < 3) /\ ~ (2 * length c - 1 <= length c + 1 + length f) /\ 1 <= length f
  /\ mcx_decompose_cong c t f =
     Some [SCX ([4; 5], 3); CONG 1 2 5; SCX ([4; 5], 3); CONG 1 2 5; SCX ([3; 5], 0);
           SCX ([4; 5], 3); CONG 1 2 5; SCX ([4; 5], 3); CONG 1 2 5; SCX ([3; 5], 0)]
  /\ (forall gs, mcx_decompose_cong c t f = Some gs -> signed_check 6 c t gs = true).
Proof.
  cbv zeta. split; [|split; [|split; [|split; [|split; [|split]]]]].
  - repeat (constructor; [simpl; intuition discriminate|]). constructor.
  - simpl. intuition lia.
  - simpl. lia.
  - simpl. lia.
  - simpl. lia.
  - vm_compute. reflexivity.
  - intros gs E. vm_compute in E. injection E as <-. vm_compute. reflexivity.
Qed.

(* m = 6, one free qubit (branch 2 whose halves are branch-1 ladders with congruent gates) and
   m = 5, three free qubits (branch 1 with a three-rung ladder): all 2^8 / 2^9 basis states *)
Example mcx_congruent_example_m6 :
  let c := [7; 3; 0; 5; 2; 6] in let t := 4 in let f := [1] in
  NoDup (c ++ t :: f) /\ (forall q, In q (c ++ t :: f) -> q < 8) /\ 1 <= length f
  /\ mcx_decompose_cong c t f =
     Some [SCX ([5; 7], 1); CONG 3 6 7; CONG 0 2 6; CONG 3 6 7;
           SCX ([5; 7], 1); CONG 3 6 7; CONG 0 2 6; CONG 3 6 7;
           SCX ([0; 7], 4); CONG 1 6 0; SCX ([0; 7], 4); CONG 1 6 0;
           SCX ([5; 7], 1); CONG 3 6 7; CONG 0 2 6; CONG 3 6 7;
           SCX ([5; 7], 1); CONG 3 6 7; CONG 0 2 6; CONG 3 6 7;
           SCX ([0; 7], 4); CONG 1 6 0; SCX ([0; 7], 4); CONG 1 6 0]
  /\ (forall gs, mcx_decompose_cong c t f = Some gs -> signed_check 8 c t gs = true)
  /\ (forall gs, mcx_decompose_cong [5; 2; 7; 1; 8] 0 [3; 4; 6] = Some gs ->
        signed_check 9 [5; 2; 7; 1; 8] 0 gs = true).
Proof.
  cbv zeta. split; [|split; [|split; [|split; [|split]]]].
  - repeat (constructor; [simpl; intuition discriminate|]). constructor.
  - simpl. intuition lia.
  - simpl. lia.
  - vm_compute. reflexivity.
  - intros gs E. vm_compute in E. injection E as <-. vm_compute. reflexivity.
  - intros gs E. vm_compute in E. injection E as <-. vm_compute. reflexivity.
Qed.
