(* C08/MCXProps.v : property C08, second sentence, for EVERY number of controls:
   "Multi-controlled X decompositions that borrow free work qubits act as the identity on those
    work qubits whatever state they are in."

   Model: C08/MCXModel.v ([x_step]/[x_decompose]/[mcx_decompose], the recursion of X.decompose with
   use_toffolis=True, tied to the real code by the exact gate-list correspondence of
   harness/c08_mcx_model.py).  Semantics: C08/Reversible.v ([run_cx], [mcx_spec]).  The circuits
   consist of X / CNOT / TOFFOLI gates only, i.e. permutations of the computational basis; a
   statement about all bit strings extends by linearity to all quantum states of the register,
   in particular to arbitrary (entangled, unknown) states of the borrowed qubits.

   Admissibility (what the Python code needs): m < 3 controls, or n >= 2m-1 (branch 1), or at
   least one free qubit (branch 2); for m >= 3 this is equivalent to "at least one free qubit".
   With m >= 3 and no free qubit the real code raises NotImplementedError
   ([x_decompose_rejects_no_free]).  Inputs with overlapping qubits are rejected by the real code
   (ValueError) and lie outside the NoDup hypothesis. *)
From Coq Require Import List Bool Arith Lia Permutation.
From QV Require Import C08.Reversible C08.MCXModel C08.MCXProofs.
Import ListNotations.

(* Main theorem.  m = length controls and length free are arbitrary; N is any register size
   containing all the qubits (N = m + 1 + length free when the qubits fill the register). *)
Theorem mcx_decompose_all_m :
  forall (controls : list nat) (target : nat) (free : list nat) (N : nat),
    NoDup (controls ++ target :: free) ->
    (forall q, In q (controls ++ target :: free) -> q < N) ->
    (length controls < 3
     \/ 2 * length controls - 1 <= length controls + 1 + length free
     \/ 1 <= length free) ->
    exists gs, mcx_decompose controls target free = Some gs
               /\ forall b, length b = N -> run_cx gs b = mcx_spec controls target b.
Proof. exact mcx_decompose_correct. Qed.
Print Assumptions mcx_decompose_all_m.

(* The same, spelled out bitwise: every bit other than the target -- every control and every
   borrowed work bit, whatever its value -- is restored; the target is flipped iff all controls
   are 1. *)
Theorem mcx_work_bits_restored :
  forall (controls : list nat) (target : nat) (free : list nat) (N : nat),
    NoDup (controls ++ target :: free) ->
    (forall q, In q (controls ++ target :: free) -> q < N) ->
    (length controls < 3
     \/ 2 * length controls - 1 <= length controls + 1 + length free
     \/ 1 <= length free) ->
    exists gs, mcx_decompose controls target free = Some gs
               /\ forall b, length b = N ->
                    (forall q, q <> target -> nth q (run_cx gs b) false = nth q b false)
                    /\ nth target (run_cx gs b) false
                       = xorb (nth target b false) (forallb (fun k => nth k b false) controls).
Proof. exact mcx_decompose_restores. Qed.
Print Assumptions mcx_work_bits_restored.

(* Fuel sufficiency: one level of nested decompose calls is enough (the two recursive calls of
   branch 2 always land in the base case or in branch 1). *)
Theorem x_decompose_fuel_sufficient :
  forall (fuel : nat) (controls : list nat) (target : nat) (free : list nat) (N : nat),
    1 <= fuel ->
    NoDup (controls ++ target :: free) ->
    (forall q, In q (controls ++ target :: free) -> q < N) ->
    (length controls < 3
     \/ 2 * length controls - 1 <= length controls + 1 + length free
     \/ 1 <= length free) ->
    exists gs, x_decompose fuel controls target free = Some gs
               /\ forall b, length b = N -> run_cx gs b = mcx_spec controls target b.
Proof. exact x_decompose_correct. Qed.
Print Assumptions x_decompose_fuel_sufficient.

(* Building blocks (Barenco et al. 1995).  Lemma 7.2: base case / branch 1 of one decompose level
   is correct for every m, with m - 2 borrowed bits in arbitrary states, and makes no recursive
   call ([rec] is arbitrary). *)
Theorem mcx_branch1_all_m :
  forall (rec : list nat -> nat -> list nat -> option (list cx))
         (controls : list nat) (target : nat) (free : list nat),
    NoDup (controls ++ target :: free) ->
    (length controls < 3 \/ length controls - 2 <= length free) ->
    exists gs, x_step rec controls target free = Some gs /\ mcx_ok controls target free gs.
Proof. exact mcx_branch1_ok. Qed.
Print Assumptions mcx_branch1_all_m.

(* Lemma 7.3: two smaller multi-controlled X circuits, each applied twice, where the first
   targets a borrowed bit f0 that the second uses as a control. *)
Theorem mcx_lemma73_composition :
  forall (A B : list nat) (f0 t : nat) (p1 p2 : list cx),
    ~ In f0 A -> ~ In f0 B -> ~ In t A -> ~ In t B -> f0 <> t ->
    (forall s q, frun p1 s q = fapp (A, f0) s q) ->
    (forall s q, frun p2 s q = fapp (B ++ [f0], t) s q) ->
    forall s q, frun ((p1 ++ p2) ++ (p1 ++ p2)) s q = fapp (A ++ B, t) s q.
Proof. exact lemma73. Qed.
Print Assumptions mcx_lemma73_composition.

(* the inputs the real code rejects with NotImplementedError *)
Theorem x_decompose_rejects_no_free :
  forall (fuel : nat) (controls : list nat) (target : nat),
    3 <= length controls -> x_decompose fuel controls target [] = None.
Proof. exact x_decompose_no_free. Qed.
Print Assumptions x_decompose_rejects_no_free.

(* the model's sorted(...) *)
Theorem isort_sorted_permutation :
  forall l, sorted_le (isort l) /\ Permutation (isort l) l.
Proof. intros l. split; [apply isort_sorted | apply isort_perm]. Qed.
Print Assumptions isort_sorted_permutation.

(* ---- non-vacuity: the hypotheses are satisfiable in both branches, and the model computes ---- *)
(* branch 2 (m = 4, one free qubit, n = 6 < 2m-1 = 7), non-ascending placement *)
Example mcx_hypotheses_satisfiable_branch2 :
  let c := [5; 2; 4; 1] in let t := 0 in let f := [3] in
  NoDup (c ++ t :: f) /\ (forall q, In q (c ++ t :: f) -> q < 6)
  /\ ~ (length c < 3) /\ ~ (2 * length c - 1 <= length c + 1 + length f) /\ 1 <= length f
  /\ mcx_decompose c t f =
     Some [([4; 5], 3); ([1; 2], 5); ([4; 5], 3); ([1; 2], 5); ([3; 5], 0);
           ([4; 5], 3); ([1; 2], 5); ([4; 5], 3); ([1; 2], 5); ([3; 5], 0)]
  /\ mcx_check 6 c t [([4; 5], 3); ([1; 2], 5); ([4; 5], 3); ([1; 2], 5); ([3; 5], 0);
                      ([4; 5], 3); ([1; 2], 5); ([4; 5], 3); ([1; 2], 5); ([3; 5], 0)] = true.
Proof.
  cbv zeta. split; [|split; [|split; [|split; [|split; [|split]]]]].
  - repeat (constructor; [simpl; intuition discriminate|]). constructor.
  - simpl. intuition lia.
  - simpl. lia.
  - simpl. lia.
  - simpl. lia.
  - vm_compute. reflexivity.
  - vm_compute. reflexivity.
Qed.

(* branch 1 (m = 5, three free qubits, n = 9 >= 2m-1 = 9) *)
Example mcx_hypotheses_satisfiable_branch1 :
  let c := [5; 2; 7; 1; 8] in let t := 0 in let f := [3; 4; 6] in
  NoDup (c ++ t :: f) /\ (forall q, In q (c ++ t :: f) -> q < 9)
  /\ 2 * length c - 1 <= length c + 1 + length f
  /\ mcx_decompose c t f =
     Some [([6; 8], 0); ([4; 7], 6); ([3; 5], 4); ([1; 2], 3); ([3; 5], 4); ([4; 7], 6);
           ([6; 8], 0); ([4; 7], 6); ([3; 5], 4); ([1; 2], 3); ([3; 5], 4); ([4; 7], 6)].
Proof.
  cbv zeta. split; [|split; [|split]].
  - repeat (constructor; [simpl; intuition discriminate|]). constructor.
  - simpl. intuition lia.
  - simpl. lia.
  - vm_compute. reflexivity.
Qed.
