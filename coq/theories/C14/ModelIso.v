(* C14/ModelIso.v : the full accessor alphabet of a result object on top of the result state
   machine of C03/ModelResult.v, for the two facts behind "every execution result stands alone":

     (1) accessors are pure: no accessor (on this or on another result) changes what a result
         object holds, except that the first sampling accessor fills its empty sample / frequency
         cache, which is then never rewritten;
     (2) the outputs read from a result are a function of (circuit snapshot = cfg, input snapshot =
         (w, nshots) of its own execution, its own draws) only: they are the outputs of the same
         accessor calls on a fresh machine that holds this result alone.

   New operations (result.py):
     XBitflips r draw m0 m1   results[r].apply_bitflips(p0, p1) with a deterministic map (every
                              probability 0 or 1): measurements.apply_bitflips reads result.samples()
                              (materialising them if needed: `draw`) and RETURNS the flipped copy
                              noiseless + (1 - noiseless) * flip_0 - noiseless * flip_1; m0 / m1 are
                              the columns (in the order of the measured qubits) where the 0->1 / 1->0
                              flip fires;
     XPeek r                  state() / state(numpy=True) / symbolic() / to_dict() / dump(): read-only
                              views of what the object holds (the abstract record itself).
   expectation_from_samples(obs) is frequencies(binary=True) followed by a pure function of the
   returned Counter, and is represented by XBase (Freqs r true false fdraw).
   No proofs here. *)
From Coq Require Import List Bool Arith ZArith.
From QV Require Import Base.Mat C03.ModelSamples C03.ModelProbs C03.ModelResult.
Import ListNotations.

Inductive xop :=
| XBase (o : op)
| XBitflips (r : nat) (draw : list nat) (m0 m1 : bits)
| XPeek (r : nat).

Inductive xout :=
| XO (x : out)
| XFlipped (s : list bits)
| XAbs (R : result).

(* noiseless + (1 - noiseless) * flip_0 - noiseless * flip_1, bit by bit *)
Definition flip_bit (b f0 f1 : bool) : bool := if b then negb f1 else f0.
Fixpoint flip_row (m0 m1 : bits) (row : bits) : bits :=
  match row, m0, m1 with
  | b :: row', f0 :: m0', f1 :: m1' => flip_bit b f0 f1 :: flip_row m0' m1' row'
  | _, _, _ => []
  end.

Definition xstep (cfg : config) (m : machine) (o : xop) : machine * xout :=
  match o with
  | XBase o => let '(m', x) := step cfg m o in (m', XO x)
  | XBitflips r draw m0 m1 =>
      match materialise cfg m r draw with
      | None => (m, XO (OErr 1))
      | Some m1' =>
        match nth_error (m_results m1') r with
        | Some R1 =>
          match r_samples R1 with
          | Some sm => (m1', XFlipped (map (flip_row m0 m1) sm))
          | None => (m1', XO (OErr 3))
          end
        | None => (m1', XO (OErr 4))
        end
      end
  | XPeek r =>
      match nth_error (m_results m) r with
      | Some R => (m, XAbs R)
      | None => (m, XO (OErr 4))
      end
  end.

Fixpoint xrun (cfg : config) (m : machine) (h : list xop) : list xout * machine :=
  match h with
  | [] => ([], m)
  | o :: h' =>
      let '(m1, x) := xstep cfg m o in
      let '(xs, mf) := xrun cfg m1 h' in
      (x :: xs, mf)
  end.

(* the machine states after every operation (what the harness compares with the attributes of the
   real result objects after every call) *)
Fixpoint xtrace (cfg : config) (m : machine) (h : list xop) : list (list result) :=
  match h with
  | [] => []
  | o :: h' => let m1 := fst (xstep cfg m o) in m_results m1 :: xtrace cfg m1 h'
  end.

(* which result an operation is called on *)
Definition xtarget (o : xop) : option nat :=
  match o with
  | XBase o => target o
  | XBitflips r _ _ _ => Some r
  | XPeek r => Some r
  end.

(* the same call on the result with index 0 *)
Definition retarget_op (o : op) : op :=
  match o with
  | Samples _ b rg d => Samples 0 b rg d
  | Freqs _ b rg f => Freqs 0 b rg f
  | Probs _ qs => Probs 0 qs
  | o => o
  end.
Definition retarget (o : xop) : xop :=
  match o with
  | XBase o => XBase (retarget_op o)
  | XBitflips _ d m0 m1 => XBitflips 0 d m0 m1
  | XPeek _ => XPeek 0
  end.

Definition targets (r : nat) (o : xop) : bool :=
  match xtarget o with Some r' => r' =? r | None => false end.

(* the calls made on result r, and what they returned *)
Fixpoint outputs_on (r : nat) (h : list xop) (xs : list xout) : list xout :=
  match h, xs with
  | o :: h', x :: xs' => if targets r o then x :: outputs_on r h' xs' else outputs_on r h' xs'
  | _, _ => []
  end.
Definition view (r : nat) (h : list xop) : list xop := map retarget (filter (targets r) h).

(* a machine that holds the result object R alone (fresh measurement-gate caches) *)
Definition solo (cfg : config) (R : result) : machine :=
  mkm (map (fun _ => mkg None None) (c_regs cfg)) [R] None.

(* what a result object holds can only grow from "cache empty" to "cache filled" *)
Definition holds_le (R R' : result) : Prop :=
  r_w R' = r_w R /\ r_nshots R' = r_nshots R /\ r_probs R' = r_probs R /\
  (forall s, r_samples R = Some s -> r_samples R' = Some s) /\
  (forall f, r_freqs R = Some f -> r_freqs R' = Some f).

(* operations that never draw on the result they are called on *)
Definition materialised_for (R : result) (o : xop) : bool :=
  match o with
  | XBase (Samples _ _ _ _) => has_own_samples R
  | XBitflips _ _ _ _ => has_own_samples R
  | XBase (Freqs _ _ _ _) => match r_freqs R with Some _ => true | None => false end
  | XBase (Exec _ _) => false
  | _ => true
  end.

(* ---- executable comparison of abstract records, for the generated correspondence files *)
Definition opt_eqb' {A} (e : A -> A -> bool) (a b : option A) : bool :=
  match a, b with Some x, Some y => e x y | None, None => true | _, _ => false end.
Definition counter_eqb' (f g : counter) : bool :=
  nodupb (keys f) && nodupb (keys g) &&
  forallb (fun v => lookup v f =? lookup v g) (keys f ++ keys g).
Definition result_eqb (a b : result) : bool :=
  list_eqb Z.eqb (r_w a) (r_w b) && (r_nshots a =? r_nshots b) && list_eqb Z.eqb (r_probs a) (r_probs b) &&
  opt_eqb' (list_eqb bits_eqb) (r_samples a) (r_samples b) && opt_eqb' counter_eqb' (r_freqs a) (r_freqs b).
Definition xout_eqb (cmp : out -> out -> bool) (a b : xout) : bool :=
  match a, b with
  | XO x, XO y => cmp x y
  | XFlipped s, XFlipped t => list_eqb (list_eqb Bool.eqb) s t
  | XAbs R, XAbs R' => result_eqb R R'
  | _, _ => false
  end.
