(* C14/Model.v : executions of one circuit object with a seeded random generator, and the
   parallel helpers.  The heap of result objects and measurement-gate caches is the machine of
   C03/ModelResult.v (every result reads only its own caches; the circuit's M.result caches are
   write-only for results; circuit._final_state is the last result).  No proofs here.

   Randomness: numpy's global generator is an abstract deterministic machine
     seed : nat -> G,  gen_shots / gen_shuffle / gen_freqs : G -> request -> answer * G
   (backend.set_seed = np.random.seed resets it; sample_shots, np.random.shuffle and
   sample_frequencies consume it).  User-level operations carry no oracle payload: the draw is
   taken from the generator exactly when the implementation would draw. *)
From Coq Require Import List Bool Arith ZArith.
From QV Require Import Base.Mat C03.ModelSamples C03.ModelProbs C03.ModelResult.
Import ListNotations.

Inductive uop :=
| UExec (w : list Z) (nshots : nat)
| USamples (r : nat) (binary registers : bool)
| UFreqs (r : nat) (binary registers : bool)
| UProbs (r : nat) (qs : list nat)
| UFinal
| USeed (s : nat).                      (* backend.set_seed(s) *)

Section Gen.
  Variable G : Type.
  Variable seed : nat -> G.
  Variable gen_shots : G -> list Z -> nat -> list nat * G.       (* np.random.choice(range(len(p)), size, p) *)
  Variable gen_shuffle : G -> list nat -> list nat * G.          (* np.random.shuffle *)
  Variable gen_freqs : G -> list Z -> nat -> counter * G.        (* sample_frequencies *)

  Definition has (A : Type) (o : option A) : bool := match o with Some _ => true | None => false end.

  (* one user-level operation: decide whether the implementation draws, draw, then do the
     corresponding step of the machine with that draw as oracle payload *)
  Definition sstep (cfg : config) (mg : machine * G) (u : uop) : (machine * G) * out :=
    let '(m, g) := mg in
    match u with
    | USeed s => ((m, seed s), ODone)
    | UExec w ns => let '(m', x) := step cfg m (Exec w ns) in ((m', g), x)
    | UProbs r qs => let '(m', x) := step cfg m (Probs r qs) in ((m', g), x)
    | UFinal => let '(m', x) := step cfg m Final in ((m', g), x)
    | USamples r b rg =>
        match nth_error (m_results m) r with
        | Some R =>
            if has _ (r_samples R)
            then let '(m', x) := step cfg m (Samples r b rg []) in ((m', g), x)
            else
              let '(d, g') := match r_freqs R with
                              | Some F => gen_shuffle g (expand F)
                              | None => gen_shots g (r_probs R) (r_nshots R)
                              end in
              let '(m', x) := step cfg m (Samples r b rg d) in ((m', g'), x)
        | None => let '(m', x) := step cfg m (Samples r b rg []) in ((m', g), x)
        end
    | UFreqs r b rg =>
        match nth_error (m_results m) r with
        | Some R =>
            if has _ (r_freqs R) || has _ (r_samples R)
            then let '(m', x) := step cfg m (Freqs r b rg []) in ((m', g), x)
            else
              let '(f, g') := gen_freqs g (r_probs R) (r_nshots R) in
              let '(m', x) := step cfg m (Freqs r b rg f) in ((m', g'), x)
        | None => let '(m', x) := step cfg m (Freqs r b rg []) in ((m', g), x)
        end
    end.

  Fixpoint srun (cfg : config) (mg : machine * G) (h : list uop) : list out * (machine * G) :=
    match h with
    | [] => ([], mg)
    | u :: h' =>
        let '(mg1, x) := sstep cfg mg u in
        let '(xs, mgf) := srun cfg mg1 h' in
        (x :: xs, mgf)
    end.
End Gen.

(* parallel_execution(circuit, states, processes=k): k threads call
   backend.execute_circuit(circuit, state) on the SAME circuit object; at method-call granularity
   every schedule is some order of the Exec operations.  parallel_parametrized_execution deep-copies
   the circuit per task: every task runs on its own fresh machine. *)
Definition exec_ops (es : list (list Z * nat)) : list op := map (fun e => Exec (fst e) (snd e)) es.
Definition fresh_result (cfg : config) (e : list Z * nat) : result :=
  mkr (fst e) (snd e) (calc_probs (c_n cfg) (cQ cfg) (fst e)) None None.
