(* C14/HistoricalShared.v : HISTORICAL.  The result state machine as it was BEFORE the repair of
   result.py: MeasurementOutcomes.samples()/frequencies()/has_samples() read the caches of the
   circuit's measurement gates back, so all results of one circuit object shared them.  Kept only
   to document the defect: [results_standalone_refuted_before_repair] is the 4-operation witness.
   Nothing else depends on this file; the live model is C03/ModelResult.v. *)
From Coq Require Import List Bool Arith ZArith Lia.
From QV Require Import Base.Mat C03.ModelSamples C03.ModelProbs C03.ModelResult.
Import ListNotations.

(* np.concatenate([...], axis=1) of 2-d arrays: same number of rows, else numpy raises *)
Fixpoint zipapp_shared (a b : list bits) : option (list bits) :=
  match a, b with
  | [], [] => Some []
  | x :: a', y :: b' => option_map (cons (x ++ y)) (zipapp_shared a' b')
  | _, _ => None
  end.
Fixpoint hconcat_shared (l : list (list bits)) : option (list bits) :=
  match l with
  | [] => None
  | [a] => Some a
  | a :: l' => match hconcat_shared l' with Some b => zipapp_shared a b | None => None end
  end.

Definition all_gs_shared (gl : list gcache) : option (list (list bits)) :=
  fold_right (fun g acc => match gs g, acc with Some s, Some l => Some (s :: l) | _, _ => None end)
             (Some []) gl.

Definition g0_has_samples_shared (m : machine) : bool :=
  match m_gates m with g0 :: _ => match gs g0 with Some _ => true | None => false end | [] => false end.

(* the part of MeasurementOutcomes.samples that fills self._samples.
   None = a path the model does not follow (MeasurementResult.samples recursing into
   circuit.final_state.samples(), numpy raising); proved unreachable in ProofsResult. *)
Definition materialise_shared (cfg : config) (m : machine) (r : nat) (draw : list nat) : option machine :=
  match nth_error (m_results m) r with
  | None => None
  | Some R =>
    match r_samples R with
    | Some _ => Some m
    | None =>
      if g0_has_samples_shared m then
        (* self._samples = concatenate([gate.result.samples() for gate in measurements], axis=1) *)
        match all_gs_shared (m_gates m) with
        | None => None
        | Some l =>
            match hconcat_shared l with
            | None => None
            | Some sm => Some (mkm (m_gates m) (update_nth r (set_samples R sm) (m_results m)) (m_final m))
            end
        end
      else
        (* draw = sample_shots(self._probs, nshots), or the shuffled expansion of self._frequencies *)
        let sm := map (to_bin (ck cfg)) draw in
        let Q := cQ cfg in
        Some (mkm (map (fun rg => mkg (Some (map (take_cols (reg_cols Q (fst rg))) sm)) (gf (snd rg)))
                       (combine (c_regs cfg) (m_gates m)))
                  (update_nth r (set_samples R sm) (m_results m)) (m_final m))
    end
  end.

Definition opt_all_shared {A} (l : list (option A)) : option (list A) :=
  fold_right (fun x acc => match x, acc with Some a, Some t => Some (a :: t) | _, _ => None end) (Some []) l.

Definition step_samples_shared (cfg : config) (m : machine) (r : nat) (binary registers : bool)
           (draw : list nat) : machine * out :=
  match materialise_shared cfg m r draw with
  | None => (m, OErr 1)
  | Some m1 =>
    match nth_error (m_results m1) r with
    | Some R1 =>
      match r_samples R1 with
      | Some sm =>
        if registers then
          (* {gate.register_name: gate.result.samples(binary)} *)
          match all_gs_shared (m_gates m1) with
          | Some l => (m1, if binary then ORegSamplesBin l else ORegSamplesDec (map (map to_dec) l))
          | None => (m1, OErr 2)
          end
        else (m1, if binary then OSamplesBin sm else OSamplesDec (map to_dec sm))
      | None => (m1, OErr 3)
      end
    | None => (m1, OErr 4)
    end
  end.

(* gate.result.frequencies(binary) for every gate, caching into gate.result._frequencies *)
Definition gate_freq_shared (g : gcache) : option (gcache * counter) :=
  match gf g with
  | Some f => Some (g, f)
  | None =>
      match gs g with
      | Some s => let f := calc_freq (map to_dec s) in Some (mkg (gs g) (Some f), f)
      | None => None
      end
  end.

Definition step_freqs_shared (cfg : config) (m : machine) (r : nat) (binary registers : bool)
           (fdraw : counter) : machine * out :=
  match nth_error (m_results m) r with
  | None => (m, OErr 4)
  | Some R =>
    let k := ck cfg in
    (* fill self._frequencies *)
    let m1o :=
      match r_freqs R with
      | Some _ => Some m
      | None =>
        if g0_has_samples_shared m || (match r_samples R with Some _ => true | None => false end) then
          (* calculate_frequencies(self.samples(binary=False)) *)
          match materialise_shared cfg m r [] with
          | None => None
          | Some m' =>
            match nth_error (m_results m') r with
            | Some R' =>
              match r_samples R' with
              | Some sm => Some (mkm (m_gates m')
                                    (update_nth r (set_freqs R' (calc_freq (map to_dec sm))) (m_results m'))
                                    (m_final m'))
              | None => None
              end
            | None => None
            end
          end
        else
          (* fdraw = sample_frequencies(self._probs, nshots); the rfreqs loop registers the
             projections on every gate *)
          let Q := cQ cfg in
          Some (mkm (map (fun rg => mkg (gs (snd rg)) (Some (reg_freq k (reg_cols Q (fst rg)) fdraw)))
                         (combine (c_regs cfg) (m_gates m)))
                    (update_nth r (set_freqs R fdraw) (m_results m)) (m_final m))
      end in
    match m1o with
    | None => (m, OErr 1)
    | Some m1 =>
      match nth_error (m_results m1) r with
      | Some R1 =>
        match r_freqs R1 with
        | Some F =>
          if registers then
            match opt_all_shared (map gate_freq_shared (m_gates m1)) with
            | Some gl =>
                let m2 := mkm (map fst gl) (m_results m1) (m_final m1) in
                (m2, if binary
                     then ORegFreqBin (map (fun rf => fbin (length (fst rf)) (snd rf))
                                           (combine (c_regs cfg) (map snd gl)))
                     else ORegFreqDec (map snd gl))
            | None => (m1, OErr 2)
            end
          else (m1, if binary then OFreqBin (fbin k F) else OFreqDec F)
        | None => (m1, OErr 3)
        end
      | None => (m1, OErr 4)
      end
    end
  end.

Definition step_shared (cfg : config) (m : machine) (o : op) : machine * out :=
  match o with
  | Exec w nshots =>
      (* CircuitResult.__init__: probs = QuantumState.probabilities(self, qubits) over the global
         measured qubits; nothing is written to the measurement gates; circuit._final_state = it *)
      (mkm (m_gates m)
           (m_results m ++ [mkr w nshots (calc_probs (c_n cfg) (cQ cfg) w) None None])
           (Some (length (m_results m))), ODone)
  | Samples r b rg draw => step_samples_shared cfg m r b rg draw
  | Freqs r b rg fdraw => step_freqs_shared cfg m r b rg fdraw
  | Probs r qs =>
      match nth_error (m_results m) r with
      | Some R => (m, OProbs (calc_probs (c_n cfg) qs (r_w R)))
      | None => (m, OErr 4)
      end
  | Final => (m, OFinal (m_final m))
  end.


Fixpoint run_shared (cfg : config) (m : machine) (h : list op) : list out * machine :=
  match h with
  | [] => ([], m)
  | o :: h' =>
      let '(m1, x) := step_shared cfg m o in
      let '(xs, mf) := run_shared cfg m1 h' in
      (x :: xs, mf)
  end.

Definition wit_cfg : config := mkcfg 1 [[0]].
(* r1 = c(|0>, nshots=1); r2 = c(|1>, nshots=1); r1.samples(binary=False) draws [0];
   r2.samples(binary=False) drew nothing and returned r1's shot *)
Definition wit_h : list op :=
  [Exec [1; 0]%Z 1; Exec [0; 1]%Z 1; Samples 0 false false [0]; Samples 1 false false []].

Lemma wit_outputs_before_repair :
  fst (run_shared wit_cfg (init wit_cfg) wit_h) = [ODone; ODone; OSamplesDec [0]; OSamplesDec [0]].
Proof. vm_compute. reflexivity. Qed.

(* the output read from the second result, [0], has probability zero for its own execution |1> *)
Lemma results_standalone_refuted_before_repair :
  ~ (exists sh, shots_ok wit_cfg [0; 1]%Z 1 sh /\
                explains wit_cfg [0; 1]%Z sh (Samples 1 false false []) (OSamplesDec [0])).
Proof.
  intros [sh [[_ HF] He]]. cbn [explains] in He. subst sh.
  inversion HF as [|? ? [_ Hnz] _]; subst. apply Hnz. vm_compute. reflexivity.
Qed.

(* on the repaired model the same history is fine *)
Lemma wit_outputs_after_repair :
  fst (run wit_cfg (init wit_cfg) (firstn 3 wit_h ++ [Samples 1 false false [1]])) =
  [ODone; ODone; OSamplesDec [0]; OSamplesDec [1]].
Proof. vm_compute. reflexivity. Qed.
