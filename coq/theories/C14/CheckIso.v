(* C14/CheckIso.v : executable comparison functions for the generated correspondence files of the
   extended accessor histories (harness/c14_iso.py).  No proofs here; no theorem depends on this
   file. *)
From Coq Require Import List Bool Arith ZArith.
From QV Require Import Base.Mat Base.Zi C03.ModelSamples C03.ModelProbs C03.ModelCollapse C03.ModelResult C03.Check C14.ModelIso.
Import ListNotations.

(* the operation of the base machine with the same effect on the heap (used for the sampler
   contract only: apply_bitflips draws exactly like samples(); a peek draws nothing) *)
Definition as_base (o : xop) : op :=
  match o with
  | XBase o => o
  | XBitflips r d _ _ => Samples r true false d
  | XPeek r => Probs r []
  end.

(* one boolean per operation: model output == implementation output *)
Definition xcheck_history (cfg : config) (h : list xop) (impl : list xout) : list bool :=
  oracles_ok cfg (init cfg) (map as_base h) ::
  (length impl =? length h) ::
  map (fun p => xout_eqb out_eqb (fst p) (snd p)) (combine (fst (xrun cfg (init cfg) h)) impl).

(* what every real result object holds after every call == the model's heap after every step *)
Definition xtrace_ok (cfg : config) (h : list xop) (tr : list (list result)) : list bool :=
  (length tr =? length h) ::
  map (fun p => list_eqb result_eqb (fst p) (snd p)) (combine (xtrace cfg (init cfg) h) tr).

(* specification: every output read from result r is explained by ONE list of shots that is
   admissible for r's own execution *)
Definition xexplainsb (cfg : config) (w : list Z) (sh : list nat) (o : xop) (x : xout) : bool :=
  match o, x with
  | XBase o, XO x => explainsb cfg w sh o x
  | XBitflips _ _ m0 m1, XFlipped s =>
      list_eqb bits_eqb s (map (fun v => flip_row m0 m1 (to_bin (ck cfg) v)) sh)
  | XPeek _, XAbs R => list_eqb Z.eqb (r_w R) w
  | _, _ => false
  end.
Definition xneeds_shots (o : xop) : bool :=
  match o with XBase o => needs_shots o | XBitflips _ _ _ _ => true | XPeek _ => false end.
Definition xitems_of (r : nat) (h : list xop) (xs : list xout) : list (xop * xout) :=
  filter (fun p => targets r (fst p)) (combine h xs).
Definition xspec_verdict (cfg : config) (h : list xop) (xs : list xout) (r : nat) (R : result)
           (cand : option (list nat)) : bool :=
  let items := xitems_of r h xs in
  match cand with
  | None => forallb (fun p => negb (xneeds_shots (fst p)) && xexplainsb cfg (r_w R) [] (fst p) (snd p)) items
  | Some sh => shots_okb cfg (r_w R) (r_nshots R) sh &&
               forallb (fun p => xexplainsb cfg (r_w R) sh (fst p) (snd p)) items
  end.
Definition xspec_verdicts (cfg : config) (h : list xop) (xs : list xout)
           (cands : list (option (list nat))) : list bool :=
  let mf := snd (xrun cfg (init cfg) h) in
  map (fun p => xspec_verdict cfg h xs (fst (fst p)) (snd (fst p)) (snd p))
      (combine (combine (seq 0 (length (m_results mf))) (m_results mf)) cands).

(* theorem result_function_of_own_execution on the implementation's side: the outputs the real
   code returned for result r == the model's outputs of the same calls on a machine holding the
   result alone *)
Definition xsolo_ok (cfg : config) (h : list xop) (impl : list xout) (r : nat) (w : list Z) (ns : nat) : bool :=
  list_eqb (xout_eqb out_eqb)
           (outputs_on r h impl)
           (fst (xrun cfg (solo cfg (mkr w ns (calc_probs (c_n cfg) (cQ cfg) w) None None)) (view r h))).
