(* C14/Proofs.v *)
From Coq Require Import List Bool Arith ZArith Lia.
From QV Require Import Base.Mat C03.ModelSamples C03.ModelProbs C03.ModelResult C03.ProofsResult C14.Model.
Import ListNotations.

(* ---------- seeding *)
Section Seed.
  Variable G : Type.
  Variable seed : nat -> G.
  Variable gen_shots : G -> list Z -> nat -> list nat * G.
  Variable gen_shuffle : G -> list nat -> list nat * G.
  Variable gen_freqs : G -> list Z -> nat -> counter * G.

  Lemma seed_erases_generator cfg m g1 g2 s h :
    srun G seed gen_shots gen_shuffle gen_freqs cfg (m, g1) (USeed s :: h) =
    srun G seed gen_shots gen_shuffle gen_freqs cfg (m, g2) (USeed s :: h).
  Proof. reflexivity. Qed.
End Seed.

(* ---------- executions do not touch the shared caches; every schedule of k executions
   creates the same k result objects *)
Lemma run_app cfg h1 : forall m h2,
  run cfg m (h1 ++ h2) =
  (fst (run cfg m h1) ++ fst (run cfg (snd (run cfg m h1)) h2), snd (run cfg (snd (run cfg m h1)) h2)).
Proof.
  induction h1 as [|o h1 IH]; intros m h2; cbn [app run fst snd].
  - now destruct (run cfg m h2).
  - destruct (step cfg m o) as [m1 x]. rewrite IH.
    destruct (run cfg m1 h1) as [xs1 mf1]. cbn [fst snd].
    destruct (run cfg mf1 h2) as [xs2 mf2]. reflexivity.
Qed.

Lemma run_execs cfg es : forall m,
  m_gates (snd (run cfg m (exec_ops es))) = m_gates m /\
  m_results (snd (run cfg m (exec_ops es))) = m_results m ++ map (fresh_result cfg) es.
Proof.
  induction es as [|e es IH]; intros m; cbn [exec_ops map].
  - cbn [run snd]. now rewrite app_nil_r.
  - fold (exec_ops es). cbn [run step].
    specialize (IH (mkm (m_gates m)
                        (m_results m ++ [mkr (fst e) (snd e) (calc_probs (c_n cfg) (cQ cfg) (fst e)) None None])
                        (Some (length (m_results m))))).
    destruct (run cfg _ (exec_ops es)) as [xs mf]. cbn [snd m_gates m_results] in *.
    destruct IH as [H1 H2]. split; [exact H1|]. rewrite H2, <- app_assoc. reflexivity.
Qed.

(* ---------- a circuit object that is executed once: special case of the general theorem *)
Lemma one_execution cfg w ns h :
  cfg_wf cfg ->
  hist_wf cfg 0 (Exec w ns :: h) = true ->
  oracles_ok cfg (init cfg) (Exec w ns :: h) = true ->
  standalone cfg (Exec w ns :: h).
Proof. intros Hcfg Hwf Hor. now apply all_histories_standalone. Qed.
