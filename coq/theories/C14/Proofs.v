(* C14/Proofs.v *)
From Coq Require Import List Bool Arith ZArith Lia.
From QV Require Import Base.Mat C03.ModelSamples C03.ModelProbs C03.ModelResult C03.ProofsResult C14.Model.
Import ListNotations.

(* ---------- the statement "every result stands alone" is false of the faithful model *)
Definition wit_cfg : config := mkcfg 1 [[0]].
(* r1 = c(|0>, nshots=1); r2 = c(|1>, nshots=1); r1.samples(binary=False) draws [0];
   r2.samples(binary=False) draws nothing *)
Definition wit_h : list op :=
  [Exec [1; 0]%Z 1; Exec [0; 1]%Z 1; Samples 0 false false [0]; Samples 1 false false []].

Lemma wit_cfg_wf : cfg_wf wit_cfg.
Proof.
  split; [discriminate|]. split.
  - cbn. constructor; [intros []|constructor].
  - cbn. intros q [<-|[]]. lia.
Qed.

Lemma wit_outputs :
  fst (run wit_cfg (init wit_cfg) wit_h) = [ODone; ODone; OSamplesDec [0]; OSamplesDec [0]].
Proof. vm_compute. reflexivity. Qed.

Lemma wit_not_standalone : ~ standalone wit_cfg wit_h.
Proof.
  unfold standalone.
  assert (E : run wit_cfg (init wit_cfg) wit_h =
              ([ODone; ODone; OSamplesDec [0]; OSamplesDec [0]],
               snd (run wit_cfg (init wit_cfg) wit_h))).
  { rewrite <- wit_outputs. now destruct (run wit_cfg (init wit_cfg) wit_h). }
  rewrite E. intros H.
  assert (HR : nth_error (m_results (snd (run wit_cfg (init wit_cfg) wit_h))) 1
               = Some (mkr [0; 1]%Z 1 [0; 1]%Z (Some [[false]]) None)).
  { vm_compute. reflexivity. }
  destruct (H 1 _ HR) as [sh [Hs He]].
  specialize (He 3 (Samples 1 false false []) (OSamplesDec [0]) eq_refl eq_refl eq_refl).
  cbn [explains] in He. subst sh.
  assert (Hsam : sampled 1 wit_h).
  { exists (Samples 1 false false []). split; [cbn; tauto | split; reflexivity]. }
  destruct (Hs Hsam) as [_ HF]. cbn [r_w r_nshots] in HF.
  inversion HF as [|? ? [_ Hnz] _]; subst. apply Hnz. vm_compute. reflexivity.
Qed.

(* ---------- seeding *)
Section Seed.
  Variable G : Type.
  Variable seed : nat -> G.
  Variable gen_shots : G -> list Z -> nat -> list nat * G.
  Variable gen_shuffle : G -> list nat -> list nat * G.
  Variable gen_freqs : G -> list Z -> nat -> counter * G.

  Lemma seed_erases_generator cfg m g1 g2 s h :
    srun G seed gen_shots gen_shuffle gen_freqs cfg (m, g1) (USeed s :: h) =
    srun G seed gen_shots gen_shuffle gen_freqs cfg (m, g2) (USeed s :: h).
  Proof. reflexivity. Qed.
End Seed.

(* ---------- executions do not touch the shared caches; every schedule of k executions
   creates the same k result objects *)
Lemma run_app cfg h1 : forall m h2,
  run cfg m (h1 ++ h2) =
  (fst (run cfg m h1) ++ fst (run cfg (snd (run cfg m h1)) h2), snd (run cfg (snd (run cfg m h1)) h2)).
Proof.
  induction h1 as [|o h1 IH]; intros m h2; cbn [app run fst snd].
  - now destruct (run cfg m h2).
  - destruct (step cfg m o) as [m1 x]. rewrite IH.
    destruct (run cfg m1 h1) as [xs1 mf1]. cbn [fst snd].
    destruct (run cfg mf1 h2) as [xs2 mf2]. reflexivity.
Qed.

Lemma run_execs cfg es : forall m,
  m_gates (snd (run cfg m (exec_ops es))) = m_gates m /\
  m_results (snd (run cfg m (exec_ops es))) = m_results m ++ map (fresh_result cfg) es.
Proof.
  induction es as [|e es IH]; intros m; cbn [exec_ops map].
  - cbn [run snd]. now rewrite app_nil_r.
  - fold (exec_ops es). cbn [run step].
    specialize (IH (mkm (m_gates m)
                        (m_results m ++ [mkr (fst e) (snd e) (calc_probs (c_n cfg) (cQ cfg) (fst e)) None None])
                        (Some (length (m_results m))))).
    destruct (run cfg _ (exec_ops es)) as [xs mf]. cbn [snd m_gates m_results] in *.
    destruct IH as [H1 H2]. split; [exact H1|]. rewrite H2, <- app_assoc. reflexivity.
Qed.

(* ---------- a circuit object that is executed once (e.g. a deep copy per task) *)
Lemma hist_wf_no_exec cfg nres h :
  forallb (fun o => match o with Exec _ _ => false | _ => true end) h = true ->
  hist_wf cfg nres h = true ->
  forallb (fun o => match target o with Some r => r <? nres | None => true end) h = true.
Proof.
  induction h as [|o h IH]; intros Hne Hwf; [reflexivity|].
  cbn [forallb hist_wf] in *. apply andb_true_iff in Hne. destruct Hne as [Ho Hne].
  apply andb_true_iff in Hwf. destruct Hwf as [Hop Hwf].
  apply andb_true_iff. split.
  - destruct o; cbn [target op_wf] in *; try reflexivity; try exact Hop.
    apply andb_true_iff in Hop. destruct Hop as [Hop _]. apply andb_true_iff in Hop. tauto.
  - apply IH; [exact Hne|]. destruct o; try exact Hwf. discriminate.
Qed.

Lemma one_execution cfg w ns h :
  cfg_wf cfg ->
  forallb (fun o => match o with Exec _ _ => false | _ => true end) h = true ->
  hist_wf cfg 0 (Exec w ns :: h) = true ->
  oracles_ok cfg (init cfg) (Exec w ns :: h) = true ->
  standalone cfg (Exec w ns :: h).
Proof.
  intros Hcfg Hne Hwf Hor. apply (single_reader_standalone cfg 0 Hcfg); try assumption.
  cbn [single_reader forallb andb]. cbn [hist_wf op_wf andb] in Hwf.
  pose proof (hist_wf_no_exec cfg 1 h Hne Hwf) as Ht.
  rewrite forallb_forall in *. intros o Hin. specialize (Ht o Hin).
  destruct o; cbn [target] in Ht; try reflexivity; apply Nat.eqb_eq; apply Nat.ltb_lt in Ht; lia.
Qed.

(* ---------- the 4-operation witness is minimal: every history of at most 3 operations reads
   at most one result, hence stands alone *)
Definition first_reader (h : list op) : nat :=
  match filter needs_shots h with
  | o :: _ => match target o with Some r => r | None => 0 end
  | [] => 0
  end.

Lemma short_single_reader cfg h :
  length h <= 3 -> hist_wf cfg 0 h = true -> single_reader (first_reader h) h = true.
Proof.
  intros Hlen Hwf.
  destruct h as [|a [|b [|c [|d t]]]]; [reflexivity | | | | cbn [length] in Hlen; lia].
  all: destruct a; try destruct b; try destruct c;
    cbn [hist_wf op_wf single_reader forallb first_reader filter needs_shots target andb] in *;
    repeat rewrite andb_true_iff in *; repeat rewrite Nat.ltb_lt in *; repeat rewrite Nat.eqb_eq in *;
    try reflexivity; try lia; repeat split; try reflexivity; try lia.
Qed.

Lemma short_histories_standalone cfg h :
  cfg_wf cfg -> length h <= 3 -> hist_wf cfg 0 h = true -> oracles_ok cfg (init cfg) h = true ->
  standalone cfg h.
Proof.
  intros Hcfg Hlen Hwf Hor.
  apply (single_reader_standalone cfg (first_reader h) Hcfg h Hwf Hor).
  now apply (short_single_reader cfg).
Qed.
