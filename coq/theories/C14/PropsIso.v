(* C14/PropsIso.v : theorems about C14/ModelIso.v (proofs in C14/ProofsIso.v).

   "Every execution result stands alone", for the full accessor alphabet of a result object
   (samples / frequencies / probabilities / apply_bitflips / state, symbolic, to_dict):
     - accessors are write-once on the record they are called on and never touch another record
       (accessors_write_once, accessors_write_once_run, other_results_untouched,
        executions_keep_results, materialised_accessor_identity);
     - what is read from a result is what the same calls return on a fresh machine holding that
       result alone (result_function_of_own_execution and corollaries): a function of cfg (the
       circuit snapshot), (w, nshots) of its own execution and its own draws only.
   All statements are universally quantified over configurations, machines (any reachable or
   unreachable heap), operations and histories; no well-formedness premise is needed. *)
From Coq Require Import List Bool Arith ZArith.
From QV Require Import Base.Mat C03.ModelSamples C03.ModelProbs C03.ModelResult C14.ModelIso
                       C14.ProofsIso.
Import ListNotations.

(* 1. every operation (executions included: they only append) keeps every existing result object,
      with the same w / nshots / probs, and never rewrites a filled cache *)
Theorem accessors_write_once : forall cfg m o r R,
  nth_error (m_results m) r = Some R ->
  exists R', nth_error (m_results (fst (xstep cfg m o))) r = Some R' /\ holds_le R R'.
Proof. exact accessors_write_once_proof. Qed.
Print Assumptions accessors_write_once.

(* 2. the same along every history *)
Theorem accessors_write_once_run : forall cfg h m r R,
  nth_error (m_results m) r = Some R ->
  exists R', nth_error (m_results (snd (xrun cfg m h))) r = Some R' /\ holds_le R R'.
Proof. exact accessors_write_once_run_proof. Qed.
Print Assumptions accessors_write_once_run.

(* 3. an accessor called on result r leaves every other result object exactly as it was (also
      when r does not exist: the call raises) *)
Theorem other_results_untouched : forall cfg m o r r',
  xtarget o = Some r -> r' <> r ->
  nth_error (m_results (fst (xstep cfg m o))) r' = nth_error (m_results m) r'.
Proof. exact other_results_untouched_proof. Qed.
Print Assumptions other_results_untouched.

(*    executions and circuit.final_state leave every existing result object exactly as it was *)
Theorem executions_keep_results : forall cfg m o,
  xtarget o = None ->
  forall r' R, nth_error (m_results m) r' = Some R ->
               nth_error (m_results (fst (xstep cfg m o))) r' = Some R.
Proof. exact executions_keep_results_proof. Qed.
Print Assumptions executions_keep_results.

(* 4. an accessor that does not have to draw leaves the WHOLE heap unchanged (measurement-gate
      caches and circuit._final_state included) *)
Theorem materialised_accessor_identity : forall cfg m o r R,
  xtarget o = Some r -> nth_error (m_results m) r = Some R -> materialised_for R o = true ->
  fst (xstep cfg m o) = m.
Proof. exact materialised_accessor_identity_proof. Qed.
Print Assumptions materialised_accessor_identity.

(* 5. the outputs read from result r along ANY history, from ANY heap, are the outputs of the
      same calls on any machine that holds the same record at index 0 *)
Theorem result_function_of_own_execution : forall cfg h m m0 r R,
  nth_error (m_results m) r = Some R -> nth_error (m_results m0) 0 = Some R ->
  outputs_on r h (fst (xrun cfg m h)) = fst (xrun cfg m0 (view r h)).
Proof. exact result_function_of_own_execution_proof. Qed.
Print Assumptions result_function_of_own_execution.

(*    ... in particular on the fresh machine that holds this result alone *)
Theorem result_function_of_own_execution_fresh : forall cfg h m r R,
  nth_error (m_results m) r = Some R ->
  outputs_on r h (fst (xrun cfg m h)) = fst (xrun cfg (solo cfg R) (view r h)).
Proof. exact result_function_of_own_execution_fresh_proof. Qed.
Print Assumptions result_function_of_own_execution_fresh.

(*    ... for the first execution of a history that starts on the initial machine (Exec has no
      target, so it is filtered out of the view) *)
Theorem first_execution_standalone : forall cfg w ns h,
  let h' := XBase (Exec w ns) :: h in
  outputs_on 0 h' (fst (xrun cfg (init cfg) h')) =
  fst (xrun cfg (solo cfg (mkr w ns (calc_probs (c_n cfg) (cQ cfg) w) None None)) (view 0 h)).
Proof. exact first_execution_standalone_proof. Qed.
Print Assumptions first_execution_standalone.

(*    ... and for an execution made at any later point, on any heap: whatever happened before
      (earlier executions, reads of earlier results, filled gate caches) and whatever is
      interleaved afterwards, the reads of the new result are those of a fresh solo machine *)
Theorem later_execution_standalone : forall cfg m w ns h,
  let r := length (m_results m) in
  let h' := XBase (Exec w ns) :: h in
  outputs_on r h' (fst (xrun cfg m h')) =
  fst (xrun cfg (solo cfg (mkr w ns (calc_probs (c_n cfg) (cQ cfg) w) None None)) (view r h)).
Proof. exact later_execution_standalone_proof. Qed.
Print Assumptions later_execution_standalone.

(* ---- non-vacuity *)
Definition ex_cfg : config := mkcfg 2 [[1];[0]].
Definition ex_h : list xop :=
  [ XBase (Exec [1;0;0;1]%Z 3); XBase (Exec [0;2;2;0]%Z 3);
    XBase (Freqs 1 true false [(1,2);(2,1)]);          (* frequencies first on result 1 *)
    XBase (Samples 0 false true [0;3;3]);
    XBase Final;
    XBitflips 0 [1;1;1] [true;false] [false;true];     (* samples already there: draw ignored *)
    XBase (Samples 1 true false [1;2;1]);              (* shuffled expansion of the frequencies *)
    XPeek 1;
    XBase (Probs 0 [0]);
    XBitflips 1 [] [false;true] [true;true];
    XPeek 0 ].
Definition ex_R0 : result := mkr [1;0;0;1]%Z 3 [1;0;0;1]%Z None None.
Definition ex_R1 : result := mkr [0;2;2;0]%Z 3 [0;2;2;0]%Z None None.
Definition ex_R1_final : result :=
  mkr [0;2;2;0]%Z 3 [0;2;2;0]%Z (Some [[false;true];[true;false];[false;true]]) (Some [(1,2);(2,1)]).

(* the two views are different, non-empty sub-histories *)
Example ex_view_1 :
  view 1 ex_h = [ XBase (Freqs 0 true false [(1,2);(2,1)]); XBase (Samples 0 true false [1;2;1]);
                  XPeek 0; XBitflips 0 [] [false;true] [true;true] ].
Proof. vm_compute. reflexivity. Qed.
Example ex_view_0 :
  view 0 ex_h = [ XBase (Samples 0 false true [0;3;3]); XBitflips 0 [1;1;1] [true;false] [false;true];
                  XBase (Probs 0 [0]); XPeek 0 ].
Proof. vm_compute. reflexivity. Qed.

(* what is read from result 1 in the interleaved history: four real outputs, no error *)
Example ex_outputs_1 :
  outputs_on 1 ex_h (fst (xrun ex_cfg (init ex_cfg) ex_h)) =
  [ XO (OFreqBin [([false;true], 2); ([true;false], 1)]);
    XO (OSamplesBin [[false;true];[true;false];[false;true]]);
    XAbs ex_R1_final;
    XFlipped [[false;false];[false;true];[false;false]] ].
Proof. vm_compute. reflexivity. Qed.
Example ex_outputs_0 :
  outputs_on 0 ex_h (fst (xrun ex_cfg (init ex_cfg) ex_h)) =
  [ XO (ORegSamplesDec [[0;1;1];[0;1;1]]);
    XFlipped [[true;false];[true;false];[true;false]];
    XO (OProbs [1;1]%Z);
    XAbs (mkr [1;0;0;1]%Z 3 [1;0;0;1]%Z (Some [[false;false];[true;true];[true;true]]) None) ].
Proof. vm_compute. reflexivity. Qed.

(* ... and they are the outputs of the solo runs (instances of theorem 5, recomputed) *)
Example ex_solo_1 :
  outputs_on 1 ex_h (fst (xrun ex_cfg (init ex_cfg) ex_h)) =
  fst (xrun ex_cfg (solo ex_cfg ex_R1) (view 1 ex_h)).
Proof. vm_compute. reflexivity. Qed.
Example ex_solo_0 :
  outputs_on 0 ex_h (fst (xrun ex_cfg (init ex_cfg) ex_h)) =
  fst (xrun ex_cfg (solo ex_cfg ex_R0) (view 0 ex_h)).
Proof. vm_compute. reflexivity. Qed.
Example ex_outputs_1_length :
  2 <= length (outputs_on 1 ex_h (fst (xrun ex_cfg (init ex_cfg) ex_h))).
Proof. vm_compute. repeat constructor. Qed.

(* the hypotheses of theorems 1, 2, 3, 5 hold on the machine after the two executions *)
Definition ex_m2 : machine := snd (xrun ex_cfg (init ex_cfg) (firstn 2 ex_h)).
Example ex_m2_results : m_results ex_m2 = [ex_R0; ex_R1].
Proof. vm_compute. reflexivity. Qed.

(* holds_le is satisfiable with a cache that goes from None to Some: the first sampling accessor
   on result 1 (theorem 1 is not about unchanged records only) ... *)
Example ex_holds_le_fill :
  nth_error (m_results ex_m2) 1 = Some ex_R1 /\
  r_freqs ex_R1 = None /\
  exists R', nth_error (m_results (fst (xstep ex_cfg ex_m2 (XBase (Freqs 1 true false [(1,2);(2,1)]))))) 1 = Some R' /\
             r_freqs R' = Some [(1,2);(2,1)] /\ holds_le ex_R1 R'.
Proof.
  split; [vm_compute; reflexivity|]. split; [reflexivity|].
  exists (mkr [0;2;2;0]%Z 3 [0;2;2;0]%Z None (Some [(1,2);(2,1)])).
  split; [vm_compute; reflexivity|]. split; [reflexivity|].
  unfold holds_le. cbn. repeat split; intros; discriminate.
Qed.
(* ... and along the whole history both caches of result 1 go from None to Some *)
Example ex_holds_le_run :
  nth_error (m_results (snd (xrun ex_cfg ex_m2 (skipn 2 ex_h)))) 1 = Some ex_R1_final /\
  holds_le ex_R1 ex_R1_final.
Proof.
  split; [vm_compute; reflexivity|].
  unfold holds_le. cbn. repeat split; intros; discriminate.
Qed.
(* holds_le is not trivially true: a filled cache may not change, w may not change *)
Example ex_holds_le_strict :
  ~ holds_le ex_R1_final ex_R1 /\
  ~ holds_le ex_R1_final (mkr [0;2;2;0]%Z 3 [0;2;2;0]%Z (Some [[true;false];[false;true];[false;true]]) (Some [(1,2);(2,1)])) /\
  ~ holds_le ex_R0 ex_R1.
Proof.
  unfold holds_le. repeat split; intros (H1 & H2 & H3 & H4 & H5).
  - specialize (H5 _ eq_refl). discriminate.
  - specialize (H4 _ eq_refl). discriminate.
  - discriminate.
Qed.

(* theorem 4: its hypotheses are satisfiable (samples on a result that has samples, with
   non-empty gate caches in the heap), and the premise materialised_for is needed (the first
   sampling accessor does change the heap) *)
Definition ex_m4 : machine := snd (xrun ex_cfg (init ex_cfg) (firstn 4 ex_h)).
Example ex_materialised :
  let o := XBitflips 0 [1;1;1] [true;false] [false;true] in
  exists R, xtarget o = Some 0 /\ nth_error (m_results ex_m4) 0 = Some R /\
            materialised_for R o = true /\ fst (xstep ex_cfg ex_m4 o) = ex_m4 /\
            m_gates ex_m4 <> m_gates (init ex_cfg).
Proof.
  eexists. split; [reflexivity|]. split; [vm_compute; reflexivity|].
  split; [reflexivity|]. split; [vm_compute; reflexivity|]. vm_compute. discriminate.
Qed.
Example ex_not_materialised :
  let o := XBase (Samples 0 false true [0;3;3]) in
  xtarget o = Some 0 /\ nth_error (m_results ex_m2) 0 = Some ex_R0 /\
  materialised_for ex_R0 o = false /\ fst (xstep ex_cfg ex_m2 o) <> ex_m2.
Proof.
  split; [reflexivity|]. split; [vm_compute; reflexivity|]. split; [reflexivity|].
  vm_compute. discriminate.
Qed.

(* theorem 3: an accessor on result 1 that does write (its own record and the gate caches) *)
Example ex_other_untouched :
  let o := XBase (Freqs 1 true false [(1,2);(2,1)]) in
  nth_error (m_results (fst (xstep ex_cfg ex_m2 o))) 0 = Some ex_R0 /\
  nth_error (m_results (fst (xstep ex_cfg ex_m2 o))) 1 <> Some ex_R1.
Proof. split; [vm_compute; reflexivity | vm_compute; discriminate]. Qed.
