(* C14/ProofsIso.v : proofs about C14/ModelIso.v.

   The proofs factor every accessor through a transition on the ONE record it is called on:
   [rstep cfg R o] = (what the record holds afterwards, what the call returns).  [xstep_on] shows
   that the machine-level step of ModelIso.v, on an operation that targets an existing result r
   holding R, writes exactly [fst (rstep cfg R o)] at index r of the result list (nothing else in
   the result list) and returns exactly [snd (rstep cfg R o)] -- neither depends on the index, on
   the other results, on the measurement-gate caches or on m_final. *)
From Coq Require Import List Bool Arith ZArith Lia.
From QV Require Import Base.Mat C03.ModelSamples C03.ModelProbs C03.ModelResult C03.ProofsResult
                       C14.ModelIso.
Import ListNotations.

(* ---- the per-record transition *)
Definition samples_view (cfg : config) (R1 : result) (binary registers : bool) : out :=
  match r_samples R1 with
  | Some sm =>
      if registers then
        let l := map (fun reg => map (take_cols (own_cols cfg reg)) sm) (c_regs cfg) in
        if binary then ORegSamplesBin l else ORegSamplesDec (map (map to_dec) l)
      else if binary then OSamplesBin sm else OSamplesDec (map to_dec sm)
  | None => OErr 3
  end.

Definition freqs_view (cfg : config) (R1 : result) (binary registers : bool) : out :=
  match r_freqs R1 with
  | Some F =>
      let k := ck cfg in
      if registers then
        let l := map (fun reg => reg_freq k (own_cols cfg reg) F) (c_regs cfg) in
        if binary
        then ORegFreqBin (map (fun rf => fbin (length (fst rf)) (snd rf)) (combine (c_regs cfg) l))
        else ORegFreqDec l
      else if binary then OFreqBin (fbin k F) else OFreqDec F
  | None => OErr 3
  end.

Definition rmat (cfg : config) (R : result) (draw : list nat) : result :=
  match r_samples R with
  | Some _ => R
  | None => set_samples R (map (to_bin (ck cfg)) draw)
  end.

Definition rfill (R : result) (fdraw : counter) : result :=
  match r_freqs R with
  | Some _ => R
  | None =>
    match r_samples R with
    | Some sm => set_freqs R (calc_freq (map to_dec sm))
    | None => set_freqs R fdraw
    end
  end.

Definition rstep (cfg : config) (R : result) (o : xop) : result * xout :=
  match o with
  | XBase (Samples _ b rg d) => (rmat cfg R d, XO (samples_view cfg (rmat cfg R d) b rg))
  | XBase (Freqs _ b rg f) => (rfill R f, XO (freqs_view cfg (rfill R f) b rg))
  | XBase (Probs _ qs) => (R, XO (OProbs (calc_probs (c_n cfg) qs (r_w R))))
  | XBase (Exec _ _) => (R, XO ODone)     (* not an accessor: never used *)
  | XBase Final => (R, XO ODone)          (* not an accessor: never used *)
  | XBitflips _ d m0 m1 =>
      (rmat cfg R d,
       match r_samples (rmat cfg R d) with
       | Some sm => XFlipped (map (flip_row m0 m1) sm)
       | None => XO (OErr 3)
       end)
  | XPeek _ => (R, XAbs R)
  end.

(* ---- small facts *)
Lemma xstep_base_fst cfg m o : fst (xstep cfg m (XBase o)) = fst (step cfg m o).
Proof. cbn [xstep]. destruct (step cfg m o). reflexivity. Qed.

Lemma xstep_base_snd cfg m o : snd (xstep cfg m (XBase o)) = XO (snd (step cfg m o)).
Proof. cbn [xstep]. destruct (step cfg m o). reflexivity. Qed.

Lemma xrun_cons_fst cfg m o h :
  fst (xrun cfg m (o :: h)) = snd (xstep cfg m o) :: fst (xrun cfg (fst (xstep cfg m o)) h).
Proof. cbn [xrun]. destruct (xstep cfg m o) as [m1 x]. cbn [fst snd]. destruct (xrun cfg m1 h). reflexivity. Qed.

Lemma xrun_cons_snd cfg m o h :
  snd (xrun cfg m (o :: h)) = snd (xrun cfg (fst (xstep cfg m o)) h).
Proof. cbn [xrun]. destruct (xstep cfg m o) as [m1 x]. cbn [fst snd]. destruct (xrun cfg m1 h). reflexivity. Qed.

Lemma nth_lt {A} (l : list A) r e : nth_error l r = Some e -> r < length l.
Proof. intros H. apply nth_error_Some. congruence. Qed.

Lemma rstep_retarget cfg R o : rstep cfg R (retarget o) = rstep cfg R o.
Proof. destruct o as [[| | | |]| |]; reflexivity. Qed.

Lemma xtarget_retarget o r : xtarget o = Some r -> xtarget (retarget o) = Some 0.
Proof. destruct o as [[| | | |]| |]; cbn [xtarget retarget retarget_op target]; intros H; try discriminate; reflexivity. Qed.

(* materialise on an existing record *)
Lemma materialise_on cfg m r draw R :
  nth_error (m_results m) r = Some R ->
  exists m1, materialise cfg m r draw = Some m1 /\
             m_results m1 = update_nth r (rmat cfg R draw) (m_results m) /\
             nth_error (m_results m1) r = Some (rmat cfg R draw).
Proof.
  intros H. unfold materialise, rmat. rewrite H.
  destruct (r_samples R) eqn:E.
  - exists m. split; [reflexivity|]. split; [|assumption].
    symmetry. apply update_nth_same. assumption.
  - eexists. split; [reflexivity|]. cbn [m_results]. split; [reflexivity|].
    apply nth_error_update_eq. eapply nth_lt; eassumption.
Qed.

(* ---- the factorisation of xstep through rstep *)
Lemma xstep_on cfg m o r R :
  xtarget o = Some r -> nth_error (m_results m) r = Some R ->
  m_results (fst (xstep cfg m o)) = update_nth r (fst (rstep cfg R o)) (m_results m) /\
  snd (xstep cfg m o) = snd (rstep cfg R o).
Proof.
  intros Ht Hn.
  destruct o as [o | r0 d f0 f1 | r0].
  - rewrite xstep_base_fst, xstep_base_snd.
    destruct o as [w ns | r0 b rg d | r0 b rg f | r0 qs | ]; cbn [xtarget target] in Ht; try discriminate;
      injection Ht as ->; cbn [step rstep fst snd].
    + (* Samples *)
      unfold step_samples.
      destruct (materialise_on cfg m r d R Hn) as (m1 & Hm & Hres & Hnth).
      rewrite Hm, Hnth. unfold samples_view.
      destruct (r_samples (rmat cfg R d)); [destruct rg|]; cbn [fst snd]; split; (assumption || reflexivity).
    + (* Freqs *)
      unfold step_freqs. rewrite Hn. unfold rfill, freqs_view.
      pose proof (nth_lt _ _ _ Hn) as Hlt.
      destruct (r_freqs R) eqn:EF.
      * rewrite Hn, EF. destruct rg; cbn [fst snd]; split; try reflexivity;
          symmetry; apply update_nth_same; assumption.
      * destruct (r_samples R) eqn:ES; cbn [m_results];
          rewrite (nth_error_update_eq (m_results m) r _ Hlt); cbn [r_freqs set_freqs];
          destruct rg; cbn [fst snd m_results]; split; reflexivity.
    + (* Probs *)
      rewrite Hn. cbn [fst snd]. split; [|reflexivity].
      symmetry. apply update_nth_same. assumption.
  - cbn [xtarget] in Ht. injection Ht as ->. cbn [xstep rstep fst snd].
    destruct (materialise_on cfg m r d R Hn) as (m1 & Hm & Hres & Hnth).
    rewrite Hm, Hnth.
    destruct (r_samples (rmat cfg R d)); cbn [fst snd]; split; (assumption || reflexivity).
  - cbn [xtarget] in Ht. injection Ht as ->. cbn [xstep rstep]. rewrite Hn. cbn [fst snd].
    split; [|reflexivity]. symmetry. apply update_nth_same. assumption.
Qed.

(* an accessor called on a result that does not exist raises, nothing is written *)
Lemma xstep_missing cfg m o r :
  xtarget o = Some r -> nth_error (m_results m) r = None -> fst (xstep cfg m o) = m.
Proof.
  intros Ht Hn.
  destruct o as [o | r0 d f0 f1 | r0].
  - rewrite xstep_base_fst.
    destruct o as [w ns | r0 b rg d | r0 b rg f | r0 qs | ]; cbn [xtarget target] in Ht; try discriminate;
      injection Ht as ->; cbn [step].
    + unfold step_samples, materialise. rewrite Hn. reflexivity.
    + unfold step_freqs. rewrite Hn. reflexivity.
    + rewrite Hn. reflexivity.
  - cbn [xtarget] in Ht. injection Ht as ->. cbn [xstep]. unfold materialise. rewrite Hn. reflexivity.
  - cbn [xtarget] in Ht. injection Ht as ->. cbn [xstep]. rewrite Hn. reflexivity.
Qed.

(* operations that are not accessors: executions append, circuit.final_state reads *)
Lemma xstep_untargeted cfg m o :
  xtarget o = None ->
  exists l, m_results (fst (xstep cfg m o)) = m_results m ++ l.
Proof.
  intros Ht.
  destruct o as [o | r0 d f0 f1 | r0]; cbn [xtarget] in Ht; try discriminate.
  rewrite xstep_base_fst.
  destruct o; cbn [target] in Ht; try discriminate; cbn [step fst m_results].
  - eexists. reflexivity.
  - exists []. symmetry. apply app_nil_r.
Qed.

(* ---- holds_le *)
Lemma holds_le_refl R : holds_le R R.
Proof. unfold holds_le. repeat split; auto. Qed.

Lemma holds_le_trans R1 R2 R3 : holds_le R1 R2 -> holds_le R2 R3 -> holds_le R1 R3.
Proof.
  unfold holds_le. intros (a1 & a2 & a3 & a4 & a5) (b1 & b2 & b3 & b4 & b5).
  repeat split; try congruence; auto.
Qed.

Lemma rstep_holds_le cfg R o : holds_le R (fst (rstep cfg R o)).
Proof.
  destruct o as [[w ns | r0 b rg d | r0 b rg f | r0 qs | ] | r0 d f0 f1 | r0];
    cbn [rstep fst]; try apply holds_le_refl.
  - unfold rmat. destruct (r_samples R) eqn:E; [apply holds_le_refl|].
    unfold holds_le, set_samples; cbn [r_w r_nshots r_probs r_samples r_freqs].
    repeat split; auto. intros s Hs. congruence.
  - unfold rfill. destruct (r_freqs R) eqn:E; [apply holds_le_refl|].
    destruct (r_samples R) eqn:ES;
      unfold holds_le, set_freqs; cbn [r_w r_nshots r_probs r_samples r_freqs];
      repeat split; auto; intros s Hs; congruence.
  - unfold rmat. destruct (r_samples R) eqn:E; [apply holds_le_refl|].
    unfold holds_le, set_samples; cbn [r_w r_nshots r_probs r_samples r_freqs].
    repeat split; auto. intros s Hs. congruence.
Qed.

(* ---- 3. operations on another result / executions do not touch a result *)
Lemma other_results_untouched_proof cfg m o r r' :
  xtarget o = Some r -> r' <> r ->
  nth_error (m_results (fst (xstep cfg m o))) r' = nth_error (m_results m) r'.
Proof.
  intros Ht Hne.
  destruct (nth_error (m_results m) r) as [R|] eqn:Hn.
  - destruct (xstep_on cfg m o r R Ht Hn) as [Hres _]. rewrite Hres.
    apply nth_error_update_neq. congruence.
  - rewrite (xstep_missing cfg m o r Ht Hn). reflexivity.
Qed.

Lemma executions_keep_results_proof cfg m o :
  xtarget o = None ->
  forall r' R, nth_error (m_results m) r' = Some R ->
               nth_error (m_results (fst (xstep cfg m o))) r' = Some R.
Proof.
  intros Ht r' R Hn. destruct (xstep_untargeted cfg m o Ht) as [l Hl]. rewrite Hl.
  apply nth_error_app_some. assumption.
Qed.

(* ---- 1./2. write-once *)
Lemma accessors_write_once_proof cfg m o r R :
  nth_error (m_results m) r = Some R ->
  exists R', nth_error (m_results (fst (xstep cfg m o))) r = Some R' /\ holds_le R R'.
Proof.
  intros Hn.
  destruct (xtarget o) as [r0|] eqn:Ht.
  - destruct (Nat.eq_dec r r0) as [->|Hne].
    + destruct (xstep_on cfg m o r0 R Ht Hn) as [Hres _].
      exists (fst (rstep cfg R o)). split; [|apply rstep_holds_le].
      rewrite Hres. apply nth_error_update_eq. eapply nth_lt; eassumption.
    + exists R. split; [|apply holds_le_refl].
      rewrite (other_results_untouched_proof cfg m o r0 r Ht Hne). assumption.
  - exists R. split; [|apply holds_le_refl].
    apply executions_keep_results_proof; assumption.
Qed.

Lemma accessors_write_once_run_proof cfg h : forall m r R,
  nth_error (m_results m) r = Some R ->
  exists R', nth_error (m_results (snd (xrun cfg m h))) r = Some R' /\ holds_le R R'.
Proof.
  induction h as [|o h IH]; intros m r R Hn.
  - exists R. split; [assumption | apply holds_le_refl].
  - rewrite xrun_cons_snd.
    destruct (accessors_write_once_proof cfg m o r R Hn) as (R1 & H1 & L1).
    destruct (IH _ r R1 H1) as (R2 & H2 & L2).
    exists R2. split; [assumption|]. eapply holds_le_trans; eassumption.
Qed.

(* ---- 4. an accessor that does not have to draw leaves the whole heap unchanged *)
Lemma materialised_accessor_identity_proof cfg m o r R :
  xtarget o = Some r -> nth_error (m_results m) r = Some R -> materialised_for R o = true ->
  fst (xstep cfg m o) = m.
Proof.
  intros Ht Hn Hm.
  destruct o as [o | r0 d f0 f1 | r0].
  - rewrite xstep_base_fst.
    destruct o as [w ns | r0 b rg d | r0 b rg f | r0 qs | ]; cbn [xtarget target] in Ht; try discriminate;
      injection Ht as ->; cbn [materialised_for] in Hm; cbn [step].
    + unfold has_own_samples in Hm. unfold step_samples, materialise. rewrite Hn.
      destruct (r_samples R) eqn:E; [|discriminate]. rewrite Hn, E.
      destruct rg; reflexivity.
    + unfold step_freqs. rewrite Hn.
      destruct (r_freqs R) eqn:E; [|discriminate]. rewrite Hn, E.
      destruct rg; reflexivity.
    + rewrite Hn. reflexivity.
  - cbn [xtarget] in Ht. injection Ht as ->. cbn [materialised_for] in Hm. cbn [xstep].
    unfold has_own_samples in Hm. unfold materialise. rewrite Hn.
    destruct (r_samples R) eqn:E; [|discriminate]. rewrite Hn, E. reflexivity.
  - cbn [xtarget] in Ht. injection Ht as ->. cbn [xstep]. rewrite Hn. reflexivity.
Qed.

Lemma view_cons r o h :
  view r (o :: h) = if targets r o then retarget o :: view r h else view r h.
Proof. unfold view. cbn [filter]. destruct (targets r o); reflexivity. Qed.

(* ---- 5. what is read from a result is a function of its own execution and its own draws *)
Lemma result_function_of_own_execution_proof cfg h : forall m m0 r R,
  nth_error (m_results m) r = Some R -> nth_error (m_results m0) 0 = Some R ->
  outputs_on r h (fst (xrun cfg m h)) = fst (xrun cfg m0 (view r h)).
Proof.
  induction h as [|o h IH]; intros m m0 r R Hn H0.
  - reflexivity.
  - rewrite xrun_cons_fst. cbn [outputs_on]. rewrite view_cons.
    unfold targets.
    destruct (xtarget o) as [r'|] eqn:Ht.
    + destruct (Nat.eqb_spec r' r) as [->|Hne].
      * (* the operation reads r *)
        rewrite xrun_cons_fst.
        destruct (xstep_on cfg m o r R Ht Hn) as [Hres Hout].
        destruct (xstep_on cfg m0 (retarget o) 0 R (xtarget_retarget o r Ht) H0) as [Hres0 Hout0].
        rewrite rstep_retarget in Hres0, Hout0.
        rewrite Hout, Hout0. f_equal.
        apply (IH _ _ r (fst (rstep cfg R o))).
        -- rewrite Hres. apply nth_error_update_eq. eapply nth_lt; eassumption.
        -- rewrite Hres0. apply nth_error_update_eq. eapply nth_lt; eassumption.
      * (* the operation reads another result *)
        apply (IH _ _ r R); [|assumption].
        rewrite (other_results_untouched_proof cfg m o r' r Ht); [assumption | congruence].
    + (* an execution / circuit.final_state *)
      apply (IH _ _ r R); [|assumption].
      apply executions_keep_results_proof; assumption.
Qed.

Lemma result_function_of_own_execution_fresh_proof cfg h m r R :
  nth_error (m_results m) r = Some R ->
  outputs_on r h (fst (xrun cfg m h)) = fst (xrun cfg (solo cfg R) (view r h)).
Proof.
  intros Hn. apply (result_function_of_own_execution_proof cfg h m (solo cfg R) r R Hn). reflexivity.
Qed.

Lemma first_execution_standalone_proof cfg w ns h :
  let h' := XBase (Exec w ns) :: h in
  outputs_on 0 h' (fst (xrun cfg (init cfg) h')) =
  fst (xrun cfg (solo cfg (mkr w ns (calc_probs (c_n cfg) (cQ cfg) w) None None)) (view 0 h)).
Proof.
  intros h'. unfold h'. rewrite xrun_cons_fst. cbn [outputs_on].
  change (targets 0 (XBase (Exec w ns))) with false. cbv iota.
  apply result_function_of_own_execution_fresh_proof.
  rewrite xstep_base_fst. reflexivity.
Qed.

(* the general form of the last corollary: the k-th execution, wherever it sits in the history *)
Lemma later_execution_standalone_proof cfg m w ns h :
  let r := length (m_results m) in
  let h' := XBase (Exec w ns) :: h in
  outputs_on r h' (fst (xrun cfg m h')) =
  fst (xrun cfg (solo cfg (mkr w ns (calc_probs (c_n cfg) (cQ cfg) w) None None)) (view r h)).
Proof.
  intros r h'. unfold h'. rewrite xrun_cons_fst. cbn [outputs_on].
  change (targets r (XBase (Exec w ns))) with false. cbv iota.
  apply result_function_of_own_execution_fresh_proof.
  rewrite xstep_base_fst. cbn [step fst m_results].
  rewrite nth_error_app2 by (unfold r; lia). unfold r. rewrite Nat.sub_diag. reflexivity.
Qed.
