(* C14/Props.v : property theorems for "every execution result stands alone".
   Model: C03/ModelResult.v (heap of result objects sharing the circuit's measurement-gate
   caches) + C14/Model.v (seeded generator, parallel helpers).
   Specification: [standalone] = for every result there is ONE list of shots, admissible for that
   result's own execution (shot count, support of its own Born distribution), that explains every
   samples/frequencies output read from it, and probabilities() is the Born marginal of its own
   state. *)
From Coq Require Import List Bool Arith ZArith.
From QV Require Import Base.Mat C03.ModelSamples C03.ModelProbs C03.ModelResult C03.ProofsResult
     C14.Model C14.Proofs.
Import ListNotations.

(* FULL STATEMENT (results_standalone): forall cfg h, cfg_wf cfg -> hist_wf cfg 0 h = true ->
   oracles_ok cfg (init cfg) h = true -> standalone cfg h.
   It is FALSE of the faithful model (results share M.result): *)
Theorem results_standalone_refuted :
  exists cfg h, cfg_wf cfg /\ hist_wf cfg 0 h = true /\ oracles_ok cfg (init cfg) h = true /\
                ~ standalone cfg h.
Proof.
  exists wit_cfg, wit_h.
  exact (conj wit_cfg_wf (conj eq_refl (conj eq_refl wit_not_standalone))).
Qed.
Print Assumptions results_standalone_refuted.

(* the witness history (4 operations) and what the model returns for it *)
Example results_standalone_witness :
  wit_h = [Exec [1; 0]%Z 1; Exec [0; 1]%Z 1; Samples 0 false false [0]; Samples 1 false false []] /\
  fst (run wit_cfg (init wit_cfg) wit_h) = [ODone; ODone; OSamplesDec [0]; OSamplesDec [0]].
Proof. split; [reflexivity | exact wit_outputs]. Qed.

(* the witness is minimal: every history of at most 3 operations stands alone *)
Theorem results_standalone_minimal :
  forall cfg h, cfg_wf cfg -> length h <= 3 -> hist_wf cfg 0 h = true ->
                oracles_ok cfg (init cfg) h = true -> standalone cfg h.
Proof. exact short_histories_standalone. Qed.
Print Assumptions results_standalone_minimal.

(* PART THAT HOLDS: histories in which samples()/frequencies() are only ever called on one
   result r0 of the circuit object (any number of executions before/after, probabilities() on
   any result, circuit.final_state, any accessor order and flags).
   Missing w.r.t. the full statement: histories that read a second result. *)
Theorem results_standalone_partial :
  forall cfg r0, cfg_wf cfg -> forall h,
    hist_wf cfg 0 h = true -> oracles_ok cfg (init cfg) h = true ->
    single_reader r0 h = true -> standalone cfg h.
Proof. exact single_reader_standalone. Qed.
Print Assumptions results_standalone_partial.

Example results_standalone_partial_nonvacuous :
  let cfg := mkcfg 2 [[1]; [0]] in
  let h := [Exec [1; 0; 0; 1]%Z 2; Exec [0; 4; 0; 0]%Z 3; Freqs 1 true true [(2, 3)];
            Probs 0 [1; 0]; Samples 1 false false [2; 2; 2]; Final] in
  hist_wf cfg 0 h = true /\ oracles_ok cfg (init cfg) h = true /\ single_reader 1 h = true.
Proof. vm_compute. auto. Qed.

(* a circuit object that is executed once (what parallel_parametrized_execution gives every
   task by deep-copying the circuit): all accessor histories *)
Theorem one_execution_standalone :
  forall cfg w ns h, cfg_wf cfg ->
    forallb (fun o => match o with Exec _ _ => false | _ => true end) h = true ->
    hist_wf cfg 0 (Exec w ns :: h) = true -> oracles_ok cfg (init cfg) (Exec w ns :: h) = true ->
    standalone cfg (Exec w ns :: h).
Proof. exact one_execution. Qed.
Print Assumptions one_execution_standalone.

(* executions only append result objects and never touch the shared caches: whatever the order
   in which the worker threads of parallel_execution reach execute_circuit, the same result
   objects (own state, own probabilities, empty caches) are created *)
Theorem parallel_exec_results :
  forall cfg es m,
    m_gates (snd (run cfg m (exec_ops es))) = m_gates m /\
    m_results (snd (run cfg m (exec_ops es))) = m_results m ++ map (fresh_result cfg) es.
Proof. exact run_execs. Qed.
Print Assumptions parallel_exec_results.

(* re-seeding erases the previous state of the generator: everything after set_seed(s) is a
   function of s, the heap and the operations, for every deterministic generator *)
Theorem seed_reproducible :
  forall (G : Type) (seed : nat -> G) gen_shots gen_shuffle gen_freqs cfg m g1 g2 s h,
    srun G seed gen_shots gen_shuffle gen_freqs cfg (m, g1) (USeed s :: h) =
    srun G seed gen_shots gen_shuffle gen_freqs cfg (m, g2) (USeed s :: h).
Proof. exact seed_erases_generator. Qed.
Print Assumptions seed_reproducible.
