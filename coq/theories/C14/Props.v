(* C14/Props.v : property theorems for "every execution result stands alone".
   Model: C03/ModelResult.v (heap of result objects of one circuit object; results write the
   circuit's measurement-gate caches but never read them) + C14/Model.v (seeded generator,
   parallel helpers).
   Specification: [standalone] = for every result there is ONE list of shots, admissible for that
   result's own execution (shot count, support of its own Born distribution), that explains every
   samples/frequencies output read from it, and probabilities() is the Born marginal of its own
   state. *)
From Coq Require Import List Bool Arith ZArith.
From QV Require Import Base.Mat C03.ModelSamples C03.ModelProbs C03.ModelResult C03.ProofsResult
     C14.Model C14.Proofs C14.HistoricalShared.
Import ListNotations.

(* every history: any number of executions of the circuit object with any states and shot counts,
   samples()/frequencies() (all binary/registers flags)/probabilities()/final_state on any result
   in any order *)
Theorem results_standalone :
  forall cfg, cfg_wf cfg -> forall h,
    hist_wf cfg 0 h = true -> oracles_ok cfg (init cfg) h = true -> standalone cfg h.
Proof. exact all_histories_standalone. Qed.
Print Assumptions results_standalone.

Example results_standalone_nonvacuous :
  let cfg := mkcfg 2 [[1]; [0]] in
  let h := [Exec [1; 0; 0; 1]%Z 2; Exec [0; 4; 0; 0]%Z 3; Freqs 1 true true [(2, 3)];
            Samples 0 false false [0; 3]; Probs 0 [1; 0]; Samples 1 false false [2; 2; 2];
            Freqs 0 false true []; Final] in
  hist_wf cfg 0 h = true /\ oracles_ok cfg (init cfg) h = true /\
  fst (run cfg (init cfg) h) =
    [ODone; ODone; ORegFreqBin [[([true], 3)]; [([false], 3)]]; OSamplesDec [0; 3]; OProbs [1; 0; 0; 1]%Z;
     OSamplesDec [2; 2; 2]; ORegFreqDec [[(0, 1); (1, 1)]; [(0, 1); (1, 1)]]; OFinal (Some 1)].
Proof. vm_compute. auto. Qed.

(* HISTORICAL (before the repair of result.py the results of one circuit object shared the
   caches of its measurement gates): on the model of the old code the 4-operation history
   r1=c(|0>); r2=c(|1>); r1.samples(); r2.samples() returned r1's shot for r2, which no admissible
   list of shots of r2 explains *)
Theorem results_standalone_refuted_before_repair :
  fst (run_shared wit_cfg (init wit_cfg) wit_h) = [ODone; ODone; OSamplesDec [0]; OSamplesDec [0]] /\
  ~ (exists sh, shots_ok wit_cfg [0; 1]%Z 1 sh /\
                explains wit_cfg [0; 1]%Z sh (Samples 1 false false []) (OSamplesDec [0])).
Proof. exact (conj wit_outputs_before_repair results_standalone_refuted_before_repair). Qed.
Print Assumptions results_standalone_refuted_before_repair.

(* a circuit object that is executed once (what parallel_parametrized_execution gives every
   task by deep-copying the circuit) *)
Theorem one_execution_standalone :
  forall cfg w ns h, cfg_wf cfg ->
    hist_wf cfg 0 (Exec w ns :: h) = true -> oracles_ok cfg (init cfg) (Exec w ns :: h) = true ->
    standalone cfg (Exec w ns :: h).
Proof. exact one_execution. Qed.
Print Assumptions one_execution_standalone.

(* executions only append result objects and never touch the caches: whatever the order in which
   the worker threads of parallel_execution reach execute_circuit, the same result objects (own
   state, own probabilities, empty caches) are created *)
Theorem parallel_exec_results :
  forall cfg es m,
    m_gates (snd (run cfg m (exec_ops es))) = m_gates m /\
    m_results (snd (run cfg m (exec_ops es))) = m_results m ++ map (fresh_result cfg) es.
Proof. exact run_execs. Qed.
Print Assumptions parallel_exec_results.

(* re-seeding erases the previous state of the generator: everything after set_seed(s) is a
   function of s, the heap and the operations, for every deterministic generator *)
Theorem seed_reproducible :
  forall (G : Type) (seed : nat -> G) gen_shots gen_shuffle gen_freqs cfg m g1 g2 s h,
    srun G seed gen_shots gen_shuffle gen_freqs cfg (m, g1) (USeed s :: h) =
    srun G seed gen_shots gen_shuffle gen_freqs cfg (m, g2) (USeed s :: h).
Proof. exact seed_erases_generator. Qed.
Print Assumptions seed_reproducible.
