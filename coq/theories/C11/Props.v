(* C11/Props.v : property theorems of C11 (statements; proofs in ProofsPipeline.v). *)
From Coq Require Import List Arith Bool Lia.
From QV Require Import C09.Trace C09.ModelRouter C09.ModelBlocks C09.ModelDag C09.ProofsRouter C09.ProofsDag
                       C09.ProofsSem C11.ModelPipeline C11.ProofsPipeline.
Import ListNotations.

(* Preprocessing: gates untouched, the circuit's own wires keep their positions, the appended
   names are exactly device nodes not yet used, the result is a valid placement on the device *)
Theorem preprocessing_ok : forall d rest c c',
  NoDup (dnodes d) -> NoDup (cwires c) ->
  preprocessing d rest c = Some c' ->
  cgates c' = cgates c /\
  firstn (cn c) (cwires c') = cwires c /\
  (forall w, In w (skipn (cn c) (cwires c')) -> In w (dnodes d) /\ ~ In w (cwires c)) /\
  NoDup (cwires c') /\
  assert_placement d c' = true.
Proof. exact preprocessing_spec. Qed.
Print Assumptions preprocessing_ok.

(* a placer meeting its contract changes only the wire names, to a valid placement *)
Theorem placer_contract_ok : forall d w c c',
  place d w c = Some c' ->
  cgates c' = cgates c /\ cwires c' = w /\ assert_placement d c' = true.
Proof. exact placer_contract_preserves. Qed.
Print Assumptions placer_contract_ok.

Theorem placer_preserves_operator : forall n (I : interp n) d w c c',
  place d w c = Some c' -> forall x, irun I (cgates c') x = irun I (cgates c) x.
Proof. exact placer_same_operator. Qed.
Print Assumptions placer_preserves_operator.

(* acceptance predicates: what a True answer guarantees *)
Theorem asserts_sound_placement : forall d c,
  NoDup (dnodes d) -> assert_placement d c = true ->
  NoDup (cwires c) /\ cn c = length (dnodes d) /\ forall w, In w (cwires c) <-> In w (dnodes d).
Proof. exact assert_placement_sound. Qed.
Print Assumptions asserts_sound_placement.

Theorem asserts_sound_connectivity : forall d c,
  spec_connectivity d c = true ->
  forall g, In g (cgates c) -> is_meas g = false ->
    length (gqs g) <= 2 /\
    forall a b, gqs g = [a; b] -> has_edge (dedges d) (nth a (cwires c) 0) (nth b (cwires c) 0) = true.
Proof. exact spec_connectivity_sound. Qed.
Print Assumptions asserts_sound_connectivity.

Theorem asserts_sound_decomposition : forall native c,
  assert_decomposition native c = true ->
  forall g, In g (cgates c) -> is_meas g = false -> length (gqs g) <= 2 /\ native g = true.
Proof. exact assert_decomposition_sound. Qed.
Print Assumptions asserts_sound_decomposition.

Theorem is_satisfied_sound : forall d native c,
  is_satisfied d native c = true -> spec_satisfied d native c = true.
Proof. exact is_satisfied_implies_spec. Qed.
Print Assumptions is_satisfied_sound.

(* and conversely: is_satisfied accepts every circuit meeting the specification (measurements
   need no connectivity; holds since assert_connectivity skips gates.M) *)
Theorem is_satisfied_complete : forall d native c,
  spec_satisfied d native c = true -> is_satisfied d native c = true.
Proof. exact spec_implies_is_satisfied. Qed.
Print Assumptions is_satisfied_complete.

(* composition: (Preprocessing | placer)* ; router ; Unroller*  with every pass meeting its
   contract.  [ieq] of the interpretation is the equality the unroller table is correct for
   (equality up to a global phase for qibo's operators). *)
Theorem pipeline_ok : forall n (I : interp n) d native c0 pre c3 l2p post c lay,
  forallb is_prep pre = true -> forallb is_unroll post = true ->
  run_passes d native (c0, None) (pre ++ PRoute c3 l2p :: post) = Some (c, lay) ->
  (forall x, ieq n I (irun I (cgates c3) x) (ipact n I (at_ l2p) (irun I (cgates c0) x))) ->
  (forall pieces, In (PUnroll pieces) post -> unroll_sem n I pieces) ->
  lay = Some l2p /\
  is_perm (length (dnodes d)) l2p = true /\
  assert_placement d c = true /\ spec_connectivity d c = true /\
  (post <> [] -> is_satisfied d native c = true) /\
  forall x, ieq n I (irun I (cgates c) x) (ipact n I (at_ l2p) (irun I (cgates c0) x)).
Proof.
  intros n I d native c0 pre c3 l2p post c lay Hp Hu R S1 S2.
  destruct (pipeline_sem n I d native c0 pre c3 l2p post c lay Hp Hu R S1 S2) as (A & B & C & D & E & F).
  repeat split; auto. intro N. apply spec_implies_is_satisfied. auto.
Qed.
Print Assumptions pipeline_ok.

(* the router premise of pipeline_ok is exactly what C09 proves of every guarded routing run *)
Theorem router_premise_ok : forall n (I : interp n) G items finals body ops s c1 c3,
  wf_items n items ->
  (forall g q, In g finals -> In q (gqs g) -> q < n) ->
  teq Dgate body (flat_map igates items) ->
  cgates c1 = body ++ finals ->
  run n (full_guard G) (init n items) ops = Some s -> rem s = [] ->
  cgates c3 = eflat (out s) ++ append_final (l2p s) finals ->
  forall x, ieq n I (irun I (cgates c3) x) (ipact n I (at_ (l2p s)) (irun I (cgates c1) x)).
Proof. exact router_premise_from_C09. Qed.
Print Assumptions router_premise_ok.

(* restrict_connectivity_qubits / on_qubits: the restricted device has exactly the selected nodes
   (which must be device nodes), exactly the edges with both ends selected, and is connected;
   a circuit accepted on the restricted device is executable on the full device *)
Theorem restrict_connectivity_ok : forall d qs d',
  restrict d qs = Some d' ->
  dnodes d' = qs /\
  (forall q, In q qs -> In q (dnodes d)) /\
  (forall a b, has_edge (dedges d') a b = true <->
               has_edge (dedges d) a b = true /\ In a qs /\ In b qs) /\
  (forall v w, hd_error qs = Some v -> In w qs -> path (sym_edges (dedges d')) v w).
Proof. exact restrict_spec. Qed.
Print Assumptions restrict_connectivity_ok.

Theorem restrict_connectivity_raises : forall d qs,
  restrict d qs = None <->
  (exists q, In q qs /\ ~ In q (dnodes d)) \/
  connectedb qs (filter (fun e => mem (fst e) qs && mem (snd e) qs) (dedges d)) = false.
Proof. exact restrict_none. Qed.
Print Assumptions restrict_connectivity_raises.

Theorem on_qubits_executable : forall d qs d' c,
  restrict d qs = Some d' -> spec_connectivity d' c = true -> spec_connectivity d c = true.
Proof. exact restrict_mono. Qed.
Print Assumptions on_qubits_executable.

(* StarConnectivityPlacer (concrete model) meets the placer contract *)
Theorem star_placer_ok : forall d c mid w',
  assert_placement d c = true -> mid < cn c ->
  (forall g q, In g (cgates c) -> In q (gqs g) -> q < cn c) ->
  star_placer mid c = Some w' ->
  placer_contract d c w' = true.
Proof. exact star_placer_contract. Qed.
Print Assumptions star_placer_ok.

(* placers: what they do with the layout they computed, and ANY bijective layout is a valid
   placement (hence, by placer_preserves_operator / placer_keeps_registers, harmless) *)
Theorem any_bijective_layout_ok : forall d c m,
  NoDup (dnodes d) -> assert_placement d c = true -> is_perm (length (dnodes d)) m = true ->
  placer_contract d c (wires_of_layout (dnodes d) m) = true.
Proof. exact layout_placer_contract. Qed.
Print Assumptions any_bijective_layout_ok.

Theorem random_placer_ok : forall d c pairs samples,
  NoDup (dnodes d) -> assert_placement d c = true ->
  (forall m, In m samples -> is_perm (length (dnodes d)) m = true) ->
  placer_contract d c (random_placer d pairs samples) = true.
Proof. exact random_placer_contract. Qed.
Print Assumptions random_placer_ok.

Theorem subgraph_placer_ok : forall d c pairs answers w,
  NoDup (dnodes d) -> assert_placement d c = true ->
  (forall b m, In (b, m) answers -> is_perm (length (dnodes d)) m = true) ->
  subgraph_placer d pairs answers = Some w ->
  placer_contract d c w = true.
Proof. exact subgraph_placer_contract. Qed.
Print Assumptions subgraph_placer_ok.

Theorem reverse_traversal_placer_ok : forall d c,
  assert_placement d c = true -> placer_contract d c (reverse_traversal_placer c) = true.
Proof. exact reverse_traversal_placer_contract. Qed.
Print Assumptions reverse_traversal_placer_ok.

Theorem placer_keeps_registers : forall d w c c',
  place d w c = Some c' -> filter is_meas (cgates c') = filter is_meas (cgates c).
Proof. exact placer_keeps_measurements. Qed.
Print Assumptions placer_keeps_registers.

Example restrict_example :
  let d := mkD [0;1;2;3] [(0,1);(1,2);(2,3)] in
  restrict d [2;1] = Some (mkD [2;1] [(1,2)]) /\ restrict d [0;2] = None /\ restrict d [0;7] = None.
Proof. repeat split; reflexivity. Qed.

Example star_placer_example :
  star_placer 0 (mkC [10;11;12;13;14] [mkG KU 1 [0;1]; mkG KU 2 [1;2]; mkG KU 3 [2;3]])
    = Some [12;11;10;13;14].
Proof. reflexivity. Qed.

(* ---- non-vacuity: a complete pipeline run on the line a-b-c (nodes 10,11,12) with a two-wire
   circuit on (12,10): padding, placement, routing with one SWAP, unrolling CZ -> itself *)
Example pipeline_example :
  let d := mkD [10;11;12] [(10,11);(11,12)] in
  let native := fun g : gate => negb (Nat.eqb (gtag g) 9) in
  let c0 := mkC [12;10] [mkG KU 1 [0;1]] in
  let c3 := mkC [12;11;10] [mkG KU 0 [1;2]; mkG KU 1 [0;1]] in
  let pieces := [(mkG KU 0 [1;2], [mkG KU 2 [1;2]; mkG KU 2 [2;1]; mkG KU 2 [1;2]]); (mkG KU 1 [0;1], [mkG KU 1 [0;1]])] in
  exists c, run_passes d native (c0, None) ([PPre [11]; PPlace [12;11;10]] ++ PRoute c3 [0;2;1] :: [PUnroll pieces])
            = Some (c, Some [0;2;1]) /\ is_satisfied d native c = true.
Proof. cbv zeta. eexists. split; vm_compute; reflexivity. Qed.
