(* C11/ModelCheck.v : entry points evaluated by the correspondence run (executable glue). *)
From Coq Require Import List Arith Bool Lia.
From QV Require Import C09.Trace C09.ModelRouter C09.ModelBlocks C11.ModelPipeline.
Import ListNotations.

Definition native_of (ids : list nat) (g : gate) : bool := mem (gtag g) ids.

(* replay of one real Passes.__call__: every pass output is oracle data checked against its
   contract; result = (all contracts hold, model's final circuit = real output,
   is_satisfied model = real answer, spec_satisfied, final layout) *)
Definition pipeline_check (d : device) (ids : list nat) (c0 : circ) (ps : list pass)
           (c_out : circ) (real_sat : bool)
  : bool * bool * bool * bool * option (list nat) :=
  match run_passes d (native_of ids) (c0, None) ps with
  | Some (c, lay) =>
      (true,
       list_eqb (cwires c) (cwires c_out) && gates_eqb (cgates c) (cgates c_out),
       Bool.eqb (is_satisfied d (native_of ids) c_out) real_sat,
       spec_satisfied d (native_of ids) c_out,
       lay)
  | None => (false, false, false, false, None)
  end.

Definition restrict_check (d : device) (qs : list nat) : option (list nat * list (nat * nat)) :=
  option_map (fun r => (dnodes r, dedges r)) (restrict d qs).

(* StarConnectivityPlacer: concrete model against the wire names the implementation produced *)
Definition star_placer_check (mid : nat) (c : circ) (real : list nat) : bool :=
  match star_placer mid c with Some w => list_eqb w real | None => false end.
Definition restrict_raises (d : device) (qs : list nat) : bool :=
  match restrict d qs with None => true | Some _ => false end.

(* placers replayed through their models (oracle data: the sampled layouts / matcher answers) *)
Definition random_placer_check (d : device) (pairs : list (nat * nat)) (samples : list (list nat)) (real : list nat) : bool * bool :=
  (list_eqb (random_placer d pairs samples) real, forallb (is_perm (length (dnodes d))) samples).
Definition subgraph_placer_check (d : device) (pairs : list (nat * nat)) (answers : list (bool * list nat)) (real : list nat) : bool * bool :=
  (match subgraph_placer d pairs answers with Some w => list_eqb w real | None => false end,
   forallb (fun a => is_perm (length (dnodes d)) (snd a)) (filter fst answers)).
Definition reverse_traversal_check (c : circ) (real : list nat) : bool := list_eqb (reverse_traversal_placer c) real.
