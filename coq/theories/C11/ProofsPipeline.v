(* C11/ProofsPipeline.v : Preprocessing, placer contract, acceptance predicates and the
   composition theorem of the transpiler pipeline. *)
From Coq Require Import List Arith Bool Lia.
From QV Require Import C09.Trace C09.ModelRouter C09.ModelBlocks C09.ModelStar C09.ModelDag C09.ProofsRouter
                       C09.ProofsBlocks C09.ProofsStar C09.ProofsDag C09.ProofsSem C11.ModelPipeline.
Import ListNotations.

(* ------------------------------------------------------------------ small facts *)
Lemma subsetb_intro a b : (forall q, In q a -> In q b) -> subsetb a b = true.
Proof.
  intro H. unfold subsetb. apply forallb_forall. intros q Hq. apply mem_In. apply H. exact Hq.
Qed.

Lemma same_set_spec a b : same_set a b = true -> forall x, In x a <-> In x b.
Proof.
  unfold same_set. intro H. apply andb_prop in H. destruct H as [H1 H2]. intro x. split.
  - apply subsetb_In. exact H1.
  - apply subsetb_In. exact H2.
Qed.

Lemma nodup_app {A} (a b : list A) :
  NoDup a -> NoDup b -> (forall x, In x a -> ~ In x b) -> NoDup (a ++ b).
Proof.
  induction a as [|x a IH]; intros Ha Hb D; cbn; auto.
  inversion Ha; subst. constructor.
  - rewrite in_app_iff. intros [H|H]; [contradiction|]. apply (D x); [left; reflexivity | exact H].
  - apply IH; auto. intros y Hy. apply D. right. exact Hy.
Qed.

Lemma gates_eqb_eq a b : gates_eqb a b = true -> a = b.
Proof.
  revert b. induction a as [|x a IH]; intros [|y b] H; cbn in H; try discriminate; auto.
  apply andb_prop in H. destruct H as [H1 H2]. apply gate_eqb_eq in H1. subst. f_equal. auto.
Qed.

(* ------------------------------------------------------------------ Preprocessing *)
Theorem preprocessing_spec d rest c c' :
  NoDup (dnodes d) -> NoDup (cwires c) ->
  preprocessing d rest c = Some c' ->
  cgates c' = cgates c /\
  firstn (cn c) (cwires c') = cwires c /\          (* own wires keep their positions *)
  (forall w, In w (skipn (cn c) (cwires c')) -> In w (dnodes d) /\ ~ In w (cwires c)) /\
  NoDup (cwires c') /\
  assert_placement d c' = true.
Proof.
  intros ND NW H. unfold preprocessing in H.
  destruct (negb (subsetb (cwires c) (dnodes d))) eqn:E1; [discriminate|].
  apply negb_false_iff in E1.
  destruct (length (dnodes d) <? cn c) eqn:E2; [discriminate|]. apply Nat.ltb_ge in E2.
  destruct (cn c =? length (dnodes d)) eqn:E3.
  - inversion H; subst c'. apply Nat.eqb_eq in E3. unfold cn in *.
    split; [reflexivity|]. split; [apply firstn_all|]. split.
    { rewrite skipn_all. intros w []. }
    split; [exact NW|].
    unfold assert_placement, same_set, cn. rewrite E3, Nat.eqb_refl, E1. cbn.
    apply subsetb_intro. apply (NoDup_length_incl NW); [lia|].
    intros q Hq. eapply subsetb_In; eauto.
  - destruct (rest_ok d (cwires c) rest) eqn:E4; [|discriminate].
    inversion H; subst c'. cbn [cgates cwires]. unfold cn in *.
    unfold rest_ok in E4. apply andb_prop in E4. destruct E4 as [E4 E6].
    apply andb_prop in E4. destruct E4 as [E4 E5].
    apply nodupb_NoDup in E4. rewrite forallb_forall in E5. apply Nat.eqb_eq in E6.
    assert (R : forall r, In r rest -> In r (dnodes d) /\ ~ In r (cwires c)).
    { intros r Hr. specialize (E5 r Hr). apply andb_prop in E5. destruct E5 as [A B].
      apply mem_In in A. apply negb_true_iff in B. split; auto.
      intro Hin. apply mem_In in Hin. congruence. }
    assert (NDapp : NoDup (cwires c ++ rest)).
    { apply nodup_app; auto. intros x Hx Hr. destruct (R x Hr). contradiction. }
    split; [reflexivity|]. split.
    { rewrite firstn_app, firstn_all, Nat.sub_diag. cbn. apply app_nil_r. }
    split.
    { rewrite skipn_app, skipn_all, Nat.sub_diag. cbn. exact R. }
    split; [exact NDapp|].
    unfold assert_placement, same_set, cn. cbn [cwires]. rewrite app_length, E6, Nat.eqb_refl. cbn.
    assert (Inc : forall q, In q (cwires c ++ rest) -> In q (dnodes d)).
    { intros q Hq. apply in_app_or in Hq. destruct Hq as [Hq|Hq].
      - eapply subsetb_In; eauto.
      - apply R. exact Hq. }
    rewrite (subsetb_intro _ _ Inc). cbn.
    apply subsetb_intro. apply (NoDup_length_incl NDapp); [rewrite app_length; lia|]. exact Inc.
Qed.

(* ------------------------------------------------------------------ placer contract *)
Theorem placer_contract_preserves d w c c' :
  place d w c = Some c' ->
  cgates c' = cgates c /\ cwires c' = w /\ assert_placement d c' = true.
Proof.
  unfold place. destruct (placer_contract d c w) eqn:E; [|discriminate].
  intro H. inversion H; subst c'. cbn. repeat split.
  unfold placer_contract in E. apply andb_prop in E. destruct E as [E E3].
  apply andb_prop in E. destruct E as [E1 E2].
  unfold assert_placement, cn. cbn. rewrite E2, E3. reflexivity.
Qed.

(* a wire-name permutation changes no operator: the gate list is literally the same *)
Corollary placer_same_operator n (I : interp n) d w c c' :
  place d w c = Some c' -> forall x, irun I (cgates c') x = irun I (cgates c) x.
Proof. intros H x. destruct (placer_contract_preserves _ _ _ _ H) as (E & _). rewrite E. reflexivity. Qed.

(* ------------------------------------------------------------------ acceptance predicates *)
Theorem assert_placement_sound d c :
  NoDup (dnodes d) -> assert_placement d c = true ->
  NoDup (cwires c) /\ cn c = length (dnodes d) /\ forall w, In w (cwires c) <-> In w (dnodes d).
Proof.
  intros ND H. unfold assert_placement in H. apply andb_prop in H. destruct H as [H1 H2].
  apply Nat.eqb_eq in H1. pose proof (same_set_spec _ _ H2) as S.
  split; [|split; auto].
  apply (NoDup_incl_NoDup ND); [unfold cn in H1; lia|]. intros x Hx. apply S. exact Hx.
Qed.

Theorem spec_connectivity_sound d c :
  spec_connectivity d c = true ->
  forall g, In g (cgates c) -> is_meas g = false ->
    length (gqs g) <= 2 /\
    forall a b, gqs g = [a; b] -> has_edge (dedges d) (nth a (cwires c) 0) (nth b (cwires c) 0) = true.
Proof.
  unfold spec_connectivity. rewrite forallb_forall. intros H g Hg Hm.
  specialize (H g Hg). rewrite Hm in H. cbn in H.
  destruct (gqs g) as [|a [|b [|z r]]]; try discriminate; cbn; split; try lia.
  - intros; discriminate.
  - intros; discriminate.
  - intros a' b' E. inversion E; subst. exact H.
Qed.

Theorem assert_decomposition_sound native c :
  assert_decomposition native c = true ->
  forall g, In g (cgates c) -> is_meas g = false -> length (gqs g) <= 2 /\ native g = true.
Proof.
  unfold assert_decomposition. rewrite forallb_forall. intros H g Hg Hm.
  specialize (H g Hg). rewrite Hm in H. cbn in H. apply andb_prop in H. destruct H as [A B].
  apply Nat.leb_le in A. auto.
Qed.

(* the real acceptance check and its specification coincide *)
Lemma connectivity_agree d c : assert_connectivity d c = spec_connectivity d c.
Proof.
  unfold assert_connectivity, spec_connectivity.
  induction (cgates c) as [|g gs IH]; [reflexivity|]. cbn [forallb]. rewrite IH. f_equal. clear IH.
  unfold nq. destruct (is_meas g); cbn.
  - rewrite andb_false_r. cbn. rewrite andb_false_r. reflexivity.
  - rewrite !andb_true_r. destruct (gqs g) as [|a [|b [|z r]]]; reflexivity.
Qed.

Theorem is_satisfied_implies_spec d native c :
  is_satisfied d native c = true -> spec_satisfied d native c = true.
Proof. unfold is_satisfied, spec_satisfied. rewrite connectivity_agree. auto. Qed.

Theorem spec_implies_is_satisfied d native c :
  spec_satisfied d native c = true -> is_satisfied d native c = true.
Proof. unfold is_satisfied, spec_satisfied. rewrite connectivity_agree. auto. Qed.

(* HISTORICAL (before the repair of qibo): assert_connectivity treated a measurement on exactly two
   qubits like a two-qubit gate and rejected this correct output for the line 0-1-2 *)
Definition assert_connectivity_before_repair (d : device) (c : circ) : bool :=
  forallb (fun g =>
    if (2 <? nq g) && negb (is_meas g) then false
    else if nq g =? 2
         then match gqs g with
              | [a; b] => has_edge (dedges d) (nth a (cwires c) 0) (nth b (cwires c) 0)
              | _ => false
              end
         else true) (cgates c).
Lemma historical_meas2_witness :
  let d := mkD [0;1;2] [(0,1);(1,2)] in
  let c := mkC [0;1;2] [mkG KU 1 [0;1]; mkG KM 2 [0;2]] in
  spec_satisfied d (fun _ => true) c = true /\ assert_connectivity_before_repair d c = false /\
  is_satisfied d (fun _ => true) c = true.
Proof. repeat split; reflexivity. Qed.

(* ------------------------------------------------------------------ runs of passes *)
Lemma run_passes_app d native a b st :
  run_passes d native st (a ++ b) =
  match run_passes d native st a with Some st' => run_passes d native st' b | None => None end.
Proof.
  revert st. induction a as [|p a IH]; intro st; cbn; auto.
  destruct (apply_pass d native st p); auto.
Qed.

Lemma prep_run d native pre : forallb is_prep pre = true ->
  forall c0 l0 c1 l1, run_passes d native (c0, l0) pre = Some (c1, l1) -> cgates c1 = cgates c0.
Proof.
  induction pre as [|p pre IH]; intros Hp c0 l0 c1 l1 H; cbn in *.
  - inversion H; reflexivity.
  - apply andb_prop in Hp. destruct Hp as [Hp1 Hp2].
    destruct p as [rest | w | c' l | pieces]; cbn in Hp1; try discriminate; cbn in H.
    + unfold preprocessing in H.
      destruct (negb _); [discriminate|]. destruct (_ <? _); [discriminate|].
      destruct (_ =? _).
      * cbn in H. eapply IH; eauto.
      * destruct (rest_ok _ _ _); [|discriminate]. cbn in H.
        rewrite (IH Hp2 _ _ _ _ H). reflexivity.
    + unfold place in H. destruct (placer_contract d c0 w); [|discriminate]. cbn in H.
      rewrite (IH Hp2 _ _ _ _ H). reflexivity.
Qed.

(* the structural part of the unroller contract keeps the acceptance predicates *)
Lemma unroll_keeps d native c pieces :
  unroller_contract native c pieces = true ->
  spec_connectivity d c = true ->
  spec_connectivity d (unrolled c pieces) = true /\ assert_decomposition native (unrolled c pieces) = true.
Proof.
  intros U SC. unfold unroller_contract in U. apply andb_prop in U. destruct U as [U1 U2].
  apply gates_eqb_eq in U1. rewrite forallb_forall in U2.
  unfold spec_connectivity in SC. rewrite forallb_forall in SC.
  unfold spec_connectivity, assert_decomposition, unrolled. cbn [cgates cwires].
  split; apply forallb_forall; intros h Hh; apply in_flat_map in Hh; destruct Hh as ([g hs] & Hp & Hh);
    cbn in Hh; specialize (U2 _ Hp); cbn in U2;
    assert (Hg : In g (cgates c)) by (rewrite U1; apply in_map_iff; exists (g, hs); auto).
  - destruct (is_meas g) eqn:Em.
    + destruct hs as [|h0 [|? ?]]; try discriminate. apply gate_eqb_eq in U2. destruct Hh as [<-|[]].
      subst h0. rewrite Em. reflexivity.
    + rewrite forallb_forall in U2. specialize (U2 h Hh).
      apply andb_prop in U2. destruct U2 as [U2 U6]. apply andb_prop in U2. destruct U2 as [U2 U5].
      apply andb_prop in U2. destruct U2 as [U2 U4]. apply andb_prop in U2. destruct U2 as [U2 U3].
      apply negb_true_iff in U2. rewrite U2. cbn.
      unfold nq in *. destruct (gqs h) as [|x [|y [|z r]]] eqn:Eh; cbn in *; auto; try discriminate.
      apply andb_prop in U6. destruct U6 as [G2 ND]. apply Nat.eqb_eq in G2.
      specialize (SC g Hg). rewrite Em in SC. cbn in SC.
      destruct (gqs g) as [|a [|b [|z r]]] eqn:Eg; cbn in G2; try discriminate.
      apply andb_prop in U3. destruct U3 as [Mx My]. apply andb_prop in My. destruct My as [My _].
      assert (Hx : In x [a; b]) by (apply mem_In; exact Mx).
      assert (Hy : In y [a; b]) by (apply mem_In; exact My).
      apply andb_prop in ND. destruct ND as [ND _]. apply negb_true_iff in ND.
      rewrite orb_false_r in ND. apply Nat.eqb_neq in ND.
      destruct Hx as [<-|[<-|[]]]; destruct Hy as [<-|[<-|[]]]; try congruence.
      rewrite has_edge_sym. exact SC.
  - destruct (is_meas g) eqn:Em.
    + destruct hs as [|h0 [|? ?]]; try discriminate. apply gate_eqb_eq in U2. destruct Hh as [<-|[]].
      subst h0. rewrite Em. reflexivity.
    + rewrite forallb_forall in U2. specialize (U2 h Hh).
      apply andb_prop in U2. destruct U2 as [U2 U6]. apply andb_prop in U2. destruct U2 as [U2 U5].
      apply andb_prop in U2. destruct U2 as [U2 U4]. rewrite U4, U5. apply orb_true_r.
Qed.

Section SemPipeline.
  Variable n : nat.
  Variable I : interp n.

  Definition unroll_sem (pieces : list (gate * list gate)) : Prop :=
    forall g hs, In (g, hs) pieces -> forall x, ieq n I (irun I hs x) (iact n I g x).

  Lemma irun_eq gs x y : ieq n I x y -> ieq n I (irun I gs x) (irun I gs y).
  Proof. unfold irun. apply run_gates_eq. apply i_act_eq. Qed.

  Lemma irun_app a b x : irun I (a ++ b) x = irun I b (irun I a x).
  Proof. unfold irun. apply run_gates_app. Qed.

  Lemma unroll_sem_flat pieces : unroll_sem pieces ->
    forall x, ieq n I (irun I (flat_map snd pieces) x) (irun I (map fst pieces) x).
  Proof.
    induction pieces as [|[g hs] ps IH]; intros H x; cbn [flat_map map fst snd].
    - apply i_refl.
    - rewrite irun_app. change (irun I (g :: map fst ps) x) with (irun I (map fst ps) (iact n I g x)).
      eapply i_trans.
      + apply irun_eq. apply (H g hs). left. reflexivity.
      + apply IH. intros g' hs' Hin. apply H. right. exact Hin.
  Qed.

  Lemma unroll_run d native post : forallb is_unroll post = true ->
    forall c3 lay c lay',
      run_passes d native (c3, lay) post = Some (c, lay') ->
      spec_connectivity d c3 = true ->
      (forall pieces, In (PUnroll pieces) post -> unroll_sem pieces) ->
      lay' = lay /\ cwires c = cwires c3 /\ spec_connectivity d c = true /\
      (post <> [] -> assert_decomposition native c = true) /\
      forall x, ieq n I (irun I (cgates c) x) (irun I (cgates c3) x).
  Proof.
    induction post as [|p post IH]; intros Hp c3 lay c lay' H SC Sem; cbn in H.
    - inversion H; subst. split; [reflexivity|]. split; [reflexivity|]. split; [exact SC|].
      split; [intro N; exfalso; apply N; reflexivity|]. intro x. apply i_refl.
    - cbn in Hp. apply andb_prop in Hp. destruct Hp as [Hp1 Hp2].
      destruct p as [rest | w | c' l | pieces]; cbn in Hp1; try discriminate. cbn in H.
      destruct (unroller_contract native c3 pieces) eqn:U; [|discriminate].
      destruct (unroll_keeps d native c3 pieces U SC) as [SC' DEC'].
      assert (Sem' : forall pieces0, In (PUnroll pieces0) post -> unroll_sem pieces0).
      { intros q Hq. apply Sem. right. exact Hq. }
      destruct (IH Hp2 _ _ _ _ H SC' Sem') as (L & W & SC'' & DEC'' & S).
      split; [exact L|]. split; [rewrite W; reflexivity|]. split; [exact SC''|]. split.
      + intros _. destruct post as [|p' post']; [|apply DEC''; discriminate].
        cbn in H. inversion H; subst. exact DEC'.
      + intro x. eapply i_trans; [apply S|]. cbn [unrolled cgates].
        unfold unroller_contract in U. apply andb_prop in U. destruct U as [U1 _].
        apply gates_eqb_eq in U1. rewrite U1.
        apply unroll_sem_flat. apply Sem. left. reflexivity.
  Qed.

  (* ---- the composition theorem.  Pipeline = (Preprocessing | placer)* ; router ; Unroller*.
     Semantic premises: the router's output is P_layout . (its input)  [C09 routing_ok], the
     unroller's table is correct in I [C10]; with ieq = "equal up to a global phase" this is the
     statement of the property. *)
  Theorem pipeline_sem d native c0 pre c3 l2p post c lay :
    forallb is_prep pre = true -> forallb is_unroll post = true ->
    run_passes d native (c0, None) (pre ++ PRoute c3 l2p :: post) = Some (c, lay) ->
    (forall x, ieq n I (irun I (cgates c3) x) (ipact n I (at_ l2p) (irun I (cgates c0) x))) ->
    (forall pieces, In (PUnroll pieces) post -> unroll_sem pieces) ->
    lay = Some l2p /\
    is_perm (length (dnodes d)) l2p = true /\
    assert_placement d c = true /\ spec_connectivity d c = true /\
    (post <> [] -> spec_satisfied d native c = true) /\
    forall x, ieq n I (irun I (cgates c) x) (ipact n I (at_ l2p) (irun I (cgates c0) x)).
  Proof.
    intros Hpre Hpost H RS US. rewrite run_passes_app in H.
    destruct (run_passes d native (c0, None) pre) as [[c1 l1]|] eqn:E1; [|discriminate].
    pose proof (prep_run d native pre Hpre _ _ _ _ E1) as G1.
    cbn [run_passes apply_pass] in H.
    destruct (router_contract d c1 c3 l2p) eqn:RC; [|discriminate].
    unfold router_contract in RC.
    apply andb_prop in RC. destruct RC as [RC R5]. apply andb_prop in RC. destruct RC as [RC R4].
    apply andb_prop in RC. destruct RC as [RC R3]. apply andb_prop in RC. destruct RC as [R1 R2].
    apply list_eqb_eq in R2.
    destruct (unroll_run d native post Hpost _ _ _ _ H R4 US) as (L & W & SC & DEC & S).
    assert (AP : assert_placement d c = true).
    { unfold assert_placement, cn in *. rewrite W, R2. exact R1. }
    assert (NL : cn c1 = length (dnodes d)).
    { unfold assert_placement in R1. apply andb_prop in R1. destruct R1 as [R1 _]. apply Nat.eqb_eq in R1. exact R1. }
    split; [exact L|]. split; [rewrite <- NL; exact R3|]. split; [exact AP|]. split; [exact SC|]. split.
    - intro N. unfold spec_satisfied. rewrite AP, SC, (DEC N). reflexivity.
    - intro x. eapply i_trans; [apply S|]. apply RS.
  Qed.
End SemPipeline.

(* ------------------------------------------------------------------ the router premise of pipeline_sem is what C09 proves *)
Theorem router_premise_from_C09 n (I : interp n) G items finals body ops s c1 c3 :
  wf_items n items ->
  (forall g q, In g finals -> In q (gqs g) -> q < n) ->
  teq Dgate body (flat_map igates items) ->      (* block decomposition = reordering (reorder_check_sound) *)
  cgates c1 = body ++ finals ->
  run n (full_guard G) (init n items) ops = Some s -> rem s = [] ->
  cgates c3 = eflat (out s) ++ append_final (l2p s) finals ->
  forall x, ieq n I (irun I (cgates c3) x) (ipact n I (at_ (l2p s)) (irun I (cgates c1) x)).
Proof.
  intros WI WF T E1 R E E3 x. rewrite E3, E1.
  eapply i_trans; [apply (routing_sem_interp n I G items finals ops s WI WF R E)|].
  apply i_pact_eq. unfold irun. rewrite !run_gates_app.
  apply run_gates_eq; [apply i_act_eq|].
  apply i_sym.
  apply (sem_teq _ _ (i_refl n I) (i_sym n I) (i_trans n I) _ (i_act_eq n I) (i_comm n I)). exact T.
Qed.


(* ------------------------------------------------------------------ restrict_connectivity_qubits / on_qubits *)
Lemma has_edge_filter f G a b :
  has_edge (filter f G) a b = true <->
  exists e, In e G /\ f e = true /\ ((fst e = a /\ snd e = b) \/ (fst e = b /\ snd e = a)).
Proof.
  unfold has_edge. rewrite existsb_exists. split.
  - intros (e & He & C). apply filter_In in He. destruct He as [He Fe]. exists e. split; auto. split; auto.
    apply orb_prop in C. destruct C as [C|C]; apply andb_prop in C; destruct C as [C1 C2];
      apply Nat.eqb_eq in C1, C2; auto.
  - intros (e & He & Fe & C). exists e. split; [apply filter_In; auto|].
    destruct C as [[<- <-]|[<- <-]]; rewrite !Nat.eqb_refl; cbn; auto. apply orb_true_r.
Qed.

Lemma has_edge_exists G a b :
  has_edge G a b = true <-> exists e, In e G /\ ((fst e = a /\ snd e = b) \/ (fst e = b /\ snd e = a)).
Proof.
  unfold has_edge. rewrite existsb_exists. split.
  - intros (e & He & C). exists e. split; auto.
    apply orb_prop in C. destruct C as [C|C]; apply andb_prop in C; destruct C as [C1 C2];
      apply Nat.eqb_eq in C1, C2; auto.
  - intros (e & He & C). exists e. split; auto.
    destruct C as [[<- <-]|[<- <-]]; rewrite !Nat.eqb_refl; cbn; auto. apply orb_true_r.
Qed.

Theorem restrict_spec d qs d' :
  restrict d qs = Some d' ->
  dnodes d' = qs /\
  (forall q, In q qs -> In q (dnodes d)) /\
  (forall a b, has_edge (dedges d') a b = true <->
               has_edge (dedges d) a b = true /\ In a qs /\ In b qs) /\
  (* connectedness: every selected node is linked to the first one by restricted edges *)
  (forall v w, hd_error qs = Some v -> In w qs -> path (sym_edges (dedges d')) v w).
Proof.
  unfold restrict. destruct (subsetb qs (dnodes d)) eqn:S; [|discriminate].
  set (es := filter (fun e => mem (fst e) qs && mem (snd e) qs) (dedges d)).
  destruct (connectedb qs es) eqn:C; [|discriminate]. intro H. inversion H; subst d'; clear H. cbn [dnodes dedges].
  split; [reflexivity|]. split; [apply subsetb_In; exact S|]. split.
  - intros a b. unfold es. rewrite has_edge_filter, has_edge_exists. split.
    + intros (e & He & Fe & Cab). apply andb_prop in Fe. destruct Fe as [F1 F2].
      apply mem_In in F1, F2. split; [exists e; auto|].
      destruct Cab as [[<- <-]|[<- <-]]; auto.
    + intros ((e & He & Cab) & Ha & Hb). exists e. split; auto. split; auto.
      apply andb_true_intro. destruct Cab as [[-> ->]|[-> ->]]; split; apply mem_In; auto.
  - intros v w Hv Hw. unfold connectedb in C. destruct qs as [|v0 qs']; [discriminate|].
    cbn in Hv. inversion Hv; subst v0. rewrite forallb_forall in C. specialize (C w Hw). apply mem_In in C.
    apply (reach_set_sound (sym_edges es) v (length (v :: qs')) [v]); auto. intros x [<-|[]]. apply path_refl.
Qed.

Theorem restrict_none d qs :
  restrict d qs = None <->
  (exists q, In q qs /\ ~ In q (dnodes d)) \/
  connectedb qs (filter (fun e => mem (fst e) qs && mem (snd e) qs) (dedges d)) = false.
Proof.
  unfold restrict. destruct (subsetb qs (dnodes d)) eqn:S.
  - destruct (connectedb qs _) eqn:C; split; intro H; try discriminate; auto.
    destruct H as [(q & Hq & Nq)|H]; [|discriminate]. exfalso. apply Nq. eapply subsetb_In; eauto.
  - split; auto. intros _. left. unfold subsetb in S.
    destruct (forallb_forall (fun q => mem q (dnodes d)) qs) as [_ F].
    destruct (existsb (fun q => negb (mem q (dnodes d))) qs) eqn:Ex.
    + apply existsb_exists in Ex. destruct Ex as (q & Hq & Nq). exists q. split; auto.
      intro Hin. apply mem_In in Hin. rewrite Hin in Nq. discriminate.
    + exfalso. rewrite F in S; [discriminate|]. intros q Hq.
      destruct (mem q (dnodes d)) eqn:M; auto. exfalso.
      assert (existsb (fun q => negb (mem q (dnodes d))) qs = true).
      { apply existsb_exists. exists q. split; auto. rewrite M. reflexivity. }
      congruence.
Qed.

(* a circuit accepted on the restricted device is executable on the full device *)
Theorem restrict_mono d qs d' c :
  restrict d qs = Some d' -> spec_connectivity d' c = true -> spec_connectivity d c = true.
Proof.
  intros R H. destruct (restrict_spec d qs d' R) as (_ & _ & E & _).
  unfold spec_connectivity in *. rewrite forallb_forall in *. intros g Hg. specialize (H g Hg).
  destruct (is_meas g); auto. cbn in *. destruct (gqs g) as [|a [|b [|z r]]]; auto.
  apply E in H. tauto.
Qed.

(* ------------------------------------------------------------------ StarConnectivityPlacer (concrete model) *)
Lemma swap_entries_length (l : list nat) i j : length (swap_entries l i j) = length l.
Proof. unfold swap_entries. rewrite !upd_length. reflexivity. Qed.

Lemma swap_entries_at (l : list nat) i j k : i < length l -> j < length l ->
  at_ (swap_entries l i j) k = if k =? j then at_ l i else if k =? i then at_ l j else at_ l k.
Proof.
  intros Li Lj. unfold swap_entries.
  destruct (Nat.eq_dec k j) as [->|Nj].
  - rewrite Nat.eqb_refl. apply at_upd_eq. rewrite upd_length. exact Lj.
  - apply Nat.eqb_neq in Nj as Ej. rewrite Ej. rewrite at_upd_neq by congruence.
    destruct (Nat.eq_dec k i) as [->|Ni].
    + rewrite Nat.eqb_refl. apply at_upd_eq. exact Li.
    + apply Nat.eqb_neq in Ni as Ei. rewrite Ei. apply at_upd_neq. congruence.
Qed.

Lemma swap_entries_In (l : list nat) i j x : i < length l -> j < length l ->
  (In x (swap_entries l i j) <-> In x l).
Proof.
  intros Li Lj. split; intro H.
  - destruct (In_nth _ _ 0 H) as (k & Lk & Ek). rewrite swap_entries_length in Lk.
    change (nth k (swap_entries l i j) 0) with (at_ (swap_entries l i j) k) in Ek.
    rewrite swap_entries_at in Ek by assumption. rewrite <- Ek.
    destruct (k =? j); [apply nth_In; exact Li|]. destruct (k =? i); apply nth_In; assumption.
  - destruct (In_nth _ _ 0 H) as (k & Lk & Ek). change (nth k l 0) with (at_ l k) in Ek.
    destruct (Nat.eq_dec k i) as [->|Ni].
    + assert (E : at_ (swap_entries l i j) j = x) by (rewrite swap_entries_at by assumption; rewrite Nat.eqb_refl; exact Ek).
      rewrite <- E. apply nth_In. rewrite swap_entries_length. exact Lj.
    + destruct (Nat.eq_dec k j) as [->|Nj].
      * assert (E : at_ (swap_entries l i j) i = x).
        { rewrite swap_entries_at by assumption. destruct (i =? j) eqn:Eij.
          - apply Nat.eqb_eq in Eij. rewrite Eij. exact Ek.
          - rewrite Nat.eqb_refl. exact Ek. }
        rewrite <- E. apply nth_In. rewrite swap_entries_length. exact Li.
      * assert (E : at_ (swap_entries l i j) k = x).
        { rewrite swap_entries_at by assumption. apply Nat.eqb_neq in Ni, Nj. rewrite Nj, Ni. exact Ek. }
        rewrite <- E. apply nth_In. rewrite swap_entries_length. exact Lk.
Qed.

Lemma star_placer_scan_lt n mid : forall queue nm,
  (forall g q, In g queue -> In q (gqs g) -> q < n) ->
  star_placer_scan n mid queue = Some (Some nm) -> nm < n.
Proof.
  induction queue as [|g rest IH]; intros nm W H; cbn [star_placer_scan] in H; [discriminate|].
  assert (W' : forall g0 q, In g0 rest -> In q (gqs g0) -> q < n) by (intros g0 q Hg; apply W; right; exact Hg).
  destruct (is_meas g); [apply IH; auto|].
  destruct (2 <? nq g); [discriminate|].
  destruct (gqs g) as [|a [|b [|c r]]] eqn:Eg; try (apply IH; auto; fail).
  destruct (negb (mem mid [a; b])); [|apply IH; auto].
  destruct (find_connected a (if a =? b then [a] else [a; b]) rest (seq 0 n)) as [x|] eqn:F; [|discriminate].
  cbn in H. inversion H; subst x.
  assert (Ha : a < n) by (apply (W g a); [left; reflexivity | rewrite Eg; left; reflexivity]).
  assert (Hb : b < n) by (apply (W g b); [left; reflexivity | rewrite Eg; right; left; reflexivity]).
  destruct (find_connected_in _ _ _ _ _ F) as [->|Hin]; auto.
  destruct (a =? b); cbn in Hin; intuition; subst; auto.
Qed.

Theorem star_placer_contract d c mid w' :
  assert_placement d c = true -> mid < cn c ->
  (forall g q, In g (cgates c) -> In q (gqs g) -> q < cn c) ->
  star_placer mid c = Some w' ->
  placer_contract d c w' = true.
Proof.
  intros AP Lm W H. unfold star_placer in H.
  destruct (star_placer_scan (cn c) mid (cgates c)) as [[nm|]|] eqn:S; try discriminate.
  - inversion H; subst w'; clear H.
    pose proof (star_placer_scan_lt _ _ _ _ W S) as Ln. unfold cn in *.
    unfold placer_contract. rewrite AP. cbn [andb].
    unfold assert_placement, cn in AP. apply andb_prop in AP. destruct AP as [A1 A2].
    rewrite swap_entries_length, A1. cbn [andb].
    unfold same_set in *. apply andb_prop in A2. destruct A2 as [S1 S2].
    apply andb_true_intro. split; apply subsetb_intro; intros q Hq.
    + apply (subsetb_In _ _ S1). apply (swap_entries_In _ mid nm q Lm Ln). exact Hq.
    + apply (swap_entries_In _ mid nm q Lm Ln). apply (subsetb_In _ _ S2). exact Hq.
  - inversion H; subst w'; clear H. unfold placer_contract. rewrite AP. cbn [andb].
    unfold assert_placement in AP. apply andb_prop in AP. destruct AP as [A1 A2]. unfold cn in A1.
    rewrite A1, A2. reflexivity.
Qed.

(* ------------------------------------------------------------------ ANY bijective layout gives a valid placement *)
Lemma is_perm_spec n m : is_perm n m = true -> length m = n /\ NoDup m /\ forall x, In x m -> x < n.
Proof.
  unfold is_perm. intro H. apply andb_prop in H. destruct H as [H H3]. apply andb_prop in H. destruct H as [H1 H2].
  apply Nat.eqb_eq in H1. apply nodupb_NoDup in H2. rewrite forallb_forall in H3.
  repeat split; auto. intros x Hx. apply Nat.ltb_lt. apply H3. exact Hx.
Qed.

Lemma perm_surj n m p : is_perm n m = true -> p < n -> In p m.
Proof.
  intros H Lp. destruct (is_perm_spec n m H) as (L & ND & B).
  assert (I : incl (seq 0 n) m).
  { apply (NoDup_length_incl ND); [rewrite seq_length; lia|]. intros x Hx. apply in_seq. split; [lia|]. apply B. exact Hx. }
  apply I. apply in_seq. lia.
Qed.

Lemma index_of_lt x l : In x l -> index_of x l < length l /\ nth (index_of x l) l 0 = x.
Proof.
  induction l as [|y l IH]; intro H; [destruct H|]. cbn [index_of].
  destruct (y =? x) eqn:E.
  - apply Nat.eqb_eq in E. subst. cbn. split; [lia | reflexivity].
  - destruct H as [->|H]; [rewrite Nat.eqb_refl in E; discriminate|].
    destruct (IH H) as [A B]. cbn. split; [lia | exact B].
Qed.

Lemma index_of_nth l i : NoDup l -> i < length l -> index_of (nth i l 0) l = i.
Proof.
  intros ND L. apply index_of_first; auto. intros k Lk E.
  assert (k = i); [|lia]. apply (proj1 (NoDup_nth l 0) ND); auto; lia.
Qed.

Theorem layout_gives_placement keys m :
  NoDup keys -> is_perm (length keys) m = true ->
  length (wires_of_layout keys m) = length keys /\
  forall w, In w (wires_of_layout keys m) <-> In w keys.
Proof.
  intros NDk P. destruct (is_perm_spec _ _ P) as (L & NDm & B).
  unfold wires_of_layout. split; [rewrite map_length, seq_length; reflexivity|].
  intro w. rewrite in_map_iff. split.
  - intros (p & <- & Hp). apply in_seq in Hp. apply nth_In.
    destruct (index_of_lt p m (perm_surj _ _ p P (proj2 Hp))) as [A _]. lia.
  - intro H. destruct (In_nth _ _ 0 H) as (i & Li & E).
    exists (nth i m 0). split.
    + rewrite index_of_nth; auto. lia.
    + apply in_seq. split; [lia|]. cbn. apply B. apply nth_In. lia.
Qed.

Theorem layout_placer_contract d c m :
  NoDup (dnodes d) -> assert_placement d c = true -> is_perm (length (dnodes d)) m = true ->
  placer_contract d c (wires_of_layout (dnodes d) m) = true.
Proof.
  intros ND AP P. destruct (layout_gives_placement _ _ ND P) as [L S].
  unfold placer_contract. rewrite AP, L, Nat.eqb_refl. cbn [andb].
  unfold same_set. apply andb_true_intro. split; apply subsetb_intro; intros q Hq; apply S; exact Hq.
Qed.

(* Random: whatever the sampled layouts and the greedy choice, the result is a valid placement *)
Lemma random_loop_in keys es pairs : forall samples best bestc,
  let r := random_loop keys es pairs best bestc samples in r = best \/ In r samples.
Proof.
  induction samples as [|m rest IH]; intros best bestc; cbn [random_loop]; [left; reflexivity|].
  destruct (random_cost _ pairs =? 0); [right; left; reflexivity|].
  destruct (random_cost _ pairs <? bestc).
  - destruct (IH m (random_cost (relabel_edges keys m es) pairs)) as [E|E]; [right; left; symmetry; exact E | right; right; exact E].
  - destruct (IH best bestc) as [E|E]; [left; exact E | right; right; exact E].
Qed.

Lemma is_perm_seq n : is_perm n (seq 0 n) = true.
Proof.
  unfold is_perm. rewrite seq_length, Nat.eqb_refl. cbn [andb].
  apply andb_true_intro. split.
  - assert (H : forall k s, nodupb (seq s k) = true).
    { induction k as [|k IH]; intro s; cbn; auto. rewrite IH, andb_true_r. apply negb_true_iff.
      destruct (mem s (seq (S s) k)) eqn:M; auto. apply mem_In in M. apply in_seq in M. lia. }
    apply H.
  - apply forallb_forall. intros x Hx. apply in_seq in Hx. apply Nat.ltb_lt. lia.
Qed.

Theorem random_placer_contract d c pairs samples :
  NoDup (dnodes d) -> assert_placement d c = true ->
  (forall m, In m samples -> is_perm (length (dnodes d)) m = true) ->
  placer_contract d c (random_placer d pairs samples) = true.
Proof.
  intros ND AP H. unfold random_placer. apply layout_placer_contract; auto.
  match goal with |- is_perm _ (random_loop ?k ?e ?p ?b ?bc ?s) = true =>
    destruct (random_loop_in k e p s b bc) as [E|E] end.
  - rewrite E. apply is_perm_seq.
  - apply H. exact E.
Qed.

Lemma subgraph_loop_in pairs nedges : forall fuel i result answers m,
  subgraph_loop fuel nedges pairs i result answers = Some m ->
  result = Some m \/ exists b, In (b, m) answers.
Proof.
  induction fuel as [|f IH]; intros i result answers m H; cbn [subgraph_loop] in H.
  - destruct answers as [|[[|] m0] rest]; try discriminate. left. exact H.
  - destruct answers as [|[[|] m0] rest]; try discriminate.
    + destruct ((nedges =? _) || (S i =? _)).
      * inversion H; subst. right. exists true. left. reflexivity.
      * destruct (IH _ _ _ _ H) as [E|(b & E)].
        -- inversion E; subst. right. exists true. left. reflexivity.
        -- right. exists b. right. exact E.
    + left. exact H.
Qed.

Theorem subgraph_placer_contract d c pairs answers w :
  NoDup (dnodes d) -> assert_placement d c = true ->
  (forall b m, In (b, m) answers -> is_perm (length (dnodes d)) m = true) ->
  subgraph_placer d pairs answers = Some w ->
  placer_contract d c w = true.
Proof.
  intros ND AP H. unfold subgraph_placer. destruct (length pairs <? 2); [discriminate|].
  destruct (subgraph_loop _ _ pairs 0 None answers) as [m|] eqn:E; [|discriminate].
  intro Hw. inversion Hw; subst w. apply layout_placer_contract; auto.
  destruct (subgraph_loop_in _ _ _ _ _ _ _ E) as [F|(b & F)]; [discriminate|]. eapply H; eauto.
Qed.

Theorem reverse_traversal_placer_contract d c :
  assert_placement d c = true -> placer_contract d c (reverse_traversal_placer c) = true.
Proof.
  intro AP. unfold placer_contract, reverse_traversal_placer. rewrite AP. cbn [andb].
  unfold assert_placement, cn in AP. apply andb_prop in AP. destruct AP as [A1 A2]. rewrite A1, A2. reflexivity.
Qed.

(* measured registers: a placer leaves every gate, hence every measurement gate with its register
   and qubits, untouched *)
Theorem placer_keeps_measurements d w c c' :
  place d w c = Some c' -> filter is_meas (cgates c') = filter is_meas (cgates c).
Proof. intro H. destruct (placer_contract_preserves _ _ _ _ H) as (E & _). rewrite E. reflexivity. Qed.
