(* C11/ModelPipeline.v : executable model of transpiler/pipeline.py Passes.__call__ /
   is_satisfied / restrict_connectivity_qubits, optimizer.py Preprocessing, asserts.py
   assert_placement / assert_connectivity / assert_decomposition, and the CONTRACTS of placers,
   routers and the unroller as executable checks on their observed outputs.  No proofs here.

   Device nodes and wire names are numbers (the harness numbers the node labels).  A circuit is
   its wire-name list (nqubits = its length) and its gate list; gates are (kind, tag, positions)
   as in C09; for is_satisfied the tag is the class of the gate and [native] a predicate on it. *)
From Coq Require Import List Arith Bool Lia.
From QV Require Import C09.Trace C09.ModelRouter C09.ModelBlocks C09.ModelStar C09.ModelDag.
Import ListNotations.

Record circ := mkC { cwires : list nat; cgates : list gate }.
Definition cn (c : circ) : nat := length (cwires c).

Record device := mkD { dnodes : list nat; dedges : list (nat * nat) }.

(* ---- pipeline.restrict_connectivity_qubits: the selected qubits must be device nodes
   (ConnectivityError otherwise), the edges are those with both ends selected, and the restricted
   graph must be connected (nx.is_connected; modelled by a breadth-first closure from the first
   selected node over the symmetrised edges; the empty selection makes networkx raise) *)
Definition sym_edges (es : list (nat * nat)) : list (nat * nat) := es ++ map (fun e => (snd e, fst e)) es.
Definition connectedb (nodes : list nat) (es : list (nat * nat)) : bool :=
  match nodes with
  | [] => false
  | v :: _ => forallb (fun w => mem w (reach_set (sym_edges es) (length nodes) [v])) nodes
  end.
Definition restrict (d : device) (qs : list nat) : option device :=
  if subsetb qs (dnodes d)
  then let es := filter (fun e => mem (fst e) qs && mem (snd e) qs) (dedges d) in
       if connectedb qs es then Some (mkD qs es) else None
  else None.

(* ---- asserts.py *)
Definition same_set (a b : list nat) : bool := subsetb a b && subsetb b a.
Definition assert_placement (d : device) (c : circ) : bool :=
  (cn c =? length (dnodes d)) && same_set (cwires c) (dnodes d).

(* faithful to the source: gates on more than two qubits are refused unless they are measurements;
   two-qubit gates other than measurements must sit on an edge (through the wire names) *)
Definition assert_connectivity (d : device) (c : circ) : bool :=
  forallb (fun g =>
    if (2 <? nq g) && negb (is_meas g) then false
    else if (nq g =? 2) && negb (is_meas g)
         then match gqs g with
              | [a; b] => has_edge (dedges d) (nth a (cwires c) 0) (nth b (cwires c) 0)
              | _ => false
              end
         else true) (cgates c).

Definition assert_decomposition (native : gate -> bool) (c : circ) : bool :=
  forallb (fun g => is_meas g || ((nq g <=? 2) && native g)) (cgates c).

Definition is_satisfied (d : device) (native : gate -> bool) (c : circ) : bool :=
  assert_placement d c && assert_connectivity d c && assert_decomposition native c.

(* what the acceptance check is meant to say (measurements need no connectivity) *)
Definition spec_connectivity (d : device) (c : circ) : bool :=
  forallb (fun g =>
    is_meas g ||
    match gqs g with
    | [] | [_] => true
    | [a; b] => has_edge (dedges d) (nth a (cwires c) 0) (nth b (cwires c) 0)
    | _ => false
    end) (cgates c).
Definition spec_satisfied (d : device) (native : gate -> bool) (c : circ) : bool :=
  assert_placement d c && spec_connectivity d c && assert_decomposition native c.

(* ---- optimizer.Preprocessing.  [rest] = the order in which the implementation appends the
   remaining nodes (a Python set difference: any order); None = raises ValueError *)
Definition rest_ok (d : device) (wires rest : list nat) : bool :=
  nodupb rest && forallb (fun r => mem r (dnodes d) && negb (mem r wires)) rest &&
  (length wires + length rest =? length (dnodes d)).
Definition preprocessing (d : device) (rest : list nat) (c : circ) : option circ :=
  if negb (subsetb (cwires c) (dnodes d)) then None
  else if length (dnodes d) <? cn c then None
  else if cn c =? length (dnodes d) then Some c
  else if rest_ok d (cwires c) rest then Some (mkC (cwires c ++ rest) (cgates c))
  else None.

(* ---- contracts, as checks on observed outputs *)
(* placer: asserts the placement of its input, then only renames wires to a permutation of the nodes *)
Definition placer_contract (d : device) (c : circ) (new_wires : list nat) : bool :=
  assert_placement d c && (length new_wires =? length (dnodes d)) && same_set new_wires (dnodes d).
Definition place (d : device) (new_wires : list nat) (c : circ) : option circ :=
  if placer_contract d c new_wires then Some (mkC new_wires (cgates c)) else None.

(* router (structural part of C09's statement): wire names kept, layout a permutation, every
   two-qubit non-measurement gate on an edge (through the wire names) *)
Definition is_perm (n : nat) (l : list nat) : bool :=
  (length l =? n) && nodupb l && forallb (fun x => x <? n) l.
Definition router_contract (d : device) (c c' : circ) (l2p : list nat) : bool :=
  assert_placement d c && list_eqb (cwires c') (cwires c) && is_perm (cn c) l2p &&
  spec_connectivity d c' && forallb (fun g => forallb (fun q => q <? cn c) (gqs g)) (cgates c').

(* unroller (structural part of C10's statement): every gate is replaced by native gates acting
   within its own qubits; measurements are kept *)
Definition piece_ok (native : gate -> bool) (p : gate * list gate) : bool :=
  let '(g, hs) := p in
  if is_meas g then match hs with [h] => gate_eqb h g | _ => false end
  else forallb (fun h => negb (is_meas h) && subsetb (gqs h) (gqs g) && (nq h <=? 2) && native h &&
                         ((nq h <? 2) || (nq g =? 2) && nodupb (gqs h))) hs.
Fixpoint gates_eqb (a b : list gate) : bool :=
  match a, b with
  | [], [] => true
  | x :: a', y :: b' => gate_eqb x y && gates_eqb a' b'
  | _, _ => false
  end.
Definition unroller_contract (native : gate -> bool) (c : circ) (pieces : list (gate * list gate)) : bool :=
  gates_eqb (cgates c) (map fst pieces) && forallb (piece_ok native) pieces.
Definition unrolled (c : circ) (pieces : list (gate * list gate)) : circ :=
  mkC (cwires c) (flat_map snd pieces).

(* ---- Passes.__call__ : a fold over the passes.  The outputs of placer / router / unroller are
   oracle data checked against their contracts (None = contract violated or the pass raises) *)
Inductive pass :=
| PPre (rest : list nat)
| PPlace (new_wires : list nat)
| PRoute (c' : circ) (l2p : list nat)
| PUnroll (pieces : list (gate * list gate)).

Definition pstate := (circ * option (list nat))%type.

Definition apply_pass (d : device) (native : gate -> bool) (st : pstate) (p : pass) : option pstate :=
  let '(c, lay) := st in
  match p with
  | PPre rest => option_map (fun c' => (c', lay)) (preprocessing d rest c)
  | PPlace w => option_map (fun c' => (c', None)) (place d w c)   (* final_layout = placer(circuit) = None *)
  | PRoute c' l2p => if router_contract d c c' l2p then Some (c', Some l2p) else None
  | PUnroll pieces => if unroller_contract native c pieces then Some (unrolled c pieces, lay) else None
  end.

Fixpoint run_passes (d : device) (native : gate -> bool) (st : pstate) (ps : list pass) : option pstate :=
  match ps with
  | [] => Some st
  | p :: ps' =>
      match apply_pass d native st p with
      | Some st' => run_passes d native st' ps'
      | None => None
      end
  end.

Definition is_prep (p : pass) : bool := match p with PPre _ | PPlace _ => true | _ => false end.
Definition is_unroll (p : pass) : bool := match p with PUnroll _ => true | _ => false end.

(* ---- placer.StarConnectivityPlacer.__call__ (concrete): the first two-qubit gate that does not
   involve the middle qubit decides which wire is exchanged with the middle one.
   [mid] = position of the middle node in wire_names.  None = raises PlacementError. *)
Fixpoint star_placer_scan (n mid : nat) (queue : list gate) : option (option nat) :=
  match queue with
  | [] => Some None
  | g :: rest =>
      if is_meas g then star_placer_scan n mid rest
      else if 2 <? nq g then None
      else match gqs g with
           | [a; b] =>
               if negb (mem mid [a; b])
               then option_map Some (find_connected a (if a =? b then [a] else [a; b]) rest (seq 0 n))
               else star_placer_scan n mid rest
           | _ => star_placer_scan n mid rest
           end
  end.
Definition star_placer (mid : nat) (c : circ) : option (list nat) :=
  match star_placer_scan (cn c) mid (cgates c) with
  | None => None
  | Some None => Some (cwires c)
  | Some (Some nm) => Some (swap_entries (cwires c) mid nm)
  end.

(* ---- what every placer does with the layout it computed:
   circuit.wire_names = sorted(layout, key=layout.get), i.e. position p gets the node whose layout
   value is p.  [keys] = list(connectivity.nodes), [m] = layout values in the order of keys. *)
Definition wires_of_layout (keys m : list nat) : list nat :=
  map (fun p => nth (index_of p m) keys 0) (seq 0 (length keys)).

(* ---- placer.Random: greedy choice among sampled layouts (the samples are an oracle stream) *)
Definition relabel_edges (keys m : list nat) (es : list (nat * nat)) : list (nat * nat) :=
  map (fun e => (at_ m (index_of (fst e) keys), at_ m (index_of (snd e) keys))) es.
(* Random._cost: number of gates after the first one that is not on an edge *)
Fixpoint random_cost (G : list (nat * nat)) (pairs : list (nat * nat)) : nat :=
  match pairs with
  | [] => 0
  | p :: rest => if has_edge G (fst p) (snd p) then random_cost G rest else length rest
  end.
Fixpoint random_loop (keys : list nat) (es pairs : list (nat * nat)) (best : list nat) (bestc : nat)
         (samples : list (list nat)) : list nat :=
  match samples with
  | [] => best
  | m :: rest =>
      let c := random_cost (relabel_edges keys m es) pairs in
      if c =? 0 then m
      else if c <? bestc then random_loop keys es pairs m c rest
      else random_loop keys es pairs best bestc rest
  end.
Definition random_placer (d : device) (pairs : list (nat * nat)) (samples : list (list nat)) : list nat :=
  let keys := dnodes d in
  let m0 := seq 0 (length keys) in
  wires_of_layout keys (random_loop keys (dedges d) pairs m0
                          (random_cost (relabel_edges keys m0 (dedges d)) pairs) samples).

(* ---- placer.Subgraph: the GraphMatcher is an oracle; answers = (is_monomorphic, mapping values
   in the order of the device nodes) for the successive calls of subgraph_is_monomorphic *)
Definition norm_pair (p : nat * nat) : nat * nat := if fst p <=? snd p then p else (snd p, fst p).
Definition pair_eqb (a b : nat * nat) : bool := Nat.eqb (fst a) (fst b) && Nat.eqb (snd a) (snd b).
Fixpoint dedup_pairs (l : list (nat * nat)) : list (nat * nat) :=
  match l with
  | [] => []
  | p :: l' => if existsb (pair_eqb (norm_pair p)) (map norm_pair l') then dedup_pairs l' else norm_pair p :: dedup_pairs l'
  end.
(* state: i = index of the last pair added to circuit_subgraph; result = mapping of the last
   successful matcher *)
Fixpoint subgraph_loop (fuel nedges : nat) (pairs : list (nat * nat)) (i : nat) (result : option (list nat))
         (answers : list (bool * list nat)) : option (list nat) :=
  match fuel, answers with
  | S f, (true, m) :: rest =>
      let i' := S i in
      if (nedges =? length (dedup_pairs (firstn (S i') pairs))) || (i' =? length pairs - 1)
      then Some m
      else subgraph_loop f nedges pairs i' (Some m) rest
  | _, (false, _) :: _ => result
  | _, _ => None
  end.
Definition subgraph_placer (d : device) (pairs : list (nat * nat)) (answers : list (bool * list nat)) : option (list nat) :=
  if length pairs <? 2 then None
  else option_map (wires_of_layout (dnodes d))
                  (subgraph_loop (length pairs) (length (dedup_pairs (dedges d))) pairs 0 None answers).

(* ---- placer.ReverseTraversal: the layout found by its inner routing is discarded
   (_routing_step's result is not used by __call__): the wire names stay as they are *)
Definition reverse_traversal_placer (c : circ) : list nat := cwires c.
