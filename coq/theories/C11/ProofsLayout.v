(* C11/ProofsLayout.v : pipelines of ANY shape in which no router runs (no router; placer only;
   Preprocessing only; unroller only; any interleaving of these): the final layout is None and
   the circuit is unchanged up to the unroller's equivalence. *)
From Coq Require Import List Arith Bool Lia.
From QV Require Import C09.Trace C09.ModelRouter C09.ModelBlocks C09.ModelDag C09.ProofsRouter C09.ProofsDag
                       C09.ProofsSem C11.ModelPipeline C11.ProofsPipeline.
Import ListNotations.

Definition is_route (p : pass) : bool := match p with PRoute _ _ => true | _ => false end.
Definition is_place (p : pass) : bool := match p with PPlace _ => true | _ => false end.

Lemma no_router_layout d native : forall ps c0 c lay,
  forallb (fun p => negb (is_route p)) ps = true ->
  run_passes d native (c0, None) ps = Some (c, lay) -> lay = None.
Proof.
  induction ps as [|p ps IH]; intros c0 c lay Hp H; cbn in H.
  - inversion H; reflexivity.
  - cbn in Hp. apply andb_prop in Hp. destruct Hp as [Hp1 Hp2].
    destruct p as [rest | w | c' l | pieces]; cbn in Hp1; try discriminate; cbn in H.
    + destruct (preprocessing d rest c0); [|discriminate]. cbn in H. eapply IH; eauto.
    + destruct (place d w c0); [|discriminate]. cbn in H. eapply IH; eauto.
    + destruct (unroller_contract native c0 pieces); [|discriminate]. eapply IH; eauto.
Qed.

(* without placer and router the circuit's own wires stay where they are (padding only appends) *)
Lemma no_placer_wires d native : forall ps c0 c lay lay0,
  forallb (fun p => negb (is_route p) && negb (is_place p)) ps = true ->
  run_passes d native (c0, lay0) ps = Some (c, lay) ->
  firstn (cn c0) (cwires c) = cwires c0.
Proof.
  induction ps as [|p ps IH]; intros c0 c lay lay0 Hp H; cbn in H.
  - inversion H; subst. unfold cn. apply firstn_all.
  - cbn in Hp. apply andb_prop in Hp. destruct Hp as [Hp1 Hp2].
    destruct p as [rest | w | c' l | pieces]; cbn in Hp1; try discriminate; cbn in H.
    + unfold preprocessing in H.
      destruct (negb _); [discriminate|]. destruct (_ <? _); [discriminate|].
      destruct (_ =? _).
      * cbn in H. eapply IH; eauto.
      * destruct (rest_ok _ _ _); [|discriminate]. cbn in H.
        specialize (IH _ _ _ _ Hp2 H). unfold cn in *. cbn [cwires] in IH.
        rewrite app_length in IH.
        assert (E : firstn (length (cwires c0)) (firstn (length (cwires c0) + length rest) (cwires c)) =
                    firstn (length (cwires c0)) (cwires c0 ++ rest)) by (rewrite IH; reflexivity).
        rewrite firstn_firstn in E. rewrite Nat.min_l in E by lia.
        rewrite E. rewrite firstn_app. rewrite Nat.sub_diag. cbn [firstn]. rewrite app_nil_r. apply firstn_all.
    + destruct (unroller_contract native c0 pieces); [|discriminate].
      specialize (IH _ _ _ _ Hp2 H). unfold cn, unrolled in *. cbn [cwires] in IH. exact IH.
Qed.

Section SemLayout.
  Variable n : nat.
  Variable I : interp n.

  Lemma no_router_sem d native : forall ps c0 c lay lay0,
    forallb (fun p => negb (is_route p)) ps = true ->
    run_passes d native (c0, lay0) ps = Some (c, lay) ->
    (forall pieces, In (PUnroll pieces) ps -> unroll_sem n I pieces) ->
    forall x, ieq n I (irun I (cgates c) x) (irun I (cgates c0) x).
  Proof.
    induction ps as [|p ps IH]; intros c0 c lay lay0 Hp H Sem x; cbn [run_passes] in H.
    - inversion H; subst. apply i_refl.
    - cbn in Hp. apply andb_prop in Hp. destruct Hp as [Hp1 Hp2].
      assert (Sem' : forall pieces0, In (PUnroll pieces0) ps -> unroll_sem n I pieces0).
      { intros q Hq. apply Sem. right. exact Hq. }
      destruct p as [rest | w | c' l | pieces]; cbn in Hp1; try discriminate.
      + destruct (apply_pass d native (c0, lay0) (PPre rest)) as [[c1 l1]|] eqn:E; [|discriminate].
        assert (G : cgates c1 = cgates c0).
        { apply (prep_run d native [PPre rest] eq_refl c0 lay0 c1 l1). cbn [run_passes]. rewrite E. reflexivity. }
        rewrite <- G. eapply IH; eauto.
      + destruct (apply_pass d native (c0, lay0) (PPlace w)) as [[c1 l1]|] eqn:E; [|discriminate].
        assert (G : cgates c1 = cgates c0).
        { apply (prep_run d native [PPlace w] eq_refl c0 lay0 c1 l1). cbn [run_passes]. rewrite E. reflexivity. }
        rewrite <- G. eapply IH; eauto.
      + cbn [apply_pass] in H. destruct (unroller_contract native c0 pieces) eqn:U; [|discriminate].
        eapply i_trans; [eapply IH; eauto|]. cbn [unrolled cgates].
        unfold unroller_contract in U. apply andb_prop in U. destruct U as [U1 _].
        apply gates_eqb_eq in U1. rewrite U1.
        apply unroll_sem_flat. apply Sem. left. reflexivity.
  Qed.
End SemLayout.
