(* C11/PropsLayout.v : the final layout returned by Passes.__call__ for EVERY pipeline shape
   (statements; proofs in ProofsLayout.v / ProofsPipeline.v). *)
From Coq Require Import List Arith Bool Lia.
From QV Require Import C09.Trace C09.ModelRouter C09.ModelBlocks C09.ModelDag C09.ProofsRouter C09.ProofsDag
                       C09.ProofsSem C11.ModelPipeline C11.ProofsPipeline C11.ProofsLayout.
Import ListNotations.

(* any sequence of Preprocessing / placer / Unroller passes (in any order, any number, also the
   empty pipeline): no SWAP can have been inserted, the reported final layout is None *)
Theorem no_router_final_layout_none : forall d native ps c0 c lay,
  forallb (fun p => negb (is_route p)) ps = true ->
  run_passes d native (c0, None) ps = Some (c, lay) -> lay = None.
Proof. exact no_router_layout. Qed.
Print Assumptions no_router_final_layout_none.

(* ... and the output equals the input (read through the identity layout) up to the unroller's
   equivalence, for every interpretation of gates in which the unroller table is correct *)
Theorem no_router_pipeline_ok : forall n (I : interp n) d native ps c0 c lay,
  forallb (fun p => negb (is_route p)) ps = true ->
  run_passes d native (c0, None) ps = Some (c, lay) ->
  (forall pieces, In (PUnroll pieces) ps -> unroll_sem n I pieces) ->
  lay = None /\ forall x, ieq n I (irun I (cgates c) x) (irun I (cgates c0) x).
Proof.
  intros n I d native ps c0 c lay Hp H Sem. split.
  - eapply no_router_layout; eauto.
  - eapply no_router_sem; eauto.
Qed.
Print Assumptions no_router_pipeline_ok.

(* without a placer the circuit's own wires keep their positions through the whole pipeline *)
Theorem no_placer_keeps_own_wires : forall d native ps c0 c lay,
  forallb (fun p => negb (is_route p) && negb (is_place p)) ps = true ->
  run_passes d native (c0, None) ps = Some (c, lay) ->
  firstn (cn c0) (cwires c) = cwires c0.
Proof. intros. eapply no_placer_wires; eauto. Qed.
Print Assumptions no_placer_keeps_own_wires.

(* non-vacuity: a padding + unrolling pipeline on permuted, out-of-order wire names runs and
   returns None; a router pipeline on the same circuit returns its layout *)
Example no_router_example :
  let d := mkD [0;1;2;3;4] [(0,2);(1,2);(3,2);(4,2)] in
  let c0 := mkC [2;0;4] [mkG KU 1 [0;1]; mkG KU 2 [2]] in
  run_passes d (fun _ => true) (c0, None)
    [PPre [1;3]; PUnroll [(mkG KU 1 [0;1], [mkG KU 3 [0]; mkG KU 4 [0;1]]); (mkG KU 2 [2], [mkG KU 2 [2]])]]
  = Some (mkC [2;0;4;1;3] [mkG KU 3 [0]; mkG KU 4 [0;1]; mkG KU 2 [2]], None).
Proof. vm_compute. reflexivity. Qed.
