(* C06/Derived.v : the parameter bookkeeping (parametrized_gates / trainable_gates) of DERIVED circuits:
   Circuit.invert / copy / __add__ / on_qubits re-add gates one by one (Circuit.add appends a
   ParametrizedGate to parametrized_gates, and to trainable_gates iff gate.trainable; a FusedGate is not a
   ParametrizedGate, so its members are not exposed), Circuit.fuse keeps the lists of its source
   (_shallow_copy) and only replaces the queue.  Executable model [deval] + proofs; harness/c06.py evaluates
   [deval] in Coq on the expression it executes with the real code and compares queue shape and exposed
   lists exactly, then runs the set/get model of C06/Params.v on the derived circuit. *)
From Coq Require Import List Arith Bool Lia.
From QV Require Import C06.Params.
Import ListNotations.

(* (number of parameters, trainable flag); npar = 0: not a ParametrizedGate *)
Definition shape := (nat * bool)%type.
(* queue item: a gate, or a FusedGate (members' parameter counts; their flags are not observable) *)
Inductive qitem := QG (s : shape) | QB (ms : list nat).
Record cstate := mkcs { queue : list qitem; pgs : list shape }.

Definition is_par (s : shape) : bool := negb (fst s =? 0).
Definition direct_item (it : qitem) : list shape :=
  match it with QG s => if is_par s then [s] else [] | QB _ => [] end.
Definition direct (q : list qitem) : list shape := flat_map direct_item q.
Definition readd (q : list qitem) : cstate := mkcs q (direct q).
Definition qblock (it : qitem) : bool := match it with QG _ => false | QB _ => true end.
Definition qhas_block (q : list qitem) : bool := existsb qblock q.

(* Circuit.invert: dagger of every gate in reverse order, flag restored from the source gate *)
Definition inv_qitem (it : qitem) : qitem := match it with QG s => QG s | QB ms => QB (rev ms) end.
Definition d_invert (s : cstate) : cstate := readd (rev (map inv_qitem (queue s))).
Definition d_cat (a b : cstate) : cstate := readd (queue a ++ queue b).
Definition d_fuse (bs : list qitem) (s : cstate) : cstate := mkcs bs (pgs s).

Inductive dexpr :=
| DSrc (q : list shape)
| DInv (e : dexpr)
| DCat (e1 e2 : dexpr)
| DCpy (deep : bool) (e : dexpr)
| DOnQ (e : dexpr)
| DFuse (bs : list qitem) (e : dexpr).

(* None: refused by the real code (deep copy / on_qubits of a fused queue) or outside the model (fusing twice) *)
Fixpoint deval (e : dexpr) : option cstate :=
  match e with
  | DSrc q => Some (readd (map QG q))
  | DInv e => option_map d_invert (deval e)
  | DCat e1 e2 => match deval e1, deval e2 with Some a, Some b => Some (d_cat a b) | _, _ => None end
  | DCpy deep e => match deval e with
                   | Some s => if deep && qhas_block (queue s) then None else Some (readd (queue s))
                   | None => None end
  | DOnQ e => match deval e with
              | Some s => if qhas_block (queue s) then None else Some (readd (queue s))
              | None => None end
  | DFuse bs e => match deval e with
                  | Some s => if qhas_block (queue s) then None else Some (d_fuse bs s)
                  | None => None end
  end.

(* ---------------------------------------------------------------- proofs *)
Lemma direct_app q1 q2 : direct (q1 ++ q2) = direct q1 ++ direct q2.
Proof. unfold direct. apply flat_map_app. Qed.

Lemma direct_item_inv it : direct_item (inv_qitem it) = direct_item it.
Proof. destruct it; reflexivity. Qed.

Lemma direct_item_short it : direct_item it = [] \/ exists s, direct_item it = [s].
Proof. destruct it as [s|ms]; simpl; [destruct (is_par s); eauto | auto]. Qed.

Lemma direct_rev q : direct (rev q) = rev (direct q).
Proof.
  induction q as [|it q IH]; [reflexivity|]. simpl. rewrite direct_app, IH. unfold direct at 2; simpl.
  rewrite app_nil_r, rev_app_distr.
  destruct (direct_item_short it) as [E|[s E]]; rewrite E; reflexivity.
Qed.

Lemma direct_map_inv q : direct (map inv_qitem q) = direct q.
Proof. induction q as [|it q IH]; [reflexivity|]. unfold direct in *; simpl. now rewrite IH, direct_item_inv. Qed.

(* the exposed list of the inverse is the reversed exposed list: same gates, same flags, queue order *)
Theorem invert_exposed s : pgs s = direct (queue s) -> pgs (d_invert s) = rev (pgs s).
Proof. intros H. unfold d_invert; simpl. now rewrite direct_rev, direct_map_inv, H. Qed.

Theorem invert_mask s : pgs s = direct (queue s) -> map snd (pgs (d_invert s)) = rev (map snd (pgs s)).
Proof. intros H. now rewrite invert_exposed, map_rev. Qed.

Theorem cat_exposed a b : pgs a = direct (queue a) -> pgs b = direct (queue b) -> pgs (d_cat a b) = pgs a ++ pgs b.
Proof. intros Ha Hb. unfold d_cat; simpl. now rewrite direct_app, Ha, Hb. Qed.

Theorem fuse_exposed bs s : pgs (d_fuse bs s) = pgs s.
Proof. reflexivity. Qed.

(* every circuit obtained without fusion exposes exactly the parametrised gates of its queue, in queue order *)
Fixpoint fusion_free (e : dexpr) : bool :=
  match e with
  | DSrc _ => true
  | DInv e | DCpy _ e | DOnQ e => fusion_free e
  | DCat e1 e2 => fusion_free e1 && fusion_free e2
  | DFuse _ _ => false
  end.

Theorem exposed_is_direct e : forall s, fusion_free e = true -> deval e = Some s -> pgs s = direct (queue s).
Proof.
  induction e as [q|e IH|e1 IH1 e2 IH2|deep e IH|e IH|bs e IH]; intros s Hf Hs; simpl in *; try discriminate.
  - inversion Hs; reflexivity.
  - destruct (deval e); [|discriminate]. inversion Hs; reflexivity.
  - destruct (deval e1); [|discriminate]. destruct (deval e2); [|discriminate]. inversion Hs; reflexivity.
  - destruct (deval e) as [s0|]; [|discriminate]. destruct (deep && qhas_block (queue s0)); [discriminate|].
    inversion Hs; reflexivity.
  - destruct (deval e) as [s0|]; [|discriminate]. destruct (qhas_block (queue s0)); [discriminate|].
    inversion Hs; reflexivity.
Qed.

(* double inversion restores queue shape and exposed list *)
Theorem invert_twice s : d_invert (d_invert s) = readd (queue s).
Proof.
  unfold d_invert; simpl. f_equal. rewrite map_rev, rev_involutive, map_map.
  rewrite <- (map_id (queue s)) at 2. apply map_ext. intros [x|ms]; simpl; [reflexivity|now rewrite rev_involutive].
Qed.

(* ---------------------------------------------------------------- link with the set/get model of Params.v *)
Section Link.
  Context {V : Type}.
  Notation pgate := (@pgate V).

  Lemma filter_rev {A} (f : A -> bool) (l : list A) : filter f (rev l) = rev (filter f l).
  Proof.
    induction l as [|x l IH]; [reflexivity|]. simpl. rewrite filter_app, IH. simpl.
    destruct (f x); simpl; [reflexivity | now rewrite app_nil_r].
  Qed.

  (* dgp = what dagger does to one parametrised gate: Circuit.invert keeps npar and restores the flag *)
  Variable dgp : pgate -> pgate.
  Hypothesis dgp_npar : forall g, npar (dgp g) = npar g.
  Hypothesis dgp_trainable : forall g, trainable (dgp g) = trainable g.
  Definition inv_pg (gs : list pgate) : list pgate := rev (map dgp gs).

  Theorem inverse_mask_is_reversed gs : map trainable (inv_pg gs) = rev (map trainable gs).
  Proof. unfold inv_pg. rewrite map_rev, map_map. f_equal. apply map_ext, dgp_trainable. Qed.

  Theorem inverse_npar_is_reversed gs : map npar (inv_pg gs) = rev (map npar gs).
  Proof. unfold inv_pg. rewrite map_rev, map_map. f_equal. apply map_ext, dgp_npar. Qed.

  Lemma filter_map_dgp gs : filter trainable (map dgp gs) = map dgp (filter trainable gs).
  Proof.
    induction gs as [|g gs IH]; [reflexivity|]. simpl. rewrite dgp_trainable.
    destruct (trainable g); simpl; now rewrite IH.
  Qed.

  (* reading the inverse returns the adjoint parameters of exactly the trainable gates, reversed *)
  Theorem inverse_get_list gs : get_list (inv_pg gs) = rev (map (fun g => vals (dgp g)) (filter trainable gs)).
  Proof. unfold get_list, inv_pg. now rewrite filter_rev, filter_map_dgp, map_rev, map_map. Qed.

  Lemma total_app (g1 g2 : list pgate) : total (g1 ++ g2) = total g1 + total g2.
  Proof. induction g1 as [|g g1 IH]; [reflexivity|]. simpl. rewrite IH. lia. Qed.

  Theorem inverse_counts gs : ntrain (inv_pg gs) = ntrain gs /\ total (inv_pg gs) = total gs.
  Proof.
    unfold ntrain, inv_pg. split.
    - now rewrite filter_rev, rev_length, filter_map_dgp, map_length.
    - induction gs as [|g gs IH]; [reflexivity|]. simpl. rewrite total_app, IH. simpl.
      rewrite dgp_trainable, dgp_npar. lia.
  Qed.

  (* concatenation: the flat list is consumed by the first circuit's trainable gates, then by the second's *)
  Theorem set_flat_app (g1 g2 : list pgate) : forall ps,
    set_flat_spec (g1 ++ g2) ps = set_flat_spec g1 ps ++ set_flat_spec g2 (skipn (total g1) ps).
  Proof.
    induction g1 as [|g g1 IH]; intros ps; [reflexivity|]. simpl.
    destruct (trainable g); simpl; rewrite IH; [|reflexivity].
    do 3 f_equal. rewrite skipn_skipn. f_equal. lia.
  Qed.

  Theorem get_flat_app (g1 g2 : list pgate) : get_flat (g1 ++ g2) = get_flat g1 ++ get_flat g2.
  Proof. unfold get_flat. now rewrite filter_app, flat_map_app. Qed.

  Theorem get_list_app (g1 g2 : list pgate) : get_list (g1 ++ g2) = get_list g1 ++ get_list g2.
  Proof. unfold get_list. now rewrite filter_app, map_app. Qed.
End Link.

(* non-vacuity *)
Example derived_example :
  let q := [(1, false); (0, true); (2, true); (3, false); (1, true)] in
  exists s, deval (DCat (DInv (DSrc q)) (DCpy true (DSrc q))) = Some s
            /\ map snd (pgs s) = [true; false; true; false] ++ [false; true; false; true].
Proof. eexists; split; reflexivity. Qed.
