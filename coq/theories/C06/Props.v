(* C06/Props.v : the property theorems of C06 that do not depend on regenerated tables.
   (The parameter-shift obligations and the "views after update" obligations are generated
   from /repo on every run: see harness/c06.py and harness/c05.py.) *)
From Coq Require Import List Arith Bool ZArith.
From QV Require Import C06.Params.
Import ListNotations.

Theorem flat_list_offsets :
  forall (V : Type) (gs : list (@pgate V)) (ps : list V),
    Forall (fun g => 1 <= npar g) gs ->
    set_flat_lit gs ps 0 0 = set_flat_spec gs ps.
Proof. exact (@set_flat_offsets). Qed.
Print Assumptions flat_list_offsets.

Theorem set_then_get_flat :
  forall (V : Type) (gs : list (@pgate V)) (ps : list V),
    Forall (fun g => 1 <= npar g) gs -> length ps = total gs ->
    get_flat (set_flat_lit gs ps 0 0) = ps.
Proof. exact (@set_get_roundtrip_flat). Qed.
Print Assumptions set_then_get_flat.

Theorem set_then_get_list :
  forall (V : Type) (gs : list (@pgate V)) (ps : list (list V)),
    length ps = ntrain gs -> get_list (set_list gs ps) = ps.
Proof. exact (@set_get_roundtrip_list). Qed.
Print Assumptions set_then_get_list.

Theorem only_trainable_change_flat :
  forall (V : Type) (gs : list (@pgate V)) (ps : list V),
    map npar (set_flat_spec gs ps) = map npar gs /\
    map trainable (set_flat_spec gs ps) = map trainable gs /\
    filter (fun g => negb (trainable g)) (set_flat_spec gs ps)
      = filter (fun g => negb (trainable g)) gs.
Proof. exact (@set_flat_structure). Qed.
Print Assumptions only_trainable_change_flat.

Theorem only_trainable_change_list :
  forall (V : Type) (gs : list (@pgate V)) (ps : list (list V)),
    map trainable (set_list gs ps) = map trainable gs /\
    filter (fun g => negb (trainable g)) (set_list gs ps)
      = filter (fun g => negb (trainable g)) gs.
Proof. exact (@set_list_structure). Qed.
Print Assumptions only_trainable_change_list.

Theorem flat_and_list_readings_agree :
  forall (V : Type) (gs : list (@pgate V)) (ps : list V),
    Forall (fun g => npar g = 1) gs ->
    set_flat_spec gs ps = set_list gs (map (fun v => [v]) ps) \/ length ps < ntrain gs.
Proof. exact (@flat_vs_list_disambiguation). Qed.
Print Assumptions flat_and_list_readings_agree.
