(* C06/Layout.v : model of a stored 2-D array (the matrix-valued parameter of gates.Unitary) as numpy keeps it:
   a memory buffer, a shape and an order (C = row-major, F = column-major: Fortran arrays, transposed views,
   the conj(U.T) of Unitary._dagger).  The ABSTRACT value is the function (i, j) -> entry; every observation of the
   property (get_parameters in the flat format = ndarray.flatten()) must be a function of the abstract value only.
   Definitions only; theorems in C06/PropsLayout.v. *)
From Coq Require Import List ZArith Bool Arith.
Import ListNotations.

Inductive order := C | F.
Record arr := mkarr { buf : list Z; nrows : nat; ncols : nat; ord : order }.

Definition entry (a : arr) (i j : nat) : Z :=
  match ord a with
  | C => nth (i * ncols a + j) (buf a) 0%Z
  | F => nth (j * nrows a + i) (buf a) 0%Z
  end.

(* ndarray.flatten(): row-major listing of the entries, whatever the memory order *)
Definition flat_read (a : arr) : list Z :=
  flat_map (fun i => map (fun j => entry a i j) (seq 0 (ncols a))) (seq 0 (nrows a)).

(* ndarray.ravel(order="K"): the entries in MEMORY order (seeded change r5/C06-m10), kept to refute it *)
Definition ravel_K (a : arr) : list Z := buf a.

(* the transposed view shares the buffer and swaps the order *)
Definition transpose_view (a : arr) : arr :=
  mkarr (buf a) (ncols a) (nrows a) (match ord a with C => F | F => C end).

(* same abstract value *)
Definition same_value (a b : arr) : Prop :=
  nrows a = nrows b /\ ncols a = ncols b /\
  forall i j, i < nrows a -> j < ncols a -> entry a i j = entry b i j.
