(* C06/PropsLayout.v : the flat read-back of a matrix-valued parameter is a function of its abstract value
   (representation invariance, family F): Fortran-ordered / transposed-view / C-ordered storage of the same
   matrix read back identically; reading in memory order does not. *)
From Coq Require Import List ZArith Bool Arith Lia.
From QV Require Import C06.Layout.
Import ListNotations.

Lemma flat_read_ext : forall a b, same_value a b -> flat_read a = flat_read b.
Proof.
  intros a b (Hr & Hc & He). unfold flat_read. rewrite <- Hr, <- Hc.
  assert (H : forall l, (forall i, In i l -> i < nrows a) ->
            flat_map (fun i => map (fun j => entry a i j) (seq 0 (ncols a))) l =
            flat_map (fun i => map (fun j => entry b i j) (seq 0 (ncols a))) l).
  { induction l as [|i l IH]; intros Hl; [reflexivity|]. cbn [flat_map]. f_equal.
    - apply map_ext_in. intros j Hj. apply in_seq in Hj. apply He; [apply Hl; now left | lia].
    - apply IH. intros k Hk. apply Hl. now right. }
  apply H. intros i Hi. apply in_seq in Hi. lia.
Qed.

Theorem flat_readback_depends_on_the_value_only : forall a b, same_value a b -> flat_read a = flat_read b.
Proof. exact flat_read_ext. Qed.
Print Assumptions flat_readback_depends_on_the_value_only.

Theorem transposed_view_has_transposed_entries : forall a i j, entry (transpose_view a) i j = entry a j i.
Proof. intros a i j. unfold entry, transpose_view; cbn. destruct (ord a); reflexivity. Qed.
Print Assumptions transposed_view_has_transposed_entries.

(* the double transposed view (what U -> U.T -> .T stores) has the value of the original *)
Theorem double_transposed_view_same_value : forall a, same_value (transpose_view (transpose_view a)) a.
Proof.
  intros a. repeat split. intros i j _ _. now rewrite !transposed_view_has_transposed_entries.
Qed.
Print Assumptions double_transposed_view_same_value.

Theorem memory_order_readback_refuted : exists a b, same_value a b /\ ravel_K a <> ravel_K b.
Proof.
  exists (mkarr [1; 2; 3; 4]%Z 2 2 C), (mkarr [1; 3; 2; 4]%Z 2 2 F). split.
  - repeat split. intros i j Hi Hj. cbn in Hi, Hj.
    destruct i as [|[|i]]; destruct j as [|[|j]]; try lia; reflexivity.
  - cbn. discriminate.
Qed.
Print Assumptions memory_order_readback_refuted.

(* non-vacuity: a Fortran-ordered and a C-ordered storage of the same non-symmetric matrix *)
Example layouts_example :
  same_value (mkarr [1; 2; 3; 4]%Z 2 2 C) (mkarr [1; 3; 2; 4]%Z 2 2 F) /\
  flat_read (mkarr [1; 3; 2; 4]%Z 2 2 F) = [1; 2; 3; 4]%Z /\ ravel_K (mkarr [1; 3; 2; 4]%Z 2 2 F) = [1; 3; 2; 4]%Z.
Proof.
  split; [|split; reflexivity]. repeat split. intros i j Hi Hj. cbn in Hi, Hj.
  destruct i as [|[|i]]; destruct j as [|[|j]]; try lia; reflexivity.
Qed.
