(* C06/Params.v : executable model of the parameter bookkeeping of
   qibo.models.circuit.Circuit (set_parameters / _set_parameters_list / get_parameters /
   _get_parameters_flatlist, _ParametrizedGates) and its proofs.

   A parametrised gate is abstracted to (number of parameters, trainable flag, current
   values); the circuit to the list of its parametrised gates in queue order
   (Circuit.add appends to parametrized_gates, and to trainable_gates iff trainable). *)
From Coq Require Import List Arith Bool Lia.
Import ListNotations.

Section Params.
  Context {V : Type}.

  Record pgate := mkpg { npar : nat; trainable : bool; vals : list V }.

  Definition wf (g : pgate) : Prop := length (vals g) = npar g /\ 1 <= npar g.
  Definition total (gs : list pgate) : nat :=
    fold_right (fun g acc => (if trainable g then npar g else 0) + acc) 0 gs.
  Definition ntrain (gs : list pgate) : nat := length (filter trainable gs).

  (* ---- the code, literally ------------------------------------------------ *)
  (* _set_parameters_list, flat branch:
       k = 0
       for i, gate in enumerate(trainable_gates):
           gate.parameters = parameters[i + k : i + k + gate.nparams]   (scalar if nparams == 1)
           k += gate.nparams - 1                                                      *)
  Fixpoint set_flat_lit (gs : list pgate) (ps : list V) (i k : nat) : list pgate :=
    match gs with
    | [] => []
    | g :: gs' =>
        if trainable g
        then mkpg (npar g) true (firstn (npar g) (skipn (i + k) ps))
               :: set_flat_lit gs' ps (S i) (k + (npar g - 1))
        else g :: set_flat_lit gs' ps i k
    end.

  (* set_parameters with a list holding one entry per trainable gate *)
  Fixpoint set_list (gs : list pgate) (ps : list (list V)) : list pgate :=
    match gs with
    | [] => []
    | g :: gs' =>
        if trainable g
        then match ps with
             | p :: ps' => mkpg (npar g) true p :: set_list gs' ps'
             | [] => g :: set_list gs' []
             end
        else g :: set_list gs' ps
    end.

  (* get_parameters("list") and ("flatlist") over trainable gates *)
  Definition get_list (gs : list pgate) : list (list V) := map vals (filter trainable gs).
  Definition get_flat (gs : list pgate) : list V := flat_map vals (filter trainable gs).

  (* ---- the specification -------------------------------------------------- *)
  (* the flat list is cut into consecutive chunks, one per trainable gate, in queue order *)
  Fixpoint set_flat_spec (gs : list pgate) (ps : list V) : list pgate :=
    match gs with
    | [] => []
    | g :: gs' =>
        if trainable g
        then mkpg (npar g) true (firstn (npar g) ps) :: set_flat_spec gs' (skipn (npar g) ps)
        else g :: set_flat_spec gs' ps
    end.

  Lemma skipn_skipn (a b : nat) (l : list V) : skipn a (skipn b l) = skipn (a + b) l.
  Proof.
    revert l; induction b as [|b IH]; intros l.
    - now rewrite Nat.add_0_r.
    - destruct l as [|x l]; [now rewrite !skipn_nil|].
      rewrite Nat.add_succ_r. simpl. apply IH.
  Qed.

  Lemma set_flat_lit_spec gs : forall ps i k,
    Forall (fun g => 1 <= npar g) gs ->
    set_flat_lit gs ps i k = set_flat_spec gs (skipn (i + k) ps).
  Proof.
    induction gs as [|g gs IH]; intros ps i k Hwf; [reflexivity|].
    inversion Hwf as [|g' gs' Hg Hgs]; subst. simpl.
    destruct (trainable g).
    - f_equal. rewrite IH by exact Hgs. f_equal.
      rewrite skipn_skipn. f_equal. lia.
    - f_equal. apply IH. exact Hgs.
  Qed.

  Theorem set_flat_offsets gs ps :
    Forall (fun g => 1 <= npar g) gs ->
    set_flat_lit gs ps 0 0 = set_flat_spec gs ps.
  Proof. intros H. now rewrite set_flat_lit_spec. Qed.

  Lemma get_flat_set_flat_spec gs : forall ps,
    length ps = total gs -> get_flat (set_flat_spec gs ps) = ps.
  Proof.
    unfold get_flat. induction gs as [|g gs IH]; intros ps Hl; simpl in *.
    - destruct ps; [reflexivity | discriminate].
    - destruct (trainable g) eqn:T; simpl.
      + rewrite IH.
        * apply firstn_skipn.
        * rewrite skipn_length. lia.
      + rewrite T. apply IH. exact Hl.
  Qed.

  Theorem set_get_roundtrip_flat gs ps :
    Forall (fun g => 1 <= npar g) gs -> length ps = total gs ->
    get_flat (set_flat_lit gs ps 0 0) = ps.
  Proof. intros H Hl. rewrite set_flat_offsets by exact H. now apply get_flat_set_flat_spec. Qed.

  Theorem set_get_roundtrip_list gs : forall ps,
    length ps = ntrain gs -> get_list (set_list gs ps) = ps.
  Proof.
    unfold get_list, ntrain. induction gs as [|g gs IH]; intros ps Hl; simpl in *.
    - destruct ps; [reflexivity | discriminate].
    - destruct (trainable g) eqn:T; simpl in *.
      + destruct ps as [|p ps]; [discriminate|]. simpl. f_equal. apply IH. now inversion Hl.
      + rewrite T. apply IH. exact Hl.
  Qed.

  (* only trainable gates change, in queue order, structure preserved *)
  Theorem set_flat_structure gs : forall ps,
    map npar (set_flat_spec gs ps) = map npar gs /\
    map trainable (set_flat_spec gs ps) = map trainable gs /\
    filter (fun g => negb (trainable g)) (set_flat_spec gs ps)
      = filter (fun g => negb (trainable g)) gs.
  Proof.
    induction gs as [|g gs IH]; intros ps; [repeat split|].
    simpl. destruct (trainable g) eqn:T; simpl; rewrite ?T; simpl.
    - destruct (IH (skipn (npar g) ps)) as (A & B & C). repeat split; congruence.
    - destruct (IH ps) as (A & B & C). repeat split; congruence.
  Qed.

  Theorem set_list_structure gs : forall ps,
    map trainable (set_list gs ps) = map trainable gs /\
    filter (fun g => negb (trainable g)) (set_list gs ps)
      = filter (fun g => negb (trainable g)) gs.
  Proof.
    induction gs as [|g gs IH]; intros ps; [repeat split|].
    simpl. destruct (trainable g) eqn:T.
    - destruct ps as [|p ps]; simpl; rewrite ?T; simpl;
        [destruct (IH []) as (A & B) | destruct (IH ps) as (A & B)]; split; congruence.
    - simpl. rewrite T. simpl. destruct (IH ps) as (A & B). split; congruence.
  Qed.

  (* flat and per-gate readings agree when both apply (every trainable gate has one parameter) *)
  Theorem flat_vs_list_disambiguation gs ps :
    Forall (fun g => npar g = 1) gs ->
    set_flat_spec gs ps = set_list gs (map (fun v => [v]) ps) \/ length ps < ntrain gs.
  Proof.
    revert ps. unfold ntrain. induction gs as [|g gs IH]; intros ps H; [left; reflexivity|].
    inversion H as [|g' gs' Hg Hgs]; subst. simpl.
    destruct (trainable g) eqn:T; simpl.
    - destruct ps as [|v ps]; [right; simpl; lia|].
      destruct (IH ps Hgs) as [E|E].
      + left. simpl. rewrite Hg. simpl. f_equal. exact E.
      + right. simpl. lia.
    - destruct (IH ps Hgs) as [E|E]; [left; f_equal; exact E | right; exact E].
  Qed.
End Params.

(* non-vacuity: a mixed circuit meeting the hypotheses *)
Example params_example :
  let gs := [mkpg 1 true [0]; mkpg 3 false [7;8;9]; mkpg 2 true [0;0]; mkpg 4 true [0;0;0;0]] in
  Forall (fun g => 1 <= npar g) gs /\ total gs = 7 /\
  get_flat (set_flat_lit gs [1;2;3;4;5;6;7] 0 0) = [1;2;3;4;5;6;7] /\
  map vals (set_flat_lit gs [1;2;3;4;5;6;7] 0 0) = [[1]; [7;8;9]; [2;3]; [4;5;6;7]].
Proof. cbv. repeat split; repeat constructor. Qed.
