(* C06/ShiftRule.v : the parameter-shift rule as ONE general theorem.

   derivative.py, parameter_shift(circuit, hamiltonian, parameter_index, initial_state, scale_factor):
       r = gate.generator_eigenvalue()            (RX, RY, RZ: 0.5; every other class raises)
       s = pi / (4 r)
       forward  = <H> with the parameter th + s,   backward = <H> with th - s
       result   = r * (forward - backward) * scale_factor
   where <H> = hamiltonian.expectation(state) = Re <state| H |state>.

   Statement proved here (parameter_shift_rule): for EVERY dimension, state psi, matrix H (not
   necessarily Hermitian), lists of fixed matrices applied before and after the shifted gate
   (not necessarily unitary), every pair of matrices Id, G and every r <> 0, with
       U(th) = cos(r th) Id - i sin(r th) G
       f(th) = <phi(th)| H |phi(th)>,   phi(th) = after ... U(th) ... before psi,
   both Re f and Im f are derivable everywhere, and the derivative of  x |-> f(scale * x)  at x is
       r * (f(scale x + pi/(4r)) - f(scale x - pi/(4r))) * scale
   i.e. exactly the value derivative.py returns when the circuit holds th = scale * x.
   G G = Id is NOT needed for this identity (it is what makes U a one-parameter unitary group,
   rot_compose below); the identity only uses that U is a real-linear combination
   cos(r th) P + sin(r th) Q of two fixed matrices and that f is real-bilinear in U.

   Vectors and matrices are the list matrices of Base/Mat.v over Coquelicot's C, matrix-vector product
   and dot product are C01/Spec.mvmul / dot (the ones C01's execution theorems are stated with),
   [] is the zero vector of any length as in Base/Mat.vadd.  No shape hypothesis is needed anywhere. *)
From Coq Require Import Reals List Lra Bool QArith Qreals Arith.
From Coquelicot Require Import Coquelicot.
From QV Require Import Base.Cis Base.TrigNF Base.Mat Base.TrigMat C01.Model C01.Spec C15.MatDefs C15.MatAlg.
Import ListNotations.
Local Open Scope R_scope.

(* ------------------------------------------------------------------ 1. the trigonometric core *)
Lemma inv_sqrt2_sq : (1 / sqrt 2) * (1 / sqrt 2) = 1 / 2.
Proof.
  assert (Hs : sqrt 2 * sqrt 2 = 2) by (apply sqrt_sqrt; lra).
  assert (Hn : sqrt 2 <> 0) by (apply Rgt_not_eq, Rlt_gt, Rlt_sqrt2_0).
  replace (1 / sqrt 2 * (1 / sqrt 2)) with (1 / (sqrt 2 * sqrt 2)) by (field; exact Hn).
  now rewrite Hs.
Qed.

Lemma shift_cc p : cos (p + PI / 4) * cos (p + PI / 4) - cos (p - PI / 4) * cos (p - PI / 4) = - 2 * (cos p * sin p).
Proof.
  rewrite cos_plus, cos_minus, cos_PI4, sin_PI4. generalize inv_sqrt2_sq. generalize (1 / sqrt 2). intros k Hk.
  replace ((cos p * k - sin p * k) * (cos p * k - sin p * k) - (cos p * k + sin p * k) * (cos p * k + sin p * k))
    with (- 4 * (cos p * sin p) * (k * k)) by ring.
  rewrite Hk. field.
Qed.

Lemma shift_ss p : sin (p + PI / 4) * sin (p + PI / 4) - sin (p - PI / 4) * sin (p - PI / 4) = 2 * (cos p * sin p).
Proof.
  rewrite sin_plus, sin_minus, cos_PI4, sin_PI4. generalize inv_sqrt2_sq. generalize (1 / sqrt 2). intros k Hk.
  replace ((sin p * k + cos p * k) * (sin p * k + cos p * k) - (sin p * k - cos p * k) * (sin p * k - cos p * k))
    with (4 * (cos p * sin p) * (k * k)) by ring.
  rewrite Hk. field.
Qed.

Lemma shift_cs p : cos (p + PI / 4) * sin (p + PI / 4) - cos (p - PI / 4) * sin (p - PI / 4)
                   = cos p * cos p - sin p * sin p.
Proof.
  rewrite cos_plus, cos_minus, sin_plus, sin_minus, cos_PI4, sin_PI4.
  generalize inv_sqrt2_sq. generalize (1 / sqrt 2). intros k Hk.
  replace ((cos p * k - sin p * k) * (sin p * k + cos p * k) - (cos p * k + sin p * k) * (sin p * k - cos p * k))
    with (2 * (cos p * cos p - sin p * sin p) * (k * k)) by ring.
  rewrite Hk. field.
Qed.

(* derivative.py's return value for an expectation function f, generator eigenvalue r,
   scale_factor scale, when the circuit holds the parameter value th *)
Definition psr_value (f : R -> R) (r scale th : R) : R :=
  r * (f (th + PI / (4 * r)) - f (th - PI / (4 * r))) * scale.

Definition quad (al be ga r th : R) : R :=
  al * (cos (r * th) * cos (r * th)) + be * (cos (r * th) * sin (r * th)) + ga * (sin (r * th) * sin (r * th)).

Lemma quad_shift al be ga r scale x : r <> 0 ->
  is_derive (fun y => quad al be ga r (scale * y)) x (psr_value (quad al be ga r) r scale (scale * x)).
Proof.
  intros Hr. unfold psr_value, quad.
  replace (r * (scale * x + PI / (4 * r))) with (r * (scale * x) + PI / 4) by (field; exact Hr).
  replace (r * (scale * x - PI / (4 * r))) with (r * (scale * x) - PI / 4) by (field; exact Hr).
  set (p := r * (scale * x)).
  match goal with |- is_derive _ _ (r * (?a1 + ?b1 + ?c1 - (?a2 + ?b2 + ?c2)) * scale) =>
    replace (r * (a1 + b1 + c1 - (a2 + b2 + c2)) * scale)
      with (r * (al * (cos (p + PI / 4) * cos (p + PI / 4) - cos (p - PI / 4) * cos (p - PI / 4))
                 + be * (cos (p + PI / 4) * sin (p + PI / 4) - cos (p - PI / 4) * sin (p - PI / 4))
                 + ga * (sin (p + PI / 4) * sin (p + PI / 4) - sin (p - PI / 4) * sin (p - PI / 4))) * scale) by ring
  end.
  rewrite shift_cc, shift_cs, shift_ss. unfold p.
  auto_derive; [trivial | ring].
Qed.

(* ------------------------------------------------------------------ 2. any real-bilinear form *)
(* V: any "space" with a two-term real linear combination  lin c x s y = c x + s y;  F: any form that is
   real-linear in each argument w.r.t. lin.  (Instances: vectors of any length with F = Re or Im of
   <u|H|v>; matrices of any size with F = Re tr(X^dag H Y); ...) *)
Section Bilinear.
  Variable V : Type.
  Variable lin : R -> V -> R -> V -> V.
  Variable F : V -> V -> R.
  Hypothesis F_l : forall c x s y z, F (lin c x s y) z = c * F x z + s * F y z.
  Hypothesis F_r : forall c x s y z, F z (lin c x s y) = c * F z x + s * F z y.
  Variables (p q : V) (r : R).

  Definition bstate (th : R) : V := lin (cos (r * th)) p (sin (r * th)) q.
  Definition bf (th : R) : R := F (bstate th) (bstate th).

  Lemma bf_quad th : bf th = quad (F p p) (F p q + F q p) (F q q) r th.
  Proof. unfold bf, bstate, quad. rewrite F_l, !F_r. ring. Qed.

  Theorem bilinear_shift_rule scale x : r <> 0 ->
    is_derive (fun y => bf (scale * y)) x (psr_value bf r scale (scale * x)).
  Proof.
    intros Hr. unfold psr_value. rewrite !bf_quad.
    apply (is_derive_ext (fun y => quad (F p p) (F p q + F q p) (F q q) r (scale * y))).
    - intros y. now rewrite bf_quad.
    - now apply quad_shift.
  Qed.
End Bilinear.

(* ------------------------------------------------------------------ 3. complex vectors and matrices *)
Local Open Scope C_scope.
Definition Cvec := vec C.

Ltac lca := first [ ring | apply injective_projections; simpl; ring ].

Notation cdot := (dot Cops).
Notation cmv := (mvmul Cops).
Notation cvadd := (vadd Cops).
Notation cvscale := (vscale Cops).

Lemma cdot_nil_r u : cdot u [] = 0.
Proof. unfold dot. now rewrite combine_nil. Qed.

Lemma cdot_cons x u y v : cdot (x :: u) (y :: v) = x * y + cdot u v.
Proof. reflexivity. Qed.

Lemma cdot_vadd_l u : forall v w, cdot (cvadd u v) w = cdot u w + cdot v w.
Proof.
  induction u as [|x u IH]; intros [|y v] [|z w]; rewrite ?cdot_nil_r; try solve [cbn; lca].
  change (cvadd (x :: u) (y :: v)) with (Cplus x y :: cvadd u v). rewrite !cdot_cons, IH. lca.
Qed.

Lemma cdot_vadd_r w : forall u v, cdot w (cvadd u v) = cdot w u + cdot w v.
Proof.
  induction w as [|z w IH]; intros [|x u] [|y v]; try solve [cbn; lca].
  change (cvadd (x :: u) (y :: v)) with (Cplus x y :: cvadd u v). rewrite !cdot_cons, IH. lca.
Qed.

Lemma cdot_vscale_l c u : forall w, cdot (cvscale c u) w = c * cdot u w.
Proof.
  induction u as [|x u IH]; intros [|z w]; try solve [cbn; lca].
  change (cvscale c (x :: u)) with (Cmult c x :: cvscale c u). rewrite !cdot_cons, IH. lca.
Qed.

Lemma cdot_vscale_r c w : forall u, cdot w (cvscale c u) = c * cdot w u.
Proof.
  induction w as [|z w IH]; intros [|x u]; try solve [cbn; lca].
  change (cvscale c (x :: u)) with (Cmult c x :: cvscale c u). rewrite !cdot_cons, IH. lca.
Qed.

Lemma conj_vadd u : forall v, map Cconj (cvadd u v) = cvadd (map Cconj u) (map Cconj v).
Proof.
  induction u as [|x u IH]; intros [|y v]; try reflexivity.
  cbn [vadd map]. rewrite IH. f_equal. cbn. lca.
Qed.

Lemma conj_vscale c u : map Cconj (cvscale c u) = cvscale (Cconj c) (map Cconj u).
Proof. unfold vscale. rewrite !map_map. apply map_ext. intros a. cbn. lca. Qed.

Lemma cmv_cons a A v : cmv (a :: A) v = cdot a v :: cmv A v.
Proof. reflexivity. Qed.

Lemma cmv_vadd A u v : cmv A (cvadd u v) = cvadd (cmv A u) (cmv A v).
Proof.
  induction A as [|a A IH]; [reflexivity|]. rewrite !cmv_cons, cdot_vadd_r, IH. reflexivity.
Qed.

Lemma cmv_vscale A c u : cmv A (cvscale c u) = cvscale c (cmv A u).
Proof. unfold mvmul, vscale at 2. rewrite map_map. apply map_ext. intros a. apply cdot_vscale_r. Qed.

Lemma cmv_madd A : forall B v, cmv (madd Cops A B) v = cvadd (cmv A v) (cmv B v).
Proof.
  induction A as [|a A IH]; intros [|b B] v; try reflexivity.
  change (madd Cops (a :: A) (b :: B)) with (cvadd a b :: madd Cops A B).
  rewrite !cmv_cons, cdot_vadd_l, IH. reflexivity.
Qed.

Lemma cmv_mscale c A v : cmv (mscale Cops c A) v = cvscale c (cmv A v).
Proof. unfold mvmul, mscale, vscale at 2. rewrite !map_map. apply map_ext. intros a. apply cdot_vscale_l. Qed.

(* real linear combinations of vectors / matrices *)
Definition vlin (c : R) (x : Cvec) (s : R) (y : Cvec) : Cvec := cvadd (cvscale (RtoC c) x) (cvscale (RtoC s) y).
Definition mlin (c : R) (P : Cmat) (s : R) (Q : Cmat) : Cmat := madd Cops (mscale Cops (RtoC c) P) (mscale Cops (RtoC s) Q).

Lemma cmv_vlin A c x s y : cmv A (vlin c x s y) = vlin c (cmv A x) s (cmv A y).
Proof. unfold vlin. now rewrite cmv_vadd, !cmv_vscale. Qed.

Lemma cmv_mlin c P s Q v : cmv (mlin c P s Q) v = vlin c (cmv P v) s (cmv Q v).
Proof. unfold vlin, mlin. now rewrite cmv_madd, !cmv_mscale. Qed.

(* a list of matrices applied to a state one after the other (head first) *)
Definition apply_all (Ms : list Cmat) (v : Cvec) : Cvec := fold_left (fun w M => cmv M w) Ms v.

Lemma apply_all_vlin Ms : forall c x s y, apply_all Ms (vlin c x s y) = vlin c (apply_all Ms x) s (apply_all Ms y).
Proof. induction Ms as [|M Ms IH]; intros; cbn; [reflexivity|]. now rewrite cmv_vlin, IH. Qed.

Lemma apply_all_app Ms Ns v : apply_all (Ms ++ Ns) v = apply_all Ns (apply_all Ms v).
Proof. apply fold_left_app. Qed.

(* <u| H |v>  and the expectation value <v| H |v> *)
Definition sandwich_form (H : Cmat) (u v : Cvec) : C := cdot (map Cconj u) (cmv H v).
Definition expect (H : Cmat) (v : Cvec) : C := sandwich_form H v v.

Lemma Cconj_RtoC (c : R) : Cconj (RtoC c) = RtoC c.
Proof. lca. Qed.

Lemma sandwich_l H c x s y z :
  sandwich_form H (vlin c x s y) z = RtoC c * sandwich_form H x z + RtoC s * sandwich_form H y z.
Proof.
  unfold sandwich_form, vlin. now rewrite conj_vadd, !conj_vscale, !Cconj_RtoC, cdot_vadd_l, !cdot_vscale_l.
Qed.

Lemma sandwich_r H c x s y z :
  sandwich_form H z (vlin c x s y) = RtoC c * sandwich_form H z x + RtoC s * sandwich_form H z y.
Proof. unfold sandwich_form. rewrite cmv_vlin. unfold vlin. now rewrite cdot_vadd_r, !cdot_vscale_r. Qed.

Lemma Re_lin (c s : R) (a b : C) : Re (RtoC c * a + RtoC s * b) = (c * Re a + s * Re b)%R.
Proof. unfold Re. simpl. ring. Qed.
Lemma Im_lin (c s : R) (a b : C) : Im (RtoC c * a + RtoC s * b) = (c * Im a + s * Im b)%R.
Proof. unfold Im. simpl. ring. Qed.

(* ------------------------------------------------------------------ 4. the parameter-shift theorem *)
(* the state after  before ; U ; after  (head of a list applied first) *)
Definition circuit_state (before : list Cmat) (U : Cmat) (after : list Cmat) (psi : Cvec) : Cvec :=
  apply_all (before ++ U :: after) psi.

(* any gate family  U(th) = cos(r th) P + sin(r th) Q *)
Definition lin_gate (P Q : Cmat) (r th : R) : Cmat := mlin (cos (r * th)) P (sin (r * th)) Q.

(* U(th) = cos(r th) Id - i sin(r th) G     (qibo: RX, RY, RZ with r = 1/2, G = X, Y, Z) *)
Definition rot (r : R) (Id G : Cmat) (th : R) : Cmat :=
  madd Cops (mscale Cops (RtoC (cos (r * th))) Id) (mscale Cops (Copp Ci * RtoC (sin (r * th))) G).

Lemma mscale_mscale_C (c d : C) (A : Cmat) : mscale Cops c (mscale Cops d A) = mscale Cops (c * d) A.
Proof.
  unfold mscale, vscale. rewrite map_map. apply map_ext. intros a. rewrite map_map. apply map_ext. intros z.
  cbn. lca.
Qed.

Lemma rot_lin_gate r Id G th : rot r Id G th = lin_gate Id (mscale Cops (Copp Ci) G) r th.
Proof.
  unfold rot, lin_gate, mlin. rewrite mscale_mscale_C. do 2 f_equal. lca.
Qed.

Section Main.
  Variables (P Q : Cmat) (before after : list Cmat) (H : Cmat) (psi : Cvec) (r : R).

  Definition lg_fun (th : R) : C := expect H (circuit_state before (lin_gate P Q r th) after psi).

  Let p := apply_all after (cmv P (apply_all before psi)).
  Let q := apply_all after (cmv Q (apply_all before psi)).
  Let FRe (u v : Cvec) : R := Re (sandwich_form H u v).
  Let FIm (u v : Cvec) : R := Im (sandwich_form H u v).

  Lemma lg_state th : circuit_state before (lin_gate P Q r th) after psi = bstate Cvec vlin p q r th.
  Proof.
    unfold circuit_state, bstate, lin_gate. rewrite apply_all_app.
    change (apply_all (?U :: after) ?v) with (apply_all after (cmv U v)).
    now rewrite cmv_mlin, apply_all_vlin.
  Qed.

  Lemma lg_fun_re th : Re (lg_fun th) = bf Cvec vlin FRe p q r th.
  Proof. unfold lg_fun, expect, bf. now rewrite lg_state. Qed.
  Lemma lg_fun_im th : Im (lg_fun th) = bf Cvec vlin FIm p q r th.
  Proof. unfold lg_fun, expect, bf. now rewrite lg_state. Qed.

  Theorem lin_gate_shift_rule scale x : r <> 0%R ->
    is_derive (fun y => Re (lg_fun (scale * y))) x (psr_value (fun t => Re (lg_fun t)) r scale (scale * x)) /\
    is_derive (fun y => Im (lg_fun (scale * y))) x (psr_value (fun t => Im (lg_fun t)) r scale (scale * x)).
  Proof.
    intros Hr. split.
    - apply (is_derive_ext (fun y => bf Cvec vlin FRe p q r (scale * y)%R)); [intros y; now rewrite lg_fun_re|].
      unfold psr_value. rewrite !lg_fun_re. apply bilinear_shift_rule; [| |exact Hr]; intros; unfold FRe.
      + now rewrite sandwich_l, Re_lin.
      + now rewrite sandwich_r, Re_lin.
    - apply (is_derive_ext (fun y => bf Cvec vlin FIm p q r (scale * y)%R)); [intros y; now rewrite lg_fun_im|].
      unfold psr_value. rewrite !lg_fun_im. apply bilinear_shift_rule; [| |exact Hr]; intros; unfold FIm.
      + now rewrite sandwich_l, Im_lin.
      + now rewrite sandwich_r, Im_lin.
  Qed.
End Main.

(* f(th) = <phi(th)| H |phi(th)>,  phi(th) = after ... (cos(r th) Id - i sin(r th) G) ... before psi *)
Definition psr_fun (r : R) (Id G : Cmat) (before after : list Cmat) (H : Cmat) (psi : Cvec) (th : R) : C :=
  expect H (circuit_state before (rot r Id G th) after psi).

Lemma psr_fun_lg r Id G before after H psi th :
  psr_fun r Id G before after H psi th = lg_fun Id (mscale Cops (Copp Ci) G) before after H psi r th.
Proof. unfold psr_fun, lg_fun. now rewrite rot_lin_gate. Qed.

Theorem parameter_shift_rule_proof :
  forall (r : R) (Id G : Cmat) (before after : list Cmat) (H : Cmat) (psi : Cvec) (scale x : R),
    r <> 0%R ->
    let f := psr_fun r Id G before after H psi in
    is_derive (fun y => Re (f (scale * y)%R)) x (psr_value (fun t => Re (f t)) r scale (scale * x)%R) /\
    is_derive (fun y => Im (f (scale * y)%R)) x (psr_value (fun t => Im (f t)) r scale (scale * x)%R).
Proof.
  intros r Id G before after H psi scale x Hr f. unfold f.
  destruct (lin_gate_shift_rule Id (mscale Cops (Copp Ci) G) before after H psi r scale x Hr) as [A B].
  split.
  - eapply is_derive_ext; [intros y; rewrite psr_fun_lg; reflexivity|].
    unfold psr_value in *. rewrite !psr_fun_lg. exact A.
  - eapply is_derive_ext; [intros y; rewrite psr_fun_lg; reflexivity|].
    unfold psr_value in *. rewrite !psr_fun_lg. exact B.
Qed.

(* ------------------------------------------------------------------ 5. what G G = Id adds; gates inside a register *)
Lemma Cops_ring_laws : ring_laws Cops.
Proof. constructor; intros; cbn; lca. Qed.

(* With Id the unit for {Id, G} and G G = Id the family is a one-parameter group: U(a) U(b) = U(a + b)
   (this is what "U(th) = exp(-i r th G)" means algebraically); the shift rule itself does not use it. *)
Lemma rot_compose r Id G a b :
  mmul Cops Id Id = Id -> mmul Cops Id G = G -> mmul Cops G Id = G -> mmul Cops G G = Id ->
  mmul Cops (rot r Id G a) (rot r Id G b) = rot r Id G (a + b).
Proof.
  intros HII HIG HGI HGG. unfold rot.
  pose proof Cops_ring_laws as RL.
  rewrite (mmul_madd_l Cops RL), !(mmul_madd_r Cops RL).
  rewrite !(mscale_mmul_l Cops RL), !(mscale_mmul_r Cops RL), HII, HIG, HGI, HGG.
  rewrite !(mscale_mscale Cops RL).
  rewrite (madd_comm Cops RL (mscale Cops _ G) (mscale Cops _ Id)).
  rewrite (madd_swap Cops RL), <- !(mscale_add Cops RL).
  replace (r * (a + b))%R with (r * a + r * b)%R by ring. rewrite cos_plus, sin_plus.
  f_equal; f_equal; cbn; unfold RtoC, Ci; apply injective_projections; simpl; ring.
Qed.

Lemma nth_cvadd j : forall a b : Cvec, nth j (cvadd a b) (RtoC 0) = nth j a (RtoC 0) + nth j b (RtoC 0).
Proof.
  induction j as [|j IH]; intros [|x a] [|y b]; cbn [vadd nth]; try reflexivity; try lca. apply IH.
Qed.

Lemma nth_cmadd i : forall A B : Cmat, nth i (madd Cops A B) [] = cvadd (nth i A []) (nth i B []).
Proof.
  induction i as [|i IH]; intros [|a A] [|b B]; cbn [madd nth vadd]; try reflexivity;
    try (now destruct (nth i B [])); try (now destruct (nth i A [])); try (now destruct a).
Qed.

Lemma mget_cmadd A B i j : mget Cops (madd Cops A B) i j = mget Cops A i j + mget Cops B i j.
Proof. unfold mget. cbn [zero Cops]. now rewrite nth_cmadd, nth_cvadd. Qed.

Lemma embed_cmadd n qs A B : embed Cops n qs (madd Cops A B) = madd Cops (embed Cops n qs A) (embed Cops n qs B).
Proof.
  unfold embed. rewrite (madd_map Cops). apply map_ext. intros rr.
  induction (allbits n) as [|c l IH]; [reflexivity|]. cbn [map vadd]. rewrite IH. f_equal.
  destruct (agree_off qs rr c); [apply mget_cmadd | cbn; lca].
Qed.

(* the one-qubit (or k-qubit) family placed on qubits qs of an n-qubit register is again such a family *)
Lemma embed_rot n qs r Id G th :
  embed Cops n qs (rot r Id G th) = rot r (embed Cops n qs Id) (embed Cops n qs G) th.
Proof. unfold rot. now rewrite embed_cmadd, !(embed_mscale Cops Cops_ring_laws). Qed.

Theorem parameter_shift_rule_embedded_proof :
  forall (n : nat) (qs : list nat) (r : R) (Id G : Cmat) (before after : list Cmat) (H : Cmat) (psi : Cvec)
         (scale x : R),
    r <> 0%R ->
    let f := fun th => expect H (circuit_state before (embed Cops n qs (rot r Id G th)) after psi) in
    is_derive (fun y => Re (f (scale * y)%R)) x (psr_value (fun t => Re (f t)) r scale (scale * x)%R) /\
    is_derive (fun y => Im (f (scale * y)%R)) x (psr_value (fun t => Im (f t)) r scale (scale * x)%R).
Proof.
  intros n qs r Id G before after H psi scale x Hr f.
  destruct (parameter_shift_rule_proof r (embed Cops n qs Id) (embed Cops n qs G) before after H psi scale x Hr) as [A B].
  unfold psr_fun in A, B.
  split.
  - eapply is_derive_ext; [intros y; unfold f; rewrite embed_rot; reflexivity|].
    unfold psr_value in *. unfold f. rewrite !embed_rot. exact A.
  - eapply is_derive_ext; [intros y; unfold f; rewrite embed_rot; reflexivity|].
    unfold psr_value in *. unfold f. rewrite !embed_rot. exact B.
Qed.

(* ------------------------------------------------------------------ 6. non-vacuity: RX on |0>, H = Z *)
Definition I2c : Cmat := [[RtoC 1; RtoC 0]; [RtoC 0; RtoC 1]].
Definition Xc : Cmat := [[RtoC 0; RtoC 1]; [RtoC 1; RtoC 0]].
Definition Zc : Cmat := [[RtoC 1; RtoC 0]; [RtoC 0; RtoC (-1)]].
Definition ket0 : Cvec := [RtoC 1; RtoC 0].

Example I2c_is_identity : I2c = midentity Cops 1 /\ mmul Cops Xc Xc = I2c.
Proof. split; cbn; unfold I2c; repeat f_equal; lca. Qed.

(* f(th) = <0| RX(th)^dag Z RX(th) |0> = cos th *)
Example psr_example_RX_value th : psr_fun (1 / 2) I2c Xc [] [] Zc ket0 th = RtoC (cos th).
Proof.
  unfold psr_fun, expect, sandwich_form, circuit_state, rot, I2c, Xc, Zc, ket0, RtoC, Ci.
  cbn. set (c := cos (1 / 2 * th)). set (s := sin (1 / 2 * th)).
  replace (cos th) with (c * c - s * s)%R by (unfold c, s; rewrite <- cos_2a; f_equal; field).
  apply injective_projections; cbn; ring.
Qed.

(* ... and the value derivative.py returns for it is -sin th, which the theorem says is the derivative *)
Example psr_example_RX_shift x :
  psr_value (fun t => Re (psr_fun (1 / 2) I2c Xc [] [] Zc ket0 t)) (1 / 2) 1 (1 * x)%R = (- sin x)%R.
Proof.
  unfold psr_value. rewrite !psr_example_RX_value. unfold Re, RtoC, fst.
  replace (PI / (4 * (1 / 2)))%R with (PI / 2)%R by field. rewrite Rmult_1_l.
  rewrite cos_plus, cos_minus, cos_PI2, sin_PI2. field.
Qed.

Example psr_example_RX_derivative x :
  is_derive (fun y => Re (psr_fun (1 / 2) I2c Xc [] [] Zc ket0 (1 * y)%R)) x (- sin x)%R.
Proof.
  rewrite <- psr_example_RX_shift.
  refine (proj1 (parameter_shift_rule_proof (1 / 2) I2c Xc [] [] Zc ket0 1 x _)). lra.
Qed.

(* ------------------------------------------------------------------ 7. tie to gate matrices traced from /repo *)
(* harness/c06.py traces the matrix M(th_0) of RX, RY, RZ (and of X, Y, Z) out of the real backend as
   Base/TrigNF expressions and evaluates  rot_gate_check r M G  with r = gate.generator_eigenvalue().
   The check says: G is a constant 2x2 matrix with G G = I, and for every th_0
   M(th_0) = cos(r th_0) I - i sin(r th_0) G.   Its soundness theorem below then gives the shift rule for
   that traced gate on any qubit of any register inside any circuit. *)
Fixpoint closed (e : expr) : bool :=
  match e with
  | EQ _ | EI | ESqrt2 => true
  | ECis a | ECos a | ESin a => azero (tl a)
  | EAdd a b | EMul a b => closed a && closed b
  | ENeg a | EConj a => closed a
  end.

Lemma aang_closed th th' a : azero (tl a) = true -> aang th a = aang th' a.
Proof.
  destruct a as [|c a]; [reflexivity|]. cbn [tl]. intros Hz. unfold aang. cbn [aang_from].
  now rewrite (azero_sound th a 1 Hz), (azero_sound th' a 1 Hz).
Qed.

Lemma closed_denote th th' e : closed e = true -> denote th e = denote th' e.
Proof.
  induction e; cbn [closed denote]; intros Hc; try reflexivity;
    try (now rewrite (aang_closed th th' a Hc));
    try (apply andb_true_iff in Hc as [H1 H2]; now rewrite IHe1, IHe2);
    try (now rewrite IHe).
Qed.

Definition rangle (rq : Q) : aff := ascale rq (avar 0).

Lemma aang_rangle th rq : aang th (rangle rq) = (Q2R rq * th 0%nat)%R.
Proof.
  unfold rangle. rewrite aang_ascale. f_equal. unfold aang, avar. cbn [aang_from env].
  unfold Q2R. simpl. field.
Qed.

Definition rot_entry (rq : Q) (delta : Q) (g : expr) : expr :=
  EAdd (EMul (ECos (rangle rq)) (EQ delta)) (EMul (EMul (ENeg EI) (ESin (rangle rq))) g).

Definition rot2_lit (rq : Q) (g00 g01 g10 g11 : expr) : mat expr :=
  [[rot_entry rq 1 g00; rot_entry rq 0 g01]; [rot_entry rq 0 g10; rot_entry rq 1 g11]].

Lemma rot2_lit_den th rq g00 g01 g10 g11 :
  mden th (MLit (rot2_lit rq g00 g01 g10 g11))
  = rot (Q2R rq) I2c (mden th (MLit [[g00; g01]; [g10; g11]])) (th 0%nat).
Proof.
  unfold rot2_lit, rot_entry, rot, I2c. cbn [mden map denote]. rewrite aang_rangle.
  cbn [madd mscale vscale vadd map add mul Cops].
  replace (Q2R 1) with 1%R by (unfold Q2R; simpl; field).
  replace (Q2R 0) with 0%R by (unfold Q2R; simpl; field).
  reflexivity.
Qed.

Definition rot_gate_check (rq : Q) (M G : mat expr) : bool :=
  match G with
  | [[g00; g01]; [g10; g11]] =>
      negb (Qeq_bool rq 0) && forallb closed [g00; g01; g10; g11]
      && mcheck_eq (MLit M) (MLit (rot2_lit rq g00 g01 g10 g11))
      && mcheck_eq (MMul (MLit G) (MLit G)) (MId 1)
  | _ => false
  end.

Theorem rot_gate_check_sound rq M G : rot_gate_check rq M G = true ->
  Q2R rq <> 0%R /\
  exists G0 : Cmat, mmul Cops G0 G0 = I2c /\
    forall th, mden th (MLit M) = rot (Q2R rq) I2c G0 (th 0%nat).
Proof.
  unfold rot_gate_check.
  destruct G as [|[|g00 [|g01 [|? ?]]] [|[|g10 [|g11 [|? ?]]] [|? ?]]]; try discriminate.
  intros Hc. repeat (apply andb_true_iff in Hc as [Hc ?]).
  cbn [forallb] in *. repeat match goal with H : (_ && _)%bool = true |- _ => apply andb_true_iff in H as [? ?] end.
  split.
  - intros E. apply negb_true_iff, Qeq_bool_neq in Hc. apply Hc, eqR_Qeq. rewrite E. unfold Q2R; simpl; field.
  - set (G := [[g00; g01]; [g10; g11]]) in *.
    assert (HG : forall th, mden th (MLit G) = mden (fun _ => 0%R) (MLit G)).
    { intros th. unfold G. cbn [mden map].
      now rewrite (closed_denote th (fun _ => 0%R) g00), (closed_denote th (fun _ => 0%R) g01),
        (closed_denote th (fun _ => 0%R) g10), (closed_denote th (fun _ => 0%R) g11). }
    exists (mden (fun _ => 0%R) (MLit G)). split.
    + match goal with H : mcheck_eq (MMul _ _) _ = true |- _ => pose proof (mcheck_eq_sound _ _ H (fun _ => 0%R)) as E end.
      cbn [mden] in E |- *. rewrite E. symmetry. apply (proj1 I2c_is_identity).
    + intros th.
      match goal with H : mcheck_eq (MLit M) _ = true |- _ => rewrite (mcheck_eq_sound _ _ H th) end.
      rewrite rot2_lit_den. fold G. now rewrite HG.
Qed.

Theorem traced_gate_shift_rule_proof :
  forall (rq : Q) (M G : mat expr), rot_gate_check rq M G = true ->
  forall (n : nat) (qs : list nat) (before after : list Cmat) (H : Cmat) (psi : Cvec) (scale x : R),
    let U := fun th : R => embed Cops n qs (mden (fun _ => th) (MLit M)) in
    let f := fun th : R => expect H (circuit_state before (U th) after psi) in
    is_derive (fun y => Re (f (scale * y)%R)) x (psr_value (fun t => Re (f t)) (Q2R rq) scale (scale * x)%R) /\
    is_derive (fun y => Im (f (scale * y)%R)) x (psr_value (fun t => Im (f t)) (Q2R rq) scale (scale * x)%R).
Proof.
  intros rq M G Hc n qs before after H psi scale x U f.
  destruct (rot_gate_check_sound rq M G Hc) as [Hr [G0 [_ HM]]].
  assert (EU : forall th, U th = embed Cops n qs (rot (Q2R rq) I2c G0 th)).
  { intros th. unfold U. now rewrite (HM (fun _ => th)). }
  destruct (parameter_shift_rule_embedded_proof n qs (Q2R rq) I2c G0 before after H psi scale x Hr) as [A B].
  split.
  - eapply is_derive_ext; [intros y; unfold f; rewrite EU; reflexivity|].
    unfold psr_value in *. unfold f. rewrite !EU. exact A.
  - eapply is_derive_ext; [intros y; unfold f; rewrite EU; reflexivity|].
    unfold psr_value in *. unfold f. rewrite !EU. exact B.
Qed.

(* ------------------------------------------------------------------ 8. outside the family: controlled rotations *)
(* gates.RX(q, th).controlled_by(c1, c2) keeps the class RX (generator_eigenvalue() = 0.5) but its operator is
   cembed (identity unless all controls are 1), whose generator has the eigenvalues 0, +1/2, -1/2: the
   two-term rule is FALSE for it.  Witness: target qubit 0, controls 1 and 2, psi = |0>(|00> + |11>),
   H = Z (x) (|00><11| + |11><00|): f(th) = 2 cos(th/2), f'(pi) = -1, derivative.py's value is -sqrt 2. *)
Local Open Scope R_scope.
Definition Hc3 : Cmat :=
  let z := RtoC 0 in let o := RtoC 1 in let m := RtoC (-1) in
  [[z;z;z;o;z;z;z;z]; [z;z;z;z;z;z;z;z]; [z;z;z;z;z;z;z;z]; [o;z;z;z;z;z;z;z];
   [z;z;z;z;z;z;z;m]; [z;z;z;z;z;z;z;z]; [z;z;z;z;z;z;z;z]; [z;z;z;z;m;z;z;z]].
Definition psi3 : Cvec := let z := RtoC 0 in let o := RtoC 1 in [o;z;z;o;z;z;z;z].

(* RX(th) on qubit 0 controlled by qubits 1 and 2 (what gates.RX(0, th).controlled_by(1, 2) is) *)
Definition ccrx_fun (th : R) : C :=
  expect Hc3 (circuit_state [] (cembed Cops 3 [1; 2]%nat [0]%nat (rot (1 / 2) I2c Xc th)) [] psi3).

Lemma ccrx_fun_value th : ccrx_fun th = RtoC (2 * cos (1 / 2 * th)).
Proof.
  unfold ccrx_fun, expect, sandwich_form, circuit_state, rot, I2c, Xc, Hc3, psi3, RtoC, Ci.
  cbn. set (c := cos (1 / 2 * th)). set (s := sin (1 / 2 * th)).
  apply injective_projections; cbn; ring.
Qed.

Theorem controlled_rotation_shift_rule_refuted_proof :
  exists (H : Cmat) (psi : Cvec) (x : R),
    let f := fun th : R => expect H (circuit_state [] (cembed Cops 3 [1; 2]%nat [0]%nat (rot (1 / 2) I2c Xc th)) [] psi) in
    ~ is_derive (fun y => Re (f y)) x (psr_value (fun t => Re (f t)) (1 / 2) 1 x).
Proof.
  exists Hc3, psi3, PI. intros f D.
  assert (Ef : forall t, Re (f t) = 2 * cos (1 / 2 * t)).
  { intros t. unfold f. fold (ccrx_fun t). now rewrite ccrx_fun_value. }
  assert (D1 : is_derive (fun y => Re (f y)) PI (-1)).
  { apply (is_derive_ext (fun y => 2 * cos (1 / 2 * y))); [intros t; now rewrite Ef|].
    auto_derive; [trivial|]. replace (1 / 2 * PI) with (PI / 2) by field. rewrite sin_PI2. field. }
  apply is_derive_unique in D. apply is_derive_unique in D1. rewrite D1 in D. clear D1.
  unfold psr_value in D. rewrite !Ef in D.
  replace (1 / 2 * (PI + PI / (4 * (1 / 2)))) with (3 * (PI / 4)) in D by field.
  replace (1 / 2 * (PI - PI / (4 * (1 / 2)))) with (PI / 4) in D by field.
  rewrite cos_3PI4, cos_PI4 in D.
  assert (Hs : sqrt 2 * sqrt 2 = 2) by (apply sqrt_sqrt; lra).
  assert (Hp : 0 < sqrt 2) by apply Rlt_sqrt2_0.
  assert (E : sqrt 2 = 2).
  { apply (Rmult_eq_reg_l (/ sqrt 2)); [|apply Rinv_neq_0_compat; lra].
    replace (/ sqrt 2 * sqrt 2) with 1 by (field; lra).
    replace (/ sqrt 2 * 2) with (- (1 / 2 * (2 * (-1 / sqrt 2) - 2 * (1 / sqrt 2)) * 1)) by (field; lra).
    rewrite <- D. ring. }
  rewrite E in Hs. lra.
Qed.
