(* C06/PropsDerived.v : parameter bookkeeping of derived circuits (inverse, copy, +, on_qubits, fused) --
   theorems over the executable model C06/Derived.v (+ Params.v); tied to the real Circuit by
   harness/c06.py (exact comparison of queue shape, exposed lists, and set/get on the derived circuit). *)
From Coq Require Import List Arith Bool.
From QV Require Import C06.Params C06.Derived.
Import ListNotations.

(* a circuit derived without fusion exposes exactly the parametrised gates of its queue, in queue order,
   with the flags of the gates it was derived from *)
Theorem derived_circuit_exposes_its_queue :
  forall e s, fusion_free e = true -> deval e = Some s -> pgs s = direct (queue s).
Proof. exact exposed_is_direct. Qed.
Print Assumptions derived_circuit_exposes_its_queue.

(* the trainable mask of the inverse is the reversed mask (same gates, same flags, reversed queue order) *)
Theorem inverse_exposes_reversed_list :
  forall s, pgs s = direct (queue s) -> pgs (d_invert s) = rev (pgs s) /\ map snd (pgs (d_invert s)) = rev (map snd (pgs s)).
Proof. intros s H. split; [now apply invert_exposed | now apply invert_mask]. Qed.
Print Assumptions inverse_exposes_reversed_list.

Theorem concatenation_exposes_both_lists :
  forall a b, pgs a = direct (queue a) -> pgs b = direct (queue b) -> pgs (d_cat a b) = pgs a ++ pgs b.
Proof. exact cat_exposed. Qed.
Print Assumptions concatenation_exposes_both_lists.

Theorem fused_circuit_keeps_the_exposed_list : forall bs s, pgs (d_fuse bs s) = pgs s.
Proof. exact fuse_exposed. Qed.
Print Assumptions fused_circuit_keeps_the_exposed_list.

Theorem double_inverse_restores_bookkeeping : forall s, d_invert (d_invert s) = readd (queue s).
Proof. exact invert_twice. Qed.
Print Assumptions double_inverse_restores_bookkeeping.

(* at the level of the set/get model: mask, arities, counts and readings of the inverse *)
Theorem inverse_mask_and_arities_reversed :
  forall (V : Type) (dgp : @pgate V -> @pgate V),
    (forall g, npar (dgp g) = npar g) -> (forall g, trainable (dgp g) = trainable g) ->
    forall gs, map trainable (inv_pg dgp gs) = rev (map trainable gs)
               /\ map npar (inv_pg dgp gs) = rev (map npar gs)
               /\ ntrain (inv_pg dgp gs) = ntrain gs /\ total (inv_pg dgp gs) = total gs
               /\ get_list (inv_pg dgp gs) = rev (map (fun g => vals (dgp g)) (filter trainable gs)).
Proof.
  intros V dgp Hn Ht gs. repeat split.
  - now apply inverse_mask_is_reversed.
  - now apply inverse_npar_is_reversed.
  - now apply inverse_counts.
  - now apply inverse_counts.
  - now apply inverse_get_list.
Qed.
Print Assumptions inverse_mask_and_arities_reversed.

(* c1 + c2: the flat list is consumed by c1's trainable gates first, then by c2's; readings concatenate *)
Theorem concatenation_set_get :
  forall (V : Type) (g1 g2 : list (@pgate V)) (ps : list V),
    set_flat_spec (g1 ++ g2) ps = set_flat_spec g1 ps ++ set_flat_spec g2 (skipn (total g1) ps)
    /\ get_flat (g1 ++ g2) = get_flat g1 ++ get_flat g2
    /\ get_list (g1 ++ g2) = get_list g1 ++ get_list g2.
Proof. intros. repeat split; [apply set_flat_app | apply get_flat_app | apply get_list_app]. Qed.
Print Assumptions concatenation_set_get.
