(* C06/PropsShift.v : the parameter-shift rule (last sentence of property C06) as general theorems.
   Definitions and proofs: C06/ShiftRule.v.  derivative.py returns
       generator_eigenvalue * (forward - backward) * scale_factor,   shift s = pi / (4 * generator_eigenvalue),
   which is  psr_value f r scale th  for f = Re <H>, th = the parameter value held by the circuit. *)
From Coq Require Import Reals List QArith Qreals.
From Coquelicot Require Import Coquelicot.
From QV Require Import Base.Cis Base.TrigNF Base.Mat Base.TrigMat C06.ShiftRule.
Import ListNotations.

(* every dimension, state, observable, circuit around the gate, generator G, eigenvalue r <> 0, scale factor;
   U(th) = cos(r th) Id - i sin(r th) G;  no Hermiticity / unitarity / shape / G G = Id hypothesis is needed *)
Theorem parameter_shift_rule :
  forall (r : R) (Id G : Cmat) (before after : list Cmat) (H : Cmat) (psi : Cvec) (scale x : R),
    r <> 0%R ->
    let f := fun th : R => expect H (circuit_state before (rot r Id G th) after psi) in
    is_derive (fun y => Re (f (scale * y)%R)) x (psr_value (fun t => Re (f t)) r scale (scale * x)%R) /\
    is_derive (fun y => Im (f (scale * y)%R)) x (psr_value (fun t => Im (f t)) r scale (scale * x)%R).
Proof. exact parameter_shift_rule_proof. Qed.
Print Assumptions parameter_shift_rule.

(* the same for the gate placed on the qubits qs of an n-qubit register (Base/Mat.embed, the operator
   of a gate on qubits used by all properties) *)
Theorem parameter_shift_rule_on_register :
  forall (n : nat) (qs : list nat) (r : R) (Id G : Cmat) (before after : list Cmat) (H : Cmat) (psi : Cvec)
         (scale x : R),
    r <> 0%R ->
    let f := fun th : R => expect H (circuit_state before (embed Cops n qs (rot r Id G th)) after psi) in
    is_derive (fun y => Re (f (scale * y)%R)) x (psr_value (fun t => Re (f t)) r scale (scale * x)%R) /\
    is_derive (fun y => Im (f (scale * y)%R)) x (psr_value (fun t => Im (f t)) r scale (scale * x)%R).
Proof. exact parameter_shift_rule_embedded_proof. Qed.
Print Assumptions parameter_shift_rule_on_register.

(* most general matrix form: any family cos(r th) P + sin(r th) Q of complex matrices *)
Theorem parameter_shift_rule_linear_family :
  forall (P Q : Cmat) (before after : list Cmat) (H : Cmat) (psi : Cvec) (r scale x : R),
    r <> 0%R ->
    let f := fun th : R => expect H (circuit_state before (lin_gate P Q r th) after psi) in
    is_derive (fun y => Re (f (scale * y)%R)) x (psr_value (fun t => Re (f t)) r scale (scale * x)%R) /\
    is_derive (fun y => Im (f (scale * y)%R)) x (psr_value (fun t => Im (f t)) r scale (scale * x)%R).
Proof. exact lin_gate_shift_rule. Qed.
Print Assumptions parameter_shift_rule_linear_family.

(* abstract form: any space with real linear combinations and any real-bilinear form on it *)
Theorem parameter_shift_rule_bilinear_form :
  forall (V : Type) (lin : R -> V -> R -> V -> V) (F : V -> V -> R),
    (forall c x s y z, F (lin c x s y) z = (c * F x z + s * F y z)%R) ->
    (forall c x s y z, F z (lin c x s y) = (c * F z x + s * F z y)%R) ->
    forall (p q : V) (r scale x : R), r <> 0%R ->
    let f := fun th : R => F (lin (cos (r * th)) p (sin (r * th)) q) (lin (cos (r * th)) p (sin (r * th)) q) in
    is_derive (fun y => f (scale * y)%R) x (psr_value f r scale (scale * x)%R).
Proof. exact bilinear_shift_rule. Qed.
Print Assumptions parameter_shift_rule_bilinear_form.

(* what G G = Id means: the family is a one-parameter group *)
Theorem rotation_family_is_a_group :
  forall (r : R) (Id G : Cmat) (a b : R),
    mmul Cops Id Id = Id -> mmul Cops Id G = G -> mmul Cops G Id = G -> mmul Cops G G = Id ->
    mmul Cops (rot r Id G a) (rot r Id G b) = rot r Id G (a + b).
Proof. exact rot_compose. Qed.
Print Assumptions rotation_family_is_a_group.

(* the reflexive check evaluated by harness/c06.py on the matrices traced from /repo *)
Theorem rot_gate_check_meaning :
  forall (rq : Q) (M G : mat expr), rot_gate_check rq M G = true ->
    Q2R rq <> 0%R /\
    exists G0 : Cmat, mmul Cops G0 G0 = I2c /\
      forall th : nat -> R, mden th (MLit M) = rot (Q2R rq) I2c G0 (th 0%nat).
Proof. exact rot_gate_check_sound. Qed.
Print Assumptions rot_gate_check_meaning.

Theorem traced_gate_shift_rule :
  forall (rq : Q) (M G : mat expr), rot_gate_check rq M G = true ->
  forall (n : nat) (qs : list nat) (before after : list Cmat) (H : Cmat) (psi : Cvec) (scale x : R),
    let U := fun th : R => embed Cops n qs (mden (fun _ => th) (MLit M)) in
    let f := fun th : R => expect H (circuit_state before (U th) after psi) in
    is_derive (fun y => Re (f (scale * y)%R)) x (psr_value (fun t => Re (f t)) (Q2R rq) scale (scale * x)%R) /\
    is_derive (fun y => Im (f (scale * y)%R)) x (psr_value (fun t => Im (f t)) (Q2R rq) scale (scale * x)%R).
Proof. exact traced_gate_shift_rule_proof. Qed.
Print Assumptions traced_gate_shift_rule.

(* non-vacuity: RX on |0> with H = Z gives f = cos, and the rule gives f' = -sin *)
Theorem parameter_shift_rule_instance_RX :
  (forall th : R, expect Zc (circuit_state [] (rot (1 / 2) I2c Xc th) [] ket0) = RtoC (cos th)) /\
  (forall x : R, is_derive (fun y => Re (expect Zc (circuit_state [] (rot (1 / 2) I2c Xc (1 * y)%R) [] ket0))) x (- sin x)%R).
Proof. exact (conj psr_example_RX_value psr_example_RX_derivative). Qed.
Print Assumptions parameter_shift_rule_instance_RX.

(* the rule does NOT extend to RX/RY/RZ objects made with controlled_by (two or more controls keep the class
   and its generator_eigenvalue): refuted with a concrete witness (open finding parameter_shift:multi_controlled) *)
Theorem controlled_rotation_shift_rule_refuted :
  exists (H : Cmat) (psi : Cvec) (x : R),
    let f := fun th : R => expect H (circuit_state [] (cembed Cops 3 [1; 2]%nat [0]%nat (rot (1 / 2) I2c Xc th)) [] psi) in
    ~ is_derive (fun y => Re (f y)) x (psr_value (fun t => Re (f t)) (1 / 2) 1 x).
Proof. exact controlled_rotation_shift_rule_refuted_proof. Qed.
Print Assumptions controlled_rotation_shift_rule_refuted.
