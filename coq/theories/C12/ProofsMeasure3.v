(* C12/ProofsMeasure3.v : the commutation relations of the tableau are preserved by the measurement.
     Inv n T          2n+1 rows, rows 0..2n-1 well formed, and for i, j < 2n:
                      row i anticommutes with row j  iff  they are a destabiliser/stabiliser pair
     Inv_random       _random_outcome preserves Inv (for every phase rule `total`: the phases play no role)
     tableau_inv_M    M preserves Inv, for the engine as written, the reference and every other phase rule *)
From Coq Require Import ZArith List Bool Arith Lia.
From QV Require Import Base.Mat Base.Zi C12.ModelTableau C12.ModelMeasure C12.Pauli C12.ProofsRules
  C12.ProofsCircuit C12.ProofsMeasure.
Import ListNotations.

Definition pairing (n i j : nat) : bool := (j =? i + n) || (i =? j + n).

Definition Inv (n : nat) (T : tableau) : Prop :=
  length T = (2 * n + 1)%nat
  /\ (forall i, (i < 2 * n)%nat -> row_wf n (trow T i))
  /\ (forall i j, (i < 2 * n)%nat -> (j < 2 * n)%nat -> anticommute (trow T i) (trow T j) = pairing n i j).

(* ---------------------------------------------------------------- the symplectic form *)
Lemma sympl_sym : forall xa za xb zb, length za = length xa -> length xb = length xa -> length zb = length xa ->
  sympl xa za xb zb = sympl xb zb xa za.
Proof.
  induction xa as [|a xa IH]; intros [|b za] [|c xb] [|d zb] H1 H2 H3; cbn in *; try lia; auto.
  rewrite (IH za xb zb) by lia. destruct a, b, c, d; reflexivity.
Qed.

Lemma sympl_self : forall x z, length z = length x -> sympl x z x z = false.
Proof.
  induction x as [|a x IH]; intros [|b z] H; cbn in *; try lia; auto.
  rewrite IH by lia. destruct a, b; reflexivity.
Qed.

Lemma sympl_lxor_l : forall xa za xc zc xb zb,
  length za = length xa -> length xc = length xa -> length zc = length xa ->
  length xb = length xa -> length zb = length xa ->
  sympl (lxor xc xa) (lxor zc za) xb zb = xorb (sympl xa za xb zb) (sympl xc zc xb zb).
Proof.
  induction xa as [|a xa IH]; intros [|b za] [|c xc] [|d zc] [|e xb] [|f zb] H1 H2 H3 H4 H5; cbn in *; try lia; auto.
  rewrite IH by lia.
  destruct a, b, c, d, e, f, (sympl xa za xb zb), (sympl xc zc xb zb); reflexivity.
Qed.

Lemma sympl_zrow : forall len s i xa za, length xa = len -> length za = len ->
  sympl xa za (repeat false len) (map (Nat.eqb i) (seq s len))
  = (s <=? i)%nat && (i <? s + len)%nat && nth (i - s) xa false.
Proof.
  induction len as [|len IH]; intros s i [|a xa] [|b za] Hx Hz; cbn [repeat seq map sympl length] in *; try lia.
  - rewrite Nat.add_0_r. destruct (s <=? i)%nat eqn:E1; destruct (i <? s)%nat eqn:E2; cbn; auto.
    apply Nat.leb_le in E1. apply Nat.ltb_lt in E2. lia.
  - rewrite IH by lia. rewrite andb_false_r, xorb_false_r.
    destruct (Nat.eqb i s) eqn:E.
    + apply Nat.eqb_eq in E. subst i. rewrite Nat.sub_diag. cbn [nth].
      replace (S s <=? s)%nat with false by (symmetry; apply Nat.leb_gt; lia).
      rewrite Nat.leb_refl. replace (s <? s + S len)%nat with true by (symmetry; apply Nat.ltb_lt; lia).
      cbn. now rewrite andb_true_r, xorb_false_r.
    + apply Nat.eqb_neq in E. rewrite andb_false_r, xorb_false_l.
      destruct (s <=? i)%nat eqn:E1.
      * apply Nat.leb_le in E1.
        replace (S s <=? i)%nat with true by (symmetry; apply Nat.leb_le; lia).
        replace (i <? S s + len)%nat with (i <? s + S len)%nat by (f_equal; lia).
        destruct (i - s)%nat as [|m] eqn:Em; [lia|]. replace (i - S s)%nat with m by lia. cbn [nth]. reflexivity.
      * apply Nat.leb_gt in E1. replace (S s <=? i)%nat with false by (symmetry; apply Nat.leb_gt; lia).
        reflexivity.
Qed.

(* on rows *)
Definition zq_row (n q : nat) (o : bool) : row := (zeros n, unit_vec n q, o).

Lemma ac_sym n a b : row_wf n a -> row_wf n b -> anticommute a b = anticommute b a.
Proof. intros [H1 H2] [H3 H4]. unfold anticommute, rx, rz. apply sympl_sym; lia. Qed.

Lemma ac_self n a : row_wf n a -> anticommute a a = false.
Proof. intros [H1 H2]. unfold anticommute, rx, rz. apply sympl_self; lia. Qed.

Lemma ac_rowsum_l total n a w b : row_wf n a -> row_wf n w -> row_wf n b ->
  anticommute (rowsum_with total a w) b = xorb (anticommute a b) (anticommute w b).
Proof.
  intros [H1 H2] [H3 H4] [H5 H6]. unfold anticommute, rowsum_with, rx, rz in *. cbn [fst snd].
  apply sympl_lxor_l; lia.
Qed.

Lemma ac_zq n q o a : (q < n)%nat -> row_wf n a -> anticommute a (zq_row n q o) = bit q (rx a).
Proof.
  intros Hq [H1 H2]. unfold anticommute, zq_row, rx, rz, zeros, unit_vec, bit in *. cbn [fst snd].
  rewrite sympl_zrow by assumption.
  replace (0 <=? q)%nat with true by reflexivity.
  replace (q <? 0 + n)%nat with true by (symmetry; apply Nat.ltb_lt; lia).
  now rewrite Nat.sub_0_r.
Qed.

Lemma row_wf_zq n q o : row_wf n (zq_row n q o).
Proof. split; cbn [fst snd zq_row]; [apply length_zeros | apply length_unit_vec]. Qed.

Lemma row_wf_rowsum_with total n a w : row_wf n a -> row_wf n w -> row_wf n (rowsum_with total a w).
Proof.
  intros [H1 H2] [H3 H4]. unfold row_wf, rowsum_with, rx, rz in *. cbn [fst snd].
  split; rewrite length_lxor; lia.
Qed.

Lemma rx_rowsum_with total a w : rx (rowsum_with total a w) = lxor (rx w) (rx a).
Proof. reflexivity. Qed.

(* ---------------------------------------------------------------- list access *)
Lemma nth_upd_same {A} q (v d : A) l : (q < length l)%nat -> nth q (upd q v l) d = v.
Proof. revert q. induction l as [|a l IH]; intros [|q] H; cbn in *; try lia; auto. apply IH. lia. Qed.

Lemma nth_upd_other {A} q q' (v d : A) l : q <> q' -> nth q' (upd q v l) d = nth q' l d.
Proof. revert q q'. induction l as [|a l IH]; intros [|q] [|q'] H; cbn; auto; congruence. Qed.

Lemma length_mapi_from {A B} (f : nat -> A -> B) l : forall s, length (mapi_from f s l) = length l.
Proof. induction l as [|a l IH]; intros s; cbn; auto. Qed.

Lemma nth_mapi_from {A B} (f : nat -> A -> B) (da : A) (db : B) l : forall s j, (j < length l)%nat ->
  nth j (mapi_from f s l) db = f (s + j)%nat (nth j l da).
Proof.
  induction l as [|a l IH]; intros s [|j] H; cbn in *; try lia.
  - now rewrite Nat.add_0_r.
  - rewrite IH by lia. f_equal. lia.
Qed.

Lemma find_from_spec f : forall len s i, find_from f s len = Some i -> (s <= i < s + len)%nat /\ f i = true.
Proof.
  induction len as [|len IH]; intros s i H; cbn in H; [discriminate|].
  destruct (f s) eqn:E.
  - injection H as <-. split; [lia|assumption].
  - apply IH in H. destruct H. split; [lia|assumption].
Qed.

(* the rows of the tableau after _random_outcome *)
Lemma trow_random rs n T p q o j :
  length T = (2 * n + 1)%nat -> (p < 2 * n)%nat -> (n <= p)%nat -> (0 < n)%nat -> (j < 2 * n)%nat ->
  trow (random_outcome rs n T p q o) j
  = if (j =? p)%nat then zq_row n q o
    else if (j =? p - n)%nat then trow T p
    else if bit q (rx (trow T j)) then rs (trow T j) (trow T p) else trow T j.
Proof.
  intros HL Hp Hnp Hn Hj. unfold random_outcome, trow, zq_row.
  destruct (j =? p)%nat eqn:E1.
  - apply Nat.eqb_eq in E1. subst j. apply nth_upd_same. rewrite length_upd, length_mapi_from. lia.
  - apply Nat.eqb_neq in E1. rewrite nth_upd_other by congruence.
    destruct (j =? p - n)%nat eqn:E2.
    + apply Nat.eqb_eq in E2. subst j. apply nth_upd_same. rewrite length_mapi_from. lia.
    + apply Nat.eqb_neq in E2. rewrite nth_upd_other by congruence.
      rewrite (nth_mapi_from _ dummy_row) by lia. cbn [Nat.add].
      replace (j <? 2 * n)%nat with true by (symmetry; apply Nat.ltb_lt; lia).
      replace (j =? p)%nat with false by (symmetry; apply Nat.eqb_neq; assumption).
      reflexivity.
Qed.

(* ---------------------------------------------------------------- _random_outcome preserves the relations *)
Theorem Inv_random total n T i0 q o :
  Inv n T -> (i0 < n)%nat -> (q < n)%nat -> bit q (rx (trow T (n + i0))) = true ->
  Inv n (random_outcome (rowsum_with total) n T (n + i0) q o).
Proof.
  intros [HL [Hwf Hac]] Hi0 Hq Hbit.
  remember (n + i0)%nat as p eqn:Ep. set (rs := rowsum_with total).
  assert (Hp : (p < 2 * n)%nat) by lia.
  assert (Hnp : (n <= p)%nat) by lia.
  assert (Hn : (0 < n)%nat) by lia.
  assert (Hd : (p - n)%nat = i0) by lia.
  assert (Wp : row_wf n (trow T p)) by (apply Hwf; lia).
  (* facts about the old rows *)
  assert (App : anticommute (trow T p) (trow T p) = false) by (now apply (ac_self n)).
  assert (Ajp : forall j, (j < 2 * n)%nat -> anticommute (trow T j) (trow T p) = (j =? i0)%nat).
  { intros j Hj. rewrite Hac by lia. unfold pairing. subst p.
    destruct (j =? i0)%nat eqn:E.
    - apply Nat.eqb_eq in E. subst j.
      replace (n + i0 =? i0 + n)%nat with true by (symmetry; apply Nat.eqb_eq; lia). reflexivity.
    - apply Nat.eqb_neq in E.
      replace (n + i0 =? j + n)%nat with false by (symmetry; apply Nat.eqb_neq; lia).
      replace (j =? n + i0 + n)%nat with false by (symmetry; apply Nat.eqb_neq; lia). reflexivity. }
  (* the new rows *)
  assert (New : forall j, (j < 2 * n)%nat ->
            trow (random_outcome rs n T p q o) j
            = if (j =? p)%nat then zq_row n q o
              else if (j =? i0)%nat then trow T p
              else if bit q (rx (trow T j)) then rs (trow T j) (trow T p) else trow T j).
  { intros j Hj. rewrite (trow_random rs n T p q o j HL Hp Hnp Hn Hj). now rewrite Hd. }
  assert (Wnew : forall j, (j < 2 * n)%nat -> row_wf n (trow (random_outcome rs n T p q o) j)).
  { intros j Hj. rewrite New by assumption.
    destruct (j =? p)%nat; [apply row_wf_zq|].
    destruct (j =? i0)%nat; [assumption|].
    destruct (bit q (rx (trow T j))); [apply row_wf_rowsum_with; auto|]; apply Hwf; lia. }
  split; [|split]; auto.
  - unfold random_outcome. now rewrite !length_upd, length_mapi_from.
  - (* a conditional row against an arbitrary well-formed row *)
    assert (Cond : forall j b, (j < 2 * n)%nat -> row_wf n b ->
              anticommute (if bit q (rx (trow T j)) then rs (trow T j) (trow T p) else trow T j) b
              = xorb (anticommute (trow T j) b) (bit q (rx (trow T j)) && anticommute (trow T p) b)).
    { intros j b Hj Hb. destruct (bit q (rx (trow T j))).
      - unfold rs. rewrite (ac_rowsum_l total n) by (auto; apply Hwf; lia). now rewrite andb_true_l.
      - now rewrite andb_false_l, xorb_false_r. }
    assert (CondX : forall j, (j < 2 * n)%nat ->
              bit q (rx (if bit q (rx (trow T j)) then rs (trow T j) (trow T p) else trow T j)) = false).
    { intros j Hj. destruct (bit q (rx (trow T j))) eqn:E; [|assumption].
      unfold rs. rewrite rx_rowsum_with. destruct Wp as [Wx _]. destruct (Hwf j Hj) as [Wjx _]. unfold rx in *.
      rewrite bit_lxor by lia. now rewrite Hbit, E. }
    assert (Wc : forall j, (j < 2 * n)%nat ->
              row_wf n (if bit q (rx (trow T j)) then rs (trow T j) (trow T p) else trow T j)).
    { intros j Hj. destruct (bit q (rx (trow T j))); [apply row_wf_rowsum_with; auto|]; apply Hwf; lia. }
    (* pairing with p *)
    assert (Pp : forall j, (j < 2 * n)%nat -> pairing n p j = (j =? i0)%nat /\ pairing n j p = (j =? i0)%nat).
    { intros j Hj. unfold pairing. subst p. destruct (j =? i0)%nat eqn:E.
      - apply Nat.eqb_eq in E. subst j.
        replace (n + i0 =? i0 + n)%nat with true by (symmetry; apply Nat.eqb_eq; lia).
        now rewrite !orb_true_r, ?orb_true_l.
      - apply Nat.eqb_neq in E.
        replace (n + i0 =? j + n)%nat with false by (symmetry; apply Nat.eqb_neq; lia).
        replace (j =? n + i0 + n)%nat with false by (symmetry; apply Nat.eqb_neq; lia). split; reflexivity. }
    (* two rows other than the measured stabiliser *)
    assert (AA : forall i j, (i < 2 * n)%nat -> (j < 2 * n)%nat ->
              anticommute (if (i =? i0)%nat then trow T p
                           else if bit q (rx (trow T i)) then rs (trow T i) (trow T p) else trow T i)
                          (if (j =? i0)%nat then trow T p
                           else if bit q (rx (trow T j)) then rs (trow T j) (trow T p) else trow T j)
              = if (i =? i0)%nat then false else if (j =? i0)%nat then false else pairing n i j).
    { intros i j Hi Hj.
      destruct (i =? i0)%nat eqn:Ei0; destruct (j =? i0)%nat eqn:Ej0.
      - exact App.
      - rewrite (ac_sym n) by auto. rewrite Cond by auto. rewrite (Ajp j Hj), App, Ej0.
        now rewrite andb_false_r.
      - rewrite Cond by auto. rewrite (Ajp i Hi), App, Ei0. now rewrite andb_false_r.
      - rewrite Cond by auto.
        rewrite (ac_sym n (trow T i)) by (auto; apply Hwf; lia).
        rewrite (ac_sym n (trow T p)) by auto.
        rewrite !Cond by (auto; apply Hwf; lia).
        rewrite (ac_sym n (trow T j) (trow T i)) by (apply Hwf; lia).
        rewrite (Ajp j Hj), App.
        rewrite (ac_sym n (trow T p) (trow T i)) by (auto; apply Hwf; lia). rewrite (Ajp i Hi).
        rewrite Ei0, Ej0. rewrite !andb_false_r. cbn [xorb]. rewrite !xorb_false_r. now apply Hac. }
    intros i j Hi Hj. rewrite (New i Hi), (New j Hj).
    destruct (Pp i Hi) as [Ppi Pip]. destruct (Pp j Hj) as [Ppj Pjp].
    destruct (i =? p)%nat eqn:Eip; destruct (j =? p)%nat eqn:Ejp.
    + apply Nat.eqb_eq in Eip. apply Nat.eqb_eq in Ejp. subst i j.
      rewrite (ac_self n) by apply row_wf_zq. rewrite Ppi. symmetry. apply Nat.eqb_neq. lia.
    + apply Nat.eqb_eq in Eip. subst i. rewrite Ppj.
      assert (Wj : row_wf n (if (j =? i0)%nat then trow T p
                             else if bit q (rx (trow T j)) then rs (trow T j) (trow T p) else trow T j))
        by (destruct (j =? i0)%nat; auto).
      rewrite (ac_sym n) by (auto; apply row_wf_zq). rewrite ac_zq by auto.
      destruct (j =? i0)%nat; [exact Hbit | now apply CondX].
    + apply Nat.eqb_eq in Ejp. subst j. rewrite Pip.
      assert (Wi : row_wf n (if (i =? i0)%nat then trow T p
                             else if bit q (rx (trow T i)) then rs (trow T i) (trow T p) else trow T i))
        by (destruct (i =? i0)%nat; auto).
      rewrite ac_zq by auto.
      destruct (i =? i0)%nat; [exact Hbit | now apply CondX].
    + rewrite AA by assumption.
      apply Nat.eqb_neq in Eip. apply Nat.eqb_neq in Ejp.
      destruct (i =? i0)%nat eqn:Ei0.
      * apply Nat.eqb_eq in Ei0. subst i. unfold pairing. symmetry. apply orb_false_iff.
        split; apply Nat.eqb_neq; lia.
      * destruct (j =? i0)%nat eqn:Ej0; auto.
        apply Nat.eqb_eq in Ej0. subst j. unfold pairing. symmetry. apply orb_false_iff.
        split; apply Nat.eqb_neq; lia.
Qed.

(* writing the scratch row does not touch rows 0..2n-1 *)
Lemma Inv_scratch n T w : Inv n T -> Inv n (upd (2 * n) w T).
Proof.
  intros [HL [Hwf Hac]]. split; [|split].
  - now rewrite length_upd.
  - intros i Hi. unfold trow. rewrite nth_upd_other by lia. now apply Hwf.
  - intros i j Hi Hj. unfold trow. rewrite !nth_upd_other by lia. now apply Hac.
Qed.

(* M preserves the commutation relations, whatever the phase rule and the determined-outcome rule *)
Theorem tableau_inv_M total det : forall qs n T o s T',
  Inv n T -> Forall (fun q => (q < n)%nat) qs ->
  measure (rowsum_with total) det n T qs o = Some (s, T') -> Inv n T'.
Proof.
  induction qs as [|q qs IH]; intros n T o s T' HI Hq H; cbn [measure] in H.
  - now injection H as _ <-.
  - inversion Hq as [|? ? Hq1 Hq2]; subst.
    destruct (first_p n q T) as [i|] eqn:Ep.
    + destruct o as [|b os]; [discriminate|].
      destruct (measure (rowsum_with total) det n (random_outcome (rowsum_with total) n T (n + i) q b) qs os)
        as [[s1 T1]|] eqn:Em; [|discriminate].
      injection H as _ <-.
      unfold first_p in Ep. apply find_from_spec in Ep. destruct Ep as [Hi Hb].
      refine (IH n _ os s1 T1 _ Hq2 Em). apply Inv_random; auto. lia.
    + destruct (measure (rowsum_with total) det n (upd (2 * n) (det n T q) T) qs o) as [[s1 T1]|] eqn:Em; [|discriminate].
      injection H as _ <-.
      refine (IH n _ o s1 T1 _ Hq2 Em). now apply Inv_scratch.
Qed.

(* the initial tableau satisfies the relations, and so does every tableau reached by gate rules
   (tableau_inv_rules) -- here for CliffordBackend.zero_state, by computation for a given n *)
Definition Inv_b (n : nat) (T : tableau) : bool :=
  Nat.eqb (length T) (2 * n + 1)
  && forallb (fun i => Nat.eqb (length (rx (trow T i))) n && Nat.eqb (length (rz (trow T i))) n) (seq 0 (2 * n))
  && forallb (fun i => forallb (fun j => Bool.eqb (anticommute (trow T i) (trow T j)) (pairing n i j)) (seq 0 (2 * n))) (seq 0 (2 * n)).

Lemma Inv_b_sound n T : Inv_b n T = true -> Inv n T.
Proof.
  unfold Inv_b. intros H. apply andb_prop in H. destruct H as [H H3]. apply andb_prop in H. destruct H as [H1 H2].
  split; [now apply Nat.eqb_eq|split].
  - intros i Hi. rewrite forallb_forall in H2. specialize (H2 i ltac:(apply in_seq; lia)).
    apply andb_prop in H2. destruct H2 as [Ha Hb]. split; now apply Nat.eqb_eq.
  - intros i j Hi Hj. rewrite forallb_forall in H3. specialize (H3 i ltac:(apply in_seq; lia)).
    rewrite forallb_forall in H3. specialize (H3 j ltac:(apply in_seq; lia)). now apply eqb_prop.
Qed.

Example Inv_zero_state_3 : Inv 3 (zero_state 3).
Proof. apply Inv_b_sound. vm_compute. reflexivity. Qed.

(* ---------------------------------------------------------------- gate rules preserve Inv *)
Lemma trow_map f T i : (i < length T)%nat -> trow (map f T) i = f (trow T i).
Proof.
  unfold trow. intros H. rewrite (nth_indep _ dummy_row (f dummy_row)) by (now rewrite map_length).
  apply map_nth.
Qed.

Theorem Inv_tab_op n o T : Inv n T -> op_symp o = true -> op_valid n o = true -> Inv n (tab_op o T).
Proof.
  intros [HL [Hwf Hac]] Hs Hv. unfold tab_op. split; [|split].
  - now rewrite map_length.
  - intros i Hi. rewrite trow_map by lia. destruct o; cbn [row_op]; [apply row_wf_app1 | apply row_wf_app2]; now apply Hwf.
  - intros i j Hi Hj. rewrite !trow_map by lia.
    rewrite (tableau_inv_rules n o) by (auto; apply Hwf; lia). now apply Hac.
Qed.
