(* C12/ProofsFloat.v : facts about the bit-exact float model of the Clifford flag and of the angle
   dispatch.  Everything here is decided by computation inside the kernel (vm_compute on primitive
   floats); the sweeps are BOUNDED (|k| <= 4096) and say so in their statements. *)
From Coq Require Import ZArith List Bool Arith Lia PrimFloat.
From QV Require Import C12.ModelFloat C12.ModelTableau C12.ModelExec.
Import ListNotations.
Local Open Scope Z_scope.

(* ---- membership in the symmetric range *)
Lemma In_zrange_from len : forall lo k, lo <= k < lo + Z.of_nat len -> In k (zrange_from lo len).
Proof.
  induction len as [|len IH]; intros lo k H.
  - cbn in H. lia.
  - cbn [zrange_from]. destruct (Z.eq_dec k lo) as [->|Hne]; [now left|right].
    apply IH. lia.
Qed.

Lemma In_zsym K k : 0 <= K -> - K <= k <= K -> In k (zsym K).
Proof. intros HK H. unfold zsym. apply In_zrange_from. rewrite Z2Nat.id by lia. lia. Qed.

Lemma forallb_zsym (P : Z -> bool) K : 0 <= K -> forallb P (zsym K) = true ->
  forall k, - K <= k <= K -> P k = true.
Proof. intros HK H k Hk. rewrite forallb_forall in H. apply H. now apply In_zsym. Qed.

(* ---- one sweep of the float model serves all the bounded statements below (this keeps the independent
   re-check by coqchk, which has no VM, within minutes): fl(pi) = M * 2^-48 with M odd (50 bits), so
   k * fl(pi) is exactly representable iff (odd part of |k|) <= 9; exactly then the flag is True *)
Fixpoint odd_part_fuel (fuel : nat) (k : Z) : Z :=
  match fuel with
  | O => k
  | S f => if Z.even k && negb (k =? 0) then odd_part_fuel f (k / 2) else k
  end.
Definition odd_part (k : Z) : Z := odd_part_fuel 64 (Z.abs k).
Definition exactly_representable (k : Z) : bool := odd_part k <=? 9.

Definition core_ok (k : Z) : bool :=
  Bool.eqb (flag (ang_a k)) (exactly_representable k) && Bool.eqb (flag (ang_b k)) (exactly_representable k)
  && (if exactly_representable k
      then Nat.eqb (rot_branch (ang_a k)) (Z.to_nat (k mod 4)) && Nat.eqb (rot_branch (ang_b k)) (Z.to_nat (k mod 4))
      else true).
Lemma core_sweep : forallb core_ok (zsym 4096) = true.
Proof. vm_compute. reflexivity. Qed.

Lemma core_at k : - 4096 <= k <= 4096 ->
  flag (ang_a k) = exactly_representable k /\ flag (ang_b k) = exactly_representable k
  /\ (exactly_representable k = true ->
      rot_branch (ang_a k) = Z.to_nat (k mod 4) /\ rot_branch (ang_b k) = Z.to_nat (k mod 4)).
Proof.
  intros Hk. pose proof (forallb_zsym core_ok 4096 ltac:(lia) core_sweep k Hk) as H. unfold core_ok in H.
  apply andb_prop in H. destruct H as [H H3]. apply andb_prop in H. destruct H as [H1 H2].
  apply eqb_prop in H1. apply eqb_prop in H2. split; [exact H1|]. split; [exact H2|].
  intros E. rewrite E in H3. apply andb_prop in H3. destruct H3 as [A B]. split; now apply Nat.eqb_eq.
Qed.

Theorem flag_characterised_K : forall k, - 4096 <= k <= 4096 ->
  flag (ang_a k) = exactly_representable k /\ flag (ang_b k) = exactly_representable k.
Proof. intros k Hk. destruct (core_at k Hk) as [A [B _]]. auto. Qed.

(* ---- "x is within 2^-20 of k * fl(pi/2)", in exact integer arithmetic on the binary expansions
   (fl(pi/2) itself is within 2^-53 of pi/2; any sensible notion of "is a multiple of pi/2" implies this) *)
Definition near_multiple (x : float) (k : Z) : Prop :=
  match f_num_den x, f_num_den f_halfpi with
  | Some (a, d), Some (m, e) => 2 ^ 20 * Z.abs (a * 2 ^ e - k * m * 2 ^ d) <= 2 ^ (d + e)
  | _, _ => False
  end.

(* the flag is sound: whatever it accepts is (close to) a multiple of pi/2 *)
Definition flag_sound_stmt : Prop := forall x : float, flag x = true -> exists k : Z, near_multiple x k.

Theorem flag_sound_refuted : exists x : float, flag x = true /\ forall k : Z, ~ near_multiple x k.
Proof.
  exists 1%float. split; [vm_compute; reflexivity|].
  intros k. unfold near_multiple.
  replace (f_num_den 1%float) with (Some (4503599627370496, 52)) by (vm_compute; reflexivity).
  replace (f_num_den f_halfpi) with (Some (7074237752028440, 52)) by (vm_compute; reflexivity).
  change (2 ^ 20) with 1048576. change (2 ^ 52) with 4503599627370496.
  change (2 ^ (52 + 52)) with 20282409603651670423947251286016.
  lia.
Qed.

Corollary flag_sound_false : ~ flag_sound_stmt.
Proof.
  intros H. destruct flag_sound_refuted as [x [Hx Hk]]. destruct (H x Hx) as [k Hn]. exact (Hk k Hn).
Qed.

(* also 1 + pi/2, 1 + pi, ... : the flag accepts x whenever x mod fl(pi/2) is 0 or 1 *)
Example flag_other_false_positives :
  map flag [PrimFloat.add 1 f_halfpi; PrimFloat.add 1 f_pi; 1%float; PrimFloat.sub 1 f_halfpi]
  = [true; true; true; true].
Proof. vm_compute. reflexivity. Qed.

(* ---- completeness on the bounded sweep |k| <= K, both spellings k*np.pi/2 and k*(np.pi/2) *)
Definition flag_complete_stmt (K : Z) : Prop :=
  forall k, - K <= k <= K -> flag (ang_a k) = true /\ flag (ang_b k) = true.

Theorem flag_complete_K_refuted : exists k, - 4096 <= k <= 4096 /\ flag (ang_a k) = false /\ flag (ang_b k) = false.
Proof. exists 11. split; [lia|]. split; [vm_compute; reflexivity | vm_compute; reflexivity]. Qed.

Corollary flag_complete_4096_false : ~ flag_complete_stmt 4096.
Proof.
  intros H. destruct (H 11 ltac:(lia)) as [Ha _].
  assert (E : flag (ang_a 11) = false) by (vm_compute; reflexivity). congruence.
Qed.

Theorem flag_complete_10_partial : flag_complete_stmt 10.
Proof.
  intros k Hk. destruct (flag_characterised_K k ltac:(lia)) as [A B]. rewrite A, B.
  pose proof (forallb_zsym exactly_representable 10 ltac:(lia) ltac:(vm_compute; reflexivity) k Hk) as H. auto.
Qed.

Lemma filter_ext_in' {A} (f g : A -> bool) l : (forall x, In x l -> f x = g x) -> filter f l = filter g l.
Proof.
  induction l as [|a l IH]; intros H; cbn; auto.
  rewrite (H a (or_introl eq_refl)). rewrite IH by (intros; apply H; now right). reflexivity.
Qed.

Lemma In_zsym_range K k : 0 <= K -> In k (zsym K) -> - K <= k <= K.
Proof.
  intros HK. unfold zsym. remember (Z.to_nat (2 * K + 1)) as len. 
  assert (G : forall len lo k, In k (zrange_from lo len) -> lo <= k < lo + Z.of_nat len).
  { induction len0 as [|l IH]; intros lo k0 H; cbn in H; [contradiction|]. destruct H as [<-|H]; [lia|]. apply IH in H. lia. }
  intros H. apply G in H. subst len. rewrite Z2Nat.id in H by lia. lia.
Qed.

Theorem flag_missed_count :
  Z.of_nat (length (filter (fun k => negb (flag (ang_a k))) (zsym 4096))) = 8086
  /\ Z.of_nat (length (filter (fun k => negb (flag (ang_b k))) (zsym 4096))) = 8086
  /\ Z.of_nat (length (zsym 4096)) = 8193.
Proof.
  assert (Ea : filter (fun k => negb (flag (ang_a k))) (zsym 4096) = filter (fun k => negb (exactly_representable k)) (zsym 4096)).
  { apply filter_ext_in'. intros k Hk. apply In_zsym_range in Hk; [|lia]. destruct (flag_characterised_K k Hk) as [A _]. now rewrite A. }
  assert (Eb : filter (fun k => negb (flag (ang_b k))) (zsym 4096) = filter (fun k => negb (exactly_representable k)) (zsym 4096)).
  { apply filter_ext_in'. intros k Hk. apply In_zsym_range in Hk; [|lia]. destruct (flag_characterised_K k Hk) as [_ B]. now rewrite B. }
  rewrite Ea, Eb. split; [|split]; vm_compute; reflexivity.
Qed.

(* ---- the dispatch at the flagged multiples (bounded sweep): the engine takes the branch of k mod 4 *)
Definition branch_ok (k : Z) (theta : float) : bool :=
  negb (flag theta) || Nat.eqb (rot_branch theta) (Z.to_nat (k mod 4)).
Definition cbranch_ok (k : Z) (theta : float) : bool :=
  if flag theta then match crot_branch theta with Some j => Nat.eqb j (Z.to_nat (k mod 4)) | None => false end else true.

Theorem dispatch_selects_K : forall k, - 4096 <= k <= 4096 ->
  (flag (ang_a k) = true -> rot_branch (ang_a k) = Z.to_nat (k mod 4))
  /\ (flag (ang_b k) = true -> rot_branch (ang_b k) = Z.to_nat (k mod 4)).
Proof.
  intros k Hk. destruct (core_at k Hk) as [A [B C]].
  split; intros Hf; [rewrite A in Hf | rewrite B in Hf]; destruct (C Hf); assumption.
Qed.

Theorem cdispatch_selects_K : forall k, - 4096 <= k <= 4096 ->
  flag (ang_pi k) = true -> crot_branch (ang_pi k) = Some (Z.to_nat (k mod 4)).
Proof.
  intros k Hk Hf.
  pose proof (forallb_zsym (fun k => cbranch_ok k (ang_pi k)) 4096 ltac:(lia)
                ltac:(vm_compute; reflexivity) k Hk) as H.
  cbv beta in H. unfold cbranch_ok in H. rewrite Hf in H.
  destruct (crot_branch (ang_pi k)) as [j|]; [|discriminate].
  apply Nat.eqb_eq in H. now subst.
Qed.

(* without the flag in front, the dispatch alone is wrong at many multiples: a repair of the flag
   alone (e.g. a tolerance test) would expose this *)
Theorem dispatch_unflagged_refuted : exists k, - 4096 <= k <= 4096 /\ rot_branch (ang_a k) <> Z.to_nat (k mod 4).
Proof. exists (-4092). split; [lia|]. vm_compute. discriminate. Qed.

(* ---- controlled rotations: _CRn_.clifford uses the pi/2 test of RX/RY/RZ, the engine has branches for
   multiples of pi only, so the flag accepts angles for which the engine has no branch *)
Definition cr_flag_ok_stmt : Prop :=
  forall theta : float, flag theta = true -> crot_branch theta <> None.

Theorem cr_flag_refuted : exists theta : float, flag theta = true /\ crot_branch theta = None.
Proof. exists f_halfpi. split; vm_compute; reflexivity. Qed.

Corollary cr_flag_ok_false : ~ cr_flag_ok_stmt.
Proof. intros H. destruct cr_flag_refuted as [th [Hf Hn]]. exact (H th Hf Hn). Qed.

(* what the engine then does: nothing (apply_gate_clifford yields ANone) although the gate is accepted *)
Example crx_halfpi_accepted_and_ignored :
  let g := mkGate cCRX [0%nat; 1%nat] [0%nat] [1%nat] (Some (PFloat f_halfpi)) (Some f_halfpi) false in
  clifford g = true /\ apply_gate_clifford g = ANone.
Proof. split; vm_compute; reflexivity. Qed.

(* the candidate repair (test theta / 2; withdrawn, see ModelExec.clifford_at): on the bounded sweep of the
   multiples of pi/2 (both spellings) and of pi it would accept only angles for which the engine has a branch,
   at fl(k*pi) the branch of k mod 4, and it would refuse the odd multiples of pi/2 *)
Definition cr_ok (k : Z) (theta : float) (unit_pi : bool) : bool :=
  negb (flag_half theta)
  || match crot_branch theta with
     | Some j => if unit_pi then Nat.eqb j (Z.to_nat (k mod 4)) else true
     | None => false
     end.

Theorem cr_half_flag_ok_K : forall k, - 256 <= k <= 256 ->
  (flag_half (ang_a k) = true -> crot_branch (ang_a k) <> None)
  /\ (flag_half (ang_b k) = true -> crot_branch (ang_b k) <> None)
  /\ (flag_half (ang_pi k) = true -> crot_branch (ang_pi k) = Some (Z.to_nat (k mod 4)))
  /\ (Z.odd k = true -> flag_half (ang_a k) = false) /\ (Z.odd k = true -> flag_half (ang_b k) = false).
Proof.
  intros k Hk.
  pose proof (forallb_zsym (fun k => cr_ok k (ang_a k) false && cr_ok k (ang_b k) false && cr_ok k (ang_pi k) true
                                     && (negb (Z.odd k) || (negb (flag_half (ang_a k)) && negb (flag_half (ang_b k)))))
                256 ltac:(lia) ltac:(vm_compute; reflexivity) k Hk) as H.
  cbv beta in H. apply andb_prop in H. destruct H as [H Hodd]. apply andb_prop in H. destruct H as [H Hp].
  apply andb_prop in H. destruct H as [Ha Hb]. unfold cr_ok in *.
  repeat split.
  - intros Hf. rewrite Hf in Ha. cbn [negb orb] in Ha. destruct (crot_branch (ang_a k)); [discriminate|discriminate].
  - intros Hf. rewrite Hf in Hb. cbn [negb orb] in Hb. destruct (crot_branch (ang_b k)); [discriminate|discriminate].
  - intros Hf. rewrite Hf in Hp. cbn [negb orb] in Hp. destruct (crot_branch (ang_pi k)) as [j|]; [|discriminate].
    apply Nat.eqb_eq in Hp. now subst.
  - intros Ho. rewrite Ho in Hodd. cbn [negb orb] in Hodd. apply andb_prop in Hodd. destruct Hodd as [Ha2 _].
    now destruct (flag_half (ang_a k)).
  - intros Ho. rewrite Ho in Hodd. cbn [negb orb] in Hodd. apply andb_prop in Hodd. destruct Hodd as [_ Hb2].
    now destruct (flag_half (ang_b k)).
Qed.

Example crx_with_half_flag :
  let g th := mkGate cCRX [0%nat; 1%nat] [0%nat] [1%nat] (Some (PFloat th)) (Some th) false in
  clifford_half (g f_halfpi) = false /\ clifford_half (g f_pi) = true /\ apply_gate_clifford (g f_pi) <> ANone.
Proof. split; [|split]; vm_compute; try reflexivity. discriminate. Qed.

(* even then the float test of issue E would remain: CRX(2.0) *)
Theorem cr_half_flag_sound_refuted : exists theta : float, flag_half theta = true /\ crot_branch theta = None.
Proof. exists 2%float. split; vm_compute; reflexivity. Qed.

(* non-vacuity of the sweeps: some multiples are flagged, in every residue class *)
Example flagged_examples : map (fun k => flag (ang_a k)) [0; 1; 2; 3; -1; -6; 10] = [true; true; true; true; true; true; true].
Proof. vm_compute. reflexivity. Qed.
